/-
C14 — CylindricalSandwich (cylindrical_sandwich.py): annulus a ≤ r ≤ b, 0 ≤ θ ≤ π/2.
scipy's J_k, Y_k, the Newton roots α_nm and the quadrature are atoms; all that is assumed of a radial factor
R(r) = J_k(α r) + β Y_k(α r) is Bessel's equation (`IsBesselRadial`).  The hand model has the shape of ONE
term of `_run` (`cylTerm`) plus the static part (`cylStatic`); finite sums are handled by `Lemmas.Heat.cylgen`.

**Partial** (what can be said in favour of the code):
  * `cyl_residual`: for any finite sum of terms  C_i R_i(r) sin(k_i θ) e^{-κ e_i t}  plus the static part, the
    residual of the polar heat equation is  Σ κ (α_i² - e_i)·term_i  (r > 0): the series satisfies its equation
    iff every decay exponent is the SQUARE of the radial wave number;
  * `cyl_heat_eq_if_squared_partial`: with e_i = α_i² the equation holds for every finite sum;
  * `cyl_theta_zero`: T(r, 0, t) = T0 exactly.
The code uses e = α (not α²) and returns T0 + T1 at θ = π/2: see `FindingCylSandwich.lean`.
Not covered: the radial no-flux conditions (they are R'(a) = R'(b) = 0, i.e. the defining equations of the
Newton atoms α_nm, β_nm), the normalisation A_nm (the code uses R(b), R(a) un-squared — modelled in `cylAnm`,
tied by the correspondence, not compared with ∫ r R² dr), and the initial profile.
-/
import EPV.Lemmas.HeatCyl

set_option linter.all false

open EPV EPV.Spec.Heat EPV.Model.HeatSeries EPV.Lemmas.Heat Finset Filter Topology

namespace EPV.C14

noncomputable section

/-- residual of the polar heat equation for any finite sum (every M, all coefficients), r > 0 -/
theorem cyl_residual (M : ℕ) (κ : ℝ) (C kk al e : ℕ → ℝ) (R R' R'' : ℕ → ℝ → ℝ)
    (hR : ∀ i, IsBesselRadial (kk i) (al i) (R i) (R' i) (R'' i)) (T0 T1 : ℝ) (r θ t : ℝ) (hr : 0 < r) :
    heatResPolar κ (cylgen M κ C kk e R (fun θ => cylStatic T0 T1 θ)) r θ t
      = ∑ i ∈ range M, κ * (al i ^ 2 - e i) * (C i * R i r * Real.sin (kk i * θ) * Real.exp (-κ * e i * t)) := by
  have hst : ∀ y : ℝ, HasDerivAt (fun θ => cylStatic T0 T1 θ) (2 * T1 / Real.pi) y := by
    intro y
    have : (fun θ => cylStatic T0 T1 θ) = fun θ : ℝ => T0 + 2 * T1 * θ / Real.pi := by
      funext θ; unfold cylStatic; heat_ops; push_cast; ring
    rw [this]
    simpa using (((hasDerivAt_id y).const_mul (2 * T1)).div_const Real.pi).const_add T0
  exact cylgen_residual M κ C kk al e R R' R'' hR _ _ hst r θ t hr

/-- **Partial.**  If every decay exponent is the square of its radial wave number, the series satisfies the heat
equation in the annulus, for every number of terms and all coefficients. -/
theorem cyl_heat_eq_if_squared_partial (M : ℕ) (κ : ℝ) (C kk al : ℕ → ℝ) (R R' R'' : ℕ → ℝ → ℝ)
    (hR : ∀ i, IsBesselRadial (kk i) (al i) (R i) (R' i) (R'' i)) (T0 T1 : ℝ) (r θ t : ℝ) (hr : 0 < r) :
    heatResPolar κ (cylgen M κ C kk (fun i => al i ^ 2) R (fun θ => cylStatic T0 T1 θ)) r θ t = 0 := by
  rw [cyl_residual M κ C kk al _ R R' R'' hR T0 T1 r θ t hr]
  simp

/-- the hand model's term is of the generic shape (one term, exponent `alpha`) -/
theorem cylTerm_eq (κ T1 a b alpha Rb Ra quad : ℝ) (n m : ℕ) (R : ℝ → ℝ) (T0 : ℝ) :
    (fun r θ t => cylTerm κ T1 a b alpha (R r) Rb Ra quad θ t n m + cylStatic T0 T1 θ)
      = cylgen 1 κ (fun _ => 4 * T1 / Real.pi * ((-1) ^ (n + 1) / (2 * (n + 1) : ℕ)) * (1 / cylAnm a b alpha Rb Ra m) * quad)
          (fun _ => ((2 * (n + 1) : ℕ) : ℝ)) (fun _ => alpha) (fun _ => R) (fun θ => cylStatic T0 T1 θ) := by
  funext r θ t
  unfold cylgen cylTerm
  simp only [Finset.sum_range_one]
  heat_ops
  rw [negOnePow_real]
  norm_num

/-- `T(r, 0, t) = T0`: the declared value on θ = 0 -/
theorem cyl_theta_zero (κ T0 T1 a b alpha Rr Rb Ra quad t : ℝ) (n m : ℕ) :
    cylTerm κ T1 a b alpha Rr Rb Ra quad 0 t n m + cylStatic T0 T1 0 = T0 := by
  unfold cylTerm cylStatic
  heat_ops
  simp

end

end EPV.C14
