/-
C14 — the TRACED code itself (constructor + `_run` run symbolically end to end, small Nsum) satisfies the
properties proved for the hand model at every N:

  PlanarSandwich, PlanarSandwichHot, PlanarSandwichHalf (Nsum = 3): heat equation at every (x, t); both declared
  boundary conditions for every t;
  Rod1D (Nsum = 3) on its four special-case leaves: heat equation;
  Hutchens1 (Nsum = 3): radial heat equation at every r ≠ 0; surface value;
  Rectangle (Nsum = 2): 2-D heat equation.

These are corollaries of "traced instance = hand model" (`Lemmas/HeatTraced`, `Lemmas/HeatSphere`, `Rectangle.lean`)
and of the every-N theorems; they close the loop from the source text to the property without the hand model in
the statement.
-/
import EPV.Lemmas.HeatTraced
import EPV.Lemmas.HeatSphere
import EPV.Lemmas.HeatRect
import EPV.Gen.RectangleN2
import EPV.Lemmas.Bridge.HeatTac

set_option linter.all false

open EPV EPV.Gen EPV.Spec.Heat EPV.Model.HeatSeries EPV.Lemmas.Heat Finset Filter Topology

namespace EPV.C14

noncomputable section

/-- generic: the truncated series satisfies the heat equation (restated from `Rod.lean: rod_heat_eq`) -/
private theorem series_heat_eq (N : ℕ) (κ c1 : ℝ) (st : ℝ → ℝ) (hst : ∀ y, HasDerivAt st c1 y) (k A B : ℕ → ℝ) (x t : ℝ) :
    HeatEq1D κ (rodSeries N κ st k A B) x t := by
  rw [rodSeries_eq_ser]
  unfold HeatEq1D dt dxx
  have hx : (fun y => dx (ser N κ st k A B) y t) = fun y => serX N κ c1 k A B y t := by
    funext y; exact dx_ser N κ c1 st hst k A B y t
  rw [hx, (serX_hasDerivAt_x N κ c1 k A B x t).deriv, (ser_hasDerivAt_t N κ st k A B x t).deriv, Finset.mul_sum]
  refine Finset.sum_congr rfl fun n _ => ?_
  ring

/-- **PlanarSandwich as traced (Nsum = 3)**: `T_t = κ T_xx` for all parameter values, x, t -/
theorem sandwich3_heat_eq (p : Sandwich3.P) (x t : ℝ) : HeatEq1D p.kappa (Sandwich3.temperature p) x t := by
  have h : Sandwich3.temperature p = rodBC1 3 (sandwichP p) := by funext x t; exact sandwich3_model p x t
  rw [h]
  exact series_heat_eq 3 _ _ _ (bc1Static_hasDerivAt (sandwichP p)) _ _ _ x t

theorem sandwichHot3_heat_eq (p : SandwichHot3.P) (x t : ℝ) : HeatEq1D p.kappa (SandwichHot3.temperature p) x t := by
  have h : SandwichHot3.temperature p = rodBC2 3 (sandwichHotP p) := by funext x t; exact sandwichHot3_model p x t
  rw [h]
  exact series_heat_eq 3 _ _ _ (bc2Static_hasDerivAt (sandwichHotP p)) _ _ _ x t

theorem sandwichHalf3_heat_eq (p : SandwichHalf3.P) (x t : ℝ) : HeatEq1D p.kappa (SandwichHalf3.temperature p) x t := by
  have h : SandwichHalf3.temperature p = rodBC3 3 (sandwichHalfP p) := by funext x t; exact sandwichHalf3_model p x t
  rw [h]
  exact series_heat_eq 3 _ _ _ (bc3Static_hasDerivAt (sandwichHalfP p)) _ _ _ x t

/-- **PlanarSandwich as traced**: the declared end temperatures `T(0,t) = TB`, `T(L,t) = TT` (L ≠ 0), every t -/
theorem sandwich3_bc (p : Sandwich3.P) (hL : p.L ≠ 0) (t : ℝ) :
    Sandwich3.temperature p 0 t = p.TB ∧ Sandwich3.temperature p p.L t = p.TT := by
  rw [sandwich3_model, sandwich3_model]
  unfold rodBC1
  rw [rodSeries_eq_ser, ser, ser]
  have h0 : ∀ n : ℕ, (zeroCoef n : ℝ) * Real.cos (knInt (sandwichP p).L n * 0) + bc1B (sandwichP p) n * Real.sin (knInt (sandwichP p).L n * 0) = 0 := by
    intro n; simp [zeroCoef_real]
  have hLL : ∀ n : ℕ, (zeroCoef n : ℝ) * Real.cos (knInt (sandwichP p).L n * p.L) + bc1B (sandwichP p) n * Real.sin (knInt (sandwichP p).L n * p.L) = 0 := by
    intro n
    have : Real.sin (knInt (sandwichP p).L n * p.L) = 0 := sin_knInt_L p.L hL n
    simp [zeroCoef_real, this]
  rw [Finset.sum_eq_zero (fun n _ => by rw [h0 n, zero_mul]), Finset.sum_eq_zero (fun n _ => by rw [hLL n, zero_mul])]
  simp only [bc1Static_real, sandwichP]
  constructor
  · ring
  · field_simp; ring

/-- PlanarSandwich defaults: L = 2 -/
example : (2 : ℝ) ≠ 0 := by norm_num

/-- **Rod1D as traced (Nsum = 3)**, the four special cases: heat equation -/
theorem rod3_heat_eq (q : Rod3.P) (x t : ℝ)
    (h : (q.alpha1 ≠ 0 ∧ q.beta1 = 0 ∧ q.alpha2 ≠ 0 ∧ q.beta2 = 0) ∨ (q.alpha1 ≠ 0 ∧ q.beta1 = 0 ∧ q.alpha2 = 0 ∧ q.beta2 ≠ 0)
      ∨ (q.alpha1 = 0 ∧ q.beta1 ≠ 0 ∧ q.alpha2 ≠ 0 ∧ q.beta2 = 0)
      ∨ (q.alpha1 = 0 ∧ q.beta1 ≠ 0 ∧ q.alpha2 = 0 ∧ q.beta2 ≠ 0 ∧ q.gamma1 / q.beta1 = q.gamma2 / q.beta2)) :
    HeatEq1D q.kappa (Rod3.temperature q) x t := by
  rcases h with ⟨h1, h2, h3, h4⟩ | ⟨h1, h2, h3, h4⟩ | ⟨h1, h2, h3, h4⟩ | ⟨h1, h2, h3, h4, hF⟩
  · have e : Rod3.temperature q = rodBC1 3 (rod3P q) := by funext x t; exact (rod3_bc1_model q x t h1 h2 h3 h4).1
    rw [e]; exact series_heat_eq 3 _ _ _ (bc1Static_hasDerivAt (rod3P q)) _ _ _ x t
  · have e : Rod3.temperature q = rodBC3 3 (rod3P q) := by funext x t; exact (rod3_bc3_model q x t h1 h2 h3 h4).1
    rw [e]; exact series_heat_eq 3 _ _ _ (bc3Static_hasDerivAt (rod3P q)) _ _ _ x t
  · have e : Rod3.temperature q = rodBC4 3 (rod3P q) := by funext x t; exact (rod3_bc4_model q x t h1 h2 h3 h4).1
    rw [e]; exact series_heat_eq 3 _ _ _ (bc4Static_hasDerivAt (rod3P q)) _ _ _ x t
  · have e : Rod3.temperature q = rodBC2 3 (rod3P q) := by funext x t; exact (rod3_bc2_model q x t h1 h2 h3 h4 hF).1
    rw [e]; exact series_heat_eq 3 _ _ _ (bc2Static_hasDerivAt (rod3P q)) _ _ _ x t

/-- Rod1D defaults are the first case -/
example : ((1 : ℝ) ≠ 0 ∧ (0 : ℝ) = 0 ∧ (1 : ℝ) ≠ 0 ∧ (0 : ℝ) = 0) := by norm_num

/-- **Rectangle as traced (Nsum = 2)**: 2-D heat equation for all parameter values and points -/
theorem rectangleN2_heat_eq (p : RectangleN2.P) (x y t : ℝ) :
    HeatEq2D p.kappa (RectangleN2.temperature p) x y t := by
  have h : RectangleN2.temperature p = fun x y t => rectangle 2 p.kappa p.a p.b p.Ttop x y t := by
    funext x y t
    have := congrFun (congrFun (congrFun (rectangle_eq 2 p.kappa p.a p.b p.Ttop) x) y) t
    rw [this]
    simp only [epv_tree, epv_leaf, rect, Finset.sum_range_succ, Finset.sum_range_zero, rectAnm_real, rectKn_real,
      rectKm_real, rectC]
    push_cast
    heat_eq
  rw [h, rectangle_eq]
  exact rect_heat_eq 2 p.kappa _ _ _ _ _ _ x y t

/-- **Hutchens1 as traced (Nsum = 3)**: the radial heat equation at every r ≠ 0, all parameter values -/
theorem hutchens1N3_heat_eq (p : Hutchens1N3.P) (r t : ℝ) (hr : r ≠ 0) :
    HeatEqSphere (p.k / (p.rho * p.cp)) (Hutchens1N3.temperature p) r t := by
  set G := h1Series 3 (p.k / (p.rho * p.cp)) p.b p.Tb p.T0 with hG
  have hFG : ∀ y, y ≠ 0 → ∀ s, Hutchens1N3.temperature p y s = G y s := by
    intro y hy s; rw [h1N3_eq, if_neg hy]
  have hdx : ∀ y, y ≠ 0 → dx (Hutchens1N3.temperature p) y t = dx G y t := by
    intro y hy
    unfold dx
    apply Filter.EventuallyEq.deriv_eq
    filter_upwards [isOpen_ne.mem_nhds hy] with z hz
    exact hFG z hz t
  have hmain := h1_heat_eq 3 (p.k / (p.rho * p.cp)) p.b p.Tb p.T0 r t hr
  unfold HeatEqSphere dt dxx at hmain ⊢
  have e1 : (fun s => Hutchens1N3.temperature p r s) = fun s => G r s := funext fun s => hFG r hr s
  have e2 : (fun y => dx (Hutchens1N3.temperature p) y t) =ᶠ[𝓝 r] fun y => dx G y t := by
    filter_upwards [isOpen_ne.mem_nhds hr] with y hy
    exact hdx y hy
  rw [e1, e2.deriv_eq, hdx r hr]
  exact hmain

/-- Hutchens1 as traced: the surface value `T(b, t) = Tb` (b ≠ 0) -/
theorem hutchens1N3_surface (p : Hutchens1N3.P) (t : ℝ) (hb : p.b ≠ 0) : Hutchens1N3.temperature p p.b t = p.Tb := by
  rw [h1N3_eq, if_neg hb, h1Series_eq]
  unfold h1ser
  rw [Finset.sum_eq_zero, mul_zero, add_zero]
  intro m _
  have : sph (h1c p.b (m + 1)) p.b = 0 := by
    unfold sph h1c
    have : Real.pi * ((m + 1 : ℕ) : ℝ) / p.b * p.b = ((m + 1 : ℕ) : ℝ) * Real.pi := by field_simp
    rw [this, Real.sin_nat_mul_pi, zero_div]
  rw [this, mul_zero, zero_mul]

end

end EPV.C14
