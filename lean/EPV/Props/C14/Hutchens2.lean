/-
C14 — Hutchens 2 (hutchens2.py): steady temperature in a cylinder of radius b and height L with a uniform heat
source g₀.  scipy's I₀ is an atom; the hand model `hutchens2` mirrors the loop as written.

Proved for every N (what holds):
  * the end faces: T(r, 0) = T0 and T(r, L) = TL exactly (every sine vanishes there);
  * `hutchens2_laplace_partial`: given only the modified Bessel equation for I₀, the returned field satisfies
        (1/r)(r T_r)_r + T_zz + g₀/k = Σ_n w_n (2 g₀/k) sin(λ_n z),   w_n = N - n,
    for r ≠ 0; in particular the stated equation holds when g₀ = 0.  **Partial**: with a source (g₀ ≠ 0, the
    default) the right-hand side does not vanish — the source series of the code carries no I₀ ratio and 1/n²
    instead of 1/n³ — and the radial condition T(b, z) = Tb is missed; both are recorded in
    `FindingHutchens2.lean` together with the accumulator.
  * the traced `_run` (Nsum = 2, I₀ values as atoms) equals the hand model.
-/
import EPV.Lemmas.HeatCyl
import EPV.Gen.Hutchens2N2
import EPV.Tactics
import EPV.Lemmas.Bridge.HeatTac

set_option linter.all false

open EPV EPV.Gen EPV.Spec.Heat EPV.Model.HeatSeries EPV.Lemmas.Heat Finset Filter Topology

namespace EPV.C14

noncomputable section

/-- bottom face: `T(r, 0) = T0`, every N -/
theorem hutchens2_bottom (N : ℕ) (k g0 Tb T0 TL L : ℝ) (I0r I0b : ℕ → ℝ) :
    hutchens2 N k g0 Tb T0 TL L 0 I0r I0b = T0 := by
  rw [hutchens2_eq_partial_sums, h2Static_real]
  simp [h2Inc_real]

/-- top face: `T(r, L) = TL`, every N (L ≠ 0) -/
theorem hutchens2_top (N : ℕ) (k g0 Tb T0 TL L : ℝ) (hL : L ≠ 0) (I0r I0b : ℕ → ℝ) :
    hutchens2 N k g0 Tb T0 TL L L I0r I0b = TL := by
  rw [hutchens2_eq_partial_sums, h2Static_real]
  have h : ∀ n : ℕ, Real.sin (h2lam L n * L) = 0 := fun n => by
    have : h2lam L n * L = ((2 * n + 1 : ℕ) : ℝ) * Real.pi := by unfold h2lam; push_cast; field_simp
    rw [this, Real.sin_nat_mul_pi]
  simp only [h2Inc_real, h, mul_zero, Finset.sum_const_zero, add_zero, sub_self]
  field_simp
  ring

/-- defaults: L = 2 -/
example : (2 : ℝ) ≠ 0 := by norm_num

/-- the field the code returns, as a function of (r, z), when its I₀ values are those of a function `I` -/
def h2Field (N : ℕ) (k g0 Tb T0 TL L b : ℝ) (I : ℝ → ℝ) (r z : ℝ) : ℝ :=
  hutchens2 N k g0 Tb T0 TL L z (fun n => I (h2lam L n * r)) (fun n => I (h2lam L n * b))

/-- **Partial.**  Cylindrical Poisson operator applied to the returned field, every N, r ≠ 0, given only the
modified Bessel equation of order 0 for the atom `I`:
`(1/r)(r T_r)_r + T_zz + g₀/k = Σ_{n<N} (N - n) (2 g₀/k) sin(λ_n z)`  (L ≠ 0, k ≠ 0). -/
theorem hutchens2_laplace_partial (N : ℕ) (k g0 Tb T0 TL L b : ℝ) (hL : L ≠ 0) (hk : k ≠ 0) (I I' I'' : ℝ → ℝ) (hI : IsModBessel0 I I' I'')
    (r z : ℝ) (hr : r ≠ 0) :
    deriv (fun u => deriv (fun v => h2Field N k g0 Tb T0 TL L b I v z) u) r
        + 1 / r * deriv (fun v => h2Field N k g0 Tb T0 TL L b I v z) r
        + deriv (fun u => deriv (fun v => h2Field N k g0 Tb T0 TL L b I r v) u) z + g0 / k
      = ∑ n ∈ range N, ((N : ℝ) - n) * (2 * g0 / k) * Real.sin (h2lam L n * z) := by
  -- the field in generic form
  have hgen : h2Field N k g0 Tb T0 TL L b I = h2gen N
      (fun n => ((N : ℝ) - n) * ((2 * Tb - T0 - TL) * (2 / Real.pi) / (2 * n + 1)) / I (h2lam L n * b))
      (fun n => ((N : ℝ) - n) * -(2 * g0 * (L * L) / (Real.pi * Real.pi * k) / ((2 * n + 1) * (2 * n + 1))))
      (h2lam L) I (fun z => T0 + (TL - T0) * z / L + g0 / (2 * k) * z * (L - z)) := by
    funext r z
    unfold h2Field h2gen
    rw [hutchens2_eq_partial_sums, sum_partial_sums, h2Static_real, add_comm]
    congr 1
    refine Finset.sum_congr rfl fun n _ => ?_
    rw [h2Inc_real]
    ring
  have hst : ∀ y : ℝ, HasDerivAt (fun z => T0 + (TL - T0) * z / L + g0 / (2 * k) * z * (L - z))
      ((TL - T0) / L + g0 / (2 * k) * (L - 2 * y)) y := by
    intro y
    have h1 : HasDerivAt (fun z : ℝ => (TL - T0) * z / L) ((TL - T0) / L) y := by
      simpa using ((hasDerivAt_id y).const_mul (TL - T0)).div_const L
    have h2 : HasDerivAt (fun z : ℝ => g0 / (2 * k) * z * (L - z)) (g0 / (2 * k) * (L - 2 * y)) y := by
      have := ((hasDerivAt_id y).const_mul (g0 / (2 * k))).mul ((hasDerivAt_id y).const_sub L)
      refine this.congr_deriv ?_
      simp only [id]; ring
    exact (h1.const_add T0).add h2
  have hst' : ∀ y : ℝ, HasDerivAt (fun y => (TL - T0) / L + g0 / (2 * k) * (L - 2 * y)) (-(g0 / k)) y := by
    intro y
    have := ((((hasDerivAt_id y).const_mul 2).const_sub L).const_mul (g0 / (2 * k))).const_add ((TL - T0) / L)
    refine this.congr_deriv ?_
    field_simp
  rw [hgen, h2gen_laplace N _ _ (h2lam L) I I' I'' hI _ _ _ hst hst' r z hr]
  rw [add_assoc, neg_add_cancel, add_zero]
  refine Finset.sum_congr rfl fun n _ => ?_
  unfold h2lam
  have hπ := Real.pi_ne_zero
  have : (2 * (n : ℝ) + 1) ≠ 0 := by positivity
  field_simp

/-- without a source the stated equation holds (every N, r ≠ 0) — still only **partial** for the property,
because the radial boundary value is missed (see the finding) -/
theorem hutchens2_laplace_no_source_partial (N : ℕ) (k Tb T0 TL L b : ℝ) (hL : L ≠ 0) (hk : k ≠ 0) (I I' I'' : ℝ → ℝ)
    (hI : IsModBessel0 I I' I'') (r z : ℝ) (hr : r ≠ 0) :
    PoissonCyl (0 / k) (h2Field N k 0 Tb T0 TL L b I) r z := by
  unfold PoissonCyl
  rw [hutchens2_laplace_partial N k 0 Tb T0 TL L b hL hk I I' I'' hI r z hr]
  simp

/-- **the traced code** (`Hutchens2._run`, Nsum = 2, I₀ values as atoms) is the hand model -/
theorem hutchens2N2_eq (p : Hutchens2N2.P) (r z : ℝ) :
    Hutchens2N2.temperature p r z
      = hutchens2 2 p.k p.g0 p.Tb p.T0 p.TL p.L z (fun n => if n = 0 then p.I0r0 else p.I0r1)
          (fun n => if n = 0 then p.I0b0 else p.I0b1) := by
  rw [hutchens2_eq_partial_sums, h2Static_real]
  simp only [epv_tree, epv_leaf, Finset.sum_range_succ, Finset.sum_range_zero, h2Inc_real, h2lam]
  heat_num_eq

theorem hutchens2N2_leaves : Hutchens2N2.okLeaves = [0] := rfl

end

end EPV.C14
