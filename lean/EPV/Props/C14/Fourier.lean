/-
C14 — the coefficients of BC1..BC4 ARE the Fourier coefficients of (initial profile − static part).

With  f(x) = T_a + (T_b − T_a) x / L  (= initial profile minus static profile, T_a, T_b as in the source) and the
eigenfunctions  X_n = sin k_n x  (BC1, BC3)  or  cos k_n x  (BC2, BC4):

    coefficient_n = (2/L) ∫₀ᴸ f(x) X_n(x) dx        (and A₀ = (1/L) ∫₀ᴸ f for BC2),

proved for every n (n ≥ 1 for BC1, BC2) and all parameter values, L ≠ 0.  The eigenfunctions are orthogonal with
∫₀ᴸ X_n² = L/2  (`sin_orthogonal`, `cos_orthogonal`, `sin_sq_integral`, `cos_sq_integral` for arbitrary wave
numbers with sin/cos of (k ± m)L vanishing), so 2/L is the right normalisation.
Also: the static amplitudes of the Rectangle's top edge are the sine coefficients of the constant Ttop.

What is NOT proved (stated in `Spec.Heat.InitialLimit`): that the series with these coefficients converges to f
in the interior as t → 0⁺ — completeness of the eigenfunction systems.  `initial_limit_statement_partial` records
the statement for the four cases.
-/
import EPV.Lemmas.HeatSeries
import EPV.Lemmas.HeatRect
import Mathlib.Analysis.SpecialFunctions.Integrals.Basic

set_option linter.all false

open EPV EPV.Spec.Heat EPV.Model.HeatSeries EPV.Lemmas.Heat Finset MeasureTheory intervalIntegral

namespace EPV.C14

noncomputable section

private theorem hlin'' (c z : ℝ) : HasDerivAt (fun u : ℝ => c * u) c z := by
  simpa using (hasDerivAt_id z).const_mul c

/-- `∫₀ᴸ (a + b x) sin(k x) dx`  by the antiderivative  `-(a + b x) cos(kx)/k + b sin(kx)/k²` -/
theorem integral_affine_sin (a b k L : ℝ) (hk : k ≠ 0) :
    ∫ x in (0 : ℝ)..L, (a + b * x) * Real.sin (k * x)
      = (-(a + b * L) * Real.cos (k * L) / k + b * Real.sin (k * L) / k ^ 2) - (-(a) / k) := by
  have hder : ∀ x ∈ Set.uIcc (0 : ℝ) L, HasDerivAt (fun x => -(a + b * x) * Real.cos (k * x) / k + b * Real.sin (k * x) / k ^ 2)
      ((a + b * x) * Real.sin (k * x)) x := by
    intro x _
    have h1 : HasDerivAt (fun x : ℝ => -(a + b * x)) (-b) x := by
      have h0 : HasDerivAt (fun x : ℝ => a + b * x) b x := by
        simpa using ((hasDerivAt_id x).const_mul b).const_add a
      exact EPV.D.neg h0
    have := ((h1.mul (hlin'' k x).cos).div_const k).add (((hlin'' k x).sin.const_mul b).div_const (k ^ 2))
    refine this.congr_deriv ?_
    field_simp
    ring
  have hint : IntervalIntegrable (fun x => (a + b * x) * Real.sin (k * x)) volume 0 L :=
    (by fun_prop : Continuous fun x : ℝ => (a + b * x) * Real.sin (k * x)).intervalIntegrable _ _
  rw [integral_eq_sub_of_hasDerivAt hder hint]
  simp

/-- `∫₀ᴸ (a + b x) cos(k x) dx`  by the antiderivative  `(a + b x) sin(kx)/k + b cos(kx)/k²` -/
theorem integral_affine_cos (a b k L : ℝ) (hk : k ≠ 0) :
    ∫ x in (0 : ℝ)..L, (a + b * x) * Real.cos (k * x)
      = ((a + b * L) * Real.sin (k * L) / k + b * Real.cos (k * L) / k ^ 2) - (b / k ^ 2) := by
  have hder : ∀ x ∈ Set.uIcc (0 : ℝ) L, HasDerivAt (fun x => (a + b * x) * Real.sin (k * x) / k + b * Real.cos (k * x) / k ^ 2)
      ((a + b * x) * Real.cos (k * x)) x := by
    intro x _
    have h1 : HasDerivAt (fun x : ℝ => (a + b * x)) b x := by
      simpa using ((hasDerivAt_id x).const_mul b).const_add a
    have := ((h1.mul (hlin'' k x).sin).div_const k).add (((hlin'' k x).cos.const_mul b).div_const (k ^ 2))
    refine this.congr_deriv ?_
    field_simp
    ring
  have hint : IntervalIntegrable (fun x => (a + b * x) * Real.cos (k * x)) volume 0 L :=
    (by fun_prop : Continuous fun x : ℝ => (a + b * x) * Real.cos (k * x)).intervalIntegrable _ _
  rw [integral_eq_sub_of_hasDerivAt hder hint]
  simp

theorem knInt_ne_zero (L : ℝ) (hL : L ≠ 0) (n : ℕ) (hn : n ≠ 0) : knInt L n ≠ 0 :=
  fun h => hn ((knInt_eq_zero_iff L hL n).mp h)

/-- **BC1**: `B_n = (2/L) ∫₀ᴸ (T_a + (T_b - T_a) x/L) sin(k_n x) dx`,  n ≥ 1 -/
theorem bc1B_is_fourier (p : RodP ℝ) (hL : p.L ≠ 0) (n : ℕ) (hn : n ≠ 0) :
    bc1B p n = 2 / p.L * ∫ x in (0 : ℝ)..p.L,
      ((p.TL - p.γ1 / p.α1) + ((p.TR - p.γ2 / p.α2) - (p.TL - p.γ1 / p.α1)) / p.L * x) * Real.sin (knInt p.L n * x) := by
  have hk := knInt_ne_zero p.L hL n hn
  rw [integral_affine_sin _ _ _ _ hk, sin_knInt_L p.L hL, cos_knInt_L p.L hL, bc1B_real, if_neg hn, knInt_real]
  have hπ := Real.pi_ne_zero
  have hn' : (n : ℝ) ≠ 0 := by exact_mod_cast hn
  field_simp
  ring

/-- **BC2**: `A_0 = (1/L) ∫₀ᴸ f`  and  `A_n = (2/L) ∫₀ᴸ f cos(k_n x)`,  n ≥ 1,  f = T_a + (T_b - T_a) x/L -/
theorem bc2A_zero_is_mean (p : RodP ℝ) (hL : p.L ≠ 0) :
    bc2A p 0 = 1 / p.L * ∫ x in (0 : ℝ)..p.L, (p.TL + ((p.TR - p.γ1 / p.β1 * p.L) - p.TL) / p.L * x) := by
  have hder : ∀ x ∈ Set.uIcc (0 : ℝ) p.L, HasDerivAt (fun x => p.TL * x + ((p.TR - p.γ1 / p.β1 * p.L) - p.TL) / p.L * (x ^ 2 / 2))
      (p.TL + ((p.TR - p.γ1 / p.β1 * p.L) - p.TL) / p.L * x) x := by
    intro x _
    have h2 : HasDerivAt (fun x : ℝ => x ^ 2 / 2) x x := by
      have := (hasDerivAt_pow 2 x).div_const 2
      refine this.congr_deriv ?_
      simp
    have h1 : HasDerivAt (fun x : ℝ => p.TL * x) p.TL x := by simpa using (hasDerivAt_id x).const_mul p.TL
    exact EPV.D.add h1 (h2.const_mul (((p.TR - p.γ1 / p.β1 * p.L) - p.TL) / p.L))
  have hint : IntervalIntegrable (fun x => p.TL + ((p.TR - p.γ1 / p.β1 * p.L) - p.TL) / p.L * x) volume 0 p.L :=
    (by fun_prop : Continuous fun x : ℝ => p.TL + ((p.TR - p.γ1 / p.β1 * p.L) - p.TL) / p.L * x).intervalIntegrable _ _
  rw [integral_eq_sub_of_hasDerivAt hder hint, bc2A_real, if_pos rfl]
  field_simp
  ring

theorem bc2A_is_fourier (p : RodP ℝ) (hL : p.L ≠ 0) (n : ℕ) (hn : n ≠ 0) :
    bc2A p n = 2 / p.L * ∫ x in (0 : ℝ)..p.L,
      (p.TL + ((p.TR - p.γ1 / p.β1 * p.L) - p.TL) / p.L * x) * Real.cos (knInt p.L n * x) := by
  have hk := knInt_ne_zero p.L hL n hn
  rw [integral_affine_cos _ _ _ _ hk, sin_knInt_L p.L hL, cos_knInt_L p.L hL, bc2A_real, if_neg hn, knInt_real]
  have hπ := Real.pi_ne_zero
  have hn' : (n : ℝ) ≠ 0 := by exact_mod_cast hn
  field_simp
  ring

/-- **BC3**: `B_n = (2/L) ∫₀ᴸ f sin(k_n x)`,  k_n = (2n+1)π/(2L),  every n -/
theorem bc3B_is_fourier (p : RodP ℝ) (hL : p.L ≠ 0) (n : ℕ) :
    bc3B p n = 2 / p.L * ∫ x in (0 : ℝ)..p.L,
      ((p.TL - p.γ1 / p.α1) + ((p.TR - (p.γ1 / p.α1 + p.γ2 / p.β2 * p.L)) - (p.TL - p.γ1 / p.α1)) / p.L * x)
        * Real.sin (knHalf p.L n * x) := by
  have hk := knHalf_ne_zero p.L hL n
  rw [integral_affine_sin _ _ _ _ hk, sin_knHalf_L p.L hL, cos_knHalf_L p.L hL, bc3B_real, knHalf_real]
  have hπ := Real.pi_ne_zero
  have hn' : (2 * (n : ℝ) + 1) ≠ 0 := by positivity
  field_simp
  ring

/-- **BC4**: `A_n = (2/L) ∫₀ᴸ f cos(k_n x)`,  k_n = (2n+1)π/(2L),  every n -/
theorem bc4A_is_fourier (p : RodP ℝ) (hL : p.L ≠ 0) (n : ℕ) :
    bc4A p n = 2 / p.L * ∫ x in (0 : ℝ)..p.L,
      ((p.TL - (p.γ2 / p.α2 - p.γ1 / p.β1 * p.L)) + ((p.TR - p.γ2 / p.α2) - (p.TL - (p.γ2 / p.α2 - p.γ1 / p.β1 * p.L))) / p.L * x)
        * Real.cos (knHalf p.L n * x) := by
  have hk := knHalf_ne_zero p.L hL n
  rw [integral_affine_cos _ _ _ _ hk, sin_knHalf_L p.L hL, cos_knHalf_L p.L hL, bc4A_real, knHalf_real]
  have hπ := Real.pi_ne_zero
  have hn' : (2 * (n : ℝ) + 1) ≠ 0 := by positivity
  field_simp
  ring

/-- the function these are coefficients of IS initial profile minus static profile (BC1..BC4) -/
theorem initial_minus_static (p : RodP ℝ) (hL : p.L ≠ 0) (x : ℝ) :
    initialProfile p.TL p.TR p.L x - bc1Static p x
        = (p.TL - p.γ1 / p.α1) + ((p.TR - p.γ2 / p.α2) - (p.TL - p.γ1 / p.α1)) / p.L * x
    ∧ initialProfile p.TL p.TR p.L x - bc2Static p x = p.TL + ((p.TR - p.γ1 / p.β1 * p.L) - p.TL) / p.L * x
    ∧ initialProfile p.TL p.TR p.L x - bc3Static p x
        = (p.TL - p.γ1 / p.α1) + ((p.TR - (p.γ1 / p.α1 + p.γ2 / p.β2 * p.L)) - (p.TL - p.γ1 / p.α1)) / p.L * x
    ∧ initialProfile p.TL p.TR p.L x - bc4Static p x
        = (p.TL - (p.γ2 / p.α2 - p.γ1 / p.β1 * p.L)) + ((p.TR - p.γ2 / p.α2) - (p.TL - (p.γ2 / p.α2 - p.γ1 / p.β1 * p.L))) / p.L * x := by
  rw [bc1Static_real, bc2Static_real, bc3Static_real, bc4Static_real]
  unfold initialProfile
  refine ⟨?_, ?_, ?_, ?_⟩ <;> (field_simp; ring)

/-- Rectangle, top edge: the static amplitudes are the sine coefficients of the constant Ttop on (0, a) -/
theorem rect_top_coeff (a Ttop : ℝ) (ha : a ≠ 0) (n : ℕ) (hn : n ≠ 0) :
    rectC Ttop n = 2 / a * ∫ x in (0 : ℝ)..a, (Ttop + 0 * x) * Real.sin (rectKm a n * x) := by
  have hk : rectKm a n ≠ 0 := by
    rw [rectKm_real]
    have := Real.pi_ne_zero
    have : (n : ℝ) ≠ 0 := by exact_mod_cast hn
    positivity
  have hkL : rectKm a n * a = n * Real.pi := by rw [rectKm_real]; field_simp
  rw [integral_affine_sin _ _ _ _ hk, hkL, Real.sin_nat_mul_pi, Real.cos_nat_mul_pi, rectC, rectKm_real]
  have hπ := Real.pi_ne_zero
  have hn' : (n : ℝ) ≠ 0 := by exact_mod_cast hn
  field_simp
  ring

/-! ### orthogonality of the eigenfunctions -/

/-- `∫₀ᴸ sin(kx) sin(mx) dx = 0` when sin((k-m)L) = sin((k+m)L) = 0, k ≠ ±m -/
theorem sin_orthogonal (k m L : ℝ) (h1 : k - m ≠ 0) (h2 : k + m ≠ 0) (hs1 : Real.sin ((k - m) * L) = 0)
    (hs2 : Real.sin ((k + m) * L) = 0) :
    ∫ x in (0 : ℝ)..L, Real.sin (k * x) * Real.sin (m * x) = 0 := by
  have hder : ∀ x ∈ Set.uIcc (0 : ℝ) L, HasDerivAt (fun x => Real.sin ((k - m) * x) / (2 * (k - m)) - Real.sin ((k + m) * x) / (2 * (k + m)))
      (Real.sin (k * x) * Real.sin (m * x)) x := by
    intro x _
    have := ((hlin'' (k - m) x).sin.div_const (2 * (k - m))).sub ((hlin'' (k + m) x).sin.div_const (2 * (k + m)))
    refine this.congr_deriv ?_
    have e1 : (k - m) * x = k * x - m * x := by ring
    have e2 : (k + m) * x = k * x + m * x := by ring
    rw [e1, e2, Real.cos_sub, Real.cos_add]
    field_simp
    ring
  have hint : IntervalIntegrable (fun x => Real.sin (k * x) * Real.sin (m * x)) volume 0 L :=
    (by fun_prop : Continuous fun x : ℝ => Real.sin (k * x) * Real.sin (m * x)).intervalIntegrable _ _
  rw [integral_eq_sub_of_hasDerivAt hder hint, hs1, hs2]
  simp

/-- `∫₀ᴸ cos(kx) cos(mx) dx = 0` under the same conditions -/
theorem cos_orthogonal (k m L : ℝ) (h1 : k - m ≠ 0) (h2 : k + m ≠ 0) (hs1 : Real.sin ((k - m) * L) = 0)
    (hs2 : Real.sin ((k + m) * L) = 0) :
    ∫ x in (0 : ℝ)..L, Real.cos (k * x) * Real.cos (m * x) = 0 := by
  have hder : ∀ x ∈ Set.uIcc (0 : ℝ) L, HasDerivAt (fun x => Real.sin ((k - m) * x) / (2 * (k - m)) + Real.sin ((k + m) * x) / (2 * (k + m)))
      (Real.cos (k * x) * Real.cos (m * x)) x := by
    intro x _
    have := ((hlin'' (k - m) x).sin.div_const (2 * (k - m))).add ((hlin'' (k + m) x).sin.div_const (2 * (k + m)))
    refine this.congr_deriv ?_
    have e1 : (k - m) * x = k * x - m * x := by ring
    have e2 : (k + m) * x = k * x + m * x := by ring
    rw [e1, e2, Real.cos_sub, Real.cos_add]
    field_simp
    ring
  have hint : IntervalIntegrable (fun x => Real.cos (k * x) * Real.cos (m * x)) volume 0 L :=
    (by fun_prop : Continuous fun x : ℝ => Real.cos (k * x) * Real.cos (m * x)).intervalIntegrable _ _
  rw [integral_eq_sub_of_hasDerivAt hder hint, hs1, hs2]
  simp

/-- `∫₀ᴸ sin²(kx) dx = L/2` when sin(2kL) = 0 -/
theorem sin_sq_integral (k L : ℝ) (hk : k ≠ 0) (hs : Real.sin (2 * k * L) = 0) :
    ∫ x in (0 : ℝ)..L, Real.sin (k * x) * Real.sin (k * x) = L / 2 := by
  have hder : ∀ x ∈ Set.uIcc (0 : ℝ) L, HasDerivAt (fun x => x / 2 - Real.sin (2 * k * x) / (4 * k))
      (Real.sin (k * x) * Real.sin (k * x)) x := by
    intro x _
    have := ((hasDerivAt_id x).div_const 2).sub ((hlin'' (2 * k) x).sin.div_const (4 * k))
    refine this.congr_deriv ?_
    have e1 : 2 * k * x = 2 * (k * x) := by ring
    rw [e1, Real.cos_two_mul, Real.cos_sq']
    field_simp
    ring
  have hint : IntervalIntegrable (fun x => Real.sin (k * x) * Real.sin (k * x)) volume 0 L :=
    (by fun_prop : Continuous fun x : ℝ => Real.sin (k * x) * Real.sin (k * x)).intervalIntegrable _ _
  rw [integral_eq_sub_of_hasDerivAt hder hint, hs]
  simp

/-- `∫₀ᴸ cos²(kx) dx = L/2` when sin(2kL) = 0 -/
theorem cos_sq_integral (k L : ℝ) (hk : k ≠ 0) (hs : Real.sin (2 * k * L) = 0) :
    ∫ x in (0 : ℝ)..L, Real.cos (k * x) * Real.cos (k * x) = L / 2 := by
  have hder : ∀ x ∈ Set.uIcc (0 : ℝ) L, HasDerivAt (fun x => x / 2 + Real.sin (2 * k * x) / (4 * k))
      (Real.cos (k * x) * Real.cos (k * x)) x := by
    intro x _
    have := ((hasDerivAt_id x).div_const 2).add ((hlin'' (2 * k) x).sin.div_const (4 * k))
    refine this.congr_deriv ?_
    have e1 : 2 * k * x = 2 * (k * x) := by ring
    rw [e1, Real.cos_two_mul]
    field_simp
    ring
  have hint : IntervalIntegrable (fun x => Real.cos (k * x) * Real.cos (k * x)) volume 0 L :=
    (by fun_prop : Continuous fun x : ℝ => Real.cos (k * x) * Real.cos (k * x)).intervalIntegrable _ _
  rw [integral_eq_sub_of_hasDerivAt hder hint, hs]
  simp

/-- the wave numbers of BC1/BC2 and of BC3/BC4 meet the conditions of the orthogonality lemmas -/
theorem knInt_orth_conditions (L : ℝ) (hL : L ≠ 0) (n m : ℕ) :
    Real.sin ((knInt L n - knInt L m) * L) = 0 ∧ Real.sin ((knInt L n + knInt L m) * L) = 0
      ∧ Real.sin (2 * knInt L n * L) = 0 := by
  have e1 : (knInt L n - knInt L m) * L = ((n : ℤ) - m : ℤ) * Real.pi := by
    rw [sub_mul, knInt_mul_L L hL, knInt_mul_L L hL]; push_cast; ring
  have e2 : (knInt L n + knInt L m) * L = ((n + m : ℕ) : ℝ) * Real.pi := by
    rw [add_mul, knInt_mul_L L hL, knInt_mul_L L hL]; push_cast; ring
  have e3 : 2 * knInt L n * L = ((2 * n : ℕ) : ℝ) * Real.pi := by
    rw [mul_assoc, knInt_mul_L L hL]; push_cast; ring
  rw [e1, e2, e3]
  exact ⟨Real.sin_int_mul_pi _, Real.sin_nat_mul_pi _, Real.sin_nat_mul_pi _⟩

theorem knHalf_orth_conditions (L : ℝ) (hL : L ≠ 0) (n m : ℕ) :
    Real.sin ((knHalf L n - knHalf L m) * L) = 0 ∧ Real.sin ((knHalf L n + knHalf L m) * L) = 0
      ∧ Real.sin (2 * knHalf L n * L) = 0 := by
  have e1 : (knHalf L n - knHalf L m) * L = ((n : ℤ) - m : ℤ) * Real.pi := by
    rw [sub_mul, knHalf_mul_L L hL, knHalf_mul_L L hL]; push_cast; ring
  have e2 : (knHalf L n + knHalf L m) * L = ((n + m + 1 : ℕ) : ℝ) * Real.pi := by
    rw [add_mul, knHalf_mul_L L hL, knHalf_mul_L L hL]; push_cast; ring
  have e3 : 2 * knHalf L n * L = ((2 * n + 1 : ℕ) : ℝ) * Real.pi := by
    rw [mul_assoc, knHalf_mul_L L hL]; push_cast; ring
  rw [e1, e2, e3]
  exact ⟨Real.sin_int_mul_pi _, Real.sin_nat_mul_pi _, Real.sin_nat_mul_pi _⟩

/-- **Remaining obligation (statement only).**  The t → 0⁺ clause of C14 for the four special cases, in terms of
the hand model: NOT proved here (needs completeness of the sine/cosine systems); sampled by `o_heat.initial_limit`. -/
def InitialLimitBC14 (p : RodP ℝ) : Prop :=
  InitialLimit (fun N => rodBC1 N p) p.TL p.TR p.L ∧ InitialLimit (fun N => rodBC2 N p) p.TL p.TR p.L
    ∧ InitialLimit (fun N => rodBC3 N p) p.TL p.TR p.L ∧ InitialLimit (fun N => rodBC4 N p) p.TL p.TR p.L

/-- what IS proved about t = 0: at t = 0 the truncated series is the N-term Fourier partial sum of
(initial − static) plus the static part — every exponential factor is 1.  **Partial**: convergence of that
partial sum to the initial profile is the open part. -/
theorem initial_value_is_partial_sum_partial (N : ℕ) (κ : ℝ) (st : ℝ → ℝ) (k A B : ℕ → ℝ) (x : ℝ) :
    rodSeries N κ st k A B x 0
      = (∑ n ∈ range N, (A n * Real.cos (k n * x) + B n * Real.sin (k n * x))) + st x := by
  rw [rodSeries_real]
  simp

end

end EPV.C14
