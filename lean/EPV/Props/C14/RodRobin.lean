/-
C14 — 1-D rod, general (Robin) boundary conditions  α₁T + β₁T_x = γ₁ at x = 0,  α₂T + β₂T_x = γ₂ at x = L.

`modes_BCgen` takes its wave numbers from `scipy.optimize.fsolve`: the root is the atom `mu` of the traced model
`RodModesGen`, whose field `residual` is the traced transcendental function `func(mu)`.

  * `rod_bc_of_modes` (every N): the boundary operator applied to the truncated series is the operator applied to
    the static part, provided it annihilates every mode — boundary operators act term by term.
  * `robin_left` : the traced coefficients satisfy  A_n = -(β₁ k_n/α₁) B_n, so every mode satisfies the homogeneous
    condition at x = 0 identically (case α₁ ≠ 0);
  * `robin_right_iff` : the mode satisfies the homogeneous condition at x = L  IFF  the traced residual vanishes
    at `mu` (case α₁ ≠ 0; B_n ≠ 0, cos μ ≠ 0 and non-zero denominator) — i.e. exactly when fsolve returned a root;
  * `robin0_right_iff` : the same for the case α₁ = 0.
The heat equation for this case is `Rod.lean: rodGen_heat_eq` (any k_n, A_n, B_n).
What FAILS for the Robin case — the static part when L ≠ 1, the degenerate root μ = 0 (NaN), the initial profile —
is in `FindingRobin.lean`.
-/
import EPV.Lemmas.HeatSeries
import EPV.Gen.RodModesGen
import EPV.Lemmas.Bridge.RodModesGen
import EPV.Tactics

set_option linter.all false

open EPV EPV.Gen EPV.Spec.Heat EPV.Model.HeatSeries EPV.Lemmas.Heat Finset

namespace EPV.C14

noncomputable section

/-- **boundary operators act term by term, every N**: if `α X_n(x) + β X_n'(x) = 0` for every mode, the operator
applied to the truncated series equals the operator applied to the static part (of slope c₁) -/
theorem rod_bc_of_modes (N : ℕ) (κ c1 : ℝ) (st : ℝ → ℝ) (hst : ∀ y, HasDerivAt st c1 y) (k A B : ℕ → ℝ) (α β x t : ℝ)
    (hmode : ∀ n, α * (A n * Real.cos (k n * x) + B n * Real.sin (k n * x))
      + β * (-(A n * k n) * Real.sin (k n * x) + B n * k n * Real.cos (k n * x)) = 0) :
    bcOp α β (rodSeries N κ st k A B) x t = α * st x + β * c1 := by
  unfold bcOp
  rw [rodSeries_eq_ser, dx_ser N κ c1 st hst]
  unfold ser serX
  rw [mul_add, mul_add, Finset.mul_sum, Finset.mul_sum]
  have : (∑ n ∈ range N, α * ((A n * Real.cos (k n * x) + B n * Real.sin (k n * x)) * Real.exp (-κ * (k n * k n) * t)))
      + ∑ n ∈ range N, β * ((-(A n * k n) * Real.sin (k n * x) + B n * k n * Real.cos (k n * x)) * Real.exp (-κ * (k n * k n) * t)) = 0 := by
    rw [← Finset.sum_add_distrib]
    refine Finset.sum_eq_zero fun n _ => ?_
    linear_combination (Real.exp (-κ * (k n * k n) * t)) * hmode n
  linear_combination this

/-- the leaf of `modes_BCgen` for α₁ ≠ 0, n ≠ 0 relates the two coefficients by `A_n = -(β₁/L · μ / α₁) B_n` -/
theorem robin_An (q : RodModesGen.P) (hα : q.alpha1 ≠ 0) (hn : q.n ≠ 0) :
    RodModesGen.An q = -((q.beta1 / q.L * q.mu) / q.alpha1) * RodModesGen.Bn q ∧ RodModesGen.kn q = q.mu / q.L := by
  exact ⟨Bridge.rodModesGen_An_ne q hα hn, Bridge.rodModesGen_kn_ne q hα hn⟩

/-- **x = 0**: every mode satisfies `α₁ X(0) + β₁ X'(0) = 0`, whatever the root -/
theorem robin_left (q : RodModesGen.P) (hα : q.alpha1 ≠ 0) (hn : q.n ≠ 0) (hL : q.L ≠ 0) :
    q.alpha1 * (RodModesGen.An q * Real.cos (RodModesGen.kn q * 0) + RodModesGen.Bn q * Real.sin (RodModesGen.kn q * 0))
      + q.beta1 * (-(RodModesGen.An q * RodModesGen.kn q) * Real.sin (RodModesGen.kn q * 0)
          + RodModesGen.Bn q * RodModesGen.kn q * Real.cos (RodModesGen.kn q * 0)) = 0 := by
  obtain ⟨hA, hk⟩ := robin_An q hα hn
  rw [hA, hk]
  simp only [mul_zero, Real.cos_zero, Real.sin_zero]
  field_simp
  ring

/-- **x = L**: the mode satisfies `α₂ X(L) + β₂ X'(L) = 0` iff `mu` is a root of the traced transcendental equation -/
theorem robin_right_iff (q : RodModesGen.P) (hα : q.alpha1 ≠ 0) (hn : q.n ≠ 0) (hL : q.L ≠ 0)
    (hB : RodModesGen.Bn q ≠ 0) (hc : Real.cos q.mu ≠ 0)
    (hD : q.alpha1 * q.alpha2 + q.beta1 / q.L * (q.beta2 / q.L) * q.mu ^ 2 ≠ 0) :
    q.alpha2 * (RodModesGen.An q * Real.cos (RodModesGen.kn q * q.L) + RodModesGen.Bn q * Real.sin (RodModesGen.kn q * q.L))
      + q.beta2 * (-(RodModesGen.An q * RodModesGen.kn q) * Real.sin (RodModesGen.kn q * q.L)
          + RodModesGen.Bn q * RodModesGen.kn q * Real.cos (RodModesGen.kn q * q.L)) = 0
    ↔ RodModesGen.residual q = 0 := by
  obtain ⟨hA, hk⟩ := robin_An q hα hn
  have hres : RodModesGen.residual q = Real.tan q.mu
      - ((q.alpha2 * (q.beta1 / q.L) - q.alpha1 * (q.beta2 / q.L)) * q.mu) / (q.alpha1 * q.alpha2 + q.beta1 / q.L * (q.beta2 / q.L) * q.mu ^ 2) :=
    Bridge.rodModesGen_residual_ne q hα hn
  rw [hA, hk, hres, div_mul_cancel₀ _ hL, Real.tan_eq_sin_div_cos]
  set B := RodModesGen.Bn q
  set s := Real.sin q.mu
  set c := Real.cos q.mu
  set D := q.alpha1 * q.alpha2 + q.beta1 / q.L * (q.beta2 / q.L) * q.mu ^ 2 with hDdef
  have key : q.alpha2 * (-(q.beta1 / q.L * q.mu / q.alpha1) * B * c + B * s)
        + q.beta2 * (-(-(q.beta1 / q.L * q.mu / q.alpha1) * B * (q.mu / q.L)) * s + B * (q.mu / q.L) * c)
      = B / q.alpha1 * (s * D - c * ((q.alpha2 * (q.beta1 / q.L) - q.alpha1 * (q.beta2 / q.L)) * q.mu)) := by
    rw [hDdef]; field_simp; ring
  rw [key, div_sub_div _ _ hc hD, div_eq_zero_iff, or_iff_left (mul_ne_zero hc hD), mul_eq_zero,
    or_iff_right (div_ne_zero hB hα)]

/-- non-vacuity at the parameters of test_general_BC_homogeneous (α₁ = 1, β₁ = -1, α₂ = 1, β₂ = 2, L = 2) with the
first root μ ≈ 3.8712 -/
example : (1 : ℝ) ≠ 0 ∧ (2 : ℝ) ≠ 0 ∧ (1 : ℝ) * 1 + -1 / 2 * (2 / 2) * 3.8712 ^ 2 ≠ 0 := by norm_num

/-- case α₁ = 0 (cosine modes): `α₂ X(L) + β₂ X'(L) = 0` iff the traced residual `tan μ - (α₂/(β₂/L))/μ` vanishes -/
theorem robin0_right_iff (q : RodModesGen.P) (hα : q.alpha1 = 0) (hL : q.L ≠ 0) (hβ : q.beta2 ≠ 0) (hμ : q.mu ≠ 0)
    (hA : RodModesGen.An q ≠ 0) (hc : Real.cos q.mu ≠ 0) :
    q.alpha2 * (RodModesGen.An q * Real.cos (RodModesGen.kn q * q.L) + RodModesGen.Bn q * Real.sin (RodModesGen.kn q * q.L))
      + q.beta2 * (-(RodModesGen.An q * RodModesGen.kn q) * Real.sin (RodModesGen.kn q * q.L)
          + RodModesGen.Bn q * RodModesGen.kn q * Real.cos (RodModesGen.kn q * q.L)) = 0
    ↔ RodModesGen.residual q = 0 := by
  have hk : RodModesGen.kn q = q.mu / q.L := Bridge.rodModesGen_kn_zero q hα
  have hBz : RodModesGen.Bn q = 0 := Bridge.rodModesGen_Bn_zero q hα
  have hres : RodModesGen.residual q = Real.tan q.mu - q.alpha2 / (q.beta2 / q.L) / q.mu :=
    Bridge.rodModesGen_residual_zero q hα
  rw [hk, hBz, hres, div_mul_cancel₀ _ hL, Real.tan_eq_sin_div_cos]
  set A := RodModesGen.An q
  have hb2 : q.beta2 / q.L ≠ 0 := div_ne_zero hβ hL
  have e1 : q.alpha2 * (A * Real.cos q.mu + 0 * Real.sin q.mu)
        + q.beta2 * (-(A * (q.mu / q.L)) * Real.sin q.mu + 0 * (q.mu / q.L) * Real.cos q.mu)
      = A * (q.beta2 / q.L) * (Real.cos q.mu * q.alpha2 / (q.beta2 / q.L) - Real.sin q.mu * q.mu) := by
    field_simp
    ring
  have e2 : Real.sin q.mu / Real.cos q.mu - q.alpha2 / (q.beta2 / q.L) / q.mu
      = -(Real.cos q.mu * q.alpha2 / (q.beta2 / q.L) - Real.sin q.mu * q.mu) / (Real.cos q.mu * q.mu) := by
    field_simp
    ring
  rw [e1, e2, div_eq_zero_iff, or_iff_left (mul_ne_zero hc hμ), neg_eq_zero, mul_eq_zero,
    or_iff_right (mul_ne_zero hA hb2)]

theorem rodModesGen_leaves : RodModesGen.okLeaves = [0, 1, 2, 3] := rfl

end

end EPV.C14
