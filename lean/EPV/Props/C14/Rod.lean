/-
C14 — the 1-D rod (rod1d.py, and through it the three planar sandwiches): for EVERY truncation
order N the truncated series of the hand model `EPV.Model.HeatSeries.rodSeries`

  * satisfies the heat equation T_t = κ T_xx at every (x, t), for ALL coefficient sequences
    k_n, A_n, B_n and every affine static part (so also for the general Robin case, whatever the
    root finder returned);
  * meets the declared boundary values of BC1..BC4 exactly (no truncation error at the ends);
  * tends, as t → ∞, to the static part plus the coefficients of the modes with k_n = 0
    (nothing for BC1, BC3, BC4; the mean value A_0 for BC2).

The coefficient formulas of the hand model are tied to the source in `RodCoef.lean` (theorems
against the traced `modes_BC1..4`) and by the executable correspondence (tools/harness/o_heat.py).
-/
import EPV.Lemmas.HeatSeries
import EPV.Tactics

set_option linter.all false

open EPV EPV.Spec.Heat EPV.Model.HeatSeries EPV.Lemmas.Heat Finset

namespace EPV.C14

noncomputable section

/-- **C14, heat equation, every N, all coefficients.**  The truncated rod series with any wave numbers
`k`, any coefficients `A`, `B` and any static part of constant slope satisfies `T_t = κ T_xx`
everywhere (all x, all t, all κ). -/
theorem rod_heat_eq (N : ℕ) (κ c1 : ℝ) (st : ℝ → ℝ) (hst : ∀ y, HasDerivAt st c1 y) (k A B : ℕ → ℝ) (x t : ℝ) :
    HeatEq1D κ (rodSeries N κ st k A B) x t := by
  rw [rodSeries_eq_ser]
  unfold HeatEq1D dt dxx
  have hx : (fun y => dx (ser N κ st k A B) y t) = fun y => serX N κ c1 k A B y t := by
    funext y; exact dx_ser N κ c1 st hst k A B y t
  rw [hx, (serX_hasDerivAt_x N κ c1 k A B x t).deriv, (ser_hasDerivAt_t N κ st k A B x t).deriv, Finset.mul_sum]
  refine Finset.sum_congr rfl fun n _ => ?_
  ring

/-- BC1..BC4 and the general case, every N, every parameter value: the heat equation holds -/
theorem rodBC1_heat_eq (N : ℕ) (p : RodP ℝ) (x t : ℝ) : HeatEq1D p.κ (rodBC1 N p) x t :=
  rod_heat_eq N p.κ _ _ (bc1Static_hasDerivAt p) _ _ _ x t
theorem rodBC2_heat_eq (N : ℕ) (p : RodP ℝ) (x t : ℝ) : HeatEq1D p.κ (rodBC2 N p) x t :=
  rod_heat_eq N p.κ _ _ (bc2Static_hasDerivAt p) _ _ _ x t
theorem rodBC3_heat_eq (N : ℕ) (p : RodP ℝ) (x t : ℝ) : HeatEq1D p.κ (rodBC3 N p) x t :=
  rod_heat_eq N p.κ _ _ (bc3Static_hasDerivAt p) _ _ _ x t
theorem rodBC4_heat_eq (N : ℕ) (p : RodP ℝ) (x t : ℝ) : HeatEq1D p.κ (rodBC4 N p) x t :=
  rod_heat_eq N p.κ _ _ (bc4Static_hasDerivAt p) _ _ _ x t
/-- general (Robin) case: whatever wave numbers and coefficients the root finder produced -/
theorem rodGen_heat_eq (N : ℕ) (p : RodP ℝ) (k A B : ℕ → ℝ) (x t : ℝ) :
    HeatEq1D p.κ (rodSeries N p.κ (genStatic p) k A B) x t :=
  rod_heat_eq N p.κ _ _ (genStatic_hasDerivAt p) k A B x t

/-! ### boundary values: exact for every N -/

/-- value of the series where every sine vanishes and the cosine coefficients are zero -/
theorem ser_of_terms_zero (N : ℕ) (κ : ℝ) (st : ℝ → ℝ) (k A B : ℕ → ℝ) (x t : ℝ)
    (h : ∀ n, A n * Real.cos (k n * x) + B n * Real.sin (k n * x) = 0) :
    ser N κ st k A B x t = st x := by
  unfold ser
  rw [Finset.sum_eq_zero (fun n _ => by rw [h n, zero_mul]), zero_add]

theorem serX_of_terms_zero (N : ℕ) (κ c1 : ℝ) (k A B : ℕ → ℝ) (x t : ℝ)
    (h : ∀ n, -(A n * k n) * Real.sin (k n * x) + B n * k n * Real.cos (k n * x) = 0) :
    serX N κ c1 k A B x t = c1 := by
  unfold serX
  rw [Finset.sum_eq_zero (fun n _ => by rw [h n, zero_mul]), zero_add]

/-- BC1, left end: `T(0, t) = γ₁/α₁` for every N and t -/
theorem rodBC1_value_left (N : ℕ) (p : RodP ℝ) (t : ℝ) : rodBC1 N p 0 t = p.γ1 / p.α1 := by
  unfold rodBC1
  rw [rodSeries_eq_ser, ser_of_terms_zero, bc1Static_real]
  · ring
  · intro n; simp [zeroCoef_real]

/-- BC1, right end: `T(L, t) = γ₂/α₂` for every N and t -/
theorem rodBC1_value_right (N : ℕ) (p : RodP ℝ) (hL : p.L ≠ 0) (t : ℝ) : rodBC1 N p p.L t = p.γ2 / p.α2 := by
  unfold rodBC1
  rw [rodSeries_eq_ser, ser_of_terms_zero, bc1Static_real]
  · field_simp; ring
  · intro n; simp [zeroCoef_real, sin_knInt_L p.L hL]

/-- **BC1 as declared** (`α₁ ≠ 0, β₁ = 0, α₂ ≠ 0, β₂ = 0`): `α₁ T(0,t) + β₁ T_x(0,t) = γ₁` -/
theorem rodBC1_bc_left (N : ℕ) (p : RodP ℝ) (hα : p.α1 ≠ 0) (hβ : p.β1 = 0) (t : ℝ) :
    bcOp p.α1 p.β1 (rodBC1 N p) 0 t = p.γ1 := by
  unfold bcOp
  rw [rodBC1_value_left, hβ]
  field_simp; ring

theorem rodBC1_bc_right (N : ℕ) (p : RodP ℝ) (hL : p.L ≠ 0) (hα : p.α2 ≠ 0) (hβ : p.β2 = 0) (t : ℝ) :
    bcOp p.α2 p.β2 (rodBC1 N p) p.L t = p.γ2 := by
  unfold bcOp
  rw [rodBC1_value_right N p hL, hβ]
  field_simp; ring

/-- BC2: `T_x(0, t) = γ₁/β₁` for every N and t -/
theorem rodBC2_flux_left (N : ℕ) (p : RodP ℝ) (t : ℝ) : dx (rodBC2 N p) 0 t = p.γ1 / p.β1 := by
  unfold rodBC2
  rw [rodSeries_eq_ser, dx_ser N p.κ _ _ (bc2Static_hasDerivAt p), serX_of_terms_zero]
  intro n; simp [zeroCoef_real]

/-- BC2: `T_x(L, t) = γ₁/β₁` for every N and t -/
theorem rodBC2_flux_right (N : ℕ) (p : RodP ℝ) (hL : p.L ≠ 0) (t : ℝ) : dx (rodBC2 N p) p.L t = p.γ1 / p.β1 := by
  unfold rodBC2
  rw [rodSeries_eq_ser, dx_ser N p.κ _ _ (bc2Static_hasDerivAt p), serX_of_terms_zero]
  intro n; simp [zeroCoef_real, sin_knInt_L p.L hL]

/-- **BC2 as declared** (`α₁ = 0, β₁ ≠ 0, α₂ = 0, β₂ ≠ 0`, equal fluxes `γ₁/β₁ = γ₂/β₂` — the call raises
`ValueError` otherwise) -/
theorem rodBC2_bc_left (N : ℕ) (p : RodP ℝ) (hα : p.α1 = 0) (hβ : p.β1 ≠ 0) (t : ℝ) :
    bcOp p.α1 p.β1 (rodBC2 N p) 0 t = p.γ1 := by
  unfold bcOp
  rw [rodBC2_flux_left, hα]
  field_simp; ring

theorem rodBC2_bc_right (N : ℕ) (p : RodP ℝ) (hL : p.L ≠ 0) (hα : p.α2 = 0) (hβ : p.β2 ≠ 0)
    (hF : p.γ1 / p.β1 = p.γ2 / p.β2) (t : ℝ) :
    bcOp p.α2 p.β2 (rodBC2 N p) p.L t = p.γ2 := by
  unfold bcOp
  rw [rodBC2_flux_right N p hL, hα, hF]
  field_simp; ring

/-- BC3: `T(0, t) = γ₁/α₁` -/
theorem rodBC3_value_left (N : ℕ) (p : RodP ℝ) (t : ℝ) : rodBC3 N p 0 t = p.γ1 / p.α1 := by
  unfold rodBC3
  rw [rodSeries_eq_ser, ser_of_terms_zero, bc3Static_real]
  · ring
  · intro n; simp [zeroCoef_real]

/-- BC3: `T_x(L, t) = γ₂/β₂`  (uses `cos((2n+1)π/2) = 0`) -/
theorem rodBC3_flux_right (N : ℕ) (p : RodP ℝ) (hL : p.L ≠ 0) (t : ℝ) : dx (rodBC3 N p) p.L t = p.γ2 / p.β2 := by
  unfold rodBC3
  rw [rodSeries_eq_ser, dx_ser N p.κ _ _ (bc3Static_hasDerivAt p), serX_of_terms_zero]
  intro n; simp [zeroCoef_real, cos_knHalf_L p.L hL]

/-- **BC3 as declared** (`α₁ ≠ 0, β₁ = 0, α₂ = 0, β₂ ≠ 0`) -/
theorem rodBC3_bc_left (N : ℕ) (p : RodP ℝ) (hα : p.α1 ≠ 0) (hβ : p.β1 = 0) (t : ℝ) :
    bcOp p.α1 p.β1 (rodBC3 N p) 0 t = p.γ1 := by
  unfold bcOp
  rw [rodBC3_value_left, hβ]
  field_simp; ring

theorem rodBC3_bc_right (N : ℕ) (p : RodP ℝ) (hL : p.L ≠ 0) (hα : p.α2 = 0) (hβ : p.β2 ≠ 0) (t : ℝ) :
    bcOp p.α2 p.β2 (rodBC3 N p) p.L t = p.γ2 := by
  unfold bcOp
  rw [rodBC3_flux_right N p hL, hα]
  field_simp; ring

/-- BC4: `T_x(0, t) = γ₁/β₁` -/
theorem rodBC4_flux_left (N : ℕ) (p : RodP ℝ) (t : ℝ) : dx (rodBC4 N p) 0 t = p.γ1 / p.β1 := by
  unfold rodBC4
  rw [rodSeries_eq_ser, dx_ser N p.κ _ _ (bc4Static_hasDerivAt p), serX_of_terms_zero]
  intro n; simp [zeroCoef_real]

/-- BC4: `T(L, t) = γ₂/α₂`  (uses `cos((2n+1)π/2) = 0`) -/
theorem rodBC4_value_right (N : ℕ) (p : RodP ℝ) (hL : p.L ≠ 0) (t : ℝ) : rodBC4 N p p.L t = p.γ2 / p.α2 := by
  unfold rodBC4
  rw [rodSeries_eq_ser, ser_of_terms_zero, bc4Static_real]
  · ring
  · intro n; simp [zeroCoef_real, cos_knHalf_L p.L hL]

/-- **BC4 as declared** (`α₁ = 0, β₁ ≠ 0, α₂ ≠ 0, β₂ = 0`) -/
theorem rodBC4_bc_left (N : ℕ) (p : RodP ℝ) (hα : p.α1 = 0) (hβ : p.β1 ≠ 0) (t : ℝ) :
    bcOp p.α1 p.β1 (rodBC4 N p) 0 t = p.γ1 := by
  unfold bcOp
  rw [rodBC4_flux_left, hα]
  field_simp; ring

theorem rodBC4_bc_right (N : ℕ) (p : RodP ℝ) (hL : p.L ≠ 0) (hα : p.α2 ≠ 0) (hβ : p.β2 = 0) (t : ℝ) :
    bcOp p.α2 p.β2 (rodBC4 N p) p.L t = p.γ2 := by
  unfold bcOp
  rw [rodBC4_value_right N p hL, hβ]
  field_simp; ring

/-- the solver's default parameters (BC1: κ = 1, L = 2, T_L = T_R = 3, α = 1, β = γ = 0) satisfy the hypotheses -/
example : (⟨1, 2, 3, 3, 1, 0, 0, 1, 0, 0⟩ : RodP ℝ).L ≠ 0 ∧ (⟨1, 2, 3, 3, 1, 0, 0, 1, 0, 0⟩ : RodP ℝ).α1 ≠ 0
    ∧ (⟨1, 2, 3, 3, 1, 0, 0, 1, 0, 0⟩ : RodP ℝ).β1 = 0 ∧ (⟨1, 2, 3, 3, 1, 0, 0, 1, 0, 0⟩ : RodP ℝ).α2 ≠ 0
    ∧ (⟨1, 2, 3, 3, 1, 0, 0, 1, 0, 0⟩ : RodP ℝ).β2 = 0 := by norm_num
/-- PlanarSandwichHot defaults (BC2: F = 0) and PlanarSandwichHalf defaults (BC3: TB = 1, FT = 0) -/
example : (⟨1, 2, 3, 3, 0, 1, 0, 0, 1, 0⟩ : RodP ℝ).β1 ≠ 0 ∧ (⟨1, 2, 3, 3, 0, 1, 0, 0, 1, 0⟩ : RodP ℝ).β2 ≠ 0
    ∧ (⟨1, 2, 3, 3, 0, 1, 0, 0, 1, 0⟩ : RodP ℝ).γ1 / (⟨1, 2, 3, 3, 0, 1, 0, 0, 1, 0⟩ : RodP ℝ).β1
      = (⟨1, 2, 3, 3, 0, 1, 0, 0, 1, 0⟩ : RodP ℝ).γ2 / (⟨1, 2, 3, 3, 0, 1, 0, 0, 1, 0⟩ : RodP ℝ).β2 := by norm_num

/-! ### t → ∞ -/

open Filter Topology

/-- **C14, large-time limit, any coefficients.**  For κ > 0 the truncated series tends to the static part plus
the cosine coefficients of the modes with wave number 0. -/
theorem rod_tendsto (N : ℕ) (κ : ℝ) (hκ : 0 < κ) (st : ℝ → ℝ) (k A B : ℕ → ℝ) (x : ℝ) :
    Tendsto (fun t => rodSeries N κ st k A B x t) atTop
      (𝓝 ((∑ n ∈ range N, if k n = 0 then A n else 0) + st x)) := by
  rw [rodSeries_eq_ser]
  exact ser_tendsto N κ hκ st k A B x

/-- BC1: the limit is the static (linear) profile between the two end temperatures -/
theorem rodBC1_tendsto (N : ℕ) (p : RodP ℝ) (hκ : 0 < p.κ) (x : ℝ) :
    Tendsto (fun t => rodBC1 N p x t) atTop (𝓝 (bc1Static p x)) := by
  have h := rod_tendsto N p.κ hκ (bc1Static p) (knInt p.L) zeroCoef (bc1B p) x
  have h0 : (∑ n ∈ range N, if knInt p.L n = 0 then (zeroCoef n : ℝ) else 0) = 0 :=
    Finset.sum_eq_zero fun n _ => by simp [zeroCoef_real]
  rw [h0, zero_add] at h
  exact h

/-- BC2: the limit is the static profile plus the mean value `A₀` (for N ≥ 1) -/
theorem rodBC2_tendsto (N : ℕ) (p : RodP ℝ) (hκ : 0 < p.κ) (hL : p.L ≠ 0) (hN : 1 ≤ N) (x : ℝ) :
    Tendsto (fun t => rodBC2 N p x t) atTop
      (𝓝 ((p.TL + (p.TR - p.γ1 / p.β1 * p.L)) / 2 + bc2Static p x)) := by
  have h := rod_tendsto N p.κ hκ (bc2Static p) (knInt p.L) (bc2A p) zeroCoef x
  have h0 : (∑ n ∈ range N, if knInt p.L n = 0 then bc2A p n else 0) = (p.TL + (p.TR - p.γ1 / p.β1 * p.L)) / 2 := by
    rw [Finset.sum_eq_single 0]
    · rw [if_pos ((knInt_eq_zero_iff p.L hL 0).mpr rfl), bc2A_real, if_pos rfl]
    · intro n _ hn
      rw [if_neg (fun h => hn ((knInt_eq_zero_iff p.L hL n).mp h))]
    · intro h0
      exact absurd (Finset.mem_range.mpr (by omega)) h0
  rw [h0] at h
  exact h

/-- BC3 and BC4: all wave numbers are non-zero, the limit is the static profile -/
theorem rodBC3_tendsto (N : ℕ) (p : RodP ℝ) (hκ : 0 < p.κ) (hL : p.L ≠ 0) (x : ℝ) :
    Tendsto (fun t => rodBC3 N p x t) atTop (𝓝 (bc3Static p x)) := by
  have h := rod_tendsto N p.κ hκ (bc3Static p) (knHalf p.L) zeroCoef (bc3B p) x
  have h0 : (∑ n ∈ range N, if knHalf p.L n = 0 then (zeroCoef n : ℝ) else 0) = 0 :=
    Finset.sum_eq_zero fun n _ => by simp [zeroCoef_real]
  rw [h0, zero_add] at h
  exact h

theorem rodBC4_tendsto (N : ℕ) (p : RodP ℝ) (hκ : 0 < p.κ) (hL : p.L ≠ 0) (x : ℝ) :
    Tendsto (fun t => rodBC4 N p x t) atTop (𝓝 (bc4Static p x)) := by
  have h := rod_tendsto N p.κ hκ (bc4Static p) (knHalf p.L) (bc4A p) zeroCoef x
  have h0 : (∑ n ∈ range N, if knHalf p.L n = 0 then bc4A p n else 0) = 0 :=
    Finset.sum_eq_zero fun n _ => by rw [if_neg (knHalf_ne_zero p.L hL n)]
  rw [h0, zero_add] at h
  exact h

/-- the static profiles are the steady solutions with the declared boundary values:
`static'' = 0` (constant slope, `bc?Static_hasDerivAt`) and the end values / slopes proved above with N = 0 -/
theorem rod_static_is_steady (p : RodP ℝ) (x t : ℝ) :
    rodBC1 0 p x t = bc1Static p x ∧ rodBC2 0 p x t = bc2Static p x ∧ rodBC3 0 p x t = bc3Static p x
      ∧ rodBC4 0 p x t = bc4Static p x := by
  refine ⟨?_, ?_, ?_, ?_⟩ <;>
  · simp only [rodBC1, rodBC2, rodBC3, rodBC4]
    rw [rodSeries_eq_ser]
    simp [ser]

end

end EPV.C14
