/-
C14 — Rectangle (rectangle.py): 0 ≤ x ≤ a, 0 ≤ y ≤ b, bottom y = 0 at temperature 0, top y = b at Ttop,
initially 0.  For EVERY truncation order N and all parameters the hand model `rectangle`
  * satisfies the 2-D heat equation  T_t = κ (T_xx + T_yy)  at every (x, y, t);
  * is 0 on the bottom y = 0 exactly;
  * on the top y = b equals the (N-1)-term Fourier sine sum of the constant Ttop,
        Σ_{n=1}^{N-1} 2 Ttop (1 - (-1)^n)/(nπ) · sin(nπx/a),
    independently of t — i.e. the declared top temperature "up to series truncation"
    (that these are the sine coefficients of the constant Ttop is `Fourier.lean: rect_top_coeff`);
  * tends to its static (harmonic) part as t → ∞.
The traced `Rectangle._run` with Nsum = 2 equals the hand model.
The SIDE conditions are a finding: see `FindingRectangle.lean`.
-/
import EPV.Lemmas.HeatRect
import EPV.Gen.RectangleN2
import EPV.Tactics
import EPV.Lemmas.Bridge.HeatTac

set_option linter.all false

open EPV EPV.Gen EPV.Spec.Heat EPV.Model.HeatSeries EPV.Lemmas.Heat Finset Filter Topology

namespace EPV.C14

noncomputable section

/-- **C14, Rectangle, heat equation, every N, all parameters, every point and time.** -/
theorem rectangle_heat_eq (N : ℕ) (κ a b Ttop x y t : ℝ) :
    HeatEq2D κ (fun x y t => rectangle N κ a b Ttop x y t) x y t := by
  rw [rectangle_eq]
  exact rect_heat_eq N κ _ _ _ _ _ _ x y t

/-- bottom edge: `T(x, 0, t) = 0` -/
theorem rectangle_bottom (N : ℕ) (κ a b Ttop x t : ℝ) : rectangle N κ a b Ttop x 0 t = 0 := by
  have := congrFun (congrFun (congrFun (rectangle_eq N κ a b Ttop) x) 0) t
  rw [this]
  unfold rect
  simp

/-- top edge: `T(x, b, t)` is the truncated sine series of the constant Ttop (a ≠ 0, b ≠ 0) -/
theorem rectangle_top (N : ℕ) (κ a b Ttop x t : ℝ) (ha : a ≠ 0) (hb : b ≠ 0) :
    rectangle N κ a b Ttop x b t = ∑ i ∈ range (N - 1), rectC Ttop (i + 1) * Real.sin (rectKm a (i + 1) * x) := by
  have := congrFun (congrFun (congrFun (rectangle_eq N κ a b Ttop) x) b) t
  rw [this]
  unfold rect
  have h1 : (∑ n ∈ range N, ∑ j ∈ range (N - 1),
      rectAnm a b Ttop n (j + 1) * Real.sin (rectKn a n * x) * Real.sin (rectKm b (j + 1) * b)
        * Real.exp (-κ * (rectKn a n * rectKn a n + rectKm b (j + 1) * rectKm b (j + 1)) * t)) = 0 := by
    refine Finset.sum_eq_zero fun n _ => Finset.sum_eq_zero fun j _ => ?_
    have : rectKm b (j + 1) * b = ((j + 1 : ℕ) : ℝ) * Real.pi := by rw [rectKm_real]; field_simp
    rw [this, Real.sin_nat_mul_pi]
    ring
  rw [h1, zero_add]
  refine Finset.sum_congr rfl fun i _ => ?_
  have hk : rectKm a (i + 1) * b ≠ 0 := by
    rw [rectKm_real]
    have : ((i + 1 : ℕ) : ℝ) ≠ 0 := by exact_mod_cast Nat.succ_ne_zero i
    have := Real.pi_ne_zero
    positivity
  have hs : Real.sinh (rectKm a (i + 1) * b) ≠ 0 := fun h => hk (Real.sinh_eq_zero.mp h)
  field_simp

/-- defaults a = b = 2 -/
example : (2 : ℝ) ≠ 0 := by norm_num

/-- the static part (what remains as t → ∞) -/
def rectStaticReal (N : ℕ) (a b Ttop x y : ℝ) : ℝ :=
  ∑ i ∈ range (N - 1), rectC Ttop (i + 1) * Real.sin (rectKm a (i + 1) * x) * Real.sinh (rectKm a (i + 1) * y)
    / Real.sinh (rectKm a (i + 1) * b)

/-- **t → ∞** (κ > 0, a ≠ 0): the temperature tends to the static harmonic part -/
theorem rectangle_tendsto (N : ℕ) (κ a b Ttop x y : ℝ) (hκ : 0 < κ) (ha : a ≠ 0) :
    Tendsto (fun t => rectangle N κ a b Ttop x y t) atTop (𝓝 (rectStaticReal N a b Ttop x y)) := by
  have : (fun t => rectangle N κ a b Ttop x y t) = fun t => rect N κ (rectAnm a b Ttop) (rectKn a) (rectKm b) (rectC Ttop)
      (rectKm a) (fun n => Real.sinh (rectKm a n * b)) x y t := by
    funext t; exact congrFun (congrFun (congrFun (rectangle_eq N κ a b Ttop) x) y) t
  rw [this]
  unfold rect rectStaticReal
  have h0 : Tendsto (fun t => ∑ n ∈ range N, ∑ j ∈ range (N - 1),
      rectAnm a b Ttop n (j + 1) * Real.sin (rectKn a n * x) * Real.sin (rectKm b (j + 1) * y)
        * Real.exp (-κ * (rectKn a n * rectKn a n + rectKm b (j + 1) * rectKm b (j + 1)) * t)) atTop
      (𝓝 (∑ n ∈ range N, ∑ j ∈ range (N - 1), 0)) := by
    refine tendsto_finset_sum _ fun n _ => tendsto_finset_sum _ fun j _ => ?_
    have hk : rectKn a n ≠ 0 := by
      rw [rectKn_real]
      have : (2 * (n : ℝ) + 1) ≠ 0 := by positivity
      have := Real.pi_ne_zero
      positivity
    have hneg : -κ * (rectKn a n * rectKn a n + rectKm b (j + 1) * rectKm b (j + 1)) < 0 := by
      have h1 : 0 < rectKn a n * rectKn a n := mul_self_pos.mpr hk
      have h2 : 0 ≤ rectKm b (j + 1) * rectKm b (j + 1) := mul_self_nonneg _
      nlinarith
    have h1 : Tendsto (fun t : ℝ => -κ * (rectKn a n * rectKn a n + rectKm b (j + 1) * rectKm b (j + 1)) * t) atTop atBot :=
      tendsto_id.const_mul_atTop_of_neg hneg
    simpa using (Real.tendsto_exp_atBot.comp h1).const_mul
      (rectAnm a b Ttop n (j + 1) * Real.sin (rectKn a n * x) * Real.sin (rectKm b (j + 1) * y))
  simpa using h0.add_const _

/-- **the traced code** (`Rectangle._run`, Nsum = 2) is the hand model -/
theorem rectangleN2_eq (p : RectangleN2.P) (x y t : ℝ) :
    RectangleN2.temperature p x y t = rectangle 2 p.kappa p.a p.b p.Ttop x y t := by
  have := congrFun (congrFun (congrFun (rectangle_eq 2 p.kappa p.a p.b p.Ttop) x) y) t
  rw [this]
  simp only [epv_tree, epv_leaf, rect, Finset.sum_range_succ, Finset.sum_range_zero, rectAnm_real, rectKn_real,
    rectKm_real, rectC]
  push_cast
  heat_eq

theorem rectangleN2_leaves : RectangleN2.okLeaves = [0] := rfl

end

end EPV.C14
