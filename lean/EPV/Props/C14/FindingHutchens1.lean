/-
C14 — FINDING (Hutchens 1, r = 0).  The property says: "At a coordinate singularity (r = 0) the value is the
limit of nearby values."  `Hutchens1._run` replaces the sum at r = 0 by the constant -1
(`np.where(r != 0, temperature, -1)`), so it returns  Tb + (Tb - T0)(-1) = T0  at the centre for ALL t, whereas
the r ≠ 0 formula tends to  h1Centre = Tb + 2 (Tb - T0) Σ_{n<N} (-1)^n e^{-a (nπ/b)² t}  there.

Proved here:
  * on the traced model: the value at r = 0 is T0 for every t and every parameter value;
  * for EVERY truncation order N, a > 0, b ≠ 0, Tb ≠ T0: for all sufficiently large t the centre limit differs
    from the value the code assigns (the limit tends to Tb, the code stays at T0);
  * the concrete witness of DESIGN §5 (iron sphere defaults Tb = 5, T0 = 1, b = 1, t = 1; neighbours 3.94, value 1.0)
    on the traced Nsum = 3 model: the limit of the traced r ≠ 0 values exists and is not the traced value at 0.
Oracle reproduction on the real code: `o_heat.h1_centre`, site 'Hutchens1:r=0'.
-/
import EPV.Lemmas.HeatSphere
import Mathlib.Analysis.Real.Pi.Bounds

set_option linter.all false

open EPV EPV.Gen EPV.Spec.Heat EPV.Model.HeatSeries EPV.Lemmas.Heat Finset Filter Topology

namespace EPV.C14

noncomputable section

/-- the traced code returns T0 at r = 0 whatever t is -/
theorem finding_hutchens1_value_at_zero (p : Hutchens1N3.P) (t : ℝ) : Hutchens1N3.temperature p 0 t = p.T0 := by
  rw [h1N3_eq, if_pos rfl, h1AtZero_real]

/-- the centre limit tends to Tb as t → ∞ -/
theorem h1Centre_tendsto (N : ℕ) (a b Tb T0 : ℝ) (ha : 0 < a) (hb : b ≠ 0) :
    Tendsto (fun t => h1Centre N a b Tb T0 t) atTop (𝓝 Tb) := by
  unfold h1Centre
  have : Tendsto (fun t => ∑ m ∈ range (N - 1),
      h1K b (m + 1) * h1c b (m + 1) * Real.exp (-a * (h1c b (m + 1) * h1c b (m + 1)) * t)) atTop (𝓝 (∑ m ∈ range (N - 1), 0)) := by
    refine tendsto_finset_sum _ fun m _ => ?_
    have hc := h1c_ne_zero b hb (m + 1) (Nat.succ_ne_zero m)
    have hneg : -a * (h1c b (m + 1) * h1c b (m + 1)) < 0 := by
      have : 0 < h1c b (m + 1) * h1c b (m + 1) := mul_self_pos.mpr hc
      nlinarith
    have h1 : Tendsto (fun t : ℝ => -a * (h1c b (m + 1) * h1c b (m + 1)) * t) atTop atBot :=
      tendsto_id.const_mul_atTop_of_neg hneg
    simpa using (Real.tendsto_exp_atBot.comp h1).const_mul (h1K b (m + 1) * h1c b (m + 1))
  simpa using (this.const_mul (Tb - T0)).const_add Tb

/-- **Finding, every N.**  With a > 0, b ≠ 0 and Tb ≠ T0, for all sufficiently large t the limit of the nearby
values at the centre is NOT the value the code assigns at r = 0. -/
theorem finding_hutchens1_centre_ne (N : ℕ) (a b Tb T0 : ℝ) (ha : 0 < a) (hb : b ≠ 0) (hT : Tb ≠ T0) :
    ∀ᶠ t in atTop, h1Centre N a b Tb T0 t ≠ h1AtZero Tb T0 := by
  rw [h1AtZero_real]
  exact (h1Centre_tendsto N a b Tb T0 ha hb).eventually_ne hT

/-- **Finding at the recorded witness** (traced model, Nsum = 3; T0 = 1, Tb = 5, b = 1, iron k, c_p, ρ; t = 1):
the r → 0 limit of the returned temperature exists and differs from the temperature returned at r = 0. -/
theorem finding_hutchens1_witness :
    let p : Hutchens1N3.P := ⟨1, 5, 1, 5.2441e10, 8.4695e10, 7.897⟩
    ∃ ℓ, Tendsto (fun r => Hutchens1N3.temperature p r 1) (𝓝[≠] 0) (𝓝 ℓ) ∧ ℓ ≠ Hutchens1N3.temperature p 0 1 := by
  intro p
  refine ⟨h1Centre 3 (p.k / (p.rho * p.cp)) p.b p.Tb p.T0 1, ?_, ?_⟩
  · refine (h1_centre_limit 3 (p.k / (p.rho * p.cp)) p.b p.Tb p.T0 1).congr' ?_
    filter_upwards [self_mem_nhdsWithin] with r hr
    have hr' : r ≠ 0 := hr
    rw [h1N3_eq, if_neg hr']
  · rw [finding_hutchens1_value_at_zero, h1Centre_eq _ _ _ _ _ _ (by norm_num [p])]
    simp only [p, Finset.sum_range_succ, Finset.sum_range_zero, h1c]
    -- 5 + 2·4·(-e₁ + e₂) ≠ 1  because  e₁ = exp(-a π²) < 1/2  and  e₂ > 0
    set a : ℝ := 8.4695e10 / (7.897 * 5.2441e10) with ha
    have ha2 : (0.2 : ℝ) < a := by rw [ha]; norm_num
    have hpi : (3 : ℝ) < Real.pi := Real.pi_gt_three
    have hx : (1 : ℝ) < a * (Real.pi * ((0 + 1 : ℕ) : ℝ) / 1 * (Real.pi * ((0 + 1 : ℕ) : ℝ) / 1)) * 1 := by
      push_cast
      nlinarith
    have he1 : Real.exp (-a * (Real.pi * ((0 + 1 : ℕ) : ℝ) / 1 * (Real.pi * ((0 + 1 : ℕ) : ℝ) / 1)) * 1) < 1 / 2 := by
      have h1 : Real.exp (-a * (Real.pi * ((0 + 1 : ℕ) : ℝ) / 1 * (Real.pi * ((0 + 1 : ℕ) : ℝ) / 1)) * 1) < Real.exp (-1) :=
        Real.exp_lt_exp.mpr (by linarith)
      have h2 : Real.exp (-1) < 1 / 2 := by
        rw [Real.exp_neg, inv_lt_comm₀ (Real.exp_pos 1) (by norm_num)]
        have := Real.add_one_lt_exp (show (1 : ℝ) ≠ 0 by norm_num)
        norm_num at this ⊢
        linarith
      linarith
    have he2 := Real.exp_pos (-a * (Real.pi * ((1 + 1 : ℕ) : ℝ) / 1 * (Real.pi * ((1 + 1 : ℕ) : ℝ) / 1)) * 1)
    intro h
    norm_num at h he1 he2
    linarith

end

end EPV.C14
