/-
C14 — Hutchens 1 (hutchens1.py): a sphere of radius b, initially at T0, surface held at Tb.

For EVERY truncation order N and all parameters, the r ≠ 0 formula of the hand model `h1Series`
  * satisfies the radial heat equation  T_t = a (T_rr + 2 T_r / r),  a = k/(ρ c_p),  at every r ≠ 0;
  * takes the value Tb at r = b exactly;
  * tends to Tb (the steady solution) as t → ∞  (a > 0, b ≠ 0);
  * has, as r → 0, the limit  Tb + 2 (Tb - T0) Σ_{n=1}^{N-1} (-1)^n e^{-a (nπ/b)² t}.
The value the code assigns AT r = 0 is a different matter: see `FindingHutchens1.lean`.
The traced `Hutchens1._run` with Nsum = 3 equals the hand model (both branches of `r != 0`).

(P) t → 0⁺ (the initial profile T0 in 0 < r < b) is not mechanised; `o_heat.h1_initial` samples it.
-/
import EPV.Lemmas.HeatSphere
import EPV.Gen.Hutchens1N3
import EPV.Tactics

set_option linter.all false

open EPV EPV.Gen EPV.Spec.Heat EPV.Model.HeatSeries EPV.Lemmas.Heat Finset Filter Topology

namespace EPV.C14

noncomputable section

/-- **C14, Hutchens 1, heat equation in the sphere, every N, all parameters, every r ≠ 0 and t.** -/
theorem hutchens1_heat_eq (N : ℕ) (a b Tb T0 r t : ℝ) (hr : r ≠ 0) :
    HeatEqSphere a (h1Series N a b Tb T0) r t := h1_heat_eq N a b Tb T0 r t hr

/-- the iron-sphere defaults: a = k/(ρ c_p) > 0, b = 1, and any interior radius -/
example : (8.4695e10 : ℝ) / (7.897 * 5.2441e10) > 0 ∧ (1 : ℝ) ≠ 0 ∧ (1/2 : ℝ) ≠ 0 := by norm_num

/-- **surface condition** `T(b, t) = Tb`, exact for every N -/
theorem hutchens1_surface (N : ℕ) (a b Tb T0 t : ℝ) (hb : b ≠ 0) : h1Series N a b Tb T0 b t = Tb := by
  rw [h1Series_eq]
  unfold h1ser
  rw [Finset.sum_eq_zero, mul_zero, add_zero]
  intro m _
  have : sph (h1c b (m + 1)) b = 0 := by
    unfold sph h1c
    have : Real.pi * ((m + 1 : ℕ) : ℝ) / b * b = ((m + 1 : ℕ) : ℝ) * Real.pi := by field_simp
    rw [this, Real.sin_nat_mul_pi, zero_div]
  rw [this, mul_zero, zero_mul]

/-- **t → ∞**: the temperature tends to the surface temperature Tb at every r (a > 0, b ≠ 0) -/
theorem hutchens1_tendsto (N : ℕ) (a b Tb T0 r : ℝ) (ha : 0 < a) (hb : b ≠ 0) :
    Tendsto (fun t => h1Series N a b Tb T0 r t) atTop (𝓝 Tb) := by
  rw [h1Series_eq]
  unfold h1ser
  have : Tendsto (fun t => ∑ m ∈ range (N - 1),
      h1K b (m + 1) * sph (h1c b (m + 1)) r * Real.exp (-a * (h1c b (m + 1) * h1c b (m + 1)) * t)) atTop (𝓝 (∑ m ∈ range (N - 1), 0)) := by
    refine tendsto_finset_sum _ fun m _ => ?_
    have hc := h1c_ne_zero b hb (m + 1) (Nat.succ_ne_zero m)
    have hneg : -a * (h1c b (m + 1) * h1c b (m + 1)) < 0 := by
      have : 0 < h1c b (m + 1) * h1c b (m + 1) := mul_self_pos.mpr hc
      nlinarith
    have h1 : Tendsto (fun t : ℝ => -a * (h1c b (m + 1) * h1c b (m + 1)) * t) atTop atBot :=
      tendsto_id.const_mul_atTop_of_neg hneg
    simpa using (Real.tendsto_exp_atBot.comp h1).const_mul (h1K b (m + 1) * sph (h1c b (m + 1)) r)
  have h2 := (this.const_mul (Tb - T0)).const_add Tb
  simpa using h2

/-- **r → 0**: the r ≠ 0 formula has a limit at the centre, for every N and t; in closed form
`h1Centre = Tb + 2 (Tb - T0) Σ_{n=1}^{N-1} (-1)^n e^{-a (nπ/b)² t}` (`Lemmas.Heat.h1Centre_eq`) -/
theorem hutchens1_centre_limit (N : ℕ) (a b Tb T0 t : ℝ) :
    Tendsto (fun r => h1Series N a b Tb T0 r t) (𝓝[≠] 0) (𝓝 (h1Centre N a b Tb T0 t)) :=
  h1_centre_limit N a b Tb T0 t

/-- **the traced code** (`Hutchens1._run`, Nsum = 3) is the hand model: `h1Series 3` for r ≠ 0, `h1AtZero` at r = 0 -/
theorem hutchens1N3_eq (p : Hutchens1N3.P) (r t : ℝ) :
    Hutchens1N3.temperature p r t
      = if r = 0 then h1AtZero p.Tb p.T0 else h1Series 3 (p.k / (p.rho * p.cp)) p.b p.Tb p.T0 r t :=
  h1N3_eq p r t

theorem hutchens1N3_leaves : Hutchens1N3.okLeaves = [0, 1] := rfl

end

end EPV.C14
