/-
C14 — FINDING (Rectangle, side conditions).  The module docstring of rectangle.py declares: "The sides of the
rectangle use zero heat flux conditions."  The series the code evaluates uses sin(k_n x) in x, so

  * T = 0 on both sides x = 0 and x = a (fixed temperature, not fixed flux) — for every N, all parameters;
  * the flux through the side x = 0 is NOT zero: for every truncation order N ≥ 2, all positive a, b, κ, Ttop and
    every height y > 0, the side flux T_x(0, y, t) tends to the static value
        Σ_{n=1}^{N-1} 2 Ttop (1 - (-1)^n)/a · sinh(nπy/a)/sinh(nπb/a)  >  0
    as t → ∞, hence is non-zero for all sufficiently large t.
So the solution returned is that of a different boundary-value problem than the one documented (the heat
equation and the top/bottom conditions hold, `Rectangle.lean`).
Oracle reproduction on the real code: `o_heat.rect_sides`, site 'Rectangle:side-bc'.
-/
import EPV.Lemmas.HeatRect

set_option linter.all false

open EPV EPV.Spec.Heat EPV.Model.HeatSeries EPV.Lemmas.Heat Finset Filter Topology

namespace EPV.C14

noncomputable section

/-- the sides are held at temperature 0 -/
theorem finding_rectangle_sides_dirichlet (N : ℕ) (κ a b Ttop y t : ℝ) (ha : a ≠ 0) :
    rectangle N κ a b Ttop 0 y t = 0 ∧ rectangle N κ a b Ttop a y t = 0 := by
  constructor
  · have := congrFun (congrFun (congrFun (rectangle_eq N κ a b Ttop) 0) y) t
    rw [this]; unfold rect; simp
  · have := congrFun (congrFun (congrFun (rectangle_eq N κ a b Ttop) a) y) t
    rw [this]; unfold rect
    have h1 : ∀ n : ℕ, Real.sin (rectKn a n * a) = 0 := fun n => by
      have : rectKn a n * a = ((2 * n + 1 : ℕ) : ℝ) * Real.pi := by rw [rectKn_real]; push_cast; field_simp
      rw [this, Real.sin_nat_mul_pi]
    have h2 : ∀ n : ℕ, Real.sin (rectKm a n * a) = 0 := fun n => by
      have : rectKm a n * a = (n : ℝ) * Real.pi := by rw [rectKm_real]; field_simp
      rw [this, Real.sin_nat_mul_pi]
    simp [h1, h2]

/-- the static flux through the side x = 0 at height y -/
def rectSideFlux (N : ℕ) (a b Ttop y : ℝ) : ℝ :=
  ∑ i ∈ range (N - 1), rectC Ttop (i + 1) * (rectKm a (i + 1) * Real.cos (rectKm a (i + 1) * 0))
    * Real.sinh (rectKm a (i + 1) * y) / Real.sinh (rectKm a (i + 1) * b)

theorem rectC_nonneg (Ttop : ℝ) (hT : 0 < Ttop) (n : ℕ) : 0 ≤ rectC Ttop n := by
  unfold rectC
  have h : (0 : ℝ) ≤ 1 - (-1) ^ n := by
    rcases neg_one_pow_eq_or ℝ n with h | h <;> rw [h] <;> norm_num
  have := Real.pi_pos
  positivity

theorem rectSideFlux_pos (N : ℕ) (hN : 2 ≤ N) (a b Ttop y : ℝ) (ha : 0 < a) (hb : 0 < b) (hT : 0 < Ttop) (hy : 0 < y) :
    0 < rectSideFlux N a b Ttop y := by
  unfold rectSideFlux
  have hk : ∀ i : ℕ, 0 < rectKm a (i + 1) := fun i => by
    rw [rectKm_real]
    have := Real.pi_pos
    have : (0 : ℝ) < ((i + 1 : ℕ) : ℝ) := by exact_mod_cast Nat.succ_pos i
    positivity
  refine Finset.sum_pos' (fun i _ => ?_) ⟨0, Finset.mem_range.mpr (by omega), ?_⟩
  · have h1 := rectC_nonneg Ttop hT (i + 1)
    have h2 : 0 < Real.sinh (rectKm a (i + 1) * y) := Real.sinh_pos_iff.mpr (mul_pos (hk i) hy)
    have h3 : 0 < Real.sinh (rectKm a (i + 1) * b) := Real.sinh_pos_iff.mpr (mul_pos (hk i) hb)
    have h4 := hk i
    simp only [mul_zero, Real.cos_zero, mul_one]
    positivity
  · have h1 : 0 < rectC Ttop (0 + 1) := by
      unfold rectC
      have := Real.pi_pos
      norm_num
      positivity
    have h2 : 0 < Real.sinh (rectKm a (0 + 1) * y) := Real.sinh_pos_iff.mpr (mul_pos (hk 0) hy)
    have h3 : 0 < Real.sinh (rectKm a (0 + 1) * b) := Real.sinh_pos_iff.mpr (mul_pos (hk 0) hb)
    have h4 := hk 0
    simp only [mul_zero, Real.cos_zero, mul_one]
    positivity

/-- the side flux of the full solution tends to the static side flux -/
theorem rectangle_side_flux_tendsto (N : ℕ) (κ a b Ttop y : ℝ) (hκ : 0 < κ) (ha : a ≠ 0) :
    Tendsto (fun t => deriv (fun x => rectangle N κ a b Ttop x y t) 0) atTop (𝓝 (rectSideFlux N a b Ttop y)) := by
  have : (fun t => deriv (fun x => rectangle N κ a b Ttop x y t) 0)
      = fun t => rectX N κ (rectAnm a b Ttop) (rectKn a) (rectKm b) (rectC Ttop) (rectKm a) (fun n => Real.sinh (rectKm a n * b)) 0 y t := by
    funext t
    have h : (fun x => rectangle N κ a b Ttop x y t) = fun x => rect N κ (rectAnm a b Ttop) (rectKn a) (rectKm b) (rectC Ttop)
        (rectKm a) (fun n => Real.sinh (rectKm a n * b)) x y t := by
      funext x; exact congrFun (congrFun (congrFun (rectangle_eq N κ a b Ttop) x) y) t
    rw [h]
    exact (rect_hasDerivAt_x N κ _ _ _ _ _ _ 0 y t).deriv
  rw [this]
  unfold rectX rectSideFlux
  have h0 : Tendsto (fun t => ∑ n ∈ range N, ∑ j ∈ range (N - 1),
      rectAnm a b Ttop n (j + 1) * (rectKn a n * Real.cos (rectKn a n * 0)) * Real.sin (rectKm b (j + 1) * y)
        * Real.exp (-κ * (rectKn a n * rectKn a n + rectKm b (j + 1) * rectKm b (j + 1)) * t)) atTop
      (𝓝 (∑ n ∈ range N, ∑ j ∈ range (N - 1), 0)) := by
    refine tendsto_finset_sum _ fun n _ => tendsto_finset_sum _ fun j _ => ?_
    have hk : rectKn a n ≠ 0 := by
      rw [rectKn_real]
      have : (2 * (n : ℝ) + 1) ≠ 0 := by positivity
      have := Real.pi_ne_zero
      positivity
    have hneg : -κ * (rectKn a n * rectKn a n + rectKm b (j + 1) * rectKm b (j + 1)) < 0 := by
      have h1 : 0 < rectKn a n * rectKn a n := mul_self_pos.mpr hk
      have h2 : 0 ≤ rectKm b (j + 1) * rectKm b (j + 1) := mul_self_nonneg _
      nlinarith
    have h1 : Tendsto (fun t : ℝ => -κ * (rectKn a n * rectKn a n + rectKm b (j + 1) * rectKm b (j + 1)) * t) atTop atBot :=
      tendsto_id.const_mul_atTop_of_neg hneg
    simpa using (Real.tendsto_exp_atBot.comp h1).const_mul
      (rectAnm a b Ttop n (j + 1) * (rectKn a n * Real.cos (rectKn a n * 0)) * Real.sin (rectKm b (j + 1) * y))
  simpa using h0.add_const _

/-- **Finding.**  For every N ≥ 2 and all positive κ, a, b, Ttop, at every height y > 0 the heat flux through
the side x = 0 is non-zero for all sufficiently large t — the declared zero-flux side condition fails. -/
theorem finding_rectangle_side_flux (N : ℕ) (hN : 2 ≤ N) (κ a b Ttop y : ℝ) (hκ : 0 < κ) (ha : 0 < a) (hb : 0 < b)
    (hT : 0 < Ttop) (hy : 0 < y) :
    ∀ᶠ t in atTop, deriv (fun x => rectangle N κ a b Ttop x y t) 0 ≠ 0 :=
  (rectangle_side_flux_tendsto N κ a b Ttop y hκ ha.ne').eventually_ne (rectSideFlux_pos N hN a b Ttop y ha hb hT hy).ne'

/-- the solver's defaults (Nsum = 100, κ = 1, a = b = 2, Ttop = 1) at mid-height y = 1 satisfy the hypotheses -/
example : (2 : ℕ) ≤ 100 ∧ (0 : ℝ) < 1 ∧ (0 : ℝ) < 2 := by norm_num

end

end EPV.C14
