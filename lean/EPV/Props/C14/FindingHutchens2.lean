/-
C14 — FINDINGS (Hutchens 2).

1. ACCUMULATOR.  `hutchens2.py` executes `temperature += sum` INSIDE the loop over n, so every partial sum is
   added again: the value returned is  static + Σ_{n<N} (N - n)·term_n  instead of  static + Σ_{n<N} term_n.
   (`finding_hutchens2_accumulator`, every N.)  Consequently the result does not converge as N grows and the
   radial boundary value is missed: at the surface r = b (where the I₀ ratio is 1), mid-height z = L/2, with
   Tb = 1, T0 = TL = 0, g₀ = 0, L = 2 the returned temperature is > Tb = 1 for every N ≥ 1 and grows at least
   like (8/3π)·N  (`finding_hutchens2_surface_diverges`).
2. SOURCE SERIES.  The third group of terms carries no I₀ ratio and 1/n² instead of 1/n³, so with a heat source
   (g₀ ≠ 0, the default g₀ = 10¹³) the returned field does not satisfy the stated equation: at z = L/2 the
   residual is (2 g₀/k)·Σ_{n<N} (N-n)(-1)^n ≠ 0 for every N ≥ 1  (`finding_hutchens2_pde`, given only the
   modified Bessel equation for the atom I₀).
Oracle reproductions on the real code: `o_heat.h2_accumulator` (site 'Hutchens2:accumulator'),
`o_heat.h2_boundary` ('Hutchens2:radial-bc'), `o_heat.h2_pde` ('Hutchens2:pde').
-/
import EPV.Lemmas.HeatCyl
import Mathlib.Analysis.Real.Pi.Bounds

set_option linter.all false

open EPV EPV.Spec.Heat EPV.Model.HeatSeries EPV.Lemmas.Heat Finset Filter Topology

namespace EPV.C14

noncomputable section

/-- **Finding 1 (structure), every N**: term n enters the result `N - n` times. -/
theorem finding_hutchens2_accumulator (N : ℕ) (k g0 Tb T0 TL L z : ℝ) (I0r I0b : ℕ → ℝ) :
    hutchens2 N k g0 Tb T0 TL L z I0r I0b
      = h2Static k g0 T0 TL L z + ∑ n ∈ range N, ((N : ℝ) - n) * h2Inc k g0 Tb T0 TL L z I0r I0b n := by
  rw [hutchens2_eq_partial_sums, sum_partial_sums]

/-- so it differs from the truncated series by `Σ_{n<N} (N - 1 - n)·term_n` -/
theorem finding_hutchens2_excess (N : ℕ) (k g0 Tb T0 TL L z : ℝ) (I0r I0b : ℕ → ℝ) :
    hutchens2 N k g0 Tb T0 TL L z I0r I0b
        - (h2Static k g0 T0 TL L z + ∑ n ∈ range N, h2Inc k g0 Tb T0 TL L z I0r I0b n)
      = ∑ n ∈ range N, ((N : ℝ) - 1 - n) * h2Inc k g0 Tb T0 TL L z I0r I0b n := by
  rw [finding_hutchens2_accumulator, add_sub_add_left_eq_sub, ← Finset.sum_sub_distrib]
  refine Finset.sum_congr rfl fun n _ => ?_
  ring

/-- partial sums of the Leibniz series `Σ (-1)^n/(2n+1)` -/
def leib (j : ℕ) : ℝ := ∑ n ∈ range j, (-1 : ℝ) ^ n / (2 * n + 1)

theorem leib_ge (m : ℕ) : 2 / 3 ≤ leib (2 * m + 1) ∧ 2 / 3 ≤ leib (2 * m + 2) := by
  induction m with
  | zero =>
    constructor
    · norm_num [leib, Finset.sum_range_succ]
    · norm_num [leib, Finset.sum_range_succ]
  | succ m ih =>
    have e1 : leib (2 * (m + 1) + 1) = leib (2 * m + 2) + 1 / (2 * ((2 * m + 2 : ℕ) : ℝ) + 1) := by
      have : 2 * (m + 1) + 1 = (2 * m + 2) + 1 := by ring
      rw [this, leib, Finset.sum_range_succ, ← leib, Even.neg_one_pow ⟨m + 1, by ring⟩]
    have e2 : leib (2 * (m + 1) + 2) = leib (2 * (m + 1) + 1) - 1 / (2 * ((2 * m + 3 : ℕ) : ℝ) + 1) := by
      have : 2 * (m + 1) + 2 = (2 * m + 3) + 1 := by ring
      rw [this, leib, Finset.sum_range_succ, ← leib, Odd.neg_one_pow ⟨m + 1, by ring⟩]
      have : 2 * m + 3 = 2 * (m + 1) + 1 := by ring
      rw [this]; ring
    have hp1 : (0 : ℝ) < 2 * ((2 * m + 2 : ℕ) : ℝ) + 1 := by positivity
    have hp2 : (0 : ℝ) < 2 * ((2 * m + 3 : ℕ) : ℝ) + 1 := by positivity
    have hle : 1 / (2 * ((2 * m + 3 : ℕ) : ℝ) + 1) ≤ 1 / (2 * ((2 * m + 2 : ℕ) : ℝ) + 1) := by
      apply one_div_le_one_div_of_le hp1
      push_cast; linarith
    have hpos : 0 < 1 / (2 * ((2 * m + 2 : ℕ) : ℝ) + 1) := by positivity
    constructor
    · rw [e1]; linarith [ih.2]
    · rw [e2, e1]; linarith [ih.2]

theorem leib_succ_ge (j : ℕ) : 2 / 3 ≤ leib (j + 1) := by
  rcases Nat.even_or_odd j with ⟨m, hm⟩ | ⟨m, hm⟩
  · have : j + 1 = 2 * m + 1 := by omega
    rw [this]; exact (leib_ge m).1
  · have : j + 1 = 2 * m + 2 := by omega
    rw [this]; exact (leib_ge m).2

/-- the returned temperature at the surface r = b (I₀ ratio 1), z = L/2, for Tb = 1, T0 = TL = 0, g₀ = 0, L = 2 -/
theorem h2_surface_value (N : ℕ) (k : ℝ) (c : ℕ → ℝ) (hc : ∀ n, c n ≠ 0) :
    hutchens2 N k 0 1 0 0 2 1 c c = 4 / Real.pi * ∑ j ∈ range N, leib (j + 1) := by
  rw [hutchens2_eq_partial_sums, h2Static_real, Finset.mul_sum]
  have hinc : ∀ n, h2Inc k 0 1 0 0 2 1 c c n = 4 / Real.pi * ((-1) ^ n / (2 * n + 1)) := fun n => by
    rw [h2Inc_real, div_self (hc n)]
    have : h2lam 2 n * 1 = n * Real.pi + Real.pi / 2 := by unfold h2lam; ring
    rw [this, Real.sin_add_pi_div_two, Real.cos_nat_mul_pi]
    ring
  simp only [hinc, ← Finset.mul_sum, leib]
  ring

/-- **Finding 1 (consequence): the radial boundary value is missed and the result diverges with N.**
Declared: T(b, z) = Tb = 1.  Returned at r = b, z = L/2: more than 1 for every N ≥ 1, and at least (8/3π)·N. -/
theorem finding_hutchens2_surface_diverges (N : ℕ) (hN : 1 ≤ N) (k : ℝ) (c : ℕ → ℝ) (hc : ∀ n, c n ≠ 0) :
    (1 : ℝ) < hutchens2 N k 0 1 0 0 2 1 c c ∧ 8 / (3 * Real.pi) * N ≤ hutchens2 N k 0 1 0 0 2 1 c c := by
  rw [h2_surface_value N k c hc]
  have hπ := Real.pi_pos
  have hπ4 : Real.pi < 4 := Real.pi_lt_four
  have hsum : (2 / 3 : ℝ) * N ≤ ∑ j ∈ range N, leib (j + 1) := by
    have : ∑ j ∈ range N, (2 / 3 : ℝ) ≤ ∑ j ∈ range N, leib (j + 1) :=
      Finset.sum_le_sum fun j _ => leib_succ_ge j
    simpa [mul_comm] using this
  have hsum1 : (1 : ℝ) ≤ ∑ j ∈ range N, leib (j + 1) := by
    obtain ⟨M, rfl⟩ : ∃ M, N = M + 1 := ⟨N - 1, by omega⟩
    rw [Finset.sum_range_succ']
    have h0 : leib (0 + 1) = 1 := by norm_num [leib]
    have : 0 ≤ ∑ j ∈ range M, leib (j + 1 + 1) :=
      Finset.sum_nonneg fun j _ => le_trans (by norm_num) (leib_succ_ge (j + 1))
    rw [h0]; linarith
  constructor
  · have : 1 < 4 / Real.pi := by rw [lt_div_iff₀ hπ]; linarith
    calc (1 : ℝ) < 4 / Real.pi := this
      _ ≤ 4 / Real.pi * ∑ j ∈ range N, leib (j + 1) := le_mul_of_one_le_right (by positivity) hsum1
  · calc 8 / (3 * Real.pi) * N = 4 / Real.pi * (2 / 3 * N) := by field_simp; ring
      _ ≤ 4 / Real.pi * ∑ j ∈ range N, leib (j + 1) := mul_le_mul_of_nonneg_left hsum (by positivity)

/-- non-vacuity: `hc` holds for I₀ ≥ 1 > 0 -/
example : ∀ n : ℕ, (fun _ : ℕ => (1 : ℝ)) n ≠ 0 := fun _ => one_ne_zero

theorem alt_partial (j : ℕ) : ∑ n ∈ range (j + 1), (-1 : ℝ) ^ n = (1 + (-1) ^ j) / 2 := by
  induction j with
  | zero => norm_num
  | succ j ih => rw [Finset.sum_range_succ, ih, pow_succ]; ring

theorem weighted_alt_pos (N : ℕ) (hN : 1 ≤ N) : 0 < ∑ n ∈ range N, ((N : ℝ) - n) * (-1 : ℝ) ^ n := by
  rw [← sum_partial_sums]
  refine Finset.sum_pos' (fun j _ => ?_) ⟨0, Finset.mem_range.mpr hN, by norm_num⟩
  rw [alt_partial]
  rcases neg_one_pow_eq_or ℝ j with h | h <;> rw [h] <;> norm_num

/-- **Finding 2: with a heat source the stated equation is not satisfied** (every N ≥ 1, g₀ ≠ 0, k ≠ 0, L ≠ 0,
any radius r ≠ 0, mid-height z = L/2), given only the modified Bessel equation for the atom `I`. -/
theorem finding_hutchens2_pde (N : ℕ) (hN : 1 ≤ N) (k g0 Tb T0 TL L b : ℝ) (hL : L ≠ 0) (hk : k ≠ 0) (hg : g0 ≠ 0)
    (I I' I'' : ℝ → ℝ) (hI : IsModBessel0 I I' I'') (r : ℝ) (hr : r ≠ 0) :
    ¬ PoissonCyl (g0 / k) (fun r z => hutchens2 N k g0 Tb T0 TL L z (fun n => I (h2lam L n * r)) (fun n => I (h2lam L n * b))) r (L / 2) := by
  unfold PoissonCyl
  -- the residual formula of `Hutchens2.lean`, re-derived here (property files import nothing from each other)
  have hgen : (fun r z => hutchens2 N k g0 Tb T0 TL L z (fun n => I (h2lam L n * r)) (fun n => I (h2lam L n * b))) = h2gen N
      (fun n => ((N : ℝ) - n) * ((2 * Tb - T0 - TL) * (2 / Real.pi) / (2 * n + 1)) / I (h2lam L n * b))
      (fun n => ((N : ℝ) - n) * -(2 * g0 * (L * L) / (Real.pi * Real.pi * k) / ((2 * n + 1) * (2 * n + 1))))
      (h2lam L) I (fun z => T0 + (TL - T0) * z / L + g0 / (2 * k) * z * (L - z)) := by
    funext r z
    unfold h2gen
    rw [hutchens2_eq_partial_sums, sum_partial_sums, h2Static_real, add_comm]
    congr 1
    refine Finset.sum_congr rfl fun n _ => ?_
    rw [h2Inc_real]
    ring
  have hst : ∀ y : ℝ, HasDerivAt (fun z => T0 + (TL - T0) * z / L + g0 / (2 * k) * z * (L - z))
      ((TL - T0) / L + g0 / (2 * k) * (L - 2 * y)) y := by
    intro y
    have h1 : HasDerivAt (fun z : ℝ => (TL - T0) * z / L) ((TL - T0) / L) y := by
      simpa using ((hasDerivAt_id y).const_mul (TL - T0)).div_const L
    have h2 : HasDerivAt (fun z : ℝ => g0 / (2 * k) * z * (L - z)) (g0 / (2 * k) * (L - 2 * y)) y := by
      have := ((hasDerivAt_id y).const_mul (g0 / (2 * k))).mul ((hasDerivAt_id y).const_sub L)
      refine this.congr_deriv ?_
      simp only [id]; ring
    exact (h1.const_add T0).add h2
  have hst' : ∀ y : ℝ, HasDerivAt (fun y => (TL - T0) / L + g0 / (2 * k) * (L - 2 * y)) (-(g0 / k)) y := by
    intro y
    have := ((((hasDerivAt_id y).const_mul 2).const_sub L).const_mul (g0 / (2 * k))).const_add ((TL - T0) / L)
    refine this.congr_deriv ?_
    field_simp
  rw [hgen, h2gen_laplace N _ _ (h2lam L) I I' I'' hI _ _ _ hst hst' r (L / 2) hr]
  rw [add_assoc, neg_add_cancel, add_zero]
  have hterm : ∀ n : ℕ, -(h2lam L n * h2lam L n) * (((N : ℝ) - n) * -(2 * g0 * (L * L) / (Real.pi * Real.pi * k) / ((2 * n + 1) * (2 * n + 1))))
      * Real.sin (h2lam L n * (L / 2)) = 2 * g0 / k * (((N : ℝ) - n) * (-1) ^ n) := fun n => by
    have : h2lam L n * (L / 2) = n * Real.pi + Real.pi / 2 := by unfold h2lam; field_simp
    rw [this, Real.sin_add_pi_div_two, Real.cos_nat_mul_pi]
    unfold h2lam
    have hπ := Real.pi_ne_zero
    have : (2 * (n : ℝ) + 1) ≠ 0 := by positivity
    field_simp
  simp only [hterm]
  rw [← Finset.mul_sum]
  have := weighted_alt_pos N hN
  have h2 : 2 * g0 / k ≠ 0 := by positivity
  exact mul_ne_zero h2 this.ne'

/-- the defaults g₀ = 10¹³, k = 8.4695·10¹⁰, L = 2 satisfy the hypotheses -/
example : (1e13 : ℝ) ≠ 0 ∧ (8.4695e10 : ℝ) ≠ 0 ∧ (2 : ℝ) ≠ 0 := by norm_num

end

end EPV.C14
