/-
C14 — the coefficient formulas of the hand model ARE the ones the source computes.

`RodModes1..4` are traced from `Rod1D.modes_BC1..4` with the loop body run on a symbolic mode index
(`n : ℝ`; `(-1)**n` is the real power of -1).  For every natural n the traced `k_n, A_n, B_n` equal the
hand model's `knInt/knHalf`, `bc?A`, `bc?B`.  `RodRun2` is `Rod1D._run` traced with Nsum = 2 and symbolic
coefficient arrays: on each leaf of its decision tree (the zero pattern of α₁ β₁ α₂ β₂) the returned
temperature is the hand model's `rodSeries 2` with the static part of that case.

Together with `Rod.lean` this gives: the series the code evaluates (for the coefficient arrays it stores)
satisfies the heat equation and the boundary conditions, for every truncation order.
-/
import EPV.Lemmas.HeatSeries
import EPV.Gen.RodModes1
import EPV.Gen.RodModes2
import EPV.Gen.RodModes3
import EPV.Gen.RodModes4
import EPV.Gen.RodRun2
import EPV.Tactics
import EPV.Lemmas.Bridge.HeatTac

set_option linter.all false

open EPV EPV.Gen EPV.Spec.Heat EPV.Model.HeatSeries EPV.Lemmas.Heat Finset

namespace EPV.C14

noncomputable section

/-- `(-1)**n` as the tracer writes it (real power) is `(-1)^n` for natural n -/
theorem neg_one_rpow_nat (n : ℕ) : ((-1 : ℝ) ^ (n : ℝ)) = (-1) ^ n := Real.rpow_natCast _ _

/-- Case analysis on the traced tests of the mode index and leaf-by-leaf identity, written against the simp sets only:
no leaf numbers, no assumption on which of `n == 0` / `n != 0` the Python tests first or on how a formula is
grouped (`heat_conj`, `Lemmas/Bridge/HeatTac.lean`).  Branches whose traced tests contradict `n = 0` / `n ≠ 0` are
closed by `simp_all`; on the others the leaf definitions are unfolded and compared as field expressions. -/
macro "modes_close" : tactic =>
  `(tactic| ((try split_ifs) <;> (try simp only [epv_cond] at *) <;> first
      | (exfalso; simp_all; done)
      | (simp only [epv_leaf, neg_one_rpow_nat]; heat_conj)
      | (simp only [epv_leaf, neg_one_rpow_nat, Nat.cast_zero, Real.rpow_zero, pow_zero]; heat_conj)))

/-- modes_BC1: traced (k_n, A_n, B_n) = hand model, every n -/
theorem modes_BC1_eq (p : RodP ℝ) (n : ℕ) :
    let q : RodModes1.P := ⟨p.L, p.TL, p.TR, p.α1, p.α2, p.γ1, p.γ2, n⟩
    RodModes1.kn q = knInt p.L n ∧ RodModes1.An q = zeroCoef n ∧ RodModes1.Bn q = bc1B p n := by
  intro q
  rw [knInt_real, zeroCoef_real, bc1B_real]
  simp only [epv_tree, q]
  by_cases hn : n = 0
  · subst hn
    modes_close
  · modes_close

/-- modes_BC2 -/
theorem modes_BC2_eq (p : RodP ℝ) (n : ℕ) :
    let q : RodModes2.P := ⟨p.L, p.TL, p.TR, p.β1, p.γ1, n⟩
    RodModes2.kn q = knInt p.L n ∧ RodModes2.An q = bc2A p n ∧ RodModes2.Bn q = zeroCoef n := by
  intro q
  rw [knInt_real, zeroCoef_real, bc2A_real]
  simp only [epv_tree, q]
  by_cases hn : n = 0
  · subst hn
    modes_close
  · modes_close

/-- modes_BC3 -/
theorem modes_BC3_eq (p : RodP ℝ) (n : ℕ) :
    let q : RodModes3.P := ⟨p.L, p.TL, p.TR, p.α1, p.β2, p.γ1, p.γ2, n⟩
    RodModes3.kn q = knHalf p.L n ∧ RodModes3.An q = zeroCoef n ∧ RodModes3.Bn q = bc3B p n := by
  intro q
  rw [knHalf_real, zeroCoef_real, bc3B_real]
  simp only [epv_tree, q]
  modes_close

/-- modes_BC4 -/
theorem modes_BC4_eq (p : RodP ℝ) (n : ℕ) :
    let q : RodModes4.P := ⟨p.L, p.TL, p.TR, p.α2, p.β1, p.γ1, p.γ2, n⟩
    RodModes4.kn q = knHalf p.L n ∧ RodModes4.An q = bc4A p n ∧ RodModes4.Bn q = zeroCoef n := by
  intro q
  rw [knHalf_real, zeroCoef_real, bc4A_real]
  simp only [epv_tree, q]
  modes_close

/-! ### `Rod1D._run` (Nsum = 2, symbolic coefficient arrays) is `rodSeries 2` with the static part of its case -/

/-- coefficient sequences read from the traced arrays -/
def arr2 (a0 a1 : ℝ) : ℕ → ℝ := fun n => if n = 0 then a0 else a1

/-- the model parameters seen by `RodRun2` -/
def runP (q : RodRun2.P) : RodP ℝ := ⟨q.kappa, q.L, 0, 0, q.alpha1, q.beta1, q.gamma1, q.alpha2, q.beta2, q.gamma2⟩

/-- which static part `_run` adds: its four special cases, else the general formula -/
def runStatic (q : RodRun2.P) : ℝ → ℝ :=
  if q.alpha1 ≠ 0 ∧ q.beta1 = 0 ∧ q.alpha2 ≠ 0 ∧ q.beta2 = 0 then bc1Static (runP q)
  else if q.alpha1 = 0 ∧ q.beta1 ≠ 0 ∧ q.alpha2 = 0 ∧ q.beta2 ≠ 0 then bc2Static (runP q)
  else if q.alpha1 ≠ 0 ∧ q.beta1 = 0 ∧ q.alpha2 = 0 ∧ q.beta2 ≠ 0 then bc3Static (runP q)
  else if q.alpha1 = 0 ∧ q.beta1 ≠ 0 ∧ q.alpha2 ≠ 0 ∧ q.beta2 = 0 then bc4Static (runP q)
  else genStatic (runP q)

theorem genStatic_real (p : RodP ℝ) (x : ℝ) :
    genStatic p x =
      (p.β2 / p.L * p.γ1 - p.β1 / p.L * p.γ2 + p.L * p.α2 * p.γ1) / (p.α1 * (p.β2 / p.L) - p.α2 * (p.β1 / p.L) + p.L * p.α1 * p.α2)
      + ((p.β2 / p.L * p.γ1 - p.β1 / p.L * p.γ2 + p.L * p.α1 * p.γ2) / (p.α1 * (p.β2 / p.L) - p.α2 * (p.β1 / p.L) + p.L * p.α1 * p.α2)
        - (p.β2 / p.L * p.γ1 - p.β1 / p.L * p.γ2 + p.L * p.α2 * p.γ1) / (p.α1 * (p.β2 / p.L) - p.α2 * (p.β1 / p.L) + p.L * p.α1 * p.α2)) * x / p.L := rfl

/-- the traced `_run` returns numbers unless it is the BC2 pattern with unequal end fluxes (ValueError) -/
theorem run2_outcome (q : RodRun2.P) (x t : ℝ) :
    RodRun2.outcome q x t = .ok ↔
      ¬ (q.alpha1 = 0 ∧ q.beta1 ≠ 0 ∧ q.alpha2 = 0 ∧ q.beta2 ≠ 0 ∧ q.gamma1 / q.beta1 ≠ q.gamma2 / q.beta2) := by
  -- `hs`: the flux test may be traced in either orientation (`F1 != F2` or `F2 != F1`)
  have hs : (q.gamma2 / q.beta2 = q.gamma1 / q.beta1) ↔ (q.gamma1 / q.beta1 = q.gamma2 / q.beta2) := eq_comm
  simp only [epv_tree, epv_cond]
  by_cases h0 : q.alpha1 = 0 <;> by_cases h1 : q.beta1 = 0 <;> by_cases h2 : q.alpha2 = 0 <;> by_cases h3 : q.beta2 = 0 <;>
    by_cases h4 : q.gamma1 / q.beta1 = q.gamma2 / q.beta2 <;> simp [h0, h1, h2, h3, h4, hs]

/-- and the only failure is a `ValueError` -/
theorem run2_raises_only_valueError (q : RodRun2.P) (x t : ℝ) :
    RodRun2.outcome q x t = .ok ∨ RodRun2.outcome q x t = .raise "ValueError" := by
  -- `hs`: the flux test may be traced in either orientation (`F1 != F2` or `F2 != F1`)
  have hs : (q.gamma2 / q.beta2 = q.gamma1 / q.beta1) ↔ (q.gamma1 / q.beta1 = q.gamma2 / q.beta2) := eq_comm
  simp only [epv_tree, epv_cond]
  by_cases h0 : q.alpha1 = 0 <;> by_cases h1 : q.beta1 = 0 <;> by_cases h2 : q.alpha2 = 0 <;> by_cases h3 : q.beta2 = 0 <;>
    by_cases h4 : q.gamma1 / q.beta1 = q.gamma2 / q.beta2 <;> simp [h0, h1, h2, h3, h4, hs]

/-- **the traced `_run` is the hand series** (N = 2), on every leaf -/
theorem run2_eq_rodSeries (q : RodRun2.P) (x t : ℝ) (h : RodRun2.outcome q x t = .ok) :
    RodRun2.temperature q x t
      = rodSeries 2 q.kappa (runStatic q) (arr2 q.kn0 q.kn1) (arr2 q.An0 q.An1) (arr2 q.Bn0 q.Bn1) x t := by
  have hs : (q.gamma2 / q.beta2 = q.gamma1 / q.beta1) ↔ (q.gamma1 / q.beta1 = q.gamma2 / q.beta2) := eq_comm
  rw [rodSeries_real]
  simp only [Finset.sum_range_succ, Finset.sum_range_zero, arr2, runStatic]
  simp only [epv_tree, epv_cond] at *
  by_cases h0 : q.alpha1 = 0 <;> by_cases h1 : q.beta1 = 0 <;> by_cases h2 : q.alpha2 = 0 <;> by_cases h3 : q.beta2 = 0 <;>
    simp only [h0, h1, h2, h3, if_true, if_false, ne_eq, not_true_eq_false, not_false_eq_true, and_self, and_true,
      true_and, and_false, false_and, one_ne_zero] at h ⊢ <;>
    first
    | (simp only [bc1Static_real, bc3Static_real, bc4Static_real, genStatic_real, runP, epv_leaf, h0, h2]; heat_eq)
    | (by_cases h4 : q.gamma1 / q.beta1 = q.gamma2 / q.beta2 <;>
        simp only [h4, hs, if_true, if_false, reduceCtorEq] at h ⊢ <;>
        (simp only [bc2Static_real, runP, epv_leaf, h0, h2]; heat_eq))

end

end EPV.C14
