/-
C14 — FINDINGS (CylindricalSandwich).

1. PDE.  `_run` multiplies each mode by `np.exp(-self.kappa * alphanm * t)`; the radial factor
   R = J_k(α r) + β Y_k(α r) needs the decay exponent κ α² (Bessel's equation gives ∇²(R sin kθ) = -α² R sin kθ).
   Given only Bessel's equation for the atom R, a term of the returned series leaves the residual
   κ (α² - α)·term in the heat equation: non-zero whenever κ ≠ 0, α ∉ {0, 1} and the term does not vanish
   (`finding_cyl_pde`).  (The recorded witness: T_t = 0.31 vs κ∇²T = 1.00 at an interior point.)
2. θ = π/2.  Declared: T(r, π/2, t) = T1.  Every angular factor sin(2(n+1)θ) vanishes there and the static part
   is T0 + 2 T1 θ/π, so the code returns T0 + T1 (`finding_cyl_theta_half`): wrong whenever T0 ≠ 0
   (the default T0 = 0 hides it).
Oracle reproductions on the real code: `o_heat.cyl_pde` (site 'CylindricalSandwich:pde'),
`o_heat.cyl_theta` ('CylindricalSandwich:bc-theta').
-/
import EPV.Lemmas.HeatCyl

set_option linter.all false

open EPV EPV.Spec.Heat EPV.Model.HeatSeries EPV.Lemmas.Heat Finset Filter Topology

namespace EPV.C14

noncomputable section

/-- **Finding 1.**  One term of the series as the code forms it (decay exponent κ α t) plus the static part does
not satisfy the heat equation at any point r > 0 where the term is non-zero, unless α ∈ {0, 1}. -/
theorem finding_cyl_pde (κ T0 T1 a b alpha Rb Ra quad : ℝ) (n m : ℕ) (R R' R'' : ℝ → ℝ)
    (hR : IsBesselRadial ((2 * (n + 1) : ℕ) : ℝ) alpha R R' R'') (r θ t : ℝ) (hr : 0 < r)
    (hκ : κ ≠ 0) (hα0 : alpha ≠ 0) (hα1 : alpha ≠ 1)
    (hterm : cylTerm κ T1 a b alpha (R r) Rb Ra quad θ t n m ≠ 0) :
    heatResPolar κ (fun r θ t => cylTerm κ T1 a b alpha (R r) Rb Ra quad θ t n m + cylStatic T0 T1 θ) r θ t ≠ 0 := by
  have hst : ∀ y : ℝ, HasDerivAt (fun θ => cylStatic T0 T1 θ) (2 * T1 / Real.pi) y := by
    intro y
    have : (fun θ => cylStatic T0 T1 θ) = fun θ : ℝ => T0 + 2 * T1 * θ / Real.pi := by
      funext θ; unfold cylStatic; heat_ops; push_cast; ring
    rw [this]
    simpa using (((hasDerivAt_id y).const_mul (2 * T1)).div_const Real.pi).const_add T0
  have hshape : (fun r θ t => cylTerm κ T1 a b alpha (R r) Rb Ra quad θ t n m + cylStatic T0 T1 θ)
      = cylgen 1 κ (fun _ => 4 * T1 / Real.pi * ((-1) ^ (n + 1) / (2 * (n + 1) : ℕ)) * (1 / cylAnm a b alpha Rb Ra m) * quad)
          (fun _ => ((2 * (n + 1) : ℕ) : ℝ)) (fun _ => alpha) (fun _ => R) (fun θ => cylStatic T0 T1 θ) := by
    funext r θ t
    unfold cylgen cylTerm
    simp only [Finset.sum_range_one]
    heat_ops
    rw [negOnePow_real]
    norm_num
  have hterm' : 4 * T1 / Real.pi * ((-1) ^ (n + 1) / (2 * (n + 1) : ℕ)) * (1 / cylAnm a b alpha Rb Ra m) * quad * R r
      * Real.sin (((2 * (n + 1) : ℕ) : ℝ) * θ) * Real.exp (-κ * alpha * t) ≠ 0 := by
    have : cylTerm κ T1 a b alpha (R r) Rb Ra quad θ t n m
        = 4 * T1 / Real.pi * ((-1) ^ (n + 1) / (2 * (n + 1) : ℕ)) * (1 / cylAnm a b alpha Rb Ra m) * quad * R r
          * Real.sin (((2 * (n + 1) : ℕ) : ℝ) * θ) * Real.exp (-κ * alpha * t) := by
      unfold cylTerm
      heat_ops
      rw [negOnePow_real]
      norm_num
    rw [← this]; exact hterm
  rw [hshape, cylgen_residual 1 κ _ _ (fun _ => alpha) _ _ (fun _ => R') (fun _ => R'') (fun _ => hR) _ _ hst r θ t hr]
  simp only [Finset.sum_range_one]
  have h1 : alpha ^ 2 - alpha ≠ 0 := by
    have : alpha ^ 2 - alpha = alpha * (alpha - 1) := by ring
    rw [this]; exact mul_ne_zero hα0 (sub_ne_zero.mpr hα1)
  exact mul_ne_zero (mul_ne_zero hκ h1) hterm'

/-- the first eigenvalue of the default annulus (α ≈ 3.4990, pinned by test_heat.py) is neither 0 nor 1 -/
example : (3.4989852 : ℝ) ≠ 0 ∧ (3.4989852 : ℝ) ≠ 1 ∧ (1 : ℝ) ≠ 0 := by norm_num

/-- **Finding 2.**  At θ = π/2 the code returns T0 + T1, not the declared T1. -/
theorem finding_cyl_theta_half (κ T0 T1 a b alpha Rr Rb Ra quad t : ℝ) (n m : ℕ) :
    cylTerm κ T1 a b alpha Rr Rb Ra quad (Real.pi / 2) t n m + cylStatic T0 T1 (Real.pi / 2) = T0 + T1 := by
  unfold cylTerm cylStatic
  heat_ops
  have : ((2 * (n + 1) : ℕ) : ℝ) * (Real.pi / 2) = ((n + 1 : ℕ) : ℝ) * Real.pi := by push_cast; ring
  rw [this, Real.sin_nat_mul_pi]
  have hπ := Real.pi_ne_zero
  push_cast
  field_simp
  ring

/-- so the declared condition `T(r, π/2, t) = T1` fails whenever T0 ≠ 0 -/
theorem finding_cyl_theta_half_ne (κ T0 T1 a b alpha Rr Rb Ra quad t : ℝ) (n m : ℕ) (h0 : T0 ≠ 0) :
    cylTerm κ T1 a b alpha Rr Rb Ra quad (Real.pi / 2) t n m + cylStatic T0 T1 (Real.pi / 2) ≠ T1 := by
  rw [finding_cyl_theta_half]
  intro h
  exact h0 (by linarith)

end

end EPV.C14
