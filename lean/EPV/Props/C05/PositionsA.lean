/-
C05 — "the first field(s) are the positions that were passed (unchanged)", on the models regenerated from
the source: for every generated solver-level model and every path of its traced decision tree on which
the solver returns numbers, the leading field(s) equal the symbolic point handed to `_run`.
Part A (models BBNohCS … CylindricalCog12).
-/
import EPV.Gen.BBNohCS
import EPV.Gen.BBNohIdeal
import EPV.Gen.BBNohNobleAbel
import EPV.Gen.BBNohStiff
import EPV.Gen.BlakeFields
import EPV.Gen.BlakeLG
import EPV.Gen.Cog1
import EPV.Gen.Cog10
import EPV.Gen.Cog11
import EPV.Gen.Cog12
import EPV.Gen.Cog13
import EPV.Gen.Cog14
import EPV.Gen.Cog16
import EPV.Gen.Cog17
import EPV.Gen.Cog18
import EPV.Gen.Cog19
import EPV.Gen.Cog2
import EPV.Gen.Cog20
import EPV.Gen.Cog21
import EPV.Gen.Cog3
import EPV.Gen.Cog4
import EPV.Gen.Cog5
import EPV.Gen.Cog6
import EPV.Gen.Cog7
import EPV.Gen.Cog8
import EPV.Gen.Cog9
import EPV.Gen.CylindricalCog1
import EPV.Gen.CylindricalCog10
import EPV.Gen.CylindricalCog11
import EPV.Gen.CylindricalCog12
import EPV.Tactics

set_option linter.all false
set_option maxHeartbeats 1000000

open EPV EPV.Gen

namespace EPV.C05

theorem positions_BBNohCS (p : BBNohCS.P) (r t : ℝ) (h : BBNohCS.outcome p r t = .ok) :
    BBNohCS.position p r t = r := by
  simp only [epv_tree] at h ⊢
  epv_cases h
  all_goals first | (exact absurd h (by decide)) | (simp only [epv_leaf] <;> trivial) | trivial

theorem positions_BBNohIdeal (p : BBNohIdeal.P) (r t : ℝ) (h : BBNohIdeal.outcome p r t = .ok) :
    BBNohIdeal.position p r t = r := by
  simp only [epv_tree] at h ⊢
  epv_cases h
  all_goals first | (exact absurd h (by decide)) | (simp only [epv_leaf] <;> trivial) | trivial

theorem positions_BBNohNobleAbel (p : BBNohNobleAbel.P) (r t : ℝ) (h : BBNohNobleAbel.outcome p r t = .ok) :
    BBNohNobleAbel.position p r t = r := by
  simp only [epv_tree] at h ⊢
  epv_cases h
  all_goals first | (exact absurd h (by decide)) | (simp only [epv_leaf] <;> trivial) | trivial

theorem positions_BBNohStiff (p : BBNohStiff.P) (r t : ℝ) (h : BBNohStiff.outcome p r t = .ok) :
    BBNohStiff.position p r t = r := by
  simp only [epv_tree] at h ⊢
  epv_cases h
  all_goals first | (exact absurd h (by decide)) | (simp only [epv_leaf] <;> trivial) | trivial

theorem positions_BlakeFields (p : BlakeFields.P) (r t : ℝ) (h : BlakeFields.outcome p r t = .ok) :
    BlakeFields.position p r t = r := by
  simp only [epv_tree] at h ⊢
  epv_cases h
  all_goals first | (exact absurd h (by decide)) | (simp only [epv_leaf] <;> trivial) | trivial

theorem positions_BlakeLG (p : BlakeLG.P) (r t : ℝ) (h : BlakeLG.outcome p r t = .ok) :
    BlakeLG.position p r t = r := by
  simp only [epv_tree] at h ⊢
  epv_cases h
  all_goals first | (exact absurd h (by decide)) | (simp only [epv_leaf] <;> trivial) | trivial

theorem positions_Cog1 (p : Cog1.P) (r t : ℝ) (h : Cog1.outcome p r t = .ok) :
    Cog1.position p r t = r := by
  simp only [epv_tree] at h ⊢
  epv_cases h
  all_goals first | (exact absurd h (by decide)) | (simp only [epv_leaf] <;> trivial) | trivial

theorem positions_Cog10 (p : Cog10.P) (r t : ℝ) (h : Cog10.outcome p r t = .ok) :
    Cog10.position p r t = r := by
  simp only [epv_tree] at h ⊢
  epv_cases h
  all_goals first | (exact absurd h (by decide)) | (simp only [epv_leaf] <;> trivial) | trivial

theorem positions_Cog11 (p : Cog11.P) (r t : ℝ) (h : Cog11.outcome p r t = .ok) :
    Cog11.position p r t = r := by
  simp only [epv_tree] at h ⊢
  epv_cases h
  all_goals first | (exact absurd h (by decide)) | (simp only [epv_leaf] <;> trivial) | trivial

theorem positions_Cog12 (p : Cog12.P) (r t : ℝ) (h : Cog12.outcome p r t = .ok) :
    Cog12.position p r t = r := by
  simp only [epv_tree] at h ⊢
  epv_cases h
  all_goals first | (exact absurd h (by decide)) | (simp only [epv_leaf] <;> trivial) | trivial

theorem positions_Cog13 (p : Cog13.P) (r t : ℝ) (h : Cog13.outcome p r t = .ok) :
    Cog13.position p r t = r := by
  simp only [epv_tree] at h ⊢
  epv_cases h
  all_goals first | (exact absurd h (by decide)) | (simp only [epv_leaf] <;> trivial) | trivial

theorem positions_Cog14 (p : Cog14.P) (r t : ℝ) (h : Cog14.outcome p r t = .ok) :
    Cog14.position p r t = r := by
  simp only [epv_tree] at h ⊢
  epv_cases h
  all_goals first | (exact absurd h (by decide)) | (simp only [epv_leaf] <;> trivial) | trivial

theorem positions_Cog16 (p : Cog16.P) (r t : ℝ) (h : Cog16.outcome p r t = .ok) :
    Cog16.position p r t = r := by
  simp only [epv_tree] at h ⊢
  epv_cases h
  all_goals first | (exact absurd h (by decide)) | (simp only [epv_leaf] <;> trivial) | trivial

theorem positions_Cog17 (p : Cog17.P) (r t : ℝ) (h : Cog17.outcome p r t = .ok) :
    Cog17.position p r t = r := by
  simp only [epv_tree] at h ⊢
  epv_cases h
  all_goals first | (exact absurd h (by decide)) | (simp only [epv_leaf] <;> trivial) | trivial

theorem positions_Cog18 (p : Cog18.P) (r t : ℝ) (h : Cog18.outcome p r t = .ok) :
    Cog18.position p r t = r := by
  simp only [epv_tree] at h ⊢
  epv_cases h
  all_goals first | (exact absurd h (by decide)) | (simp only [epv_leaf] <;> trivial) | trivial

theorem positions_Cog19 (p : Cog19.P) (r t : ℝ) (h : Cog19.outcome p r t = .ok) :
    Cog19.position p r t = r := by
  simp only [epv_tree] at h ⊢
  epv_cases h
  all_goals first | (exact absurd h (by decide)) | (simp only [epv_leaf] <;> trivial) | trivial

theorem positions_Cog2 (p : Cog2.P) (r t : ℝ) (h : Cog2.outcome p r t = .ok) :
    Cog2.position p r t = r := by
  simp only [epv_tree] at h ⊢
  epv_cases h
  all_goals first | (exact absurd h (by decide)) | (simp only [epv_leaf] <;> trivial) | trivial

theorem positions_Cog20 (p : Cog20.P) (r t : ℝ) (h : Cog20.outcome p r t = .ok) :
    Cog20.position p r t = r := by
  simp only [epv_tree] at h ⊢
  epv_cases h
  all_goals first | (exact absurd h (by decide)) | (simp only [epv_leaf] <;> trivial) | trivial

theorem positions_Cog21 (p : Cog21.P) (r t : ℝ) (h : Cog21.outcome p r t = .ok) :
    Cog21.position p r t = r := by
  simp only [epv_tree] at h ⊢
  epv_cases h
  all_goals first | (exact absurd h (by decide)) | (simp only [epv_leaf] <;> trivial) | trivial

theorem positions_Cog3 (p : Cog3.P) (r t : ℝ) (h : Cog3.outcome p r t = .ok) :
    Cog3.position p r t = r := by
  simp only [epv_tree] at h ⊢
  epv_cases h
  all_goals first | (exact absurd h (by decide)) | (simp only [epv_leaf] <;> trivial) | trivial

theorem positions_Cog4 (p : Cog4.P) (r t : ℝ) (h : Cog4.outcome p r t = .ok) :
    Cog4.position p r t = r := by
  simp only [epv_tree] at h ⊢
  epv_cases h
  all_goals first | (exact absurd h (by decide)) | (simp only [epv_leaf] <;> trivial) | trivial

theorem positions_Cog5 (p : Cog5.P) (r t : ℝ) (h : Cog5.outcome p r t = .ok) :
    Cog5.position p r t = r := by
  simp only [epv_tree] at h ⊢
  epv_cases h
  all_goals first | (exact absurd h (by decide)) | (simp only [epv_leaf] <;> trivial) | trivial

theorem positions_Cog6 (p : Cog6.P) (r t : ℝ) (h : Cog6.outcome p r t = .ok) :
    Cog6.position p r t = r := by
  simp only [epv_tree] at h ⊢
  epv_cases h
  all_goals first | (exact absurd h (by decide)) | (simp only [epv_leaf] <;> trivial) | trivial

theorem positions_Cog7 (p : Cog7.P) (r t : ℝ) (h : Cog7.outcome p r t = .ok) :
    Cog7.position p r t = r := by
  simp only [epv_tree] at h ⊢
  epv_cases h
  all_goals first | (exact absurd h (by decide)) | (simp only [epv_leaf] <;> trivial) | trivial

theorem positions_Cog8 (p : Cog8.P) (r t : ℝ) (h : Cog8.outcome p r t = .ok) :
    Cog8.position p r t = r := by
  simp only [epv_tree] at h ⊢
  epv_cases h
  all_goals first | (exact absurd h (by decide)) | (simp only [epv_leaf] <;> trivial) | trivial

theorem positions_Cog9 (p : Cog9.P) (r t : ℝ) (h : Cog9.outcome p r t = .ok) :
    Cog9.position p r t = r := by
  simp only [epv_tree] at h ⊢
  epv_cases h
  all_goals first | (exact absurd h (by decide)) | (simp only [epv_leaf] <;> trivial) | trivial

theorem positions_CylindricalCog1 (p : CylindricalCog1.P) (r t : ℝ) (h : CylindricalCog1.outcome p r t = .ok) :
    CylindricalCog1.position p r t = r := by
  simp only [epv_tree] at h ⊢
  epv_cases h
  all_goals first | (exact absurd h (by decide)) | (simp only [epv_leaf] <;> trivial) | trivial

theorem positions_CylindricalCog10 (p : CylindricalCog10.P) (r t : ℝ) (h : CylindricalCog10.outcome p r t = .ok) :
    CylindricalCog10.position p r t = r := by
  simp only [epv_tree] at h ⊢
  epv_cases h
  all_goals first | (exact absurd h (by decide)) | (simp only [epv_leaf] <;> trivial) | trivial

theorem positions_CylindricalCog11 (p : CylindricalCog11.P) (r t : ℝ) (h : CylindricalCog11.outcome p r t = .ok) :
    CylindricalCog11.position p r t = r := by
  simp only [epv_tree] at h ⊢
  epv_cases h
  all_goals first | (exact absurd h (by decide)) | (simp only [epv_leaf] <;> trivial) | trivial

theorem positions_CylindricalCog12 (p : CylindricalCog12.P) (r t : ℝ) (h : CylindricalCog12.outcome p r t = .ok) :
    CylindricalCog12.position p r t = r := by
  simp only [epv_tree] at h ⊢
  epv_cases h
  all_goals first | (exact absurd h (by decide)) | (simp only [epv_leaf] <;> trivial) | trivial

end EPV.C05
