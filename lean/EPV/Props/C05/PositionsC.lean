/-
C05 — "the first field(s) are the positions that were passed (unchanged)", on the models regenerated from
the source: for every generated solver-level model and every path of its traced decision tree on which
the solver returns numbers, the leading field(s) equal the symbolic point handed to `_run`.
Part C (models Noh … RectangleN2).
-/
import EPV.Gen.Noh
import EPV.Gen.Noh2
import EPV.Gen.Noh2Cog
import EPV.Gen.PlanarCog1
import EPV.Gen.PlanarCog11
import EPV.Gen.PlanarCog12
import EPV.Gen.PlanarCog13
import EPV.Gen.PlanarCog14
import EPV.Gen.PlanarCog17
import EPV.Gen.PlanarCog18
import EPV.Gen.PlanarCog19
import EPV.Gen.PlanarCog2
import EPV.Gen.PlanarCog20
import EPV.Gen.PlanarCog3
import EPV.Gen.PlanarCog4
import EPV.Gen.PlanarCog6
import EPV.Gen.PlanarCog7
import EPV.Gen.PlanarCog8
import EPV.Gen.PlanarCog9
import EPV.Gen.PlanarNoh
import EPV.Gen.PlanarNoh2
import EPV.Gen.R2dRCR
import EPV.Gen.R2dRCS
import EPV.Gen.R2dSCR
import EPV.Gen.R2dSCS
import EPV.Gen.RadWrapED
import EPV.Gen.RadWrapIE
import EPV.Gen.RadWrapNED
import EPV.Gen.RadWrapSn
import EPV.Gen.RectangleN2
import EPV.Tactics

set_option linter.all false
set_option maxHeartbeats 1000000

open EPV EPV.Gen

namespace EPV.C05

theorem positions_Noh (p : Noh.P) (r t : ℝ) (h : Noh.outcome p r t = .ok) :
    Noh.position p r t = r := by
  simp only [epv_tree] at h ⊢
  epv_cases h
  all_goals first | (exact absurd h (by decide)) | (simp only [epv_leaf] <;> trivial) | trivial

theorem positions_Noh2 (p : Noh2.P) (r t : ℝ) (h : Noh2.outcome p r t = .ok) :
    Noh2.position p r t = r := by
  simp only [epv_tree] at h ⊢
  epv_cases h
  all_goals first | (exact absurd h (by decide)) | (simp only [epv_leaf] <;> trivial) | trivial

theorem positions_Noh2Cog (p : Noh2Cog.P) (r t : ℝ) (h : Noh2Cog.outcome p r t = .ok) :
    Noh2Cog.position p r t = r := by
  simp only [epv_tree] at h ⊢
  epv_cases h
  all_goals first | (exact absurd h (by decide)) | (simp only [epv_leaf] <;> trivial) | trivial

theorem positions_PlanarCog1 (p : PlanarCog1.P) (r t : ℝ) (h : PlanarCog1.outcome p r t = .ok) :
    PlanarCog1.position p r t = r := by
  simp only [epv_tree] at h ⊢
  epv_cases h
  all_goals first | (exact absurd h (by decide)) | (simp only [epv_leaf] <;> trivial) | trivial

theorem positions_PlanarCog11 (p : PlanarCog11.P) (r t : ℝ) (h : PlanarCog11.outcome p r t = .ok) :
    PlanarCog11.position p r t = r := by
  simp only [epv_tree] at h ⊢
  epv_cases h
  all_goals first | (exact absurd h (by decide)) | (simp only [epv_leaf] <;> trivial) | trivial

theorem positions_PlanarCog12 (p : PlanarCog12.P) (r t : ℝ) (h : PlanarCog12.outcome p r t = .ok) :
    PlanarCog12.position p r t = r := by
  simp only [epv_tree] at h ⊢
  epv_cases h
  all_goals first | (exact absurd h (by decide)) | (simp only [epv_leaf] <;> trivial) | trivial

theorem positions_PlanarCog13 (p : PlanarCog13.P) (r t : ℝ) (h : PlanarCog13.outcome p r t = .ok) :
    PlanarCog13.position p r t = r := by
  simp only [epv_tree] at h ⊢
  epv_cases h
  all_goals first | (exact absurd h (by decide)) | (simp only [epv_leaf] <;> trivial) | trivial

theorem positions_PlanarCog14 (p : PlanarCog14.P) (r t : ℝ) (h : PlanarCog14.outcome p r t = .ok) :
    PlanarCog14.position p r t = r := by
  simp only [epv_tree] at h ⊢
  epv_cases h
  all_goals first | (exact absurd h (by decide)) | (simp only [epv_leaf] <;> trivial) | trivial

theorem positions_PlanarCog17 (p : PlanarCog17.P) (r t : ℝ) (h : PlanarCog17.outcome p r t = .ok) :
    PlanarCog17.position p r t = r := by
  simp only [epv_tree] at h ⊢
  epv_cases h
  all_goals first | (exact absurd h (by decide)) | (simp only [epv_leaf] <;> trivial) | trivial

theorem positions_PlanarCog18 (p : PlanarCog18.P) (r t : ℝ) (h : PlanarCog18.outcome p r t = .ok) :
    PlanarCog18.position p r t = r := by
  simp only [epv_tree] at h ⊢
  epv_cases h
  all_goals first | (exact absurd h (by decide)) | (simp only [epv_leaf] <;> trivial) | trivial

theorem positions_PlanarCog19 (p : PlanarCog19.P) (r t : ℝ) (h : PlanarCog19.outcome p r t = .ok) :
    PlanarCog19.position p r t = r := by
  simp only [epv_tree] at h ⊢
  epv_cases h
  all_goals first | (exact absurd h (by decide)) | (simp only [epv_leaf] <;> trivial) | trivial

theorem positions_PlanarCog2 (p : PlanarCog2.P) (r t : ℝ) (h : PlanarCog2.outcome p r t = .ok) :
    PlanarCog2.position p r t = r := by
  simp only [epv_tree] at h ⊢
  epv_cases h
  all_goals first | (exact absurd h (by decide)) | (simp only [epv_leaf] <;> trivial) | trivial

theorem positions_PlanarCog20 (p : PlanarCog20.P) (r t : ℝ) (h : PlanarCog20.outcome p r t = .ok) :
    PlanarCog20.position p r t = r := by
  simp only [epv_tree] at h ⊢
  epv_cases h
  all_goals first | (exact absurd h (by decide)) | (simp only [epv_leaf] <;> trivial) | trivial

theorem positions_PlanarCog3 (p : PlanarCog3.P) (r t : ℝ) (h : PlanarCog3.outcome p r t = .ok) :
    PlanarCog3.position p r t = r := by
  simp only [epv_tree] at h ⊢
  epv_cases h
  all_goals first | (exact absurd h (by decide)) | (simp only [epv_leaf] <;> trivial) | trivial

theorem positions_PlanarCog4 (p : PlanarCog4.P) (r t : ℝ) (h : PlanarCog4.outcome p r t = .ok) :
    PlanarCog4.position p r t = r := by
  simp only [epv_tree] at h ⊢
  epv_cases h
  all_goals first | (exact absurd h (by decide)) | (simp only [epv_leaf] <;> trivial) | trivial

theorem positions_PlanarCog6 (p : PlanarCog6.P) (r t : ℝ) (h : PlanarCog6.outcome p r t = .ok) :
    PlanarCog6.position p r t = r := by
  simp only [epv_tree] at h ⊢
  epv_cases h
  all_goals first | (exact absurd h (by decide)) | (simp only [epv_leaf] <;> trivial) | trivial

theorem positions_PlanarCog7 (p : PlanarCog7.P) (r t : ℝ) (h : PlanarCog7.outcome p r t = .ok) :
    PlanarCog7.position p r t = r := by
  simp only [epv_tree] at h ⊢
  epv_cases h
  all_goals first | (exact absurd h (by decide)) | (simp only [epv_leaf] <;> trivial) | trivial

theorem positions_PlanarCog8 (p : PlanarCog8.P) (r t : ℝ) (h : PlanarCog8.outcome p r t = .ok) :
    PlanarCog8.position p r t = r := by
  simp only [epv_tree] at h ⊢
  epv_cases h
  all_goals first | (exact absurd h (by decide)) | (simp only [epv_leaf] <;> trivial) | trivial

theorem positions_PlanarCog9 (p : PlanarCog9.P) (r t : ℝ) (h : PlanarCog9.outcome p r t = .ok) :
    PlanarCog9.position p r t = r := by
  simp only [epv_tree] at h ⊢
  epv_cases h
  all_goals first | (exact absurd h (by decide)) | (simp only [epv_leaf] <;> trivial) | trivial

theorem positions_PlanarNoh (p : PlanarNoh.P) (r t : ℝ) (h : PlanarNoh.outcome p r t = .ok) :
    PlanarNoh.position p r t = r := by
  simp only [epv_tree] at h ⊢
  epv_cases h
  all_goals first | (exact absurd h (by decide)) | (simp only [epv_leaf] <;> trivial) | trivial

theorem positions_PlanarNoh2 (p : PlanarNoh2.P) (r t : ℝ) (h : PlanarNoh2.outcome p r t = .ok) :
    PlanarNoh2.position p r t = r := by
  simp only [epv_tree] at h ⊢
  epv_cases h
  all_goals first | (exact absurd h (by decide)) | (simp only [epv_leaf] <;> trivial) | trivial

theorem positions_R2dRCR (p : R2dRCR.P) (x y : ℝ) (h : R2dRCR.outcome p x y = .ok) :
    R2dRCR.x_position p x y = x ∧ R2dRCR.y_position p x y = y := by
  simp only [epv_tree] at h ⊢
  epv_cases h
  all_goals first | (exact absurd h (by decide)) | (simp only [epv_leaf] <;> trivial) | trivial

theorem positions_R2dRCS (p : R2dRCS.P) (x y : ℝ) (h : R2dRCS.outcome p x y = .ok) :
    R2dRCS.x_position p x y = x ∧ R2dRCS.y_position p x y = y := by
  simp only [epv_tree] at h ⊢
  epv_cases h
  all_goals first | (exact absurd h (by decide)) | (simp only [epv_leaf] <;> trivial) | trivial

theorem positions_R2dSCR (p : R2dSCR.P) (x y : ℝ) (h : R2dSCR.outcome p x y = .ok) :
    R2dSCR.x_position p x y = x ∧ R2dSCR.y_position p x y = y := by
  simp only [epv_tree] at h ⊢
  epv_cases h
  all_goals first | (exact absurd h (by decide)) | (simp only [epv_leaf] <;> trivial) | trivial

theorem positions_R2dSCS (p : R2dSCS.P) (x y : ℝ) (h : R2dSCS.outcome p x y = .ok) :
    R2dSCS.x_position p x y = x ∧ R2dSCS.y_position p x y = y := by
  simp only [epv_tree] at h ⊢
  epv_cases h
  all_goals first | (exact absurd h (by decide)) | (simp only [epv_leaf] <;> trivial) | trivial

theorem positions_RadWrapED (p : RadWrapED.P) (x t : ℝ) (h : RadWrapED.outcome p x t = .ok) :
    RadWrapED.position p x t = x := by
  simp only [epv_tree] at h ⊢
  epv_cases h
  all_goals first | (exact absurd h (by decide)) | (simp only [epv_leaf] <;> trivial) | trivial

theorem positions_RadWrapIE (p : RadWrapIE.P) (x t : ℝ) (h : RadWrapIE.outcome p x t = .ok) :
    RadWrapIE.position p x t = x := by
  simp only [epv_tree] at h ⊢
  epv_cases h
  all_goals first | (exact absurd h (by decide)) | (simp only [epv_leaf] <;> trivial) | trivial

theorem positions_RadWrapNED (p : RadWrapNED.P) (x t : ℝ) (h : RadWrapNED.outcome p x t = .ok) :
    RadWrapNED.position p x t = x := by
  simp only [epv_tree] at h ⊢
  epv_cases h
  all_goals first | (exact absurd h (by decide)) | (simp only [epv_leaf] <;> trivial) | trivial

theorem positions_RadWrapSn (p : RadWrapSn.P) (x t : ℝ) (h : RadWrapSn.outcome p x t = .ok) :
    RadWrapSn.position p x t = x := by
  simp only [epv_tree] at h ⊢
  epv_cases h
  all_goals first | (exact absurd h (by decide)) | (simp only [epv_leaf] <;> trivial) | trivial

theorem positions_RectangleN2 (p : RectangleN2.P) (x y t : ℝ) (h : RectangleN2.outcome p x y t = .ok) :
    RectangleN2.position_x p x y t = x ∧ RectangleN2.position_y p x y t = y := by
  simp only [epv_tree] at h ⊢
  epv_cases h
  all_goals first | (exact absurd h (by decide)) | (simp only [epv_leaf] <;> trivial) | trivial

end EPV.C05
