/-
C05 — "the first field(s) are the positions that were passed (unchanged)", on the models regenerated from
the source: for every generated solver-level model and every path of its traced decision tree on which
the solver returns numbers, the leading field(s) equal the symbolic point handed to `_run`.
Part B (models CylindricalCog13 … Kidder76).
-/
import EPV.Gen.CylindricalCog13
import EPV.Gen.CylindricalCog14
import EPV.Gen.CylindricalCog16
import EPV.Gen.CylindricalCog17
import EPV.Gen.CylindricalCog18
import EPV.Gen.CylindricalCog19
import EPV.Gen.CylindricalCog2
import EPV.Gen.CylindricalCog20
import EPV.Gen.CylindricalCog3
import EPV.Gen.CylindricalCog4
import EPV.Gen.CylindricalCog6
import EPV.Gen.CylindricalCog7
import EPV.Gen.CylindricalCog8
import EPV.Gen.CylindricalCog9
import EPV.Gen.CylindricalNoh
import EPV.Gen.CylindricalNoh2
import EPV.Gen.DSDCyl
import EPV.Gen.EHEP
import EPV.Gen.EPPistonRun
import EPV.Gen.GudRun
import EPV.Gen.Hutchens1N3
import EPV.Gen.Hutchens2N2
import EPV.Gen.K1d2
import EPV.Gen.K1d3
import EPV.Gen.K2d2
import EPV.Gen.K2d3
import EPV.Gen.K3d2
import EPV.Gen.K3d3
import EPV.Gen.Kidder74
import EPV.Gen.Kidder76
import EPV.Tactics

set_option linter.all false
set_option maxHeartbeats 1000000

open EPV EPV.Gen

namespace EPV.C05

theorem positions_CylindricalCog13 (p : CylindricalCog13.P) (r t : ℝ) (h : CylindricalCog13.outcome p r t = .ok) :
    CylindricalCog13.position p r t = r := by
  simp only [epv_tree] at h ⊢
  epv_cases h
  all_goals first | (exact absurd h (by decide)) | (simp only [epv_leaf] <;> trivial) | trivial

theorem positions_CylindricalCog14 (p : CylindricalCog14.P) (r t : ℝ) (h : CylindricalCog14.outcome p r t = .ok) :
    CylindricalCog14.position p r t = r := by
  simp only [epv_tree] at h ⊢
  epv_cases h
  all_goals first | (exact absurd h (by decide)) | (simp only [epv_leaf] <;> trivial) | trivial

theorem positions_CylindricalCog16 (p : CylindricalCog16.P) (r t : ℝ) (h : CylindricalCog16.outcome p r t = .ok) :
    CylindricalCog16.position p r t = r := by
  simp only [epv_tree] at h ⊢
  epv_cases h
  all_goals first | (exact absurd h (by decide)) | (simp only [epv_leaf] <;> trivial) | trivial

theorem positions_CylindricalCog17 (p : CylindricalCog17.P) (r t : ℝ) (h : CylindricalCog17.outcome p r t = .ok) :
    CylindricalCog17.position p r t = r := by
  simp only [epv_tree] at h ⊢
  epv_cases h
  all_goals first | (exact absurd h (by decide)) | (simp only [epv_leaf] <;> trivial) | trivial

theorem positions_CylindricalCog18 (p : CylindricalCog18.P) (r t : ℝ) (h : CylindricalCog18.outcome p r t = .ok) :
    CylindricalCog18.position p r t = r := by
  simp only [epv_tree] at h ⊢
  epv_cases h
  all_goals first | (exact absurd h (by decide)) | (simp only [epv_leaf] <;> trivial) | trivial

theorem positions_CylindricalCog19 (p : CylindricalCog19.P) (r t : ℝ) (h : CylindricalCog19.outcome p r t = .ok) :
    CylindricalCog19.position p r t = r := by
  simp only [epv_tree] at h ⊢
  epv_cases h
  all_goals first | (exact absurd h (by decide)) | (simp only [epv_leaf] <;> trivial) | trivial

theorem positions_CylindricalCog2 (p : CylindricalCog2.P) (r t : ℝ) (h : CylindricalCog2.outcome p r t = .ok) :
    CylindricalCog2.position p r t = r := by
  simp only [epv_tree] at h ⊢
  epv_cases h
  all_goals first | (exact absurd h (by decide)) | (simp only [epv_leaf] <;> trivial) | trivial

theorem positions_CylindricalCog20 (p : CylindricalCog20.P) (r t : ℝ) (h : CylindricalCog20.outcome p r t = .ok) :
    CylindricalCog20.position p r t = r := by
  simp only [epv_tree] at h ⊢
  epv_cases h
  all_goals first | (exact absurd h (by decide)) | (simp only [epv_leaf] <;> trivial) | trivial

theorem positions_CylindricalCog3 (p : CylindricalCog3.P) (r t : ℝ) (h : CylindricalCog3.outcome p r t = .ok) :
    CylindricalCog3.position p r t = r := by
  simp only [epv_tree] at h ⊢
  epv_cases h
  all_goals first | (exact absurd h (by decide)) | (simp only [epv_leaf] <;> trivial) | trivial

theorem positions_CylindricalCog4 (p : CylindricalCog4.P) (r t : ℝ) (h : CylindricalCog4.outcome p r t = .ok) :
    CylindricalCog4.position p r t = r := by
  simp only [epv_tree] at h ⊢
  epv_cases h
  all_goals first | (exact absurd h (by decide)) | (simp only [epv_leaf] <;> trivial) | trivial

theorem positions_CylindricalCog6 (p : CylindricalCog6.P) (r t : ℝ) (h : CylindricalCog6.outcome p r t = .ok) :
    CylindricalCog6.position p r t = r := by
  simp only [epv_tree] at h ⊢
  epv_cases h
  all_goals first | (exact absurd h (by decide)) | (simp only [epv_leaf] <;> trivial) | trivial

theorem positions_CylindricalCog7 (p : CylindricalCog7.P) (r t : ℝ) (h : CylindricalCog7.outcome p r t = .ok) :
    CylindricalCog7.position p r t = r := by
  simp only [epv_tree] at h ⊢
  epv_cases h
  all_goals first | (exact absurd h (by decide)) | (simp only [epv_leaf] <;> trivial) | trivial

theorem positions_CylindricalCog8 (p : CylindricalCog8.P) (r t : ℝ) (h : CylindricalCog8.outcome p r t = .ok) :
    CylindricalCog8.position p r t = r := by
  simp only [epv_tree] at h ⊢
  epv_cases h
  all_goals first | (exact absurd h (by decide)) | (simp only [epv_leaf] <;> trivial) | trivial

theorem positions_CylindricalCog9 (p : CylindricalCog9.P) (r t : ℝ) (h : CylindricalCog9.outcome p r t = .ok) :
    CylindricalCog9.position p r t = r := by
  simp only [epv_tree] at h ⊢
  epv_cases h
  all_goals first | (exact absurd h (by decide)) | (simp only [epv_leaf] <;> trivial) | trivial

theorem positions_CylindricalNoh (p : CylindricalNoh.P) (r t : ℝ) (h : CylindricalNoh.outcome p r t = .ok) :
    CylindricalNoh.position p r t = r := by
  simp only [epv_tree] at h ⊢
  epv_cases h
  all_goals first | (exact absurd h (by decide)) | (simp only [epv_leaf] <;> trivial) | trivial

theorem positions_CylindricalNoh2 (p : CylindricalNoh2.P) (r t : ℝ) (h : CylindricalNoh2.outcome p r t = .ok) :
    CylindricalNoh2.position p r t = r := by
  simp only [epv_tree] at h ⊢
  epv_cases h
  all_goals first | (exact absurd h (by decide)) | (simp only [epv_leaf] <;> trivial) | trivial

theorem positions_DSDCyl (p : DSDCyl.P) (x y : ℝ) (h : DSDCyl.outcome p x y = .ok) :
    DSDCyl.position_x p x y = x ∧ DSDCyl.position_y p x y = y := by
  simp only [epv_tree] at h ⊢
  epv_cases h
  all_goals first | (exact absurd h (by decide)) | (simp only [epv_leaf] <;> trivial) | trivial

theorem positions_EHEP (p : EHEP.P) (x t : ℝ) (h : EHEP.outcome p x t = .ok) :
    EHEP.position p x t = x := by
  simp only [epv_tree] at h ⊢
  epv_cases h
  all_goals first | (exact absurd h (by decide)) | (simp only [epv_leaf] <;> trivial) | trivial

theorem positions_EPPistonRun (p : EPPistonRun.P) (x t : ℝ) (h : EPPistonRun.outcome p x t = .ok) :
    EPPistonRun.position p x t = x := by
  simp only [epv_tree] at h ⊢
  epv_cases h
  all_goals first | (exact absurd h (by decide)) | (simp only [epv_leaf] <;> trivial) | trivial

theorem positions_GudRun (p : GudRun.P) (r t : ℝ) (h : GudRun.outcome p r t = .ok) :
    GudRun.position p r t = r := by
  simp only [epv_tree] at h ⊢
  epv_cases h
  all_goals first | (exact absurd h (by decide)) | (simp only [epv_leaf] <;> trivial) | trivial

theorem positions_Hutchens1N3 (p : Hutchens1N3.P) (r t : ℝ) (h : Hutchens1N3.outcome p r t = .ok) :
    Hutchens1N3.radius p r t = r := by
  simp only [epv_tree] at h ⊢
  epv_cases h
  all_goals first | (exact absurd h (by decide)) | (simp only [epv_leaf] <;> trivial) | trivial

theorem positions_Hutchens2N2 (p : Hutchens2N2.P) (r z : ℝ) (h : Hutchens2N2.outcome p r z = .ok) :
    Hutchens2N2.position_r p r z = r ∧ Hutchens2N2.position_z p r z = z := by
  simp only [epv_tree] at h ⊢
  epv_cases h
  all_goals first | (exact absurd h (by decide)) | (simp only [epv_leaf] <;> trivial) | trivial

theorem positions_K1d2 (p : K1d2.P) (x y : ℝ) (h : K1d2.outcome p x y = .ok) :
    K1d2.position_x p x y = x ∧ K1d2.position_y p x y = y := by
  simp only [epv_tree] at h ⊢
  epv_cases h
  all_goals first | (exact absurd h (by decide)) | (simp only [epv_leaf] <;> trivial) | trivial

theorem positions_K1d3 (p : K1d3.P) (x y z : ℝ) (h : K1d3.outcome p x y z = .ok) :
    K1d3.position_x p x y z = x ∧ K1d3.position_y p x y z = y ∧ K1d3.position_z p x y z = z := by
  simp only [epv_tree] at h ⊢
  epv_cases h
  all_goals first | (exact absurd h (by decide)) | (simp only [epv_leaf] <;> trivial) | trivial

theorem positions_K2d2 (p : K2d2.P) (x y : ℝ) (h : K2d2.outcome p x y = .ok) :
    K2d2.position_x p x y = x ∧ K2d2.position_y p x y = y := by
  simp only [epv_tree] at h ⊢
  epv_cases h
  all_goals first | (exact absurd h (by decide)) | (simp only [epv_leaf] <;> trivial) | trivial

theorem positions_K2d3 (p : K2d3.P) (x y z : ℝ) (h : K2d3.outcome p x y z = .ok) :
    K2d3.position_x p x y z = x ∧ K2d3.position_y p x y z = y ∧ K2d3.position_z p x y z = z := by
  simp only [epv_tree] at h ⊢
  epv_cases h
  all_goals first | (exact absurd h (by decide)) | (simp only [epv_leaf] <;> trivial) | trivial

theorem positions_K3d2 (p : K3d2.P) (x y : ℝ) (h : K3d2.outcome p x y = .ok) :
    K3d2.position_x p x y = x ∧ K3d2.position_y p x y = y := by
  simp only [epv_tree] at h ⊢
  epv_cases h
  all_goals first | (exact absurd h (by decide)) | (simp only [epv_leaf] <;> trivial) | trivial

theorem positions_K3d3 (p : K3d3.P) (x y z : ℝ) (h : K3d3.outcome p x y z = .ok) :
    K3d3.position_x p x y z = x ∧ K3d3.position_y p x y z = y ∧ K3d3.position_z p x y z = z := by
  simp only [epv_tree] at h ⊢
  epv_cases h
  all_goals first | (exact absurd h (by decide)) | (simp only [epv_leaf] <;> trivial) | trivial

theorem positions_Kidder74 (p : Kidder74.P) (r t : ℝ) (h : Kidder74.outcome p r t = .ok) :
    Kidder74.position p r t = r := by
  simp only [epv_tree] at h ⊢
  epv_cases h
  all_goals first | (exact absurd h (by decide)) | (simp only [epv_leaf] <;> trivial) | trivial

theorem positions_Kidder76 (p : Kidder76.P) (r t : ℝ) (h : Kidder76.outcome p r t = .ok) :
    Kidder76.position p r t = r := by
  simp only [epv_tree] at h ⊢
  epv_cases h
  all_goals first | (exact absurd h (by decide)) | (simp only [epv_leaf] <;> trivial) | trivial

end EPV.C05
