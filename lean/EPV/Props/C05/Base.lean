/-
C05 — the uniform call/return contract, on the hand model of `exactpack/base.py`
(`EPV/Model/Base.lean`, tied to the real constructor and `__call__` by the
correspondence run of every public class).

For every class (any declared / defaulted parameter lists), every set of given
keywords, every N and every ordering of the points.
-/
import EPV.Model.Base
import Mathlib.Data.List.Perm.Basic
import Mathlib.Tactic

set_option linter.all false

open EPV.Model.Base

namespace EPV.C05

/-- an unknown keyword is rejected (ValueError "Unknown parameters"), whatever else is given -/
theorem construct_unknown (declared defaulted given : List String)
    (h : ∃ g ∈ given, g ∉ declared) :
    ∃ ns, construct declared defaulted given = .error (.unknown ns) ∧ ns ≠ [] := by
  obtain ⟨g, hg, hgd⟩ := h
  unfold construct
  have hall : given.all (fun g => declared.contains g) = false := by
    rw [List.all_eq_false]
    exact ⟨g, hg, by simpa using hgd⟩
  rw [hall]
  refine ⟨_, rfl, ?_⟩
  intro hnil
  have : g ∈ given.filter (fun g => !declared.contains g) := by
    rw [List.mem_filter]; exact ⟨hg, by simpa using hgd⟩
  rw [hnil] at this
  exact absurd this (List.not_mem_nil)

/-- a declared parameter with neither a given value nor a class default is rejected
(ValueError "Missing parameter") -/
theorem construct_missing (declared defaulted given : List String)
    (hsub : ∀ g ∈ given, g ∈ declared)
    (h : ∃ d ∈ declared, d ∉ given ∧ d ∉ defaulted) :
    ∃ d, construct declared defaulted given = .error (.missing d) ∧ d ∈ declared ∧ d ∉ given
      ∧ d ∉ defaulted := by
  obtain ⟨d, hd, hdg, hdf⟩ := h
  unfold construct
  have hall : given.all (fun g => declared.contains g) = true := by
    rw [List.all_eq_true]; intro g hg; simpa using hsub g hg
  rw [hall]
  simp only [if_true]
  cases hf : declared.find? (fun d => !(given.contains d || defaulted.contains d)) with
  | none =>
    rw [List.find?_eq_none] at hf
    have := hf d hd
    simp [hdg, hdf] at this
  | some d' =>
    refine ⟨d', rfl, List.mem_of_find?_eq_some hf, ?_, ?_⟩
    · have := List.find?_some hf; simp at this; exact this.1
    · have := List.find?_some hf; simp at this; exact this.2

/-- everything given is declared and everything declared has a value: accepted -/
theorem construct_ok (declared defaulted given : List String)
    (hsub : ∀ g ∈ given, g ∈ declared)
    (hall : ∀ d ∈ declared, d ∈ given ∨ d ∈ defaulted) :
    construct declared defaulted given = .ok () := by
  unfold construct
  have h1 : given.all (fun g => declared.contains g) = true := by
    rw [List.all_eq_true]; intro g hg; simpa using hsub g hg
  rw [h1]
  simp only [if_true]
  have h2 : declared.find? (fun d => !(given.contains d || defaulted.contains d)) = none := by
    rw [List.find?_eq_none]
    intro d hd
    rcases hall d hd with h | h <;> simp [h]
  rw [h2]

/-- the constructor accepts *exactly* when both conditions hold (so no third behaviour exists) -/
theorem construct_ok_iff (declared defaulted given : List String) :
    construct declared defaulted given = .ok () ↔
      (∀ g ∈ given, g ∈ declared) ∧ (∀ d ∈ declared, d ∈ given ∨ d ∈ defaulted) := by
  constructor
  · intro h
    by_contra hc
    rw [not_and_or] at hc
    rcases hc with hc | hc
    · push Not at hc
      obtain ⟨ns, hns, _⟩ := construct_unknown declared defaulted given hc
      rw [hns] at h; cases h
    · by_cases hsub : ∀ g ∈ given, g ∈ declared
      · push Not at hc
        obtain ⟨d, hd, hdg, hdf⟩ := hc
        obtain ⟨d', hd', _⟩ := construct_missing declared defaulted given hsub ⟨d, hd, hdg, hdf⟩
        rw [hd'] at h; cases h
      · push Not at hsub
        obtain ⟨ns, hns, _⟩ := construct_unknown declared defaulted given hsub
        rw [hns] at h; cases h
  · rintro ⟨h1, h2⟩
    exact construct_ok declared defaulted given h1 h2

/-! ### `call`: N records, in order, first field the point, value independent of the batch -/

variable {α β : Type}

theorem call_length (f : α → β) (pts : List α) : (call f pts).length = pts.length := by
  simp [call]

/-- the first field is the list of positions that was passed, unchanged and in order -/
theorem call_positions (f : α → β) (pts : List α) : (call f pts).map Prod.fst = pts := by
  simp [call, Function.comp_def]

/-- record i is (point i, f (point i)): it does not depend on which other points are in the request -/
theorem call_getElem? (f : α → β) (pts : List α) (i : ℕ) :
    (call f pts)[i]? = (pts[i]?).map (fun x => (x, f x)) := by
  simp [call]

/-- sub-batches: the records of a concatenation are the concatenation of the records -/
theorem call_append (f : α → β) (p q : List α) : call f (p ++ q) = call f p ++ call f q := by
  simp [call]

/-- any reordering of the points reorders the records in the same way -/
theorem call_perm (f : α → β) {p q : List α} (h : p.Perm q) : (call f p).Perm (call f q) :=
  h.map _

/-- duplicates: a repeated point gets a repeated, identical record -/
theorem call_replicate (f : α → β) (x : α) (n : ℕ) :
    call f (List.replicate n x) = List.replicate n (x, f x) := by
  simp [call]

/-- the value returned at a point is the same in any two batches that contain it -/
theorem call_value_batch_independent (f : α → β) (p q : List α) (x : α) (y z : β)
    (hp : (x, y) ∈ call f p) (hq : (x, z) ∈ call f q) : y = z := by
  simp only [call, List.mem_map, Prod.mk.injEq] at hp hq
  obtain ⟨a, _, rfl, rfl⟩ := hp
  obtain ⟨b, _, rfl, rfl⟩ := hq
  rfl

/-! ### csv round trip -/

/-- reading one row back -/
def readRow (s : List Char) : List (List Char) := s.splitOn ','

/-- reading the file back: rows, each split into fields -/
def read (s : List Char) : List (List (List Char)) := (s.splitOn '\n').map readRow

/-- a character that is neither in the separator nor in any field is not in the joined row -/
theorem not_mem_intercalate {c : Char} {sep : List Char} (hs : c ∉ sep) :
    ∀ (fs : List (List Char)), (∀ f ∈ fs, c ∉ f) → c ∉ sep.intercalate fs
  | [], _ => by simp [List.intercalate_nil]
  | [f], h => by
    rw [List.intercalate_singleton]; exact h f (by simp)
  | f :: g :: rest, h => by
    rw [List.intercalate_cons_cons]
    intro hm
    rcases List.mem_append.mp hm with hm | hm
    · rcases List.mem_append.mp hm with hm | hm
      · exact h f (by simp) hm
      · exact hs hm
    · exact not_mem_intercalate hs (g :: rest) (fun x hx => h x (List.mem_cons_of_mem _ hx)) hm

theorem readRow_dumpRow (fs : List (List Char)) (hne : fs ≠ []) (h : ∀ f ∈ fs, ',' ∉ f) :
    readRow (dumpRow fs) = fs :=
  List.splitOn_intercalate ',' h hne

/-- dump → read reproduces the header and every field of every record exactly, for fields free
of `,` and line breaks (standard field names; `repr` of a double) and at least one field per row -/
theorem read_dump (names : List (List Char)) (rows : List (List (List Char)))
    (hne : ∀ r ∈ names :: rows, r ≠ [])
    (hc : ∀ r ∈ names :: rows, ∀ f ∈ r, ',' ∉ f ∧ '\n' ∉ f) :
    read (dump names rows) = names :: rows := by
  unfold read dump
  have h1 : ∀ l ∈ (names :: rows).map dumpRow, '\n' ∉ l := by
    intro l hl
    rw [List.mem_map] at hl
    obtain ⟨r, hr, rfl⟩ := hl
    unfold dumpRow
    exact not_mem_intercalate (by decide) r (fun f hf => (hc r hr f hf).2)
  rw [List.splitOn_intercalate '\n' h1 (by simp)]
  rw [List.map_map]
  have : ∀ r ∈ names :: rows, (readRow ∘ dumpRow) r = r := by
    intro r hr
    exact readRow_dumpRow r (hne r hr) (fun f hf => (hc r hr f hf).1)
  rw [List.map_congr_left this, List.map_id']

/-- numbers: with a `repr`/`parse` pair that round-trips (the assumed behaviour of Python's
`repr`/`float` on finite doubles) every *value* is reproduced exactly -/
theorem read_dump_values {V : Type} (repr : V → List Char) (parse : List Char → Option V)
    (hrt : ∀ v, parse (repr v) = some v) (hclean : ∀ v, ',' ∉ repr v ∧ '\n' ∉ repr v)
    (names : List (List Char)) (hn : names ≠ []) (hnc : ∀ f ∈ names, ',' ∉ f ∧ '\n' ∉ f)
    (rows : List (List V)) (hr : ∀ r ∈ rows, r ≠ []) :
    ((read (dump names (rows.map (·.map repr)))).tail.map (·.map parse))
      = rows.map (·.map some) := by
  rw [read_dump]
  · simp only [List.tail_cons, List.map_map]
    apply List.map_congr_left
    intro r _
    simp [Function.comp_def, hrt]
  · intro r hr'
    rcases List.mem_cons.mp hr' with rfl | hr'
    · exact hn
    · rw [List.mem_map] at hr'
      obtain ⟨r0, hr0, rfl⟩ := hr'
      intro h
      exact hr r0 hr0 (List.map_eq_nil_iff.mp h)
  · intro r hr' f hf
    rcases List.mem_cons.mp hr' with rfl | hr'
    · exact hnc f hf
    · rw [List.mem_map] at hr'
      obtain ⟨r0, _, rfl⟩ := hr'
      rw [List.mem_map] at hf
      obtain ⟨v, _, rfl⟩ := hf
      exact hclean v

/-- non-vacuity: a concrete class, keyword set and batch -/
example : construct ["geometry", "gamma"] ["geometry"] ["gamma"] = .ok () := by decide
example : construct ["geometry", "gamma"] ["geometry"] [] = .error (.missing "gamma") := by decide
example : construct ["geometry", "gamma"] ["geometry"] ["gamma", "foo"] = .error (.unknown ["foo"]) := by
  decide

end EPV.C05
