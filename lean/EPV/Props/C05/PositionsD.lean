/-
C05 — "the first field(s) are the positions that were passed (unchanged)", on the models regenerated from
the source: for every generated solver-level model and every path of its traced decision tree on which
the solver returns numbers, the leading field(s) equal the symbolic point handed to `_run`.
Part D (models RmtvWire … SuOlson).
-/
import EPV.Gen.RmtvWire
import EPV.Gen.Rod3
import EPV.Gen.RodRun2
import EPV.Gen.Sandwich3
import EPV.Gen.SandwichHalf3
import EPV.Gen.SandwichHot3
import EPV.Gen.SedovRunSing
import EPV.Gen.SedovRunStd
import EPV.Gen.SedovRunVac
import EPV.Gen.SphericalCog1
import EPV.Gen.SphericalCog10
import EPV.Gen.SphericalCog11
import EPV.Gen.SphericalCog12
import EPV.Gen.SphericalCog13
import EPV.Gen.SphericalCog14
import EPV.Gen.SphericalCog16
import EPV.Gen.SphericalCog17
import EPV.Gen.SphericalCog18
import EPV.Gen.SphericalCog19
import EPV.Gen.SphericalCog2
import EPV.Gen.SphericalCog20
import EPV.Gen.SphericalCog3
import EPV.Gen.SphericalCog4
import EPV.Gen.SphericalCog6
import EPV.Gen.SphericalCog7
import EPV.Gen.SphericalCog8
import EPV.Gen.SphericalCog9
import EPV.Gen.SphericalNoh
import EPV.Gen.SphericalNoh2
import EPV.Gen.SuOlson
import EPV.Tactics

set_option linter.all false
set_option maxHeartbeats 1000000

open EPV EPV.Gen

namespace EPV.C05

theorem positions_RmtvWire (p : RmtvWire.P) (r t : ℝ) (h : RmtvWire.outcome p r t = .ok) :
    RmtvWire.position p r t = r := by
  simp only [epv_tree] at h ⊢
  epv_cases h
  all_goals first | (exact absurd h (by decide)) | (simp only [epv_leaf] <;> trivial) | trivial

theorem positions_Rod3 (p : Rod3.P) (x t : ℝ) (h : Rod3.outcome p x t = .ok) :
    Rod3.position p x t = x := by
  simp only [epv_tree] at h ⊢
  epv_cases h
  all_goals first | (exact absurd h (by decide)) | (simp only [epv_leaf] <;> trivial) | trivial

theorem positions_RodRun2 (p : RodRun2.P) (x t : ℝ) (h : RodRun2.outcome p x t = .ok) :
    RodRun2.position p x t = x := by
  simp only [epv_tree] at h ⊢
  epv_cases h
  all_goals first | (exact absurd h (by decide)) | (simp only [epv_leaf] <;> trivial) | trivial

theorem positions_Sandwich3 (p : Sandwich3.P) (x t : ℝ) (h : Sandwich3.outcome p x t = .ok) :
    Sandwich3.position p x t = x := by
  simp only [epv_tree] at h ⊢
  epv_cases h
  all_goals first | (exact absurd h (by decide)) | (simp only [epv_leaf] <;> trivial) | trivial

theorem positions_SandwichHalf3 (p : SandwichHalf3.P) (x t : ℝ) (h : SandwichHalf3.outcome p x t = .ok) :
    SandwichHalf3.position p x t = x := by
  simp only [epv_tree] at h ⊢
  epv_cases h
  all_goals first | (exact absurd h (by decide)) | (simp only [epv_leaf] <;> trivial) | trivial

theorem positions_SandwichHot3 (p : SandwichHot3.P) (x t : ℝ) (h : SandwichHot3.outcome p x t = .ok) :
    SandwichHot3.position p x t = x := by
  simp only [epv_tree] at h ⊢
  epv_cases h
  all_goals first | (exact absurd h (by decide)) | (simp only [epv_leaf] <;> trivial) | trivial

theorem positions_SedovRunSing (p : SedovRunSing.P) (r t : ℝ) (h : SedovRunSing.outcome p r t = .ok) :
    SedovRunSing.position p r t = r := by
  simp only [epv_tree] at h ⊢
  epv_cases h
  all_goals first | (exact absurd h (by decide)) | (simp only [epv_leaf] <;> trivial) | trivial

theorem positions_SedovRunStd (p : SedovRunStd.P) (r t : ℝ) (h : SedovRunStd.outcome p r t = .ok) :
    SedovRunStd.position p r t = r := by
  simp only [epv_tree] at h ⊢
  epv_cases h
  all_goals first | (exact absurd h (by decide)) | (simp only [epv_leaf] <;> trivial) | trivial

theorem positions_SedovRunVac (p : SedovRunVac.P) (r t : ℝ) (h : SedovRunVac.outcome p r t = .ok) :
    SedovRunVac.position p r t = r := by
  simp only [epv_tree] at h ⊢
  epv_cases h
  all_goals first | (exact absurd h (by decide)) | (simp only [epv_leaf] <;> trivial) | trivial

theorem positions_SphericalCog1 (p : SphericalCog1.P) (r t : ℝ) (h : SphericalCog1.outcome p r t = .ok) :
    SphericalCog1.position p r t = r := by
  simp only [epv_tree] at h ⊢
  epv_cases h
  all_goals first | (exact absurd h (by decide)) | (simp only [epv_leaf] <;> trivial) | trivial

theorem positions_SphericalCog10 (p : SphericalCog10.P) (r t : ℝ) (h : SphericalCog10.outcome p r t = .ok) :
    SphericalCog10.position p r t = r := by
  simp only [epv_tree] at h ⊢
  epv_cases h
  all_goals first | (exact absurd h (by decide)) | (simp only [epv_leaf] <;> trivial) | trivial

theorem positions_SphericalCog11 (p : SphericalCog11.P) (r t : ℝ) (h : SphericalCog11.outcome p r t = .ok) :
    SphericalCog11.position p r t = r := by
  simp only [epv_tree] at h ⊢
  epv_cases h
  all_goals first | (exact absurd h (by decide)) | (simp only [epv_leaf] <;> trivial) | trivial

theorem positions_SphericalCog12 (p : SphericalCog12.P) (r t : ℝ) (h : SphericalCog12.outcome p r t = .ok) :
    SphericalCog12.position p r t = r := by
  simp only [epv_tree] at h ⊢
  epv_cases h
  all_goals first | (exact absurd h (by decide)) | (simp only [epv_leaf] <;> trivial) | trivial

theorem positions_SphericalCog13 (p : SphericalCog13.P) (r t : ℝ) (h : SphericalCog13.outcome p r t = .ok) :
    SphericalCog13.position p r t = r := by
  simp only [epv_tree] at h ⊢
  epv_cases h
  all_goals first | (exact absurd h (by decide)) | (simp only [epv_leaf] <;> trivial) | trivial

theorem positions_SphericalCog14 (p : SphericalCog14.P) (r t : ℝ) (h : SphericalCog14.outcome p r t = .ok) :
    SphericalCog14.position p r t = r := by
  simp only [epv_tree] at h ⊢
  epv_cases h
  all_goals first | (exact absurd h (by decide)) | (simp only [epv_leaf] <;> trivial) | trivial

theorem positions_SphericalCog16 (p : SphericalCog16.P) (r t : ℝ) (h : SphericalCog16.outcome p r t = .ok) :
    SphericalCog16.position p r t = r := by
  simp only [epv_tree] at h ⊢
  epv_cases h
  all_goals first | (exact absurd h (by decide)) | (simp only [epv_leaf] <;> trivial) | trivial

theorem positions_SphericalCog17 (p : SphericalCog17.P) (r t : ℝ) (h : SphericalCog17.outcome p r t = .ok) :
    SphericalCog17.position p r t = r := by
  simp only [epv_tree] at h ⊢
  epv_cases h
  all_goals first | (exact absurd h (by decide)) | (simp only [epv_leaf] <;> trivial) | trivial

theorem positions_SphericalCog18 (p : SphericalCog18.P) (r t : ℝ) (h : SphericalCog18.outcome p r t = .ok) :
    SphericalCog18.position p r t = r := by
  simp only [epv_tree] at h ⊢
  epv_cases h
  all_goals first | (exact absurd h (by decide)) | (simp only [epv_leaf] <;> trivial) | trivial

theorem positions_SphericalCog19 (p : SphericalCog19.P) (r t : ℝ) (h : SphericalCog19.outcome p r t = .ok) :
    SphericalCog19.position p r t = r := by
  simp only [epv_tree] at h ⊢
  epv_cases h
  all_goals first | (exact absurd h (by decide)) | (simp only [epv_leaf] <;> trivial) | trivial

theorem positions_SphericalCog2 (p : SphericalCog2.P) (r t : ℝ) (h : SphericalCog2.outcome p r t = .ok) :
    SphericalCog2.position p r t = r := by
  simp only [epv_tree] at h ⊢
  epv_cases h
  all_goals first | (exact absurd h (by decide)) | (simp only [epv_leaf] <;> trivial) | trivial

theorem positions_SphericalCog20 (p : SphericalCog20.P) (r t : ℝ) (h : SphericalCog20.outcome p r t = .ok) :
    SphericalCog20.position p r t = r := by
  simp only [epv_tree] at h ⊢
  epv_cases h
  all_goals first | (exact absurd h (by decide)) | (simp only [epv_leaf] <;> trivial) | trivial

theorem positions_SphericalCog3 (p : SphericalCog3.P) (r t : ℝ) (h : SphericalCog3.outcome p r t = .ok) :
    SphericalCog3.position p r t = r := by
  simp only [epv_tree] at h ⊢
  epv_cases h
  all_goals first | (exact absurd h (by decide)) | (simp only [epv_leaf] <;> trivial) | trivial

theorem positions_SphericalCog4 (p : SphericalCog4.P) (r t : ℝ) (h : SphericalCog4.outcome p r t = .ok) :
    SphericalCog4.position p r t = r := by
  simp only [epv_tree] at h ⊢
  epv_cases h
  all_goals first | (exact absurd h (by decide)) | (simp only [epv_leaf] <;> trivial) | trivial

theorem positions_SphericalCog6 (p : SphericalCog6.P) (r t : ℝ) (h : SphericalCog6.outcome p r t = .ok) :
    SphericalCog6.position p r t = r := by
  simp only [epv_tree] at h ⊢
  epv_cases h
  all_goals first | (exact absurd h (by decide)) | (simp only [epv_leaf] <;> trivial) | trivial

theorem positions_SphericalCog7 (p : SphericalCog7.P) (r t : ℝ) (h : SphericalCog7.outcome p r t = .ok) :
    SphericalCog7.position p r t = r := by
  simp only [epv_tree] at h ⊢
  epv_cases h
  all_goals first | (exact absurd h (by decide)) | (simp only [epv_leaf] <;> trivial) | trivial

theorem positions_SphericalCog8 (p : SphericalCog8.P) (r t : ℝ) (h : SphericalCog8.outcome p r t = .ok) :
    SphericalCog8.position p r t = r := by
  simp only [epv_tree] at h ⊢
  epv_cases h
  all_goals first | (exact absurd h (by decide)) | (simp only [epv_leaf] <;> trivial) | trivial

theorem positions_SphericalCog9 (p : SphericalCog9.P) (r t : ℝ) (h : SphericalCog9.outcome p r t = .ok) :
    SphericalCog9.position p r t = r := by
  simp only [epv_tree] at h ⊢
  epv_cases h
  all_goals first | (exact absurd h (by decide)) | (simp only [epv_leaf] <;> trivial) | trivial

theorem positions_SphericalNoh (p : SphericalNoh.P) (r t : ℝ) (h : SphericalNoh.outcome p r t = .ok) :
    SphericalNoh.position p r t = r := by
  simp only [epv_tree] at h ⊢
  epv_cases h
  all_goals first | (exact absurd h (by decide)) | (simp only [epv_leaf] <;> trivial) | trivial

theorem positions_SphericalNoh2 (p : SphericalNoh2.P) (r t : ℝ) (h : SphericalNoh2.outcome p r t = .ok) :
    SphericalNoh2.position p r t = r := by
  simp only [epv_tree] at h ⊢
  epv_cases h
  all_goals first | (exact absurd h (by decide)) | (simp only [epv_leaf] <;> trivial) | trivial

theorem positions_SuOlson (p : SuOlson.P) (z t : ℝ) (h : SuOlson.outcome p z t = .ok) :
    SuOlson.position p z t = z := by
  simp only [epv_tree] at h ⊢
  epv_cases h
  all_goals first | (exact absurd h (by decide)) | (simp only [epv_leaf] <;> trivial) | trivial

end EPV.C05
