/-
C09 (burn-time half, DSD cylindrical expansion; the statement for all four solvers is repeated in each BurnK*.lean / BurnDSD.lean) — "Burn-time fields are unchanged when detonators, material boundaries
and evaluation points are rotated about or reflected through the problem's symmetry axis,
and Kenamond 1 is invariant under any common translation."

All statements are about the TRACED models (through the bridge `EPV.Lemmas.BurnK1`, `BurnK2`, `BurnK3`, `BurnDSD`), with
points read as elements of `EuclideanSpace ℝ (Fin n)`:

* Kenamond 1: invariance under EVERY isometry φ of the plane / of space applied to the
  detonator and the evaluation point — rotations, reflections and translations
  (`k1dN_isometry`); in coordinates: translation by any vector, rotation by any angle
  (`k1d2_translation`, `k1d3_translation`, `k1d2_rotation`, `k1d3_rotation_z`).
* Kenamond 2: the detonators sit on the symmetry axis (y in 2-D, z in 3-D) and the sphere
  at the origin, so the field is invariant under every linear isometry that fixes the axis
  pointwise, with the SAME parameters (`k2dN_axis_isometry`): the reflection x ↦ -x in 2-D,
  every rotation about the z axis and every reflection through a plane containing it in 3-D
  (`k2d2_reflection`, `k2d3_rotation_z`, `k2d3_reflection`); flipping the axis maps the
  problem with axial positions a_i to the one with -a_i (`k2dN_axis_flip`).
* Kenamond 3: the obstacle is a sphere at the origin and the detonator is arbitrary, so
  the field is invariant under every linear isometry applied to detonator and point
  (`k3dN_linearIsometry`; `k3d2_rotation`, `k3d2_reflection`, `k3d3_rotation_z`).
* DSD cylinder: the field depends on the point only through ‖q‖: invariant under every
  linear isometry, indeed every norm-preserving map (`dsdcyl_norm_invariant`, `dsdcyl_linearIsometry`).

The explicit rotations / reflections are the linear isometries `rot2`, `reflX2`, `rotZ3`,
`reflX3` of `EPV.Lemmas.Burn`, with their coordinate formulas as simp lemmas.
-/
import EPV.Lemmas.BurnDSD

set_option linter.all false

open EPV EPV.Gen EPV.Spec.Burn EPV.Burn

namespace EPV.C09

/-! ### DSD cylindrical expansion -/

/-- the burn time depends on the point only through its distance from the axis; acceptance
does not depend on the point at all -/
theorem dsdcyl_norm_invariant (p : DSDCyl.P) (x y x' y' : ℝ) (h : x' * x' + y' * y' = x * x + y * y)
    (hok : DSDCyl.outcome p x y = .ok) :
    DSDCyl.outcome p x' y' = .ok ∧ DSDCyl.burntime p x' y' = DSDCyl.burntime p x y := by
  have hok' : DSDCyl.outcome p x' y' = .ok := by rw [dsdcyl_outcome] at hok ⊢; exact hok
  exact ⟨hok', by rw [dsdcyl_eq_spec p x y hok, dsdcyl_eq_spec p x' y' hok', h]⟩

theorem dsdcyl_linearIsometry (φ : E2 →ₗᵢ[ℝ] E2) (p : DSDCyl.P) (q : E2) (hok : DSDCyl.outcome p (q 0) (q 1) = .ok) :
    DSDCyl.burntime p (φ q 0) (φ q 1) = DSDCyl.burntime p (q 0) (q 1) := by
  refine (dsdcyl_norm_invariant p _ _ _ _ ?_ hok).2
  have h1 := sqrt_norm2 (φ q)
  have h2 := sqrt_norm2 q
  rw [φ.norm_map, ← h2] at h1
  have hn1 : 0 ≤ φ q 0 * φ q 0 + φ q 1 * φ q 1 := by nlinarith [mul_self_nonneg (φ q 0), mul_self_nonneg (φ q 1)]
  have hn2 : 0 ≤ q 0 * q 0 + q 1 * q 1 := by nlinarith [mul_self_nonneg (q 0), mul_self_nonneg (q 1)]
  exact (Real.sqrt_inj hn1 hn2).mp h1

/-- rotation by any angle about the axis of the cylinder, in coordinates -/
theorem dsdcyl_rotation (p : DSDCyl.P) (θ x y : ℝ) (hok : DSDCyl.outcome p x y = .ok) :
    DSDCyl.burntime p (x * Real.cos θ - y * Real.sin θ) (x * Real.sin θ + y * Real.cos θ) = DSDCyl.burntime p x y := by
  have := dsdcyl_linearIsometry (rot2 θ) p !₂[x, y] (by simpa using hok)
  simpa using this

theorem dsdcyl_reflection (p : DSDCyl.P) (x y : ℝ) (hok : DSDCyl.outcome p x y = .ok) :
    DSDCyl.burntime p (-x) y = DSDCyl.burntime p x y := by
  have := dsdcyl_linearIsometry reflX2 p !₂[x, y] (by simpa using hok)
  simpa using this

/-- non-vacuity: DSD defaults at (3, 0): the request is served -/
example : DSDCyl.outcome ⟨1/2, 1, 1/10, 1/10, 1, 2, 0⟩ 3 0 = .ok := by
  rw [dsdcyl_outcome]; norm_num

end EPV.C09
