/-
C09 (burn-time half) — "Burn-time fields are unchanged when detonators, material boundaries
and evaluation points are rotated about or reflected through the problem's symmetry axis,
and Kenamond 1 is invariant under any common translation."

All statements are about the TRACED models (through the bridge `EPV.Lemmas.BurnModels`), with
points read as elements of `EuclideanSpace ℝ (Fin n)`:

* Kenamond 1: invariance under EVERY isometry φ of the plane / of space applied to the
  detonator and the evaluation point — rotations, reflections and translations
  (`k1dN_isometry`); in coordinates: translation by any vector, rotation by any angle
  (`k1d2_translation`, `k1d3_translation`, `k1d2_rotation`, `k1d3_rotation_z`).
* Kenamond 2: the detonators sit on the symmetry axis (y in 2-D, z in 3-D) and the sphere
  at the origin, so the field is invariant under every linear isometry that fixes the axis
  pointwise, with the SAME parameters (`k2dN_axis_isometry`): the reflection x ↦ -x in 2-D,
  every rotation about the z axis and every reflection through a plane containing it in 3-D
  (`k2d2_reflection`, `k2d3_rotation_z`, `k2d3_reflection`); flipping the axis maps the
  problem with axial positions a_i to the one with -a_i (`k2dN_axis_flip`).
* Kenamond 3: the obstacle is a sphere at the origin and the detonator is arbitrary, so
  the field is invariant under every linear isometry applied to detonator and point
  (`k3dN_linearIsometry`; `k3d2_rotation`, `k3d2_reflection`, `k3d3_rotation_z`).
* DSD cylinder: the field depends on the point only through ‖q‖: invariant under every
  linear isometry, indeed every norm-preserving map (`dsdcyl_norm_invariant`, `dsdcyl_linearIsometry`).

The explicit rotations / reflections are the linear isometries `rot2`, `reflX2`, `rotZ3`,
`reflX3` of `EPV.Lemmas.Burn`, with their coordinate formulas as simp lemmas.
-/
import EPV.Lemmas.BurnModels

set_option linter.all false

open EPV EPV.Gen EPV.Spec.Burn EPV.Burn

namespace EPV.C09

/-! ### Kenamond 1 -/

/-- Kenamond 1, 2-D: every isometry of the plane, applied to detonator and point -/
theorem k1d2_isometry (φ : E2 → E2) (hφ : Isometry φ) (p p' : K1d2.P) (hD : p'.D = p.D) (htd : p'.t_d = p.t_d)
    (hdet : K1d2.det p' = φ (K1d2.det p)) (hpos : 0 < p.D) (q : E2) :
    K1d2.burntime p' (φ q 0) (φ q 1) = K1d2.burntime p (q 0) (q 1) := by
  rw [k1d2_eq_cone p hpos, k1d2_eq_cone p' (hD ▸ hpos), hdet, hD, htd, cone_isometry hφ]

/-- Kenamond 1, 3-D: every isometry of space -/
theorem k1d3_isometry (φ : E3 → E3) (hφ : Isometry φ) (p p' : K1d3.P) (hD : p'.D = p.D) (htd : p'.t_d = p.t_d)
    (hdet : K1d3.det p' = φ (K1d3.det p)) (hpos : 0 < p.D) (q : E3) :
    K1d3.burntime p' (φ q 0) (φ q 1) (φ q 2) = K1d3.burntime p (q 0) (q 1) (q 2) := by
  rw [k1d3_eq_cone p hpos, k1d3_eq_cone p' (hD ▸ hpos), hdet, hD, htd, cone_isometry hφ]

/-- common translation, in coordinates -/
theorem k1d2_translation (D td xd0 xd1 a b x y : ℝ) (hD : 0 < D) :
    K1d2.burntime ⟨D, td, xd0 + a, xd1 + b⟩ (x + a) (y + b) = K1d2.burntime ⟨D, td, xd0, xd1⟩ x y := by
  have h := k1d2_isometry (fun q => q + !₂[a, b]) (isometry_add_right _) ⟨D, td, xd0, xd1⟩
    ⟨D, td, xd0 + a, xd1 + b⟩ rfl rfl (by ext i; fin_cases i <;> simp [K1d2.det]) hD !₂[x, y]
  simpa using h

theorem k1d3_translation (D td xd0 xd1 xd2 a b c x y z : ℝ) (hD : 0 < D) :
    K1d3.burntime ⟨D, td, xd0 + a, xd1 + b, xd2 + c⟩ (x + a) (y + b) (z + c)
      = K1d3.burntime ⟨D, td, xd0, xd1, xd2⟩ x y z := by
  have h := k1d3_isometry (fun q => q + !₂[a, b, c]) (isometry_add_right _) ⟨D, td, xd0, xd1, xd2⟩
    ⟨D, td, xd0 + a, xd1 + b, xd2 + c⟩ rfl rfl (by ext i; fin_cases i <;> simp [K1d3.det]) hD !₂[x, y, z]
  simpa using h

/-- rotation by any angle θ, in coordinates -/
theorem k1d2_rotation (D td xd0 xd1 θ x y : ℝ) (hD : 0 < D) :
    K1d2.burntime ⟨D, td, xd0 * Real.cos θ - xd1 * Real.sin θ, xd0 * Real.sin θ + xd1 * Real.cos θ⟩
        (x * Real.cos θ - y * Real.sin θ) (x * Real.sin θ + y * Real.cos θ)
      = K1d2.burntime ⟨D, td, xd0, xd1⟩ x y := by
  have h := k1d2_isometry (rot2 θ) (rot2 θ).isometry ⟨D, td, xd0, xd1⟩
    ⟨D, td, xd0 * Real.cos θ - xd1 * Real.sin θ, xd0 * Real.sin θ + xd1 * Real.cos θ⟩ rfl rfl
    (by ext i; fin_cases i <;> simp [K1d2.det]) hD !₂[x, y]
  simpa using h

/-- reflection (x, y) ↦ (-x, y), in coordinates -/
theorem k1d2_reflection (D td xd0 xd1 x y : ℝ) (hD : 0 < D) :
    K1d2.burntime ⟨D, td, -xd0, xd1⟩ (-x) y = K1d2.burntime ⟨D, td, xd0, xd1⟩ x y := by
  have h := k1d2_isometry reflX2 reflX2.isometry ⟨D, td, xd0, xd1⟩ ⟨D, td, -xd0, xd1⟩ rfl rfl
    (by ext i; fin_cases i <;> simp [K1d2.det]) hD !₂[x, y]
  simpa using h

/-- rotation about the z axis by any angle θ, in coordinates -/
theorem k1d3_rotation_z (D td xd0 xd1 xd2 θ x y z : ℝ) (hD : 0 < D) :
    K1d3.burntime ⟨D, td, xd0 * Real.cos θ - xd1 * Real.sin θ, xd0 * Real.sin θ + xd1 * Real.cos θ, xd2⟩
        (x * Real.cos θ - y * Real.sin θ) (x * Real.sin θ + y * Real.cos θ) z
      = K1d3.burntime ⟨D, td, xd0, xd1, xd2⟩ x y z := by
  have h := k1d3_isometry (rotZ3 θ) (rotZ3 θ).isometry ⟨D, td, xd0, xd1, xd2⟩
    ⟨D, td, xd0 * Real.cos θ - xd1 * Real.sin θ, xd0 * Real.sin θ + xd1 * Real.cos θ, xd2⟩ rfl rfl
    (by ext i; fin_cases i <;> simp [K1d3.det]) hD !₂[x, y, z]
  simpa using h

/-! ### Kenamond 2 -/

/-- Kenamond 2, 2-D: every linear isometry fixing the symmetry axis (the y axis) pointwise -/
theorem k2d2_axis_isometry (φ : E2 →ₗᵢ[ℝ] E2) (hφ : ∀ a, φ (axis2 a) = axis2 a) (p : K2d2.P) (h : K2d2.Adm p)
    (q : E2) : K2d2.burntime p (φ q 0) (φ q 1) = K2d2.burntime p (q 0) (q 1) := by
  rw [k2d2_eq_spec' p h, k2d2_eq_spec' p h]
  have := k2_linearIsometry φ p.R p.D1 p.D2 p.td1 p.td2 p.td3 p.td4 p.td5 (axis2 p.a1) (axis2 p.a2) (axis2 p.a4)
    (axis2 p.a5) q
  simp only [hφ] at this
  exact this

/-- Kenamond 2, 3-D: every linear isometry fixing the symmetry axis (the z axis) pointwise -/
theorem k2d3_axis_isometry (φ : E3 →ₗᵢ[ℝ] E3) (hφ : ∀ a, φ (axis3 a) = axis3 a) (p : K2d3.P) (h : K2d3.Adm p)
    (q : E3) : K2d3.burntime p (φ q 0) (φ q 1) (φ q 2) = K2d3.burntime p (q 0) (q 1) (q 2) := by
  rw [k2d3_eq_spec' p h, k2d3_eq_spec' p h]
  have := k2_linearIsometry φ p.R p.D1 p.D2 p.td1 p.td2 p.td3 p.td4 p.td5 (axis3 p.a1) (axis3 p.a2) (axis3 p.a4)
    (axis3 p.a5) q
  simp only [hφ] at this
  exact this

/-- reflection through the symmetry axis, 2-D, in coordinates -/
theorem k2d2_reflection (p : K2d2.P) (h : K2d2.Adm p) (x y : ℝ) : K2d2.burntime p (-x) y = K2d2.burntime p x y := by
  have := k2d2_axis_isometry reflX2 (fun a => by ext i; fin_cases i <;> simp [axis2]) p h !₂[x, y]
  simpa using this

/-- rotation about the symmetry axis by any angle, 3-D, in coordinates -/
theorem k2d3_rotation_z (p : K2d3.P) (h : K2d3.Adm p) (θ x y z : ℝ) :
    K2d3.burntime p (x * Real.cos θ - y * Real.sin θ) (x * Real.sin θ + y * Real.cos θ) z
      = K2d3.burntime p x y z := by
  have := k2d3_axis_isometry (rotZ3 θ) (fun a => by ext i; fin_cases i <;> simp [axis3]) p h !₂[x, y, z]
  simpa using this

/-- reflection through a plane containing the symmetry axis, 3-D, in coordinates -/
theorem k2d3_reflection (p : K2d3.P) (h : K2d3.Adm p) (x y z : ℝ) :
    K2d3.burntime p (-x) y z = K2d3.burntime p x y z := by
  have := k2d3_axis_isometry reflX3 (fun a => by ext i; fin_cases i <;> simp [axis3]) p h !₂[x, y, z]
  simpa using this

/-- point reflection through the origin composed with `reflX2`: (x, y) ↦ (x, -y), the flip of the axis -/
noncomputable def flipY2 : E2 →ₗᵢ[ℝ] E2 := (LinearIsometryEquiv.neg ℝ).toLinearIsometry.comp reflX2
noncomputable def flipZ3 : E3 →ₗᵢ[ℝ] E3 :=
  ((LinearIsometryEquiv.neg ℝ).toLinearIsometry.comp reflX3).comp (rotZ3 Real.pi)

@[simp] theorem flipY2_0 (q : E2) : (flipY2 q) 0 = q 0 := by simp [flipY2]
@[simp] theorem flipY2_1 (q : E2) : (flipY2 q) 1 = -(q 1) := by simp [flipY2]
@[simp] theorem flipZ3_0 (q : E3) : (flipZ3 q) 0 = -(q 0) := by simp [flipZ3]
@[simp] theorem flipZ3_1 (q : E3) : (flipZ3 q) 1 = q 1 := by simp [flipZ3]
@[simp] theorem flipZ3_2 (q : E3) : (flipZ3 q) 2 = -(q 2) := by simp [flipZ3]

/-- the problem with the axial detonator positions negated -/
def K2d2.flip (p : K2d2.P) : K2d2.P := { p with a1 := -p.a1, a2 := -p.a2, a4 := -p.a4, a5 := -p.a5 }
def K2d3.flip (p : K2d3.P) : K2d3.P := { p with a1 := -p.a1, a2 := -p.a2, a4 := -p.a4, a5 := -p.a5 }

theorem K2d2.flip_adm (p : K2d2.P) (h : K2d2.Adm p) : K2d2.Adm (K2d2.flip p) := by
  obtain ⟨h0, h2, h3, o1, o2, o4, o5, t1, t2, t4, t5⟩ := h
  rw [norm_axis2] at o1 o2 o4 o5 t1 t2 t4 t5
  refine ⟨h0, h2, h3, ?_, ?_, ?_, ?_, ?_, ?_, ?_, ?_⟩ <;> simp only [K2d2.flip, norm_axis2, abs_neg] <;> assumption

theorem K2d3.flip_adm (p : K2d3.P) (h : K2d3.Adm p) : K2d3.Adm (K2d3.flip p) := by
  obtain ⟨h0, h2, h3, o1, o2, o4, o5, t1, t2, t4, t5⟩ := h
  rw [norm_axis3] at o1 o2 o4 o5 t1 t2 t4 t5
  refine ⟨h0, h2, h3, ?_, ?_, ?_, ?_, ?_, ?_, ?_, ?_⟩ <;> simp only [K2d3.flip, norm_axis3, abs_neg] <;> assumption

/-- reflecting detonators and point through the plane/line perpendicular to the axis: the problem
with axial positions -a_i at the mirrored point has the same burn time -/
theorem k2d2_axis_flip (p : K2d2.P) (h : K2d2.Adm p) (x y : ℝ) :
    K2d2.burntime (K2d2.flip p) x (-y) = K2d2.burntime p x y := by
  have e1 : K2d2.burntime p x y = K2d2.spec p !₂[x, y] := by simpa using k2d2_eq_spec' p h !₂[x, y]
  have e2 : K2d2.burntime (K2d2.flip p) x (-y) = K2d2.spec (K2d2.flip p) (flipY2 !₂[x, y]) := by
    simpa using k2d2_eq_spec' (K2d2.flip p) (K2d2.flip_adm p h) (flipY2 !₂[x, y])
  rw [e1, e2]
  have hax : ∀ a, axis2 (-a) = flipY2 (axis2 a) := fun a => by ext i; fin_cases i <;> simp [axis2]
  unfold K2d2.spec
  simp only [K2d2.flip, hax]
  exact k2_linearIsometry flipY2 _ _ _ _ _ _ _ _ _ _ _ _ _

theorem k2d3_axis_flip (p : K2d3.P) (h : K2d3.Adm p) (x y z : ℝ) :
    K2d3.burntime (K2d3.flip p) (-x) y (-z) = K2d3.burntime p x y z := by
  have e1 : K2d3.burntime p x y z = K2d3.spec p !₂[x, y, z] := by simpa using k2d3_eq_spec' p h !₂[x, y, z]
  have e2 : K2d3.burntime (K2d3.flip p) (-x) y (-z) = K2d3.spec (K2d3.flip p) (flipZ3 !₂[x, y, z]) := by
    simpa using k2d3_eq_spec' (K2d3.flip p) (K2d3.flip_adm p h) (flipZ3 !₂[x, y, z])
  rw [e1, e2]
  have hax : ∀ a, axis3 (-a) = flipZ3 (axis3 a) := fun a => by ext i; fin_cases i <;> simp [axis3]
  unfold K2d3.spec
  simp only [K2d3.flip, hax]
  exact k2_linearIsometry flipZ3 _ _ _ _ _ _ _ _ _ _ _ _ _

/-! ### Kenamond 3 -/

/-- Kenamond 3, 2-D: every linear isometry applied to detonator and point; the request is
served for the image exactly when it is served for the original -/
theorem k3d2_linearIsometry (φ : E2 →ₗᵢ[ℝ] E2) (p p' : K3d2.P) (hR : p'.R = p.R) (hD : p'.D = p.D)
    (htd : p'.t_d = p.t_d) (hdet : K3d2.det p' = φ (K3d2.det p)) (q : E2)
    (h : K3d2.outcome p (q 0) (q 1) = .ok) :
    K3d2.outcome p' (φ q 0) (φ q 1) = .ok ∧ K3d2.burntime p' (φ q 0) (φ q 1) = K3d2.burntime p (q 0) (q 1) := by
  have h' : K3d2.outcome p' (φ q 0) (φ q 1) = .ok := by
    rw [k3d2_outcome] at h ⊢
    obtain ⟨⟨a, b, c⟩, d⟩ := h
    exact ⟨⟨hR ▸ a, hD ▸ b, by rw [hdet, hR, φ.norm_map]; exact c⟩, by rw [hR, φ.norm_map]; exact d⟩
  refine ⟨h', ?_⟩
  rw [k3d2_eq_spec p q h, k3d2_eq_spec p' (φ q) h', hdet, hR, hD, htd, k3_linearIsometry]

theorem k3d3_linearIsometry (φ : E3 →ₗᵢ[ℝ] E3) (p p' : K3d3.P) (hR : p'.R = p.R) (hD : p'.D = p.D)
    (htd : p'.t_d = p.t_d) (hdet : K3d3.det p' = φ (K3d3.det p)) (q : E3)
    (h : K3d3.outcome p (q 0) (q 1) (q 2) = .ok) :
    K3d3.outcome p' (φ q 0) (φ q 1) (φ q 2) = .ok ∧
      K3d3.burntime p' (φ q 0) (φ q 1) (φ q 2) = K3d3.burntime p (q 0) (q 1) (q 2) := by
  have h' : K3d3.outcome p' (φ q 0) (φ q 1) (φ q 2) = .ok := by
    rw [k3d3_outcome] at h ⊢
    obtain ⟨⟨a, b, c⟩, d⟩ := h
    exact ⟨⟨hR ▸ a, hD ▸ b, by rw [hdet, hR, φ.norm_map]; exact c⟩, by rw [hR, φ.norm_map]; exact d⟩
  refine ⟨h', ?_⟩
  rw [k3d3_eq_spec p q h, k3d3_eq_spec p' (φ q) h', hdet, hR, hD, htd, k3_linearIsometry]

/-- rotation by any angle, 2-D, in coordinates -/
theorem k3d2_rotation (D R td xd0 xd1 θ x y : ℝ) (h : K3d2.outcome ⟨D, R, td, xd0, xd1⟩ x y = .ok) :
    K3d2.burntime ⟨D, R, td, xd0 * Real.cos θ - xd1 * Real.sin θ, xd0 * Real.sin θ + xd1 * Real.cos θ⟩
        (x * Real.cos θ - y * Real.sin θ) (x * Real.sin θ + y * Real.cos θ)
      = K3d2.burntime ⟨D, R, td, xd0, xd1⟩ x y := by
  have := (k3d2_linearIsometry (rot2 θ) ⟨D, R, td, xd0, xd1⟩
    ⟨D, R, td, xd0 * Real.cos θ - xd1 * Real.sin θ, xd0 * Real.sin θ + xd1 * Real.cos θ⟩ rfl rfl rfl
    (by ext i; fin_cases i <;> simp [K3d2.det]) !₂[x, y] (by simpa using h)).2
  simpa using this

/-- reflection (x, y) ↦ (-x, y), 2-D, in coordinates -/
theorem k3d2_reflection (D R td xd0 xd1 x y : ℝ) (h : K3d2.outcome ⟨D, R, td, xd0, xd1⟩ x y = .ok) :
    K3d2.burntime ⟨D, R, td, -xd0, xd1⟩ (-x) y = K3d2.burntime ⟨D, R, td, xd0, xd1⟩ x y := by
  have := (k3d2_linearIsometry reflX2 ⟨D, R, td, xd0, xd1⟩ ⟨D, R, td, -xd0, xd1⟩ rfl rfl rfl
    (by ext i; fin_cases i <;> simp [K3d2.det]) !₂[x, y] (by simpa using h)).2
  simpa using this

/-- rotation about the z axis, 3-D, in coordinates -/
theorem k3d3_rotation_z (D R td xd0 xd1 xd2 θ x y z : ℝ) (h : K3d3.outcome ⟨D, R, td, xd0, xd1, xd2⟩ x y z = .ok) :
    K3d3.burntime ⟨D, R, td, xd0 * Real.cos θ - xd1 * Real.sin θ, xd0 * Real.sin θ + xd1 * Real.cos θ, xd2⟩
        (x * Real.cos θ - y * Real.sin θ) (x * Real.sin θ + y * Real.cos θ) z
      = K3d3.burntime ⟨D, R, td, xd0, xd1, xd2⟩ x y z := by
  have := (k3d3_linearIsometry (rotZ3 θ) ⟨D, R, td, xd0, xd1, xd2⟩
    ⟨D, R, td, xd0 * Real.cos θ - xd1 * Real.sin θ, xd0 * Real.sin θ + xd1 * Real.cos θ, xd2⟩ rfl rfl rfl
    (by ext i; fin_cases i <;> simp [K3d3.det]) !₂[x, y, z] (by simpa using h)).2
  simpa using this

/-! ### DSD cylindrical expansion -/

/-- the burn time depends on the point only through its distance from the axis; acceptance
does not depend on the point at all -/
theorem dsdcyl_norm_invariant (p : DSDCyl.P) (x y x' y' : ℝ) (h : x' * x' + y' * y' = x * x + y * y)
    (hok : DSDCyl.outcome p x y = .ok) :
    DSDCyl.outcome p x' y' = .ok ∧ DSDCyl.burntime p x' y' = DSDCyl.burntime p x y := by
  have hok' : DSDCyl.outcome p x' y' = .ok := by rw [dsdcyl_outcome] at hok ⊢; exact hok
  exact ⟨hok', by rw [dsdcyl_eq_spec p x y hok, dsdcyl_eq_spec p x' y' hok', h]⟩

theorem dsdcyl_linearIsometry (φ : E2 →ₗᵢ[ℝ] E2) (p : DSDCyl.P) (q : E2) (hok : DSDCyl.outcome p (q 0) (q 1) = .ok) :
    DSDCyl.burntime p (φ q 0) (φ q 1) = DSDCyl.burntime p (q 0) (q 1) := by
  refine (dsdcyl_norm_invariant p _ _ _ _ ?_ hok).2
  have h1 := sqrt_norm2 (φ q)
  have h2 := sqrt_norm2 q
  rw [φ.norm_map, ← h2] at h1
  have hn1 : 0 ≤ φ q 0 * φ q 0 + φ q 1 * φ q 1 := by nlinarith [mul_self_nonneg (φ q 0), mul_self_nonneg (φ q 1)]
  have hn2 : 0 ≤ q 0 * q 0 + q 1 * q 1 := by nlinarith [mul_self_nonneg (q 0), mul_self_nonneg (q 1)]
  exact (Real.sqrt_inj hn1 hn2).mp h1

/-- rotation by any angle about the axis of the cylinder, in coordinates -/
theorem dsdcyl_rotation (p : DSDCyl.P) (θ x y : ℝ) (hok : DSDCyl.outcome p x y = .ok) :
    DSDCyl.burntime p (x * Real.cos θ - y * Real.sin θ) (x * Real.sin θ + y * Real.cos θ) = DSDCyl.burntime p x y := by
  have := dsdcyl_linearIsometry (rot2 θ) p !₂[x, y] (by simpa using hok)
  simpa using this

theorem dsdcyl_reflection (p : DSDCyl.P) (x y : ℝ) (hok : DSDCyl.outcome p x y = .ok) :
    DSDCyl.burntime p (-x) y = DSDCyl.burntime p x y := by
  have := dsdcyl_linearIsometry reflX2 p !₂[x, y] (by simpa using hok)
  simpa using this

/-- non-vacuity: default parameters of the four classes satisfy the hypotheses used above -/
example : (0 : ℝ) < (⟨1, 0, 0, 0⟩ : K1d2.P).D := by norm_num

end EPV.C09
