/-
C09 (burn-time half, Kenamond 1; the statement for all four solvers is repeated in each BurnK*.lean / BurnDSD.lean) — "Burn-time fields are unchanged when detonators, material boundaries
and evaluation points are rotated about or reflected through the problem's symmetry axis,
and Kenamond 1 is invariant under any common translation."

All statements are about the TRACED models (through the bridge `EPV.Lemmas.BurnK1`, `BurnK2`, `BurnK3`, `BurnDSD`), with
points read as elements of `EuclideanSpace ℝ (Fin n)`:

* Kenamond 1: invariance under EVERY isometry φ of the plane / of space applied to the
  detonator and the evaluation point — rotations, reflections and translations
  (`k1dN_isometry`); in coordinates: translation by any vector, rotation by any angle
  (`k1d2_translation`, `k1d3_translation`, `k1d2_rotation`, `k1d3_rotation_z`).
* Kenamond 2: the detonators sit on the symmetry axis (y in 2-D, z in 3-D) and the sphere
  at the origin, so the field is invariant under every linear isometry that fixes the axis
  pointwise, with the SAME parameters (`k2dN_axis_isometry`): the reflection x ↦ -x in 2-D,
  every rotation about the z axis and every reflection through a plane containing it in 3-D
  (`k2d2_reflection`, `k2d3_rotation_z`, `k2d3_reflection`); flipping the axis maps the
  problem with axial positions a_i to the one with -a_i (`k2dN_axis_flip`).
* Kenamond 3: the obstacle is a sphere at the origin and the detonator is arbitrary, so
  the field is invariant under every linear isometry applied to detonator and point
  (`k3dN_linearIsometry`; `k3d2_rotation`, `k3d2_reflection`, `k3d3_rotation_z`).
* DSD cylinder: the field depends on the point only through ‖q‖: invariant under every
  linear isometry, indeed every norm-preserving map (`dsdcyl_norm_invariant`, `dsdcyl_linearIsometry`).

The explicit rotations / reflections are the linear isometries `rot2`, `reflX2`, `rotZ3`,
`reflX3` of `EPV.Lemmas.Burn`, with their coordinate formulas as simp lemmas.
-/
import EPV.Lemmas.BurnK1

set_option linter.all false

open EPV EPV.Gen EPV.Spec.Burn EPV.Burn

namespace EPV.C09

/-! ### Kenamond 1 -/

/-- Kenamond 1, 2-D: every isometry of the plane, applied to detonator and point -/
theorem k1d2_isometry (φ : E2 → E2) (hφ : Isometry φ) (p p' : K1d2.P) (hD : p'.D = p.D) (htd : p'.t_d = p.t_d)
    (hdet : K1d2.det p' = φ (K1d2.det p)) (hpos : 0 < p.D) (q : E2) :
    K1d2.burntime p' (φ q 0) (φ q 1) = K1d2.burntime p (q 0) (q 1) := by
  rw [k1d2_eq_cone p hpos, k1d2_eq_cone p' (hD ▸ hpos), hdet, hD, htd, cone_isometry hφ]

/-- Kenamond 1, 3-D: every isometry of space -/
theorem k1d3_isometry (φ : E3 → E3) (hφ : Isometry φ) (p p' : K1d3.P) (hD : p'.D = p.D) (htd : p'.t_d = p.t_d)
    (hdet : K1d3.det p' = φ (K1d3.det p)) (hpos : 0 < p.D) (q : E3) :
    K1d3.burntime p' (φ q 0) (φ q 1) (φ q 2) = K1d3.burntime p (q 0) (q 1) (q 2) := by
  rw [k1d3_eq_cone p hpos, k1d3_eq_cone p' (hD ▸ hpos), hdet, hD, htd, cone_isometry hφ]

/-- common translation, in coordinates -/
theorem k1d2_translation (D td xd0 xd1 a b x y : ℝ) (hD : 0 < D) :
    K1d2.burntime ⟨D, td, xd0 + a, xd1 + b⟩ (x + a) (y + b) = K1d2.burntime ⟨D, td, xd0, xd1⟩ x y := by
  have h := k1d2_isometry (fun q => q + !₂[a, b]) (isometry_add_right _) ⟨D, td, xd0, xd1⟩
    ⟨D, td, xd0 + a, xd1 + b⟩ rfl rfl (by ext i; fin_cases i <;> simp [K1d2.det]) hD !₂[x, y]
  simpa using h

theorem k1d3_translation (D td xd0 xd1 xd2 a b c x y z : ℝ) (hD : 0 < D) :
    K1d3.burntime ⟨D, td, xd0 + a, xd1 + b, xd2 + c⟩ (x + a) (y + b) (z + c)
      = K1d3.burntime ⟨D, td, xd0, xd1, xd2⟩ x y z := by
  have h := k1d3_isometry (fun q => q + !₂[a, b, c]) (isometry_add_right _) ⟨D, td, xd0, xd1, xd2⟩
    ⟨D, td, xd0 + a, xd1 + b, xd2 + c⟩ rfl rfl (by ext i; fin_cases i <;> simp [K1d3.det]) hD !₂[x, y, z]
  simpa using h

/-- rotation by any angle θ, in coordinates -/
theorem k1d2_rotation (D td xd0 xd1 θ x y : ℝ) (hD : 0 < D) :
    K1d2.burntime ⟨D, td, xd0 * Real.cos θ - xd1 * Real.sin θ, xd0 * Real.sin θ + xd1 * Real.cos θ⟩
        (x * Real.cos θ - y * Real.sin θ) (x * Real.sin θ + y * Real.cos θ)
      = K1d2.burntime ⟨D, td, xd0, xd1⟩ x y := by
  have h := k1d2_isometry (rot2 θ) (rot2 θ).isometry ⟨D, td, xd0, xd1⟩
    ⟨D, td, xd0 * Real.cos θ - xd1 * Real.sin θ, xd0 * Real.sin θ + xd1 * Real.cos θ⟩ rfl rfl
    (by ext i; fin_cases i <;> simp [K1d2.det]) hD !₂[x, y]
  simpa using h

/-- reflection (x, y) ↦ (-x, y), in coordinates -/
theorem k1d2_reflection (D td xd0 xd1 x y : ℝ) (hD : 0 < D) :
    K1d2.burntime ⟨D, td, -xd0, xd1⟩ (-x) y = K1d2.burntime ⟨D, td, xd0, xd1⟩ x y := by
  have h := k1d2_isometry reflX2 reflX2.isometry ⟨D, td, xd0, xd1⟩ ⟨D, td, -xd0, xd1⟩ rfl rfl
    (by ext i; fin_cases i <;> simp [K1d2.det]) hD !₂[x, y]
  simpa using h

/-- rotation about the z axis by any angle θ, in coordinates -/
theorem k1d3_rotation_z (D td xd0 xd1 xd2 θ x y z : ℝ) (hD : 0 < D) :
    K1d3.burntime ⟨D, td, xd0 * Real.cos θ - xd1 * Real.sin θ, xd0 * Real.sin θ + xd1 * Real.cos θ, xd2⟩
        (x * Real.cos θ - y * Real.sin θ) (x * Real.sin θ + y * Real.cos θ) z
      = K1d3.burntime ⟨D, td, xd0, xd1, xd2⟩ x y z := by
  have h := k1d3_isometry (rotZ3 θ) (rotZ3 θ).isometry ⟨D, td, xd0, xd1, xd2⟩
    ⟨D, td, xd0 * Real.cos θ - xd1 * Real.sin θ, xd0 * Real.sin θ + xd1 * Real.cos θ, xd2⟩ rfl rfl
    (by ext i; fin_cases i <;> simp [K1d3.det]) hD !₂[x, y, z]
  simpa using h

/-- non-vacuity: the default parameters satisfy the hypotheses used above -/
example : (0 : ℝ) < (⟨1, 0, 0, 0⟩ : K1d2.P).D := by norm_num

end EPV.C09
