/-
C09 (burn-time half, Kenamond 2; the statement for all four solvers is repeated in each BurnK*.lean / BurnDSD.lean) — "Burn-time fields are unchanged when detonators, material boundaries
and evaluation points are rotated about or reflected through the problem's symmetry axis,
and Kenamond 1 is invariant under any common translation."

All statements are about the TRACED models (through the bridge `EPV.Lemmas.BurnK1`, `BurnK2`, `BurnK3`, `BurnDSD`), with
points read as elements of `EuclideanSpace ℝ (Fin n)`:

* Kenamond 1: invariance under EVERY isometry φ of the plane / of space applied to the
  detonator and the evaluation point — rotations, reflections and translations
  (`k1dN_isometry`); in coordinates: translation by any vector, rotation by any angle
  (`k1d2_translation`, `k1d3_translation`, `k1d2_rotation`, `k1d3_rotation_z`).
* Kenamond 2: the detonators sit on the symmetry axis (y in 2-D, z in 3-D) and the sphere
  at the origin, so the field is invariant under every linear isometry that fixes the axis
  pointwise, with the SAME parameters (`k2dN_axis_isometry`): the reflection x ↦ -x in 2-D,
  every rotation about the z axis and every reflection through a plane containing it in 3-D
  (`k2d2_reflection`, `k2d3_rotation_z`, `k2d3_reflection`); flipping the axis maps the
  problem with axial positions a_i to the one with -a_i (`k2dN_axis_flip`).
* Kenamond 3: the obstacle is a sphere at the origin and the detonator is arbitrary, so
  the field is invariant under every linear isometry applied to detonator and point
  (`k3dN_linearIsometry`; `k3d2_rotation`, `k3d2_reflection`, `k3d3_rotation_z`).
* DSD cylinder: the field depends on the point only through ‖q‖: invariant under every
  linear isometry, indeed every norm-preserving map (`dsdcyl_norm_invariant`, `dsdcyl_linearIsometry`).

The explicit rotations / reflections are the linear isometries `rot2`, `reflX2`, `rotZ3`,
`reflX3` of `EPV.Lemmas.Burn`, with their coordinate formulas as simp lemmas.
-/
import EPV.Lemmas.BurnK2

set_option linter.all false

open EPV EPV.Gen EPV.Spec.Burn EPV.Burn

namespace EPV.C09

/-! ### Kenamond 2 -/

/-- Kenamond 2, 2-D: every linear isometry fixing the symmetry axis (the y axis) pointwise -/
theorem k2d2_axis_isometry (φ : E2 →ₗᵢ[ℝ] E2) (hφ : ∀ a, φ (axis2 a) = axis2 a) (p : K2d2.P) (h : K2d2.Adm p)
    (q : E2) : K2d2.burntime p (φ q 0) (φ q 1) = K2d2.burntime p (q 0) (q 1) := by
  rw [k2d2_eq_spec' p h, k2d2_eq_spec' p h]
  have := k2_linearIsometry φ p.R p.D1 p.D2 p.td1 p.td2 p.td3 p.td4 p.td5 (axis2 p.a1) (axis2 p.a2) (axis2 p.a4)
    (axis2 p.a5) q
  simp only [hφ] at this
  exact this

/-- Kenamond 2, 3-D: every linear isometry fixing the symmetry axis (the z axis) pointwise -/
theorem k2d3_axis_isometry (φ : E3 →ₗᵢ[ℝ] E3) (hφ : ∀ a, φ (axis3 a) = axis3 a) (p : K2d3.P) (h : K2d3.Adm p)
    (q : E3) : K2d3.burntime p (φ q 0) (φ q 1) (φ q 2) = K2d3.burntime p (q 0) (q 1) (q 2) := by
  rw [k2d3_eq_spec' p h, k2d3_eq_spec' p h]
  have := k2_linearIsometry φ p.R p.D1 p.D2 p.td1 p.td2 p.td3 p.td4 p.td5 (axis3 p.a1) (axis3 p.a2) (axis3 p.a4)
    (axis3 p.a5) q
  simp only [hφ] at this
  exact this

/-- reflection through the symmetry axis, 2-D, in coordinates -/
theorem k2d2_reflection (p : K2d2.P) (h : K2d2.Adm p) (x y : ℝ) : K2d2.burntime p (-x) y = K2d2.burntime p x y := by
  have := k2d2_axis_isometry reflX2 (fun a => by ext i; fin_cases i <;> simp [axis2]) p h !₂[x, y]
  simpa using this

/-- rotation about the symmetry axis by any angle, 3-D, in coordinates -/
theorem k2d3_rotation_z (p : K2d3.P) (h : K2d3.Adm p) (θ x y z : ℝ) :
    K2d3.burntime p (x * Real.cos θ - y * Real.sin θ) (x * Real.sin θ + y * Real.cos θ) z
      = K2d3.burntime p x y z := by
  have := k2d3_axis_isometry (rotZ3 θ) (fun a => by ext i; fin_cases i <;> simp [axis3]) p h !₂[x, y, z]
  simpa using this

/-- reflection through a plane containing the symmetry axis, 3-D, in coordinates -/
theorem k2d3_reflection (p : K2d3.P) (h : K2d3.Adm p) (x y z : ℝ) :
    K2d3.burntime p (-x) y z = K2d3.burntime p x y z := by
  have := k2d3_axis_isometry reflX3 (fun a => by ext i; fin_cases i <;> simp [axis3]) p h !₂[x, y, z]
  simpa using this

/-- point reflection through the origin composed with `reflX2`: (x, y) ↦ (x, -y), the flip of the axis -/
noncomputable def flipY2 : E2 →ₗᵢ[ℝ] E2 := (LinearIsometryEquiv.neg ℝ).toLinearIsometry.comp reflX2
noncomputable def flipZ3 : E3 →ₗᵢ[ℝ] E3 :=
  ((LinearIsometryEquiv.neg ℝ).toLinearIsometry.comp reflX3).comp (rotZ3 Real.pi)

@[simp] theorem flipY2_0 (q : E2) : (flipY2 q) 0 = q 0 := by simp [flipY2]
@[simp] theorem flipY2_1 (q : E2) : (flipY2 q) 1 = -(q 1) := by simp [flipY2]
@[simp] theorem flipZ3_0 (q : E3) : (flipZ3 q) 0 = -(q 0) := by simp [flipZ3]
@[simp] theorem flipZ3_1 (q : E3) : (flipZ3 q) 1 = q 1 := by simp [flipZ3]
@[simp] theorem flipZ3_2 (q : E3) : (flipZ3 q) 2 = -(q 2) := by simp [flipZ3]

/-- the problem with the axial detonator positions negated -/
def K2d2.flip (p : K2d2.P) : K2d2.P := { p with a1 := -p.a1, a2 := -p.a2, a4 := -p.a4, a5 := -p.a5 }
def K2d3.flip (p : K2d3.P) : K2d3.P := { p with a1 := -p.a1, a2 := -p.a2, a4 := -p.a4, a5 := -p.a5 }

theorem K2d2.flip_adm (p : K2d2.P) (h : K2d2.Adm p) : K2d2.Adm (K2d2.flip p) := by
  obtain ⟨h0, h2, h3, o1, o2, o4, o5, t1, t2, t4, t5⟩ := h
  rw [norm_axis2] at o1 o2 o4 o5 t1 t2 t4 t5
  refine ⟨h0, h2, h3, ?_, ?_, ?_, ?_, ?_, ?_, ?_, ?_⟩ <;> simp only [K2d2.flip, norm_axis2, abs_neg] <;> assumption

theorem K2d3.flip_adm (p : K2d3.P) (h : K2d3.Adm p) : K2d3.Adm (K2d3.flip p) := by
  obtain ⟨h0, h2, h3, o1, o2, o4, o5, t1, t2, t4, t5⟩ := h
  rw [norm_axis3] at o1 o2 o4 o5 t1 t2 t4 t5
  refine ⟨h0, h2, h3, ?_, ?_, ?_, ?_, ?_, ?_, ?_, ?_⟩ <;> simp only [K2d3.flip, norm_axis3, abs_neg] <;> assumption

/-- reflecting detonators and point through the plane/line perpendicular to the axis: the problem
with axial positions -a_i at the mirrored point has the same burn time -/
theorem k2d2_axis_flip (p : K2d2.P) (h : K2d2.Adm p) (x y : ℝ) :
    K2d2.burntime (K2d2.flip p) x (-y) = K2d2.burntime p x y := by
  have e1 : K2d2.burntime p x y = K2d2.spec p !₂[x, y] := by simpa using k2d2_eq_spec' p h !₂[x, y]
  have e2 : K2d2.burntime (K2d2.flip p) x (-y) = K2d2.spec (K2d2.flip p) (flipY2 !₂[x, y]) := by
    simpa using k2d2_eq_spec' (K2d2.flip p) (K2d2.flip_adm p h) (flipY2 !₂[x, y])
  rw [e1, e2]
  have hax : ∀ a, axis2 (-a) = flipY2 (axis2 a) := fun a => by ext i; fin_cases i <;> simp [axis2]
  unfold K2d2.spec
  simp only [K2d2.flip, hax]
  exact k2_linearIsometry flipY2 _ _ _ _ _ _ _ _ _ _ _ _ _

theorem k2d3_axis_flip (p : K2d3.P) (h : K2d3.Adm p) (x y z : ℝ) :
    K2d3.burntime (K2d3.flip p) (-x) y (-z) = K2d3.burntime p x y z := by
  have e1 : K2d3.burntime p x y z = K2d3.spec p !₂[x, y, z] := by simpa using k2d3_eq_spec' p h !₂[x, y, z]
  have e2 : K2d3.burntime (K2d3.flip p) (-x) y (-z) = K2d3.spec (K2d3.flip p) (flipZ3 !₂[x, y, z]) := by
    simpa using k2d3_eq_spec' (K2d3.flip p) (K2d3.flip_adm p h) (flipZ3 !₂[x, y, z])
  rw [e1, e2]
  have hax : ∀ a, axis3 (-a) = flipZ3 (axis3 a) := fun a => by ext i; fin_cases i <;> simp [axis3]
  unfold K2d3.spec
  simp only [K2d3.flip, hax]
  exact k2_linearIsometry flipZ3 _ _ _ _ _ _ _ _ _ _ _ _ _

/-- non-vacuity: the default parameters satisfy the hypotheses used above -/
example : K2d2.Adm ⟨2, 1, 3, 10, 5, -5, -10, 2, 1, 0, 1, 2⟩ := by
  refine ⟨by norm_num, by norm_num, by norm_num, ?_, ?_, ?_, ?_, ?_, ?_, ?_, ?_⟩ <;>
    simp only [norm_axis2] <;> norm_num [abs_of_pos, abs_of_neg]
example : K2d3.Adm ⟨2, 1, 3, 10, 5, -5, -10, 2, 1, 0, 1, 2⟩ := by
  refine ⟨by norm_num, by norm_num, by norm_num, ?_, ?_, ?_, ?_, ?_, ?_, ?_, ?_⟩ <;>
    simp only [norm_axis3] <;> norm_num [abs_of_pos, abs_of_neg]

end EPV.C09
