/-
C09 (P) — Galilean and mirror symmetry of the GENERAL-EOS Riemann driver's sign logic and assembly
(hand model `EPV.Model.RiemannGen` over ℝ, tied to `RiemannGenEOS.driver` / `GenEOS_Solver` by
`harness/o_geneos.py:tie_geneos`), ideal-gas and JWL closures.

The general driver decides the orientation of a wave by comparing a state with the STORED LEFT STATE
(`sgn = -1 if (p == inst.pl) and (r == inst.rl) and (u == inst.ul) else 1` in `shock_speed`, `star_velocity`,
`match_shocks`) and takes the wave sign of the isentrope integration from the call site (`[gl, -1]`, `[gr, 1]`).

BOOST (add `v` to both velocities; atoms transported: star velocities and the velocity column of both fan
tables shifted by `v` — `boostAtoms`; exact atoms transform this way, `starVelocity_boost`, `isentrope_boost`):
  * `shockSpeed_boost`, `starVelocity_boost` — the side detection gives the same answer in the boosted frame,
    `shock_speed` and `star_velocity` shift by `v`;
  * `side_boost`, `vregs_boost` — same pattern, every entry of `Vregs` shifted by `v`;
  * `solveAtNode_boost_partial` — WHOLE assembled solution: at the translated node `x + v t`, on the translated
    grid, the `reg_state_geos` sequence returns the same call index and the original state with `u + v`.
MIRROR (exchange the states, negate the velocities; atoms transported — `mirrorAtoms`):
  * `shockSpeed_mirror_left/right`, `starVelocity_mirror_left/right` — the left state of the mirrored problem is
    detected as "left" and its right state (the old left state) as "not left", PROVIDED L ≠ R: speeds and star
    velocities are the negatives;
  * `side_mirror`, `vregs_mirror_partial` — mirror-image pattern, `Vregs` reversed and negated;
  * `gen_mirror_*_partial` — WHOLE assembled solution, pattern by pattern (RCS ↔ SCR, SCS, RCR): at the reflected
    node `2 xd0 - x`, on the reflected grid, the mirrored problem returns the mirror image of the state at `x`,
    in every constant region; in a fan at the rows of the fan table.

PARTIAL: L ≠ R (`Distinct`): with identical states the `==` detection labels the right state "left" — the known
identical-states finding.  The real grid is neither translated nor reflected with the problem (window
`min(xmin, 1.1 min Xregs)`, node at 0): the statements are for the transported look-up functions `prev`, `next`;
the fan interior between rows and the smeared cells are outside (oracles `o_geneos.boost`, `o_geneos.mirror` on
the real solver, tolerance of the table resolution).
-/
import EPV.Lemmas.RiemannGenExact
import EPV.Props.C09.Riemann
import EPV.Props.C02.RiemannGen

set_option linter.all false

open EPV EPV.Gen EPV.Model EPV.Riem EPV.RiemGen

namespace EPV.C09.RiemannGen

open RiemannGen (Eos Jwl Atoms P3 Region)
open EPV.C09.Riemann (boostState mirrorState)
open EPV.C02.RiemannGen (gen_shock_orientation)

/-! ### boost -/

/-- a table row seen from the boosted frame -/
def boostRow (v : ℝ) (r : P3 ℝ) : P3 ℝ := { r with u := r.u + v }

/-- the atoms of the boosted problem: pressures and densities unchanged, velocities shifted -/
def boostAtoms (v : ℝ) (a : Atoms ℝ) : Atoms ℝ :=
  { a with ux1 := a.ux1 + v, ux2 := a.ux2 + v, tabL := a.tabL.map (boostRow v), tabR := a.tabR.map (boostRow v) }

theorem isLeft_boost (q : Prob) (v p r u : ℝ) :
    RiemannGen.isLeft (toData (q.boost v)) p r (u + v) = RiemannGen.isLeft (toData q) p r u := by
  simp [RiemannGen.isLeft, toData, Prob.boost]

/-- `shock_speed` (scalar call, side detection active) in the boosted frame -/
theorem shockSpeed_boost (q : Prob) (v pa ra pb rb u : ℝ) :
    RiemannGen.shockSpeed (toData (q.boost v)) pa ra pb rb (u + v) = RiemannGen.shockSpeed (toData q) pa ra pb rb u + v := by
  simp only [RiemannGen.shockSpeed, isLeft_boost]; ring

/-- `star_velocity` in the boosted frame: the boosted atoms of a shock side are again exact -/
theorem starVelocity_boost (q : Prob) (v p0 r0 u0 p r : ℝ) :
    RiemannGen.starVelocity (toData (q.boost v)) p0 r0 (u0 + v) p r = RiemannGen.starVelocity (toData q) p0 r0 u0 p r + v := by
  simp only [RiemannGen.starVelocity, isLeft_boost]; ring

theorem hugoniotAtom_boost {e : Eos ℝ} {q : Prob} {p0 r0 u0 g px rx ux : ℝ} (v : ℝ)
    (h : HugoniotAtom e (toData q) p0 r0 u0 g px rx ux) :
    HugoniotAtom e (toData (q.boost v)) p0 r0 (u0 + v) g px rx (ux + v) :=
  ⟨h.r0_pos, h.rx_pos, h.ne, h.slope, h.root, by rw [starVelocity_boost, h.vel]⟩

/-- the ODE system does not involve the velocity: a shifted solution is a solution -/
theorem isentrope_boost {e : Eos ℝ} {g ws p0 r0 u0 lo : ℝ} {R U : ℝ → ℝ} (v : ℝ)
    (h : IsentropeSolution e g ws p0 r0 u0 lo R U) :
    IsentropeSolution e g ws p0 r0 (u0 + v) lo R (fun p => U p + v) :=
  ⟨h.hR, fun p hp => (h.hU p hp).add_const v, h.pos, h.R0, by simp only [h.U0]⟩

theorem fanAtom_boost {e : Eos ℝ} {g ws p0 r0 u0 px rx ux : ℝ} {tab : List (P3 ℝ)} (v : ℝ)
    (h : FanAtom e g ws p0 r0 u0 px rx ux tab) :
    FanAtom e g ws p0 r0 (u0 + v) px rx (ux + v) (tab.map (boostRow v)) := by
  obtain ⟨hlo, hle, R, U, hsol, hR, hU, htab⟩ := h
  refine ⟨hlo, hle, R, fun p => U p + v, isentrope_boost v hsol, hR, by simp only [hU], ?_⟩
  intro r hr
  simp only [List.mem_map] at hr
  obtain ⟨r', hr', rfl⟩ := hr
  obtain ⟨h1, h2, h3⟩ := htab r' hr'
  exact ⟨h1, h2, by simp only [boostRow, h3]⟩

section boost
variable (e : Eos ℝ) (q : Prob) (a : Atoms ℝ) (v : ℝ)

theorem side_boost :
    RiemannGen.sideL (toData (q.boost v)) (boostAtoms v a) = RiemannGen.sideL (toData q) a ∧
    RiemannGen.sideR (toData (q.boost v)) (boostAtoms v a) = RiemannGen.sideR (toData q) a := ⟨rfl, rfl⟩

theorem vHeadL_boost : RiemannGen.vHeadL e (toData (q.boost v)) = RiemannGen.vHeadL e (toData q) + v := by
  simp only [RiemannGen.vHeadL, toData, Prob.boost]; ring
theorem vHeadR_boost : RiemannGen.vHeadR e (toData (q.boost v)) = RiemannGen.vHeadR e (toData q) + v := by
  simp only [RiemannGen.vHeadR, toData, Prob.boost]; ring
theorem vTailL_boost :
    RiemannGen.vTailL e (toData (q.boost v)) (boostAtoms v a) = RiemannGen.vTailL e (toData q) a + v := by
  simp only [RiemannGen.vTailL, toData, Prob.boost, boostAtoms]; ring
theorem vTailR_boost :
    RiemannGen.vTailR e (toData (q.boost v)) (boostAtoms v a) = RiemannGen.vTailR e (toData q) a + v := by
  simp only [RiemannGen.vTailR, toData, Prob.boost, boostAtoms]; ring
theorem vShockL_boost :
    RiemannGen.vShockL (toData (q.boost v)) (boostAtoms v a) = RiemannGen.vShockL (toData q) a + v := by
  have := shockSpeed_boost q v a.px a.rx1 q.pl q.rl q.ul
  simpa [RiemannGen.vShockL, toData, Prob.boost, boostAtoms] using this
theorem vShockR_boost :
    RiemannGen.vShockR (toData (q.boost v)) (boostAtoms v a) = RiemannGen.vShockR (toData q) a + v := by
  have := shockSpeed_boost q v a.px a.rx2 q.pr q.rr q.ur
  simpa [RiemannGen.vShockR, toData, Prob.boost, boostAtoms] using this

/-- **`Vregs` of the boosted problem: every speed shifted by `v`** (same pattern) -/
theorem vregs_boost :
    RiemannGen.vregs e (toData (q.boost v)) (boostAtoms v a) = (RiemannGen.vregs e (toData q) a).map (· + v) := by
  simp only [RiemannGen.vregs, (side_boost q a v).1, (side_boost q a v).2, vHeadL_boost, vHeadR_boost, vTailL_boost,
    vTailR_boost, vShockL_boost, vShockR_boost]
  cases RiemannGen.sideL (toData q) a <;> cases RiemannGen.sideR (toData q) a <;> simp [boostAtoms]

theorem xpos_boost (xd0 t w : ℝ) : RiemannGen.xpos xd0 t (w + v) = RiemannGen.xpos xd0 t w + v * t := by
  simp only [RiemannGen.xpos]; ring

theorem st_boost (g p r u : ℝ) : RiemannGen.st e g p r (u + v) = boostState v (RiemannGen.st e g p r u) := rfl

theorem lerpS_boost (c x a' b : ℝ) (s s' : St) :
    RiemannGen.lerpS (x + c) (a' + c) (b + c) (boostState v s) (boostState v s') = boostState v (RiemannGen.lerpS x a' b s s') := by
  simp only [RiemannGen.lerpS, boostState, lerp_shift, RiemannIG.State.mk.injEq, true_and, and_true]
  simp only [RiemannGen.lerp]; ring

theorem fanTab_boost (g sgn xd0 t : ℝ) (tab : List (P3 ℝ)) :
    RiemannGen.fanTab e g sgn xd0 t (tab.map (boostRow v))
      = (RiemannGen.fanTab e g sgn xd0 t tab).map fun r => (r.1 + v * t, boostState v r.2) := by
  simp only [RiemannGen.fanTab, List.map_map]
  apply List.map_congr_left
  intro r _
  simp only [Function.comp, boostRow, st_boost, Prod.mk.injEq, and_true]
  ring

/-- the calls of the boosted problem are the transported calls, when the grid look-ups are transported too -/
theorem regions_boost (prev next prev' next' : ℝ → ℝ) (xd0 t xmaxW : ℝ)
    (hprev : ∀ X, prev' (X + v * t) = prev X + v * t) (hnext : ∀ X, next' (X + v * t) = next X + v * t) :
    RiemannGen.regions e (toData (q.boost v)) (boostAtoms v a) prev' next' xd0 t (xmaxW + v * t)
      = (RiemannGen.regions e (toData q) a prev next xd0 t xmaxW).map (Region.tr (v * t) (boostState v)) := by
  have hL : RiemannGen.leftState e (toData (q.boost v)) = boostState v (RiemannGen.leftState e (toData q)) := rfl
  have hR : RiemannGen.rightState e (toData (q.boost v)) = boostState v (RiemannGen.rightState e (toData q)) := rfl
  have hsL : RiemannGen.starL e (toData (q.boost v)) (boostAtoms v a) = boostState v (RiemannGen.starL e (toData q) a) := rfl
  have hsR : RiemannGen.starR e (toData (q.boost v)) (boostAtoms v a) = boostState v (RiemannGen.starR e (toData q) a) := rfl
  have hc : (boostAtoms v a).ux1 = a.ux1 + v := rfl
  have hgl : (toData (q.boost v)).gl = (toData q).gl := rfl
  have hgr : (toData (q.boost v)).gr = (toData q).gr := rfl
  have htl : (boostAtoms v a).tabL = a.tabL.map (boostRow v) := rfl
  have htr : (boostAtoms v a).tabR = a.tabR.map (boostRow v) := rfl
  simp only [RiemannGen.regions, (side_boost q a v).1, (side_boost q a v).2, hL, hR, hsL, hsR, hc, hgl, hgr, htl, htr,
    vHeadL_boost, vHeadR_boost, vTailL_boost, vTailR_boost, vShockL_boost, vShockR_boost, xpos_boost, hprev, hnext,
    fanTab_boost]
  cases RiemannGen.sideL (toData q) a <;> cases RiemannGen.sideR (toData q) a <;>
    simp [Region.tr]

/-- **C09 (P), boost, whole assembled solution.**  The boosted problem, evaluated at the translated node on the
translated grid, returns the original state with the velocity shifted by `v`, from the same `reg_state_geos`
call. -/
theorem solveAtNode_boost_partial (prev next prev' next' : ℝ → ℝ) (xd0 t xmaxW x : ℝ)
    (hprev : ∀ X, prev' (X + v * t) = prev X + v * t) (hnext : ∀ X, next' (X + v * t) = next X + v * t) :
    RiemannGen.solveAtNode e (toData (q.boost v)) (boostAtoms v a) prev' next' xd0 t (xmaxW + v * t) (x + v * t)
      = ((RiemannGen.solveAtNode e (toData q) a prev next xd0 t xmaxW x).1,
         boostState v (RiemannGen.solveAtNode e (toData q) a prev next xd0 t xmaxW x).2) := by
  rw [RiemannGen.solveAtNode, regions_boost e q a v prev next prev' next' xd0 t xmaxW hprev hnext]
  exact fold_tr (v * t) (boostState v) (fun x a' b s s' => lerpS_boost v (v * t) x a' b s s') x _ 0
    (0, RiemannGen.leftState e (toData q))

/-- non-vacuity: transported look-ups exist -/
example (prev : ℝ → ℝ) (t : ℝ) : ∃ prev' : ℝ → ℝ, ∀ X, prev' (X + v * t) = prev X + v * t :=
  ⟨fun Y => prev (Y - v * t) + v * t, fun X => by simp⟩

end boost

/-! ### mirror -/

/-- a table row of the mirrored problem -/
def mirrorRow (r : P3 ℝ) : P3 ℝ := { r with u := -r.u }

/-- the atoms of the mirrored problem: the two sides exchanged, velocities negated, tables reversed -/
def mirrorAtoms (a : Atoms ℝ) : Atoms ℝ :=
  { px := a.px, rx1 := a.rx2, ux1 := -a.ux2, rx2 := a.rx1, ux2 := -a.ux1,
    tabL := a.tabR.reverse.map mirrorRow, tabR := a.tabL.reverse.map mirrorRow }

theorem mirrorState_mirrorState (s : St) : mirrorState (mirrorState s) = s := by
  cases s; simp [mirrorState]

/-- mirroring is an involution on problems and on atoms (so every statement below also reads right-to-left) -/
theorem mirror_mirror (q : Prob) : q.mirror.mirror = q := by
  cases q; simp [Prob.mirror]
theorem mirrorAtoms_mirrorAtoms (a : Atoms ℝ) : mirrorAtoms (mirrorAtoms a) = a := by
  have hrow : ∀ l : List (P3 ℝ), List.map mirrorRow (List.map mirrorRow l.reverse).reverse = l := by
    intro l
    rw [← List.map_reverse, List.reverse_reverse, List.map_map]
    apply List.map_id''
    intro r; cases r; simp [mirrorRow]
  cases a
  simp only [mirrorAtoms, neg_neg, hrow]

/-- the left state of the mirrored problem is detected as "left" … -/
theorem isLeft_mirror_left (q : Prob) : RiemannGen.isLeft (toData q.mirror) q.pr q.rr (-q.ur) = true := by
  simp [RiemannGen.isLeft, toData, Prob.mirror]
/-- … its right state (the old left state) is not, provided L ≠ R -/
theorem isLeft_mirror_right (q : Prob) (hd : q.Distinct) : RiemannGen.isLeft (toData q.mirror) q.pl q.rl (-q.ul) = false := by
  unfold Prob.Distinct at hd
  simp only [RiemannGen.isLeft, toData, Prob.mirror, num_beq]
  by_cases h0 : q.pl = q.pr <;> by_cases h1 : q.rl = q.rr <;> by_cases h2 : q.ul = q.ur
  · exact absurd ⟨h0.symm, h2.symm, h1.symm⟩ hd
  all_goals simp [h0, h1, h2]
/-- `shock_speed` for the mirrored problem's left wave = − the original right wave's -/
theorem shockSpeed_mirror_left (q : Prob) (hd : q.Distinct) (pa ra : ℝ) :
    RiemannGen.shockSpeed (toData q.mirror) pa ra q.pr q.rr (-q.ur) = -RiemannGen.shockSpeed (toData q) pa ra q.pr q.rr q.ur := by
  simp only [RiemannGen.shockSpeed, isLeft_mirror_left, isLeft_right q hd, num_ofNat, num_sqrt]
  norm_num; ring
/-- … and for its right wave = − the original left wave's -/
theorem shockSpeed_mirror_right (q : Prob) (hd : q.Distinct) (pa ra : ℝ) :
    RiemannGen.shockSpeed (toData q.mirror) pa ra q.pl q.rl (-q.ul) = -RiemannGen.shockSpeed (toData q) pa ra q.pl q.rl q.ul := by
  simp only [RiemannGen.shockSpeed, isLeft_mirror_right q hd, isLeft_left, num_ofNat, num_sqrt]
  norm_num; ring

/-- `star_velocity` likewise: the mirrored atoms of a shock side are exact -/
theorem starVelocity_mirror_left (q : Prob) (hd : q.Distinct) (p r : ℝ) :
    RiemannGen.starVelocity (toData q.mirror) q.pr q.rr (-q.ur) p r = -RiemannGen.starVelocity (toData q) q.pr q.rr q.ur p r := by
  simp only [RiemannGen.starVelocity, isLeft_mirror_left, isLeft_right q hd, num_ofNat, num_sqrt]
  norm_num; ring
theorem starVelocity_mirror_right (q : Prob) (hd : q.Distinct) (p r : ℝ) :
    RiemannGen.starVelocity (toData q.mirror) q.pl q.rl (-q.ul) p r = -RiemannGen.starVelocity (toData q) q.pl q.rl q.ul p r := by
  simp only [RiemannGen.starVelocity, isLeft_mirror_right q hd, isLeft_left, num_ofNat, num_sqrt]
  norm_num; ring

theorem hugoniotAtom_mirror_left {e : Eos ℝ} {q : Prob} (hd : q.Distinct) {px rx ux : ℝ}
    (h : HugoniotAtom e (toData q) q.pr q.rr q.ur q.gr px rx ux) :
    HugoniotAtom e (toData q.mirror) q.pr q.rr (-q.ur) q.gr px rx (-ux) :=
  ⟨h.r0_pos, h.rx_pos, h.ne, h.slope, h.root, by rw [starVelocity_mirror_left q hd, h.vel]⟩
theorem hugoniotAtom_mirror_right {e : Eos ℝ} {q : Prob} (hd : q.Distinct) {px rx ux : ℝ}
    (h : HugoniotAtom e (toData q) q.pl q.rl q.ul q.gl px rx ux) :
    HugoniotAtom e (toData q.mirror) q.pl q.rl (-q.ul) q.gl px rx (-ux) :=
  ⟨h.r0_pos, h.rx_pos, h.ne, h.slope, h.root, by rw [starVelocity_mirror_right q hd, h.vel]⟩

/-- the ODE system with the wave sign reversed: the negated velocity solves it -/
theorem isentrope_mirror {e : Eos ℝ} {g ws p0 r0 u0 lo : ℝ} {R U : ℝ → ℝ}
    (h : IsentropeSolution e g ws p0 r0 u0 lo R U) :
    IsentropeSolution e g (-ws) p0 r0 (-u0) lo R (fun p => -U p) := by
  refine ⟨fun p hp => ?_, fun p hp => ?_, h.pos, h.R0, by simp only [h.U0]⟩
  · have := h.hR p hp
    rw [odeR_eq] at this ⊢
    exact this
  · have := (h.hU p hp).neg
    rw [odeU_eq] at this ⊢
    refine this.congr_deriv ?_
    ring

section mirror
variable (e : Eos ℝ) (q : Prob) (hd : q.Distinct) (a : Atoms ℝ) (hc : Crossing a)

theorem side_mirror :
    RiemannGen.sideL (toData q.mirror) (mirrorAtoms a) = RiemannGen.sideR (toData q) a ∧
    RiemannGen.sideR (toData q.mirror) (mirrorAtoms a) = RiemannGen.sideL (toData q) a := ⟨rfl, rfl⟩

theorem vHeadL_mirror : RiemannGen.vHeadL e (toData q.mirror) = -RiemannGen.vHeadR e (toData q) := by
  simp only [RiemannGen.vHeadL, RiemannGen.vHeadR, toData, Prob.mirror]; ring
theorem vHeadR_mirror : RiemannGen.vHeadR e (toData q.mirror) = -RiemannGen.vHeadL e (toData q) := by
  simp only [RiemannGen.vHeadL, RiemannGen.vHeadR, toData, Prob.mirror]; ring
theorem vTailL_mirror : RiemannGen.vTailL e (toData q.mirror) (mirrorAtoms a) = -RiemannGen.vTailR e (toData q) a := by
  simp only [RiemannGen.vTailL, RiemannGen.vTailR, toData, Prob.mirror, mirrorAtoms]; ring
theorem vTailR_mirror : RiemannGen.vTailR e (toData q.mirror) (mirrorAtoms a) = -RiemannGen.vTailL e (toData q) a := by
  simp only [RiemannGen.vTailL, RiemannGen.vTailR, toData, Prob.mirror, mirrorAtoms]; ring
include hd in
theorem vShockL_mirror : RiemannGen.vShockL (toData q.mirror) (mirrorAtoms a) = -RiemannGen.vShockR (toData q) a :=
  shockSpeed_mirror_left q hd a.px a.rx2
include hd in
theorem vShockR_mirror : RiemannGen.vShockR (toData q.mirror) (mirrorAtoms a) = -RiemannGen.vShockL (toData q) a :=
  shockSpeed_mirror_right q hd a.px a.rx1

include hd hc in
/-- **`Vregs` of the mirrored problem: reversed and negated** (mirror-image pattern) -/
theorem vregs_mirror_partial :
    RiemannGen.vregs e (toData q.mirror) (mirrorAtoms a) = ((RiemannGen.vregs e (toData q) a).map Neg.neg).reverse := by
  have hu : (mirrorAtoms a).ux1 = -a.ux1 := by
    have : a.ux1 = a.ux2 := hc
    simp only [mirrorAtoms, this]
  simp only [RiemannGen.vregs, (side_mirror q a).1, (side_mirror q a).2, vHeadL_mirror, vHeadR_mirror, vTailL_mirror,
    vTailR_mirror, vShockL_mirror q hd, vShockR_mirror q hd, hu]
  cases RiemannGen.sideL (toData q) a <;> cases RiemannGen.sideR (toData q) a <;> simp

end mirror

/-! ### mirror: the whole assembled solution -/

theorem xpos_neg (xd0 t w : ℝ) : RiemannGen.xpos xd0 t (-w) = 2 * xd0 - RiemannGen.xpos xd0 t w := by
  simp only [RiemannGen.xpos]; ring

/-- reflecting a strictly increasing table gives a strictly increasing table -/
theorem sorted_reflect {β : Type} (c : ℝ) (F : β → β) {tab : List (ℝ × β)} (h : Sorted tab) :
    Sorted (tab.reverse.map fun r => (c - r.1, F r.2)) := by
  unfold Sorted at *
  rw [List.pairwise_map, List.pairwise_reverse]
  exact h.imp (fun {a b} hab => by simp only; linarith)

/-- the right fan table of the mirrored problem is the reflected left fan table of the original … -/
theorem fanTab_mirror_LR (e : Eos ℝ) (g xd0 t : ℝ) (tab : List (P3 ℝ)) :
    RiemannGen.fanTab e g (RiemannIG.Num.ofNat 1) xd0 t (tab.reverse.map mirrorRow)
      = (RiemannGen.fanTab e g (-RiemannIG.Num.ofNat 1) xd0 t tab).reverse.map fun r => (2 * xd0 - r.1, mirrorState r.2) := by
  simp only [RiemannGen.fanTab, ← List.map_reverse, List.map_map]
  apply List.map_congr_left
  intro r _
  simp only [Function.comp, mirrorRow, num_ofNat, Nat.cast_one, Prod.mk.injEq]
  exact ⟨by ring, rfl⟩
/-- … and vice versa -/
theorem fanTab_mirror_RL (e : Eos ℝ) (g xd0 t : ℝ) (tab : List (P3 ℝ)) :
    RiemannGen.fanTab e g (-RiemannIG.Num.ofNat 1) xd0 t (tab.reverse.map mirrorRow)
      = (RiemannGen.fanTab e g (RiemannIG.Num.ofNat 1) xd0 t tab).reverse.map fun r => (2 * xd0 - r.1, mirrorState r.2) := by
  simp only [RiemannGen.fanTab, ← List.map_reverse, List.map_map]
  apply List.map_congr_left
  intro r _
  simp only [Function.comp, mirrorRow, num_ofNat, Nat.cast_one, Prod.mk.injEq]
  exact ⟨by ring, rfl⟩

theorem mem_reflect {β : Type} (c : ℝ) (F : β → β) {tab : List (ℝ × β)} {x : ℝ} {f : β} (h : (x, f) ∈ tab) :
    (c - x, F f) ∈ tab.reverse.map fun r => (c - r.1, F r.2) := by
  simp only [List.mem_map, List.mem_reverse]
  exact ⟨(x, f), h, rfl⟩

section mirrorSolution
variable (e : Eos ℝ) (q : Prob) (hd : q.Distinct) (a : Atoms ℝ) (hc : Crossing a)
  (prev next prev' next' : ℝ → ℝ) (xd0 t xmaxW xmaxW' : ℝ)

local notation "node" => RiemannGen.solveAtNode e (toData q) a prev next xd0 t xmaxW
local notation "node'" => RiemannGen.solveAtNode e (toData q.mirror) (mirrorAtoms a) prev' next' xd0 t xmaxW'
local notation "X" => RiemannGen.xpos xd0 t

include hc in
theorem contact_mirror : X (mirrorAtoms a).ux1 = 2 * xd0 - X a.ux1 := by
  have : a.ux1 = a.ux2 := hc
  simp only [mirrorAtoms, xpos_neg, this]

include hd hc in
/-- **C09 (P), mirror, rarefaction–contact–shock ↦ shock–contact–rarefaction.**  `g`, `g'` : the two grids are
fine enough for the two problems; the extra conditions in the fan and in the right star region say that the
reflected node is a node of the mirrored grid outside its smeared cells. -/
theorem gen_mirror_rcs_partial (hL : a.px < q.pl) (hR : q.pr < a.px) (g : GridRCS e (toData q) a prev xd0 t)
    (g' : GridSCR e (toData q.mirror) (mirrorAtoms a) prev' next' xd0 t)
    (hs : Sorted (RiemannGen.fanTab e q.gl (-RiemannIG.Num.ofNat 1) xd0 t a.tabL)) :
    (∀ x, x ≤ X (RiemannGen.vHeadL e (toData q)) → (node' (2 * xd0 - x)).2 = mirrorState (node x).2) ∧
    (∀ r ∈ a.tabL, X (RiemannGen.vHeadL e (toData q)) < rowL e q.gl xd0 t r →
        rowL e q.gl xd0 t r < X (RiemannGen.vTailL e (toData q) a) →
        2 * xd0 - rowL e q.gl xd0 t r ≤ prev' (X (RiemannGen.vHeadR e (toData q.mirror))) →
        (node' (2 * xd0 - rowL e q.gl xd0 t r)).2 = mirrorState (node (rowL e q.gl xd0 t r)).2) ∧
    (∀ x, X (RiemannGen.vTailL e (toData q) a) < x → x ≤ prev (X a.ux1) →
        (node' (2 * xd0 - x)).2 = mirrorState (node x).2) ∧
    (∀ x, X a.ux1 < x → x ≤ prev (X (RiemannGen.vShockR (toData q) a)) →
        next' (X (RiemannGen.vShockL (toData q.mirror) (mirrorAtoms a))) ≤ 2 * xd0 - x →
        (node' (2 * xd0 - x)).2 = mirrorState (node x).2) ∧
    (∀ x, X (RiemannGen.vShockR (toData q) a) ≤ x → (node' (2 * xd0 - x)).2 = mirrorState (node x).2) := by
  have hL' : (toData q.mirror).pl < (mirrorAtoms a).px := hR
  have hR' : (mirrorAtoms a).px < (toData q.mirror).pr := hL
  have eHR : X (RiemannGen.vHeadR e (toData q.mirror)) = 2 * xd0 - X (RiemannGen.vHeadL e (toData q)) := by
    rw [vHeadR_mirror, xpos_neg]
  have eTR : X (RiemannGen.vTailR e (toData q.mirror) (mirrorAtoms a)) = 2 * xd0 - X (RiemannGen.vTailL e (toData q) a) := by
    rw [vTailR_mirror, xpos_neg]
  have eC := contact_mirror a hc xd0 t
  have eSL : X (RiemannGen.vShockL (toData q.mirror) (mirrorAtoms a)) = 2 * xd0 - X (RiemannGen.vShockR (toData q) a) := by
    rw [vShockL_mirror q hd, xpos_neg]
  obtain ⟨h01, h1c, hpc, hc3, hp3⟩ := id g
  refine ⟨fun x h => ?_, fun r hr h0 h1 h2 => ?_, fun x h1 h2 => ?_, fun x h1 h2 h3 => ?_, fun x h => ?_⟩
  · rw [rcs_zone_left e (toData q) a prev next xd0 t xmaxW hL hR g h,
      scr_zone_right e (toData q.mirror) (mirrorAtoms a) prev' next' xd0 t xmaxW' hL' hR' g' (by rw [eHR]; linarith)]
    rfl
  · rw [rcs_zone_fan e (toData q) a prev next xd0 t xmaxW hL hR g h0 h1.le,
      scr_zone_fan e (toData q.mirror) (mirrorAtoms a) prev' next' xd0 t xmaxW' hL' hR' g' (by rw [eTR]; linarith) h2]
    have k1 := interpG_mem RiemannGen.lerpS _ (RiemannGen.leftState e (toData q)) hs (rowL_mem e q.gl xd0 t hr)
    have hs' := sorted_reflect (2 * xd0) mirrorState hs
    rw [← fanTab_mirror_LR] at hs'
    have hm' := mem_reflect (2 * xd0) mirrorState (rowL_mem e q.gl xd0 t hr)
    rw [← fanTab_mirror_LR] at hm'
    have k2 := interpG_mem RiemannGen.lerpS _ (RiemannGen.starR e (toData q.mirror) (mirrorAtoms a)) hs' hm'
    show RiemannGen.interpS _ _ _ = mirrorState (RiemannGen.interpS _ _ _)
    unfold RiemannGen.interpS
    rw [show (toData q).gl = q.gl from rfl, k1]
    exact k2
  · rw [rcs_zone_starL e (toData q) a prev next xd0 t xmaxW hL hR g h1 h2,
      scr_zone_starR e (toData q.mirror) (mirrorAtoms a) prev' next' xd0 t xmaxW' hL' hR' g' (by rw [eC]; linarith)
        (by rw [eTR]; linarith)]
    rfl
  · rw [rcs_zone_starR e (toData q) a prev next xd0 t xmaxW hL hR g h1 h2,
      scr_zone_starL e (toData q.mirror) (mirrorAtoms a) prev' next' xd0 t xmaxW' hL' hR' g' h3 (by rw [eC]; linarith)]
    rfl
  · rw [rcs_zone_right e (toData q) a prev next xd0 t xmaxW hL hR g h,
      scr_zone_left e (toData q.mirror) (mirrorAtoms a) prev' next' xd0 t xmaxW' hL' hR' g' (by rw [eSL]; linarith)]
    rfl

include hd hc in
/-- **C09 (P), mirror, shock–contact–rarefaction ↦ rarefaction–contact–shock.** -/
theorem gen_mirror_scr_partial (hL : q.pl < a.px) (hR : a.px < q.pr) (g : GridSCR e (toData q) a prev next xd0 t)
    (g' : GridRCS e (toData q.mirror) (mirrorAtoms a) prev' xd0 t)
    (hs : Sorted (RiemannGen.fanTab e q.gr (RiemannIG.Num.ofNat 1) xd0 t a.tabR)) :
    (∀ x, x ≤ X (RiemannGen.vShockL (toData q) a) → (node' (2 * xd0 - x)).2 = mirrorState (node x).2) ∧
    (∀ x, next (X (RiemannGen.vShockL (toData q) a)) ≤ x → x < X a.ux1 →
        2 * xd0 - x ≤ prev' (X (RiemannGen.vShockR (toData q.mirror) (mirrorAtoms a))) →
        (node' (2 * xd0 - x)).2 = mirrorState (node x).2) ∧
    (∀ x, X a.ux1 < x → x < X (RiemannGen.vTailR e (toData q) a) → 2 * xd0 - x ≤ prev' (X (mirrorAtoms a).ux1) →
        (node' (2 * xd0 - x)).2 = mirrorState (node x).2) ∧
    (∀ r ∈ a.tabR, X (RiemannGen.vTailR e (toData q) a) < rowR e q.gr xd0 t r →
        rowR e q.gr xd0 t r ≤ prev (X (RiemannGen.vHeadR e (toData q))) →
        (node' (2 * xd0 - rowR e q.gr xd0 t r)).2 = mirrorState (node (rowR e q.gr xd0 t r)).2) ∧
    (∀ x, X (RiemannGen.vHeadR e (toData q)) ≤ x → (node' (2 * xd0 - x)).2 = mirrorState (node x).2) := by
  have hL' : (mirrorAtoms a).px < (toData q.mirror).pl := hR
  have hR' : (toData q.mirror).pr < (mirrorAtoms a).px := hL
  have eHL : X (RiemannGen.vHeadL e (toData q.mirror)) = 2 * xd0 - X (RiemannGen.vHeadR e (toData q)) := by
    rw [vHeadL_mirror, xpos_neg]
  have eTL : X (RiemannGen.vTailL e (toData q.mirror) (mirrorAtoms a)) = 2 * xd0 - X (RiemannGen.vTailR e (toData q) a) := by
    rw [vTailL_mirror, xpos_neg]
  have eC := contact_mirror a hc xd0 t
  have eSR : X (RiemannGen.vShockR (toData q.mirror) (mirrorAtoms a)) = 2 * xd0 - X (RiemannGen.vShockL (toData q) a) := by
    rw [vShockR_mirror q hd, xpos_neg]
  obtain ⟨h0n, hnc, hc2, h23, hp3⟩ := id g
  refine ⟨fun x h => ?_, fun x h1 h2 h3 => ?_, fun x h1 h2 h3 => ?_, fun r hr h0 h1 => ?_, fun x h => ?_⟩
  · rw [scr_zone_left e (toData q) a prev next xd0 t xmaxW hL hR g h,
      rcs_zone_right e (toData q.mirror) (mirrorAtoms a) prev' next' xd0 t xmaxW' hL' hR' g' (by rw [eSR]; linarith)]
    rfl
  · rw [scr_zone_starL e (toData q) a prev next xd0 t xmaxW hL hR g h1 h2.le,
      rcs_zone_starR e (toData q.mirror) (mirrorAtoms a) prev' next' xd0 t xmaxW' hL' hR' g' (by rw [eC]; linarith) h3]
    rfl
  · rw [scr_zone_starR e (toData q) a prev next xd0 t xmaxW hL hR g h1 h2.le,
      rcs_zone_starL e (toData q.mirror) (mirrorAtoms a) prev' next' xd0 t xmaxW' hL' hR' g' (by rw [eTL]; linarith) h3]
    rfl
  · rw [scr_zone_fan e (toData q) a prev next xd0 t xmaxW hL hR g h0 h1,
      rcs_zone_fan e (toData q.mirror) (mirrorAtoms a) prev' next' xd0 t xmaxW' hL' hR' g' (by rw [eHL]; linarith)
        (by rw [eTL]; linarith)]
    have k1 := interpG_mem RiemannGen.lerpS _ (RiemannGen.starR e (toData q) a) hs (rowR_mem e q.gr xd0 t hr)
    have hs' := sorted_reflect (2 * xd0) mirrorState hs
    rw [← fanTab_mirror_RL] at hs'
    have hm' := mem_reflect (2 * xd0) mirrorState (rowR_mem e q.gr xd0 t hr)
    rw [← fanTab_mirror_RL] at hm'
    have k2 := interpG_mem RiemannGen.lerpS _ (RiemannGen.leftState e (toData q.mirror)) hs' hm'
    show RiemannGen.interpS _ _ _ = mirrorState (RiemannGen.interpS _ _ _)
    unfold RiemannGen.interpS
    rw [show (toData q).gr = q.gr from rfl, k1]
    exact k2
  · rw [scr_zone_right e (toData q) a prev next xd0 t xmaxW hL hR g h,
      rcs_zone_left e (toData q.mirror) (mirrorAtoms a) prev' next' xd0 t xmaxW' hL' hR' g' (by rw [eHL]; linarith)]
    rfl

include hd hc in
/-- **C09 (P), mirror, shock–contact–shock.** -/
theorem gen_mirror_scs_partial (hL : q.pl < a.px) (hR : q.pr < a.px) (g : GridSCS (toData q) a prev next xd0 t)
    (g' : GridSCS (toData q.mirror) (mirrorAtoms a) prev' next' xd0 t) :
    (∀ x, x ≤ X (RiemannGen.vShockL (toData q) a) → (node' (2 * xd0 - x)).2 = mirrorState (node x).2) ∧
    (∀ x, next (X (RiemannGen.vShockL (toData q) a)) ≤ x → x < X a.ux1 →
        2 * xd0 - x ≤ prev' (X (RiemannGen.vShockR (toData q.mirror) (mirrorAtoms a))) →
        (node' (2 * xd0 - x)).2 = mirrorState (node x).2) ∧
    (∀ x, X a.ux1 < x → x ≤ prev (X (RiemannGen.vShockR (toData q) a)) →
        next' (X (RiemannGen.vShockL (toData q.mirror) (mirrorAtoms a))) ≤ 2 * xd0 - x →
        (node' (2 * xd0 - x)).2 = mirrorState (node x).2) ∧
    (∀ x, X (RiemannGen.vShockR (toData q) a) ≤ x → (node' (2 * xd0 - x)).2 = mirrorState (node x).2) := by
  have hL' : (toData q.mirror).pl < (mirrorAtoms a).px := hR
  have hR' : (toData q.mirror).pr < (mirrorAtoms a).px := hL
  have eC := contact_mirror a hc xd0 t
  have eSL : X (RiemannGen.vShockL (toData q.mirror) (mirrorAtoms a)) = 2 * xd0 - X (RiemannGen.vShockR (toData q) a) := by
    rw [vShockL_mirror q hd, xpos_neg]
  have eSR : X (RiemannGen.vShockR (toData q.mirror) (mirrorAtoms a)) = 2 * xd0 - X (RiemannGen.vShockL (toData q) a) := by
    rw [vShockR_mirror q hd, xpos_neg]
  obtain ⟨h0n, hnc, hc2, hp2⟩ := id g
  refine ⟨fun x h => ?_, fun x h1 h2 h3 => ?_, fun x h1 h2 h3 => ?_, fun x h => ?_⟩
  · rw [scs_zone_left e (toData q) a prev next xd0 t xmaxW hL hR g h,
      scs_zone_right e (toData q.mirror) (mirrorAtoms a) prev' next' xd0 t xmaxW' hL' hR' g' (by rw [eSR]; linarith)]
    rfl
  · rw [scs_zone_starL e (toData q) a prev next xd0 t xmaxW hL hR g h1 h2.le,
      scs_zone_starR e (toData q.mirror) (mirrorAtoms a) prev' next' xd0 t xmaxW' hL' hR' g' (by rw [eC]; linarith) h3]
    rfl
  · rw [scs_zone_starR e (toData q) a prev next xd0 t xmaxW hL hR g h1 h2,
      scs_zone_starL e (toData q.mirror) (mirrorAtoms a) prev' next' xd0 t xmaxW' hL' hR' g' h3 (by rw [eC]; linarith)]
    rfl
  · rw [scs_zone_right e (toData q) a prev next xd0 t xmaxW hL hR g h,
      scs_zone_left e (toData q.mirror) (mirrorAtoms a) prev' next' xd0 t xmaxW' hL' hR' g' (by rw [eSL]; linarith)]
    rfl

include hc in
/-- **C09 (P), mirror, rarefaction–contact–rarefaction** (no shock: no side detection, `Distinct` not needed). -/
theorem gen_mirror_rcr_partial (hL : a.px < q.pl) (hR : a.px < q.pr) (g : GridRCR e (toData q) a prev xd0 t)
    (g' : GridRCR e (toData q.mirror) (mirrorAtoms a) prev' xd0 t)
    (hsL : Sorted (RiemannGen.fanTab e q.gl (-RiemannIG.Num.ofNat 1) xd0 t a.tabL))
    (hsR : Sorted (RiemannGen.fanTab e q.gr (RiemannIG.Num.ofNat 1) xd0 t a.tabR)) :
    (∀ x, x ≤ X (RiemannGen.vHeadL e (toData q)) → (node' (2 * xd0 - x)).2 = mirrorState (node x).2) ∧
    (∀ r ∈ a.tabL, X (RiemannGen.vHeadL e (toData q)) < rowL e q.gl xd0 t r →
        rowL e q.gl xd0 t r < X (RiemannGen.vTailL e (toData q) a) →
        2 * xd0 - rowL e q.gl xd0 t r ≤ prev' (X (RiemannGen.vHeadR e (toData q.mirror))) →
        (node' (2 * xd0 - rowL e q.gl xd0 t r)).2 = mirrorState (node (rowL e q.gl xd0 t r)).2) ∧
    (∀ x, X (RiemannGen.vTailL e (toData q) a) < x → x < X a.ux1 → (node' (2 * xd0 - x)).2 = mirrorState (node x).2) ∧
    (∀ x, X a.ux1 < x → x < X (RiemannGen.vTailR e (toData q) a) → (node' (2 * xd0 - x)).2 = mirrorState (node x).2) ∧
    (∀ r ∈ a.tabR, X (RiemannGen.vTailR e (toData q) a) < rowR e q.gr xd0 t r →
        rowR e q.gr xd0 t r ≤ prev (X (RiemannGen.vHeadR e (toData q))) →
        (node' (2 * xd0 - rowR e q.gr xd0 t r)).2 = mirrorState (node (rowR e q.gr xd0 t r)).2) ∧
    (∀ x, X (RiemannGen.vHeadR e (toData q)) ≤ x → (node' (2 * xd0 - x)).2 = mirrorState (node x).2) := by
  have hL' : (mirrorAtoms a).px < (toData q.mirror).pl := hR
  have hR' : (mirrorAtoms a).px < (toData q.mirror).pr := hL
  have eHL : X (RiemannGen.vHeadL e (toData q.mirror)) = 2 * xd0 - X (RiemannGen.vHeadR e (toData q)) := by
    rw [vHeadL_mirror, xpos_neg]
  have eHR : X (RiemannGen.vHeadR e (toData q.mirror)) = 2 * xd0 - X (RiemannGen.vHeadL e (toData q)) := by
    rw [vHeadR_mirror, xpos_neg]
  have eTL : X (RiemannGen.vTailL e (toData q.mirror) (mirrorAtoms a)) = 2 * xd0 - X (RiemannGen.vTailR e (toData q) a) := by
    rw [vTailL_mirror, xpos_neg]
  have eTR : X (RiemannGen.vTailR e (toData q.mirror) (mirrorAtoms a)) = 2 * xd0 - X (RiemannGen.vTailL e (toData q) a) := by
    rw [vTailR_mirror, xpos_neg]
  have eC := contact_mirror a hc xd0 t
  obtain ⟨h01, h1c, hc3, h34, hp4⟩ := id g
  refine ⟨fun x h => ?_, fun r hr h0 h1 h2 => ?_, fun x h1 h2 => ?_, fun x h1 h2 => ?_, fun r hr h0 h1 => ?_,
    fun x h => ?_⟩
  · rw [rcr_zone_left e (toData q) a prev next xd0 t xmaxW hL hR g h,
      rcr_zone_right e (toData q.mirror) (mirrorAtoms a) prev' next' xd0 t xmaxW' hL' hR' g' (by rw [eHR]; linarith)]
    rfl
  · rw [rcr_zone_fanL e (toData q) a prev next xd0 t xmaxW hL hR g h0 h1.le,
      rcr_zone_fanR e (toData q.mirror) (mirrorAtoms a) prev' next' xd0 t xmaxW' hL' hR' g' (by rw [eTR]; linarith) h2]
    have k1 := interpG_mem RiemannGen.lerpS _ (RiemannGen.leftState e (toData q)) hsL (rowL_mem e q.gl xd0 t hr)
    have hs' := sorted_reflect (2 * xd0) mirrorState hsL
    rw [← fanTab_mirror_LR] at hs'
    have hm' := mem_reflect (2 * xd0) mirrorState (rowL_mem e q.gl xd0 t hr)
    rw [← fanTab_mirror_LR] at hm'
    have k2 := interpG_mem RiemannGen.lerpS _ (RiemannGen.starR e (toData q.mirror) (mirrorAtoms a)) hs' hm'
    show RiemannGen.interpS _ _ _ = mirrorState (RiemannGen.interpS _ _ _)
    unfold RiemannGen.interpS
    rw [show (toData q).gl = q.gl from rfl, k1]
    exact k2
  · rw [rcr_zone_starL e (toData q) a prev next xd0 t xmaxW hL hR g h1 h2.le,
      rcr_zone_starR e (toData q.mirror) (mirrorAtoms a) prev' next' xd0 t xmaxW' hL' hR' g' (by rw [eC]; linarith)
        (by rw [eTR]; linarith)]
    rfl
  · rw [rcr_zone_starR e (toData q) a prev next xd0 t xmaxW hL hR g h1 h2.le,
      rcr_zone_starL e (toData q.mirror) (mirrorAtoms a) prev' next' xd0 t xmaxW' hL' hR' g' (by rw [eTL]; linarith)
        (by rw [eC]; linarith)]
    rfl
  · rw [rcr_zone_fanR e (toData q) a prev next xd0 t xmaxW hL hR g h0 h1,
      rcr_zone_fanL e (toData q.mirror) (mirrorAtoms a) prev' next' xd0 t xmaxW' hL' hR' g' (by rw [eHL]; linarith)
        (by rw [eTL]; linarith)]
    have k1 := interpG_mem RiemannGen.lerpS _ (RiemannGen.starR e (toData q) a) hsR (rowR_mem e q.gr xd0 t hr)
    have hs' := sorted_reflect (2 * xd0) mirrorState hsR
    rw [← fanTab_mirror_RL] at hs'
    have hm' := mem_reflect (2 * xd0) mirrorState (rowR_mem e q.gr xd0 t hr)
    rw [← fanTab_mirror_RL] at hm'
    have k2 := interpG_mem RiemannGen.lerpS _ (RiemannGen.leftState e (toData q.mirror)) hs' hm'
    show RiemannGen.interpS _ _ _ = mirrorState (RiemannGen.interpS _ _ _)
    unfold RiemannGen.interpS
    rw [show (toData q).gr = q.gr from rfl, k1]
    exact k2
  · rw [rcr_zone_right e (toData q) a prev next xd0 t xmaxW hL hR g h,
      rcr_zone_left e (toData q.mirror) (mirrorAtoms a) prev' next' xd0 t xmaxW' hL' hR' g' (by rw [eHL]; linarith)]
    rfl

end mirrorSolution

/-! ### non-vacuity: the γ = 3 problem of `EPV.C02.RiemannGen` (pattern RCS), membrane at 0, t = 1,
grid look-up "one hundredth to the left" -/

open EPV.C02.RiemannGen (qEx aEx ex_vHeadL ex_vTailL ex_vShockR)

/-- the hypotheses of `gen_mirror_rcs_partial` on the original problem are satisfiable -/
example : qEx.Distinct ∧ Crossing aEx ∧ aEx.px < qEx.pl ∧ qEx.pr < aEx.px ∧
    GridRCS eosIG (toData qEx) aEx (fun X => X - 1 / 100) 0 1 := by
  refine ⟨by unfold Prob.Distinct qEx; norm_num, rfl, by norm_num [qEx, aEx], by norm_num [qEx, aEx], ?_⟩
  constructor <;> simp only [RiemannGen.xpos, ex_vHeadL, ex_vTailL, ex_vShockR] <;> norm_num [aEx]

end EPV.C09.RiemannGen
