/-
C09 (burn-time half, Kenamond 3; the statement for all four solvers is repeated in each BurnK*.lean / BurnDSD.lean) — "Burn-time fields are unchanged when detonators, material boundaries
and evaluation points are rotated about or reflected through the problem's symmetry axis,
and Kenamond 1 is invariant under any common translation."

All statements are about the TRACED models (through the bridge `EPV.Lemmas.BurnK1`, `BurnK2`, `BurnK3`, `BurnDSD`), with
points read as elements of `EuclideanSpace ℝ (Fin n)`:

* Kenamond 1: invariance under EVERY isometry φ of the plane / of space applied to the
  detonator and the evaluation point — rotations, reflections and translations
  (`k1dN_isometry`); in coordinates: translation by any vector, rotation by any angle
  (`k1d2_translation`, `k1d3_translation`, `k1d2_rotation`, `k1d3_rotation_z`).
* Kenamond 2: the detonators sit on the symmetry axis (y in 2-D, z in 3-D) and the sphere
  at the origin, so the field is invariant under every linear isometry that fixes the axis
  pointwise, with the SAME parameters (`k2dN_axis_isometry`): the reflection x ↦ -x in 2-D,
  every rotation about the z axis and every reflection through a plane containing it in 3-D
  (`k2d2_reflection`, `k2d3_rotation_z`, `k2d3_reflection`); flipping the axis maps the
  problem with axial positions a_i to the one with -a_i (`k2dN_axis_flip`).
* Kenamond 3: the obstacle is a sphere at the origin and the detonator is arbitrary, so
  the field is invariant under every linear isometry applied to detonator and point
  (`k3dN_linearIsometry`; `k3d2_rotation`, `k3d2_reflection`, `k3d3_rotation_z`).
* DSD cylinder: the field depends on the point only through ‖q‖: invariant under every
  linear isometry, indeed every norm-preserving map (`dsdcyl_norm_invariant`, `dsdcyl_linearIsometry`).

The explicit rotations / reflections are the linear isometries `rot2`, `reflX2`, `rotZ3`,
`reflX3` of `EPV.Lemmas.Burn`, with their coordinate formulas as simp lemmas.
-/
import EPV.Lemmas.BurnK3

set_option linter.all false

open EPV EPV.Gen EPV.Spec.Burn EPV.Burn

namespace EPV.C09

/-! ### Kenamond 3 -/

/-- Kenamond 3, 2-D: every linear isometry applied to detonator and point; the request is
served for the image exactly when it is served for the original -/
theorem k3d2_linearIsometry (φ : E2 →ₗᵢ[ℝ] E2) (p p' : K3d2.P) (hR : p'.R = p.R) (hD : p'.D = p.D)
    (htd : p'.t_d = p.t_d) (hdet : K3d2.det p' = φ (K3d2.det p)) (q : E2)
    (h : K3d2.outcome p (q 0) (q 1) = .ok) :
    K3d2.outcome p' (φ q 0) (φ q 1) = .ok ∧ K3d2.burntime p' (φ q 0) (φ q 1) = K3d2.burntime p (q 0) (q 1) := by
  have h' : K3d2.outcome p' (φ q 0) (φ q 1) = .ok := by
    rw [k3d2_outcome] at h ⊢
    obtain ⟨⟨a, b, c⟩, d⟩ := h
    exact ⟨⟨hR ▸ a, hD ▸ b, by rw [hdet, hR, φ.norm_map]; exact c⟩, by rw [hR, φ.norm_map]; exact d⟩
  refine ⟨h', ?_⟩
  rw [k3d2_eq_spec p q h, k3d2_eq_spec p' (φ q) h', hdet, hR, hD, htd, k3_linearIsometry]

theorem k3d3_linearIsometry (φ : E3 →ₗᵢ[ℝ] E3) (p p' : K3d3.P) (hR : p'.R = p.R) (hD : p'.D = p.D)
    (htd : p'.t_d = p.t_d) (hdet : K3d3.det p' = φ (K3d3.det p)) (q : E3)
    (h : K3d3.outcome p (q 0) (q 1) (q 2) = .ok) :
    K3d3.outcome p' (φ q 0) (φ q 1) (φ q 2) = .ok ∧
      K3d3.burntime p' (φ q 0) (φ q 1) (φ q 2) = K3d3.burntime p (q 0) (q 1) (q 2) := by
  have h' : K3d3.outcome p' (φ q 0) (φ q 1) (φ q 2) = .ok := by
    rw [k3d3_outcome] at h ⊢
    obtain ⟨⟨a, b, c⟩, d⟩ := h
    exact ⟨⟨hR ▸ a, hD ▸ b, by rw [hdet, hR, φ.norm_map]; exact c⟩, by rw [hR, φ.norm_map]; exact d⟩
  refine ⟨h', ?_⟩
  rw [k3d3_eq_spec p q h, k3d3_eq_spec p' (φ q) h', hdet, hR, hD, htd, k3_linearIsometry]

/-- rotation by any angle, 2-D, in coordinates -/
theorem k3d2_rotation (D R td xd0 xd1 θ x y : ℝ) (h : K3d2.outcome ⟨D, R, td, xd0, xd1⟩ x y = .ok) :
    K3d2.burntime ⟨D, R, td, xd0 * Real.cos θ - xd1 * Real.sin θ, xd0 * Real.sin θ + xd1 * Real.cos θ⟩
        (x * Real.cos θ - y * Real.sin θ) (x * Real.sin θ + y * Real.cos θ)
      = K3d2.burntime ⟨D, R, td, xd0, xd1⟩ x y := by
  have := (k3d2_linearIsometry (rot2 θ) ⟨D, R, td, xd0, xd1⟩
    ⟨D, R, td, xd0 * Real.cos θ - xd1 * Real.sin θ, xd0 * Real.sin θ + xd1 * Real.cos θ⟩ rfl rfl rfl
    (by ext i; fin_cases i <;> simp [K3d2.det]) !₂[x, y] (by simpa using h)).2
  simpa using this

/-- reflection (x, y) ↦ (-x, y), 2-D, in coordinates -/
theorem k3d2_reflection (D R td xd0 xd1 x y : ℝ) (h : K3d2.outcome ⟨D, R, td, xd0, xd1⟩ x y = .ok) :
    K3d2.burntime ⟨D, R, td, -xd0, xd1⟩ (-x) y = K3d2.burntime ⟨D, R, td, xd0, xd1⟩ x y := by
  have := (k3d2_linearIsometry reflX2 ⟨D, R, td, xd0, xd1⟩ ⟨D, R, td, -xd0, xd1⟩ rfl rfl rfl
    (by ext i; fin_cases i <;> simp [K3d2.det]) !₂[x, y] (by simpa using h)).2
  simpa using this

/-- rotation about the z axis, 3-D, in coordinates -/
theorem k3d3_rotation_z (D R td xd0 xd1 xd2 θ x y z : ℝ) (h : K3d3.outcome ⟨D, R, td, xd0, xd1, xd2⟩ x y z = .ok) :
    K3d3.burntime ⟨D, R, td, xd0 * Real.cos θ - xd1 * Real.sin θ, xd0 * Real.sin θ + xd1 * Real.cos θ, xd2⟩
        (x * Real.cos θ - y * Real.sin θ) (x * Real.sin θ + y * Real.cos θ) z
      = K3d3.burntime ⟨D, R, td, xd0, xd1, xd2⟩ x y z := by
  have := (k3d3_linearIsometry (rotZ3 θ) ⟨D, R, td, xd0, xd1, xd2⟩
    ⟨D, R, td, xd0 * Real.cos θ - xd1 * Real.sin θ, xd0 * Real.sin θ + xd1 * Real.cos θ, xd2⟩ rfl rfl rfl
    (by ext i; fin_cases i <;> simp [K3d3.det]) !₂[x, y, z] (by simpa using h)).2
  simpa using this

/-- non-vacuity: Kenamond 3 defaults at the point (4, 0): the request is served -/
example : K3d2.outcome ⟨2, 3, 0, 0, 5⟩ 4 0 = .ok := by
  have h5 : Real.sqrt ((0 : ℝ) * 0 + 5 * 5) = 5 := by
    rw [show (0 : ℝ) * 0 + 5 * 5 = 5 ^ 2 by norm_num, Real.sqrt_sq (by norm_num)]
  have h4 : Real.sqrt ((4 : ℝ) * 4 + 0 * 0) = 4 := by
    rw [show (4 : ℝ) * 4 + 0 * 0 = 4 ^ 2 by norm_num, Real.sqrt_sq (by norm_num)]
  simp only [epv_tree, ite_raise_eq_ok, ite_self]
  simp only [epv_cond, h5, h4]
  norm_num

end EPV.C09
