/-
C09 — mirror and Galilean symmetry of the 1-D ideal-gas Riemann solver.

Mirror (exchange the two states, negate the velocities, reflect about the membrane):
* `SCR_call` on mirrored data = -`RCS_call` and vice versa, `SCS_call`/`RCR_call` map to
  themselves, so the star pressure (the root, an atom) is the same (`root_mirror`);
* the five classification speeds map onto each other and the driver's `if/elif` chain selects
  the mirror-image pattern (`classify_mirror`), including the boundary case pl = pr;
* shock speeds, star velocity, star densities and the fan profiles of the mirrored problem are
  the mirror images of the original ones (`shockVel_mirror_*`, `ux_mirror_*`, `fan_mirror_*`).
Boost (add v to both velocities):
* every `X_call`, hence the root, is unchanged; every classification speed shifts by v and the
  pattern is unchanged (`classify_boost`); `shock_velocity` and the fan velocity shift by v, fan
  density and pressure are unchanged at the translated point;
* the WHOLE assembled solution (hand model over ℝ) at (x + v t, t) is the original solution at
  (x, t) with velocities shifted by v: same pattern, same region, same p, ρ, e (`solve_boost`).

(P) the degenerate case L = R, where the `==`-based side detection mislabels the right state
(`Riem.shockVel_right_degenerate`), is excluded by the hypothesis `q.Distinct`.
* Mirror, WHOLE assembled solution (`solve_mirror`): the answer for the mirrored problem at
  2·xd0 - x is the mirror image of the answer at x (pattern, region, p, ρ, e, -u), for x off the
  waves; uses the order of the wave speeds (`Riem.shock_speed_order`, `Riem.fan_speed_order`) and the
  pressure range of the root in the selected pattern (`Riem.scr_range` …).
-/
import EPV.Lemmas.RiemannOrder
import EPV.Lemmas.RiemannMono

set_option linter.all false

open EPV EPV.Gen EPV.Model EPV.Spec.Riemann EPV.Riem

namespace EPV.C09.Riemann

/-! ### mirror: the four star-state residuals -/

theorem scr_mirror (q : Prob) (px : ℝ) : SCR q.mirror px = -(RCS q px) := by
  simp only [SCR_eq, RCS_eq, Prob.mirror, neg_neg]; ring
theorem rcs_mirror (q : Prob) (px : ℝ) : RCS q.mirror px = -(SCR q px) := by
  simp only [SCR_eq, RCS_eq, Prob.mirror, neg_neg]; ring
theorem scs_mirror (q : Prob) (px : ℝ) : SCS q.mirror px = SCS q px := by
  simp only [SCS_eq, Prob.mirror, neg_neg]; ring
theorem rcr_mirror (q : Prob) (px : ℝ) : RCR q.mirror px = RCR q px := by
  simp only [RCR_eq, Prob.mirror, neg_neg]; ring

/-- the root of the mirrored problem's residual is the root of the original one -/
theorem root_mirror (q : Prob) (px : ℝ) :
    (SCS q.mirror px = 0 ↔ SCS q px = 0) ∧ (SCR q.mirror px = 0 ↔ RCS q px = 0) ∧
    (RCS q.mirror px = 0 ↔ SCR q px = 0) ∧ (RCR q.mirror px = 0 ↔ RCR q px = 0) := by
  rw [scs_mirror, scr_mirror, rcs_mirror, rcr_mirror]
  exact ⟨Iff.rfl, neg_eq_zero, neg_eq_zero, Iff.rfl⟩

/-! ### mirror: classification speeds map onto each other

The driver evaluates all five at `px = pr`; for the mirrored problem that is the original `pl`. -/

theorem uSCN_mirror (q : Prob) : uSCN q.mirror q.pl = uNCS q q.pr - q.ul - q.ur := by
  simp only [uSCN_eq, uNCS_eq, Prob.mirror]; ring
theorem uNCS_mirror (q : Prob) : uNCS q.mirror q.pl = uSCN q q.pr - q.ul - q.ur := by
  simp only [uSCN_eq, uNCS_eq, Prob.mirror]; ring
theorem uNCR_mirror (q : Prob) : uNCR q.mirror q.pl = uRCN q q.pr - q.ul - q.ur := by
  simp only [uNCR_eq, uRCN_eq, Prob.mirror]; ring
theorem uRCN_mirror (q : Prob) : uRCN q.mirror q.pl = uNCR q q.pr - q.ul - q.ur := by
  simp only [uNCR_eq, uRCN_eq, Prob.mirror]; ring
theorem uRCVR_mirror (q : Prob) : uRCVR q.mirror q.pl = uRCVR q q.pr - q.ul - q.ur := by
  simp only [uRCVR_eq, Prob.mirror]; ring

/-- the chain selects the mirror-image pattern when the thresholds are exchanged as
`u*_mirror` say; on the boundary pl = pr the four inner thresholds coincide -/
theorem chain_mirror (pl pr ul ur a b c d e : ℝ) (heq : pl = pr → a = b ∧ b = c ∧ c = d) :
    chain pr pl (-ul) (b - ul - ur) (a - ul - ur) (d - ul - ur) (c - ul - ur) (e - ul - ur)
      = mirrorPat (chain pl pr ur a b c d e) := by
  have e1 : ∀ z : ℝ, (-ul ≤ z - ul - ur) ↔ ur ≤ z := fun z => by constructor <;> intro h <;> linarith
  have e2 : ∀ z : ℝ, (z - ul - ur < -ul) ↔ z < ur := fun z => by constructor <;> intro h <;> linarith
  simp only [chain, e1, e2]
  rcases lt_trichotomy pl pr with h | h | h
  · have h1 : pl ≤ pr := h.le
    have h2 : ¬ pr ≤ pl := not_le.mpr h
    have h3 : ¬ pr < pl := not_lt.mpr h.le
    simp only [h, h1, h2, h3, true_and, false_and, or_false, false_or, if_false]
    split_ifs <;> simp_all [mirrorPat]
  · obtain ⟨hab, hbc, hcd⟩ := heq h
    subst h; subst hab; subst hbc; subst hcd
    simp only [le_refl, lt_irrefl, true_and, false_and, or_false, false_or, if_false]
    split_ifs <;> simp_all [mirrorPat] <;> linarith
  · have h1 : pr ≤ pl := h.le
    have h2 : ¬ pl ≤ pr := not_le.mpr h
    have h3 : ¬ pl < pr := not_lt.mpr h.le
    simp only [h, h1, h2, h3, true_and, false_and, or_false, false_or, if_false]
    split_ifs <;> simp_all [mirrorPat]

/-- equal pressures: all four inner thresholds equal ul -/
theorem thresholds_eq (q : Prob) (hp : q.pl ≠ 0) (h : q.pl = q.pr) :
    uSCN q q.pr = uNCS q q.pr ∧ uNCS q q.pr = uNCR q q.pr ∧ uNCR q q.pr = uRCN q q.pr := by
  have h1 : q.pr / q.pl = 1 := by rw [← h]; exact div_self hp
  have h2 : q.pl / q.pr = 1 := by rw [← h]; exact div_self hp
  simp only [uSCN_eq, uNCS_eq, uNCR_eq, uRCN_eq, h1, h2, Real.one_rpow, sub_self, mul_zero, zero_div,
    sub_zero, add_zero, mul_div_assoc]
  simp

/-- C09 (mirror), classification: the mirrored problem is classified as the mirror-image pattern -/
theorem classify_mirror (q : Prob) (hp : q.pl ≠ 0) :
    RiemannIG.classify (toData q.mirror) = mirrorPat (RiemannIG.classify (toData q)) := by
  rw [classify_eq, classify_eq]
  have := chain_mirror q.pl q.pr q.ul q.ur (uSCN q q.pr) (uNCS q q.pr) (uNCR q q.pr) (uRCN q q.pr) (uRCVR q q.pr)
    (thresholds_eq q hp)
  rw [← this, ← uSCN_mirror, ← uNCS_mirror, ← uNCR_mirror, ← uRCN_mirror, ← uRCVR_mirror]
  rfl

/-- non-vacuity -/
example : sod.pl ≠ 0 := by unfold sod; norm_num



/-! ### mirror: side detection, wave speeds, star velocity, fan profiles

(proved in `EPV.Lemmas.RiemannOrder`, shared with the whole-solution theorem in
`EPV.Props.C09.RiemannMirror`) -/

theorem mirror_distinct (q : Prob) (hd : q.Distinct) : q.mirror.Distinct := Riem.mirror_distinct q hd

/-- in the mirrored problem the original left state is the right state (sign -1) and the original
right state is the left state (sign +1), provided L ≠ R -/
theorem fanSgn_mirror (q : Prob) (hd : q.Distinct) :
    fanSgn q.mirror q.pl q.rl (-q.ul) = -1 ∧ fanSgn q.mirror q.pr q.rr (-q.ur) = 1 := Riem.fanSgn_mirror q hd

/-- shock speeds of the mirrored problem are the negated original speeds -/
theorem shockVel_mirror (q : Prob) (hd : q.Distinct) (px : ℝ) :
    shockVel q.mirror px q.pl q.rl (-q.ul) q.gl = -(shockVel q px q.pl q.rl q.ul q.gl) ∧
    shockVel q.mirror px q.pr q.rr (-q.ur) q.gr = -(shockVel q px q.pr q.rr q.ur q.gr) := Riem.shockVel_mirror q hd px

/-- star velocity: the mirrored driver computes it from the original RIGHT wave; with the atom
hypothesis `X_call px = 0` it is the negated original star velocity (all four patterns) -/
theorem ux_mirror (q : Prob) (px : ℝ) :
    (SCS q px = 0 → uxS q.mirror px = -(uxS q px)) ∧ (RCS q px = 0 → uxS q.mirror px = -(uxF q px)) ∧
    (SCR q px = 0 → uxF q.mirror px = -(uxS q px)) ∧ (RCR q px = 0 → uxF q.mirror px = -(uxF q px)) :=
  Riem.ux_mirror q px

/-- fan profiles: the mirrored problem's fan through the (negated) original state, evaluated at the
reflected point 2·xd0 - x, has the same ρ and p and the negated velocity -/
theorem fan_mirror (q : Prob) (hd : q.Distinct) (xd0 x t : ℝ) (ht : t ≠ 0) :
    (fanRho q.mirror q.pl q.rl (-q.ul) q.gl xd0 (2 * xd0 - x) t = fanRho q q.pl q.rl q.ul q.gl xd0 x t ∧
     fanP q.mirror q.pl q.rl (-q.ul) q.gl xd0 (2 * xd0 - x) t = fanP q q.pl q.rl q.ul q.gl xd0 x t ∧
     fanU q.mirror q.pl q.rl (-q.ul) q.gl xd0 (2 * xd0 - x) t = -(fanU q q.pl q.rl q.ul q.gl xd0 x t)) ∧
    (fanRho q.mirror q.pr q.rr (-q.ur) q.gr xd0 (2 * xd0 - x) t = fanRho q q.pr q.rr q.ur q.gr xd0 x t ∧
     fanP q.mirror q.pr q.rr (-q.ur) q.gr xd0 (2 * xd0 - x) t = fanP q q.pr q.rr q.ur q.gr xd0 x t ∧
     fanU q.mirror q.pr q.rr (-q.ur) q.gr xd0 (2 * xd0 - x) t = -(fanU q q.pr q.rr q.ur q.gr xd0 x t)) :=
  Riem.fan_mirror q hd xd0 x t ht

/-! ### boost -/

theorem scs_boost (q : Prob) (v px : ℝ) : SCS (q.boost v) px = SCS q px := by
  simp only [SCS_eq, Prob.boost, shock_u px q.pr q.rr (q.ur + v), shock_u px q.pl q.rl (-(q.ul + v)),
    shock_u px q.pr q.rr q.ur, shock_u px q.pl q.rl (-q.ul)]; ring
theorem scr_boost (q : Prob) (v px : ℝ) : SCR (q.boost v) px = SCR q px := by
  simp only [SCR_eq, Prob.boost, rare_u px q.pr q.rr (-(q.ur + v)), shock_u px q.pl q.rl (-(q.ul + v)),
    rare_u px q.pr q.rr (-q.ur), shock_u px q.pl q.rl (-q.ul)]; ring
theorem rcs_boost (q : Prob) (v px : ℝ) : RCS (q.boost v) px = RCS q px := by
  simp only [RCS_eq, Prob.boost, shock_u px q.pr q.rr (q.ur + v), rare_u px q.pl q.rl (q.ul + v),
    shock_u px q.pr q.rr q.ur, rare_u px q.pl q.rl q.ul]; ring
theorem rcr_boost (q : Prob) (v px : ℝ) : RCR (q.boost v) px = RCR q px := by
  simp only [RCR_eq, Prob.boost, rare_u px q.pr q.rr (-(q.ur + v)), rare_u px q.pl q.rl (q.ul + v),
    rare_u px q.pr q.rr (-q.ur), rare_u px q.pl q.rl q.ul]; ring

theorem uSCN_boost (q : Prob) (v px : ℝ) : uSCN (q.boost v) px = uSCN q px + v := by
  simp only [uSCN_eq, Prob.boost]; ring
theorem uNCS_boost (q : Prob) (v px : ℝ) : uNCS (q.boost v) px = uNCS q px + v := by
  simp only [uNCS_eq, Prob.boost]; ring
theorem uNCR_boost (q : Prob) (v px : ℝ) : uNCR (q.boost v) px = uNCR q px + v := by
  simp only [uNCR_eq, Prob.boost]; ring
theorem uRCN_boost (q : Prob) (v px : ℝ) : uRCN (q.boost v) px = uRCN q px + v := by
  simp only [uRCN_eq, Prob.boost]; ring
theorem uRCVR_boost (q : Prob) (v px : ℝ) : uRCVR (q.boost v) px = uRCVR q px + v := by
  simp only [uRCVR_eq, Prob.boost]; ring

theorem chain_boost (pl pr ur a b c d e v : ℝ) :
    chain pl pr (ur + v) (a + v) (b + v) (c + v) (d + v) (e + v) = chain pl pr ur a b c d e := by
  simp only [chain, add_le_add_iff_right, add_lt_add_iff_right]

/-- C09 (boost), classification: every classification condition depends on the velocities only
through differences, so the pattern is unchanged -/
theorem classify_boost (q : Prob) (v : ℝ) :
    RiemannIG.classify (toData (q.boost v)) = RiemannIG.classify (toData q) := by
  rw [classify_eq, classify_eq, uSCN_boost, uNCS_boost, uNCR_boost, uRCN_boost, uRCVR_boost]
  exact chain_boost _ _ _ _ _ _ _ _ _

/-- the side detection compares boosted with boosted -/
theorem fanSgn_boost (q : Prob) (v p ρ u : ℝ) : fanSgn (q.boost v) p ρ (u + v) = fanSgn q p ρ u := by
  simp only [fanSgn, Prob.boost, add_left_inj]

/-- `shock_velocity` shifts by v -/
theorem shockVel_boost (q : Prob) (v px p ρ u γ : ℝ) :
    shockVel (q.boost v) px p ρ (u + v) γ = shockVel q px p ρ u γ + v := by
  rw [shockVel_eq, shockVel_eq, fanSgn_boost]; ring

/-- the fan profile of the boosted problem at the translated point: ρ and p unchanged, u shifted -/
theorem fan_boost (q : Prob) (v p ρ u γ xd0 x t : ℝ) (ht : t ≠ 0) (hγ : γ + 1 ≠ 0) :
    fanRho (q.boost v) p ρ (u + v) γ xd0 (x + v * t) t = fanRho q p ρ u γ xd0 x t ∧
    fanP (q.boost v) p ρ (u + v) γ xd0 (x + v * t) t = fanP q p ρ u γ xd0 x t ∧
    fanU (q.boost v) p ρ (u + v) γ xd0 (x + v * t) t = fanU q p ρ u γ xd0 x t + v := by
  have e : u + v - (x + v * t - xd0) / t = u - (x - xd0) / t := by field_simp; ring
  have e' : (x + v * t - xd0) / t = (x - xd0) / t + v := by field_simp; ring
  have hy : fanY (q.boost v) p ρ (u + v) γ xd0 (x + v * t) t = fanY q p ρ u γ xd0 x t := by
    unfold fanY; rw [fanSgn_boost, e]
  refine ⟨?_, ?_, ?_⟩
  · rw [fanRho_eq, fanRho_eq, hy]
  · rw [fanP_eq, fanP_eq, hy]
  · rw [fanU_eq, fanU_eq, fanSgn_boost, e']; field_simp; ring

/-- a state seen from the boosted frame -/
def boostState (v : ℝ) (s : RiemannIG.State ℝ) : RiemannIG.State ℝ := { s with u := s.u + v }

theorem uxS_boost (q : Prob) (v px : ℝ) : uxS (q.boost v) px = uxS q px + v := by
  simp only [uxS, Prob.boost]; ring
theorem uxF_boost (q : Prob) (v px : ℝ) : uxF (q.boost v) px = uxF q px + v := by
  simp only [uxF, Prob.boost]; ring

private theorem bnd {A B x w : ℝ} (h : A = B + w) : (A ≤ x + w ↔ B ≤ x) := by
  rw [h]; exact add_le_add_iff_right w

theorem boost_proj (q : Prob) (v : ℝ) :
    (q.boost v).pl = q.pl ∧ (q.boost v).rl = q.rl ∧ (q.boost v).ul = q.ul + v ∧ (q.boost v).gl = q.gl ∧
    (q.boost v).pr = q.pr ∧ (q.boost v).rr = q.rr ∧ (q.boost v).ur = q.ur + v ∧ (q.boost v).gr = q.gr :=
  ⟨rfl, rfl, rfl, rfl, rfl, rfl, rfl, rfl⟩

/-- C09 (boost), whole solution, any given pattern: the assembled solution of the boosted data
at the translated point is the boosted original solution, in the same region -/
theorem solveWith_boost (q : Prob) (pat : RiemannIG.Pattern) (v px xd0 x t : ℝ) (ht : t ≠ 0)
    (hgl : q.gl + 1 ≠ 0) (hgr : q.gr + 1 ≠ 0) :
    RiemannIG.solveWith (toData (q.boost v)) pat px xd0 (x + v * t) t
      = ((RiemannIG.solveWith (toData q) pat px xd0 x t).1,
         boostState v (RiemannIG.solveWith (toData q) pat px xd0 x t).2) := by
  obtain ⟨b1, b2, b3, b4, b5, b6, b7, b8⟩ := boost_proj q v
  have hL : RiemannIG.leftState (toData (q.boost v)) = boostState v (RiemannIG.leftState (toData q)) := by
    rw [leftState_eq, leftState_eq]; simp only [boostState, b1, b2, b3, b4]
  have hR : RiemannIG.rightState (toData (q.boost v)) = boostState v (RiemannIG.rightState (toData q)) := by
    rw [rightState_eq, rightState_eq]; simp only [boostState, b5, b6, b7, b8]
  have hfL : RiemannIG.fanState (toData (q.boost v)) q.pl q.rl (q.ul + v) q.gl (x + v * t) xd0 t
      = boostState v (RiemannIG.fanState (toData q) q.pl q.rl q.ul q.gl x xd0 t) := by
    obtain ⟨f1, f2, f3⟩ := fan_boost q v q.pl q.rl q.ul q.gl xd0 x t ht hgl
    rw [fanState_eq, fanState_eq]; simp only [boostState, f1, f2, f3]
  have hfR : RiemannIG.fanState (toData (q.boost v)) q.pr q.rr (q.ur + v) q.gr (x + v * t) xd0 t
      = boostState v (RiemannIG.fanState (toData q) q.pr q.rr q.ur q.gr x xd0 t) := by
    obtain ⟨f1, f2, f3⟩ := fan_boost q v q.pr q.rr q.ur q.gr xd0 x t ht hgr
    rw [fanState_eq, fanState_eq]; simp only [boostState, f1, f2, f3]
  have dl : ∀ q' : Prob, (toData q').pl = q'.pl ∧ (toData q').rl = q'.rl ∧ (toData q').ul = q'.ul ∧
      (toData q').gl = q'.gl ∧ (toData q').pr = q'.pr ∧ (toData q').rr = q'.rr ∧ (toData q').ur = q'.ur ∧
      (toData q').gr = q'.gr := fun _ => ⟨rfl, rfl, rfl, rfl, rfl, rfl, rfl, rfl⟩
  obtain ⟨d1, d2, d3, d4, d5, d6, d7, d8⟩ := dl q
  obtain ⟨e1, e2, e3, e4, e5, e6, e7, e8⟩ := dl (q.boost v)
  unfold RiemannIG.solveWith
  rw [hL]
  have key := assemble_rel (boostState v) x (x + v * t)
  cases pat
  case SCS =>
    refine key _ _ _ _ 0 (0, _) ?_ ?_
    · rw [vregs_SCS, vregs_SCS]
      simp only [RiemannIG.xregs, List.map, b1, b2, b3, b4, b5, b6, b7, b8, shockVel_boost, uxS_boost]
      repeat (first | exact List.Forall₂.nil
                    | refine List.Forall₂.cons (bnd (by ring)) ?_)
    · simp only [RiemannIG.regStates, starL_shock _ _ _ (Or.inl rfl), starR_shock _ _ _ (Or.inl rfl),
        ux_shock _ _ _ (Or.inl rfl), hR, uxS_boost, b1, b2, b3, b4, b5, b6, b7, b8]
      repeat (first | exact List.Forall₂.nil | refine List.Forall₂.cons rfl ?_)
  case SCR =>
    refine key _ _ _ _ 0 (0, _) ?_ ?_
    · rw [vregs_SCR, vregs_SCR]
      simp only [RiemannIG.xregs, List.map, b1, b2, b3, b4, b5, b6, b7, b8, shockVel_boost, uxS_boost]
      repeat (first | exact List.Forall₂.nil
                    | refine List.Forall₂.cons (bnd (by ring)) ?_)
    · simp only [RiemannIG.regStates, starL_shock _ _ _ (Or.inr rfl), starR_fan _ _ _ (Or.inl rfl),
        ux_shock _ _ _ (Or.inr rfl), hR, uxS_boost, b1, b2, b3, b4, b5, b6, b7, b8,
        d1, d2, d3, d4, d5, d6, d7, d8, e1, e2, e3, e4, e5, e6, e7, e8, hfL, hfR]
      repeat (first | exact List.Forall₂.nil | refine List.Forall₂.cons rfl ?_)
  case RCS =>
    refine key _ _ _ _ 0 (0, _) ?_ ?_
    · rw [vregs_RCS, vregs_RCS]
      simp only [RiemannIG.xregs, List.map, b1, b2, b3, b4, b5, b6, b7, b8, shockVel_boost, uxF_boost]
      repeat (first | exact List.Forall₂.nil
                    | refine List.Forall₂.cons (bnd (by ring)) ?_)
    · simp only [RiemannIG.regStates, starL_fan _ _ _ (Or.inl rfl), starR_shock _ _ _ (Or.inr rfl),
        ux_fan _ _ _ (Or.inl rfl), hR, uxF_boost, b1, b2, b3, b4, b5, b6, b7, b8,
        d1, d2, d3, d4, d5, d6, d7, d8, e1, e2, e3, e4, e5, e6, e7, e8, hfL, hfR]
      repeat (first | exact List.Forall₂.nil | refine List.Forall₂.cons rfl ?_)
  case RCR =>
    refine key _ _ _ _ 0 (0, _) ?_ ?_
    · rw [vregs_RCR, vregs_RCR]
      simp only [RiemannIG.xregs, List.map, b1, b2, b3, b4, b5, b6, b7, b8, uxF_boost]
      repeat (first | exact List.Forall₂.nil
                    | refine List.Forall₂.cons (bnd (by ring)) ?_)
    · simp only [RiemannIG.regStates, starL_fan _ _ _ (Or.inr rfl), starR_fan _ _ _ (Or.inr rfl),
        ux_fan _ _ _ (Or.inr rfl), hR, uxF_boost, b1, b2, b3, b4, b5, b6, b7, b8,
        d1, d2, d3, d4, d5, d6, d7, d8, e1, e2, e3, e4, e5, e6, e7, e8, hfL, hfR]
      repeat (first | exact List.Forall₂.nil | refine List.Forall₂.cons rfl ?_)
  case RCVCR => simp [RiemannIG.vregs, RiemannIG.xregs, RiemannIG.assemble]
  case none => simp [RiemannIG.vregs, RiemannIG.xregs, RiemannIG.assemble]

/-- C09 (boost), whole solution: adding a constant velocity `v` to both states yields the
original solution translated with that velocity (same pattern, same region, same p, ρ, e) and
with velocities shifted by it -/
theorem solve_boost (q : Prob) (v px xd0 x t : ℝ) (ht : t ≠ 0) (hgl : q.gl + 1 ≠ 0) (hgr : q.gr + 1 ≠ 0) :
    Riem.solve (q.boost v) px xd0 (x + v * t) t
      = ((Riem.solve q px xd0 x t).1, (Riem.solve q px xd0 x t).2.1, boostState v (Riem.solve q px xd0 x t).2.2) := by
  simp only [Riem.solve, RiemannIG.solve]
  rw [solveWith_boost q _ v px xd0 x t ht hgl hgr, classify_boost]

/-- non-vacuity at the solver defaults -/
example : (1 / 4 : ℝ) ≠ 0 ∧ sod.gl + 1 ≠ 0 ∧ sod.gr + 1 ≠ 0 := by unfold sod; norm_num

/-! ### mirror: the whole assembled solution -/

/-- the mirror image of a state: velocity negated -/
def mirrorState (s : RiemannIG.State ℝ) : RiemannIG.State ℝ := { s with u := -s.u }

theorem mirror_proj (q : Prob) :
    q.mirror.pl = q.pr ∧ q.mirror.rl = q.rr ∧ q.mirror.ul = -q.ur ∧ q.mirror.gl = q.gr ∧
    q.mirror.pr = q.pl ∧ q.mirror.rr = q.rl ∧ q.mirror.ur = -q.ul ∧ q.mirror.gr = q.gl :=
  ⟨rfl, rfl, rfl, rfl, rfl, rfl, rfl, rfl⟩

theorem leftState_mirror (q : Prob) :
    RiemannIG.leftState (toData q.mirror) = mirrorState (RiemannIG.rightState (toData q)) := by
  rw [leftState_eq, rightState_eq]; rfl
theorem rightState_mirror (q : Prob) :
    RiemannIG.rightState (toData q.mirror) = mirrorState (RiemannIG.leftState (toData q)) := by
  rw [leftState_eq, rightState_eq]; rfl

private theorem pos_order {xd0 t a b : ℝ} (ht : 0 < t) (h : a < b) : xd0 + t * a < xd0 + t * b := by
  have := mul_lt_mul_of_pos_left h ht; linarith

private theorem refl_pos (xd0 t V : ℝ) : xd0 + t * -V = 2 * xd0 - (xd0 + t * V) := by ring

/-- SCS ↦ SCS -/
theorem solveWith_mirror_SCS (q : Prob) (hq : q.Admissible) (hd : q.Distinct) {px : ℝ} (hpx : 0 < px)
    (h0 : SCS q px = 0) (xd0 x t : ℝ) (ht : 0 < t)
    (hx : ∀ V ∈ RiemannIG.vregs (toData q) .SCS px, x ≠ xd0 + t * V) :
    RiemannIG.solveWith (toData q.mirror) .SCS px xd0 (2 * xd0 - x) t
      = (3 - (RiemannIG.solveWith (toData q) .SCS px xd0 x t).1,
         mirrorState (RiemannIG.solveWith (toData q) .SCS px xd0 x t).2) := by
  obtain ⟨hpl, hrl, hgl, hpr, hrr, hgr⟩ := id hq
  obtain ⟨m1, m2, m3, m4, m5, m6, m7, m8⟩ := mirror_proj q
  obtain ⟨sv1, sv2⟩ := Riem.shockVel_mirror q hd px
  have hux := (Riem.ux_mirror q px).1 h0
  -- order of the speeds
  have o1 : shockVel q px q.pl q.rl q.ul q.gl < uxS q px := by
    rw [shockVel_left_mflux q hq hpx.le]; unfold uxS
    rw [shock_mflux hrl (by linarith) (NN_pos hpl hgl hpx.le)]
    have := shock_speed_order hpl hrl hgl hpx
    linarith
  have o2 : uxS q px < shockVel q px q.pr q.rr q.ur q.gr := by
    rw [shockVel_right_mflux q hq hd hpx.le]; unfold uxS
    rw [Riem.scs_ux q px h0, shock_mflux hrr (by linarith) (NN_pos hpr hgr hpx.le)]
    have := shock_speed_order hpr hrr hgr hpx
    linarith
  rw [vregs_SCS] at hx
  have n0 := hx (shockVel q px q.pl q.rl q.ul q.gl) (by simp)
  have n1 := hx (uxS q px) (by simp)
  have n2 := hx (shockVel q px q.pr q.rr q.ur q.gr) (by simp)
  have X01 : xd0 + t * shockVel q px q.pl q.rl q.ul q.gl < xd0 + t * uxS q px := pos_order ht o1
  have X12 : xd0 + t * uxS q px < xd0 + t * shockVel q px q.pr q.rr q.ur q.gr := pos_order ht o2
  -- the mirrored pieces
  have hsL : RiemannIG.starL (toData q.mirror) .SCS px = mirrorState (RiemannIG.starR (toData q) .SCS px) := by
    rw [starL_shock _ _ _ (Or.inl rfl), starR_shock _ _ _ (Or.inl rfl), ux_shock _ _ _ (Or.inl rfl), hux]
    simp only [mirrorState, m1, m2, m4]
  have hsR : RiemannIG.starR (toData q.mirror) .SCS px = mirrorState (RiemannIG.starL (toData q) .SCS px) := by
    rw [starL_shock _ _ _ (Or.inl rfl), starR_shock _ _ _ (Or.inl rfl), ux_shock _ _ _ (Or.inl rfl), hux]
    simp only [mirrorState, m5, m6, m8]
  unfold RiemannIG.solveWith
  rw [vregs_SCS, vregs_SCS]
  simp only [RiemannIG.xregs, List.map, RiemannIG.regStates, m1, m2, m3, m4, m5, m6, m7, m8, sv1, sv2, hux, refl_pos,
    hsL, hsR, leftState_mirror, rightState_mirror]
  exact asm3_mirror _ _ _ _ mirrorState X01 X12 n0 n1 n2

theorem toData_proj (q : Prob) :
    (toData q).pl = q.pl ∧ (toData q).rl = q.rl ∧ (toData q).ul = q.ul ∧ (toData q).gl = q.gl ∧
    (toData q).pr = q.pr ∧ (toData q).rr = q.rr ∧ (toData q).ur = q.ur ∧ (toData q).gr = q.gr :=
  ⟨rfl, rfl, rfl, rfl, rfl, rfl, rfl, rfl⟩

/-- the fan entries of the mirrored problem at the reflected point -/
theorem fanState_mirror (q : Prob) (hd : q.Distinct) (xd0 x t : ℝ) (ht : t ≠ 0) :
    RiemannIG.fanState (toData q.mirror) q.pl q.rl (-q.ul) q.gl (2 * xd0 - x) xd0 t
      = mirrorState (RiemannIG.fanState (toData q) q.pl q.rl q.ul q.gl x xd0 t) ∧
    RiemannIG.fanState (toData q.mirror) q.pr q.rr (-q.ur) q.gr (2 * xd0 - x) xd0 t
      = mirrorState (RiemannIG.fanState (toData q) q.pr q.rr q.ur q.gr x xd0 t) := by
  obtain ⟨⟨a1, a2, a3⟩, ⟨b1, b2, b3⟩⟩ := Riem.fan_mirror q hd xd0 x t ht
  constructor
  · rw [fanState_eq, fanState_eq]; simp only [mirrorState, a1, a2, a3]
  · rw [fanState_eq, fanState_eq]; simp only [mirrorState, b1, b2, b3]

/-- SCR ↦ RCS -/
theorem solveWith_mirror_SCR (q : Prob) (hq : q.Admissible) (hd : q.Distinct) {px : ℝ} (hpx : 0 < px)
    (h0 : SCR q px = 0) (hr : px < q.pr) (xd0 x t : ℝ) (ht : 0 < t)
    (hx : ∀ V ∈ RiemannIG.vregs (toData q) .SCR px, x ≠ xd0 + t * V) :
    RiemannIG.solveWith (toData q.mirror) .RCS px xd0 (2 * xd0 - x) t
      = (4 - (RiemannIG.solveWith (toData q) .SCR px xd0 x t).1,
         mirrorState (RiemannIG.solveWith (toData q) .SCR px xd0 x t).2) := by
  obtain ⟨hpl, hrl, hgl, hpr, hrr, hgr⟩ := id hq
  obtain ⟨m1, m2, m3, m4, m5, m6, m7, m8⟩ := mirror_proj q
  obtain ⟨d1, d2, d3, d4, d5, d6, d7, d8⟩ := toData_proj q
  obtain ⟨e1, e2, e3, e4, e5, e6, e7, e8⟩ := toData_proj q.mirror
  obtain ⟨sv1, sv2⟩ := Riem.shockVel_mirror q hd px
  obtain ⟨fm1, fm2⟩ := fanState_mirror q hd xd0 x t ht.ne'
  have hux := (Riem.ux_mirror q px).2.2.1 h0
  set ax2 := sound px (rhoRare px q.pr q.rr q.gr) q.gr with hax2
  have hax2pos : 0 < ax2 := sound_pos hpx (rhoRare_pos hpr hrr hpx) (by linarith)
  have o1 : shockVel q px q.pl q.rl q.ul q.gl < uxS q px := by
    rw [shockVel_left_mflux q hq hpx.le]; unfold uxS
    rw [shock_mflux hrl (by linarith) (NN_pos hpl hgl hpx.le)]
    have := shock_speed_order hpl hrl hgl hpx
    linarith
  have o3 : uxS q px + ax2 < q.ur + sound q.pr q.rr q.gr := by
    have := fan_speed_order hpr hrr hgr hpx hr
    unfold uxS; rw [Riem.scr_ux q px h0]; linarith
  rw [vregs_SCR] at hx
  have n0 := hx (shockVel q px q.pl q.rl q.ul q.gl) (by simp)
  have n1 := hx (uxS q px) (by simp)
  have n2 := hx (uxS q px + ax2) (by simp [hax2])
  have n3 := hx (q.ur + sound q.pr q.rr q.gr) (by simp)
  have X01 : xd0 + t * shockVel q px q.pl q.rl q.ul q.gl < xd0 + t * uxS q px := pos_order ht o1
  have X12 : xd0 + t * uxS q px < xd0 + t * (uxS q px + ax2) := pos_order ht (by linarith)
  have X23 : xd0 + t * (uxS q px + ax2) < xd0 + t * (q.ur + sound q.pr q.rr q.gr) := pos_order ht o3
  have hsL : RiemannIG.starL (toData q.mirror) .RCS px = mirrorState (RiemannIG.starR (toData q) .SCR px) := by
    rw [starL_fan _ _ _ (Or.inl rfl), starR_fan _ _ _ (Or.inl rfl), ux_shock _ _ _ (Or.inr rfl), hux]
    simp only [mirrorState, m1, m2, m4]
  have hsR : RiemannIG.starR (toData q.mirror) .RCS px = mirrorState (RiemannIG.starL (toData q) .SCR px) := by
    rw [starL_shock _ _ _ (Or.inr rfl), starR_shock _ _ _ (Or.inr rfl), ux_fan _ _ _ (Or.inl rfl), hux]
    simp only [mirrorState, m5, m6, m8]
  have f0 : -q.ur - sound q.pr q.rr q.gr = -(q.ur + sound q.pr q.rr q.gr) := by ring
  have f1 : -uxS q px - ax2 = -(uxS q px + ax2) := by ring
  unfold RiemannIG.solveWith
  rw [vregs_RCS, vregs_SCR]
  simp only [RiemannIG.xregs, List.map, RiemannIG.regStates, e1, e2, e3, e4, e5, e6, e7, e8, d1, d2, d3, d4, d5, d6, d7, d8,
    m1, m2, m3, m4, m5, m6, m7, m8, sv1, sv2, hux, ← hax2, f0, f1, refl_pos, hsL, hsR, fm1, fm2, leftState_mirror,
    rightState_mirror]
  exact asm4_mirror _ _ _ _ _ mirrorState X01 X12 X23 n0 n1 n2 n3

/-- RCS ↦ SCR -/
theorem solveWith_mirror_RCS (q : Prob) (hq : q.Admissible) (hd : q.Distinct) {px : ℝ} (hpx : 0 < px)
    (h0 : RCS q px = 0) (hl : px < q.pl) (xd0 x t : ℝ) (ht : 0 < t)
    (hx : ∀ V ∈ RiemannIG.vregs (toData q) .RCS px, x ≠ xd0 + t * V) :
    RiemannIG.solveWith (toData q.mirror) .SCR px xd0 (2 * xd0 - x) t
      = (4 - (RiemannIG.solveWith (toData q) .RCS px xd0 x t).1,
         mirrorState (RiemannIG.solveWith (toData q) .RCS px xd0 x t).2) := by
  obtain ⟨hpl, hrl, hgl, hpr, hrr, hgr⟩ := id hq
  obtain ⟨m1, m2, m3, m4, m5, m6, m7, m8⟩ := mirror_proj q
  obtain ⟨d1, d2, d3, d4, d5, d6, d7, d8⟩ := toData_proj q
  obtain ⟨e1, e2, e3, e4, e5, e6, e7, e8⟩ := toData_proj q.mirror
  obtain ⟨sv1, sv2⟩ := Riem.shockVel_mirror q hd px
  obtain ⟨fm1, fm2⟩ := fanState_mirror q hd xd0 x t ht.ne'
  have hux := (Riem.ux_mirror q px).2.1 h0
  set ax1 := sound px (rhoRare px q.pl q.rl q.gl) q.gl with hax1
  have hax1pos : 0 < ax1 := sound_pos hpx (rhoRare_pos hpl hrl hpx) (by linarith)
  have o0 : q.ul - sound q.pl q.rl q.gl < uxF q px - ax1 := by
    have := fan_speed_order hpl hrl hgl hpx hl
    unfold uxF; linarith
  have o2 : uxF q px < shockVel q px q.pr q.rr q.ur q.gr := by
    rw [shockVel_right_mflux q hq hd hpx.le]; unfold uxF
    rw [Riem.rcs_ux q px h0, shock_mflux hrr (by linarith) (NN_pos hpr hgr hpx.le)]
    have := shock_speed_order hpr hrr hgr hpx
    linarith
  rw [vregs_RCS] at hx
  have n0 := hx (q.ul - sound q.pl q.rl q.gl) (by simp)
  have n1 := hx (uxF q px - ax1) (by simp [hax1])
  have n2 := hx (uxF q px) (by simp)
  have n3 := hx (shockVel q px q.pr q.rr q.ur q.gr) (by simp)
  have X01 : xd0 + t * (q.ul - sound q.pl q.rl q.gl) < xd0 + t * (uxF q px - ax1) := pos_order ht o0
  have X12 : xd0 + t * (uxF q px - ax1) < xd0 + t * uxF q px := pos_order ht (by linarith)
  have X23 : xd0 + t * uxF q px < xd0 + t * shockVel q px q.pr q.rr q.ur q.gr := pos_order ht o2
  have hsL : RiemannIG.starL (toData q.mirror) .SCR px = mirrorState (RiemannIG.starR (toData q) .RCS px) := by
    rw [starL_shock _ _ _ (Or.inr rfl), starR_shock _ _ _ (Or.inr rfl), ux_fan _ _ _ (Or.inl rfl), hux]
    simp only [mirrorState, m1, m2, m4]
  have hsR : RiemannIG.starR (toData q.mirror) .SCR px = mirrorState (RiemannIG.starL (toData q) .RCS px) := by
    rw [starL_fan _ _ _ (Or.inl rfl), starR_fan _ _ _ (Or.inl rfl), ux_shock _ _ _ (Or.inr rfl), hux]
    simp only [mirrorState, m5, m6, m8]
  have f0 : -uxF q px + ax1 = -(uxF q px - ax1) := by ring
  have f1 : -q.ul + sound q.pl q.rl q.gl = -(q.ul - sound q.pl q.rl q.gl) := by ring
  unfold RiemannIG.solveWith
  rw [vregs_SCR, vregs_RCS]
  simp only [RiemannIG.xregs, List.map, RiemannIG.regStates, e1, e2, e3, e4, e5, e6, e7, e8, d1, d2, d3, d4, d5, d6, d7, d8,
    m1, m2, m3, m4, m5, m6, m7, m8, sv1, sv2, hux, ← hax1, f0, f1, refl_pos, hsL, hsR, fm1, fm2, leftState_mirror,
    rightState_mirror]
  exact asm4_mirror _ _ _ _ _ mirrorState X01 X12 X23 n0 n1 n2 n3

/-- RCR ↦ RCR -/
theorem solveWith_mirror_RCR (q : Prob) (hq : q.Admissible) (hd : q.Distinct) {px : ℝ} (hpx : 0 < px)
    (h0 : RCR q px = 0) (hl : px < q.pl) (hr : px < q.pr) (xd0 x t : ℝ) (ht : 0 < t)
    (hx : ∀ V ∈ RiemannIG.vregs (toData q) .RCR px, x ≠ xd0 + t * V) :
    RiemannIG.solveWith (toData q.mirror) .RCR px xd0 (2 * xd0 - x) t
      = (5 - (RiemannIG.solveWith (toData q) .RCR px xd0 x t).1,
         mirrorState (RiemannIG.solveWith (toData q) .RCR px xd0 x t).2) := by
  obtain ⟨hpl, hrl, hgl, hpr, hrr, hgr⟩ := id hq
  obtain ⟨m1, m2, m3, m4, m5, m6, m7, m8⟩ := mirror_proj q
  obtain ⟨d1, d2, d3, d4, d5, d6, d7, d8⟩ := toData_proj q
  obtain ⟨e1, e2, e3, e4, e5, e6, e7, e8⟩ := toData_proj q.mirror
  obtain ⟨fm1, fm2⟩ := fanState_mirror q hd xd0 x t ht.ne'
  have hux := (Riem.ux_mirror q px).2.2.2 h0
  set ax1 := sound px (rhoRare px q.pl q.rl q.gl) q.gl with hax1
  set ax2 := sound px (rhoRare px q.pr q.rr q.gr) q.gr with hax2
  have hax1pos : 0 < ax1 := sound_pos hpx (rhoRare_pos hpl hrl hpx) (by linarith)
  have hax2pos : 0 < ax2 := sound_pos hpx (rhoRare_pos hpr hrr hpx) (by linarith)
  have o0 : q.ul - sound q.pl q.rl q.gl < uxF q px - ax1 := by
    have := fan_speed_order hpl hrl hgl hpx hl
    unfold uxF; linarith
  have o3 : uxF q px + ax2 < q.ur + sound q.pr q.rr q.gr := by
    have := fan_speed_order hpr hrr hgr hpx hr
    unfold uxF; rw [Riem.rcr_ux q px h0]; linarith
  rw [vregs_RCR] at hx
  have n0 := hx (q.ul - sound q.pl q.rl q.gl) (by simp)
  have n1 := hx (uxF q px - ax1) (by simp [hax1])
  have n2 := hx (uxF q px) (by simp)
  have n3 := hx (uxF q px + ax2) (by simp [hax2])
  have n4 := hx (q.ur + sound q.pr q.rr q.gr) (by simp)
  have X01 : xd0 + t * (q.ul - sound q.pl q.rl q.gl) < xd0 + t * (uxF q px - ax1) := pos_order ht o0
  have X12 : xd0 + t * (uxF q px - ax1) < xd0 + t * uxF q px := pos_order ht (by linarith)
  have X23 : xd0 + t * uxF q px < xd0 + t * (uxF q px + ax2) := pos_order ht (by linarith)
  have X34 : xd0 + t * (uxF q px + ax2) < xd0 + t * (q.ur + sound q.pr q.rr q.gr) := pos_order ht o3
  have hsL : RiemannIG.starL (toData q.mirror) .RCR px = mirrorState (RiemannIG.starR (toData q) .RCR px) := by
    rw [starL_fan _ _ _ (Or.inr rfl), starR_fan _ _ _ (Or.inr rfl), ux_fan _ _ _ (Or.inr rfl), hux]
    simp only [mirrorState, m1, m2, m4]
  have hsR : RiemannIG.starR (toData q.mirror) .RCR px = mirrorState (RiemannIG.starL (toData q) .RCR px) := by
    rw [starL_fan _ _ _ (Or.inr rfl), starR_fan _ _ _ (Or.inr rfl), ux_fan _ _ _ (Or.inr rfl), hux]
    simp only [mirrorState, m5, m6, m8]
  have f0 : -q.ur - sound q.pr q.rr q.gr = -(q.ur + sound q.pr q.rr q.gr) := by ring
  have f1 : -uxF q px - ax2 = -(uxF q px + ax2) := by ring
  have f2 : -uxF q px + ax1 = -(uxF q px - ax1) := by ring
  have f3 : -q.ul + sound q.pl q.rl q.gl = -(q.ul - sound q.pl q.rl q.gl) := by ring
  unfold RiemannIG.solveWith
  rw [vregs_RCR, vregs_RCR]
  simp only [RiemannIG.xregs, List.map, RiemannIG.regStates, e1, e2, e3, e4, e5, e6, e7, e8, d1, d2, d3, d4, d5, d6, d7, d8,
    m1, m2, m3, m4, m5, m6, m7, m8, hux, ← hax1, ← hax2, f0, f1, f2, f3, refl_pos, hsL, hsR, fm1, fm2, leftState_mirror,
    rightState_mirror]
  exact asm5_mirror _ _ _ _ _ _ mirrorState X01 X12 X23 X34 n0 n1 n2 n3 n4

/-- C09 (mirror), whole solution.  Exchange the two states, negate the velocities, reflect about the
membrane: the solver's answer for the mirrored problem at the reflected point 2·xd0 - x is the
mirror image of its answer for the original problem at x — mirror-image pattern, regions counted
from the other end, same p, ρ, e, negated u.  Hypotheses: admissible data, L ≠ R (P), t > 0, `px`
the root of the residual of the pattern the driver selects (atom), and x not exactly on a wave
(the driver's `xl <= x` makes every region closed on the left, its mirror image closed on the right). -/
theorem solve_mirror (q : Prob) (hq : q.Admissible) (hd : q.Distinct) {px : ℝ} (hpx : 0 < px) (xd0 x t : ℝ)
    (ht : 0 < t) (hx : ∀ V ∈ RiemannIG.vregs (toData q) (RiemannIG.classify (toData q)) px, x ≠ xd0 + t * V) :
    (RiemannIG.classify (toData q) = .SCS → SCS q px = 0 →
      Riem.solve q.mirror px xd0 (2 * xd0 - x) t
        = (.SCS, 3 - (Riem.solve q px xd0 x t).2.1, mirrorState (Riem.solve q px xd0 x t).2.2)) ∧
    (RiemannIG.classify (toData q) = .SCR → SCR q px = 0 →
      Riem.solve q.mirror px xd0 (2 * xd0 - x) t
        = (.RCS, 4 - (Riem.solve q px xd0 x t).2.1, mirrorState (Riem.solve q px xd0 x t).2.2)) ∧
    (RiemannIG.classify (toData q) = .RCS → RCS q px = 0 →
      Riem.solve q.mirror px xd0 (2 * xd0 - x) t
        = (.SCR, 4 - (Riem.solve q px xd0 x t).2.1, mirrorState (Riem.solve q px xd0 x t).2.2)) ∧
    (RiemannIG.classify (toData q) = .RCR → RCR q px = 0 →
      Riem.solve q.mirror px xd0 (2 * xd0 - x) t
        = (.RCR, 5 - (Riem.solve q px xd0 x t).2.1, mirrorState (Riem.solve q px xd0 x t).2.2)) := by
  have hpl : q.pl ≠ 0 := hq.1.ne'
  have hcm := classify_mirror q hpl
  refine ⟨fun hc h0 => ?_, fun hc h0 => ?_, fun hc h0 => ?_, fun hc h0 => ?_⟩ <;>
    simp only [Riem.solve, RiemannIG.solve, hcm, hc, mirrorPat] <;> rw [hc] at hx
  · rw [solveWith_mirror_SCS q hq hd hpx h0 xd0 x t ht hx]
  · have hr := (scr_range q hq hpx h0 (chain_SCR (by rw [← classify_eq]; exact hc))).2
    rw [solveWith_mirror_SCR q hq hd hpx h0 hr xd0 x t ht hx]
  · have hr := (rcs_range q hq hpx h0 (chain_RCS (by rw [← classify_eq]; exact hc))).2
    rw [solveWith_mirror_RCS q hq hd hpx h0 hr xd0 x t ht hx]
  · have hr := rcr_range q hq hpx h0 (chain_RCR (by rw [← classify_eq]; exact hc))
    rw [solveWith_mirror_RCR q hq hd hpx h0 hr.1 hr.2 xd0 x t ht hx]

/-- non-vacuity -/
example : sod.Admissible ∧ sod.Distinct ∧ (0 : ℝ) < 3 / 10 ∧ (0 : ℝ) < 1 / 4 :=
  ⟨sod_admissible.1, sod_admissible.2, by norm_num, by norm_num⟩

end EPV.C09.Riemann
