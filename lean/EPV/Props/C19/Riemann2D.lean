/-
C19 — the steady supersonic two-state Riemann problem in two dimensions
(`exactpack/solvers/riemann2D_2section_steadystate`).

Function level (generated models R2Comp, R2Exp, R2PM of `compression_states`, `expansion_states`,
`PrandtlMeyer_function`):
* `comp_oblique_shock`: the state behind a shock is the oblique-shock Rankine–Hugoniot state for
  the pressure ratio and the upstream Mach number, and the returned deflection is its turning angle
  (normal / tangential decomposition, `Spec.Riemann2D.ObliqueShock`);
* `exp_isentropic`, `exp_isentropic_text`: a fan state lies on the isentrope of its upstream state
  and has the same total enthalpy;
* `exp_turning_coded`: the reported turning is the difference of the CODED `PrandtlMeyer_function`
  between the end states;
* FINDING (module `EPV.Props.C19.FindingPrandtlMeyer`): the property "each fan turns the flow by
  exactly ν(M₀) - ν(M)" is FALSE on the current code (arctan(M²-1) instead of arctan √(M²-1)).

Solver level (generated models R2d<pattern> of the public `IGEOS_Solver._run` at one symbolic point,
R2Star<pattern> of `set_starstate_values`; ATOMS: p_star, cd_angle, the pattern, shock angles, the
pressure solve inside a fan):
* `star_*_slipline`: both star states carry p_star and the direction cd_angle;
* `star_*_states`, `r2d_*_states`: every reported state is an initial state or the image of its
  side's initial state under compression_states / expansion_states at the reported pressure — so the
  function-level theorems apply to every point, including the interior of a fan;
* `r2d_*_consistent`: at every point the returned velocity components, Mach number, pressure,
  density are consistent with one flow angle and the sound speed c = √(γ p/ρ) of that side's gas,
  the specific internal energy is p/ρ/(γ-1) (C03), and speed = √(u² + v²).

PARTIAL: the pressure–deflection intersection, the shock-angle solves and the pressure solve inside
a fan are atoms (oracles only); where a fan is involved they inherit the Prandtl–Meyer defect.
-/
import EPV.Gen.R2Comp
import EPV.Gen.R2Exp
import EPV.Gen.R2PM
import EPV.Gen.R2dSCS
import EPV.Gen.R2dSCR
import EPV.Gen.R2dRCS
import EPV.Gen.R2dRCR
import EPV.Gen.R2StarSCS
import EPV.Gen.R2StarSCR
import EPV.Gen.R2StarRCS
import EPV.Gen.R2StarRCR
import EPV.Lemmas.Riemann2D
import EPV.Lemmas.Bridge.SemiSu
import EPV.Tactics

set_option linter.all false

open EPV EPV.Gen EPV.Spec.Riemann2D

namespace EPV.C19

noncomputable section

/-- upstream sound speed squared is positive -/
theorem c2_pos {g p0 r0 : ℝ} (hg : 1 < g) (hp : 0 < p0) (hr : 0 < r0) : 0 < g * p0 / r0 := by
  have : 0 < g := by linarith
  positivity

theorem comp_rs (p : R2Comp.P) :
    R2Comp.rs p = p.r0 * rhoNum p.g (p.ps / p.p0) / rhoDen p.g (p.ps / p.p0) := by
  simp only [epv_tree, epv_leaf, rhoNum, rhoDen]
  epv_semi_su_eq

theorem comp_Ms (p : R2Comp.P) (hg : 1 < p.g) (hp : 0 < p.p0) (hr : 0 < p.r0) (hM : 0 ≤ p.M0) :
    R2Comp.Ms p = Real.sqrt ((p.M0 ^ 2 * rhoNum p.g (p.ps / p.p0) - 2 * ((p.ps / p.p0) ^ 2 - 1))
      / (p.ps / p.p0) / rhoDen p.g (p.ps / p.p0)) := by
  -- the code recomputes the Mach number from the velocity components: put that expression (documented
  -- form) for M₀ on the right, then both sides agree up to normalisation
  have hm := recomputed_mach p.M0 (p.g * p.p0 / p.r0) (p.theta0 / 180 * Real.pi) hM (c2_pos hg hp hr)
  simp only [epv_tree, epv_leaf, rhoNum, rhoDen]
  conv_rhs => rw [← hm]
  epv_semi_su_eq

theorem comp_tan (p : R2Comp.P) (hg : 1 < p.g) (hp : 0 < p.p0) (hr : 0 < p.r0) (hM : 0 ≤ p.M0) :
    Real.tan (R2Comp.deflection p) = Real.sqrt (2 * p.g * p.M0 ^ 2 / rhoNum p.g (p.ps / p.p0) - 1)
      * ((p.ps / p.p0 - 1) / (p.g * p.M0 ^ 2 - p.ps / p.p0 + 1)) := by
  have hm := recomputed_mach p.M0 (p.g * p.p0 / p.r0) (p.theta0 / 180 * Real.pi) hM (c2_pos hg hp hr)
  simp only [epv_tree, epv_leaf, rhoNum, rhoDen, Real.tan_arctan]
  conv_rhs => rw [← hm]
  epv_semi_su_eq

/-- **C19, shocks**: the state `compression_states` returns for pressure `ps` behind the flow
`state = (p0, r0, M0, theta0, g)` is the oblique-shock Rankine–Hugoniot state for the pressure
ratio ps/p0 and upstream Mach number M0, and the returned deflection is the turning angle of that
shock (normal / tangential decomposition). -/
theorem comp_oblique_shock (p : R2Comp.P) (hg : 1 < p.g) (hp : 0 < p.p0) (hr : 0 < p.r0) (hps : 0 < p.ps)
    (hM : 0 ≤ p.M0)
    (hatt : 0 ≤ 2 * p.g * p.M0 ^ 2 / rhoNum p.g (p.ps / p.p0) - 1)
    (hden : p.g * p.M0 ^ 2 - p.ps / p.p0 + 1 ≠ 0) :
    ObliqueShock p.g p.p0 p.r0 (p.M0 * Real.sqrt (p.g * p.p0 / p.r0)) p.ps (R2Comp.rs p)
      (R2Comp.Ms p * Real.sqrt (p.g * p.ps / R2Comp.rs p)) (Real.tan (R2Comp.deflection p)) := by
  have h := obliqueShock_closed_forms p.g p.p0 p.r0 p.M0 (p.ps / p.p0) hg hp hr (div_pos hps hp) hatt hden
  have e : p.ps / p.p0 * p.p0 = p.ps := div_mul_cancel₀ _ hp.ne'
  rw [e] at h
  rw [comp_rs, comp_Ms p hg hp hr hM, comp_tan p hg hp hr hM]
  exact h

/-- the square of the Mach number `expansion_states` returns (before the square root) -/
def expM2 (p : R2Exp.P) : ℝ :=
  (((p.g - 1) * p.M0 ^ 2 / 2 + 1) / (p.ps / p.p0) ^ ((p.g - 1) / p.g) - 1) * 2 / (p.g - 1)

theorem exp_rs (p : R2Exp.P) : R2Exp.rs p = p.r0 * (p.ps / p.p0) ^ (1 / p.g) := by
  simp only [epv_tree, epv_leaf]
  epv_semi_su_eq

theorem exp_Ms (p : R2Exp.P) (hg : 1 < p.g) (hp : 0 < p.p0) (hr : 0 < p.r0) (hM : 0 ≤ p.M0) :
    R2Exp.Ms p = Real.sqrt (expM2 p) := by
  have hm := recomputed_mach p.M0 (p.g * p.p0 / p.r0) (p.theta0 / 180 * Real.pi) hM (c2_pos hg hp hr)
  simp only [epv_tree, epv_leaf, expM2]
  conv_rhs => rw [← hm]
  epv_semi_su_eq

/-- **C19, fans (isentrope)**: the state `expansion_states` returns for pressure `ps` lies on the
isentrope through `state` and has the same total enthalpy. -/
theorem exp_isentropic (p : R2Exp.P) (hg : 1 < p.g) (hp : 0 < p.p0) (hr : 0 < p.r0) (hps : 0 < p.ps)
    (hM : 0 ≤ p.M0) (hM2 : 0 ≤ expM2 p) :
    IsentropicState p.g p.p0 p.r0 p.M0 p.ps (R2Exp.rs p) (R2Exp.Ms p) := by
  have h := isentropic_closed_forms p.g p.p0 p.r0 p.M0 (p.ps / p.p0) hg hp hr (div_pos hps hp) hM2
  have e : p.ps / p.p0 * p.p0 = p.ps := div_mul_cancel₀ _ hp.ne'
  rw [e] at h
  rw [exp_rs, exp_Ms p hg hp hr hM]
  exact h

/-- the same in the words of the property: ρ/ρ₀ = (p/p₀)^{1/γ} and
(1 + (γ-1)M²/2)(p/p₀)^{(γ-1)/γ} = 1 + (γ-1)M₀²/2 -/
theorem exp_isentropic_text (p : R2Exp.P) (hg : 1 < p.g) (hp : 0 < p.p0) (hr : 0 < p.r0) (hps : 0 < p.ps)
    (hM : 0 ≤ p.M0) (hM2 : 0 ≤ expM2 p) :
    R2Exp.rs p / p.r0 = (p.ps / p.p0) ^ (1 / p.g) ∧
      (1 + (p.g - 1) * R2Exp.Ms p ^ 2 / 2) * (p.ps / p.p0) ^ ((p.g - 1) / p.g) = 1 + (p.g - 1) * p.M0 ^ 2 / 2 := by
  constructor
  · rw [exp_rs]; field_simp
  · rw [exp_Ms p hg hp hr hM]
    exact isentropic_text_form p.g p.M0 (p.ps / p.p0) hg (div_pos hps hp) hM2

/-- the turning `expansion_states` reports is the difference of the CODED Prandtl–Meyer function
between the end states -/
theorem exp_turning_coded (p : R2Exp.P) (hg : 1 < p.g) (hp : 0 < p.p0) (hr : 0 < p.r0) (hM : 0 ≤ p.M0) :
    R2Exp.deflection p = R2PM.nu ⟨p.M0, p.g⟩ - R2PM.nu ⟨R2Exp.Ms p, p.g⟩ := by
  have hm := recomputed_mach p.M0 (p.g * p.p0 / p.r0) (p.theta0 / 180 * Real.pi) hM (c2_pos hg hp hr)
  -- `nu ⟨M₀, γ⟩` with the recomputed Mach number (documented form) in place of M₀
  have key : ∀ m : ℝ, m = p.M0 →
      R2Exp.deflection p = R2PM.nu ⟨m, p.g⟩ - R2PM.nu ⟨R2Exp.Ms p, p.g⟩ := by
    intro m hm'
    rw [← hm] at hm'
    subst hm'
    simp only [epv_tree, epv_leaf]
    epv_semi_su_eq
  exact key _ rfl

/-- non-vacuity (defaults of the solver: bottom state p=1, ρ=1, M=2.4, θ=0, γ=1.4; ps = 2 / 0.5) -/
example : ∃ p : R2Comp.P, 1 < p.g ∧ 0 < p.p0 ∧ 0 < p.r0 ∧ 0 < p.ps ∧ 0 ≤ p.M0
    ∧ 0 ≤ 2 * p.g * p.M0 ^ 2 / rhoNum p.g (p.ps / p.p0) - 1 ∧ p.g * p.M0 ^ 2 - p.ps / p.p0 + 1 ≠ 0 :=
  ⟨⟨12 / 5, 7 / 5, 1, 2, 1, 0⟩, by norm_num, by norm_num, by norm_num, by norm_num, by norm_num,
    by unfold rhoNum; norm_num, by norm_num⟩

/-- non-vacuity of the fan theorems: bottom state of the default problem at ps = p0 (then M = M₀) -/
example : ∃ p : R2Exp.P, 1 < p.g ∧ 0 < p.p0 ∧ 0 < p.r0 ∧ 0 < p.ps ∧ 0 ≤ p.M0 ∧ 0 ≤ expM2 p :=
  ⟨⟨12 / 5, 7 / 5, 1, 1, 1, 0⟩, by norm_num, by norm_num, by norm_num, by norm_num, by norm_num,
    by unfold expM2; norm_num⟩

/-! ### solver level -/

/-- case split on one traced path condition, if it still occurs in the goal -/
macro "case_on " c:term : tactic =>
  `(tactic| first | (by_cases h : $c <;> simp only [h, if_true, if_false]) | skip)

/-- what is reported at one point is consistent with the gas of one of the two sides -/
def ReportedConsistent (gB gT p ρ e M u v q : ℝ) : Prop :=
  ∃ γ φ : ℝ, (γ = gB ∨ γ = gT) ∧ Consistent γ p ρ M u v φ ∧ e = p / ρ / (γ - 1) ∧ q = Real.sqrt (u ^ 2 + v ^ 2)

/-- consequences in the words of the property: u² + v² = c² M², c² = γ p/ρ, and v/u = tan φ -/
theorem ReportedConsistent.speed {gB gT p ρ e M u v q : ℝ} (h : ReportedConsistent gB gT p ρ e M u v q)
    (hB : 0 ≤ gB * p / ρ) (hT : 0 ≤ gT * p / ρ) :
    ∃ γ, (γ = gB ∨ γ = gT) ∧ u ^ 2 + v ^ 2 = (γ * p / ρ) * M ^ 2 ∧ q ^ 2 = u ^ 2 + v ^ 2 := by
  obtain ⟨γ, φ, hγ, hc, -, hq⟩ := h
  refine ⟨γ, hγ, hc.speed_sq (by rcases hγ with rfl | rfl <;> assumption), ?_⟩
  rw [hq, Real.sq_sqrt (by positivity)]

/-- introduction rule used by the `r2d_*_consistent` proofs: the gas first, the flow angle last -/
theorem ReportedConsistent.of_angle {gB gT p ρ e M u v q : ℝ} (γ : ℝ) (hγ : γ = gB ∨ γ = gT)
    (he : e = p / ρ / (γ - 1)) (hq : q = Real.sqrt (u ^ 2 + v ^ 2))
    (h : ∃ φ : ℝ, u = Real.sqrt (γ * p / ρ) * M * Real.cos φ ∧ v = Real.sqrt (γ * p / ρ) * M * Real.sin φ) :
    ReportedConsistent gB gT p ρ e M u v q := by
  obtain ⟨φ, hu, hv⟩ := h
  exact ⟨γ, φ, hγ, ⟨hu, hv⟩, he, hq⟩

/-- the same in the order in which the `r2d_*_consistent` proofs establish the parts: the speed (independent
of the gas), then the gas γ with the energy, then the velocity components as one factor `K` times the cosine /
sine of a flow angle, and last `K = √(γ p/ρ) · M` -/
theorem ReportedConsistent.of_speed {gB gT p ρ e M u v q : ℝ} (hq : q = Real.sqrt (u ^ 2 + v ^ 2))
    (h : ∃ γ : ℝ, (γ = gB ∨ γ = gT) ∧ e = p / ρ / (γ - 1) ∧
      ∃ K φ : ℝ, (u = K * Real.cos φ ∧ v = K * Real.sin φ) ∧ K = Real.sqrt (γ * p / ρ) * M) :
    ReportedConsistent gB gT p ρ e M u v q := by
  obtain ⟨γ, hγ, he, K, φ, ⟨hu, hv⟩, hK⟩ := h
  subst hK
  exact ReportedConsistent.of_angle γ hγ he hq ⟨φ, hu, hv⟩

/-- the same term (no unfolding: a failing comparison of two large real terms must stay cheap) -/
macro "epv_semi_su_r2d_same" : tactic => `(tactic| with_reducible rfl)

/-- cheap comparison of a reported value with its documented form: the same term, or the same product of
the same factors in another order -/
macro "epv_semi_su_r2d_fast" : tactic => `(tactic| first | with_reducible rfl | ring1)

/-- the same after `a / b / c` ↦ `a / (b * c)` -/
macro "epv_semi_su_r2d_div" : tactic => `(tactic| (simp only [div_div]; first | with_reducible rfl | ring1))

/-- one level down: `f A = f B` (e.g. `√(v² + u²) = √(u² + v²)`) with `A = B` the same polynomial in the same
(possibly large) atoms -/
macro "epv_semi_su_r2d_peel" : tactic => `(tactic| (congr 1 <;> first | with_reducible rfl | ring1))

/-- comparison up to ring normalisation at every level (under the square roots too) -/
macro "epv_semi_su_r2d_slow" : tactic =>
  `(tactic| first
    | (ring_nf; done)
    | (epv_semi_su_pre; ring_nf; done)
    -- `a / (b * (c - 1))` against `a / b / (c - 1)`: push the inverses inwards before `ring_nf` multiplies out
    | ((try epv_semi_su_pre); epv_semi_inv_nf; ring_nf; done)
    -- (a failing `done` at the end of a term-level `by` is logged, not thrown: end with a proper failure)
    | fail "epv_semi_su_r2d_slow: the two sides differ")

macro "epv_semi_su_r2d_cmp" : tactic => `(tactic| first | epv_semi_su_r2d_fast | epv_semi_su_r2d_peel | epv_semi_su_r2d_div | epv_semi_su_r2d_slow)

/-- the flow angle of one reported state of the solver `p` at the point `(x, y)`, when the velocity is not
literally `K * cos φ`: the slip-line direction, the direction of the bottom / top initial state, or the local
direction inside the bottom / top fan — found by trying these documented candidates, compared up to
normalisation -/
macro "epv_semi_su_r2d_angle " p:term:max x:term:max y:term:max : tactic =>
  `(tactic| first
    | exact ⟨($p).cd_angle, by epv_semi_su_r2d_fast, by epv_semi_su_r2d_fast⟩
    | exact ⟨($p).thetaB / 180 * (1 * Real.pi / 1), by epv_semi_su_r2d_fast, by epv_semi_su_r2d_fast⟩
    | exact ⟨($p).thetaT / 180 * (1 * Real.pi / 1), by epv_semi_su_r2d_fast, by epv_semi_su_r2d_fast⟩
    | exact ⟨($p).cd_angle, by epv_semi_su_r2d_slow, by epv_semi_su_r2d_slow⟩
    | exact ⟨($p).thetaB / 180 * Real.pi, by epv_semi_su_r2d_slow, by epv_semi_su_r2d_slow⟩
    | exact ⟨($p).thetaT / 180 * Real.pi, by epv_semi_su_r2d_slow, by epv_semi_su_r2d_slow⟩
    | exact ⟨Real.arctan ($y / $x) - (($p).thetaB / 180 * Real.pi - Real.arcsin (1 / ($p).MB))
        + ($p).thetaB / 180 * Real.pi, by epv_semi_su_r2d_slow, by epv_semi_su_r2d_slow⟩
    | exact ⟨Real.arctan ($y / $x) - (($p).thetaT / 180 * Real.pi + Real.arcsin (1 / ($p).MT))
        + ($p).thetaT / 180 * Real.pi, by epv_semi_su_r2d_slow, by epv_semi_su_r2d_slow⟩)

/-- one reported state (after the case split on the traced conditions, with the `0 * x +` of the broadcast
initial states removed).  The speed first (once); then the gas of the bottom or of the top side — cheap
attempts first: the velocity is `K * cos φ`, `K * sin φ` for some traced angle `φ`, and `K` is the product
`√(γ p/ρ) · M` in some order; last resort: the documented candidates for the angle. -/
macro "epv_semi_su_r2d_state " p:term:max x:term:max y:term:max : tactic =>
  `(tactic| first
    | (refine ReportedConsistent.of_speed (by epv_semi_su_r2d_cmp) ?_
       first
       | exact ⟨($p).gB, Or.inl rfl, by epv_semi_su_r2d_fast, _, _, ⟨by epv_semi_su_r2d_same, by epv_semi_su_r2d_same⟩, by epv_semi_su_r2d_fast⟩
       | exact ⟨($p).gT, Or.inr rfl, by epv_semi_su_r2d_fast, _, _, ⟨by epv_semi_su_r2d_same, by epv_semi_su_r2d_same⟩, by epv_semi_su_r2d_fast⟩
       | exact ⟨($p).gB, Or.inl rfl, by epv_semi_su_r2d_cmp, _, _, ⟨by epv_semi_su_r2d_same, by epv_semi_su_r2d_same⟩, by epv_semi_su_r2d_cmp⟩
       | exact ⟨($p).gT, Or.inr rfl, by epv_semi_su_r2d_cmp, _, _, ⟨by epv_semi_su_r2d_same, by epv_semi_su_r2d_same⟩, by epv_semi_su_r2d_cmp⟩)
    | (refine ReportedConsistent.of_angle ($p).gB (Or.inl rfl) (by epv_semi_su_r2d_cmp) (by epv_semi_su_r2d_cmp) ?_; epv_semi_su_r2d_angle $p $x $y)
    | (refine ReportedConsistent.of_angle ($p).gT (Or.inr rfl) (by epv_semi_su_r2d_cmp) (by epv_semi_su_r2d_cmp) ?_; epv_semi_su_r2d_angle $p $x $y))

/-! #### wave pattern S-C-S -/

theorem star_scs_slipline (p : R2StarSCS.P) :
    SlipLine p.gB (R2StarSCS.pBs p) (R2StarSCS.rBs p) (R2StarSCS.MBs p) (R2StarSCS.uBs p) (R2StarSCS.vBs p)
      p.gT (R2StarSCS.pTs p) (R2StarSCS.rTs p) (R2StarSCS.MTs p) (R2StarSCS.uTs p) (R2StarSCS.vTs p) p.cd_angle := by
  unfold SlipLine Consistent
  dsimp only [epv_tree, epv_leaf]
  epv_semi_su_conj

theorem star_scs_states (p : R2StarSCS.P) :
    R2StarSCS.pBs p = p.p_star ∧ R2StarSCS.pTs p = p.p_star ∧
    R2StarSCS.rBs p = R2Comp.rs ⟨p.MB, p.gB, p.pB, p.p_star, p.rB, p.thetaB⟩ ∧
    R2StarSCS.MBs p = R2Comp.Ms ⟨p.MB, p.gB, p.pB, p.p_star, p.rB, p.thetaB⟩ ∧
    R2StarSCS.rTs p = R2Comp.rs ⟨p.MT, p.gT, p.pT, p.p_star, p.rT, p.thetaT⟩ ∧
    R2StarSCS.MTs p = R2Comp.Ms ⟨p.MT, p.gT, p.pT, p.p_star, p.rT, p.thetaT⟩ := by
  dsimp only [epv_tree, epv_leaf]
  epv_semi_su_conj

/-- one half of `r2d_scs_consistent` (the leaves under the first traced condition; two lemmas so that each
stays well inside the heartbeat budget whatever the comparison of a leaf costs) -/
theorem r2d_scs_consistent_pos (p : R2dSCS.P) (x y : ℝ) (h0 : R2dSCS.c0 p x y) :
    ReportedConsistent p.gB p.gT (R2dSCS.pressure p x y) (R2dSCS.density p x y)
      (R2dSCS.specific_internal_energy p x y) (R2dSCS.Mach p x y) (R2dSCS.x_velocity p x y)
      (R2dSCS.y_velocity p x y) (R2dSCS.speed p x y) := by
  unfold R2dSCS.pressure R2dSCS.density R2dSCS.specific_internal_energy R2dSCS.Mach R2dSCS.x_velocity
    R2dSCS.y_velocity R2dSCS.speed
  simp only [h0, if_true, if_false]
  case_on (R2dSCS.c1 p x y) <;>
  case_on (R2dSCS.c2 p x y) <;>
  case_on (R2dSCS.c3 p x y) <;>
  case_on (R2dSCS.c4 p x y) <;>
  case_on (R2dSCS.c5 p x y) <;>
  case_on (R2dSCS.c6 p x y) <;>
  case_on (R2dSCS.c7 p x y) <;>
  case_on (R2dSCS.c8 p x y) <;>
  case_on (R2dSCS.c9 p x y) <;>
  case_on (R2dSCS.c10 p x y) <;>
  case_on (R2dSCS.c11 p x y) <;>
  dsimp only [epv_leaf] <;>
  (try simp only [zero_mul, zero_add]) <;>
    epv_semi_su_r2d_state p x y

/-- one half of `r2d_scs_consistent` (the leaves outside the first traced condition; two lemmas so that each
stays well inside the heartbeat budget whatever the comparison of a leaf costs) -/
theorem r2d_scs_consistent_neg (p : R2dSCS.P) (x y : ℝ) (h0 : ¬ R2dSCS.c0 p x y) :
    ReportedConsistent p.gB p.gT (R2dSCS.pressure p x y) (R2dSCS.density p x y)
      (R2dSCS.specific_internal_energy p x y) (R2dSCS.Mach p x y) (R2dSCS.x_velocity p x y)
      (R2dSCS.y_velocity p x y) (R2dSCS.speed p x y) := by
  unfold R2dSCS.pressure R2dSCS.density R2dSCS.specific_internal_energy R2dSCS.Mach R2dSCS.x_velocity
    R2dSCS.y_velocity R2dSCS.speed
  simp only [h0, if_true, if_false]
  case_on (R2dSCS.c1 p x y) <;>
  case_on (R2dSCS.c2 p x y) <;>
  case_on (R2dSCS.c3 p x y) <;>
  case_on (R2dSCS.c4 p x y) <;>
  case_on (R2dSCS.c5 p x y) <;>
  case_on (R2dSCS.c6 p x y) <;>
  case_on (R2dSCS.c7 p x y) <;>
  case_on (R2dSCS.c8 p x y) <;>
  case_on (R2dSCS.c9 p x y) <;>
  case_on (R2dSCS.c10 p x y) <;>
  case_on (R2dSCS.c11 p x y) <;>
  dsimp only [epv_leaf] <;>
  (try simp only [zero_mul, zero_add]) <;>
    epv_semi_su_r2d_state p x y

theorem r2d_scs_consistent (p : R2dSCS.P) (x y : ℝ) :
    ReportedConsistent p.gB p.gT (R2dSCS.pressure p x y) (R2dSCS.density p x y)
      (R2dSCS.specific_internal_energy p x y) (R2dSCS.Mach p x y) (R2dSCS.x_velocity p x y)
      (R2dSCS.y_velocity p x y) (R2dSCS.speed p x y) := by
  by_cases h0 : R2dSCS.c0 p x y
  · exact r2d_scs_consistent_pos p x y h0
  · exact r2d_scs_consistent_neg p x y h0

/-- every reported (pressure, density, Mach) is the bottom or the top initial state, or the image of
that side's initial state under `compression_states` (bottom) /
`compression_states` (top) at the reported pressure -/
theorem r2d_scs_states (p : R2dSCS.P) (x y : ℝ) :
    (R2dSCS.pressure p x y = p.pB ∧ R2dSCS.density p x y = p.rB ∧ R2dSCS.Mach p x y = p.MB) ∨
    (R2dSCS.pressure p x y = p.pT ∧ R2dSCS.density p x y = p.rT ∧ R2dSCS.Mach p x y = p.MT) ∨
    (R2dSCS.density p x y = R2Comp.rs ⟨p.MB, p.gB, p.pB, R2dSCS.pressure p x y, p.rB, p.thetaB⟩ ∧
      R2dSCS.Mach p x y = R2Comp.Ms ⟨p.MB, p.gB, p.pB, R2dSCS.pressure p x y, p.rB, p.thetaB⟩) ∨
    (R2dSCS.density p x y = R2Comp.rs ⟨p.MT, p.gT, p.pT, R2dSCS.pressure p x y, p.rT, p.thetaT⟩ ∧
      R2dSCS.Mach p x y = R2Comp.Ms ⟨p.MT, p.gT, p.pT, R2dSCS.pressure p x y, p.rT, p.thetaT⟩) := by
  unfold R2dSCS.pressure R2dSCS.density R2dSCS.Mach
  case_on (R2dSCS.c0 p x y) <;>
  case_on (R2dSCS.c1 p x y) <;>
  case_on (R2dSCS.c2 p x y) <;>
  case_on (R2dSCS.c3 p x y) <;>
  case_on (R2dSCS.c4 p x y) <;>
  case_on (R2dSCS.c5 p x y) <;>
  case_on (R2dSCS.c6 p x y) <;>
  case_on (R2dSCS.c7 p x y) <;>
  case_on (R2dSCS.c8 p x y) <;>
  case_on (R2dSCS.c9 p x y) <;>
  case_on (R2dSCS.c10 p x y) <;>
  case_on (R2dSCS.c11 p x y) <;>
  dsimp only [epv_tree, epv_leaf] <;>
    first
    | exact Or.inr (Or.inr (Or.inl ⟨rfl, rfl⟩))
    | exact Or.inr (Or.inr (Or.inr ⟨rfl, rfl⟩))
    | exact Or.inl ⟨by epv_semi_su_r2d_fast, by epv_semi_su_r2d_fast, by epv_semi_su_r2d_fast⟩
    | exact Or.inr (Or.inl ⟨by epv_semi_su_r2d_fast, by epv_semi_su_r2d_fast, by epv_semi_su_r2d_fast⟩)

/-! #### wave pattern S-C-R -/

theorem star_scr_slipline (p : R2StarSCR.P) :
    SlipLine p.gB (R2StarSCR.pBs p) (R2StarSCR.rBs p) (R2StarSCR.MBs p) (R2StarSCR.uBs p) (R2StarSCR.vBs p)
      p.gT (R2StarSCR.pTs p) (R2StarSCR.rTs p) (R2StarSCR.MTs p) (R2StarSCR.uTs p) (R2StarSCR.vTs p) p.cd_angle := by
  unfold SlipLine Consistent
  dsimp only [epv_tree, epv_leaf]
  epv_semi_su_conj

theorem star_scr_states (p : R2StarSCR.P) :
    R2StarSCR.pBs p = p.p_star ∧ R2StarSCR.pTs p = p.p_star ∧
    R2StarSCR.rBs p = R2Comp.rs ⟨p.MB, p.gB, p.pB, p.p_star, p.rB, p.thetaB⟩ ∧
    R2StarSCR.MBs p = R2Comp.Ms ⟨p.MB, p.gB, p.pB, p.p_star, p.rB, p.thetaB⟩ ∧
    R2StarSCR.rTs p = R2Exp.rs ⟨p.MT, p.gT, p.pT, p.p_star, p.rT, p.thetaT⟩ ∧
    R2StarSCR.MTs p = R2Exp.Ms ⟨p.MT, p.gT, p.pT, p.p_star, p.rT, p.thetaT⟩ := by
  dsimp only [epv_tree, epv_leaf]
  epv_semi_su_conj

/-- one half of `r2d_scr_consistent` (the leaves under the first traced condition; two lemmas so that each
stays well inside the heartbeat budget whatever the comparison of a leaf costs) -/
theorem r2d_scr_consistent_pos (p : R2dSCR.P) (x y : ℝ) (h0 : R2dSCR.c0 p x y) :
    ReportedConsistent p.gB p.gT (R2dSCR.pressure p x y) (R2dSCR.density p x y)
      (R2dSCR.specific_internal_energy p x y) (R2dSCR.Mach p x y) (R2dSCR.x_velocity p x y)
      (R2dSCR.y_velocity p x y) (R2dSCR.speed p x y) := by
  unfold R2dSCR.pressure R2dSCR.density R2dSCR.specific_internal_energy R2dSCR.Mach R2dSCR.x_velocity
    R2dSCR.y_velocity R2dSCR.speed
  simp only [h0, if_true, if_false]
  case_on (R2dSCR.c1 p x y) <;>
  case_on (R2dSCR.c2 p x y) <;>
  case_on (R2dSCR.c3 p x y) <;>
  case_on (R2dSCR.c4 p x y) <;>
  case_on (R2dSCR.c5 p x y) <;>
  case_on (R2dSCR.c6 p x y) <;>
  case_on (R2dSCR.c7 p x y) <;>
  case_on (R2dSCR.c8 p x y) <;>
  case_on (R2dSCR.c9 p x y) <;>
  case_on (R2dSCR.c10 p x y) <;>
  case_on (R2dSCR.c11 p x y) <;>
  dsimp only [epv_leaf] <;>
  (try simp only [zero_mul, zero_add]) <;>
    epv_semi_su_r2d_state p x y

/-- one half of `r2d_scr_consistent` (the leaves outside the first traced condition; two lemmas so that each
stays well inside the heartbeat budget whatever the comparison of a leaf costs) -/
theorem r2d_scr_consistent_neg (p : R2dSCR.P) (x y : ℝ) (h0 : ¬ R2dSCR.c0 p x y) :
    ReportedConsistent p.gB p.gT (R2dSCR.pressure p x y) (R2dSCR.density p x y)
      (R2dSCR.specific_internal_energy p x y) (R2dSCR.Mach p x y) (R2dSCR.x_velocity p x y)
      (R2dSCR.y_velocity p x y) (R2dSCR.speed p x y) := by
  unfold R2dSCR.pressure R2dSCR.density R2dSCR.specific_internal_energy R2dSCR.Mach R2dSCR.x_velocity
    R2dSCR.y_velocity R2dSCR.speed
  simp only [h0, if_true, if_false]
  case_on (R2dSCR.c1 p x y) <;>
  case_on (R2dSCR.c2 p x y) <;>
  case_on (R2dSCR.c3 p x y) <;>
  case_on (R2dSCR.c4 p x y) <;>
  case_on (R2dSCR.c5 p x y) <;>
  case_on (R2dSCR.c6 p x y) <;>
  case_on (R2dSCR.c7 p x y) <;>
  case_on (R2dSCR.c8 p x y) <;>
  case_on (R2dSCR.c9 p x y) <;>
  case_on (R2dSCR.c10 p x y) <;>
  case_on (R2dSCR.c11 p x y) <;>
  dsimp only [epv_leaf] <;>
  (try simp only [zero_mul, zero_add]) <;>
    epv_semi_su_r2d_state p x y

theorem r2d_scr_consistent (p : R2dSCR.P) (x y : ℝ) :
    ReportedConsistent p.gB p.gT (R2dSCR.pressure p x y) (R2dSCR.density p x y)
      (R2dSCR.specific_internal_energy p x y) (R2dSCR.Mach p x y) (R2dSCR.x_velocity p x y)
      (R2dSCR.y_velocity p x y) (R2dSCR.speed p x y) := by
  by_cases h0 : R2dSCR.c0 p x y
  · exact r2d_scr_consistent_pos p x y h0
  · exact r2d_scr_consistent_neg p x y h0

/-- every reported (pressure, density, Mach) is the bottom or the top initial state, or the image of
that side's initial state under `compression_states` (bottom) /
`expansion_states` (top) at the reported pressure -/
theorem r2d_scr_states (p : R2dSCR.P) (x y : ℝ) :
    (R2dSCR.pressure p x y = p.pB ∧ R2dSCR.density p x y = p.rB ∧ R2dSCR.Mach p x y = p.MB) ∨
    (R2dSCR.pressure p x y = p.pT ∧ R2dSCR.density p x y = p.rT ∧ R2dSCR.Mach p x y = p.MT) ∨
    (R2dSCR.density p x y = R2Comp.rs ⟨p.MB, p.gB, p.pB, R2dSCR.pressure p x y, p.rB, p.thetaB⟩ ∧
      R2dSCR.Mach p x y = R2Comp.Ms ⟨p.MB, p.gB, p.pB, R2dSCR.pressure p x y, p.rB, p.thetaB⟩) ∨
    (R2dSCR.density p x y = R2Exp.rs ⟨p.MT, p.gT, p.pT, R2dSCR.pressure p x y, p.rT, p.thetaT⟩ ∧
      R2dSCR.Mach p x y = R2Exp.Ms ⟨p.MT, p.gT, p.pT, R2dSCR.pressure p x y, p.rT, p.thetaT⟩) := by
  unfold R2dSCR.pressure R2dSCR.density R2dSCR.Mach
  case_on (R2dSCR.c0 p x y) <;>
  case_on (R2dSCR.c1 p x y) <;>
  case_on (R2dSCR.c2 p x y) <;>
  case_on (R2dSCR.c3 p x y) <;>
  case_on (R2dSCR.c4 p x y) <;>
  case_on (R2dSCR.c5 p x y) <;>
  case_on (R2dSCR.c6 p x y) <;>
  case_on (R2dSCR.c7 p x y) <;>
  case_on (R2dSCR.c8 p x y) <;>
  case_on (R2dSCR.c9 p x y) <;>
  case_on (R2dSCR.c10 p x y) <;>
  case_on (R2dSCR.c11 p x y) <;>
  dsimp only [epv_tree, epv_leaf] <;>
    first
    | exact Or.inr (Or.inr (Or.inl ⟨rfl, rfl⟩))
    | exact Or.inr (Or.inr (Or.inr ⟨rfl, rfl⟩))
    | exact Or.inl ⟨by epv_semi_su_r2d_fast, by epv_semi_su_r2d_fast, by epv_semi_su_r2d_fast⟩
    | exact Or.inr (Or.inl ⟨by epv_semi_su_r2d_fast, by epv_semi_su_r2d_fast, by epv_semi_su_r2d_fast⟩)

/-! #### wave pattern R-C-S -/

theorem star_rcs_slipline (p : R2StarRCS.P) :
    SlipLine p.gB (R2StarRCS.pBs p) (R2StarRCS.rBs p) (R2StarRCS.MBs p) (R2StarRCS.uBs p) (R2StarRCS.vBs p)
      p.gT (R2StarRCS.pTs p) (R2StarRCS.rTs p) (R2StarRCS.MTs p) (R2StarRCS.uTs p) (R2StarRCS.vTs p) p.cd_angle := by
  unfold SlipLine Consistent
  dsimp only [epv_tree, epv_leaf]
  epv_semi_su_conj

theorem star_rcs_states (p : R2StarRCS.P) :
    R2StarRCS.pBs p = p.p_star ∧ R2StarRCS.pTs p = p.p_star ∧
    R2StarRCS.rBs p = R2Exp.rs ⟨p.MB, p.gB, p.pB, p.p_star, p.rB, p.thetaB⟩ ∧
    R2StarRCS.MBs p = R2Exp.Ms ⟨p.MB, p.gB, p.pB, p.p_star, p.rB, p.thetaB⟩ ∧
    R2StarRCS.rTs p = R2Comp.rs ⟨p.MT, p.gT, p.pT, p.p_star, p.rT, p.thetaT⟩ ∧
    R2StarRCS.MTs p = R2Comp.Ms ⟨p.MT, p.gT, p.pT, p.p_star, p.rT, p.thetaT⟩ := by
  dsimp only [epv_tree, epv_leaf]
  epv_semi_su_conj

/-- one half of `r2d_rcs_consistent` (the leaves under the first traced condition; two lemmas so that each
stays well inside the heartbeat budget whatever the comparison of a leaf costs) -/
theorem r2d_rcs_consistent_pos (p : R2dRCS.P) (x y : ℝ) (h0 : R2dRCS.c0 p x y) :
    ReportedConsistent p.gB p.gT (R2dRCS.pressure p x y) (R2dRCS.density p x y)
      (R2dRCS.specific_internal_energy p x y) (R2dRCS.Mach p x y) (R2dRCS.x_velocity p x y)
      (R2dRCS.y_velocity p x y) (R2dRCS.speed p x y) := by
  unfold R2dRCS.pressure R2dRCS.density R2dRCS.specific_internal_energy R2dRCS.Mach R2dRCS.x_velocity
    R2dRCS.y_velocity R2dRCS.speed
  simp only [h0, if_true, if_false]
  case_on (R2dRCS.c1 p x y) <;>
  case_on (R2dRCS.c2 p x y) <;>
  case_on (R2dRCS.c3 p x y) <;>
  case_on (R2dRCS.c4 p x y) <;>
  case_on (R2dRCS.c5 p x y) <;>
  case_on (R2dRCS.c6 p x y) <;>
  case_on (R2dRCS.c7 p x y) <;>
  case_on (R2dRCS.c8 p x y) <;>
  case_on (R2dRCS.c9 p x y) <;>
  case_on (R2dRCS.c10 p x y) <;>
  case_on (R2dRCS.c11 p x y) <;>
  dsimp only [epv_leaf] <;>
  (try simp only [zero_mul, zero_add]) <;>
    epv_semi_su_r2d_state p x y

/-- one half of `r2d_rcs_consistent` (the leaves outside the first traced condition; two lemmas so that each
stays well inside the heartbeat budget whatever the comparison of a leaf costs) -/
theorem r2d_rcs_consistent_neg (p : R2dRCS.P) (x y : ℝ) (h0 : ¬ R2dRCS.c0 p x y) :
    ReportedConsistent p.gB p.gT (R2dRCS.pressure p x y) (R2dRCS.density p x y)
      (R2dRCS.specific_internal_energy p x y) (R2dRCS.Mach p x y) (R2dRCS.x_velocity p x y)
      (R2dRCS.y_velocity p x y) (R2dRCS.speed p x y) := by
  unfold R2dRCS.pressure R2dRCS.density R2dRCS.specific_internal_energy R2dRCS.Mach R2dRCS.x_velocity
    R2dRCS.y_velocity R2dRCS.speed
  simp only [h0, if_true, if_false]
  case_on (R2dRCS.c1 p x y) <;>
  case_on (R2dRCS.c2 p x y) <;>
  case_on (R2dRCS.c3 p x y) <;>
  case_on (R2dRCS.c4 p x y) <;>
  case_on (R2dRCS.c5 p x y) <;>
  case_on (R2dRCS.c6 p x y) <;>
  case_on (R2dRCS.c7 p x y) <;>
  case_on (R2dRCS.c8 p x y) <;>
  case_on (R2dRCS.c9 p x y) <;>
  case_on (R2dRCS.c10 p x y) <;>
  case_on (R2dRCS.c11 p x y) <;>
  dsimp only [epv_leaf] <;>
  (try simp only [zero_mul, zero_add]) <;>
    epv_semi_su_r2d_state p x y

theorem r2d_rcs_consistent (p : R2dRCS.P) (x y : ℝ) :
    ReportedConsistent p.gB p.gT (R2dRCS.pressure p x y) (R2dRCS.density p x y)
      (R2dRCS.specific_internal_energy p x y) (R2dRCS.Mach p x y) (R2dRCS.x_velocity p x y)
      (R2dRCS.y_velocity p x y) (R2dRCS.speed p x y) := by
  by_cases h0 : R2dRCS.c0 p x y
  · exact r2d_rcs_consistent_pos p x y h0
  · exact r2d_rcs_consistent_neg p x y h0

/-- every reported (pressure, density, Mach) is the bottom or the top initial state, or the image of
that side's initial state under `expansion_states` (bottom) /
`compression_states` (top) at the reported pressure -/
theorem r2d_rcs_states (p : R2dRCS.P) (x y : ℝ) :
    (R2dRCS.pressure p x y = p.pB ∧ R2dRCS.density p x y = p.rB ∧ R2dRCS.Mach p x y = p.MB) ∨
    (R2dRCS.pressure p x y = p.pT ∧ R2dRCS.density p x y = p.rT ∧ R2dRCS.Mach p x y = p.MT) ∨
    (R2dRCS.density p x y = R2Exp.rs ⟨p.MB, p.gB, p.pB, R2dRCS.pressure p x y, p.rB, p.thetaB⟩ ∧
      R2dRCS.Mach p x y = R2Exp.Ms ⟨p.MB, p.gB, p.pB, R2dRCS.pressure p x y, p.rB, p.thetaB⟩) ∨
    (R2dRCS.density p x y = R2Comp.rs ⟨p.MT, p.gT, p.pT, R2dRCS.pressure p x y, p.rT, p.thetaT⟩ ∧
      R2dRCS.Mach p x y = R2Comp.Ms ⟨p.MT, p.gT, p.pT, R2dRCS.pressure p x y, p.rT, p.thetaT⟩) := by
  unfold R2dRCS.pressure R2dRCS.density R2dRCS.Mach
  case_on (R2dRCS.c0 p x y) <;>
  case_on (R2dRCS.c1 p x y) <;>
  case_on (R2dRCS.c2 p x y) <;>
  case_on (R2dRCS.c3 p x y) <;>
  case_on (R2dRCS.c4 p x y) <;>
  case_on (R2dRCS.c5 p x y) <;>
  case_on (R2dRCS.c6 p x y) <;>
  case_on (R2dRCS.c7 p x y) <;>
  case_on (R2dRCS.c8 p x y) <;>
  case_on (R2dRCS.c9 p x y) <;>
  case_on (R2dRCS.c10 p x y) <;>
  case_on (R2dRCS.c11 p x y) <;>
  dsimp only [epv_tree, epv_leaf] <;>
    first
    | exact Or.inr (Or.inr (Or.inl ⟨rfl, rfl⟩))
    | exact Or.inr (Or.inr (Or.inr ⟨rfl, rfl⟩))
    | exact Or.inl ⟨by epv_semi_su_r2d_fast, by epv_semi_su_r2d_fast, by epv_semi_su_r2d_fast⟩
    | exact Or.inr (Or.inl ⟨by epv_semi_su_r2d_fast, by epv_semi_su_r2d_fast, by epv_semi_su_r2d_fast⟩)

/-! #### wave pattern R-C-R -/

theorem star_rcr_slipline (p : R2StarRCR.P) :
    SlipLine p.gB (R2StarRCR.pBs p) (R2StarRCR.rBs p) (R2StarRCR.MBs p) (R2StarRCR.uBs p) (R2StarRCR.vBs p)
      p.gT (R2StarRCR.pTs p) (R2StarRCR.rTs p) (R2StarRCR.MTs p) (R2StarRCR.uTs p) (R2StarRCR.vTs p) p.cd_angle := by
  unfold SlipLine Consistent
  dsimp only [epv_tree, epv_leaf]
  epv_semi_su_conj

theorem star_rcr_states (p : R2StarRCR.P) :
    R2StarRCR.pBs p = p.p_star ∧ R2StarRCR.pTs p = p.p_star ∧
    R2StarRCR.rBs p = R2Exp.rs ⟨p.MB, p.gB, p.pB, p.p_star, p.rB, p.thetaB⟩ ∧
    R2StarRCR.MBs p = R2Exp.Ms ⟨p.MB, p.gB, p.pB, p.p_star, p.rB, p.thetaB⟩ ∧
    R2StarRCR.rTs p = R2Exp.rs ⟨p.MT, p.gT, p.pT, p.p_star, p.rT, p.thetaT⟩ ∧
    R2StarRCR.MTs p = R2Exp.Ms ⟨p.MT, p.gT, p.pT, p.p_star, p.rT, p.thetaT⟩ := by
  dsimp only [epv_tree, epv_leaf]
  epv_semi_su_conj

/-- one half of `r2d_rcr_consistent` (the leaves under the first traced condition; two lemmas so that each
stays well inside the heartbeat budget whatever the comparison of a leaf costs) -/
theorem r2d_rcr_consistent_pos (p : R2dRCR.P) (x y : ℝ) (h0 : R2dRCR.c0 p x y) :
    ReportedConsistent p.gB p.gT (R2dRCR.pressure p x y) (R2dRCR.density p x y)
      (R2dRCR.specific_internal_energy p x y) (R2dRCR.Mach p x y) (R2dRCR.x_velocity p x y)
      (R2dRCR.y_velocity p x y) (R2dRCR.speed p x y) := by
  unfold R2dRCR.pressure R2dRCR.density R2dRCR.specific_internal_energy R2dRCR.Mach R2dRCR.x_velocity
    R2dRCR.y_velocity R2dRCR.speed
  simp only [h0, if_true, if_false]
  case_on (R2dRCR.c1 p x y) <;>
  case_on (R2dRCR.c2 p x y) <;>
  case_on (R2dRCR.c3 p x y) <;>
  case_on (R2dRCR.c4 p x y) <;>
  case_on (R2dRCR.c5 p x y) <;>
  case_on (R2dRCR.c6 p x y) <;>
  case_on (R2dRCR.c7 p x y) <;>
  case_on (R2dRCR.c8 p x y) <;>
  case_on (R2dRCR.c9 p x y) <;>
  case_on (R2dRCR.c10 p x y) <;>
  case_on (R2dRCR.c11 p x y) <;>
  dsimp only [epv_leaf] <;>
  (try simp only [zero_mul, zero_add]) <;>
    epv_semi_su_r2d_state p x y

/-- one half of `r2d_rcr_consistent` (the leaves outside the first traced condition; two lemmas so that each
stays well inside the heartbeat budget whatever the comparison of a leaf costs) -/
theorem r2d_rcr_consistent_neg (p : R2dRCR.P) (x y : ℝ) (h0 : ¬ R2dRCR.c0 p x y) :
    ReportedConsistent p.gB p.gT (R2dRCR.pressure p x y) (R2dRCR.density p x y)
      (R2dRCR.specific_internal_energy p x y) (R2dRCR.Mach p x y) (R2dRCR.x_velocity p x y)
      (R2dRCR.y_velocity p x y) (R2dRCR.speed p x y) := by
  unfold R2dRCR.pressure R2dRCR.density R2dRCR.specific_internal_energy R2dRCR.Mach R2dRCR.x_velocity
    R2dRCR.y_velocity R2dRCR.speed
  simp only [h0, if_true, if_false]
  case_on (R2dRCR.c1 p x y) <;>
  case_on (R2dRCR.c2 p x y) <;>
  case_on (R2dRCR.c3 p x y) <;>
  case_on (R2dRCR.c4 p x y) <;>
  case_on (R2dRCR.c5 p x y) <;>
  case_on (R2dRCR.c6 p x y) <;>
  case_on (R2dRCR.c7 p x y) <;>
  case_on (R2dRCR.c8 p x y) <;>
  case_on (R2dRCR.c9 p x y) <;>
  case_on (R2dRCR.c10 p x y) <;>
  case_on (R2dRCR.c11 p x y) <;>
  dsimp only [epv_leaf] <;>
  (try simp only [zero_mul, zero_add]) <;>
    epv_semi_su_r2d_state p x y

theorem r2d_rcr_consistent (p : R2dRCR.P) (x y : ℝ) :
    ReportedConsistent p.gB p.gT (R2dRCR.pressure p x y) (R2dRCR.density p x y)
      (R2dRCR.specific_internal_energy p x y) (R2dRCR.Mach p x y) (R2dRCR.x_velocity p x y)
      (R2dRCR.y_velocity p x y) (R2dRCR.speed p x y) := by
  by_cases h0 : R2dRCR.c0 p x y
  · exact r2d_rcr_consistent_pos p x y h0
  · exact r2d_rcr_consistent_neg p x y h0

/-- every reported (pressure, density, Mach) is the bottom or the top initial state, or the image of
that side's initial state under `expansion_states` (bottom) /
`expansion_states` (top) at the reported pressure -/
theorem r2d_rcr_states (p : R2dRCR.P) (x y : ℝ) :
    (R2dRCR.pressure p x y = p.pB ∧ R2dRCR.density p x y = p.rB ∧ R2dRCR.Mach p x y = p.MB) ∨
    (R2dRCR.pressure p x y = p.pT ∧ R2dRCR.density p x y = p.rT ∧ R2dRCR.Mach p x y = p.MT) ∨
    (R2dRCR.density p x y = R2Exp.rs ⟨p.MB, p.gB, p.pB, R2dRCR.pressure p x y, p.rB, p.thetaB⟩ ∧
      R2dRCR.Mach p x y = R2Exp.Ms ⟨p.MB, p.gB, p.pB, R2dRCR.pressure p x y, p.rB, p.thetaB⟩) ∨
    (R2dRCR.density p x y = R2Exp.rs ⟨p.MT, p.gT, p.pT, R2dRCR.pressure p x y, p.rT, p.thetaT⟩ ∧
      R2dRCR.Mach p x y = R2Exp.Ms ⟨p.MT, p.gT, p.pT, R2dRCR.pressure p x y, p.rT, p.thetaT⟩) := by
  unfold R2dRCR.pressure R2dRCR.density R2dRCR.Mach
  case_on (R2dRCR.c0 p x y) <;>
  case_on (R2dRCR.c1 p x y) <;>
  case_on (R2dRCR.c2 p x y) <;>
  case_on (R2dRCR.c3 p x y) <;>
  case_on (R2dRCR.c4 p x y) <;>
  case_on (R2dRCR.c5 p x y) <;>
  case_on (R2dRCR.c6 p x y) <;>
  case_on (R2dRCR.c7 p x y) <;>
  case_on (R2dRCR.c8 p x y) <;>
  case_on (R2dRCR.c9 p x y) <;>
  case_on (R2dRCR.c10 p x y) <;>
  case_on (R2dRCR.c11 p x y) <;>
  dsimp only [epv_tree, epv_leaf] <;>
    first
    | exact Or.inr (Or.inr (Or.inl ⟨rfl, rfl⟩))
    | exact Or.inr (Or.inr (Or.inr ⟨rfl, rfl⟩))
    | exact Or.inl ⟨by epv_semi_su_r2d_fast, by epv_semi_su_r2d_fast, by epv_semi_su_r2d_fast⟩
    | exact Or.inr (Or.inl ⟨by epv_semi_su_r2d_fast, by epv_semi_su_r2d_fast, by epv_semi_su_r2d_fast⟩)

end

end EPV.C19
