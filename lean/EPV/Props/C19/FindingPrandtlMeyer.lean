/-
C19 — FINDING: the fan-turning clause of the property is false on the current code.

The property asks that each expansion fan "turns the flow by exactly the difference of the
Prandtl–Meyer function ν(M) between its end states".  `PrandtlMeyer_function` codes

    μ arctan(√(M²-1)/μ) - arctan(M²-1)          (μ = √((γ+1)/(γ-1)))

where the Prandtl–Meyer function — also as printed in the package's own documentation
(`riemann2D_2section_steadystate/__init__.py`) — has arctan √(M²-1) in the second term
(0.2586 instead of 0.4604 at M = 2, γ = 1.4; `test_riemann2D_2section_steadystate.py` pins the coded
number).  Everything here is proved on the generated models R2PM, R2Exp:

* `pm_coded`: the coded function = ν + (arctan √(M²-1) - arctan(M²-1)), exactly;
* `exp_turning_partial`: hence the turning of `expansion_states` is ν(M₀) - ν(M) plus the difference of
  that defect at the two ends;
* `Finding_prandtl_meyer`: the negation at M = 2, γ = 7/5 (injectivity of arctan: 3 ≠ √3);
* `Finding_fan_turning`: the negation of the property's clause itself at γ = 2, M₀ = √2, p/p₀ = 1/4
  (the fan ends at M² = 6; arctan 5 ≠ arctan √5).

When the code is repaired these theorems stop checking (and the oracles `Riemann2D:PrandtlMeyer`,
`Riemann2D:fan-turning` stop failing); the property clause then follows from `exp_turning_coded`
(EPV.Props.C19.Riemann2D) and `pm_coded` with zero defect.
-/
import EPV.Gen.R2Exp
import EPV.Gen.R2PM
import EPV.Lemmas.Riemann2D
import EPV.Lemmas.Bridge.SemiSu
import EPV.Tactics

set_option linter.all false

open EPV EPV.Gen EPV.Spec.Riemann2D

namespace EPV.C19.Finding

noncomputable section

theorem c2_pos {g p0 r0 : ℝ} (hg : 1 < g) (hp : 0 < p0) (hr : 0 < r0) : 0 < g * p0 / r0 := by
  have : 0 < g := by linarith
  positivity

/-- the square of the Mach number `expansion_states` returns (before the square root) -/
def expM2 (p : R2Exp.P) : ℝ :=
  (((p.g - 1) * p.M0 ^ 2 / 2 + 1) / (p.ps / p.p0) ^ ((p.g - 1) / p.g) - 1) * 2 / (p.g - 1)

theorem exp_Ms (p : R2Exp.P) (hg : 1 < p.g) (hp : 0 < p.p0) (hr : 0 < p.r0) (hM : 0 ≤ p.M0) :
    R2Exp.Ms p = Real.sqrt (expM2 p) := by
  -- the code recomputes the Mach number from the velocity components: put that expression (documented
  -- form) for M₀ on the right, then both sides agree up to normalisation
  have hm := recomputed_mach p.M0 (p.g * p.p0 / p.r0) (p.theta0 / 180 * Real.pi) hM (c2_pos hg hp hr)
  simp only [epv_tree, epv_leaf, expM2]
  conv_rhs => rw [← hm]
  epv_semi_su_eq

theorem exp_turning_coded (p : R2Exp.P) (hg : 1 < p.g) (hp : 0 < p.p0) (hr : 0 < p.r0) (hM : 0 ≤ p.M0) :
    R2Exp.deflection p = R2PM.nu ⟨p.M0, p.g⟩ - R2PM.nu ⟨R2Exp.Ms p, p.g⟩ := by
  have hm := recomputed_mach p.M0 (p.g * p.p0 / p.r0) (p.theta0 / 180 * Real.pi) hM (c2_pos hg hp hr)
  have key : ∀ m : ℝ, m = p.M0 →
      R2Exp.deflection p = R2PM.nu ⟨m, p.g⟩ - R2PM.nu ⟨R2Exp.Ms p, p.g⟩ := by
    intro m hm'
    rw [← hm] at hm'
    subst hm'
    simp only [epv_tree, epv_leaf]
    epv_semi_su_eq
  exact key _ rfl

/-- what `PrandtlMeyer_function` computes: the standard function plus the defect
arctan √(M²-1) - arctan (M²-1)  (the code applies arctan to M²-1 instead of to its square root) -/
theorem pm_coded (p : R2PM.P) (hg : 1 < p.g) :
    R2PM.nu p = nu p.g p.Ms
      + (Real.arctan (Real.sqrt (p.Ms ^ 2 - 1)) - Real.arctan (p.Ms ^ 2 - 1)) := by
  have h1 := pm_first_term p.g (p.Ms ^ 2 - 1) hg
  simp only [epv_tree, epv_leaf, nu]
  rw [← h1]
  epv_semi_su_eq

/-- **C19, fan turning, as far as it holds**: the reported turning is ν(M₀) - ν(M) of the STANDARD
Prandtl–Meyer function plus the difference of the defects at the two ends -/
theorem exp_turning_partial (p : R2Exp.P) (hg : 1 < p.g) (hp : 0 < p.p0) (hr : 0 < p.r0) (hM : 0 ≤ p.M0) :
    R2Exp.deflection p = (nu p.g p.M0 - nu p.g (R2Exp.Ms p))
      + ((Real.arctan (Real.sqrt (p.M0 ^ 2 - 1)) - Real.arctan (p.M0 ^ 2 - 1))
        - (Real.arctan (Real.sqrt (R2Exp.Ms p ^ 2 - 1)) - Real.arctan (R2Exp.Ms p ^ 2 - 1))) := by
  rw [exp_turning_coded p hg hp hr hM, pm_coded _ hg, pm_coded _ hg]
  ring

/-- `PrandtlMeyer_function(2, 1.4)` differs from ν(2): the code evaluates arctan(M²-1) = arctan 3
where the Prandtl–Meyer function has arctan √(M²-1) = arctan √3 (0.2586 vs 0.4604). -/
theorem Finding_prandtl_meyer : R2PM.nu ⟨2, 7 / 5⟩ ≠ nu (7 / 5) 2 := by
  rw [pm_coded _ (by norm_num)]
  intro h
  have h2 : Real.arctan (Real.sqrt ((2 : ℝ) ^ 2 - 1)) = Real.arctan ((2 : ℝ) ^ 2 - 1) :=
    sub_eq_zero.mp (add_left_cancel (h.trans (add_zero _).symm))
  have h3 := Real.arctan_injective h2
  have h4 : Real.sqrt ((2 : ℝ) ^ 2 - 1) ^ 2 = (2 : ℝ) ^ 2 - 1 := Real.sq_sqrt (by norm_num)
  rw [h3] at h4
  norm_num at h4


/-- the witness: γ = 2, (p₀, ρ₀) = (1, 1), M₀ = √2, θ₀ = 0, expanded to ps = 1/4 -/
def fanWitness : R2Exp.P := ⟨Real.sqrt 2, 2, 1, 1 / 4, 1, 0⟩

theorem fanWitness_M2 : expM2 fanWitness = 6 := by
  unfold expM2 fanWitness
  have h2 : Real.sqrt 2 ^ 2 = 2 := Real.sq_sqrt (by norm_num)
  have h4 : ((1 : ℝ) / 4 / 1) ^ (((2 : ℝ) - 1) / 2) = 1 / 2 := by
    have : ((1 : ℝ) / 4 / 1) = (1 / 2) ^ (2 : ℝ) := by rw [Real.rpow_two]; norm_num
    rw [this, ← Real.rpow_mul (by norm_num)]
    norm_num
  simp only [h2, h4]
  norm_num

/-- **FINDING (C19, fan turning)**: `expansion_states` does NOT turn the flow by ν(M₀) - ν(M) of the
Prandtl–Meyer function.  At γ = 2, M₀ = √2, p/p₀ = 1/4 the fan ends at M² = 6 and the reported
turning differs from ν(M₀) - ν(M) by arctan 5 - arctan √5 ≠ 0. -/
theorem Finding_fan_turning :
    ¬ FanTurning fanWitness.g fanWitness.M0 (R2Exp.Ms fanWitness) (R2Exp.deflection fanWitness) := by
  have hg : 1 < fanWitness.g := by unfold fanWitness; norm_num
  have hp : 0 < fanWitness.p0 := by unfold fanWitness; norm_num
  have hr : 0 < fanWitness.r0 := by unfold fanWitness; norm_num
  have hM : 0 ≤ fanWitness.M0 := by unfold fanWitness; exact Real.sqrt_nonneg _
  unfold FanTurning
  rw [exp_turning_partial fanWitness hg hp hr hM]
  have hMs : R2Exp.Ms fanWitness ^ 2 = 6 := by
    rw [exp_Ms fanWitness hg hp hr hM, Real.sq_sqrt (by rw [fanWitness_M2]; norm_num), fanWitness_M2]
  have hM0 : fanWitness.M0 ^ 2 = 2 := by unfold fanWitness; exact Real.sq_sqrt (by norm_num)
  rw [hMs, hM0]
  intro h
  have h1 : Real.sqrt ((2 : ℝ) - 1) = 2 - 1 := by norm_num
  rw [h1, sub_self, zero_sub] at h
  have h2 : Real.arctan (Real.sqrt ((6 : ℝ) - 1)) = Real.arctan ((6 : ℝ) - 1) := by
    have := add_left_cancel (h.trans (add_zero _).symm)
    exact sub_eq_zero.mp (neg_eq_zero.mp this)
  have h3 := Real.arctan_injective h2
  have h4 : Real.sqrt ((6 : ℝ) - 1) ^ 2 = (6 : ℝ) - 1 := Real.sq_sqrt (by norm_num)
  rw [h3] at h4
  norm_num at h4


end

end EPV.C19.Finding
