/-
C18 — Su–Olson: the logic around the oscillatory integrals.

The solution coded in `exactpack/solvers/suolson/timmes.py` is

    u = 1 - (2√3/π) ∫₀¹ upart1 dη - (√3/π) e^{-τ} ∫₀¹ upart2 dη
    v = u - (2√3/π) ∫₀¹ vpart1 dη + (√3/π) e^{-τ} ∫₀¹ vpart2 dη

(`usol_shape`, `vsol_shape`: traced from `usolution`/`vsolution` with the quadratures as atoms).
The system ε u_τ = u_xx + v - u, v_τ = u - v is linear, so it is checked mode by mode:

* every integrand is, as a function of (x, τ), a separable mode W e^{-sτ} sin(γ x + θ) with the
  coded γ_i(η, ε), θ_i(η, ε) and an explicit weight W (`fam*_integrand`, every leaf of the trace);
* inside the clamps the coded γ_i satisfy the dispersion relation γ² = ε s + s/(1-s) with
  s₁ = η², s₂ = 1 + 1/(εη), s₃ = 1 - η² (`fam*_dispersion`), which is *equivalent* to the mode pair
  (u, u/(1-s)) solving the radiation equation (`Spec.SuOlson.mode_radEq_iff`); the material
  equation holds for every mode pair;
* the coded θ_i is the Marshak phase sin θ = (2/√3) γ cos θ on every leaf (`fam*_marshakPhase`), so
  every mode satisfies u - (2/√3) u_x = 0 at x = 0 and the constant 1 carries the boundary value;
* for family 2 the v-integrand is the u-integrand times (1 + εη), which makes the family-2 content
  of v exactly the family-2 content of u divided by (1 - s₂) (`fam2_v_companion`);
* the returned temperatures are (u T_bc⁴)^{1/4}, (v T_bc⁴)^{1/4} at x = √3 κ z, τ = 4acκt/α,
  ε = 4a/α (`suolson_conversion_*`), and this change of variables maps the dimensionless system to
  the documented physical one (`suolson_physical_*`).

PARTIAL (atoms, covered by the oracles only): the mode weights as functions of η and the change of
variables η ↦ √(1-η²) that relates family 3 to family 1, the splitting of the integrals at the
zeros, the quadrature itself, the initial condition and the decay at infinity.
-/
import EPV.Gen.SuFam1
import EPV.Gen.SuFam2
import EPV.Gen.SuFam3
import EPV.Gen.SuUsol
import EPV.Gen.SuVsol
import EPV.Gen.SuOlson
import EPV.Lemmas.SuOlson
import EPV.Lemmas.Bridge.SemiSu
import EPV.Tactics

set_option linter.all false

open EPV EPV.Gen EPV.Spec.SuOlson

namespace EPV.C18

noncomputable section

/-- the double `1.0e-14` (`tiny` in timmes.py) -/
def tiny : ℝ := (6338253001141147 : ℝ) / 633825300114114700748351602688
/-- the double `1.0 - 1.0e-14` -/
def oneMinusTiny : ℝ := (4503599627370451 : ℝ) / 4503599627370496

theorem tiny_pos : 0 < tiny := by unfold tiny; norm_num
theorem oneMinusTiny_lt_one : oneMinusTiny < 1 := by unfold oneMinusTiny; norm_num
theorem tiny_lt_one : tiny < 1 := by unfold tiny; norm_num

/-! ### generic facts about the three coded wavenumbers -/

theorem disp1 (ε η : ℝ) (hε : 0 ≤ ε) (h0 : 0 < η) (h1 : η < 1) :
    Dispersion ε (η * η) (η * Real.sqrt (ε + 1 / (1 - η * η))) := by
  unfold Dispersion
  have h2 : 0 < 1 - η * η := by nlinarith
  have h3 : 0 ≤ ε + 1 / (1 - η * η) := by positivity
  rw [mul_pow, Real.sq_sqrt h3]
  field_simp

theorem disp2 (ε η : ℝ) (hε : 0 < ε) (h0 : 0 < η) (h1 : η < 1) :
    Dispersion ε (1 + 1 / (η * ε)) (Real.sqrt ((1 - η) * (ε + 1 / η))) := by
  unfold Dispersion
  have h3 : 0 ≤ (1 - η) * (ε + 1 / η) := by
    have : 0 ≤ 1 - η := by linarith
    positivity
  rw [Real.sq_sqrt h3]
  field_simp
  ring

theorem disp3 (ε η : ℝ) (hε : 0 ≤ ε) (h0 : 0 < η) (h1 : η < 1) :
    Dispersion ε (1 - η * η) (Real.sqrt ((1 - η * η) * (ε + 1 / (η * η)))) := by
  unfold Dispersion
  have h2 : 0 < 1 - η * η := by nlinarith
  have h3 : 0 ≤ (1 - η * η) * (ε + 1 / (η * η)) := by positivity
  rw [Real.sq_sqrt h3]
  field_simp
  ring

/-! ### family 1 : upart1,  s₁ = η² -/

theorem fam1_const (p : SuFam1.P) (x τ : ℝ) :
    SuFam1.g p x τ = SuFam1.g p 0 0 ∧ SuFam1.th p x τ = SuFam1.th p 0 0 := ⟨rfl, rfl⟩

/-- inside the clamps (`tiny ≤ η ≤ 1 - tiny`) one leaf of a traced wavenumber is the documented formula:
the branch contradicts the bounds, or sits on the lower clamp (then η = tiny), or is the unclamped one -/
macro "epv_semi_su_inside " e:term : tactic =>
  `(tactic| first
    | (exfalso; linarith)
    | (have he : $e = (6338253001141147 : ℝ) / 633825300114114700748351602688 :=
        le_antisymm (by linarith) (by linarith)
       rw [he]; epv_semi_su_eq)
    | epv_semi_su_eq)

/-- a traced wavenumber is non-negative on every leaf (η > tiny > 0 where the leaf mentions η) -/
macro "epv_semi_su_nonneg " e:term : tactic =>
  `(tactic| first
    | positivity
    | (have : (0 : ℝ) < $e := by linarith
       positivity)
    | (have : (0 : ℝ) < $e := by linarith
       epv_pos))

/-- bridge: the traced γ₁ inside the clamps is η √(ε + 1/(1-η²)) -/
theorem fam1_g_inside (p : SuFam1.P) (x τ : ℝ) (h0 : tiny ≤ p.eta) (h1 : p.eta ≤ oneMinusTiny) :
    SuFam1.g p x τ = p.eta * Real.sqrt (p.epsilon + 1 / (1 - p.eta * p.eta)) := by
  unfold tiny at h0
  unfold oneMinusTiny at h1
  epv_semi_su_split <;> epv_semi_su_inside p.eta

/-- bridge: the traced θ₁ is arccos √(3/(3+4γ₁²)) of the traced γ₁ -/
theorem fam1_th_eq (p : SuFam1.P) (x τ : ℝ) :
    SuFam1.th p x τ = Real.arccos (Real.sqrt (3 / (3 + 4 * SuFam1.g p x τ ^ 2))) := by
  epv_semi_su_split <;> epv_semi_su_eq

theorem fam1_g_nonneg (p : SuFam1.P) (x τ : ℝ) : 0 ≤ SuFam1.g p x τ := by
  epv_semi_su_split <;> epv_semi_su_nonneg p.eta

theorem fam1_dispersion (p : SuFam1.P) (x τ : ℝ) (hε : 0 ≤ p.epsilon)
    (h0 : tiny ≤ p.eta) (h1 : p.eta ≤ oneMinusTiny) :
    Dispersion p.epsilon (p.eta * p.eta) (SuFam1.g p x τ) := by
  have hpos : 0 < p.eta := lt_of_lt_of_le tiny_pos h0
  have hlt : p.eta < 1 := lt_of_le_of_lt h1 oneMinusTiny_lt_one
  rw [fam1_g_inside p x τ h0 h1]
  exact disp1 p.epsilon p.eta hε hpos hlt

theorem fam1_marshakPhase (p : SuFam1.P) (x τ : ℝ) :
    MarshakPhase (SuFam1.g p x τ) (SuFam1.th p x τ) := by
  rw [fam1_th_eq]
  exact marshakPhase_arccos _ (fam1_g_nonneg p x τ)

/-- weight of the first u-integrand: 1 / max(tiny, η √(3 + 4γ₁²)) -/
def W_u1 (p : SuFam1.P) : ℝ := 1 / max tiny (p.eta * Real.sqrt (3 + 4 * SuFam1.g p 0 0 ^ 2))

theorem fam1_integrand (p : SuFam1.P) (x τ : ℝ) :
    SuFam1.upart1 p x τ = mode (W_u1 p) (p.eta * p.eta) (SuFam1.g p 0 0) (SuFam1.th p 0 0) x τ := by
  change SuFam1.upart1 p x τ = mode (1 / max tiny (p.eta * Real.sqrt (3 + 4 * SuFam1.g p x τ ^ 2)))
    (p.eta * p.eta) (SuFam1.g p x τ) (SuFam1.th p x τ) x τ
  unfold tiny mode
  epv_semi_su_split <;> epv_semi_su_clamp

/-! ### family 2 : upart2, vpart2,  s₂ = 1 + 1/(εη) -/

/-- bridge: the traced γ₂ inside the clamps is √((1-η)(ε + 1/η)) -/
theorem fam2_g_inside (p : SuFam2.P) (x τ : ℝ) (h0 : tiny ≤ p.eta) (h1 : p.eta ≤ oneMinusTiny) :
    SuFam2.g p x τ = Real.sqrt ((1 - p.eta) * (p.epsilon + 1 / p.eta)) := by
  unfold tiny at h0
  unfold oneMinusTiny at h1
  epv_semi_su_split <;> epv_semi_su_inside p.eta

theorem fam2_th_eq (p : SuFam2.P) (x τ : ℝ) :
    SuFam2.th p x τ = Real.arccos (Real.sqrt (3 / (3 + 4 * SuFam2.g p x τ ^ 2))) := by
  epv_semi_su_split <;> epv_semi_su_eq

theorem fam2_g_nonneg (p : SuFam2.P) (x τ : ℝ) : 0 ≤ SuFam2.g p x τ := by
  epv_semi_su_split <;> epv_semi_su_nonneg p.eta

theorem fam2_dispersion (p : SuFam2.P) (x τ : ℝ) (hε : 0 < p.epsilon)
    (h0 : tiny ≤ p.eta) (h1 : p.eta ≤ oneMinusTiny) :
    Dispersion p.epsilon (1 + 1 / (p.eta * p.epsilon)) (SuFam2.g p x τ) := by
  have hpos : 0 < p.eta := lt_of_lt_of_le tiny_pos h0
  have hlt : p.eta < 1 := lt_of_le_of_lt h1 oneMinusTiny_lt_one
  rw [fam2_g_inside p x τ h0 h1]
  exact disp2 p.epsilon p.eta hε hpos hlt

theorem fam2_marshakPhase (p : SuFam2.P) (x τ : ℝ) :
    MarshakPhase (SuFam2.g p x τ) (SuFam2.th p x τ) := by
  rw [fam2_th_eq]
  exact marshakPhase_arccos _ (fam2_g_nonneg p x τ)

def W_u2 (p : SuFam2.P) : ℝ :=
  1 / max tiny (p.eta * (1 + p.epsilon * p.eta) * Real.sqrt (3 + 4 * SuFam2.g p 0 0 ^ 2))
def W_v2 (p : SuFam2.P) : ℝ := 1 / max tiny (p.eta * Real.sqrt (3 + 4 * SuFam2.g p 0 0 ^ 2))
/-- decay rate coded in the exponent of the second integrands (without the e^{-τ} prefactor) -/
def s2' (p : SuFam2.P) : ℝ := 1 / max tiny (p.eta * p.epsilon)

theorem fam2_integrand_u (p : SuFam2.P) (x τ : ℝ) :
    SuFam2.upart2 p x τ = mode (W_u2 p) (s2' p) (SuFam2.g p 0 0) (SuFam2.th p 0 0) x τ := by
  change SuFam2.upart2 p x τ = mode (1 / max tiny (p.eta * (1 + p.epsilon * p.eta) * Real.sqrt (3 + 4 * SuFam2.g p x τ ^ 2)))
    (1 / max tiny (p.eta * p.epsilon)) (SuFam2.g p x τ) (SuFam2.th p x τ) x τ
  unfold tiny mode
  epv_semi_su_split <;> epv_semi_su_clamp

theorem fam2_integrand_v (p : SuFam2.P) (x τ : ℝ) :
    SuFam2.vpart2 p x τ = mode (W_v2 p) (s2' p) (SuFam2.g p 0 0) (SuFam2.th p 0 0) x τ := by
  change SuFam2.vpart2 p x τ = mode (1 / max tiny (p.eta * Real.sqrt (3 + 4 * SuFam2.g p x τ ^ 2)))
    (1 / max tiny (p.eta * p.epsilon)) (SuFam2.g p x τ) (SuFam2.th p x τ) x τ
  unfold tiny mode
  epv_semi_su_split <;> epv_semi_su_clamp

/-! ### family 3 : vpart1,  s₃ = 1 - η² -/

/-- bridge: the traced γ₃ inside the clamps is √((1-η²)(ε + 1/η²)) -/
theorem fam3_g_inside (p : SuFam3.P) (x τ : ℝ) (h0 : tiny ≤ p.eta) (h1 : p.eta ≤ oneMinusTiny) :
    SuFam3.g p x τ = Real.sqrt ((1 - p.eta * p.eta) * (p.epsilon + 1 / (p.eta * p.eta))) := by
  unfold tiny at h0
  unfold oneMinusTiny at h1
  epv_semi_su_split <;> epv_semi_su_inside p.eta

theorem fam3_th_eq (p : SuFam3.P) (x τ : ℝ) :
    SuFam3.th p x τ = Real.arccos (Real.sqrt (3 / (3 + 4 * SuFam3.g p x τ ^ 2))) := by
  epv_semi_su_split <;> epv_semi_su_eq

theorem fam3_g_nonneg (p : SuFam3.P) (x τ : ℝ) : 0 ≤ SuFam3.g p x τ := by
  epv_semi_su_split <;> epv_semi_su_nonneg p.eta

theorem fam3_dispersion (p : SuFam3.P) (x τ : ℝ) (hε : 0 ≤ p.epsilon)
    (h0 : tiny ≤ p.eta) (h1 : p.eta ≤ oneMinusTiny) :
    Dispersion p.epsilon (1 - p.eta * p.eta) (SuFam3.g p x τ) := by
  have hpos : 0 < p.eta := lt_of_lt_of_le tiny_pos h0
  have hlt : p.eta < 1 := lt_of_le_of_lt h1 oneMinusTiny_lt_one
  rw [fam3_g_inside p x τ h0 h1]
  exact disp3 p.epsilon p.eta hε hpos hlt

theorem fam3_marshakPhase (p : SuFam3.P) (x τ : ℝ) :
    MarshakPhase (SuFam3.g p x τ) (SuFam3.th p x τ) := by
  rw [fam3_th_eq]
  exact marshakPhase_arccos _ (fam3_g_nonneg p x τ)

def W_v1 (p : SuFam3.P) : ℝ :=
  1 / max tiny (Real.sqrt (4 - p.eta * p.eta + 4 * p.epsilon * (p.eta * p.eta) * (1 - p.eta * p.eta)))

theorem fam3_integrand (p : SuFam3.P) (x τ : ℝ) :
    SuFam3.vpart1 p x τ = mode (W_v1 p) (1 - p.eta * p.eta) (SuFam3.g p 0 0) (SuFam3.th p 0 0) x τ := by
  change SuFam3.vpart1 p x τ = mode (W_v1 p) (1 - p.eta * p.eta) (SuFam3.g p x τ) (SuFam3.th p x τ) x τ
  unfold W_v1 tiny mode
  epv_semi_su_split <;> epv_semi_su_clamp

/-! ### assembly of u and v from the four integrals -/

/-- the double `rt3/pi` of timmes.py (≈ √3/π) -/
def rt3opi : ℝ := (1241482303990085 : ℝ) / 2251799813685248

theorem usol_shape (p : SuUsol.P) :
    SuUsol.val p = 1 - 2 * rt3opi * p.I_upart1 - rt3opi * Real.exp (-p.tau) * p.I_upart2 := by
  unfold rt3opi
  epv_semi_su_split <;> epv_semi_su_eq

theorem vsol_shape (p : SuVsol.P) :
    SuVsol.val p = p.uans - 2 * rt3opi * p.I_vpart1 + rt3opi * Real.exp (-p.tau) * p.I_vpart2 := by
  unfold rt3opi
  epv_semi_su_split <;> epv_semi_su_eq

/-! ### the modes solve the system -/

/-- multiplying a mode by e^{-τ} raises its decay rate by one -/
theorem exp_neg_mul_mode (W s γ θ x τ : ℝ) :
    Real.exp (-τ) * mode W s γ θ x τ = mode W (1 + s) γ θ x τ := by
  unfold mode
  have : Real.exp (-((1 + s) * τ)) = Real.exp (-τ) * Real.exp (-(s * τ)) := by
    rw [← Real.exp_add]; ring_nf
  rw [this]; ring

/-- **family 1**: inside the clamps the first u-integrand, as a function of (x, τ), together with
its material companion u/(1-η²) solves both equations of the system at every point, and it
satisfies the homogeneous Marshak condition. -/
theorem fam1_solves (p : SuFam1.P) (hε : 0 ≤ p.epsilon) (h0 : tiny ≤ p.eta) (h1 : p.eta ≤ oneMinusTiny)
    (x τ : ℝ) :
    SolvesAt p.epsilon (fun x τ => SuFam1.upart1 p x τ)
        (fun x τ => SuFam1.upart1 p x τ / (1 - p.eta * p.eta)) x τ
      ∧ Marshak (fun x τ => SuFam1.upart1 p x τ) τ 0 := by
  have e : (fun x τ => SuFam1.upart1 p x τ)
      = mode (W_u1 p) (p.eta * p.eta) (SuFam1.g p 0 0) (SuFam1.th p 0 0) := by
    funext x τ; exact fam1_integrand p x τ
  have hpos : 0 < p.eta := lt_of_lt_of_le tiny_pos h0
  have hlt : p.eta < 1 := lt_of_le_of_lt h1 oneMinusTiny_lt_one
  have hs : p.eta * p.eta ≠ 1 := by nlinarith
  simp only [e]
  exact ⟨mode_solvesAt _ _ _ _ _ x τ hs (fam1_dispersion p 0 0 hε h0 h1),
    mode_marshak _ _ _ _ τ (fam1_marshakPhase p 0 0)⟩

/-- **family 2**: the second u-integrand enters `usolution` multiplied by e^{-τ} (`usol_shape`);
inside the clamps (including the clamp of the exponent, tiny ≤ ηε) that product is a mode with
s₂ = 1 + 1/(εη), and with its companion u/(1-s₂) it solves both equations and the homogeneous
Marshak condition. -/
theorem fam2_solves (p : SuFam2.P) (hε : 0 < p.epsilon) (h0 : tiny ≤ p.eta) (h1 : p.eta ≤ oneMinusTiny)
    (h2 : tiny ≤ p.eta * p.epsilon) (x τ : ℝ) :
    SolvesAt p.epsilon (fun x τ => Real.exp (-τ) * SuFam2.upart2 p x τ)
        (fun x τ => Real.exp (-τ) * SuFam2.upart2 p x τ / (1 - (1 + 1 / (p.eta * p.epsilon)))) x τ
      ∧ Marshak (fun x τ => Real.exp (-τ) * SuFam2.upart2 p x τ) τ 0 := by
  have hs' : s2' p = 1 / (p.eta * p.epsilon) := by unfold s2'; rw [max_eq_right h2]
  have hpt : ∀ x τ, Real.exp (-τ) * SuFam2.upart2 p x τ
      = mode (W_u2 p) (1 + 1 / (p.eta * p.epsilon)) (SuFam2.g p 0 0) (SuFam2.th p 0 0) x τ := by
    intro x τ; rw [fam2_integrand_u p x τ, exp_neg_mul_mode, hs']
  have e : (fun x τ => Real.exp (-τ) * SuFam2.upart2 p x τ)
      = mode (W_u2 p) (1 + 1 / (p.eta * p.epsilon)) (SuFam2.g p 0 0) (SuFam2.th p 0 0) := by
    funext x τ; exact hpt x τ
  have ev : (fun x τ => Real.exp (-τ) * SuFam2.upart2 p x τ / (1 - (1 + 1 / (p.eta * p.epsilon))))
      = vmode (W_u2 p) (1 + 1 / (p.eta * p.epsilon)) (SuFam2.g p 0 0) (SuFam2.th p 0 0) := by
    funext x τ; rw [hpt x τ]; rfl
  have hpos : 0 < p.eta := lt_of_lt_of_le tiny_pos h0
  have hs : 1 + 1 / (p.eta * p.epsilon) ≠ 1 := by
    have : 0 < 1 / (p.eta * p.epsilon) := by positivity
    linarith
  rw [ev, e]
  exact ⟨mode_solvesAt _ _ _ _ _ x τ hs (fam2_dispersion p 0 0 hε h0 h1),
    mode_marshak _ _ _ _ τ (fam2_marshakPhase p 0 0)⟩

/-- the v-integrand of family 2 is the u-integrand times (1 + εη) (weights not clamped) -/
theorem fam2_weights (p : SuFam2.P) (hε : 0 < p.epsilon) (hη : 0 < p.eta)
    (hu : tiny ≤ p.eta * (1 + p.epsilon * p.eta) * Real.sqrt (3 + 4 * SuFam2.g p 0 0 ^ 2))
    (hv : tiny ≤ p.eta * Real.sqrt (3 + 4 * SuFam2.g p 0 0 ^ 2)) (x τ : ℝ) :
    SuFam2.vpart2 p x τ = (1 + p.epsilon * p.eta) * SuFam2.upart2 p x τ := by
  rw [fam2_integrand_u, fam2_integrand_v]
  unfold mode W_u2 W_v2
  rw [max_eq_right hu, max_eq_right hv]
  have h3 : 0 < Real.sqrt (3 + 4 * SuFam2.g p 0 0 ^ 2) := Real.sqrt_pos.mpr (by positivity)
  have h4 : 0 < 1 + p.epsilon * p.eta := by positivity
  field_simp

/-- **family 2, material companion with the code's own weights**: the family-2 content of v
(`vsol_shape`: -k e^{-τ} upart2 from `uans` plus +k e^{-τ} vpart2) is the family-2 content of u
divided by (1 - s₂), i.e. exactly the v-mode that belongs to the u-mode. -/
theorem fam2_v_companion (p : SuFam2.P) (hε : 0 < p.epsilon) (hη : 0 < p.eta)
    (hu : tiny ≤ p.eta * (1 + p.epsilon * p.eta) * Real.sqrt (3 + 4 * SuFam2.g p 0 0 ^ 2))
    (hv : tiny ≤ p.eta * Real.sqrt (3 + 4 * SuFam2.g p 0 0 ^ 2)) (x τ : ℝ) :
    -(rt3opi * Real.exp (-τ) * SuFam2.upart2 p x τ) + rt3opi * Real.exp (-τ) * SuFam2.vpart2 p x τ
      = -(rt3opi * Real.exp (-τ) * SuFam2.upart2 p x τ) / (1 - (1 + 1 / (p.eta * p.epsilon))) := by
  rw [fam2_weights p hε hη hu hv]
  field_simp
  ring

/-- **family 3**: inside the clamps the first v-integrand is a mode with s₃ = 1 - η² whose
wavenumber satisfies the dispersion relation and whose phase is the Marshak phase: the pair
(u, v) = (η² · vpart1, vpart1) = (u, u/(1-s₃)) solves both equations. -/
theorem fam3_solves (p : SuFam3.P) (hε : 0 ≤ p.epsilon) (h0 : tiny ≤ p.eta) (h1 : p.eta ≤ oneMinusTiny)
    (x τ : ℝ) :
    SolvesAt p.epsilon (fun x τ => p.eta * p.eta * SuFam3.vpart1 p x τ)
        (fun x τ => SuFam3.vpart1 p x τ) x τ
      ∧ Marshak (fun x τ => p.eta * p.eta * SuFam3.vpart1 p x τ) τ 0 := by
  have hpos : 0 < p.eta := lt_of_lt_of_le tiny_pos h0
  have hlt : p.eta < 1 := lt_of_le_of_lt h1 oneMinusTiny_lt_one
  have hs : 1 - p.eta * p.eta ≠ 1 := by
    have : 0 < p.eta * p.eta := by positivity
    linarith
  have eu : (fun x τ => p.eta * p.eta * SuFam3.vpart1 p x τ)
      = mode (p.eta * p.eta * W_v1 p) (1 - p.eta * p.eta) (SuFam3.g p 0 0) (SuFam3.th p 0 0) := by
    funext x τ; rw [fam3_integrand p x τ]; unfold mode; ring
  have ev : (fun x τ => SuFam3.vpart1 p x τ)
      = vmode (p.eta * p.eta * W_v1 p) (1 - p.eta * p.eta) (SuFam3.g p 0 0) (SuFam3.th p 0 0) := by
    funext x τ; rw [fam3_integrand p x τ]; unfold vmode mode
    have : (1 : ℝ) - (1 - p.eta * p.eta) = p.eta * p.eta := by ring
    rw [this]
    field_simp
  rw [eu, ev]
  exact ⟨mode_solvesAt _ _ _ _ _ x τ hs (fam3_dispersion p 0 0 hε h0 h1),
    mode_marshak _ _ _ _ τ (fam3_marshakPhase p 0 0)⟩

/-- non-vacuity: η = 1/2, ε = 1 (the default α = 4a) satisfy the hypotheses of the theorems above -/
example : ∃ p : SuFam2.P, 0 < p.epsilon ∧ tiny ≤ p.eta ∧ p.eta ≤ oneMinusTiny ∧ tiny ≤ p.eta * p.epsilon :=
  ⟨⟨1, 1 / 2⟩, by norm_num, by unfold tiny; norm_num, by unfold oneMinusTiny; norm_num, by unfold tiny; norm_num⟩

/-- **mode ⇔ dispersion relation** (registered form of `Spec.SuOlson.mode_radEq_iff`): where the mode
does not vanish, (u, v) = (W e^{-sτ} sin(γx+θ), u/(1-s)) satisfies ε u_τ = u_xx + v - u IF AND ONLY IF
γ² = ε s + s/(1-s); v_τ = u - v holds for every such pair. -/
theorem mode_pair_iff_dispersion (ε W s γ θ x τ : ℝ) (hs : s ≠ 1) (hu : mode W s γ θ x τ ≠ 0) :
    (RadEq ε (mode W s γ θ) (vmode W s γ θ) x τ ↔ Dispersion ε s γ) ∧ MatEq (mode W s γ θ) (vmode W s γ θ) x τ :=
  ⟨mode_radEq_iff ε W s γ θ x τ hs hu, mode_matEq W s γ θ x τ hs⟩

/-- **the constant 1 carries the boundary value**: 1 minus any combination of two mode pairs that
satisfy the dispersion relation and have the Marshak phase solves both equations at every point and
satisfies the Marshak condition u - (2/√3) u_x = 1 (the shape of `usol_shape`, mode by mode) -/
theorem one_minus_modes (ε a b W₁ s₁ γ₁ θ₁ W₂ s₂ γ₂ θ₂ : ℝ) (h1 : s₁ ≠ 1) (h2 : s₂ ≠ 1)
    (d1 : Dispersion ε s₁ γ₁) (d2 : Dispersion ε s₂ γ₂) (p1 : MarshakPhase γ₁ θ₁) (p2 : MarshakPhase γ₂ θ₂)
    (x τ : ℝ) :
    SolvesAt ε (fun x τ => (1 + (-a) * mode W₁ s₁ γ₁ θ₁ x τ) + (-b) * mode W₂ s₂ γ₂ θ₂ x τ)
        (fun x τ => (1 + (-a) * vmode W₁ s₁ γ₁ θ₁ x τ) + (-b) * vmode W₂ s₂ γ₂ θ₂ x τ) x τ ∧
      Marshak (fun x τ => (1 + (-a) * mode W₁ s₁ γ₁ θ₁ x τ) + (-b) * mode W₂ s₂ γ₂ θ₂ x τ) τ 1 := by
  have m1 := mode_solvesAt ε W₁ s₁ γ₁ θ₁ x τ h1 d1
  have m2 := mode_solvesAt ε W₂ s₂ γ₂ θ₂ x τ h2 d2
  have dx1 : ∀ y, DifferentiableAt ℝ (fun z => mode W₁ s₁ γ₁ θ₁ z τ) y :=
    fun y => (mode_hasDerivAt_x W₁ s₁ γ₁ θ₁ y τ).differentiableAt
  have dx2 : ∀ y, DifferentiableAt ℝ (fun z => mode W₂ s₂ γ₂ θ₂ z τ) y :=
    fun y => (mode_hasDerivAt_x W₂ s₂ γ₂ θ₂ y τ).differentiableAt
  have c1 : ∀ y, DifferentiableAt ℝ (fun z : ℝ => (1 : ℝ)) y := fun y => differentiableAt_const _
  have s1 := SolvesAt.add_smul (-a) (const_one_solvesAt ε x τ) m1
    (Filter.Eventually.of_forall c1) (Filter.Eventually.of_forall dx1)
  have dx12 : ∀ y, DifferentiableAt ℝ (fun z => 1 + (-a) * mode W₁ s₁ γ₁ θ₁ z τ) y :=
    fun y => (c1 y).add ((dx1 y).const_mul _)
  have s2 := SolvesAt.add_smul (-b) s1 m2 (Filter.Eventually.of_forall dx12) (Filter.Eventually.of_forall dx2)
  refine ⟨s2, ?_⟩
  have k1 := Marshak.add_smul (-a) (const_one_marshak τ) (mode_marshak W₁ s₁ γ₁ θ₁ τ p1) (c1 0) (dx1 0)
  have k2 := Marshak.add_smul (-b) k1 (mode_marshak W₂ s₂ γ₂ θ₂ τ p2) (dx12 0) (dx2 0)
  simpa using k2

/-! ### conversion between the returned temperatures and the dimensionless solution -/

/-- radiation constant `asol = 4 ssol / clight` [erg cm⁻³ K⁻⁴] as the double the code computes -/
def asol : ℝ := (4795467806665221 : ℝ) / 633825300114114700748351602688
/-- the double `a4c = 4 asol clight` of `so_wave` -/
def a4c : ℝ := (2092048934748215 : ℝ) / 2305843009213693952
/-- Boltzmann constant [eV/K] as typed in `so_wave` (`kev = 8.617385e-5`) -/
def kev : ℝ := (6358507827184943 : ℝ) / 73786976294838206464
/-- the speed of light the model uses: it enters `so_wave` only through `a4c`, so c = a4c / (4 a).
It agrees with the literal `clight = 2.99792458e10` to one rounding error (`cLight_close`). -/
def cLight : ℝ := a4c / (4 * asol)

theorem asol_pos : 0 < asol := by unfold asol; norm_num
theorem kev_pos : 0 < kev := by unfold kev; norm_num
theorem cLight_close : |cLight - 29979245800| < 1 / 100000 := by
  unfold cLight a4c asol
  rw [abs_lt]; constructor <;> norm_num

/-- the dimensionless radiation energy density the solver evaluates, as a field of (x, τ) -/
def Ufield (p : SuOlson.P) : Field := fun x τ => p.Usol x τ (4 * asol / p.alpha)
/-- the dimensionless material energy density the solver evaluates -/
def Vfield (p : SuOlson.P) : Field :=
  fun x τ => p.Vsol x τ (4 * asol / p.alpha) (p.Usol x τ (4 * asol / p.alpha))

/-- **conversion, radiation**: for t > 0 the returned radiation temperature (eV) is
k_B · (u · T_bc⁴)^{1/4} with u evaluated at x = √3 κ z, τ = 4acκt/α, ε = 4a/α, and T_bc the
boundary temperature in kelvin -/
theorem suolson_conversion_rad (p : SuOlson.P) (z t : ℝ) (ht : 0 < t) :
    SuOlson.temperature_rad p z t
      = kev * physT (Ufield p) cLight asol p.opac p.alpha (p.trad_bc_ev / kev) z t := by
  unfold physT Ufield cLight a4c asol kev
  simp only [epv_tree]
  split_ifs with hc0
  · exfalso; simp only [epv_cond] at hc0; linarith
  · simp only [epv_leaf]
    epv_semi_su_eq

theorem suolson_conversion_mat (p : SuOlson.P) (z t : ℝ) (ht : 0 < t) :
    SuOlson.temperature_mat p z t
      = kev * physT (Vfield p) cLight asol p.opac p.alpha (p.trad_bc_ev / kev) z t := by
  unfold physT Vfield cLight a4c asol kev
  simp only [epv_tree]
  split_ifs with hc0
  · exfalso; simp only [epv_cond] at hc0; linarith
  · simp only [epv_leaf]
    epv_semi_su_eq


/-! ### the physical system, for the fields derived from the returned temperatures -/

/-- radiation energy density a T_rad⁴ derived from the returned radiation temperature (eV → K) -/
def Ecode (p : SuOlson.P) : Field := fun z t => asol * (SuOlson.temperature_rad p z t / kev) ^ 4
/-- material temperature in kelvin derived from the returned material temperature -/
def Tcode (p : SuOlson.P) : Field := fun z t => SuOlson.temperature_mat p z t / kev

theorem Ecode_eq (p : SuOlson.P) (z t : ℝ) (ht : 0 < t)
    (hU : 0 ≤ Ufield p (Real.sqrt 3 * p.opac * z) (4 * asol * cLight * p.opac / p.alpha * t)) :
    Ecode p z t = physE (Ufield p) cLight asol p.opac p.alpha (p.trad_bc_ev / kev) z t := by
  unfold Ecode
  rw [suolson_conversion_rad p z t ht, mul_div_cancel_left₀ _ kev_pos.ne',
    physT_pow4 _ _ _ _ _ _ _ _ hU]
  unfold physE
  ring

theorem Tcode_eq (p : SuOlson.P) (z t : ℝ) (ht : 0 < t) :
    Tcode p z t = physT (Vfield p) cLight asol p.opac p.alpha (p.trad_bc_ev / kev) z t := by
  unfold Tcode
  rw [suolson_conversion_mat p z t ht, mul_div_cancel_left₀ _ kev_pos.ne']

/-- **physical radiation equation** E_t - (c/3κ) E_zz = cκ(aT⁴ - E) for the fields derived from
the returned temperatures, at every z and t > 0 where the dimensionless atoms (u, v) satisfy the
dimensionless radiation equation (ATOM hypothesis `h`) and are non-negative (C17, oracle) -/
theorem suolson_physical_rad (p : SuOlson.P) (z t : ℝ) (ht : 0 < t) (hκ : p.opac ≠ 0) (hα : p.alpha ≠ 0)
    (hU : ∀ x τ, 0 ≤ Ufield p x τ)
    (hV : 0 ≤ Vfield p (Real.sqrt 3 * p.opac * z) (4 * asol * cLight * p.opac / p.alpha * t))
    (h : RadEq (4 * asol / p.alpha) (Ufield p) (Vfield p)
      (Real.sqrt 3 * p.opac * z) (4 * asol * cLight * p.opac / p.alpha * t)) :
    PhysRadEq cLight asol p.opac (Ecode p) (Tcode p) z t := by
  refine PhysRadEq.congr (fun y => Ecode_eq p y t ht (hU _ _)) ?_ (Tcode_eq p z t ht)
    (physRadEq_of_radEq _ _ _ _ _ _ _ z t hκ hα hV h)
  filter_upwards [Ioi_mem_nhds ht] with s hs
  exact Ecode_eq p z s hs (hU _ _)

/-- **physical material equation** α T³ T_t = cκ(E - aT⁴) for the fields derived from the
returned temperatures (same ATOM hypotheses; v > 0 at the point so that T is differentiable) -/
theorem suolson_physical_mat (p : SuOlson.P) (z t : ℝ) (ht : 0 < t) (hα : p.alpha ≠ 0)
    (hTb : 0 < p.trad_bc_ev)
    (hU : 0 ≤ Ufield p (Real.sqrt 3 * p.opac * z) (4 * asol * cLight * p.opac / p.alpha * t))
    (hV : 0 < Vfield p (Real.sqrt 3 * p.opac * z) (4 * asol * cLight * p.opac / p.alpha * t))
    (hd : DifferentiableAt ℝ (fun s => Vfield p (Real.sqrt 3 * p.opac * z) s)
      (4 * asol * cLight * p.opac / p.alpha * t))
    (h : MatEq (Ufield p) (Vfield p)
      (Real.sqrt 3 * p.opac * z) (4 * asol * cLight * p.opac / p.alpha * t)) :
    PhysMatEq cLight asol p.opac p.alpha (Ecode p) (Tcode p) z t := by
  refine PhysMatEq.congr (Ecode_eq p z t ht hU) ?_
    (physMatEq_of_matEq _ _ _ _ _ _ _ z t hα (div_pos hTb kev_pos) hV hd h)
  filter_upwards [Ioi_mem_nhds ht] with s hs
  exact Tcode_eq p z s hs

/-- **physical Marshak condition** E - (2/3κ) E_z = a T_bc⁴ at z = 0 (incident flux 4F_in/c = a T_bc⁴
with T_bc the user's boundary temperature in kelvin) -/
theorem suolson_physical_marshak (p : SuOlson.P) (t : ℝ) (ht : 0 < t) (hκ : p.opac ≠ 0)
    (hU : ∀ x τ, 0 ≤ Ufield p x τ)
    (h : Marshak (Ufield p) (4 * asol * cLight * p.opac / p.alpha * t) 1) :
    PhysMarshak p.opac (Ecode p) t (asol * (p.trad_bc_ev / kev) ^ 4) := by
  have := physMarshak_of_marshak (Ufield p) cLight asol p.opac p.alpha (p.trad_bc_ev / kev) t 1 hκ h
  rw [one_mul] at this
  exact PhysMarshak.congr (fun y => Ecode_eq p y t ht (hU _ _)) this

/-- non-vacuity of the atom hypotheses: the constant state u = v = 1 (the τ → ∞ limit of the
problem) satisfies them at the default parameters -/
example : ∃ p : SuOlson.P, p.opac ≠ 0 ∧ p.alpha ≠ 0 ∧ 0 < p.trad_bc_ev ∧ (∀ x τ, 0 ≤ Ufield p x τ) ∧
    (∀ x τ, 0 < Vfield p x τ) ∧ (∀ x τ, SolvesAt (4 * asol / p.alpha) (Ufield p) (Vfield p) x τ) ∧
    ∀ τ, Marshak (Ufield p) τ 1 :=
  ⟨⟨fun _ _ _ => 1, fun _ _ _ _ => 1, 4 * asol, 1, 1000⟩, by norm_num, by unfold asol; norm_num, by norm_num,
    fun _ _ => by simp [Ufield], fun _ _ => by simp [Vfield],
    fun x τ => const_one_solvesAt _ x τ, fun τ => const_one_marshak τ⟩

end

end EPV.C18
