/-
C04 (P) — integral conservation for the GENERAL-EOS Riemann solver, pinned to the MODEL of the driver's assembly.

`EPV.Props.C04.RiemannGen` proves conservation for an abstract piecewise state `spw …` whose wave speeds and
states are written in closed form next to the theorem.  Here the piecewise state is built from the quantities of
the hand model `EPV.Model.RiemannGen` (tied to `RiemannGenEOS.driver` / `GenEOS_Solver` on every run by
`o_geneos.tie_geneos`): its own `Vregs` (`vHeadL`, `vTailL`, `ux1`, `vShockR`, … — scalar `shock_speed` with the
`==` side detection, fan head/tail `u ∓ a` with the closure's `sound_speed`), its own constant states
(`leftState`, `starL`, `starR`, `rightState`, energies from the closure's `sie`), in the driver's order:

  * `genW_scs/scr/rcs/rcr`                 the exact self-similar solution made of the model's pieces;
  * `gen_model_*_conservation_partial`    it satisfies the C04 conservation formula on every `[a, b]` containing all
                                          waves — given EXACT atoms: `HugoniotAtom` on a shock side (root of the traced
                                          `shock_jump`, traced `star_velocity`), `LeftFan`/`RightFan` of
                                          `Props/C04/RiemannGen.lean` on a rarefaction side (the fan fields, as functions
                                          of ξ, solve the traced `drdp_dudp`, centred on the traced sound speed, joining
                                          the initial state to the star state), `Crossing` (`ux1 = ux2`), L ≠ R;
  * `gen_model_*_nodes_partial`           the values the driver's `reg_state_geos` sequence returns at its grid nodes —
                                          outside the cells over which it smears a discontinuity; inside a fan at the rows
                                          of the fan table, provided the rows lie on the fan (`RowsOnFan`) — ARE the values
                                          of that conservative solution.

So the assembled arrays of the general driver are samples of a function that conserves mass, momentum and energy
exactly.  PARTIAL: the atoms (ODE integration and its inversion ξ ↦ p by interpolation, `bisect` roots, crossing of
the interpolated P–U tables) are assumed exact; what the driver returns BETWEEN those samples (linear interpolation in
the fan table and on the grid, the smeared cells) is outside — the oracles `o_c04.gen_ig/gen_jwl` and
`o_geneos.conservation` integrate the real solver's output within that resolution.
-/
import EPV.Lemmas.RiemannGenExact
import EPV.Props.C04.RiemannGen
import EPV.Props.C02.RiemannGen

set_option linter.all false

open EPV EPV.Gen EPV.Model EPV.Riem EPV.RiemGen EPV.Spec EPV.Conservation Set

namespace EPV.C04.RiemannGenModel

open RiemannGen (Eos Jwl Atoms P3)
open EPV.C04 (Closure closureIG closureJWL closureIG_lawful closureJWL_lawful FanAtoms LeftFan RightFan genState
  gen_left_fan_half gen_right_fan_half left_shock_half right_shock_half)

noncomputable section

/-- the closure functions of one side (`Props/C04/RiemannGen.lean`) for the closure switch of the model -/
def closureOf (e : Eos ℝ) (g : ℝ) : Closure :=
  if e.jwl then closureJWL ⟨e.c.A, e.c.B, e.c.R1, e.c.R2, e.c.r0⟩ g else closureIG g

theorem closureOf_lawful (e : Eos ℝ) (g : ℝ) : (closureOf e g).Lawful := by
  unfold closureOf; split_ifs
  · exact closureJWL_lawful _ g
  · exact closureIG_lawful g

theorem closureOf_sie (e : Eos ℝ) (g p r : ℝ) : (closureOf e g).sie p r = RiemannGen.sie e p r g := by
  obtain ⟨j, c⟩ := e
  cases j
  · simp [closureOf, closureIG, sie_ig, Riem.sie]
  · simp [closureOf, closureJWL, sie_jwl, sieJWL]

theorem closureOf_sound (e : Eos ℝ) (g p r : ℝ) : (closureOf e g).sound p r = RiemannGen.soundSpeed e p r g := by
  obtain ⟨j, c⟩ := e
  cases j
  · simp [closureOf, closureIG, sound_ig, Riem.sound]
  · simp [closureOf, closureJWL, sound_jwl, soundJWL]

/-- a model state is the `genState` of its side's closure -/
theorem genState_eq (e : Eos ℝ) (g p r u : ℝ) : genState (closureOf e g) p r u = toSpec (RiemannGen.st e g p r u) := by
  simp only [genState, toSpec, RiemannGen.st, closureOf_sie]

/-! ### shocks: Rankine–Hugoniot and order from the exact Hugoniot atom -/

section shocks
variable {e : Eos ℝ} {q : Prob} {a : Atoms ℝ}

/-- the left star state lies behind the left shock -/
theorem left_shock_order (h : HugoniotAtom e (toData q) q.pl q.rl q.ul q.gl a.px a.rx1 a.ux1) :
    RiemannGen.vShockL (toData q) a ≤ a.ux1 := by
  have h2 := Real.sqrt_nonneg (q.rl / a.rx1 * (a.px - q.pl) / (a.rx1 - q.rl))
  rw [h.vel, starVelocity_eq, RiemannGen.vShockL]
  show RiemannGen.shockSpeed (toData q) a.px a.rx1 q.pl q.rl q.ul ≤ _
  rw [shockSpeed_eq, sgnOf_left]
  linarith

/-- the right star state lies behind the right shock (L ≠ R) -/
theorem right_shock_order (hd : q.Distinct) (h : HugoniotAtom e (toData q) q.pr q.rr q.ur q.gr a.px a.rx2 a.ux2) :
    a.ux2 ≤ RiemannGen.vShockR (toData q) a := by
  have h2 := Real.sqrt_nonneg (q.rr / a.rx2 * (a.px - q.pr) / (a.rx2 - q.rr))
  rw [h.vel, starVelocity_eq, RiemannGen.vShockR]
  show _ ≤ RiemannGen.shockSpeed (toData q) a.px a.rx2 q.pr q.rr q.ur
  rw [shockSpeed_eq, sgnOf_right q hd]
  linarith

end shocks

/-! ### the conservative solution made of the model's pieces -/

section solutions
variable (e : Eos ℝ) (q : Prob) (a : Atoms ℝ)

local notation "L" => toSpec (RiemannGen.leftState e (toData q))
local notation "R" => toSpec (RiemannGen.rightState e (toData q))
local notation "S1" => toSpec (RiemannGen.starL e (toData q) a)
local notation "S2" => toSpec (RiemannGen.starR e (toData q) a)

/-- shock – contact – shock: `Vregs = [vShockL, ux1, vShockR]` -/
def genW_scs (xd0 : ℝ) : ℝ → ℝ → Spec.State := fun x s =>
  spw (fun _ => L) ([⟨RiemannGen.vShockL (toData q) a, fun _ => S1⟩] ++ ⟨a.ux1, fun _ => S2⟩
    :: [⟨RiemannGen.vShockR (toData q) a, fun _ => R⟩]) ((x - xd0) / s)

/-- shock – contact – rarefaction: `Vregs = [vShockL, ux1, vTailR, vHeadR]`; `F` the right fan as a function of ξ -/
def genW_scr (F : FanAtoms) (xd0 : ℝ) : ℝ → ℝ → Spec.State := fun x s =>
  spw (fun _ => L) ([⟨RiemannGen.vShockL (toData q) a, fun _ => S1⟩] ++ ⟨a.ux1, fun _ => S2⟩
    :: [⟨RiemannGen.vTailR e (toData q) a, F.state (closureOf e q.gr)⟩, ⟨RiemannGen.vHeadR e (toData q), fun _ => R⟩])
    ((x - xd0) / s)

/-- rarefaction – contact – shock: `Vregs = [vHeadL, vTailL, ux1, vShockR]` -/
def genW_rcs (F : FanAtoms) (xd0 : ℝ) : ℝ → ℝ → Spec.State := fun x s =>
  spw (fun _ => L) ([⟨RiemannGen.vHeadL e (toData q), F.state (closureOf e q.gl)⟩,
      ⟨RiemannGen.vTailL e (toData q) a, fun _ => S1⟩] ++ ⟨a.ux1, fun _ => S2⟩
    :: [⟨RiemannGen.vShockR (toData q) a, fun _ => R⟩]) ((x - xd0) / s)

/-- rarefaction – contact – rarefaction: `Vregs = [vHeadL, vTailL, ux1, vTailR, vHeadR]` -/
def genW_rcr (FL FR : FanAtoms) (xd0 : ℝ) : ℝ → ℝ → Spec.State := fun x s =>
  spw (fun _ => L) ([⟨RiemannGen.vHeadL e (toData q), FL.state (closureOf e q.gl)⟩,
      ⟨RiemannGen.vTailL e (toData q) a, fun _ => S1⟩] ++ ⟨a.ux1, fun _ => S2⟩
    :: [⟨RiemannGen.vTailR e (toData q) a, FR.state (closureOf e q.gr)⟩, ⟨RiemannGen.vHeadR e (toData q), fun _ => R⟩])
    ((x - xd0) / s)

/-- what is assumed of a LEFT fan: the fields as functions of ξ solve the traced system between the model's head
and tail speeds and join the left state to the left star state (`LeftFan` of `Props/C04/RiemannGen.lean`) -/
def ExactFanL (F : FanAtoms) : Prop :=
  LeftFan F (closureOf e q.gl) q.pl q.rl q.ul a.px a.rx1 a.ux1 (RiemannGen.vHeadL e (toData q))
    (RiemannGen.vTailL e (toData q) a)
/-- … of a RIGHT fan (joins the right star state to the right state) -/
def ExactFanR (F : FanAtoms) : Prop :=
  RightFan F (closureOf e q.gr) q.pr q.rr q.ur a.px a.rx2 a.ux2 (RiemannGen.vTailR e (toData q) a)
    (RiemannGen.vHeadR e (toData q))

variable {e q a}

private theorem contact_of_crossing (hx : Crossing a) : Spec.Contact S1 S2 a.ux1 :=
  EPV.C02.RiemannGen.gen_contact_partial e q a hx

/-- the left-shock half: left state, shock at `vShockL`, left star state up to the contact -/
theorem left_half_shock (h : HugoniotAtom e (toData q) q.pl q.rl q.ul q.gl a.px a.rx1 a.ux1) {a' : ℝ}
    (ha : a' ≤ RiemannGen.vShockL (toData q) a) :
    SValid a' (fun _ => L) [⟨RiemannGen.vShockL (toData q) a, fun _ => S1⟩] a.ux1 :=
  left_shock_half ha (EPV.C02.RiemannGen.gen_left_shock_rh_partial e q a h) (left_shock_order h)

/-- the right-shock half -/
theorem right_half_shock (hd : q.Distinct) (hx : Crossing a)
    (h : HugoniotAtom e (toData q) q.pr q.rr q.ur q.gr a.px a.rx2 a.ux2) {b : ℝ}
    (hb : RiemannGen.vShockR (toData q) a ≤ b) :
    SValid a.ux1 (fun _ => S2) [⟨RiemannGen.vShockR (toData q) a, fun _ => R⟩] b := by
  refine right_shock_half ?_ (rankineHugoniot_symm (EPV.C02.RiemannGen.gen_right_shock_rh_partial e q a h)) hb
  have : a.ux1 = a.ux2 := hx
  rw [this]; exact right_shock_order hd h

/-- the left-fan half -/
theorem left_half_fan {F : FanAtoms} (h : ExactFanL e q a F) {a' : ℝ} (ha : a' ≤ RiemannGen.vHeadL e (toData q)) :
    SValid a' (fun _ => L)
      [⟨RiemannGen.vHeadL e (toData q), F.state (closureOf e q.gl)⟩, ⟨RiemannGen.vTailL e (toData q) a, fun _ => S1⟩]
      a.ux1 := by
  have := gen_left_fan_half (closureOf_lawful e q.gl) h ha
  simp only [genState_eq] at this
  exact this

/-- the right-fan half -/
theorem right_half_fan {F : FanAtoms} (hx : Crossing a) (h : ExactFanR e q a F) {b : ℝ}
    (hb : RiemannGen.vHeadR e (toData q) ≤ b) :
    SValid a.ux1 (fun _ => S2)
      [⟨RiemannGen.vTailR e (toData q) a, F.state (closureOf e q.gr)⟩, ⟨RiemannGen.vHeadR e (toData q), fun _ => R⟩]
      b := by
  have hc : a.ux1 = a.ux2 := hx
  have := gen_right_fan_half (closureOf_lawful e q.gr) h hb
  rw [hc]
  simp only [genState_eq] at this
  exact this

/-! ### (P) conservation of the four model-pinned solutions -/

/-- **C04 (P), general EOS, model assembly, shock–contact–shock** -/
theorem gen_model_scs_conservation_partial (hd : q.Distinct) (hx : Crossing a)
    (hl : HugoniotAtom e (toData q) q.pl q.rl q.ul q.gl a.px a.rx1 a.ux1)
    (hr : HugoniotAtom e (toData q) q.pr q.rr q.ur q.gr a.px a.rx2 a.ux2)
    {xd0 a' b t : ℝ} (ht : 0 < t) (ha : a' < RiemannGen.xpos xd0 t (RiemannGen.vShockL (toData q) a))
    (hb : RiemannGen.xpos xd0 t (RiemannGen.vShockR (toData q) a) < b) :
    ConservationFormula (genW_scs e q a xd0) xd0 L R a' b t :=
  conservationFormula_of_halves ht (left_half_shock hl (xi_le_of_lt ht ha)) rfl (contact_of_crossing hx)
    (right_half_shock hd hx hr (le_xi_of_lt ht hb)) rfl

/-- **C04 (P), general EOS, model assembly, shock–contact–rarefaction** -/
theorem gen_model_scr_conservation_partial (hx : Crossing a) {F : FanAtoms}
    (hl : HugoniotAtom e (toData q) q.pl q.rl q.ul q.gl a.px a.rx1 a.ux1) (hr : ExactFanR e q a F)
    {xd0 a' b t : ℝ} (ht : 0 < t) (ha : a' < RiemannGen.xpos xd0 t (RiemannGen.vShockL (toData q) a))
    (hb : RiemannGen.xpos xd0 t (RiemannGen.vHeadR e (toData q)) < b) :
    ConservationFormula (genW_scr e q a F xd0) xd0 L R a' b t :=
  conservationFormula_of_halves ht (left_half_shock hl (xi_le_of_lt ht ha)) rfl (contact_of_crossing hx)
    (right_half_fan hx hr (le_xi_of_lt ht hb)) rfl

/-- **C04 (P), general EOS, model assembly, rarefaction–contact–shock** (the pattern of the JWL problems of the
test-suite) -/
theorem gen_model_rcs_conservation_partial (hd : q.Distinct) (hx : Crossing a) {F : FanAtoms}
    (hl : ExactFanL e q a F) (hr : HugoniotAtom e (toData q) q.pr q.rr q.ur q.gr a.px a.rx2 a.ux2)
    {xd0 a' b t : ℝ} (ht : 0 < t) (ha : a' < RiemannGen.xpos xd0 t (RiemannGen.vHeadL e (toData q)))
    (hb : RiemannGen.xpos xd0 t (RiemannGen.vShockR (toData q) a) < b) :
    ConservationFormula (genW_rcs e q a F xd0) xd0 L R a' b t :=
  conservationFormula_of_halves ht (left_half_fan hl (xi_le_of_lt ht ha)) rfl (contact_of_crossing hx)
    (right_half_shock hd hx hr (le_xi_of_lt ht hb)) rfl

/-- **C04 (P), general EOS, model assembly, rarefaction–contact–rarefaction** -/
theorem gen_model_rcr_conservation_partial (hx : Crossing a) {FL FR : FanAtoms}
    (hl : ExactFanL e q a FL) (hr : ExactFanR e q a FR)
    {xd0 a' b t : ℝ} (ht : 0 < t) (ha : a' < RiemannGen.xpos xd0 t (RiemannGen.vHeadL e (toData q)))
    (hb : RiemannGen.xpos xd0 t (RiemannGen.vHeadR e (toData q)) < b) :
    ConservationFormula (genW_rcr e q a FL FR xd0) xd0 L R a' b t :=
  conservationFormula_of_halves ht (left_half_fan hl (xi_le_of_lt ht ha)) rfl (contact_of_crossing hx)
    (right_half_fan hx hr (le_xi_of_lt ht hb)) rfl

end solutions

/-! ### the driver's arrays are samples of the conservative solution -/

theorem xi_le_iff {xd0 t v x : ℝ} (ht : 0 < t) : v ≤ (x - xd0) / t ↔ RiemannGen.xpos xd0 t v ≤ x := by
  rw [le_div_iff₀ ht, RiemannGen.xpos]
  constructor <;> intro h <;> linarith

/-- the rows of a fan table lie on the fan `F` (exactness of the table in the similarity variable) -/
def RowsOnFanL (e : Eos ℝ) (q : Prob) (a : Atoms ℝ) (F : FanAtoms) : Prop :=
  ∀ r ∈ a.tabL, F.state (closureOf e q.gl) (r.u + -RiemannIG.Num.ofNat 1 * RiemannGen.soundSpeed e r.p r.r q.gl)
    = toSpec (RiemannGen.st e q.gl r.p r.r r.u)
def RowsOnFanR (e : Eos ℝ) (q : Prob) (a : Atoms ℝ) (F : FanAtoms) : Prop :=
  ∀ r ∈ a.tabR, F.state (closureOf e q.gr) (r.u + RiemannIG.Num.ofNat 1 * RiemannGen.soundSpeed e r.p r.r q.gr)
    = toSpec (RiemannGen.st e q.gr r.p r.r r.u)

theorem row_xi (xd0 : ℝ) {t : ℝ} (ht : t ≠ 0) (w : ℝ) : (xd0 + t * w - xd0) / t = w := by
  field_simp; ring

section nodes
variable (e : Eos ℝ) (q : Prob) (a : Atoms ℝ) (prev next : ℝ → ℝ) (xd0 t xmaxW : ℝ) (ht : 0 < t)

local notation "node" => RiemannGen.solveAtNode e (toData q) a prev next xd0 t xmaxW
local notation "X" => RiemannGen.xpos xd0 t

include ht in
/-- **SCS**: every admissible grid node -/
theorem gen_model_scs_nodes_partial (hL : q.pl < a.px) (hR : q.pr < a.px) (g : GridSCS (toData q) a prev next xd0 t) :
    (∀ x, x < X (RiemannGen.vShockL (toData q) a) → toSpec (node x).2 = genW_scs e q a xd0 x t) ∧
    (∀ x, next (X (RiemannGen.vShockL (toData q) a)) ≤ x → x < X a.ux1 → toSpec (node x).2 = genW_scs e q a xd0 x t) ∧
    (∀ x, X a.ux1 < x → x ≤ prev (X (RiemannGen.vShockR (toData q) a)) → toSpec (node x).2 = genW_scs e q a xd0 x t) ∧
    (∀ x, X (RiemannGen.vShockR (toData q) a) ≤ x → toSpec (node x).2 = genW_scs e q a xd0 x t) := by
  obtain ⟨h0n, hnc, hc2, hp2⟩ := id g
  refine ⟨fun x h => ?_, fun x h1 h2 => ?_, fun x h1 h2 => ?_, fun x h => ?_⟩
  · rw [scs_zone_left e (toData q) a prev next xd0 t xmaxW hL hR g h.le]
    simp only [genW_scs, spw, List.cons_append, List.nil_append, xi_le_iff ht]
    rw [if_neg (not_le.mpr h)]
  · rw [scs_zone_starL e (toData q) a prev next xd0 t xmaxW hL hR g h1 h2.le]
    simp only [genW_scs, spw, List.cons_append, List.nil_append, xi_le_iff ht]
    rw [if_pos (by linarith), if_neg (not_le.mpr h2)]
  · rw [scs_zone_starR e (toData q) a prev next xd0 t xmaxW hL hR g h1 h2]
    simp only [genW_scs, spw, List.cons_append, List.nil_append, xi_le_iff ht]
    rw [if_pos (by linarith), if_pos h1.le, if_neg (by linarith)]
  · rw [scs_zone_right e (toData q) a prev next xd0 t xmaxW hL hR g h]
    simp only [genW_scs, spw, List.cons_append, List.nil_append, xi_le_iff ht]
    rw [if_pos (by linarith), if_pos (by linarith), if_pos h]

include ht in
/-- **SCR** -/
theorem gen_model_scr_nodes_partial (hL : q.pl < a.px) (hR : a.px < q.pr) (g : GridSCR e (toData q) a prev next xd0 t)
    {F : FanAtoms} (hrows : RowsOnFanR e q a F)
    (hs : Sorted (RiemannGen.fanTab e q.gr (RiemannIG.Num.ofNat 1) xd0 t a.tabR)) :
    (∀ x, x < X (RiemannGen.vShockL (toData q) a) → toSpec (node x).2 = genW_scr e q a F xd0 x t) ∧
    (∀ x, next (X (RiemannGen.vShockL (toData q) a)) ≤ x → x < X a.ux1 → toSpec (node x).2 = genW_scr e q a F xd0 x t) ∧
    (∀ x, X a.ux1 < x → x < X (RiemannGen.vTailR e (toData q) a) → toSpec (node x).2 = genW_scr e q a F xd0 x t) ∧
    (∀ r ∈ a.tabR, X (RiemannGen.vTailR e (toData q) a) < rowR e q.gr xd0 t r →
        rowR e q.gr xd0 t r ≤ prev (X (RiemannGen.vHeadR e (toData q))) →
        toSpec (node (rowR e q.gr xd0 t r)).2 = genW_scr e q a F xd0 (rowR e q.gr xd0 t r) t) ∧
    (∀ x, X (RiemannGen.vHeadR e (toData q)) ≤ x → toSpec (node x).2 = genW_scr e q a F xd0 x t) := by
  obtain ⟨h0n, hnc, hc2, h23, hp3⟩ := id g
  refine ⟨fun x h => ?_, fun x h1 h2 => ?_, fun x h1 h2 => ?_, fun r hr h0 h1 => ?_, fun x h => ?_⟩
  · rw [scr_zone_left e (toData q) a prev next xd0 t xmaxW hL hR g h.le]
    simp only [genW_scr, spw, List.cons_append, List.nil_append, xi_le_iff ht]
    rw [if_neg (not_le.mpr h)]
  · rw [scr_zone_starL e (toData q) a prev next xd0 t xmaxW hL hR g h1 h2.le]
    simp only [genW_scr, spw, List.cons_append, List.nil_append, xi_le_iff ht]
    rw [if_pos (by linarith), if_neg (not_le.mpr h2)]
  · rw [scr_zone_starR e (toData q) a prev next xd0 t xmaxW hL hR g h1 h2.le]
    simp only [genW_scr, spw, List.cons_append, List.nil_append, xi_le_iff ht]
    rw [if_pos (by linarith), if_pos h1.le, if_neg (not_le.mpr h2)]
  · rw [scr_zone_fan e (toData q) a prev next xd0 t xmaxW hL hR g h0 h1]
    have k := interpG_mem RiemannGen.lerpS _ (RiemannGen.starR e (toData q) a) hs (rowR_mem e q.gr xd0 t hr)
    show toSpec (RiemannGen.interpS _ _ _) = _
    unfold RiemannGen.interpS
    rw [show (toData q).gr = q.gr from rfl, k]
    simp only [genW_scr, spw, List.cons_append, List.nil_append, xi_le_iff ht]
    rw [if_pos (by linarith), if_pos (by linarith), if_pos h0.le, if_neg (by linarith)]
    rw [show rowR e q.gr xd0 t r = xd0 + t * (r.u + RiemannIG.Num.ofNat 1 * RiemannGen.soundSpeed e r.p r.r q.gr) from rfl,
      row_xi xd0 ht.ne']
    exact (hrows r hr).symm
  · rw [scr_zone_right e (toData q) a prev next xd0 t xmaxW hL hR g h]
    simp only [genW_scr, spw, List.cons_append, List.nil_append, xi_le_iff ht]
    rw [if_pos (by linarith), if_pos (by linarith), if_pos (by linarith), if_pos h]

include ht in
/-- **RCS** -/
theorem gen_model_rcs_nodes_partial (hL : a.px < q.pl) (hR : q.pr < a.px) (g : GridRCS e (toData q) a prev xd0 t)
    {F : FanAtoms} (hrows : RowsOnFanL e q a F)
    (hs : Sorted (RiemannGen.fanTab e q.gl (-RiemannIG.Num.ofNat 1) xd0 t a.tabL)) :
    (∀ x, x < X (RiemannGen.vHeadL e (toData q)) → toSpec (node x).2 = genW_rcs e q a F xd0 x t) ∧
    (∀ r ∈ a.tabL, X (RiemannGen.vHeadL e (toData q)) < rowL e q.gl xd0 t r →
        rowL e q.gl xd0 t r < X (RiemannGen.vTailL e (toData q) a) →
        toSpec (node (rowL e q.gl xd0 t r)).2 = genW_rcs e q a F xd0 (rowL e q.gl xd0 t r) t) ∧
    (∀ x, X (RiemannGen.vTailL e (toData q) a) < x → x ≤ prev (X a.ux1) → toSpec (node x).2 = genW_rcs e q a F xd0 x t) ∧
    (∀ x, X a.ux1 < x → x ≤ prev (X (RiemannGen.vShockR (toData q) a)) → toSpec (node x).2 = genW_rcs e q a F xd0 x t) ∧
    (∀ x, X (RiemannGen.vShockR (toData q) a) ≤ x → toSpec (node x).2 = genW_rcs e q a F xd0 x t) := by
  obtain ⟨h01, h1c, hpc, hc3, hp3⟩ := id g
  refine ⟨fun x h => ?_, fun r hr h0 h1 => ?_, fun x h1 h2 => ?_, fun x h1 h2 => ?_, fun x h => ?_⟩
  · rw [rcs_zone_left e (toData q) a prev next xd0 t xmaxW hL hR g h.le]
    simp only [genW_rcs, spw, List.cons_append, List.nil_append, xi_le_iff ht]
    rw [if_neg (not_le.mpr h)]
  · rw [rcs_zone_fan e (toData q) a prev next xd0 t xmaxW hL hR g h0 h1.le]
    have k := interpG_mem RiemannGen.lerpS _ (RiemannGen.leftState e (toData q)) hs (rowL_mem e q.gl xd0 t hr)
    show toSpec (RiemannGen.interpS _ _ _) = _
    unfold RiemannGen.interpS
    rw [show (toData q).gl = q.gl from rfl, k]
    simp only [genW_rcs, spw, List.cons_append, List.nil_append, xi_le_iff ht]
    rw [if_pos h0.le, if_neg (not_le.mpr h1)]
    rw [show rowL e q.gl xd0 t r = xd0 + t * (r.u + -RiemannIG.Num.ofNat 1 * RiemannGen.soundSpeed e r.p r.r q.gl) from rfl,
      row_xi xd0 ht.ne']
    exact (hrows r hr).symm
  · rw [rcs_zone_starL e (toData q) a prev next xd0 t xmaxW hL hR g h1 h2]
    simp only [genW_rcs, spw, List.cons_append, List.nil_append, xi_le_iff ht]
    rw [if_pos (by linarith), if_pos h1.le, if_neg (by linarith)]
  · rw [rcs_zone_starR e (toData q) a prev next xd0 t xmaxW hL hR g h1 h2]
    simp only [genW_rcs, spw, List.cons_append, List.nil_append, xi_le_iff ht]
    rw [if_pos (by linarith), if_pos (by linarith), if_pos h1.le, if_neg (by linarith)]
  · rw [rcs_zone_right e (toData q) a prev next xd0 t xmaxW hL hR g h]
    simp only [genW_rcs, spw, List.cons_append, List.nil_append, xi_le_iff ht]
    rw [if_pos (by linarith), if_pos (by linarith), if_pos (by linarith), if_pos h]

include ht in
/-- **RCR** -/
theorem gen_model_rcr_nodes_partial (hL : a.px < q.pl) (hR : a.px < q.pr) (g : GridRCR e (toData q) a prev xd0 t)
    {FL FR : FanAtoms} (hrowsL : RowsOnFanL e q a FL) (hrowsR : RowsOnFanR e q a FR)
    (hsL : Sorted (RiemannGen.fanTab e q.gl (-RiemannIG.Num.ofNat 1) xd0 t a.tabL))
    (hsR : Sorted (RiemannGen.fanTab e q.gr (RiemannIG.Num.ofNat 1) xd0 t a.tabR)) :
    (∀ x, x < X (RiemannGen.vHeadL e (toData q)) → toSpec (node x).2 = genW_rcr e q a FL FR xd0 x t) ∧
    (∀ r ∈ a.tabL, X (RiemannGen.vHeadL e (toData q)) < rowL e q.gl xd0 t r →
        rowL e q.gl xd0 t r < X (RiemannGen.vTailL e (toData q) a) →
        toSpec (node (rowL e q.gl xd0 t r)).2 = genW_rcr e q a FL FR xd0 (rowL e q.gl xd0 t r) t) ∧
    (∀ x, X (RiemannGen.vTailL e (toData q) a) < x → x < X a.ux1 → toSpec (node x).2 = genW_rcr e q a FL FR xd0 x t) ∧
    (∀ x, X a.ux1 < x → x < X (RiemannGen.vTailR e (toData q) a) → toSpec (node x).2 = genW_rcr e q a FL FR xd0 x t) ∧
    (∀ r ∈ a.tabR, X (RiemannGen.vTailR e (toData q) a) < rowR e q.gr xd0 t r →
        rowR e q.gr xd0 t r ≤ prev (X (RiemannGen.vHeadR e (toData q))) →
        toSpec (node (rowR e q.gr xd0 t r)).2 = genW_rcr e q a FL FR xd0 (rowR e q.gr xd0 t r) t) ∧
    (∀ x, X (RiemannGen.vHeadR e (toData q)) ≤ x → toSpec (node x).2 = genW_rcr e q a FL FR xd0 x t) := by
  obtain ⟨h01, h1c, hc3, h34, hp4⟩ := id g
  refine ⟨fun x h => ?_, fun r hr h0 h1 => ?_, fun x h1 h2 => ?_, fun x h1 h2 => ?_, fun r hr h0 h1 => ?_,
    fun x h => ?_⟩
  · rw [rcr_zone_left e (toData q) a prev next xd0 t xmaxW hL hR g h.le]
    simp only [genW_rcr, spw, List.cons_append, List.nil_append, xi_le_iff ht]
    rw [if_neg (not_le.mpr h)]
  · rw [rcr_zone_fanL e (toData q) a prev next xd0 t xmaxW hL hR g h0 h1.le]
    have k := interpG_mem RiemannGen.lerpS _ (RiemannGen.leftState e (toData q)) hsL (rowL_mem e q.gl xd0 t hr)
    show toSpec (RiemannGen.interpS _ _ _) = _
    unfold RiemannGen.interpS
    rw [show (toData q).gl = q.gl from rfl, k]
    simp only [genW_rcr, spw, List.cons_append, List.nil_append, xi_le_iff ht]
    rw [if_pos h0.le, if_neg (not_le.mpr h1)]
    rw [show rowL e q.gl xd0 t r = xd0 + t * (r.u + -RiemannIG.Num.ofNat 1 * RiemannGen.soundSpeed e r.p r.r q.gl) from rfl,
      row_xi xd0 ht.ne']
    exact (hrowsL r hr).symm
  · rw [rcr_zone_starL e (toData q) a prev next xd0 t xmaxW hL hR g h1 h2.le]
    simp only [genW_rcr, spw, List.cons_append, List.nil_append, xi_le_iff ht]
    rw [if_pos (by linarith), if_pos h1.le, if_neg (not_le.mpr h2)]
  · rw [rcr_zone_starR e (toData q) a prev next xd0 t xmaxW hL hR g h1 h2.le]
    simp only [genW_rcr, spw, List.cons_append, List.nil_append, xi_le_iff ht]
    rw [if_pos (by linarith), if_pos (by linarith), if_pos h1.le, if_neg (not_le.mpr h2)]
  · rw [rcr_zone_fanR e (toData q) a prev next xd0 t xmaxW hL hR g h0 h1]
    have k := interpG_mem RiemannGen.lerpS _ (RiemannGen.starR e (toData q) a) hsR (rowR_mem e q.gr xd0 t hr)
    show toSpec (RiemannGen.interpS _ _ _) = _
    unfold RiemannGen.interpS
    rw [show (toData q).gr = q.gr from rfl, k]
    simp only [genW_rcr, spw, List.cons_append, List.nil_append, xi_le_iff ht]
    rw [if_pos (by linarith), if_pos (by linarith), if_pos (by linarith), if_pos h0.le, if_neg (by linarith)]
    rw [show rowR e q.gr xd0 t r = xd0 + t * (r.u + RiemannIG.Num.ofNat 1 * RiemannGen.soundSpeed e r.p r.r q.gr) from rfl,
      row_xi xd0 ht.ne']
    exact (hrowsR r hr).symm
  · rw [rcr_zone_right e (toData q) a prev next xd0 t xmaxW hL hR g h]
    simp only [genW_rcr, spw, List.cons_append, List.nil_append, xi_le_iff ht]
    rw [if_pos (by linarith), if_pos (by linarith), if_pos (by linarith), if_pos (by linarith), if_pos h]

end nodes

/-! ### non-vacuity: the γ = 3 problem of `EPV.C02.RiemannGen` with the closed-form fan of the ideal-gas solver

pl = 1, ρl = 3, ul = 0 | pr = 1/12, ρr = 3/4, ur = 5/12;  px = 1/8, ρ*₁ = 3/2, ρ*₂ = 6/7, u* = 1/2;
fan between ξ = −1 and ξ = 0, contact at 1/2, shock at 13/12. -/

open EPV.C02.RiemannGen (qEx aEx ex_hugoniotAtom ex_vHeadL ex_vTailL ex_vShockR)

/-- the hypotheses of `gen_model_rcs_conservation_partial` are satisfiable -/
theorem ex_exactFanL : ExactFanL eosIG qEx aEx (EPV.C04.igFanAtoms 1 3 1 1 3 0) := by
  unfold ExactFanL
  rw [ex_vHeadL, ex_vTailL]
  have hc : closureOf eosIG qEx.gl = closureIG 3 := by simp [closureOf, eosIG, qEx]
  rw [hc]
  simpa [qEx, aEx] using EPV.C04.ex_leftFan

example : qEx.Distinct ∧ Crossing aEx ∧ ExactFanL eosIG qEx aEx (EPV.C04.igFanAtoms 1 3 1 1 3 0) ∧
    HugoniotAtom eosIG (toData qEx) qEx.pr qEx.rr qEx.ur qEx.gr aEx.px aEx.rx2 aEx.ux2 ∧
    (-2 : ℝ) < RiemannGen.xpos 0 1 (RiemannGen.vHeadL eosIG (toData qEx)) ∧
    RiemannGen.xpos 0 1 (RiemannGen.vShockR (toData qEx) aEx) < 2 := by
  refine ⟨by unfold Prob.Distinct qEx; norm_num, rfl, ex_exactFanL, ex_hugoniotAtom, ?_, ?_⟩
  · rw [ex_vHeadL]; norm_num [RiemannGen.xpos]
  · rw [ex_vShockR]; norm_num [RiemannGen.xpos]

end

end EPV.C04.RiemannGenModel
