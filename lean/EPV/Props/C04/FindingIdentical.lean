/-
C04 — FINDING: identical (p, ρ, u) on the two sides with unequal γ is not conserved.

`shock_velocity` (and `rho_p_u_rarefaction`, `shock_speed`) decide which side they are called
for by comparing their arguments with the left state, `(p == inst.pl) and (u == inst.ul) and
(r == inst.rl)`.  When the right state has the same pressure, velocity and density as the left
state — a material interface at rest in the gas, γ_L ≠ γ_R — the right state is taken for the
left one and the right "shock" (of zero strength, px = pl = pr) gets the speed `ur - ar` instead
of `ur + ar`.  `Vregs = [ul - al, ul, ur - ar]` is then out of order, and the last `reg_state`
overwrites everything right of `xd0 + t (ur - ar)` with the right state: the interface, which
must stay at `xd0 + t ul`, is moved to `xd0 + t (ur - ar)`.  Pressure, density and velocity are
uniform, so mass and momentum do not notice; the internal energy `p/((γ-1) ρ)` differs on the two
sides, and the total energy is not conserved.

Witness (exact): pl = pr = 1, ρl = ρr = 1, ul = ur = 0, γ_L = 25/16, γ_R = 9/4 (al = 5/4,
ar = 3/2), px = 1, xd0 = 1/2, t = 1/5, [a, b] = [0, 1].  The solver's own classification selects
SCS, px = 1 is the root of `SCS_call`, all waves are inside [0, 1], and
    ∫_0^1 ρE dx = 224/225   but   (xd0 - a) E_L + (b - xd0) E_R + t (F_L - F_R) = 290/225.
The same happens on the real code (oracle `o_c04.identical`, site
'IGEOS:identical-states:energy'; e.g. γ = 1.4 | 1.6 puts the energy jump at x = 0.184 instead of
0.5 at t = 0.25).  This is the case excluded by the hypothesis `q.Distinct` of the four
conservation theorems in `EPV.Props.C04.Riemann`.
-/
import EPV.Props.C04.Riemann

set_option linter.all false

open EPV EPV.Riem EPV.Model EPV.Spec EPV.Conservation MeasureTheory

namespace EPV.C04

noncomputable section

/-- identical p, ρ, u; γ_L = 25/16, γ_R = 9/4 -/
def qId : Prob := { pl := 1, rl := 1, ul := 0, gl := 25/16, pr := 1, rr := 1, ur := 0, gr := 9/4 }

theorem qId_admissible : qId.Admissible := by
  unfold Prob.Admissible qId; norm_num

theorem qId_not_distinct : ¬ qId.Distinct := by
  unfold Prob.Distinct qId; norm_num

/-- the driver's own classification selects shock–contact–shock -/
theorem qId_classify : RiemannIG.classify (toData qId) = .SCS := by
  simp [RiemannIG.classify, RiemannIG.uSCN, toData, qId]

/-- px = 1 is the root of the traced `SCS_call` -/
theorem qId_root : Riem.SCS qId 1 = 0 := by
  rw [SCS_eq, shock_eq, shock_eq]
  simp [qId]

theorem sqrt_25_16 : Real.sqrt (25 / 16) = 5 / 4 := by
  rw [Real.sqrt_eq_iff_mul_self_eq_of_pos (by norm_num)]; norm_num
theorem sqrt_9_4 : Real.sqrt (9 / 4) = 3 / 2 := by
  rw [Real.sqrt_eq_iff_mul_self_eq_of_pos (by norm_num)]; norm_num

/-- the speeds the driver computes: the right "shock" moves to the LEFT -/
theorem qId_vregs : RiemannIG.vregs (toData qId) .SCS 1 = [-(5 / 4), 0, -(3 / 2)] := by
  have hl : RiemannIG.isLeft (toData qId) qId.pr qId.rr qId.ur = true := by
    simp [RiemannIG.isLeft, toData, qId]
  have hu : RiemannIG.ux (toData qId) .SCS 1 = 0 := by
    simp [RiemannIG.ux, RiemannIG.shock, toData, qId]
  have e1 : (25 / 16 + 1 : ℝ) * 1 / 2 / (25 / 16) / 1 + (25 / 16 - 1) / 2 / (25 / 16) = 1 := by norm_num
  have e2 : (9 / 4 + 1 : ℝ) * 1 / 2 / (9 / 4) / 1 + (9 / 4 - 1) / 2 / (9 / 4) = 1 := by norm_num
  have e3 : (25 / 16 : ℝ) * 1 / 1 = 25 / 16 := by norm_num
  have e4 : (9 / 4 : ℝ) * 1 / 1 = 9 / 4 := by norm_num
  simp only [RiemannIG.vregs, hu, RiemannIG.shockVelocity, RiemannIG.soundSpeed, toData_pl, toData_rl,
    toData_ul, toData_gl, toData_pr, toData_rr, toData_ur, toData_gr, num_ofNat, num_sqrt, hl, isLeft_left]
  simp only [qId, if_true, Nat.cast_one, Nat.cast_ofNat, e1, e2, e3, e4, Real.sqrt_one, sqrt_25_16,
    sqrt_9_4]
  norm_num

/-- all "waves" are inside [0, 1] at t = 1/5 -/
theorem qId_wavesInside : WavesInside qId .SCS 1 (1 / 2) 0 1 (1 / 5) := by
  simp only [WavesInside, qId_vregs, List.mem_cons, List.not_mem_nil, or_false, forall_eq_or_imp, forall_eq]
  norm_num

/-- what the driver returns at t = 1/5: the left state left of x = 1/5, the right state from there on
(the membrane was at 1/2 and the gas is at rest) -/
theorem qId_solution (x : ℝ) :
    solution qId .SCS 1 (1 / 2) x (1 / 5) = riemannInitial (1 / 5) (stL qId) (stR qId) x := by
  simp only [solution, RiemannIG.solveWith, qId_vregs, RiemannIG.regStates, RiemannIG.xregs, List.map,
    RiemannIG.assemble, num_le, decide_eq_true_eq, riemannInitial]
  have e1 : (1 / 2 : ℝ) + 1 / 5 * -(3 / 2) = 1 / 5 := by norm_num
  have e2 : (1 / 2 : ℝ) + 1 / 5 * 0 = 1 / 2 := by norm_num
  have e3 : (1 / 2 : ℝ) + 1 / 5 * -(5 / 4) = 1 / 4 := by norm_num
  rw [e1, e2, e3]
  split_ifs <;> first
    | (simp only [leftState_nf, rightState_nf]; done)
    | (exfalso; linarith)

/-- **Finding.**  On admissible data, with the root of `SCS_call` and all waves inside the interval,
the conservation formula FAILS (energy component). -/
theorem identical_states_not_conserved :
    qId.Admissible ∧ RiemannIG.classify (toData qId) = .SCS ∧ Riem.SCS qId 1 = 0 ∧
      WavesInside qId .SCS 1 (1 / 2) 0 1 (1 / 5) ∧
      ¬ ConservationFormula (solution qId .SCS 1 (1 / 2)) (1 / 2) (stL qId) (stR qId) 0 1 (1 / 5) := by
  refine ⟨qId_admissible, qId_classify, qId_root, qId_wavesInside, ?_⟩
  intro h
  have h2 := (h .energy).2
  simp only [qId_solution] at h2
  rw [integral_riemannInitial (1 / 5) 0 1 (stL qId) (stR qId) .energy (by norm_num) (by norm_num)] at h2
  simp only [State.cons, State.flux, stL, stR, qId, igSie] at h2
  norm_num at h2

end

end EPV.C04
