/-
C04 — integral conservation of the ideal-gas Riemann solution, with the solver's OWN
classification of the wave pattern.

`EPV.Props.C04.Riemann` proves conservation pattern by pattern, assuming on a rarefaction side
that the star pressure lies below the initial pressure.  Here that assumption is discharged:
the driver's `if/elif` chain (`RiemannIG.classify`, proved equal to the chain on the generated
classification speeds `u_SCN, u_NCS, u_NCR, u_RCN` in `EPV.Lemmas.Riemann.classify_eq`) selects
the pattern, the star pressure is a root of the `X_call` the driver then hands to `bisect`
(`RootOfSelected`), and the monotonicity of the four residuals (from the generated derivative
certificates, `EPV.Lemmas.RiemannMono`) puts that root on the right side of `pl`, `pr`.

Statement (`riemann_ig_conservation`): for all admissible, distinct left/right data (unequal γ,
velocities of either sign), every root `px > 0` of the selected residual, every membrane position,
every `t > 0` and every `[a, b] ∋ xd0` containing all waves at time `t`, the solution the driver
assembles — pattern chosen by its own classification — satisfies C04.  The vacuum pattern
(R,C,V,C,R), for which the driver announces "not ready" and fails, and the fall-through are
excluded by `RootOfSelected` (no residual is selected).
-/
import EPV.Props.C04.Riemann
import EPV.Lemmas.RiemannMono

set_option linter.all false

open EPV EPV.Riem EPV.Model EPV.Spec EPV.Conservation Set

namespace EPV.C04

noncomputable section

/-- `px` is a root of the residual the driver selects for its classification of the data -/
def RootOfSelected (q : Prob) (px : ℝ) : Prop :=
  match RiemannIG.classify (toData q) with
  | .SCS => Riem.SCS q px = 0
  | .SCR => Riem.SCR q px = 0
  | .RCS => Riem.RCS q px = 0
  | .RCR => Riem.RCR q px = 0
  | _ => False

/-- the solution the driver returns at (x, t): its own classification, then the assembly -/
def solutionIG (q : Prob) (px xd0 : ℝ) : ℝ → ℝ → Spec.State :=
  fun x t => toSpec (Riem.solve q px xd0 x t).2.2

theorem solutionIG_eq (q : Prob) (px xd0 : ℝ) :
    solutionIG q px xd0 = solution q (RiemannIG.classify (toData q)) px xd0 := rfl

/-- **C04 for the ideal-gas solver, all patterns.** -/
theorem riemann_ig_conservation (q : Prob) (hq : q.Admissible) (hd : q.Distinct) (px : ℝ) (hpx : 0 < px)
    (hroot : RootOfSelected q px) (xd0 a b t : ℝ) (ht : 0 < t) (ha : a ≤ xd0) (hb : xd0 ≤ b)
    (hw : WavesInside q (RiemannIG.classify (toData q)) px xd0 a b t) :
    IntegralConservation (solutionIG q px xd0) xd0 (stL q) (stR q) a b t := by
  rw [solutionIG_eq]
  unfold RootOfSelected at hroot
  have hc := classify_eq q
  generalize RiemannIG.classify (toData q) = pat at *
  cases pat <;> simp only at hroot
  · exact scs_conservation q hq hd px hpx hroot xd0 a b t ht ha hb hw
  · have h := scr_range q hq hpx hroot (chain_SCR hc.symm)
    exact scr_conservation q hq hd px hpx hroot h.2.le xd0 a b t ht ha hb hw
  · have h := rcs_range q hq hpx hroot (chain_RCS hc.symm)
    exact rcs_conservation q hq hd px hpx hroot h.2.le xd0 a b t ht ha hb hw
  · have h := rcr_range q hq hpx hroot (chain_RCR hc.symm)
    exact rcr_conservation q hq hd px hpx hroot h.1.le h.2.le xd0 a b t ht ha hb hw

/-- the driver classifies its default data (Sod) as rarefaction–contact–shock -/
theorem sod_classify : RiemannIG.classify (toData sod) = .RCS := by
  have h1 : uNCS sod sod.pr < sod.ur := by
    simp only [uNCS_eq, sod]
    have e1 : ((1 : ℝ) / (1 / 10) - 1) = 9 := by norm_num
    have s1 : 0 < Real.sqrt (7 / 5 * (1 / 10) / (1 / 8)) := Real.sqrt_pos.mpr (by norm_num)
    have s2 : 0 < Real.sqrt ((7 / 5 + 1) / 2 / (7 / 5) * 1 / (1 / 10) + (7 / 5 - 1) / 2 / (7 / 5)) :=
      Real.sqrt_pos.mpr (by norm_num)
    rw [e1]
    have : 0 < Real.sqrt (7 / 5 * (1 / 10) / (1 / 8)) / (7 / 5) * 9
        / Real.sqrt ((7 / 5 + 1) / 2 / (7 / 5) * 1 / (1 / 10) + (7 / 5 - 1) / 2 / (7 / 5)) := by positivity
    linarith
  have h2 : sod.ur ≤ uRCN sod sod.pr := by
    simp only [uRCN_eq, sod]
    have h : ((1 / 10 : ℝ) / 1) ^ (((7 : ℝ) / 5 - 1) / 2 / (7 / 5)) < 1 :=
      Real.rpow_lt_one (by norm_num) (by norm_num) (by norm_num)
    have s1 : 0 < Real.sqrt (7 / 5 * 1 / 1) := Real.sqrt_pos.mpr (by norm_num)
    have : 0 ≤ 2 * Real.sqrt (7 / 5 * 1 / 1) / (7 / 5 - 1) * (1 - ((1 / 10 : ℝ) / 1) ^ (((7 : ℝ) / 5 - 1) / 2 / (7 / 5))) := by
      apply mul_nonneg
      · positivity
      · linarith
    linarith
  have h3 : sod.pr < sod.pl := by simp only [sod]; norm_num
  rw [classify_eq]
  unfold chain
  rw [if_neg, if_neg, if_pos ⟨h3, h1, h2⟩]
  · rintro ⟨h, -⟩; exact absurd h (not_le.mpr h3)
  · rintro (⟨h, -⟩ | ⟨-, h⟩)
    · exact absurd h (not_le.mpr h3)
    · exact absurd h (not_le.mpr h1)

/-- non-vacuity of `riemann_ig_conservation` at the solver's defaults -/
example : ∃ px a b : ℝ, 0 < px ∧ RootOfSelected sod px ∧ a ≤ 1 / 2 ∧ 1 / 2 ≤ b ∧
    WavesInside sod (RiemannIG.classify (toData sod)) px (1 / 2) a b (1 / 4) := by
  obtain ⟨px, hpx, -, hroot⟩ := sod_root
  obtain ⟨a, b, ha, hb, hw⟩ := exists_wavesInside sod (RiemannIG.classify (toData sod)) px (1 / 2) (1 / 4)
  refine ⟨px, a, b, hpx, ?_, ha, hb, hw⟩
  unfold RootOfSelected
  rw [sod_classify]
  exact hroot

end

end EPV.C04
