/-
C04 — the degenerate data excluded by `q.Distinct`: identical (p, ρ, u) on the two sides.

With EQUAL γ the two states are the same state, the root of `SCS_call` is `px = pl`, every
state the driver installs is that state, and the returned solution is constant whatever the
(mis-ordered) `Vregs` are: C04 holds (`identical_equal_gamma_conservation`).
With UNEQUAL γ the property is false on the current code: `EPV.Props.C04.FindingIdentical`.
Together with `riemann_ig_conservation` (distinct states) this covers all admissible data.
-/
import EPV.Props.C04.Riemann

set_option linter.all false

open EPV EPV.Riem EPV.Model EPV.Spec EPV.Conservation MeasureTheory Set

namespace EPV.C04

noncomputable section

/-- identical (p, ρ, u): the only root of `SCS_call` is the common pressure -/
theorem scs_root_identical (q : Prob) (hq : q.Admissible) (hnd : ¬ q.Distinct) {px : ℝ} (hpx : 0 < px)
    (hroot : Riem.SCS q px = 0) : px = q.pl := by
  obtain ⟨h0, h1, h2⟩ := not_not.mp hnd
  have hr := scs_root hroot
  have hl := shockS_eq hq.2.2.1 hq.1 hq.2.1 hpx
  have hrr := shockS_eq hq.2.2.2.2.2 hq.2.2.2.1 hq.2.2.2.2.1 hpx
  have hWl := shockW_pos hq.2.2.1 hq.1 hq.2.1 hpx
  have hWr := shockW_pos hq.2.2.2.2.2 hq.2.2.2.1 hq.2.2.2.2.1 hpx
  have hSl : 0 < shockS q.gl q.pl q.rl px := by rw [hl]; have := hq.2.1; positivity
  have hSr : 0 < shockS q.gr q.pr q.rr px := by rw [hrr]; have := hq.2.2.2.2.1; positivity
  simp only [uxS, h0, h1] at hr
  have : (px - q.pl) * (shockS q.gl q.pl q.rl px + shockS q.gr q.pl q.rr px) = 0 := by
    rw [h0] at hSr; linarith
  rcases mul_eq_zero.mp this with h | h
  · linarith
  · rw [h0] at hSr; linarith

theorem shockRho_self {g p r : ℝ} (hg : 1 < g) (hp : 0 < p) : shockRho g p r p = r := by
  unfold shockRho
  have h : p * (g - 1) + p * (g + 1) ≠ 0 := by nlinarith
  rw [mul_div_assoc, div_self h, mul_one]

/-- identical states and equal γ: the returned solution is the common state everywhere -/
theorem identical_solution (q : Prob) (hq : q.Admissible) (hnd : ¬ q.Distinct) (hg : q.gl = q.gr)
    (xd0 x t : ℝ) : solution q .SCS q.pl xd0 x t = stL q := by
  obtain ⟨h0, h1, h2⟩ := not_not.mp hnd
  have e1 := m_starL_S q q.pl .SCS (Or.inl rfl)
  have e2 := m_starR_S q q.pl .SCS (Or.inl rfl)
  rw [m_ux_S q q.pl .SCS (Or.inl rfl)] at e2
  have hu : uxS q q.pl = q.ul := by simp [uxS]
  have s1 : starLS q q.pl = stL q := by
    simp only [starLS, stL, hu, shockRho_self hq.2.2.1 hq.1]
  have hR : stR q = stL q := by simp only [stR, stL, h0, h1, h2, hg]
  have s2 : starRS q (uxS q q.pl) q.pl = stL q := by
    have : shockRho q.gr q.pl q.rr q.pl = q.rr := shockRho_self hq.2.2.2.2.2 hq.1
    simp only [starRS, hu, ← hR, stR, h0, h1, this]
  simp only [solution, RiemannIG.solveWith, RiemannIG.vregs, RiemannIG.regStates, RiemannIG.xregs, List.map,
    RiemannIG.assemble]
  split_ifs <;> simp only [e1, e2, s1, s2, leftState_nf, rightState_nf, hR]

/-- **C04 for identical states with equal γ** (no hypothesis on the waves: nothing moves) -/
theorem identical_equal_gamma_conservation (q : Prob) (hq : q.Admissible) (hnd : ¬ q.Distinct)
    (hg : q.gl = q.gr) (px : ℝ) (hpx : 0 < px) (hroot : Riem.SCS q px = 0) (xd0 a b t : ℝ)
    (ha : a ≤ xd0) (hb : xd0 ≤ b) :
    IntegralConservation (solution q .SCS px xd0) xd0 (stL q) (stR q) a b t := by
  obtain rfl := scs_root_identical q hq hnd hpx hroot
  obtain ⟨h0, h1, h2⟩ := not_not.mp hnd
  have hR : stR q = stL q := by simp only [stR, stL, h0, h1, h2, hg]
  refine IntegralConservation.of_formula ha hb (fun c => ?_)
  simp only [identical_solution q hq hnd hg, hR]
  refine ⟨intervalIntegrable_const, ?_⟩
  rw [intervalIntegral.integral_const, smul_eq_mul]
  ring

/-- non-vacuity: the default left state on both sides -/
example : ∃ q : Prob, q.Admissible ∧ ¬ q.Distinct ∧ q.gl = q.gr ∧ Riem.SCS q 1 = 0 := by
  refine ⟨{ pl := 1, rl := 1, ul := 0, gl := 7/5, pr := 1, rr := 1, ur := 0, gr := 7/5 },
    by unfold Prob.Admissible; norm_num, by unfold Prob.Distinct; norm_num, rfl, ?_⟩
  simp [SCS_eq, shock_eq]

end

end EPV.C04
