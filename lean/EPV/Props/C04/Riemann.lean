/-
C04 — integral conservation of the ideal-gas Riemann solution, all four wave patterns
(shock/rarefaction – contact – shock/rarefaction), unequal γ_L, γ_R, velocities of either
sign, every membrane position x_d0, every time t > 0 and every interval [a, b] that
contains all waves at time t.

What the theorems are about.  `RiemannIG.solveWith (toData q) pat px xd0 x t` is the
real-number instantiation of the hand model `EPV.Model.RiemannIG` of
`RiemannIGEOS.driver` (`riemann.py:96–201`): the star state, `Vregs`, and the sequence of
`reg_state` overwrites, evaluated at one point.  That assembly is a HAND MODEL; it is tied
to the code by wp-riemann's correspondence (`harness/o_riemann.py:tie_assembly`, Float run
of the same polymorphic definitions against the real driver), and each helper formula in
it is proved equal to the generated model of the `utils.py` function it mirrors
(`EPV.Lemmas.Riemann`, `m_*`).  The star pressure `px` (scipy `bisect`) is an atom: the
theorems assume `X_call px = 0` for the generated model of the pattern's `X_call`.

Hypotheses.
* `q.Admissible`: positive pressures and densities, γ_L, γ_R > 1 (the documented data).
* `q.Distinct`: the right state is not identical to the left state in (p, ρ, u); the
  `==`-based side detection of `shock_velocity` / `rho_p_u_rarefaction` labels a right state
  equal to the left state as "left".  (In that degenerate case px = pl = pr and all states
  coincide, see `trivial_conservationFormula`.)
* `0 < px`, `X_call px = 0`.
* the pattern: a rarefaction on a side means `px ≤ p` on that side.  Nothing is assumed
  for a shock side: Rankine–Hugoniot and the ordering of the speeds hold for every px > 0.
* `0 < t`, and `a < xd0 + t V < b` for every `V` in the model's `Vregs`.

Proof.  `EPV.Lemmas.ConservationState.conservationFormula_of_svalid` (the abstract theorem:
G = ξU - F has derivative U in every region and is continuous across every wave) with
  constant states — trivial;   fans — `fan_sgood` (similarity form of the Euler equations);
  shocks — `shock_rankineHugoniot`;   contact — equal p and u, speed u;
  fan heads and tails — the fan state there IS the neighbouring constant state.
-/
import EPV.Lemmas.RiemannIGBridge

set_option linter.all false

open EPV EPV.Riem EPV.Model EPV.Spec EPV.Conservation

namespace EPV.C04

noncomputable section

/-- the solution returned at (x, t), as a `Spec.State` -/
def solution (q : Prob) (pat : RiemannIG.Pattern) (px xd0 : ℝ) : ℝ → ℝ → Spec.State :=
  fun x t => toSpec (RiemannIG.solveWith (toData q) pat px xd0 x t).2

/-- "the interval [a, b] contains all waves at time t" -/
def WavesInside (q : Prob) (pat : RiemannIG.Pattern) (px xd0 a b t : ℝ) : Prop :=
  ∀ V ∈ RiemannIG.vregs (toData q) pat px, a < xd0 + t * V ∧ xd0 + t * V < b

/-! ### shock – contact – shock -/

def scsWaves (q : Prob) (px : ℝ) : List SWave :=
  [⟨q.ul + (-1) * shockW q.gl q.pl q.rl px, fun _ => starLS q px⟩,
   ⟨uxS q px, fun _ => starRS q (uxS q px) px⟩,
   ⟨q.ur + 1 * shockW q.gr q.pr q.rr px, fun _ => stR q⟩]

theorem scs_vregs (q : Prob) (hd : q.Distinct) (px : ℝ) :
    RiemannIG.vregs (toData q) .SCS px = (scsWaves q px).map SWave.V := by
  simp only [RiemannIG.vregs, m_ux_S q px .SCS (Or.inl rfl), toData_pl, toData_rl, toData_ul, toData_gl,
    toData_pr, toData_rr, toData_ur, toData_gr, m_shockVel_left, m_shockVel_right q hd, scsWaves, List.map]

theorem scs_solve (q : Prob) (hd : q.Distinct) (px xd0 x t : ℝ) (ht : 0 < t)
    (h : (scsWaves q px).Pairwise (fun v w => v.V ≤ w.V)) :
    solution q .SCS px xd0 x t = spw (fun _ => stL q) (scsWaves q px) ((x - xd0) / t) := by
  have e1 := m_starL_S q px .SCS (Or.inl rfl)
  have e2 := m_starR_S q px .SCS (Or.inl rfl)
  rw [m_ux_S q px .SCS (Or.inl rfl)] at e2
  simp only [scsWaves, List.pairwise_cons, List.mem_cons, List.not_mem_nil, or_false, forall_eq_or_imp,
    forall_eq, List.Pairwise.nil, and_true, IsEmpty.forall_iff, implies_true] at h
  simp only [solution, RiemannIG.solveWith, scs_vregs q hd, RiemannIG.regStates, RiemannIG.xregs, List.map,
    RiemannIG.assemble, num_le, decide_eq_true_eq, reg_iff ht, spw, scsWaves]
  split_ifs <;> simp only [e1, e2, leftState_nf, rightState_nf] <;> first | rfl | (exfalso; linarith)

/-- **C04, pattern SCS** -/
theorem scs_conservationFormula (q : Prob) (hq : q.Admissible) (hd : q.Distinct) (px : ℝ) (hpx : 0 < px)
    (hroot : Riem.SCS q px = 0) (xd0 a b t : ℝ) (ht : 0 < t) (hw : WavesInside q .SCS px xd0 a b t) :
    ConservationFormula (solution q .SCS px xd0) xd0 (stL q) (stR q) a b t := by
  have hr := scs_root hroot
  have h1 := leftShock_order hq hpx
  have h2 := rightShock_order hq hpx hr
  simp only [WavesInside, scs_vregs q hd, scsWaves, List.map, List.mem_cons, List.not_mem_nil, or_false,
    forall_eq_or_imp, forall_eq] at hw
  obtain ⟨⟨ha, -⟩, -, -, hb⟩ := hw
  have hv : SValid ((a - xd0) / t) (fun _ => stL q) (scsWaves q px) ((b - xd0) / t) :=
    ⟨lt_reg ht ha, sgood_const _ _ _, leftShock_rh hq hpx,
     h1, sgood_const _ _ _, Contact.rankineHugoniot ⟨rfl, rfl, rfl⟩,
     h2, sgood_const _ _ _, rightShock_rh hq hpx hr,
     reg_lt ht hb, sgood_const _ _ _⟩
  have hp : (scsWaves q px).Pairwise (fun v w => v.V ≤ w.V) := by
    simp only [scsWaves, List.pairwise_cons, List.mem_cons, List.not_mem_nil, or_false, forall_eq_or_imp,
      forall_eq, List.Pairwise.nil, and_true, IsEmpty.forall_iff, implies_true]
    exact ⟨⟨h1, h1.trans h2⟩, h2⟩
  have key := conservationFormula_of_svalid (L := stL q) (R := stR q) ht hv rfl rfl
  intro c
  have := key c
  simp only [← scs_solve q hd px xd0 _ t ht hp] at this
  exact this

end

end EPV.C04
