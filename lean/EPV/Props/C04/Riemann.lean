/-
C04 — integral conservation of the ideal-gas Riemann solution, all four wave patterns
(shock/rarefaction – contact – shock/rarefaction), unequal γ_L, γ_R, velocities of either
sign, every membrane position x_d0, every time t > 0 and every interval [a, b] that
contains all waves at time t.

What the theorems are about.  `RiemannIG.solveWith (toData q) pat px xd0 x t` is the
real-number instantiation of the hand model `EPV.Model.RiemannIG` of
`RiemannIGEOS.driver` (`riemann.py:96–201`): the star state, `Vregs`, and the sequence of
`reg_state` overwrites, evaluated at one point.  That assembly is a HAND MODEL; it is tied
to the code by correspondence runs (`harness/o_c04.py:tie_assembly`, obligation
`C04.riemann_ig.assembly_tie`, and the Riemann package's own `harness/o_riemann.py`: Float run
of the same polymorphic definitions against the real driver and the public solver — pattern,
`Vregs` and the four fields at random points and next to every wave), and each helper formula in
it is proved equal to the generated model of the `utils.py` function it mirrors
(`EPV.Lemmas.Riemann`, `m_*`).  The star pressure `px` (scipy `bisect`) is an atom: the
theorems assume `X_call px = 0` for the generated model of the pattern's `X_call`.

Hypotheses.
* `q.Admissible`: positive pressures and densities, γ_L, γ_R > 1 (the documented data).
* `q.Distinct`: the right state is not identical to the left state in (p, ρ, u); the
  `==`-based side detection of `shock_velocity` / `rho_p_u_rarefaction` labels a right state
  equal to the left state as "left".  In that degenerate case (a material interface at rest,
  γ_L ≠ γ_R) the property is FALSE on the current code: `EPV.Props.C04.FindingIdentical`.
* `0 < px`, `X_call px = 0`.
* the pattern: a rarefaction on a side means `px ≤ p` on that side.  Nothing is assumed
  for a shock side: Rankine–Hugoniot and the ordering of the speeds hold for every px > 0.
  (`EPV.Props.C04.RiemannClassified` derives `px ≤ p` from the driver's own classification.)
* `0 < t`, and `a < xd0 + t V < b` for every `V` in the model's `Vregs`.

Proof.  `EPV.Lemmas.ConservationState.conservationFormula_of_svalid` (the abstract theorem:
G = ξU - F has derivative U in every region and is continuous across every wave) with
  constant states — trivial;   fans — `fan_sgood` (similarity form of the Euler equations);
  shocks — `shock_rankineHugoniot`;   contact — equal p and u, speed u;
  fan heads and tails — the fan state there IS the neighbouring constant state.
-/
import EPV.Lemmas.RiemannIGBridge
import Mathlib.Topology.Order.IntermediateValue

set_option linter.all false

open EPV EPV.Riem EPV.Model EPV.Spec EPV.Conservation Set

namespace EPV.C04

noncomputable section

/-- the solution returned at (x, t), as a `Spec.State` -/
def solution (q : Prob) (pat : RiemannIG.Pattern) (px xd0 : ℝ) : ℝ → ℝ → Spec.State :=
  fun x t => toSpec (RiemannIG.solveWith (toData q) pat px xd0 x t).2

/-- "the interval [a, b] contains all waves at time t" -/
def WavesInside (q : Prob) (pat : RiemannIG.Pattern) (px xd0 a b t : ℝ) : Prop :=
  ∀ V ∈ RiemannIG.vregs (toData q) pat px, a < xd0 + t * V ∧ xd0 + t * V < b

/-! ### shock – contact – shock -/

def scsWaves (q : Prob) (px : ℝ) : List SWave :=
  [⟨q.ul + (-1) * shockW q.gl q.pl q.rl px, fun _ => starLS q px⟩,
   ⟨uxS q px, fun _ => starRS q (uxS q px) px⟩,
   ⟨q.ur + 1 * shockW q.gr q.pr q.rr px, fun _ => stR q⟩]

theorem scs_vregs (q : Prob) (hd : q.Distinct) (px : ℝ) :
    RiemannIG.vregs (toData q) .SCS px = (scsWaves q px).map SWave.V := by
  simp only [RiemannIG.vregs, m_ux_S q px .SCS (Or.inl rfl), toData_pl, toData_rl, toData_ul, toData_gl,
    toData_pr, toData_rr, toData_ur, toData_gr, m_shockVel_left, m_shockVel_right q hd, scsWaves, List.map]

theorem scs_solve (q : Prob) (hd : q.Distinct) (px xd0 x t : ℝ) (ht : 0 < t)
    (h : (scsWaves q px).Pairwise (fun v w => v.V ≤ w.V)) :
    solution q .SCS px xd0 x t = spw (fun _ => stL q) (scsWaves q px) ((x - xd0) / t) := by
  have e1 := m_starL_S q px .SCS (Or.inl rfl)
  have e2 := m_starR_S q px .SCS (Or.inl rfl)
  rw [m_ux_S q px .SCS (Or.inl rfl)] at e2
  simp only [scsWaves, List.pairwise_cons, List.mem_cons, List.not_mem_nil, or_false, forall_eq_or_imp,
    forall_eq, List.Pairwise.nil, and_true, IsEmpty.forall_iff, implies_true] at h
  simp only [solution, RiemannIG.solveWith, scs_vregs q hd, RiemannIG.regStates, RiemannIG.xregs, List.map,
    RiemannIG.assemble, num_le, decide_eq_true_eq, reg_iff ht, spw, scsWaves]
  split_ifs <;> simp only [e1, e2, leftState_nf, rightState_nf] <;> first | rfl | (exfalso; linarith)

/-- **C04, pattern SCS** -/
theorem scs_conservationFormula (q : Prob) (hq : q.Admissible) (hd : q.Distinct) (px : ℝ) (hpx : 0 < px)
    (hroot : Riem.SCS q px = 0) (xd0 a b t : ℝ) (ht : 0 < t) (hw : WavesInside q .SCS px xd0 a b t) :
    ConservationFormula (solution q .SCS px xd0) xd0 (stL q) (stR q) a b t := by
  have hr := scs_root hroot
  have h1 := leftShock_order hq hpx
  have h2 := rightShock_order hq hpx hr
  simp only [WavesInside, scs_vregs q hd, scsWaves, List.map, List.mem_cons, List.not_mem_nil, or_false,
    forall_eq_or_imp, forall_eq] at hw
  obtain ⟨⟨ha, -⟩, -, -, hb⟩ := hw
  have hv : SValid ((a - xd0) / t) (fun _ => stL q) (scsWaves q px) ((b - xd0) / t) :=
    ⟨lt_reg ht ha, sgood_const _ _ _, leftShock_rh hq hpx,
     h1, sgood_const _ _ _, Contact.rankineHugoniot ⟨rfl, rfl, rfl⟩,
     h2, sgood_const _ _ _, rightShock_rh hq hpx hr,
     reg_lt ht hb, sgood_const _ _ _⟩
  have hp : (scsWaves q px).Pairwise (fun v w => v.V ≤ w.V) := by
    simp only [scsWaves, List.pairwise_cons, List.mem_cons, List.not_mem_nil, or_false, forall_eq_or_imp,
      forall_eq, List.Pairwise.nil, and_true, IsEmpty.forall_iff, implies_true]
    exact ⟨⟨h1, h1.trans h2⟩, h2⟩
  have key := conservationFormula_of_svalid (L := stL q) (R := stR q) ht hv rfl rfl
  intro c
  have := key c
  simp only [← scs_solve q hd px xd0 _ t ht hp] at this
  exact this

theorem m_aL (q : Prob) : RiemannIG.soundSpeed q.pl q.rl q.gl = aL q := by rw [m_sound_nf]; rfl
theorem m_aR (q : Prob) : RiemannIG.soundSpeed q.pr q.rr q.gr = aR q := by rw [m_sound_nf]; rfl

/-! ### shock – contact – rarefaction -/

def scrWaves (q : Prob) (px : ℝ) : List SWave :=
  [⟨q.ul + (-1) * shockW q.gl q.pl q.rl px, fun _ => starLS q px⟩,
   ⟨uxS q px, fun _ => starRF q (uxS q px) px⟩,
   ⟨uxS q px + aR q * fanPi q.gr q.pr px, fanR q⟩,
   ⟨q.ur + aR q, fun _ => stR q⟩]

theorem scr_vregs (q : Prob) (hq : q.Admissible) (px : ℝ) (hpx : 0 < px) :
    RiemannIG.vregs (toData q) .SCR px = (scrWaves q px).map SWave.V := by
  simp only [RiemannIG.vregs, RiemannIG.rx2, m_ux_S q px .SCR (Or.inr rfl), toData_pl, toData_rl, toData_ul, toData_gl,
    toData_pr, toData_rr, toData_ur, toData_gr,
    m_shockVel_left, m_ax2 q hq hpx, m_aR, scrWaves, List.map]

theorem scr_solve (q : Prob) (hq : q.Admissible) (hd : q.Distinct) (px xd0 x t : ℝ) (hpx : 0 < px) (ht : 0 < t)
    (h : (scrWaves q px).Pairwise (fun v w => v.V ≤ w.V)) :
    solution q .SCR px xd0 x t = spw (fun _ => stL q) (scrWaves q px) ((x - xd0) / t) := by
  have e1 := m_starL_S q px .SCR (Or.inr rfl)
  have e2 := m_starR_F q px .SCR (Or.inl rfl)
  rw [m_ux_S q px .SCR (Or.inr rfl)] at e2
  simp only [scrWaves, List.pairwise_cons, List.mem_cons, List.not_mem_nil, or_false, forall_eq_or_imp,
    forall_eq, List.Pairwise.nil, and_true, IsEmpty.forall_iff, implies_true] at h
  simp only [solution, RiemannIG.solveWith, scr_vregs q hq px hpx, RiemannIG.regStates, RiemannIG.xregs, List.map,
    RiemannIG.assemble, num_le, decide_eq_true_eq, reg_iff ht, spw, scrWaves, toData_pl, toData_rl, toData_ul, toData_gl,
    toData_pr, toData_rr, toData_ur, toData_gr]
  split_ifs <;> simp only [e1, e2, m_fanR q hd, leftState_nf, rightState_nf] <;>
    first | rfl | (exfalso; linarith)

/-- **C04, pattern SCR** (right rarefaction: `px ≤ pr`) -/
theorem scr_conservationFormula (q : Prob) (hq : q.Admissible) (hd : q.Distinct) (px : ℝ) (hpx : 0 < px)
    (hroot : Riem.SCR q px = 0) (hR : px ≤ q.pr) (xd0 a b t : ℝ) (ht : 0 < t)
    (hw : WavesInside q .SCR px xd0 a b t) :
    ConservationFormula (solution q .SCR px xd0) xd0 (stL q) (stR q) a b t := by
  have hr := scr_root hroot
  have h1 := leftShock_order hq hpx
  have h2 : uxS q px ≤ uxS q px + aR q * fanPi q.gr q.pr px := by
    have := mul_pos (aR_pos hq) (fanPi_pos (g := q.gr) hq.2.2.2.1 hpx)
    linarith
  have h3 := fanR_order hq hpx hR hr
  simp only [WavesInside, scr_vregs q hq px hpx, scrWaves, List.map, List.mem_cons, List.not_mem_nil, or_false,
    forall_eq_or_imp, forall_eq] at hw
  obtain ⟨⟨ha, -⟩, -, -, -, hb⟩ := hw
  have hv : SValid ((a - xd0) / t) (fun _ => stL q) (scrWaves q px) ((b - xd0) / t) :=
    ⟨lt_reg ht ha, sgood_const _ _ _, leftShock_rh hq hpx,
     h1, sgood_const _ _ _, Contact.rankineHugoniot ⟨rfl, rfl, rfl⟩,
     h2, sgood_const _ _ _, rankineHugoniot_of_eq (fanR_tail hq hpx hr).symm _,
     h3, fanR_sgood hq hpx hR hr, rankineHugoniot_of_eq (fanR_head hq) _,
     reg_lt ht hb, sgood_const _ _ _⟩
  have hp : (scrWaves q px).Pairwise (fun v w => v.V ≤ w.V) := by
    simp only [scrWaves, List.pairwise_cons, List.mem_cons, List.not_mem_nil, or_false, forall_eq_or_imp,
    forall_eq, List.Pairwise.nil, and_true, IsEmpty.forall_iff, implies_true]
    refine ⟨⟨?_, ?_, ?_⟩, ⟨?_, ?_⟩, ?_⟩ <;> linarith
  have key := conservationFormula_of_svalid (L := stL q) (R := stR q) ht hv rfl rfl
  intro c
  have := key c
  simp only [← scr_solve q hq hd px xd0 _ t hpx ht hp] at this
  exact this

/-! ### rarefaction – contact – shock -/

def rcsWaves (q : Prob) (px : ℝ) : List SWave :=
  [⟨q.ul - aL q, fanL q⟩,
   ⟨uxF q px - aL q * fanPi q.gl q.pl px, fun _ => starLF q px⟩,
   ⟨uxF q px, fun _ => starRS q (uxF q px) px⟩,
   ⟨q.ur + 1 * shockW q.gr q.pr q.rr px, fun _ => stR q⟩]

theorem rcs_vregs (q : Prob) (hq : q.Admissible) (hd : q.Distinct) (px : ℝ) (hpx : 0 < px) :
    RiemannIG.vregs (toData q) .RCS px = (rcsWaves q px).map SWave.V := by
  simp only [RiemannIG.vregs, RiemannIG.rx1, m_ux_F q px .RCS (Or.inl rfl), toData_pl, toData_rl, toData_ul, toData_gl,
    toData_pr, toData_rr, toData_ur, toData_gr,
    m_shockVel_right q hd, m_ax1 q hq hpx, m_aL, rcsWaves, List.map]

theorem rcs_solve (q : Prob) (hq : q.Admissible) (hd : q.Distinct) (px xd0 x t : ℝ) (hpx : 0 < px) (ht : 0 < t)
    (h : (rcsWaves q px).Pairwise (fun v w => v.V ≤ w.V)) :
    solution q .RCS px xd0 x t = spw (fun _ => stL q) (rcsWaves q px) ((x - xd0) / t) := by
  have e1 := m_starL_F q px .RCS (Or.inl rfl)
  have e2 := m_starR_S q px .RCS (Or.inr rfl)
  rw [m_ux_F q px .RCS (Or.inl rfl)] at e2
  simp only [rcsWaves, List.pairwise_cons, List.mem_cons, List.not_mem_nil, or_false, forall_eq_or_imp,
    forall_eq, List.Pairwise.nil, and_true, IsEmpty.forall_iff, implies_true] at h
  simp only [solution, RiemannIG.solveWith, rcs_vregs q hq hd px hpx, RiemannIG.regStates, RiemannIG.xregs, List.map,
    RiemannIG.assemble, num_le, decide_eq_true_eq, reg_iff ht, spw, rcsWaves, toData_pl, toData_rl, toData_ul, toData_gl,
    toData_pr, toData_rr, toData_ur, toData_gr]
  split_ifs <;> simp only [e1, e2, m_fanL q, leftState_nf, rightState_nf] <;>
    first | rfl | (exfalso; linarith)

/-- **C04, pattern RCS** (left rarefaction: `px ≤ pl`) -/
theorem rcs_conservationFormula (q : Prob) (hq : q.Admissible) (hd : q.Distinct) (px : ℝ) (hpx : 0 < px)
    (hroot : Riem.RCS q px = 0) (hL : px ≤ q.pl) (xd0 a b t : ℝ) (ht : 0 < t)
    (hw : WavesInside q .RCS px xd0 a b t) :
    ConservationFormula (solution q .RCS px xd0) xd0 (stL q) (stR q) a b t := by
  have hr := rcs_root hroot
  have h1 := fanL_order hq hpx hL
  have h2 : uxF q px - aL q * fanPi q.gl q.pl px ≤ uxF q px := by
    have := mul_pos (aL_pos hq) (fanPi_pos (g := q.gl) hq.1 hpx)
    linarith
  have h3 := rightShock_order hq hpx hr
  simp only [WavesInside, rcs_vregs q hq hd px hpx, rcsWaves, List.map, List.mem_cons, List.not_mem_nil, or_false,
    forall_eq_or_imp, forall_eq] at hw
  obtain ⟨⟨ha, -⟩, -, -, -, hb⟩ := hw
  have hv : SValid ((a - xd0) / t) (fun _ => stL q) (rcsWaves q px) ((b - xd0) / t) :=
    ⟨lt_reg ht ha, sgood_const _ _ _, rankineHugoniot_of_eq (fanL_head hq).symm _,
     h1, fanL_sgood hq hpx hL, rankineHugoniot_of_eq (fanL_tail hq hpx) _,
     h2, sgood_const _ _ _, Contact.rankineHugoniot ⟨rfl, rfl, rfl⟩,
     h3, sgood_const _ _ _, rightShock_rh hq hpx hr,
     reg_lt ht hb, sgood_const _ _ _⟩
  have hp : (rcsWaves q px).Pairwise (fun v w => v.V ≤ w.V) := by
    simp only [rcsWaves, List.pairwise_cons, List.mem_cons, List.not_mem_nil, or_false, forall_eq_or_imp,
    forall_eq, List.Pairwise.nil, and_true, IsEmpty.forall_iff, implies_true]
    refine ⟨⟨?_, ?_, ?_⟩, ⟨?_, ?_⟩, ?_⟩ <;> linarith
  have key := conservationFormula_of_svalid (L := stL q) (R := stR q) ht hv rfl rfl
  intro c
  have := key c
  simp only [← rcs_solve q hq hd px xd0 _ t hpx ht hp] at this
  exact this

/-! ### rarefaction – contact – rarefaction -/

def rcrWaves (q : Prob) (px : ℝ) : List SWave :=
  [⟨q.ul - aL q, fanL q⟩,
   ⟨uxF q px - aL q * fanPi q.gl q.pl px, fun _ => starLF q px⟩,
   ⟨uxF q px, fun _ => starRF q (uxF q px) px⟩,
   ⟨uxF q px + aR q * fanPi q.gr q.pr px, fanR q⟩,
   ⟨q.ur + aR q, fun _ => stR q⟩]

theorem rcr_vregs (q : Prob) (hq : q.Admissible) (px : ℝ) (hpx : 0 < px) :
    RiemannIG.vregs (toData q) .RCR px = (rcrWaves q px).map SWave.V := by
  simp only [RiemannIG.vregs, RiemannIG.rx1, RiemannIG.rx2, m_ux_F q px .RCR (Or.inr rfl), toData_pl, toData_rl, toData_ul, toData_gl,
    toData_pr, toData_rr, toData_ur, toData_gr,
    m_ax1 q hq hpx, m_ax2 q hq hpx, m_aL, m_aR, rcrWaves, List.map]

theorem rcr_solve (q : Prob) (hq : q.Admissible) (hd : q.Distinct) (px xd0 x t : ℝ) (hpx : 0 < px) (ht : 0 < t)
    (h : (rcrWaves q px).Pairwise (fun v w => v.V ≤ w.V)) :
    solution q .RCR px xd0 x t = spw (fun _ => stL q) (rcrWaves q px) ((x - xd0) / t) := by
  have e1 := m_starL_F q px .RCR (Or.inr rfl)
  have e2 := m_starR_F q px .RCR (Or.inr rfl)
  rw [m_ux_F q px .RCR (Or.inr rfl)] at e2
  simp only [rcrWaves, List.pairwise_cons, List.mem_cons, List.not_mem_nil, or_false, forall_eq_or_imp,
    forall_eq, List.Pairwise.nil, and_true, IsEmpty.forall_iff, implies_true] at h
  simp only [solution, RiemannIG.solveWith, rcr_vregs q hq px hpx, RiemannIG.regStates, RiemannIG.xregs, List.map,
    RiemannIG.assemble, num_le, decide_eq_true_eq, reg_iff ht, spw, rcrWaves, toData_pl, toData_rl, toData_ul, toData_gl,
    toData_pr, toData_rr, toData_ur, toData_gr]
  split_ifs <;> simp only [e1, e2, m_fanL q, m_fanR q hd, leftState_nf, rightState_nf] <;>
    first | rfl | (exfalso; linarith)

/-- **C04, pattern RCR** (`px ≤ pl`, `px ≤ pr`) -/
theorem rcr_conservationFormula (q : Prob) (hq : q.Admissible) (hd : q.Distinct) (px : ℝ) (hpx : 0 < px)
    (hroot : Riem.RCR q px = 0) (hL : px ≤ q.pl) (hR : px ≤ q.pr) (xd0 a b t : ℝ) (ht : 0 < t)
    (hw : WavesInside q .RCR px xd0 a b t) :
    ConservationFormula (solution q .RCR px xd0) xd0 (stL q) (stR q) a b t := by
  have hr := rcr_root hroot
  have h1 := fanL_order hq hpx hL
  have h2 : uxF q px - aL q * fanPi q.gl q.pl px ≤ uxF q px := by
    have := mul_pos (aL_pos hq) (fanPi_pos (g := q.gl) hq.1 hpx)
    linarith
  have h3 : uxF q px ≤ uxF q px + aR q * fanPi q.gr q.pr px := by
    have := mul_pos (aR_pos hq) (fanPi_pos (g := q.gr) hq.2.2.2.1 hpx)
    linarith
  have h4 := fanR_order hq hpx hR hr
  simp only [WavesInside, rcr_vregs q hq px hpx, rcrWaves, List.map, List.mem_cons, List.not_mem_nil, or_false,
    forall_eq_or_imp, forall_eq] at hw
  obtain ⟨⟨ha, -⟩, -, -, -, -, hb⟩ := hw
  have hv : SValid ((a - xd0) / t) (fun _ => stL q) (rcrWaves q px) ((b - xd0) / t) :=
    ⟨lt_reg ht ha, sgood_const _ _ _, rankineHugoniot_of_eq (fanL_head hq).symm _,
     h1, fanL_sgood hq hpx hL, rankineHugoniot_of_eq (fanL_tail hq hpx) _,
     h2, sgood_const _ _ _, Contact.rankineHugoniot ⟨rfl, rfl, rfl⟩,
     h3, sgood_const _ _ _, rankineHugoniot_of_eq (fanR_tail hq hpx hr).symm _,
     h4, fanR_sgood hq hpx hR hr, rankineHugoniot_of_eq (fanR_head hq) _,
     reg_lt ht hb, sgood_const _ _ _⟩
  have hp : (rcrWaves q px).Pairwise (fun v w => v.V ≤ w.V) := by
    simp only [rcrWaves, List.pairwise_cons, List.mem_cons, List.not_mem_nil, or_false, forall_eq_or_imp,
    forall_eq, List.Pairwise.nil, and_true, IsEmpty.forall_iff, implies_true]
    refine ⟨⟨?_, ?_, ?_, ?_⟩, ⟨?_, ?_, ?_⟩, ⟨?_, ?_⟩, ?_⟩ <;> linarith
  have key := conservationFormula_of_svalid (L := stL q) (R := stR q) ht hv rfl rfl
  intro c
  have := key c
  simp only [← rcr_solve q hq hd px xd0 _ t hpx ht hp] at this
  exact this

/-! ### The literal form of C04: integral of the initial data plus t × (flux difference) -/

/-- **C04, SCS**: for every interval `[a, b] ∋ xd0` that contains all waves at time `t`, the integrals
of ρ, ρu, ρ(e + u²/2) of the returned solution equal those of the initial data plus
`t (F(U_L) - F(U_R))`. -/
theorem scs_conservation (q : Prob) (hq : q.Admissible) (hd : q.Distinct) (px : ℝ) (hpx : 0 < px)
    (hroot : Riem.SCS q px = 0) (xd0 a b t : ℝ) (ht : 0 < t) (ha : a ≤ xd0) (hb : xd0 ≤ b)
    (hw : WavesInside q .SCS px xd0 a b t) :
    IntegralConservation (solution q .SCS px xd0) xd0 (stL q) (stR q) a b t :=
  IntegralConservation.of_formula ha hb (scs_conservationFormula q hq hd px hpx hroot xd0 a b t ht hw)

/-- **C04, SCR** -/
theorem scr_conservation (q : Prob) (hq : q.Admissible) (hd : q.Distinct) (px : ℝ) (hpx : 0 < px)
    (hroot : Riem.SCR q px = 0) (hR : px ≤ q.pr) (xd0 a b t : ℝ) (ht : 0 < t) (ha : a ≤ xd0) (hb : xd0 ≤ b)
    (hw : WavesInside q .SCR px xd0 a b t) :
    IntegralConservation (solution q .SCR px xd0) xd0 (stL q) (stR q) a b t :=
  IntegralConservation.of_formula ha hb (scr_conservationFormula q hq hd px hpx hroot hR xd0 a b t ht hw)

/-- **C04, RCS** -/
theorem rcs_conservation (q : Prob) (hq : q.Admissible) (hd : q.Distinct) (px : ℝ) (hpx : 0 < px)
    (hroot : Riem.RCS q px = 0) (hL : px ≤ q.pl) (xd0 a b t : ℝ) (ht : 0 < t) (ha : a ≤ xd0) (hb : xd0 ≤ b)
    (hw : WavesInside q .RCS px xd0 a b t) :
    IntegralConservation (solution q .RCS px xd0) xd0 (stL q) (stR q) a b t :=
  IntegralConservation.of_formula ha hb (rcs_conservationFormula q hq hd px hpx hroot hL xd0 a b t ht hw)

/-- **C04, RCR** -/
theorem rcr_conservation (q : Prob) (hq : q.Admissible) (hd : q.Distinct) (px : ℝ) (hpx : 0 < px)
    (hroot : Riem.RCR q px = 0) (hL : px ≤ q.pl) (hR : px ≤ q.pr) (xd0 a b t : ℝ) (ht : 0 < t)
    (ha : a ≤ xd0) (hb : xd0 ≤ b) (hw : WavesInside q .RCR px xd0 a b t) :
    IntegralConservation (solution q .RCR px xd0) xd0 (stL q) (stR q) a b t :=
  IntegralConservation.of_formula ha hb (rcr_conservationFormula q hq hd px hpx hroot hL hR xd0 a b t ht hw)

/-- with the driver's own classification: `RiemannIG.solve` is `solveWith` of the classified pattern -/
theorem solve_eq (q : Prob) (px xd0 x t : ℝ) :
    toSpec (Riem.solve q px xd0 x t).2.2 = solution q (RiemannIG.classify (toData q)) px xd0 x t := rfl

/-! ### Non-vacuity

The hypotheses on the data, the star pressure and the pattern are satisfiable: at the solver's
default data (Sod's shock tube, pattern RCS) by the intermediate value theorem, and for each of
the four patterns at data with a rational star state.  The hypotheses on the interval are
satisfiable for every problem (`exists_wavesInside`). -/

/-- every finite list of speeds fits into some interval around the membrane -/
theorem exists_interval (l : List ℝ) (xd0 t : ℝ) :
    ∃ a b, a ≤ xd0 ∧ xd0 ≤ b ∧ ∀ V ∈ l, a < xd0 + t * V ∧ xd0 + t * V < b := by
  induction l with
  | nil => exact ⟨xd0, xd0, le_rfl, le_rfl, by simp⟩
  | cons v l ih =>
    obtain ⟨a, b, ha, hb, h⟩ := ih
    refine ⟨min a (xd0 + t * v - 1), max b (xd0 + t * v + 1), (min_le_left _ _).trans ha,
      hb.trans (le_max_left _ _), ?_⟩
    intro V hV
    rcases List.mem_cons.mp hV with rfl | hV
    · exact ⟨lt_of_le_of_lt (min_le_right _ _) (by linarith), lt_of_lt_of_le (by linarith) (le_max_right _ _)⟩
    · exact ⟨lt_of_le_of_lt (min_le_left _ _) (h V hV).1, lt_of_lt_of_le (h V hV).2 (le_max_left _ _)⟩

theorem exists_wavesInside (q : Prob) (pat : RiemannIG.Pattern) (px xd0 t : ℝ) :
    ∃ a b, a ≤ xd0 ∧ xd0 ≤ b ∧ WavesInside q pat px xd0 a b t :=
  exists_interval _ xd0 t

theorem cube_root_eighth : ((1 / 8 : ℝ) / 1) ^ (((3 : ℝ) - 1) / 2 / 3) = 1 / 2 := by
  rw [show ((1 / 8 : ℝ) / 1) = (1 / 2) ^ (3 : ℕ) by norm_num,
    show ((3 : ℝ) - 1) / 2 / 3 = ((3 : ℕ) : ℝ)⁻¹ by norm_num,
    Real.pow_rpow_inv_natCast (by norm_num) (by norm_num)]

def qSCS : Prob := { pl := 1, rl := 5/6, ul := 17/12, gl := 7/5, pr := 1, rr := 5/6, ur := -(17/12), gr := 7/5 }
def qRCS : Prob := { pl := 1, rl := 3, ul := 0, gl := 3, pr := 1/12, rr := 3/4, ur := 5/12, gr := 3 }
def qSCR : Prob := { pl := 1/12, rl := 3/4, ul := -(5/12), gl := 3, pr := 1, rr := 3, ur := 0, gr := 3 }
def qRCR : Prob := { pl := 1, rl := 3, ul := -(1/2), gl := 3, pr := 1, rr := 3, ur := 1/2, gr := 3 }

theorem sqrt_quarter : Real.sqrt (1 / 4) = 1 / 2 := by
  rw [Real.sqrt_eq_iff_mul_self_eq_of_pos (by norm_num)]; norm_num
theorem sqrt_four : Real.sqrt 4 = 2 := by
  rw [Real.sqrt_eq_iff_mul_self_eq_of_pos (by norm_num)]; norm_num

/-- non-vacuity, SCS: two equal gases colliding (γ = 7/5), px = 23/6 -/
theorem qSCS_ok : qSCS.Admissible ∧ qSCS.Distinct ∧ (0 : ℝ) < 23 / 6 ∧ Riem.SCS qSCS (23 / 6) = 0 := by
  refine ⟨by unfold Prob.Admissible qSCS; norm_num, by unfold Prob.Distinct qSCS; norm_num, by norm_num, ?_⟩
  have e : (2 : ℝ) / (7 / 5 + 1) / (5 / 6) / (23 / 6 + (7 / 5 - 1) / (7 / 5 + 1) * 1) = 1 / 4 := by norm_num
  simp only [SCS_eq, shock_eq, qSCS, e, sqrt_quarter]
  norm_num

/-- non-vacuity, RCS (γ = 3 on both sides, so that the star state is rational), px = 1/8 -/
theorem qRCS_ok : qRCS.Admissible ∧ qRCS.Distinct ∧ (0 : ℝ) < 1 / 8 ∧ Riem.RCS qRCS (1 / 8) = 0 ∧ 1 / 8 ≤ qRCS.pl := by
  refine ⟨by unfold Prob.Admissible qRCS; norm_num, by unfold Prob.Distinct qRCS; norm_num, by norm_num, ?_,
    by unfold qRCS; norm_num⟩
  have e : (2 : ℝ) / (3 + 1) / (3 / 4) / (1 / 8 + (3 - 1) / (3 + 1) * (1 / 12)) = 4 := by norm_num
  have e2 : (3 : ℝ) * 1 / 3 = 1 := by norm_num
  simp only [RCS_eq, shock_eq, rare_eq, qRCS, e, sqrt_four, e2, Real.sqrt_one, cube_root_eighth]
  norm_num

/-- non-vacuity, SCR: the mirror image -/
theorem qSCR_ok : qSCR.Admissible ∧ qSCR.Distinct ∧ (0 : ℝ) < 1 / 8 ∧ Riem.SCR qSCR (1 / 8) = 0 ∧ 1 / 8 ≤ qSCR.pr := by
  refine ⟨by unfold Prob.Admissible qSCR; norm_num, by unfold Prob.Distinct qSCR; norm_num, by norm_num, ?_,
    by unfold qSCR; norm_num⟩
  have e : (2 : ℝ) / (3 + 1) / (3 / 4) / (1 / 8 + (3 - 1) / (3 + 1) * (1 / 12)) = 4 := by norm_num
  have e2 : (3 : ℝ) * 1 / 3 = 1 := by norm_num
  simp only [SCR_eq, shock_eq, rare_eq, qSCR, e, sqrt_four, e2, Real.sqrt_one, cube_root_eighth]
  norm_num

/-- non-vacuity, RCR: two equal gases receding -/
theorem qRCR_ok : qRCR.Admissible ∧ qRCR.Distinct ∧ (0 : ℝ) < 1 / 8 ∧ Riem.RCR qRCR (1 / 8) = 0 ∧
    1 / 8 ≤ qRCR.pl ∧ 1 / 8 ≤ qRCR.pr := by
  refine ⟨by unfold Prob.Admissible qRCR; norm_num, by unfold Prob.Distinct qRCR; norm_num, by norm_num, ?_,
    by unfold qRCR; norm_num, by unfold qRCR; norm_num⟩
  have e2 : (3 : ℝ) * 1 / 3 = 1 := by norm_num
  simp only [RCR_eq, rare_eq, qRCR, e2, Real.sqrt_one, cube_root_eighth]
  norm_num

/-- at the solver's DEFAULT data (Sod's shock tube) the traced `RCS_call` has a root in
`[pr, pl] = [1/10, 1]` (intermediate value theorem): the hypotheses of `rcs_conservation` are
satisfiable at the defaults -/
theorem sod_root : ∃ px : ℝ, 0 < px ∧ px ≤ sod.pl ∧ Riem.RCS sod px = 0 := by
  have hc : ContinuousOn (fun p => Riem.RCS sod p) (Icc (1 / 10) 1) := by
    simp only [RCS_eq, shock_eq, rare_eq, sod]
    intro p hp
    have hp0 : (0 : ℝ) < p := by linarith [hp.1]
    apply ContinuousAt.continuousWithinAt
    have h1 : p + (7 / 5 - 1) / (7 / 5 + 1) * (1 / 10) ≠ 0 := by positivity
    have h2 : ContinuousAt (fun p : ℝ => (p / 1) ^ (((7 : ℝ) / 5 - 1) / 2 / (7 / 5))) p :=
      (continuousAt_id.div_const 1).rpow_const (Or.inr (by norm_num))
    fun_prop (disch := assumption)
  have h0 : Riem.RCS sod (1 / 10) < 0 := by
    simp only [RCS_eq, shock_eq, rare_eq, sod]
    have h : ((1 / 10 : ℝ) / 1) ^ (((7 : ℝ) / 5 - 1) / 2 / (7 / 5)) < 1 :=
      Real.rpow_lt_one (by norm_num) (by norm_num) (by norm_num)
    have hs : 0 < Real.sqrt (7 / 5 * 1 / 1) := Real.sqrt_pos.mpr (by norm_num)
    have : 0 < 2 * Real.sqrt (7 / 5 * 1 / 1) / (7 / 5 - 1) * (1 - ((1 / 10 : ℝ) / 1) ^ (((7 : ℝ) / 5 - 1) / 2 / (7 / 5))) := by
      apply mul_pos
      · positivity
      · linarith
    norm_num at this ⊢
    linarith
  have h1 : 0 < Riem.RCS sod 1 := by
    simp only [RCS_eq, shock_eq, rare_eq, sod]
    have hs : 0 < Real.sqrt (2 / (7 / 5 + 1) / (1 / 8) / (1 + (7 / 5 - 1) / (7 / 5 + 1) * (1 / 10))) :=
      Real.sqrt_pos.mpr (by norm_num)
    simp only [div_one, Real.one_rpow, sub_self, mul_zero, zero_add, add_zero, sub_zero]
    nlinarith
  obtain ⟨px, hpx, hroot⟩ := intermediate_value_Icc (by norm_num : (1 / 10 : ℝ) ≤ 1) hc
    (show (0 : ℝ) ∈ Icc (Riem.RCS sod (1 / 10)) (Riem.RCS sod 1) from ⟨h0.le, h1.le⟩)
  exact ⟨px, by linarith [hpx.1], by simpa [sod] using hpx.2, hroot⟩

/-- the default problem (Sod), end to end: some star pressure, some interval, and the conclusion -/
example : ∃ px a b : ℝ, IntegralConservation (solution sod .RCS px (1 / 2)) (1 / 2) (stL sod) (stR sod) a b (1 / 4) := by
  obtain ⟨px, hpx, hL, hroot⟩ := sod_root
  obtain ⟨a, b, ha, hb, hw⟩ := exists_wavesInside sod .RCS px (1 / 2) (1 / 4)
  exact ⟨px, a, b, rcs_conservation sod sod_admissible.1 sod_admissible.2 px hpx hroot hL (1 / 2) a b (1 / 4)
    (by norm_num) ha hb hw⟩

end

end EPV.C04
