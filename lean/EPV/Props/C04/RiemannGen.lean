/-
C04 (P) — integral conservation for the GENERAL-EOS Riemann solver, with its numerical
primitives as atoms.  **Partial**: see "what is missing" below.

`RiemannGenEOS.driver` (`riemann.py:203–416`) does not use closed forms.  For each side it
tabulates the isentrope through the initial state (`r_int_call`: scipy's `ode` with the
right-hand side `drdp_dudp`) and the Hugoniot (`match_shocks`: `bisect` on `shock_jump`, then
`star_velocity`), finds the star pressure where the two P–U curves cross, and interpolates.

What is proved (all four patterns, ideal-gas and JWL closures, either may differ on the two
sides through `gl`, `gr`): if
  * in a fan the fields, as functions of ξ, vary as the TRACED `drdp_dudp` prescribes, the fan
    is centred on the TRACED sound speed (`xr = xd0 + t (u ∓ a)`), and `sie` obeys the chain
    rule along the fan with the CODED partial derivatives `dsdp_cR`, `dsdr_cP`  (`FanAtoms.Solves`),
  * at a shock the star density is a root of the TRACED `shock_jump` (`HugoniotRoot`), the star
    velocity and shock speed being the TRACED `star_velocity`, `shock_speed` (`shockSpeed_left/right`,
    `starVel_left/right` identify the generated models with the closed forms used here),
  * the two P–U curves meet (one star velocity),
then the piecewise solution conserves mass, momentum and energy over every interval containing all
waves (`gen_scs/scr/rcs/rcr_conservationFormula_partial`).  The proof is the abstract theorem of
`EPV.Lemmas.ConservationState`; the fan satisfies the similarity form of the equations because the
coded sound speed `a² = (p/ρ² - e_ρ)/e_p` makes `dρ/dp = 1/a²` an isentrope (`gen_first_law`), the shock
satisfies Rankine–Hugoniot because `shock_jump` is the Hugoniot function and `shock_speed`,
`star_velocity` are the mass and momentum jumps (`gen_shock_rankineHugoniot`, any EOS).

The chain rule for `sie` with the coded partial derivatives is PROVED for both closures
(`closureIG_chainRule`, `closureJWL_chainRule`: from the derivative of the documented form of the traced
`sie`, which is where `JWL_dfdr` has to be the derivative of `JWL_f`), so that hypothesis can be dropped
(`FanAtoms.solves_of_chainRule`).

What is missing (hence `_partial`): the ODE integrator, the inversion ξ ↦ p of the fan by
interpolation, the `bisect` roots and the crossing of the interpolated P–U tables are atoms (their
exactness is assumed); the driver's region assembly
(`reg_state_geos`, interpolation onto its own grid, which smears every discontinuity over one cell)
is not modelled — the oracle `o_c04.gen_ig/gen_jwl` checks the real solver within that resolution.
-/
import EPV.Gen.RiemOdeIG
import EPV.Gen.RiemOdeJWL
import EPV.Gen.RiemSound
import EPV.Gen.RiemSoundJWL
import EPV.Gen.RiemSie
import EPV.Gen.RiemSieJWL
import EPV.Gen.RiemSieJWLD
import EPV.Gen.RiemDsdrIG
import EPV.Gen.RiemDsdpIG
import EPV.Gen.RiemDsdrJWL
import EPV.Gen.RiemDsdpJWL
import EPV.Gen.RiemShockJumpIG
import EPV.Gen.RiemShockJumpJWL
import EPV.Gen.RiemShockSpeedIG
import EPV.Gen.RiemShockSpeedJWL
import EPV.Gen.RiemStarVelIG
import EPV.Gen.RiemStarVelJWL
import EPV.Lemmas.RiemannGenWaves
import EPV.Lemmas.RiemannIGFan
import EPV.Lemmas.Bridge.RiemannGen
import EPV.Tactics
set_option linter.all false
open EPV EPV.Gen EPV.Spec EPV.Conservation Set
namespace EPV.C04
noncomputable section

/-- the closure functions the general solver uses on one side, as functions of (p, ρ) -/
structure Closure where
  sie : ℝ → ℝ → ℝ
  sound : ℝ → ℝ → ℝ
  dsdp : ℝ → ℝ → ℝ
  dsdr : ℝ → ℝ → ℝ
  /-- `drdp_dudp(p, [ρ, u], g, ws, inst)`, both components -/
  drdp : ℝ → ℝ → ℝ → ℝ
  dudp : ℝ → ℝ → ℝ → ℝ
  /-- `shock_jump(p0, r0, g, px, rx, inst)` -/
  shockJump : ℝ → ℝ → ℝ → ℝ → ℝ

/-- the JWL constants -/
structure JwlC where
  A : ℝ
  B : ℝ
  R1 : ℝ
  R2 : ℝ
  r0 : ℝ

/-- generated models, problem = 'igeos' -/
def closureIG (g : ℝ) : Closure where
  sie p ρ := RiemSie.e { gk := g, pk := p, rk := ρ }
  sound p ρ := RiemSound.a { gk := g, pk := p, rk := ρ }
  dsdp p ρ := RiemDsdpIG.d { gk := g, rho := ρ }
  dsdr p ρ := RiemDsdrIG.d { gk := g, pk := p, rho := ρ }
  drdp p ρ ws := RiemOdeIG.drdp { gk := g, pz := p, rz := ρ, ws := ws }
  dudp p ρ ws := RiemOdeIG.dudp { gk := g, pz := p, rz := ρ, ws := ws }
  shockJump p0 r0 px rx := RiemShockJumpIG.res { gk := g, pk := p0, rk := r0, pz := px, rz := rx }

/-- generated models, problem = 'JWL' -/
def closureJWL (c : JwlC) (g : ℝ) : Closure where
  sie p ρ := RiemSieJWL.e { A := c.A, B := c.B, R1 := c.R1, R2 := c.R2, r0 := c.r0, gk := g } p ρ
  sound p ρ := RiemSoundJWL.a { A := c.A, B := c.B, R1 := c.R1, R2 := c.R2, r0 := c.r0, gk := g, pk := p, rho := ρ }
  dsdp p ρ := RiemDsdpJWL.d { gk := g, rho := ρ }
  dsdr p ρ := RiemDsdrJWL.d { A := c.A, B := c.B, R1 := c.R1, R2 := c.R2, r0 := c.r0, gk := g, pk := p, rho := ρ }
  drdp p ρ ws := RiemOdeJWL.drdp { A := c.A, B := c.B, R1 := c.R1, R2 := c.R2, r0 := c.r0, gk := g, pz := p, rz := ρ, ws := ws }
  dudp p ρ ws := RiemOdeJWL.dudp { A := c.A, B := c.B, R1 := c.R1, R2 := c.R2, r0 := c.r0, gk := g, pz := p, rz := ρ, ws := ws }
  shockJump p0 r0 px rx := RiemShockJumpJWL.res
    { A := c.A, B := c.B, R1 := c.R1, R2 := c.R2, r0 := c.r0, gk := g, pk := p0, rk := r0, pz := px, rz := rx }

/-! ### the closure fields in documented form

The only lemmas of this file that unfold `closureIG` / `closureJWL` down to the traced terms: they go through
the bridge `EPV.Lemmas.Bridge.RiemannGen` (shape-independent, GUIDE §8).  Everything below uses these. -/

theorem cIG_sie (g p ρ : ℝ) : (closureIG g).sie p ρ = (p - 0) / (g - 1) / ρ := by
  simp only [closureIG, Bridge.Riem.sieIG_eq]
theorem cIG_sound (g p ρ : ℝ) : (closureIG g).sound p ρ = Real.sqrt (g * p / ρ) := by
  simp only [closureIG, Bridge.Riem.soundIG_eq]
theorem cIG_dsdp (g p ρ : ℝ) : (closureIG g).dsdp p ρ = 1 / ρ / (g - 1) := by
  simp only [closureIG, Bridge.Riem.dsdpIG_eq]
theorem cIG_dsdr (g p ρ : ℝ) : (closureIG g).dsdr p ρ = -p / (g - 1) / ρ ^ 2 := by
  simp only [closureIG, Bridge.Riem.dsdrIG_eq]
theorem cIG_drdp (g p ρ ws : ℝ) : (closureIG g).drdp p ρ ws = 1 / Real.sqrt (g * p / ρ) ^ 2 := by
  simp only [closureIG, Bridge.Riem.odeIG_drdp_eq]
theorem cIG_dudp (g p ρ ws : ℝ) : (closureIG g).dudp p ρ ws = 1 / ρ / Real.sqrt (g * p / ρ) * ws := by
  simp only [closureIG, Bridge.Riem.odeIG_dudp_eq]
theorem cIG_jump (g p0 r0 px rx : ℝ) :
    (closureIG g).shockJump p0 r0 px rx
      = (p0 - 0) / (g - 1) / r0 + p0 / r0 + rx / r0 * (px - p0) / (rx - r0) / 2
        - ((px - 0) / (g - 1) / rx + px / rx + r0 / rx * (px - p0) / (rx - r0) / 2) := by
  simp only [closureIG, Bridge.Riem.shockJumpIG_eq, Bridge.Riem.jumpForm]

/-- `JWL_f` with the constants of `c` -/
def JwlC.F (c : JwlC) (g ρ : ℝ) : ℝ := Bridge.Riem.jwlF c.A c.B c.R1 c.R2 c.r0 g ρ
/-- `JWL_dfdr` with the constants of `c` -/
def JwlC.dF (c : JwlC) (g ρ : ℝ) : ℝ := Bridge.Riem.jwlDf c.A c.B c.R1 c.R2 c.r0 g ρ

theorem cJ_sie (c : JwlC) (g p ρ : ℝ) : (closureJWL c g).sie p ρ = (p - c.F g ρ) / (g - 1) / ρ := by
  simp only [closureJWL, Bridge.Riem.sieJWL_eq, JwlC.F]
theorem cJ_dsdp (c : JwlC) (g p ρ : ℝ) : (closureJWL c g).dsdp p ρ = 1 / ρ / (g - 1) := by
  simp only [closureJWL, Bridge.Riem.dsdpJWL_eq]
theorem cJ_dsdr (c : JwlC) (g p ρ : ℝ) :
    (closureJWL c g).dsdr p ρ = -c.dF g ρ / (g - 1) / ρ - (p - c.F g ρ) / (g - 1) / ρ ^ 2 := by
  simp only [closureJWL, Bridge.Riem.dsdrJWL_eq, JwlC.F, JwlC.dF]
/-- the general sound speed, in terms of the closure's own coded partial derivatives -/
theorem cJ_sound (c : JwlC) (g p ρ : ℝ) :
    (closureJWL c g).sound p ρ
      = Real.sqrt ((p / ρ ^ 2 - (closureJWL c g).dsdr p ρ) / (closureJWL c g).dsdp p ρ) := by
  rw [cJ_dsdr, cJ_dsdp]
  simp only [closureJWL, Bridge.Riem.soundJWL_eq, Bridge.Riem.cSqJWL, JwlC.F, JwlC.dF]
theorem cJ_drdp (c : JwlC) (g p ρ ws : ℝ) : (closureJWL c g).drdp p ρ ws = 1 / (closureJWL c g).sound p ρ ^ 2 := by
  simp only [closureJWL, Bridge.Riem.odeJWL_drdp_eq, Bridge.Riem.soundJWL_eq]
theorem cJ_dudp (c : JwlC) (g p ρ ws : ℝ) :
    (closureJWL c g).dudp p ρ ws = 1 / ρ / (closureJWL c g).sound p ρ * ws := by
  simp only [closureJWL, Bridge.Riem.odeJWL_dudp_eq, Bridge.Riem.soundJWL_eq]
theorem cJ_jump (c : JwlC) (g p0 r0 px rx : ℝ) :
    (closureJWL c g).shockJump p0 r0 px rx
      = (closureJWL c g).sie p0 r0 + p0 / r0 + rx / r0 * (px - p0) / (rx - r0) / 2
        - ((closureJWL c g).sie px rx + px / rx + r0 / rx * (px - p0) / (rx - r0) / 2) := by
  rw [cJ_sie, cJ_sie]
  simp only [closureJWL, Bridge.Riem.shockJumpJWL_eq, Bridge.Riem.jumpForm, JwlC.F]

/-- what the proofs use of a closure: the ODE right-hand side is `(1/a², ws/(ρ a))` with the closure's own
sound speed, `shock_jump` is the Hugoniot function of the closure's own `sie`, and the sound speed obeys
`a² e_p = p/ρ² - e_ρ` with the coded partial derivatives -/
structure Closure.Lawful (C : Closure) : Prop where
  ode_drdp : ∀ p ρ ws, C.drdp p ρ ws = 1 / C.sound p ρ ^ 2
  ode_dudp : ∀ p ρ ws, C.dudp p ρ ws = 1 / ρ / C.sound p ρ * ws
  jump : ∀ p0 r0 px rx, C.shockJump p0 r0 px rx
    = C.sie p0 r0 + p0 / r0 + rx / r0 * (px - p0) / (rx - r0) / 2
      - (C.sie px rx + px / rx + r0 / rx * (px - p0) / (rx - r0) / 2)
  sound_sq : ∀ p ρ, ρ ≠ 0 → C.dsdp p ρ ≠ 0 → 0 ≤ (p / ρ ^ 2 - C.dsdr p ρ) / C.dsdp p ρ →
    C.sound p ρ ^ 2 * C.dsdp p ρ = p / ρ ^ 2 - C.dsdr p ρ
  sound_nonneg : ∀ p ρ, 0 ≤ C.sound p ρ

theorem closureIG_lawful (g : ℝ) : (closureIG g).Lawful where
  ode_drdp p ρ ws := by simp only [cIG_drdp, cIG_sound]
  ode_dudp p ρ ws := by simp only [cIG_dudp, cIG_sound]
  jump p0 r0 px rx := by simp only [cIG_jump, cIG_sie]
  sound_sq p ρ hρ hd h := by
    simp only [cIG_dsdp, cIG_dsdr, cIG_sound] at hd h ⊢
    have hg : g - 1 ≠ 0 := by
      intro h0; apply hd; rw [h0]; simp
    have e : (p / ρ ^ 2 - -p / (g - 1) / ρ ^ 2) / (1 / ρ / (g - 1)) = g * p / ρ := by field_simp; ring
    rw [e] at h
    rw [Real.sq_sqrt h]
    field_simp
    ring
  sound_nonneg p ρ := by rw [cIG_sound]; exact Real.sqrt_nonneg _

theorem closureJWL_lawful (c : JwlC) (g : ℝ) : (closureJWL c g).Lawful where
  ode_drdp p ρ ws := cJ_drdp c g p ρ ws
  ode_dudp p ρ ws := cJ_dudp c g p ρ ws
  jump p0 r0 px rx := cJ_jump c g p0 r0 px rx
  sound_sq p ρ hρ hd h := by
    rw [cJ_sound, Real.sq_sqrt h, div_mul_cancel₀ _ hd]
  sound_nonneg p ρ := by rw [cJ_sound]; exact Real.sqrt_nonneg _

/-! ### Shock: Hugoniot root as an atom -/

/-- the star state behind a general-EOS shock, in the closed form of `star_velocity` -/
def genStar (C : Closure) (sgn p0 r0 u0 px rx : ℝ) : State :=
  ⟨rx, u0 + (Real.sqrt (rx / r0 * (px - p0) / (rx - r0)) - Real.sqrt (r0 / rx * (px - p0) / (rx - r0))) * sgn,
    px, C.sie px rx⟩
/-- the closed form of `shock_speed` -/
def genShockSpeed (sgn p0 r0 u0 px rx : ℝ) : ℝ := sgn * Real.sqrt (rx / r0 * (px - p0) / (rx - r0)) + u0

/-- admissibility of a Hugoniot root `rx` for the pressure `px` from the state `(p0, r0)` -/
structure HugoniotRoot (C : Closure) (p0 r0 px rx : ℝ) : Prop where
  r0_pos : 0 < r0
  rx_pos : 0 < rx
  ne : rx - r0 ≠ 0
  /-- the radicand of `shock_speed` is non-negative (compression raises the pressure) -/
  slope : 0 ≤ (px - p0) / (rx - r0)
  /-- the `bisect` root of `shock_jump` -/
  root : C.shockJump p0 r0 px rx = 0

theorem gen_shock_rh {C : Closure} (hC : C.Lawful) {sgn p0 r0 u0 px rx : ℝ} (hs : sgn = 1 ∨ sgn = -1)
    (h : HugoniotRoot C p0 r0 px rx) :
    RankineHugoniot ⟨r0, u0, p0, C.sie p0 r0⟩ (genStar C sgn p0 r0 u0 px rx)
      (genShockSpeed sgn p0 r0 u0 px rx) :=
  gen_shock_rankineHugoniot hs h.r0_pos h.rx_pos h.ne h.slope (by rw [← hC.jump]; exact h.root)

/-- the generated `shock_speed` / `star_velocity` (they do not depend on the closure: the IG and the JWL
trace are the same term) called for the LEFT state, as `match_shocks(pmax, pl, rl, ul, gl)` /
`shock_speed(px, rx1, pl, rl, ul)` do: the side detection compares the state with itself, sign −1 -/
theorem shockSpeed_left (pl rl ul px rx : ℝ) :
    RiemShockSpeedIG.V { pz := px, rz := rx, pk := pl, rk := rl, uk := ul, pl := pl, rl := rl, ul := ul }
      = genShockSpeed (-1) pl rl ul px rx
    ∧ RiemShockSpeedJWL.V { pz := px, rz := rx, pk := pl, rk := rl, uk := ul, pl := pl, rl := rl, ul := ul }
      = genShockSpeed (-1) pl rl ul px rx := by
  constructor
  · rw [Bridge.Riem.shockSpeedIG_eq]
    simp only [Bridge.Riem.sideSgn_self, Bridge.Riem.relSpeed, genShockSpeed]
  · rw [Bridge.Riem.shockSpeedJWL_eq]
    simp only [Bridge.Riem.sideSgn_self, Bridge.Riem.relSpeed, genShockSpeed]

theorem sqrt_swap (r0 rx p0 px : ℝ) :
    Real.sqrt (r0 / rx * (p0 - px) / (r0 - rx)) = Real.sqrt (r0 / rx * (px - p0) / (rx - r0)) := by
  congr 1
  rw [← neg_sub px p0, ← neg_sub rx r0, mul_neg, neg_div_neg_eq]

theorem starVel_left (C : Closure) (pl rl ul px rx : ℝ) :
    RiemStarVelIG.u { pz := px, rz := rx, pk := pl, rk := rl, uk := ul, pl := pl, rl := rl, ul := ul }
      = (genStar C (-1) pl rl ul px rx).u
    ∧ RiemStarVelJWL.u { pz := px, rz := rx, pk := pl, rk := rl, uk := ul, pl := pl, rl := rl, ul := ul }
      = (genStar C (-1) pl rl ul px rx).u := by
  constructor
  · rw [Bridge.Riem.starVelIG_eq]
    simp only [Bridge.Riem.sideSgn_self]
    rw [Bridge.Riem.relSpeed_swap pl rl px rx]
    simp only [Bridge.Riem.relSpeed, genStar]
  · rw [Bridge.Riem.starVelJWL_eq]
    simp only [Bridge.Riem.sideSgn_self]
    rw [Bridge.Riem.relSpeed_swap pl rl px rx]
    simp only [Bridge.Riem.relSpeed, genStar]

/-- … and for a RIGHT state that differs from the left state: sign +1 -/
theorem shockSpeed_right (pl rl ul pr rr ur px rx : ℝ) (hd : ¬ (pr = pl ∧ rr = rl ∧ ur = ul)) :
    RiemShockSpeedIG.V { pz := px, rz := rx, pk := pr, rk := rr, uk := ur, pl := pl, rl := rl, ul := ul }
      = genShockSpeed 1 pr rr ur px rx
    ∧ RiemShockSpeedJWL.V { pz := px, rz := rx, pk := pr, rk := rr, uk := ur, pl := pl, rl := rl, ul := ul }
      = genShockSpeed 1 pr rr ur px rx := by
  constructor
  · rw [Bridge.Riem.shockSpeedIG_eq]
    simp only [Bridge.Riem.sideSgn_of_ne hd, Bridge.Riem.relSpeed, genShockSpeed]
  · rw [Bridge.Riem.shockSpeedJWL_eq]
    simp only [Bridge.Riem.sideSgn_of_ne hd, Bridge.Riem.relSpeed, genShockSpeed]

theorem starVel_right (C : Closure) (pl rl ul pr rr ur px rx : ℝ) (hd : ¬ (pr = pl ∧ rr = rl ∧ ur = ul)) :
    RiemStarVelIG.u { pz := px, rz := rx, pk := pr, rk := rr, uk := ur, pl := pl, rl := rl, ul := ul }
      = (genStar C 1 pr rr ur px rx).u
    ∧ RiemStarVelJWL.u { pz := px, rz := rx, pk := pr, rk := rr, uk := ur, pl := pl, rl := rl, ul := ul }
      = (genStar C 1 pr rr ur px rx).u := by
  constructor
  · rw [Bridge.Riem.starVelIG_eq]
    simp only [Bridge.Riem.sideSgn_of_ne hd]
    rw [Bridge.Riem.relSpeed_swap pr rr px rx]
    simp only [Bridge.Riem.relSpeed, genStar]
  · rw [Bridge.Riem.starVelJWL_eq]
    simp only [Bridge.Riem.sideSgn_of_ne hd]
    rw [Bridge.Riem.relSpeed_swap pr rr px rx]
    simp only [Bridge.Riem.relSpeed, genStar]

/-! ### Fan: the ODE solution as an atom -/

/-- pressure, density and velocity in a fan as functions of ξ, with their derivatives: atoms (the
tabulated ODE solution, inverted by interpolation over `xr = xd0 + t (u ± a)`) -/
structure FanAtoms where
  P : ℝ → ℝ
  R : ℝ → ℝ
  Uv : ℝ → ℝ
  dP : ℝ → ℝ
  dR : ℝ → ℝ
  dU : ℝ → ℝ

def FanAtoms.toGenFan (F : FanAtoms) (C : Closure) (ws : ℝ) : GenFan where
  P := F.P
  R := F.R
  Uv := F.Uv
  E ξ := C.sie (F.P ξ) (F.R ξ)
  dP := F.dP
  dR := F.dR
  dU := F.dU
  dE ξ := C.dsdp (F.P ξ) (F.R ξ) * F.dP ξ + C.dsdr (F.P ξ) (F.R ξ) * F.dR ξ
  a ξ := C.sound (F.P ξ) (F.R ξ)
  ws := ws

/-- the state in the fan -/
def FanAtoms.state (F : FanAtoms) (C : Closure) : ℝ → State :=
  fun ξ => ⟨F.R ξ, F.Uv ξ, F.P ξ, C.sie (F.P ξ) (F.R ξ)⟩

/-- what is assumed of the atoms at one ξ: they are differentiable, vary as the TRACED right-hand side
`drdp_dudp` prescribes, the fan is centred on the traced sound speed, and `sie` obeys the chain rule along
the fan with the CODED partial derivatives `dsdp_cR`, `dsdr_cP` -/
structure FanAtoms.Solves (F : FanAtoms) (C : Closure) (ws ξ : ℝ) : Prop where
  hP : HasDerivAt F.P (F.dP ξ) ξ
  hR : HasDerivAt F.R (F.dR ξ) ξ
  hU : HasDerivAt F.Uv (F.dU ξ) ξ
  hE : HasDerivAt (fun ξ => C.sie (F.P ξ) (F.R ξ))
    (C.dsdp (F.P ξ) (F.R ξ) * F.dP ξ + C.dsdr (F.P ξ) (F.R ξ) * F.dR ξ) ξ
  rho_ne : F.R ξ ≠ 0
  a_ne : C.sound (F.P ξ) (F.R ξ) ≠ 0
  dsdp_ne : C.dsdp (F.P ξ) (F.R ξ) ≠ 0
  radicand : 0 ≤ (F.P ξ / F.R ξ ^ 2 - C.dsdr (F.P ξ) (F.R ξ)) / C.dsdp (F.P ξ) (F.R ξ)
  ode_r : F.dR ξ = C.drdp (F.P ξ) (F.R ξ) ws * F.dP ξ
  ode_u : F.dU ξ = C.dudp (F.P ξ) (F.R ξ) ws * F.dP ξ
  centred : ξ = F.Uv ξ + ws * C.sound (F.P ξ) (F.R ξ)

theorem FanAtoms.holds {F : FanAtoms} {C : Closure} (hC : C.Lawful) {ws ξ : ℝ} (h : F.Solves C ws ξ) :
    (F.toGenFan C ws).Holds ξ where
  hP := h.hP
  hR := h.hR
  hU := h.hU
  hE := h.hE
  a_ne := h.a_ne
  rho_ne := h.rho_ne
  drdp := by simp only [FanAtoms.toGenFan]; rw [h.ode_r, hC.ode_drdp]
  dudp := by simp only [FanAtoms.toGenFan]; rw [h.ode_u, hC.ode_dudp]
  first_law := by
    simp only [FanAtoms.toGenFan]
    exact gen_first_law h.a_ne (hC.sound_sq _ _ h.rho_ne h.dsdp_ne h.radicand)
      (by rw [h.ode_r, hC.ode_drdp])
  centred := h.centred

theorem FanAtoms.sgood {F : FanAtoms} {C : Closure} (hC : C.Lawful) {ws ξ₁ ξ₂ : ℝ} (hws : ws = 1 ∨ ws = -1)
    (h12 : ξ₁ ≤ ξ₂) (h : ∀ ξ ∈ Icc ξ₁ ξ₂, F.Solves C ws ξ) : SGood (F.state C) ξ₁ ξ₂ :=
  GenFan.sgood (F.toGenFan C ws) hws h12 (fun ξ hξ => FanAtoms.holds hC (h ξ hξ))

/-- the chain rule for `sie` along a curve `(P ξ, R ξ)` with the CODED partial derivatives -/
def Closure.ChainRule (C : Closure) : Prop :=
  ∀ (P R : ℝ → ℝ) (P' R' ξ : ℝ), HasDerivAt P P' ξ → HasDerivAt R R' ξ → R ξ ≠ 0 →
    HasDerivAt (fun ξ => C.sie (P ξ) (R ξ)) (C.dsdp (P ξ) (R ξ) * P' + C.dsdr (P ξ) (R ξ) * R') ξ

/-- ideal gas: `dsdp_cR`, `dsdr_cP` are the partial derivatives of `sie` -/
theorem closureIG_chainRule (g : ℝ) : (closureIG g).ChainRule := by
  intro P R P' R' ξ hP hR hρ
  have he := EPV.D.div (EPV.D.div_const (EPV.D.sub_const hP 0) (g - 1)) hR hρ
  simp only [cIG_sie, cIG_dsdp, cIG_dsdr]
  refine he.congr_deriv ?_
  by_cases hg : g - 1 = 0
  · simp [hg]
  · field_simp
    ring

/-- the JWL constants for which the code's divisions are defined -/
def JwlC.Regular (c : JwlC) : Prop := c.R1 * c.r0 ≠ 0 ∧ c.R2 * c.r0 ≠ 0

theorem jwlLeaves : RiemSieJWL.okLeaves = [0] := rfl

/-- JWL: `dsdr_cP` is ∂e/∂ρ at constant p of the traced `sie` (through the bridge to its documented form; this is where
`JWL_dfdr` has to be the derivative of `JWL_f`) -/
theorem jwl_dsdr (c : JwlC) (hc : c.Regular) (g p ρ : ℝ) (hg : g - 1 ≠ 0) (hρ : ρ ≠ 0) :
    HasDerivAt (fun r => (closureJWL c g).sie p r) ((closureJWL c g).dsdr p ρ) ρ := by
  obtain ⟨h1, h2⟩ := hc
  have k1 : c.R1 * c.r0 / ρ ≠ 0 := div_ne_zero h1 hρ
  have k2 : c.R2 * c.r0 / ρ ≠ 0 := div_ne_zero h2 hρ
  have hR1 : c.R1 ≠ 0 := left_ne_zero_of_mul h1
  have hR2 : c.R2 ≠ 0 := left_ne_zero_of_mul h2
  have hr0 : c.r0 ≠ 0 := right_ne_zero_of_mul h1
  -- shape-independent: the derivative of the documented `sie` (`EPV.Lemmas.Bridge.RiemannGen`)
  have e : (fun r => (closureJWL c g).sie p r)
      = fun r => (p - Bridge.Riem.jwlF c.A c.B c.R1 c.R2 c.r0 g r) / (g - 1) / r := by
    funext r; rw [cJ_sie]; rfl
  rw [e, cJ_dsdr]
  exact Bridge.Riem.sieJWL_hasDerivAt_rho c.A c.B c.R1 c.R2 c.r0 g p ρ hρ h1 h2

/-- JWL: the chain rule along a curve, from the certificate in ρ and the fact that `sie` is affine in p -/
theorem closureJWL_chainRule (c : JwlC) (hc : c.Regular) (g : ℝ) (hg : g - 1 ≠ 0) :
    (closureJWL c g).ChainRule := by
  intro P R P' R' ξ hP hR hρ
  -- sie(p, ρ) = sie(0, ρ) + p · dsdp(ρ)
  have haff : ∀ p ρ, (closureJWL c g).sie p ρ = (closureJWL c g).sie 0 ρ + p * (1 / ρ / (g - 1)) := by
    intro p ρ; simp only [cJ_sie]; ring
  have hfun : (fun ξ => (closureJWL c g).sie (P ξ) (R ξ))
      = fun ξ => (closureJWL c g).sie 0 (R ξ) + P ξ * (1 / R ξ / (g - 1)) := by
    funext η; exact haff _ _
  rw [hfun]
  have h0 : HasDerivAt (fun ξ => (closureJWL c g).sie 0 (R ξ)) ((closureJWL c g).dsdr 0 (R ξ) * R') ξ :=
    (jwl_dsdr c hc g 0 (R ξ) hg hρ).comp ξ hR
  have h1 := EPV.D.div_const (EPV.D.div (hasDerivAt_const ξ (1 : ℝ)) hR hρ) (g - 1)
  have h := EPV.D.add h0 (EPV.D.mul hP h1)
  refine h.congr_deriv ?_
  have hd : (closureJWL c g).dsdr (P ξ) (R ξ) = (closureJWL c g).dsdr 0 (R ξ) - P ξ / (g - 1) / R ξ ^ 2 := by
    simp only [cJ_dsdr]; ring
  rw [hd, cJ_dsdp]
  generalize (closureJWL c g).dsdr 0 (R ξ) = D0
  field_simp
  ring

/-- the fan hypotheses without the chain rule, for a closure whose chain rule is proved -/
theorem FanAtoms.solves_of_chainRule {F : FanAtoms} {C : Closure} (hch : C.ChainRule) {ws ξ : ℝ}
    (hP : HasDerivAt F.P (F.dP ξ) ξ) (hR : HasDerivAt F.R (F.dR ξ) ξ) (hU : HasDerivAt F.Uv (F.dU ξ) ξ)
    (rho_ne : F.R ξ ≠ 0) (a_ne : C.sound (F.P ξ) (F.R ξ) ≠ 0) (dsdp_ne : C.dsdp (F.P ξ) (F.R ξ) ≠ 0)
    (radicand : 0 ≤ (F.P ξ / F.R ξ ^ 2 - C.dsdr (F.P ξ) (F.R ξ)) / C.dsdp (F.P ξ) (F.R ξ))
    (ode_r : F.dR ξ = C.drdp (F.P ξ) (F.R ξ) ws * F.dP ξ)
    (ode_u : F.dU ξ = C.dudp (F.P ξ) (F.R ξ) ws * F.dP ξ)
    (centred : ξ = F.Uv ξ + ws * C.sound (F.P ξ) (F.R ξ)) : F.Solves C ws ξ :=
  ⟨hP, hR, hU, hch F.P F.R (F.dP ξ) (F.dR ξ) ξ hP hR rho_ne, rho_ne, a_ne, dsdp_ne, radicand, ode_r, ode_u,
    centred⟩

/-- a left fan between the left state and the star state `(px, rx, ux)`: what is assumed -/
structure LeftFan (F : FanAtoms) (C : Closure) (pl rl ul px rx ux hd tl : ℝ) : Prop where
  solves : ∀ ξ ∈ Icc hd tl, F.Solves C (-1) ξ
  order : hd ≤ tl
  head : F.P hd = pl ∧ F.R hd = rl ∧ F.Uv hd = ul
  tail : F.P tl = px ∧ F.R tl = rx ∧ F.Uv tl = ux

/-- a right fan between the star state `(px, rx, ux)` and the right state -/
structure RightFan (F : FanAtoms) (C : Closure) (pr rr ur px rx ux tl hd : ℝ) : Prop where
  solves : ∀ ξ ∈ Icc tl hd, F.Solves C 1 ξ
  order : tl ≤ hd
  tail : F.P tl = px ∧ F.R tl = rx ∧ F.Uv tl = ux
  head : F.P hd = pr ∧ F.R hd = rr ∧ F.Uv hd = ur

theorem LeftFan.head_eq {F C pl rl ul px rx ux hd tl} (h : LeftFan F C pl rl ul px rx ux hd tl) :
    hd = ul - C.sound pl rl := by
  have := (h.solves hd ⟨le_rfl, h.order⟩).centred
  rw [h.head.1, h.head.2.1, h.head.2.2] at this
  linarith
theorem LeftFan.tail_eq {F C pl rl ul px rx ux hd tl} (h : LeftFan F C pl rl ul px rx ux hd tl) :
    tl = ux - C.sound px rx := by
  have := (h.solves tl ⟨h.order, le_rfl⟩).centred
  rw [h.tail.1, h.tail.2.1, h.tail.2.2] at this
  linarith
theorem RightFan.head_eq {F C pr rr ur px rx ux tl hd} (h : RightFan F C pr rr ur px rx ux tl hd) :
    hd = ur + C.sound pr rr := by
  have := (h.solves hd ⟨h.order, le_rfl⟩).centred
  rw [h.head.1, h.head.2.1, h.head.2.2] at this
  linarith
theorem RightFan.tail_eq {F C pr rr ur px rx ux tl hd} (h : RightFan F C pr rr ur px rx ux tl hd) :
    tl = ux + C.sound px rx := by
  have := (h.solves tl ⟨le_rfl, h.order⟩).centred
  rw [h.tail.1, h.tail.2.1, h.tail.2.2] at this
  linarith

/-! ### The four halves -/

/-- undisturbed and star states -/
def genState (C : Closure) (p r u : ℝ) : State := ⟨r, u, p, C.sie p r⟩

theorem gen_left_shock_half {C : Closure} (hC : C.Lawful) {pl rl ul px rx a : ℝ}
    (h : HugoniotRoot C pl rl px rx) (ha : a ≤ genShockSpeed (-1) pl rl ul px rx) :
    SValid a (fun _ => genState C pl rl ul)
      [⟨genShockSpeed (-1) pl rl ul px rx, fun _ => genStar C (-1) pl rl ul px rx⟩]
      (genStar C (-1) pl rl ul px rx).u := by
  refine left_shock_half ha (gen_shock_rh hC (Or.inr rfl) h) ?_
  have := Real.sqrt_nonneg (rl / rx * (px - pl) / (rx - rl))
  simp only [genShockSpeed, genStar]
  linarith

theorem gen_right_shock_half {C : Closure} (hC : C.Lawful) {pr rr ur px rx b : ℝ}
    (h : HugoniotRoot C pr rr px rx) (hb : genShockSpeed 1 pr rr ur px rx ≤ b) :
    SValid (genStar C 1 pr rr ur px rx).u (fun _ => genStar C 1 pr rr ur px rx)
      [⟨genShockSpeed 1 pr rr ur px rx, fun _ => genState C pr rr ur⟩] b := by
  refine right_shock_half ?_ (rankineHugoniot_symm (gen_shock_rh hC (Or.inl rfl) h)) hb
  have := Real.sqrt_nonneg (rr / rx * (px - pr) / (rx - rr))
  simp only [genShockSpeed, genStar]
  linarith

theorem gen_left_fan_half {F : FanAtoms} {C : Closure} (hC : C.Lawful) {pl rl ul px rx ux hd tl a : ℝ}
    (h : LeftFan F C pl rl ul px rx ux hd tl) (ha : a ≤ hd) :
    SValid a (fun _ => genState C pl rl ul) [⟨hd, F.state C⟩, ⟨tl, fun _ => genState C px rx ux⟩] ux := by
  refine left_fan_half ha h.order (FanAtoms.sgood hC (Or.inr rfl) h.order h.solves) ?_ ?_ ?_
  · simp only [FanAtoms.state, genState, h.head.1, h.head.2.1, h.head.2.2]
  · simp only [FanAtoms.state, genState, h.tail.1, h.tail.2.1, h.tail.2.2]
  · rw [h.tail_eq]; linarith [hC.sound_nonneg px rx]

theorem gen_right_fan_half {F : FanAtoms} {C : Closure} (hC : C.Lawful) {pr rr ur px rx ux tl hd b : ℝ}
    (h : RightFan F C pr rr ur px rx ux tl hd) (hb : hd ≤ b) :
    SValid ux (fun _ => genState C px rx ux) [⟨tl, F.state C⟩, ⟨hd, fun _ => genState C pr rr ur⟩] b := by
  refine right_fan_half ?_ h.order (FanAtoms.sgood hC (Or.inl rfl) h.order h.solves) ?_ ?_ hb
  · rw [h.tail_eq]; linarith [hC.sound_nonneg px rx]
  · simp only [FanAtoms.state, genState, h.tail.1, h.tail.2.1, h.tail.2.2]
  · simp only [FanAtoms.state, genState, h.head.1, h.head.2.1, h.head.2.2]

/-! ### (P) The four patterns of the general-EOS solver

`CL`, `CR` are the closures of the two sides (`gl`, `gr`; ideal gas or JWL).  The star pressure `px`,
the star densities `rx1`, `rx2` and the star velocity `ux` are atoms; that the two P–U curves meet
(`ux1 = ux2`, which the driver obtains by bisection on interpolated tables) is the hypothesis `hux`.
The assembled solution is the piecewise state `spw …` — the regions in the order of the driver's
`Vregs`; the driver's own interpolation of these regions onto its grid is NOT modelled. -/

/-- **C04 (P), general EOS, shock–contact–shock** -/
theorem gen_scs_conservationFormula_partial {CL CR : Closure} (hCL : CL.Lawful) (hCR : CR.Lawful)
    {pl rl ul pr rr ur px rx1 rx2 xd0 a b t : ℝ}
    (hL : HugoniotRoot CL pl rl px rx1) (hR : HugoniotRoot CR pr rr px rx2)
    (hux : (genStar CL (-1) pl rl ul px rx1).u = (genStar CR 1 pr rr ur px rx2).u)
    (ht : 0 < t) (ha : a < xd0 + t * genShockSpeed (-1) pl rl ul px rx1)
    (hb : xd0 + t * genShockSpeed 1 pr rr ur px rx2 < b) :
    ConservationFormula (fun x s => spw (fun _ => genState CL pl rl ul)
        ([⟨genShockSpeed (-1) pl rl ul px rx1, fun _ => genStar CL (-1) pl rl ul px rx1⟩]
          ++ ⟨(genStar CL (-1) pl rl ul px rx1).u, fun _ => genStar CR 1 pr rr ur px rx2⟩
            :: [⟨genShockSpeed 1 pr rr ur px rx2, fun _ => genState CR pr rr ur⟩]) ((x - xd0) / s))
      xd0 (genState CL pl rl ul) (genState CR pr rr ur) a b t := by
  refine conservationFormula_of_halves ht (gen_left_shock_half hCL hL (xi_le_of_lt ht ha)) rfl
    ⟨rfl, hux, rfl⟩ ?_ rfl
  rw [hux]
  exact gen_right_shock_half hCR hR (le_xi_of_lt ht hb)

/-- **C04 (P), general EOS, shock–contact–rarefaction** -/
theorem gen_scr_conservationFormula_partial {CL CR : Closure} (hCL : CL.Lawful) (hCR : CR.Lawful)
    {F : FanAtoms} {pl rl ul pr rr ur px rx1 rx2 tl hd xd0 a b t : ℝ}
    (hL : HugoniotRoot CL pl rl px rx1)
    (hR : RightFan F CR pr rr ur px rx2 (genStar CL (-1) pl rl ul px rx1).u tl hd)
    (ht : 0 < t) (ha : a < xd0 + t * genShockSpeed (-1) pl rl ul px rx1) (hb : xd0 + t * hd < b) :
    ConservationFormula (fun x s => spw (fun _ => genState CL pl rl ul)
        ([⟨genShockSpeed (-1) pl rl ul px rx1, fun _ => genStar CL (-1) pl rl ul px rx1⟩]
          ++ ⟨(genStar CL (-1) pl rl ul px rx1).u,
              fun _ => genState CR px rx2 (genStar CL (-1) pl rl ul px rx1).u⟩
            :: [⟨tl, F.state CR⟩, ⟨hd, fun _ => genState CR pr rr ur⟩]) ((x - xd0) / s))
      xd0 (genState CL pl rl ul) (genState CR pr rr ur) a b t :=
  conservationFormula_of_halves ht (gen_left_shock_half hCL hL (xi_le_of_lt ht ha)) rfl
    ⟨rfl, rfl, rfl⟩ (gen_right_fan_half hCR hR (le_xi_of_lt ht hb)) rfl

/-- **C04 (P), general EOS, rarefaction–contact–shock** (the pattern of the JWL problems of Shyue and Lee) -/
theorem gen_rcs_conservationFormula_partial {CL CR : Closure} (hCL : CL.Lawful) (hCR : CR.Lawful)
    {F : FanAtoms} {pl rl ul pr rr ur px rx1 rx2 hd tl xd0 a b t : ℝ}
    (hL : LeftFan F CL pl rl ul px rx1 (genStar CR 1 pr rr ur px rx2).u hd tl)
    (hR : HugoniotRoot CR pr rr px rx2)
    (ht : 0 < t) (ha : a < xd0 + t * hd) (hb : xd0 + t * genShockSpeed 1 pr rr ur px rx2 < b) :
    ConservationFormula (fun x s => spw (fun _ => genState CL pl rl ul)
        ([⟨hd, F.state CL⟩, ⟨tl, fun _ => genState CL px rx1 (genStar CR 1 pr rr ur px rx2).u⟩]
          ++ ⟨(genStar CR 1 pr rr ur px rx2).u, fun _ => genStar CR 1 pr rr ur px rx2⟩
            :: [⟨genShockSpeed 1 pr rr ur px rx2, fun _ => genState CR pr rr ur⟩]) ((x - xd0) / s))
      xd0 (genState CL pl rl ul) (genState CR pr rr ur) a b t :=
  conservationFormula_of_halves ht (gen_left_fan_half hCL hL (xi_le_of_lt ht ha)) rfl
    ⟨rfl, rfl, rfl⟩ (gen_right_shock_half hCR hR (le_xi_of_lt ht hb)) rfl

/-- **C04 (P), general EOS, rarefaction–contact–rarefaction** -/
theorem gen_rcr_conservationFormula_partial {CL CR : Closure} (hCL : CL.Lawful) (hCR : CR.Lawful)
    {FL FR : FanAtoms} {pl rl ul pr rr ur px rx1 rx2 ux hdL tlL tlR hdR xd0 a b t : ℝ}
    (hL : LeftFan FL CL pl rl ul px rx1 ux hdL tlL) (hR : RightFan FR CR pr rr ur px rx2 ux tlR hdR)
    (ht : 0 < t) (ha : a < xd0 + t * hdL) (hb : xd0 + t * hdR < b) :
    ConservationFormula (fun x s => spw (fun _ => genState CL pl rl ul)
        ([⟨hdL, FL.state CL⟩, ⟨tlL, fun _ => genState CL px rx1 ux⟩]
          ++ ⟨ux, fun _ => genState CR px rx2 ux⟩
            :: [⟨tlR, FR.state CR⟩, ⟨hdR, fun _ => genState CR pr rr ur⟩]) ((x - xd0) / s))
      xd0 (genState CL pl rl ul) (genState CR pr rr ur) a b t :=
  conservationFormula_of_halves ht (gen_left_fan_half hCL hL (xi_le_of_lt ht ha)) rfl
    ⟨rfl, rfl, rfl⟩ (gen_right_fan_half hCR hR (le_xi_of_lt ht hb)) rfl
/-! ### The ideal-gas fan is an instance -/

/-- the closed-form ideal-gas fan (`rho_p_u_rarefaction` in normal form) as fan atoms -/
def igFanAtoms (s g a p r u : ℝ) : FanAtoms where
  P := fanP s g a p u
  R := fanRho s g a r u
  Uv := fanV s g a u
  dP ξ := p * (-(s * (g - 1) / a / (g + 1)) * (2 * g / (g - 1)) *
    (fanY s g a u ξ ^ (2 * g / (g - 1)) / fanY s g a u ξ))
  dR ξ := r * (-(s * (g - 1) / a / (g + 1)) * (2 / (g - 1)) * (fanY s g a u ξ ^ (2 / (g - 1)) / fanY s g a u ξ))
  dU _ := 2 / (g + 1)

/-- **The closed-form ideal-gas fan solves the traced ODE system** `drdp_dudp` (wave sign `-s`), is centred
on the traced sound speed, and `sie` obeys the chain rule with the coded `dsdp_cR`, `dsdr_cP`: the
hypotheses of the general-EOS fan are satisfiable, and the general solver's fan agrees with the
ideal-gas solver's. -/
theorem igFan_solves (s g a p r u ξ : ℝ) (hs : s = 1 ∨ s = -1) (hg : 1 < g) (ha : 0 < a) (hp : 0 < p)
    (hr : 0 < r) (ha2 : a ^ 2 = g * p / r) (hy : 0 < fanY s g a u ξ) :
    (igFanAtoms s g a p r u).Solves (closureIG g) (-s) ξ := by
  have hg1 : g - 1 ≠ 0 := by linarith
  have hg0 : g ≠ 0 := by linarith
  have hP := fanP_hasDerivAt s g a p u ξ hy
  have hR := fanRho_hasDerivAt s g a r u ξ hy
  have hU := fanV_hasDerivAt s g a u ξ
  have hA := Real.rpow_pos_of_pos hy (2 / (g - 1))
  have hB := Real.rpow_pos_of_pos hy (2 * g / (g - 1))
  have hR0 : 0 < fanRho s g a r u ξ := by unfold fanRho; positivity
  have hP0 : 0 < fanP s g a p u ξ := by unfold fanP; positivity
  have hsplit := fan_pow_split hy hg
  -- local sound speed: √(g P / R) = a y
  have hc : Real.sqrt (g * fanP s g a p u ξ / fanRho s g a r u ξ) = a * fanY s g a u ξ := by
    rw [Real.sqrt_eq_iff_mul_self_eq_of_pos (mul_pos ha hy)]
    have hp' : p = a ^ 2 * r / g := by rw [ha2]; field_simp
    unfold fanP fanRho
    rw [hsplit, hp']
    field_simp
  have hξ : ξ = u - s * a * ((g + 1) * fanY s g a u ξ - 2) / (g - 1) := by
    unfold fanY
    rcases hs with rfl | rfl <;> field_simp <;> ring
  refine ⟨hP, hR, hU, ?_, hR0.ne', ?_, ?_, ?_, ?_, ?_, ?_⟩
  · -- chain rule for sie
    have he := EPV.D.div (EPV.D.div_const (EPV.D.sub_const hP 0) (g - 1)) hR hR0.ne'
    simp only [cIG_sie, cIG_sound, cIG_dsdp, cIG_dsdr, cIG_drdp, cIG_dudp, igFanAtoms]
    refine he.congr_deriv ?_
    field_simp
    ring
  · simp only [cIG_sie, cIG_sound, cIG_dsdp, cIG_dsdr, cIG_drdp, cIG_dudp, igFanAtoms]
    rw [hc]; positivity
  · simp only [cIG_sie, cIG_sound, cIG_dsdp, cIG_dsdr, cIG_drdp, cIG_dudp, igFanAtoms]
    positivity
  · simp only [cIG_sie, cIG_sound, cIG_dsdp, cIG_dsdr, cIG_drdp, cIG_dudp, igFanAtoms]
    have : (fanP s g a p u ξ / fanRho s g a r u ξ ^ 2 - -fanP s g a p u ξ / (g - 1) / fanRho s g a r u ξ ^ 2)
        / (1 / fanRho s g a r u ξ / (g - 1)) = g * fanP s g a p u ξ / fanRho s g a r u ξ := by
      field_simp; ring
    rw [this]; positivity
  · -- dρ = dp / a²
    simp only [cIG_sie, cIG_sound, cIG_dsdp, cIG_dsdr, cIG_drdp, cIG_dudp, igFanAtoms]
    rw [hc, hsplit]
    have hp' : p = a ^ 2 * r / g := by rw [ha2]; field_simp
    rw [hp']
    field_simp
  · -- du = ws dp / (ρ a)
    simp only [cIG_sie, cIG_sound, cIG_dsdp, cIG_dsdr, cIG_drdp, cIG_dudp, igFanAtoms]
    rw [hc, hsplit]
    have hp' : p = a ^ 2 * r / g := by rw [ha2]; field_simp
    rw [hp']
    unfold fanRho
    rcases hs with rfl | rfl <;> field_simp <;> ring
  · -- centred
    simp only [cIG_sie, cIG_sound, cIG_dsdp, cIG_dsdr, cIG_drdp, cIG_dudp, igFanAtoms]
    rw [hc]
    unfold fanV
    generalize fanY s g a u ξ = Y at *
    subst hξ
    rcases hs with rfl | rfl <;> field_simp <;> ring

/-! ### Non-vacuity: an ideal-gas problem with γ = 3 and a rational star state, pattern RCS

pl = 1, ρl = 3, ul = 0 | pr = 1/12, ρr = 3/4, ur = 5/12;  px = 1/8, ρ*₁ = 3/2, ρ*₂ = 6/7, u* = 1/2;
left fan between ξ = -1 and ξ = 0, contact at 1/2, right shock at 13/12. -/

theorem ex_hugoniot : HugoniotRoot (closureIG 3) (1 / 12) (3 / 4) (1 / 8) (6 / 7) :=
  ⟨by norm_num, by norm_num, by norm_num, by norm_num,
    by simp only [cIG_jump]; norm_num⟩

theorem ex_ux : (genStar (closureIG 3) 1 (1 / 12) (3 / 4) (5 / 12) (1 / 8) (6 / 7)).u = 1 / 2 := by
  have e1 : (6 / 7 : ℝ) / (3 / 4) * (1 / 8 - 1 / 12) / (6 / 7 - 3 / 4) = (2 / 3) ^ 2 := by norm_num
  have e2 : (3 / 4 : ℝ) / (6 / 7) * (1 / 8 - 1 / 12) / (6 / 7 - 3 / 4) = (7 / 12) ^ 2 := by norm_num
  simp only [genStar]
  rw [e1, e2, Real.sqrt_sq (by norm_num), Real.sqrt_sq (by norm_num)]
  norm_num

theorem ex_fanY (ξ : ℝ) : fanY 1 3 1 0 ξ = 1 / 2 - ξ / 2 := by
  unfold fanY; ring

theorem ex_leftFan : LeftFan (igFanAtoms 1 3 1 1 3 0) (closureIG 3) 1 3 0 (1 / 8) (3 / 2) (1 / 2) (-1) 0 where
  solves ξ hξ := by
    have := igFan_solves 1 3 1 1 3 0 ξ (Or.inl rfl) (by norm_num) (by norm_num) (by norm_num) (by norm_num)
      (by norm_num) (by rw [ex_fanY]; linarith [hξ.2])
    simpa using this
  order := by norm_num
  head := by
    simp only [igFanAtoms, fanP, fanRho, fanV, ex_fanY]
    refine ⟨?_, ?_, ?_⟩ <;> norm_num
  tail := by
    have e1 : ((2 : ℝ) * 3 / (3 - 1)) = ((3 : ℕ) : ℝ) := by norm_num
    have e2 : ((2 : ℝ) / (3 - 1)) = 1 := by norm_num
    simp only [igFanAtoms, fanP, fanRho, fanV, ex_fanY, e1, e2, Real.rpow_natCast, Real.rpow_one]
    refine ⟨?_, ?_, ?_⟩ <;> norm_num

/-- the hypotheses of `gen_rcs_conservationFormula_partial` are satisfiable, and its conclusion holds
for this problem on [-2, 2] at t = 1 -/
example : ∃ (F : FanAtoms) (hd tl : ℝ),
    LeftFan F (closureIG 3) 1 3 0 (1 / 8) (3 / 2) (genStar (closureIG 3) 1 (1 / 12) (3 / 4) (5 / 12) (1 / 8) (6 / 7)).u hd tl
    ∧ HugoniotRoot (closureIG 3) (1 / 12) (3 / 4) (1 / 8) (6 / 7)
    ∧ (-2 : ℝ) < 0 + 1 * hd ∧ 0 + 1 * genShockSpeed 1 (1 / 12) (3 / 4) (5 / 12) (1 / 8) (6 / 7) < 2 := by
  refine ⟨igFanAtoms 1 3 1 1 3 0, -1, 0, by rw [ex_ux]; exact ex_leftFan, ex_hugoniot, by norm_num, ?_⟩
  have e1 : (6 / 7 : ℝ) / (3 / 4) * (1 / 8 - 1 / 12) / (6 / 7 - 3 / 4) = (2 / 3) ^ 2 := by norm_num
  simp only [genShockSpeed]
  rw [e1, Real.sqrt_sq (by norm_num)]
  norm_num
end

end EPV.C04
