/-
C01 — Coggeshall solution 13:  ρ = ρ₀ r^{c₁} t^{c₂},  u = r/t,  T = T₀ r^{-c₁} t^{c₅}  with
c₁ = 2/(α-β-4), c₂ = -c₁-k-1, c₅ = [α(k+1)-k-2]/(β+3) + 2(α-1)/[(β+3)(α-β-4)] and the coded
amplitude T₀ = B^{1/(β+3)},
    B = 3Γ/(4 c a λ₀ (γ-1)) · (α-1+(β+3)(γ-1))/(β+3) · ρ₀^{1-α} (β+4-α)/2 .

* mass and momentum balance: proved for every real k = geometry - 1 and all parameters
  (r > 0, t > 0).
* energy balance (with the radiative heat flux, c = 2.997e10 and a = 137.2 as hard-wired in
  `cog13.py`, λ₀ α β the solver's own parameters): **violated**.  `cog13_energy_residual`
  computes the residual of the coded solution in closed form, wherever the generated
  expressions are well defined (`Cog13.L1.WellDefined`: r, t, ρ₀, B > 0, no zero denominators):

        energy residual = Γ T(r,t) / ( t (β+3) (γ-1) )  ≠ 0 .

  The exponents are right (all powers of r and t cancel); the amplitude is wrong: the equation
  requires the factor (α-1)/(β+3) + 1/((k+1)(β+3)) + (γ-1) where the code (and the
  documentation it copies) has (α-1)/(β+3) + (γ-1) — the term 1/((k+1)(β+3)) is missing.
  `cog13_energy_ne_zero` is the negation of the property for *every* admissible input,
  `Finding_cog13_energy` instantiates it at the class defaults (a finding, not repaired).
* domain: `WellDefined` fails on part of the documented parameter range (`Finding_cog13_domain`).
-/
import EPV.Gen.Cog13D
import EPV.Spec.Euler1D
import EPV.Lemmas.Euler1Db
import EPV.Lemmas.HydroRobust
import EPV.Tactics

set_option linter.all false

open EPV EPV.Gen EPV.Spec EPV.Lemmas

open Filter Topology

namespace EPV.C01

/-- the traced model has exactly the leaves the theorems below cover (leaf 0: NaN for t ≤ 0) -/
theorem cog13_leaves : Cog13.okLeaves = [1] := rfl

theorem cog13_mass (p : Cog13.P) (r t : ℝ) (hr : 0 < r) (ht : 0 < t) :
    massRes (Cog13.L1.density p) (Cog13.L1.velocity p) (p.geometry - 1) r t = 0 := by
  unfold massRes dr dt
  epv_hydro_rw_derivs [Cog13.L1.density_hasDerivAt_t p r t, Cog13.L1.density_hasDerivAt_r p r t,
    Cog13.L1.velocity_hasDerivAt_r p r t]
  simp only [epv_deriv, epv_leaf]
  have hr' := hr.ne'
  have ht' := ht.ne'
  field_simp
  ring

theorem cog13_momentum (p : Cog13.P) (r t : ℝ) (hr : 0 < r) (ht : 0 < t) (hρ : p.rho0 ≠ 0)
    (hab : p.alpha - p.beta - 4 ≠ 0) :
    momResT (Cog13.L1.density p) (Cog13.L1.velocity p) (Cog13.L1.temperature p) p.Gamma r t = 0 := by
  unfold momResT dr dt
  epv_hydro_rw_derivs [Cog13.L1.velocity_hasDerivAt_t p r t, Cog13.L1.velocity_hasDerivAt_r p r t,
    Cog13.L1.density_hasDerivAt_r p r t, Cog13.L1.temperature_hasDerivAt_r p r t]
  simp only [epv_deriv, epv_leaf]
  have h1 := Real.rpow_pos_of_pos hr ((2 : ℝ) / ((p.alpha - p.beta) - 4))
  have h2 := Real.rpow_pos_of_pos ht (((-((2 : ℝ) / ((p.alpha - p.beta) - 4))) - (p.geometry - 1)) - 1)
  have hr' := hr.ne'
  have ht' := ht.ne'
  field_simp
  ring

/-- the energy residual of the coded solution in closed form -/
theorem cog13_energy_residual (p : Cog13.P) (r t : ℝ) (hwd : Cog13.L1.WellDefined p r t) :
    energyResT (Cog13.L1.density p) (Cog13.L1.velocity p) (Cog13.L1.temperature p)
      p.Gamma p.gamma (p.geometry - 1) 29970000000 (686 / 5) p.lambda0 p.alpha p.beta r t
      = p.Gamma * Cog13.L1.temperature p r t / (t * (p.beta + 3) * (p.gamma - 1)) := by
  obtain ⟨hab, hr, ht, -, hden, hb3, hρ0, hB, -, hγ⟩ := hwd
  obtain ⟨B, hBeq, hBpos⟩ := exists_eq_of_pos hB
  have hρ : ∀ x, 0 < x → Cog13.L1.density p x t
      = (p.rho0 * t ^ (((-((2 : ℝ) / ((p.alpha - p.beta) - 4))) - (p.geometry - 1)) - 1))
          * x ^ ((2 : ℝ) / ((p.alpha - p.beta) - 4)) := by
    intro x _; simp only [epv_leaf]; ring
  have hT : ∀ x, 0 < x → Cog13.L1.temperature p x t
      = (B ^ ((1 : ℝ) / (p.beta + 3)) * t ^ (((((p.alpha * ((p.geometry - 1) + 1)) - (p.geometry - 1)) - 2) / (p.beta + 3)) + ((((2 : ℝ) * (p.alpha - 1)) / (p.beta + 3)) / ((p.alpha - p.beta) - 4))))
          * x ^ (-((2 : ℝ) / ((p.alpha - p.beta) - 4))) := by
    intro x _; simp only [epv_leaf, ← hBeq]; ring
  rw [energyResT_powerLaw _ _ _ _ _ _ _ _ _ _ _ _ _ _ _ r t hr (by positivity) (by positivity) hρ hT]
  have key : Cog13.L1.density p r t ^ p.alpha * Cog13.L1.temperature p r t ^ p.beta
        * Cog13.L1.temperature p r t ^ (3 : ℕ) * t
      = B / p.rho0 ^ ((1 : ℝ) - p.alpha) * Cog13.L1.density p r t * r ^ (2 : ℕ) := by
    simp only [epv_leaf, ← hBeq]
    epv_rpow_eq
  -- logarithmic derivatives of the fields (from the generated certificates)
  have hTt : dt (Cog13.L1.temperature p) r t
      = (((((p.alpha * ((p.geometry - 1) + 1)) - (p.geometry - 1)) - 2) / (p.beta + 3)) + ((((2 : ℝ) * (p.alpha - 1)) / (p.beta + 3)) / ((p.alpha - p.beta) - 4)))
          * Cog13.L1.temperature p r t / t := by
    unfold dt
    epv_hydro_rw_derivs [Cog13.L1.temperature_hasDerivAt_t p r t]
    simp only [epv_deriv, epv_leaf]
    ring
  have hTr : dr (Cog13.L1.temperature p) r t
      = (-((2 : ℝ) / ((p.alpha - p.beta) - 4))) * Cog13.L1.temperature p r t / r := by
    unfold dr
    epv_hydro_rw_derivs [Cog13.L1.temperature_hasDerivAt_r p r t]
    simp only [epv_deriv, epv_leaf]
    ring
  have hur : dr (Cog13.L1.velocity p) r t = 1 / t := by
    unfold dr
    epv_hydro_rw_derivs [Cog13.L1.velocity_hasDerivAt_r p r t]
    simp only [epv_deriv]
    ring
  have hu : Cog13.L1.velocity p r t = r / t := by simp only [epv_leaf]; ring
  have hρpos : 0 < Cog13.L1.density p r t := by simp only [epv_leaf]; positivity
  have hTpos : 0 < Cog13.L1.temperature p r t := by simp only [epv_leaf, ← hBeq]; positivity
  have hZ := Real.rpow_pos_of_pos hρ0 ((1 : ℝ) - p.alpha)
  unfold energyHydroT
  rw [hTt, hTr, hur, hu]
  generalize Cog13.L1.density p r t = ρ at key hρpos ⊢
  generalize Cog13.L1.temperature p r t = T at key hTpos ⊢
  have h4 : ρ ^ p.alpha * T ^ p.beta * T ^ (4 : ℕ)
      = B / p.rho0 ^ ((1 : ℝ) - p.alpha) * ρ * r ^ (2 : ℕ) / t * T := by
    have e : ρ ^ p.alpha * T ^ p.beta * T ^ (4 : ℕ)
        = (ρ ^ p.alpha * T ^ p.beta * T ^ (3 : ℕ) * t) * (T / t) := by
      have ht' := ht.ne'
      rw [pow_succ T 3]
      field_simp
    rw [e, key]
    ring
  rw [h4, hBeq]
  generalize p.rho0 ^ ((1 : ℝ) - p.alpha) = Z at hZ ⊢
  have hr' := hr.ne'
  have ht' := ht.ne'
  have hρ' := hρpos.ne'
  have hl : p.lambda0 ≠ 0 := by
    intro h; apply hden; rw [h]; ring
  field_simp
  ring


/-- the energy equation is violated at every point where the coded solution is well defined -/
theorem cog13_energy_ne_zero (p : Cog13.P) (r t : ℝ) (hwd : Cog13.L1.WellDefined p r t)
    (hΓ : p.Gamma ≠ 0) :
    energyResT (Cog13.L1.density p) (Cog13.L1.velocity p) (Cog13.L1.temperature p)
      p.Gamma p.gamma (p.geometry - 1) 29970000000 (686 / 5) p.lambda0 p.alpha p.beta r t ≠ 0 := by
  rw [cog13_energy_residual p r t hwd]
  obtain ⟨hab, hr, ht, -, hden, hb3, hρ0, hB, -, hγ⟩ := hwd
  have hTpos : 0 < Cog13.L1.temperature p r t := by
    obtain ⟨B, hBeq, hBpos⟩ := exists_eq_of_pos hB
    simp only [epv_leaf, ← hBeq]; positivity
  have hT' := hTpos.ne'
  have ht' := ht.ne'
  exact div_ne_zero (mul_ne_zero hΓ hT') (mul_ne_zero (mul_ne_zero ht' hb3) hγ)

/-- the class defaults (geometry 3, γ = 1.4, ρ₀ = 1.8, α = 2, β = 1, λ₀ = 0.1, Γ = 40) at
r = 1, t = 1 are a well-defined input -/
theorem cog13_default_wellDefined :
    Cog13.L1.WellDefined ⟨40, 686 / 5, 2, 2, 1, 1, 29970000000, 7 / 5, 3, 1 / 10, 1 / 10, 9 / 5⟩ 1 1 := by
  unfold Cog13.L1.WellDefined
  refine ⟨by norm_num, by norm_num, by norm_num, by norm_num, by norm_num, by norm_num, by norm_num, ?_, ?_,
    by norm_num⟩
  · have := Real.rpow_pos_of_pos (show (0 : ℝ) < 9 / 5 by norm_num) ((1 : ℝ) - 2)
    norm_num at this ⊢
  · simp only [Real.one_rpow]
    norm_num

/-- FINDING (false on the current tree): Cog13 at its class defaults, r = 1, t = 1, does not
satisfy the documented energy equation -/
theorem Finding_cog13_energy :
    ∃ p : Cog13.P, ∃ r t : ℝ, Cog13.L1.WellDefined p r t ∧ p.geometry = 3 ∧
      energyResT (Cog13.L1.density p) (Cog13.L1.velocity p) (Cog13.L1.temperature p)
        p.Gamma p.gamma (p.geometry - 1) 29970000000 (686 / 5) p.lambda0 p.alpha p.beta r t ≠ 0 :=
  ⟨_, 1, 1, cog13_default_wellDefined, rfl, cog13_energy_ne_zero _ 1 1 cog13_default_wellDefined (by norm_num)⟩

/-- FINDING (domain, false on the current tree): inside the documented ranges (-1 ≤ α ≤ 2, 1 ≤ β ≤ 3)
the bracket B of the temperature amplitude can be negative — class defaults with α = -1:
α - 1 + (β+3)(γ-1) = -0.4 — so the generated expressions are not well defined; the real call
returns a *complex* temperature, pressure and energy there. -/
theorem Finding_cog13_domain :
    ∃ p : Cog13.P, ∃ r t : ℝ, p.geometry = 3 ∧ 1 < p.gamma ∧ 0 < p.rho0 ∧ 0 < p.lambda0 ∧ 0 < p.Gamma ∧
      -1 ≤ p.alpha ∧ p.alpha ≤ 2 ∧ 1 ≤ p.beta ∧ p.beta ≤ 3 ∧ 0 < r ∧ 0 < t ∧
      ¬ Cog13.L1.WellDefined p r t := by
  refine ⟨⟨40, 686 / 5, -1, -1, 1, 1, 29970000000, 7 / 5, 3, 1 / 10, 1 / 10, 9 / 5⟩, 1, 1, by norm_num,
    by norm_num, by norm_num, by norm_num, by norm_num, by norm_num, by norm_num, by norm_num, by norm_num,
    by norm_num, by norm_num, ?_⟩
  rintro ⟨-, -, -, -, -, -, -, hB, -⟩
  norm_num at hB

/-! ### The returned (tree-level) fields

The only path condition is `t ≤ 0` (NaN fields): for t > 0 the returned fields are those of leaf 1
near the point. -/

theorem cog13_tree_agree (p : Cog13.P) (r t : ℝ) (ht : 0 < t) :
    AgreeNear (Cog13.density p) (Cog13.L1.density p) r t
      ∧ AgreeNear (Cog13.velocity p) (Cog13.L1.velocity p) r t
      ∧ AgreeNear (Cog13.temperature p) (Cog13.L1.temperature p) r t := by
  have hx : ∀ᶠ x in 𝓝 r, 0 < t := Eventually.of_forall fun _ => ht
  have hs : ∀ᶠ s in 𝓝 t, 0 < s := eventually_gt_nhds ht
  have e : ∀ x s : ℝ, 0 < s → ¬ Cog13.c0 p x s := by
    intro x s hc; simp only [epv_cond, not_le]; exact hc
  exact ⟨agreeNear_of_cond (c := fun _ s => 0 < s) (fun x s hc => by simp only [epv_tree, if_neg (e x s hc)]) hx hs,
    agreeNear_of_cond (c := fun _ s => 0 < s) (fun x s hc => by simp only [epv_tree, if_neg (e x s hc)]) hx hs,
    agreeNear_of_cond (c := fun _ s => 0 < s) (fun x s hc => by simp only [epv_tree, if_neg (e x s hc)]) hx hs⟩

theorem cog13_mass_tree (p : Cog13.P) (r t : ℝ) (hr : 0 < r) (ht : 0 < t) :
    massRes (Cog13.density p) (Cog13.velocity p) (p.geometry - 1) r t = 0 := by
  obtain ⟨h1, h2, h3⟩ := cog13_tree_agree p r t ht
  rw [massRes_congr_near h1 h2]; exact cog13_mass p r t hr ht

theorem cog13_momentum_tree (p : Cog13.P) (r t : ℝ) (hr : 0 < r) (ht : 0 < t) (hρ : p.rho0 ≠ 0)
    (hab : p.alpha - p.beta - 4 ≠ 0) :
    momResT (Cog13.density p) (Cog13.velocity p) (Cog13.temperature p) p.Gamma r t = 0 := by
  obtain ⟨h1, h2, h3⟩ := cog13_tree_agree p r t ht
  rw [momResT_congr_near h1 h2 h3]; exact cog13_momentum p r t hr ht hρ hab

/-- the energy equation is violated by the returned fields wherever they are well defined -/
theorem cog13_energy_tree_ne_zero (p : Cog13.P) (r t : ℝ) (hwd : Cog13.L1.WellDefined p r t)
    (hΓ : p.Gamma ≠ 0) :
    energyResT (Cog13.density p) (Cog13.velocity p) (Cog13.temperature p)
      p.Gamma p.gamma (p.geometry - 1) 29970000000 (686 / 5) p.lambda0 p.alpha p.beta r t ≠ 0 := by
  obtain ⟨h1, h2, h3⟩ := cog13_tree_agree p r t hwd.2.2.1
  rw [energyResT_congr_near h1 h2 h3]; exact cog13_energy_ne_zero p r t hwd hΓ

/-- FINDING (false on the current tree), for the returned fields themselves: class defaults, r = t = 1 -/
theorem Finding_cog13_energy_tree :
    ∃ p : Cog13.P, ∃ r t : ℝ, Cog13.outcome p r t = .ok ∧ Cog13.L1.WellDefined p r t ∧ p.geometry = 3 ∧
      energyResT (Cog13.density p) (Cog13.velocity p) (Cog13.temperature p)
        p.Gamma p.gamma (p.geometry - 1) 29970000000 (686 / 5) p.lambda0 p.alpha p.beta r t ≠ 0 :=
  ⟨_, 1, 1, by simp only [epv_tree, epv_cond]; norm_num, cog13_default_wellDefined, rfl,
    cog13_energy_tree_ne_zero _ 1 1 cog13_default_wellDefined (by norm_num)⟩

/-- non-vacuity of the hypotheses of `cog13_mass`, `cog13_momentum` (class defaults) -/
example : ∃ p : Cog13.P, ∃ r t : ℝ, 0 < r ∧ 0 < t ∧ p.rho0 ≠ 0 ∧ p.alpha - p.beta - 4 ≠ 0 :=
  ⟨⟨40, 686 / 5, 2, 2, 1, 1, 29970000000, 7 / 5, 3, 1 / 10, 1 / 10, 9 / 5⟩, 1, 1, by norm_num, by norm_num,
    by norm_num, by norm_num⟩

end EPV.C01
