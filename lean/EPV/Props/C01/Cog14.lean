/-
C01 — Coggeshall solution 14 (steady):  ρ = ρ₀ r^{-k-b},  u = (Γ T₀ (k-b)/b)^{1/2} r^b,  T = T₀ r^{2b},
b = (k-1-αk)/(2+α-2(β+4)),
T₀ = [ b/(Γ(k-b)) · (4 c a λ₀ (γ-1)/(3Γ))² · 16 ρ₀^{2α-2} b⁴ / (2b+(γ-1)(k+b))² ]^{-1/(5+2β)}.

* mass balance: every real k = geometry - 1, all parameters, r > 0.
* momentum balance: on `Cog14.L0.WellDefined` (the generated side conditions: r > 0, ρ₀ > 0, the
  bracket of T₀ positive, the argument of the square root non-negative, no zero denominators).
* energy balance *with* the radiative heat flux (c = 2.997e10, a = 137.2 as hard-wired in
  `cog14.py`; λ₀, α, β the solver's parameters): on `WellDefined` plus the sign conditions
  Γ > 0, λ₀ > 0, γ > 1, 0 < b < k  (a real velocity needs (k-b)/b > 0; the signs of Γ, λ₀, γ-1 fix
  the sign of the flux, which the squared bracket of T₀ does not see).

FINDING (domain): these hypotheses fail on a large part of the documented parameter range — b > 0
needs α > 1 - 1/k, so every α in the constructor's own range [-2,-1], and the planar case k = 0
for every α, make the bracket of T₀ negative; the real code then raises
`TypeError: must be real number, not complex` (`Finding_cog14_domain`: class defaults with geometry = 1).
-/
import EPV.Gen.Cog14D
import EPV.Spec.Euler1D
import EPV.Lemmas.Euler1Db
import EPV.Lemmas.HydroRobust
import EPV.Tactics

set_option linter.all false

open EPV EPV.Gen EPV.Spec EPV.Lemmas

namespace EPV.C01

/-- the traced model has exactly the leaf the theorems below cover -/
theorem cog14_leaves : Cog14.okLeaves = [0] := rfl

theorem cog14_mass (p : Cog14.P) (r t : ℝ) (hr : 0 < r) :
    massRes (Cog14.L0.density p) (Cog14.L0.velocity p) (p.geometry - 1) r t = 0 := by
  have hρr : dr (Cog14.L0.density p) r t
      = ((-(p.geometry - 1)) - ((((p.geometry - 1) - 1) - (p.alpha * (p.geometry - 1))) / (((2 : ℝ) + p.alpha) - ((2 : ℝ) * (p.beta + 4)))))
          * Cog14.L0.density p r t / r := by
    unfold dr
    epv_hydro_rw_derivs [Cog14.L0.density_hasDerivAt_r p r t]
    simp only [epv_deriv, epv_leaf]
    ring
  have hur : dr (Cog14.L0.velocity p) r t
      = ((((p.geometry - 1) - 1) - (p.alpha * (p.geometry - 1))) / (((2 : ℝ) + p.alpha) - ((2 : ℝ) * (p.beta + 4))))
          * Cog14.L0.velocity p r t / r := by
    unfold dr
    epv_hydro_rw_derivs [Cog14.L0.velocity_hasDerivAt_r p r t]
    simp only [epv_deriv, epv_leaf]
    ring
  have hρt : dt (Cog14.L0.density p) r t = 0 := by
    unfold dt
    epv_hydro_rw_derivs [Cog14.L0.density_hasDerivAt_t p r t]
    simp only [epv_deriv]
  unfold massRes
  rw [hρr, hur, hρt]
  have hr' := hr.ne'
  field_simp
  ring

theorem cog14_momentum (p : Cog14.P) (r t : ℝ) (hwd : Cog14.L0.WellDefined p r t) :
    momResT (Cog14.L0.density p) (Cog14.L0.velocity p) (Cog14.L0.temperature p) p.Gamma r t = 0 := by
  obtain ⟨hden, hr, hΓ, hkb, hρ0, hx2, h52, hB, hb, hsq, hρne, hγ⟩ := hwd
  obtain ⟨b, hbeq, hbne⟩ := exists_eq_of_ne hb
  have hρr : dr (Cog14.L0.density p) r t = ((-(p.geometry - 1)) - b) * Cog14.L0.density p r t / r := by
    unfold dr
    epv_hydro_rw_derivs [Cog14.L0.density_hasDerivAt_r p r t]
    simp only [epv_deriv, epv_leaf, ← hbeq]
    ring
  have hur : dr (Cog14.L0.velocity p) r t = b * Cog14.L0.velocity p r t / r := by
    unfold dr
    epv_hydro_rw_derivs [Cog14.L0.velocity_hasDerivAt_r p r t]
    simp only [epv_deriv, epv_leaf, ← hbeq]
    ring
  have hTr : dr (Cog14.L0.temperature p) r t = (2 * b) * Cog14.L0.temperature p r t / r := by
    unfold dr
    epv_hydro_rw_derivs [Cog14.L0.temperature_hasDerivAt_r p r t]
    simp only [epv_deriv, epv_leaf, ← hbeq]
    ring
  have hut : dt (Cog14.L0.velocity p) r t = 0 := by
    unfold dt
    epv_hydro_rw_derivs [Cog14.L0.velocity_hasDerivAt_t p r t]
    simp only [epv_deriv]
  -- u² = Γ T (k - b)/b  (the square of the coded square root)
  have hu2 : Cog14.L0.velocity p r t ^ 2 * b
      = p.Gamma * Cog14.L0.temperature p r t * ((p.geometry - 1) - b) := by
    simp only [← hbeq] at hsq hkb
    simp only [epv_leaf, ← hbeq]
    rw [mul_pow, mul_pow, Real.sq_sqrt hsq]
    have h2 : (r ^ b) ^ 2 = r ^ ((2 : ℝ) * b) := by
      rw [← Real.rpow_natCast, ← Real.rpow_mul hr.le]; congr 1; push_cast; ring
    rw [h2]
    field_simp
  unfold momResT
  rw [hρr, hur, hTr, hut]
  have hρne' : Cog14.L0.density p r t ≠ 0 := hρne
  generalize Cog14.L0.density p r t = ρ at hρne' ⊢
  generalize Cog14.L0.temperature p r t = T at hu2 ⊢
  generalize Cog14.L0.velocity p r t = u at hu2 ⊢
  have hr' := hr.ne'
  field_simp
  linear_combination hu2

/-- the exponent b of solution 14, as the documentation writes it -/
noncomputable def cog14_b (p : Cog14.P) : ℝ :=
  ((p.geometry - 1) - 1 - p.alpha * (p.geometry - 1)) / (2 + p.alpha - 2 * (p.beta + 4))

theorem cog14_energy (p : Cog14.P) (r t : ℝ) (hwd : Cog14.L0.WellDefined p r t)
    (hΓ0 : 0 < p.Gamma) (hlam : 0 < p.lambda0) (hγ1 : 1 < p.gamma)
    (hb0 : 0 < cog14_b p) (hbk : cog14_b p < p.geometry - 1) :
    energyResT (Cog14.L0.density p) (Cog14.L0.velocity p) (Cog14.L0.temperature p)
      p.Gamma p.gamma (p.geometry - 1) 29970000000 (686 / 5) p.lambda0 p.alpha p.beta r t = 0 := by
  obtain ⟨hden, hr, hΓ, hkb, hρ0, hx2, h52, hB, hb, hsq, hρne, hγ⟩ := hwd
  obtain ⟨b, hbeq, hbne⟩ := exists_eq_of_ne hb
  have hbb : cog14_b p = b := by rw [hbeq]; unfold cog14_b; ring
  rw [hbb] at hb0 hbk
  have hρ : ∀ x, 0 < x → Cog14.L0.density p x t = Cog14.L0.density p 1 t * x ^ ((-(p.geometry - 1)) - b) := by
    intro x _; simp only [epv_leaf, Real.one_rpow, ← hbeq]; ring
  have hT : ∀ x, 0 < x → Cog14.L0.temperature p x t = Cog14.L0.temperature p 1 t * x ^ ((2 : ℝ) * b) := by
    intro x _; simp only [epv_leaf, Real.one_rpow, ← hbeq]; ring
  have hR : 0 < Cog14.L0.density p 1 t := by simp only [epv_leaf]; positivity
  have hΘ : 0 < Cog14.L0.temperature p 1 t := by simp only [epv_leaf]; positivity
  rw [energyResT_powerLaw _ _ _ _ _ _ _ _ _ _ _ _ _ _ _ r t hr hR hΘ hρ hT]
  have hq : ((-(p.geometry - 1)) - b) * p.alpha + 2 * b * (p.beta + 4) - 1 + (p.geometry - 1) = 2 * b := by
    rw [hbeq]
    field_simp
    ring
  rw [hq]
  have hur : dr (Cog14.L0.velocity p) r t = b * Cog14.L0.velocity p r t / r := by
    unfold dr
    epv_hydro_rw_derivs [Cog14.L0.velocity_hasDerivAt_r p r t]
    simp only [epv_deriv, epv_leaf, ← hbeq]
    ring
  have hTr : dr (Cog14.L0.temperature p) r t = (2 * b) * Cog14.L0.temperature p r t / r := by
    unfold dr
    epv_hydro_rw_derivs [Cog14.L0.temperature_hasDerivAt_r p r t]
    simp only [epv_deriv, epv_leaf, ← hbeq]
    ring
  have hTt : dt (Cog14.L0.temperature p) r t = 0 := by
    unfold dt
    epv_hydro_rw_derivs [Cog14.L0.temperature_hasDerivAt_t p r t]
    simp only [epv_deriv]
  unfold energyHydroT
  rw [hur, hTr, hTt]
  -- both the hydrodynamic and the conduction term are monomials: compare logarithms
  have hα : p.alpha = ((p.geometry - 1) - 1 - 2 * b + 2 * b * (p.beta + 4)) / (b + (p.geometry - 1)) := by
    have hbk' : b + (p.geometry - 1) ≠ 0 := by linarith
    rw [eq_div_iff hbk']
    linarith
  have main : p.Gamma * Cog14.L0.temperature p r t * Cog14.L0.velocity p r t
        * (2 * b + (p.gamma - 1) * ((p.geometry - 1) + b)) * r * Cog14.L0.density p r t
      = (p.gamma - 1) * (119880000000 * p.lambda0 * (686 / 5) / 3) * (4 * b ^ 2)
          * (Cog14.L0.density p r t ^ p.alpha * Cog14.L0.temperature p r t ^ p.beta
              * Cog14.L0.temperature p r t ^ (4 : ℕ)) := by
    simp only [epv_leaf, ← hbeq]
    simp only [← hbeq] at hB hsq hkb hx2
    generalize p.alpha = α at hα ⊢
    subst hα
    have hγ' : 0 < p.gamma - 1 := by linarith
    have hkb' : 0 < p.geometry - 1 - b := by linarith
    have hx2' : 0 < 2 * b + (p.gamma - 1) * (p.geometry - 1 + b) := by nlinarith
    generalize hg : p.gamma - 1 = g at *
    generalize hd : p.geometry - 1 - b = d at *
    generalize hx : 2 * b + g * (p.geometry - 1 + b) = x2 at *
    rw [Real.sqrt_eq_rpow, show (16 : ℝ) = 4 ^ 2 by norm_num]
    have hbk' : b + (p.geometry - 1) ≠ 0 := by linarith
    epv_rpow_eq
  have hρpos : 0 < Cog14.L0.density p r t := by rw [hρ r hr]; positivity
  generalize Cog14.L0.density p r t = ρ at main hρpos ⊢
  generalize Cog14.L0.temperature p r t = T at main ⊢
  generalize Cog14.L0.velocity p r t = u at main ⊢
  have hr' := hr.ne'
  have hρ' := hρpos.ne'
  have hγ' : 0 < p.gamma - 1 := by linarith
  have h4 : ρ ^ p.alpha * T ^ p.beta * T ^ (4 : ℕ)
      = p.Gamma * T * u * (2 * b + (p.gamma - 1) * ((p.geometry - 1) + b)) * r * ρ
          / ((p.gamma - 1) * (119880000000 * p.lambda0 * (686 / 5) / 3) * (4 * b ^ 2)) := by
    rw [eq_div_iff (by positivity)]
    linear_combination (-1 : ℝ) * main
  rw [h4]
  have hl := hlam.ne'
  field_simp
  ring


/-- non-vacuity: the class defaults (geometry 3, γ = 1.4, ρ₀ = 1.8, α = 2, β = 1, λ₀ = 0.1, Γ = 40; b = 1/2) -/
example : ∃ p : Cog14.P, Cog14.L0.WellDefined p 1 1 ∧ 0 < p.Gamma ∧ 0 < p.lambda0 ∧ 1 < p.gamma ∧
    0 < cog14_b p ∧ cog14_b p < p.geometry - 1 := by
  refine ⟨⟨40, 686 / 5, 2, 0, 1, 0, 29970000000, 7 / 5, 3, 0, 1 / 10, 9 / 5⟩, ?_, by norm_num, by norm_num,
    by norm_num, by norm_num [cog14_b], by norm_num [cog14_b]⟩
  unfold Cog14.L0.WellDefined
  refine ⟨by norm_num, by norm_num, by norm_num, by norm_num, by norm_num, by norm_num, by norm_num,
    by norm_num, by norm_num, ?_, by norm_num, by norm_num⟩
  norm_num
  positivity

/-- FINDING (false on the current tree): in planar geometry (k = 0) with otherwise default
parameters the bracket whose real power is the temperature amplitude is negative (b = 1/6,
k - b = -1/6): the generated expressions are not well defined, and the real call raises
`TypeError: must be real number, not complex`. -/
theorem Finding_cog14_domain :
    ∃ p : Cog14.P, ∃ r t : ℝ, p.geometry = 1 ∧ 1 < p.gamma ∧ 0 < p.rho0 ∧ 0 < p.lambda0 ∧ 0 < p.Gamma ∧
      -1 ≤ p.alpha ∧ p.alpha ≤ 2 ∧ 1 ≤ p.beta ∧ p.beta ≤ 3 ∧ 0 < r ∧ 0 < t ∧
      ¬ Cog14.L0.WellDefined p r t := by
  refine ⟨⟨40, 686 / 5, 2, 0, 1, 0, 29970000000, 7 / 5, 1, 0, 1 / 10, 9 / 5⟩, 1, 1, by norm_num, by norm_num,
    by norm_num, by norm_num, by norm_num, by norm_num, by norm_num, by norm_num, by norm_num, by norm_num,
    by norm_num, ?_⟩
  rintro ⟨-, -, -, -, -, -, -, hB, -⟩
  norm_num at hB

/-! ### The returned (tree-level) fields

The traced decision tree has a single leaf and no path condition: the returned fields *are* those
of leaf 0 (definitionally), so the leaf theorems are statements about what the solver returns. -/

theorem cog14_tree : Cog14.density = Cog14.L0.density ∧ Cog14.velocity = Cog14.L0.velocity
    ∧ Cog14.temperature = Cog14.L0.temperature ∧ ∀ p r t, Cog14.outcome p r t = .ok := ⟨rfl, rfl, rfl, fun _ _ _ => rfl⟩

theorem cog14_mass_tree (p : Cog14.P) (r t : ℝ) (hr : 0 < r) :
    massRes (Cog14.density p) (Cog14.velocity p) (p.geometry - 1) r t = 0 :=
  cog14_mass p r t hr

theorem cog14_momentum_tree (p : Cog14.P) (r t : ℝ) (hwd : Cog14.L0.WellDefined p r t) :
    momResT (Cog14.density p) (Cog14.velocity p) (Cog14.temperature p) p.Gamma r t = 0 :=
  cog14_momentum p r t hwd

theorem cog14_energy_tree (p : Cog14.P) (r t : ℝ) (hwd : Cog14.L0.WellDefined p r t)
    (hΓ0 : 0 < p.Gamma) (hlam : 0 < p.lambda0) (hγ1 : 1 < p.gamma)
    (hb0 : 0 < cog14_b p) (hbk : cog14_b p < p.geometry - 1) :
    energyResT (Cog14.density p) (Cog14.velocity p) (Cog14.temperature p)
      p.Gamma p.gamma (p.geometry - 1) 29970000000 (686 / 5) p.lambda0 p.alpha p.beta r t = 0 :=
  cog14_energy p r t hwd hΓ0 hlam hγ1 hb0 hbk

end EPV.C01
