/-
C01 — Coggeshall solution 4 (steady flow) satisfies the documented balance
equations of mass, momentum and energy for every real geometry factor
k = geometry - 1, every u₀, ρ₀ ≠ 0, Γ ≠ 0 and every γ ∉ {-1, 0, 1} (the
documented exponents and temperature coefficient are defined), at every r > 0
and every t.  (T > 0 needs γ < 1, as the documentation says; the identities do
not.)

Solution 4 is a pure hydrodynamic solution (free parameters k, u₀, ρ₀, γ, Γ; no
mean-free-path law), i.e. λ₀ = 0: the energy equation is stated in its
hydrodynamic form (`cog4_energy_hydro`) and as the full documented residual
with λ₀ = 0 and arbitrary c, a, α, β (`cog4_energy`).
-/
import EPV.Gen.Cog4D
import EPV.Spec.Euler1D
import EPV.Lemmas.Euler1D
import EPV.Lemmas.HydroRobust
import EPV.Tactics

set_option linter.all false

open EPV EPV.Gen EPV.Spec Filter Topology

namespace EPV.C01

/-- the traced model has exactly the leaves the theorems below cover -/
theorem cog4_leaves : Cog4.okLeaves = [0] := rfl

theorem cog4_mass (p : Cog4.P) (r t : ℝ) (hr : 0 < r) (hg : p.gamma + 1 ≠ 0) :
    massRes (Cog4.L0.density p) (Cog4.L0.velocity p) (p.geometry - 1) r t = 0 := by
  unfold massRes dr dt
  epv_hydro_rw_derivs [Cog4.L0.density_hasDerivAt_t p r t, Cog4.L0.density_hasDerivAt_r p r t,
    Cog4.L0.velocity_hasDerivAt_r p r t]
  simp only [epv_deriv, epv_leaf]
  field_simp
  ring

theorem cog4_momentum (p : Cog4.P) (r t : ℝ) (hr : 0 < r) (hg : p.gamma + 1 ≠ 0) (hg0 : p.gamma ≠ 0)
    (hΓ : p.Gamma ≠ 0) (hρ : p.rho0 ≠ 0) :
    momResT (Cog4.L0.density p) (Cog4.L0.velocity p) (Cog4.L0.temperature p) p.Gamma r t = 0 := by
  unfold momResT dr dt
  epv_hydro_rw_derivs [Cog4.L0.velocity_hasDerivAt_t p r t, Cog4.L0.velocity_hasDerivAt_r p r t,
    Cog4.L0.density_hasDerivAt_r p r t, Cog4.L0.temperature_hasDerivAt_r p r t]
  simp only [epv_deriv, epv_leaf]
  have h1 := Real.rpow_pos_of_pos hr ((2 : ℝ) * ((-(p.geometry - (1 : ℝ))) / (p.gamma + (1 : ℝ))))
  have h2 : r ^ ((2 : ℝ) * (((-(p.geometry - (1 : ℝ))) * (p.gamma - (1 : ℝ))) / (p.gamma + (1 : ℝ))))
      = r ^ (((-(p.geometry - (1 : ℝ))) * (p.gamma - (1 : ℝ))) / (p.gamma + (1 : ℝ)))
        * r ^ (((-(p.geometry - (1 : ℝ))) * (p.gamma - (1 : ℝ))) / (p.gamma + (1 : ℝ))) := by
    rw [two_mul, Real.rpow_add hr]
  rw [h2]
  field_simp
  ring

theorem cog4_energy_hydro (p : Cog4.P) (r t : ℝ) (hr : 0 < r) (hg : p.gamma + 1 ≠ 0) (hg0 : p.gamma ≠ 0)
    (hΓ : p.Gamma ≠ 0) (hγ : p.gamma - 1 ≠ 0) :
    energyHydroT (Cog4.L0.velocity p) (Cog4.L0.temperature p) p.Gamma p.gamma (p.geometry - 1) r t = 0 := by
  unfold energyHydroT dr dt
  epv_hydro_rw_derivs [Cog4.L0.temperature_hasDerivAt_t p r t, Cog4.L0.velocity_hasDerivAt_r p r t,
    Cog4.L0.temperature_hasDerivAt_r p r t]
  simp only [epv_deriv, epv_leaf]
  field_simp
  ring

/-- the documented energy residual with no conduction (λ₀ = 0), any c, a, α, β -/
theorem cog4_energy (p : Cog4.P) (r t : ℝ) (hr : 0 < r) (hg : p.gamma + 1 ≠ 0) (hg0 : p.gamma ≠ 0)
    (hΓ : p.Gamma ≠ 0) (hγ : p.gamma - 1 ≠ 0) (c a α β : ℝ) :
    energyResT (Cog4.L0.density p) (Cog4.L0.velocity p) (Cog4.L0.temperature p) p.Gamma p.gamma
      (p.geometry - 1) c a 0 α β r t = 0 := by
  rw [energyResT_lam0_zero]
  exact cog4_energy_hydro p r t hr hg hg0 hΓ hγ

/-- non-vacuity: the hypotheses hold at the solver's defaults -/
example : ∃ (p : Cog4.P) (r : ℝ), 0 < r ∧ p.gamma + 1 ≠ 0 ∧ p.gamma ≠ 0 ∧ p.Gamma ≠ 0 ∧ p.rho0 ≠ 0 ∧
    p.gamma - 1 ≠ 0 :=
  ⟨{ Gamma := 40, a_rad := 0, alpha_ := 0, beta_ := 0, c_light := 0, gamma := 7/5, geometry := 3,
     lam0_ := 0, rho0 := 7/5, u0 := 23/10 }, 1, by norm_num, by norm_num, by norm_num, by norm_num, by norm_num,
    by norm_num⟩

/-! ### The returned fields (tree level)

The traced decision tree has a single leaf: the returned fields *are* those of leaf 0. -/


theorem cog4_tree (p : Cog4.P) (r t : ℝ) :
    AgreeAt (Cog4.density p) (Cog4.L0.density p) r t
      ∧ AgreeAt (Cog4.velocity p) (Cog4.L0.velocity p) r t
      ∧ AgreeAt (Cog4.temperature p) (Cog4.L0.temperature p) r t := by
  have e : ∀ x s, Cog4.density p x s = Cog4.L0.density p x s
      ∧ Cog4.velocity p x s = Cog4.L0.velocity p x s
      ∧ Cog4.temperature p x s = Cog4.L0.temperature p x s := by
    intro x s
    exact ⟨rfl, rfl, rfl⟩
  exact ⟨⟨fun x => (e x t).1, Filter.Eventually.of_forall fun s => (e r s).1⟩,
    ⟨fun x => (e x t).2.1, Filter.Eventually.of_forall fun s => (e r s).2.1⟩,
    ⟨fun x => (e x t).2.2, Filter.Eventually.of_forall fun s => (e r s).2.2⟩⟩

/-- mass balance of the returned (tree-level) fields -/
theorem cog4_mass_tree (p : Cog4.P) (r t : ℝ) (hr : 0 < r) (hg : p.gamma + 1 ≠ 0) :
    massRes (Cog4.density p) (Cog4.velocity p) (p.geometry - 1) r t = 0 := by
  obtain ⟨hρ', hu', hT'⟩ := cog4_tree p r t
  rw [massRes_congr hρ' hu']
  exact cog4_mass p r t hr hg

/-- momentum balance of the returned (tree-level) fields -/
theorem cog4_momentum_tree (p : Cog4.P) (r t : ℝ) (hr : 0 < r) (hg : p.gamma + 1 ≠ 0) (hg0 : p.gamma ≠ 0)
    (hΓ : p.Gamma ≠ 0) (hρ : p.rho0 ≠ 0) :
    momResT (Cog4.density p) (Cog4.velocity p) (Cog4.temperature p) p.Gamma r t = 0 := by
  obtain ⟨hρ', hu', hT'⟩ := cog4_tree p r t
  rw [momResT_congr hρ' hu' hT']
  exact cog4_momentum p r t hr hg hg0 hΓ hρ

/-- energy balance of the returned (tree-level) fields -/
theorem cog4_energy_tree (p : Cog4.P) (r t : ℝ) (hr : 0 < r) (hg : p.gamma + 1 ≠ 0) (hg0 : p.gamma ≠ 0)
    (hΓ : p.Gamma ≠ 0) (hγ : p.gamma - 1 ≠ 0) (c a α β : ℝ) :
    energyResT (Cog4.density p) (Cog4.velocity p) (Cog4.temperature p) p.Gamma p.gamma
      (p.geometry - 1) c a 0 α β r t = 0 := by
  obtain ⟨hρ', hu', hT'⟩ := cog4_tree p r t
  rw [energyResT_congr hρ' hu' hT']
  exact cog4_energy p r t hr hg hg0 hΓ hγ c a α β

end EPV.C01
