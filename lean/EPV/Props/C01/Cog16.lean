/-
C01 — Coggeshall solution 16 (steady):  ρ = ρ₀ r^{-k-b},  u = u₀ r^b,  T = u₀² b /(Γ (k-b)) r^{2b},
ρ₀ = (16 c a λ₀ (γ-1)/3)^k b^{(5k-1)/2} / ( u₀ (k-b)^{(k-1)/2} Γ^{(3k-1)/2} [2b+(γ-1)(k+b)]^k ),
with the conduction exponents α = 1 - 1/k, β = α/2 - 3 the documentation derives (k ≠ 0).

All three balance equations are proved — the energy equation *with* the radiative heat flux
(c = 2.997e10, a = 137.2 as hard-wired in `cog16.py`, λ₀ the solver's parameter) — for every real
k = geometry - 1 and all parameters for which the generated expressions are well defined
(`Cog16.L0.WellDefined`: r > 0, 0 < b < k, Γ > 0, λ₀ (γ-1) > 0, 2b + (γ-1)(k+b) > 0, i.e. the
positivity of every base of a real power), plus u₀ > 0 (positive density) for the energy equation.
-/
import EPV.Gen.Cog16D
import EPV.Spec.Euler1D
import EPV.Lemmas.Euler1Db
import EPV.Lemmas.HydroRobust
import EPV.Tactics

set_option linter.all false

open EPV EPV.Gen EPV.Spec EPV.Lemmas

namespace EPV.C01

/-- the traced model has exactly the leaf the theorems below cover -/
theorem cog16_leaves : Cog16.okLeaves = [0] := rfl

theorem cog16_mass (p : Cog16.P) (r t : ℝ) (hr : 0 < r) :
    massRes (Cog16.L0.density p) (Cog16.L0.velocity p) (p.geometry - 1) r t = 0 := by
  unfold massRes dr dt
  epv_hydro_rw_derivs [Cog16.L0.density_hasDerivAt_t p r t, Cog16.L0.density_hasDerivAt_r p r t,
    Cog16.L0.velocity_hasDerivAt_r p r t]
  simp only [epv_deriv, epv_leaf]
  have hr' := hr.ne'
  field_simp
  ring

theorem cog16_momentum (p : Cog16.P) (r t : ℝ) (hwd : Cog16.L0.WellDefined p r t) :
    momResT (Cog16.L0.density p) (Cog16.L0.velocity p) (Cog16.L0.temperature p) p.Gamma r t = 0 := by
  obtain ⟨hA, hb, hkb, hΓ, hx1, hdenne, hr, -, -, hρne, hγ⟩ := hwd
  have hρr : dr (Cog16.L0.density p) r t = (-(p.geometry - 1) - p.b) * Cog16.L0.density p r t / r := by
    unfold dr
    epv_hydro_rw_derivs [Cog16.L0.density_hasDerivAt_r p r t]
    simp only [epv_deriv, epv_leaf]
    ring
  unfold momResT
  rw [hρr]
  unfold dr dt
  epv_hydro_rw_derivs [Cog16.L0.velocity_hasDerivAt_t p r t, Cog16.L0.velocity_hasDerivAt_r p r t,
    Cog16.L0.temperature_hasDerivAt_r p r t]
  have hρne' : Cog16.L0.density p r t ≠ 0 := hρne
  generalize Cog16.L0.density p r t = ρ at hρne' ⊢
  simp only [epv_deriv, epv_leaf]
  have h1 := Real.rpow_pos_of_pos hr p.b
  have h2 : r ^ ((2 : ℝ) * p.b) = r ^ p.b * r ^ p.b := by
    rw [← Real.rpow_add hr]; congr 1; ring
  rw [h2]
  generalize r ^ p.b = X at h1 ⊢
  have hr' := hr.ne'
  have hΓ' := hΓ.ne'
  have hkb' := hkb.ne'
  field_simp
  ring

/-- the energy equation with the radiative heat flux; α = 1 - 1/k and β = α/2 - 3 as the
documentation of solution 16 derives them -/
theorem cog16_energy (p : Cog16.P) (r t : ℝ) (hwd : Cog16.L0.WellDefined p r t) (hu0 : 0 < p.u0)
    (hk : p.geometry - 1 ≠ 0) :
    energyResT (Cog16.L0.density p) (Cog16.L0.velocity p) (Cog16.L0.temperature p)
      p.Gamma p.gamma (p.geometry - 1) 29970000000 (686 / 5) p.lambda0
      (1 - 1 / (p.geometry - 1)) ((1 - 1 / (p.geometry - 1)) / 2 - 3) r t = 0 := by
  obtain ⟨hA, hb, hkb, hΓ, hx1, hdenne, hr, -, -, hρne, hγ⟩ := hwd
  obtain ⟨A, hAeq, hApos⟩ := exists_eq_of_pos hA
  have hρ : ∀ x, 0 < x → Cog16.L0.density p x t
      = Cog16.L0.density p 1 t * x ^ ((-(p.geometry - 1)) - p.b) := by
    intro x _; simp only [epv_leaf, Real.one_rpow]; ring
  have hT : ∀ x, 0 < x → Cog16.L0.temperature p x t
      = Cog16.L0.temperature p 1 t * x ^ ((2 : ℝ) * p.b) := by
    intro x _; simp only [epv_leaf, Real.one_rpow]; ring
  have hR : 0 < Cog16.L0.density p 1 t := by simp only [epv_leaf, ← hAeq]; positivity
  have hΘ : 0 < Cog16.L0.temperature p 1 t := by simp only [epv_leaf]; positivity
  rw [energyResT_powerLaw _ _ _ _ _ _ _ _ _ _ _ _ _ _ _ r t hr hR hΘ hρ hT]
  have key : Cog16.L0.density p r t ^ (1 - 1 / (p.geometry - 1))
        * Cog16.L0.temperature p r t ^ ((1 - 1 / (p.geometry - 1)) / 2 - 3)
        * Cog16.L0.temperature p r t ^ (3 : ℕ)
      = (((2 : ℝ) * p.b) + ((p.gamma - 1) * ((p.geometry - 1) + p.b))) * p.Gamma / (A * p.b ^ (2 : ℕ))
          * Cog16.L0.density p r t * Cog16.L0.velocity p r t * r := by
    simp only [epv_leaf, ← hAeq]
    epv_rpow_eq
  have hTr : dr (Cog16.L0.temperature p) r t = ((2 : ℝ) * p.b) * Cog16.L0.temperature p r t / r := by
    unfold dr
    epv_hydro_rw_derivs [Cog16.L0.temperature_hasDerivAt_r p r t]
    simp only [epv_deriv, epv_leaf]
    ring
  have hTt : dt (Cog16.L0.temperature p) r t = 0 := by
    unfold dt
    epv_hydro_rw_derivs [Cog16.L0.temperature_hasDerivAt_t p r t]
    simp only [epv_deriv]
  have hur : dr (Cog16.L0.velocity p) r t = p.b * Cog16.L0.velocity p r t / r := by
    unfold dr
    epv_hydro_rw_derivs [Cog16.L0.velocity_hasDerivAt_r p r t]
    simp only [epv_deriv, epv_leaf]
    ring
  have hρpos : 0 < Cog16.L0.density p r t := by rw [hρ r hr]; positivity
  have hTpos : 0 < Cog16.L0.temperature p r t := by rw [hT r hr]; positivity
  unfold energyHydroT
  rw [hTt, hTr, hur]
  generalize Cog16.L0.density p r t = ρ at key hρpos ⊢
  generalize Cog16.L0.temperature p r t = T at key hTpos ⊢
  generalize Cog16.L0.velocity p r t = u at key ⊢
  have h4 : ρ ^ (1 - 1 / (p.geometry - 1)) * T ^ ((1 - 1 / (p.geometry - 1)) / 2 - 3) * T ^ (4 : ℕ)
      = (((2 : ℝ) * p.b) + ((p.gamma - 1) * ((p.geometry - 1) + p.b))) * p.Gamma / (A * p.b ^ (2 : ℕ))
          * ρ * u * r * T := by
    rw [pow_succ T 3, ← mul_assoc, key]
  rw [h4, hAeq]
  have hr' := hr.ne'
  have hρ' := hρpos.ne'
  have hb' := hb.ne'
  have hl : p.lambda0 ≠ 0 := by
    intro h; rw [h] at hA; norm_num at hA
  field_simp
  ring


/-- non-vacuity: the class defaults (geometry 3, γ = 1.4, u₀ = 2.3, b = 1.2, λ₀ = 0.1, Γ = 40) at r = 1 -/
example : ∃ p : Cog16.P, Cog16.L0.WellDefined p 1 1 ∧ 0 < p.u0 ∧ p.geometry - 1 ≠ 0 := by
  refine ⟨⟨40, 686 / 5, 0, 6 / 5, 0, 29970000000, 7 / 5, 3, 0, 1 / 10, 23 / 10⟩, ?_, by norm_num, by norm_num⟩
  unfold Cog16.L0.WellDefined
  refine ⟨by norm_num, by norm_num, by norm_num, by norm_num, by norm_num, ?_, by norm_num, by norm_num,
    by norm_num, ?_, by norm_num⟩
  · norm_num
  · norm_num

/-! ### The returned (tree-level) fields

The traced decision tree has a single leaf and no path condition: the returned fields *are* those
of leaf 0 (definitionally), so the leaf theorems are statements about what the solver returns. -/

theorem cog16_tree : Cog16.density = Cog16.L0.density ∧ Cog16.velocity = Cog16.L0.velocity
    ∧ Cog16.temperature = Cog16.L0.temperature ∧ ∀ p r t, Cog16.outcome p r t = .ok := ⟨rfl, rfl, rfl, fun _ _ _ => rfl⟩

theorem cog16_mass_tree (p : Cog16.P) (r t : ℝ) (hr : 0 < r) :
    massRes (Cog16.density p) (Cog16.velocity p) (p.geometry - 1) r t = 0 :=
  cog16_mass p r t hr

theorem cog16_momentum_tree (p : Cog16.P) (r t : ℝ) (hwd : Cog16.L0.WellDefined p r t) :
    momResT (Cog16.density p) (Cog16.velocity p) (Cog16.temperature p) p.Gamma r t = 0 :=
  cog16_momentum p r t hwd

theorem cog16_energy_tree (p : Cog16.P) (r t : ℝ) (hwd : Cog16.L0.WellDefined p r t) (hu0 : 0 < p.u0)
    (hk : p.geometry - 1 ≠ 0) :
    energyResT (Cog16.density p) (Cog16.velocity p) (Cog16.temperature p)
      p.Gamma p.gamma (p.geometry - 1) 29970000000 (686 / 5) p.lambda0
      (1 - 1 / (p.geometry - 1)) ((1 - 1 / (p.geometry - 1)) / 2 - 3) r t = 0 :=
  cog16_energy p r t hwd hu0 hk

end EPV.C01
