/-
C01 — Coggeshall solution 3 satisfies the documented balance equations of mass,
momentum and energy with the documented adiabatic index γ = (k-1)/(k+1), for
every real geometry factor k = geometry - 1 ≠ -1, every b, ρ₀, Γ ≠ 0, v ≠ 0 with
k - v - 1 ≠ 0 (the documented temperature coefficient is defined), at every
r > 0 and every t.

`cog3.py` types Euler's number as the literal `ee = 2.718281828459045`, the
correctly rounded double of e; the translator emits it as `Real.exp 1` (the same
idealisation as for π), so that `ee ^ (b t) = exp (b t)` as the documentation
writes it.

Solution 3 is a pure hydrodynamic solution (free parameters v, b, k, ρ₀, Γ; no
mean-free-path law), i.e. λ₀ = 0: the energy equation is stated in its
hydrodynamic form (`cog3_energy_hydro`) and as the full documented residual
with λ₀ = 0 and arbitrary c, a, α, β (`cog3_energy`).
-/
import EPV.Gen.Cog3D
import EPV.Spec.Euler1D
import EPV.Lemmas.Euler1D
import EPV.Lemmas.HydroRobust
import EPV.Tactics

set_option linter.all false

open EPV EPV.Gen EPV.Spec Filter Topology

namespace EPV.C01

/-- the traced model has exactly the leaves the theorems below cover -/
theorem cog3_leaves : Cog3.okLeaves = [0] := rfl

theorem cog3_mass (p : Cog3.P) (r t : ℝ) (hr : 0 < r) (hv : p.v ≠ 0) :
    massRes (Cog3.L0.density p) (Cog3.L0.velocity p) (p.geometry - 1) r t = 0 := by
  unfold massRes dr dt
  epv_hydro_rw_derivs [Cog3.L0.density_hasDerivAt_t p r t, Cog3.L0.density_hasDerivAt_r p r t,
    Cog3.L0.velocity_hasDerivAt_r p r t]
  simp only [epv_deriv, epv_leaf, Real.log_exp]
  field_simp
  ring

theorem cog3_momentum (p : Cog3.P) (r t : ℝ) (hr : 0 < r) (hv : p.v ≠ 0) (hΓ : p.Gamma ≠ 0)
    (hc : (p.geometry - 1) - p.v - 1 ≠ 0) (hρ : p.rho0 ≠ 0) :
    momResT (Cog3.L0.density p) (Cog3.L0.velocity p) (Cog3.L0.temperature p) p.Gamma r t = 0 := by
  unfold momResT dr dt
  epv_hydro_rw_derivs [Cog3.L0.velocity_hasDerivAt_t p r t, Cog3.L0.velocity_hasDerivAt_r p r t,
    Cog3.L0.density_hasDerivAt_r p r t, Cog3.L0.temperature_hasDerivAt_r p r t]
  simp only [epv_deriv, epv_leaf]
  have h1 := Real.rpow_pos_of_pos hr ((p.v - (p.geometry - (1 : ℝ))) - (1 : ℝ))
  have h2 := Real.rpow_pos_of_pos (Real.exp_pos 1) (p.b * t)
  field_simp
  ring

theorem cog3_energy_hydro (p : Cog3.P) (r t : ℝ) (hr : 0 < r) (hv : p.v ≠ 0) (hΓ : p.Gamma ≠ 0)
    (hc : (p.geometry - 1) - p.v - 1 ≠ 0) (hk : (p.geometry - 1) + 1 ≠ 0) :
    energyHydroT (Cog3.L0.velocity p) (Cog3.L0.temperature p) p.Gamma
      (((p.geometry - 1) - 1) / ((p.geometry - 1) + 1)) (p.geometry - 1) r t = 0 := by
  unfold energyHydroT dr dt
  epv_hydro_rw_derivs [Cog3.L0.temperature_hasDerivAt_t p r t, Cog3.L0.velocity_hasDerivAt_r p r t,
    Cog3.L0.temperature_hasDerivAt_r p r t]
  simp only [epv_deriv, epv_leaf]
  have hg : ((p.geometry - 1) - 1) / ((p.geometry - 1) + 1) - 1 = -2 / ((p.geometry - 1) + 1) := by
    field_simp
    ring
  rw [hg]
  field_simp
  ring

/-- the documented energy residual with no conduction (λ₀ = 0), any c, a, α, β -/
theorem cog3_energy (p : Cog3.P) (r t : ℝ) (hr : 0 < r) (hv : p.v ≠ 0) (hΓ : p.Gamma ≠ 0)
    (hc : (p.geometry - 1) - p.v - 1 ≠ 0) (hk : (p.geometry - 1) + 1 ≠ 0) (c a α β : ℝ) :
    energyResT (Cog3.L0.density p) (Cog3.L0.velocity p) (Cog3.L0.temperature p) p.Gamma
      (((p.geometry - 1) - 1) / ((p.geometry - 1) + 1)) (p.geometry - 1) c a 0 α β r t = 0 := by
  rw [energyResT_lam0_zero]
  exact cog3_energy_hydro p r t hr hv hΓ hc hk

/-- non-vacuity: the hypotheses hold at the solver's defaults -/
example : ∃ (p : Cog3.P) (r : ℝ), 0 < r ∧ p.v ≠ 0 ∧ p.Gamma ≠ 0 ∧ (p.geometry - 1) - p.v - 1 ≠ 0 ∧
    (p.geometry - 1) + 1 ≠ 0 ∧ p.rho0 ≠ 0 :=
  ⟨{ Gamma := 40, a_rad := 0, alpha_ := 0, b := 6/5, beta_ := 0, c_light := 0, geometry := 3,
     lam0_ := 0, rho0 := 9/5, v := 1/2 }, 1, by norm_num, by norm_num, by norm_num, by norm_num, by norm_num,
    by norm_num⟩

/-! ### The returned fields (tree level)

The traced decision tree has a single leaf: the returned fields *are* those of leaf 0. -/


theorem cog3_tree (p : Cog3.P) (r t : ℝ) :
    AgreeAt (Cog3.density p) (Cog3.L0.density p) r t
      ∧ AgreeAt (Cog3.velocity p) (Cog3.L0.velocity p) r t
      ∧ AgreeAt (Cog3.temperature p) (Cog3.L0.temperature p) r t := by
  have e : ∀ x s, Cog3.density p x s = Cog3.L0.density p x s
      ∧ Cog3.velocity p x s = Cog3.L0.velocity p x s
      ∧ Cog3.temperature p x s = Cog3.L0.temperature p x s := by
    intro x s
    exact ⟨rfl, rfl, rfl⟩
  exact ⟨⟨fun x => (e x t).1, Filter.Eventually.of_forall fun s => (e r s).1⟩,
    ⟨fun x => (e x t).2.1, Filter.Eventually.of_forall fun s => (e r s).2.1⟩,
    ⟨fun x => (e x t).2.2, Filter.Eventually.of_forall fun s => (e r s).2.2⟩⟩

/-- mass balance of the returned (tree-level) fields -/
theorem cog3_mass_tree (p : Cog3.P) (r t : ℝ) (hr : 0 < r) (hv : p.v ≠ 0) :
    massRes (Cog3.density p) (Cog3.velocity p) (p.geometry - 1) r t = 0 := by
  obtain ⟨hρ', hu', hT'⟩ := cog3_tree p r t
  rw [massRes_congr hρ' hu']
  exact cog3_mass p r t hr hv

/-- momentum balance of the returned (tree-level) fields -/
theorem cog3_momentum_tree (p : Cog3.P) (r t : ℝ) (hr : 0 < r) (hv : p.v ≠ 0) (hΓ : p.Gamma ≠ 0)
    (hc : (p.geometry - 1) - p.v - 1 ≠ 0) (hρ : p.rho0 ≠ 0) :
    momResT (Cog3.density p) (Cog3.velocity p) (Cog3.temperature p) p.Gamma r t = 0 := by
  obtain ⟨hρ', hu', hT'⟩ := cog3_tree p r t
  rw [momResT_congr hρ' hu' hT']
  exact cog3_momentum p r t hr hv hΓ hc hρ

/-- energy balance of the returned (tree-level) fields -/
theorem cog3_energy_tree (p : Cog3.P) (r t : ℝ) (hr : 0 < r) (hv : p.v ≠ 0) (hΓ : p.Gamma ≠ 0)
    (hc : (p.geometry - 1) - p.v - 1 ≠ 0) (hk : (p.geometry - 1) + 1 ≠ 0) (c a α β : ℝ) :
    energyResT (Cog3.density p) (Cog3.velocity p) (Cog3.temperature p) p.Gamma (((p.geometry - 1) - 1) / ((p.geometry - 1) + 1))
      (p.geometry - 1) c a 0 α β r t = 0 := by
  obtain ⟨hρ', hu', hT'⟩ := cog3_tree p r t
  rw [energyResT_congr hρ' hu' hT']
  exact cog3_energy p r t hr hv hΓ hc hk c a α β

end EPV.C01
