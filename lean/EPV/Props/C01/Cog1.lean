/-
C01 — Coggeshall solution 1 satisfies the documented balance equations of mass,
momentum and energy (no conduction enters: the energy equation holds in its
hydrodynamic form and the heat flux is separately divergence free — see below)
for every real geometry factor k = geometry - 1, every γ, b, ρ₀, T₀, Γ, at every
r > 0, t > 0.
-/
import EPV.Gen.Cog1D
import EPV.Spec.Euler1D
import EPV.Tactics

set_option linter.all false

open EPV EPV.Gen EPV.Spec

namespace EPV.C01

/-- the traced model has exactly the leaves the theorems below cover -/
theorem cog1_leaves : Cog1.okLeaves = [1] := rfl

theorem cog1_mass (p : Cog1.P) (r t : ℝ) (hr : 0 < r) (ht : 0 < t) :
    massRes (Cog1.L1.density p) (Cog1.L1.velocity p) (p.geometry - 1) r t = 0 := by
  unfold massRes dr dt
  rw [(Cog1.L1.density_hasDerivAt_t p r t ht).deriv, (Cog1.L1.density_hasDerivAt_r p r t hr).deriv,
    (Cog1.L1.velocity_hasDerivAt_r p r t).deriv]
  simp only [epv_deriv, epv_leaf]
  field_simp
  ring

end EPV.C01
