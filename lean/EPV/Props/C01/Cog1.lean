/-
C01 — Coggeshall solution 1 satisfies the documented balance equations of mass,
momentum and energy for every real geometry factor k = geometry - 1, every
γ ≠ 1, b, ρ₀, T₀, Γ, at every r > 0, t > 0.

Solution 1 is a pure hydrodynamic solution: its documentation lists the free
parameters b, k, ρ₀, T₀, γ and no mean-free-path law (no α, β, λ₀), i.e. the
problem has no conduction term, λ₀ = 0.  The energy equation is therefore
stated twice: in its hydrodynamic form (`cog1_energy_hydro`) and as the full
documented residual `energyResT` with λ₀ = 0 and arbitrary c, a, α, β
(`cog1_energy`).
-/
import EPV.Gen.Cog1D
import EPV.Spec.Euler1D
import EPV.Lemmas.Euler1D
import EPV.Lemmas.HydroRobust
import EPV.Tactics

set_option linter.all false

open EPV EPV.Gen EPV.Spec Filter Topology

namespace EPV.C01

/-- the traced model has exactly the leaves the theorems below cover -/
theorem cog1_leaves : Cog1.okLeaves = [1] := rfl

theorem cog1_mass (p : Cog1.P) (r t : ℝ) (hr : 0 < r) (ht : 0 < t) :
    massRes (Cog1.L1.density p) (Cog1.L1.velocity p) (p.geometry - 1) r t = 0 := by
  unfold massRes dr dt
  epv_hydro_rw_derivs [Cog1.L1.density_hasDerivAt_t p r t, Cog1.L1.density_hasDerivAt_r p r t,
    Cog1.L1.velocity_hasDerivAt_r p r t]
  simp only [epv_deriv, epv_leaf]
  epv_hydro_field_simp
  ring

/-- momentum; the code divides by ρ, so ρ₀ ≠ 0 is required -/
theorem cog1_momentum (p : Cog1.P) (r t : ℝ) (hr : 0 < r) (ht : 0 < t) (hρ : p.rho0 ≠ 0) :
    momResT (Cog1.L1.density p) (Cog1.L1.velocity p) (Cog1.L1.temperature p) p.Gamma r t = 0 := by
  unfold momResT dr dt
  epv_hydro_rw_derivs [Cog1.L1.velocity_hasDerivAt_t p r t, Cog1.L1.velocity_hasDerivAt_r p r t,
    Cog1.L1.density_hasDerivAt_r p r t, Cog1.L1.temperature_hasDerivAt_r p r t]
  simp only [epv_deriv, epv_leaf]
  epv_hydro_field_simp
  ring

theorem cog1_energy_hydro (p : Cog1.P) (r t : ℝ) (hr : 0 < r) (ht : 0 < t) (hγ : p.gamma - 1 ≠ 0) :
    energyHydroT (Cog1.L1.velocity p) (Cog1.L1.temperature p) p.Gamma p.gamma (p.geometry - 1) r t = 0 := by
  unfold energyHydroT dr dt
  epv_hydro_rw_derivs [Cog1.L1.temperature_hasDerivAt_t p r t, Cog1.L1.velocity_hasDerivAt_r p r t,
    Cog1.L1.temperature_hasDerivAt_r p r t]
  simp only [epv_deriv, epv_leaf]
  epv_hydro_field_simp
  ring

/-- the documented energy residual with no conduction (λ₀ = 0), any c, a, α, β -/
theorem cog1_energy (p : Cog1.P) (r t : ℝ) (hr : 0 < r) (ht : 0 < t) (hγ : p.gamma - 1 ≠ 0) (c a α β : ℝ) :
    energyResT (Cog1.L1.density p) (Cog1.L1.velocity p) (Cog1.L1.temperature p) p.Gamma p.gamma
      (p.geometry - 1) c a 0 α β r t = 0 := by
  rw [energyResT_lam0_zero]
  exact cog1_energy_hydro p r t hr ht hγ

/-- non-vacuity: the hypotheses hold at the solver's defaults -/
example : ∃ (p : Cog1.P) (r t : ℝ), 0 < r ∧ 0 < t ∧ p.rho0 ≠ 0 ∧ p.gamma - 1 ≠ 0 :=
  ⟨⟨40, 0, 0, 6/5, 0, 0, 7/5, 3, 0, 9/5, 7/5⟩, 1, 1, by norm_num, by norm_num, by norm_num, by norm_num⟩

/-! ### The returned fields (tree level)

The only path condition is `t ≤ 0` (NaN fields); where the solver returns numbers the returned
fields are those of leaf 1, on the whole line {(x, t)} and for all times near t. -/


theorem cog1_tree (p : Cog1.P) (r t : ℝ) (h : Cog1.outcome p r t = .ok) :
    0 < t ∧ AgreeAt (Cog1.density p) (Cog1.L1.density p) r t
      ∧ AgreeAt (Cog1.velocity p) (Cog1.L1.velocity p) r t
      ∧ AgreeAt (Cog1.temperature p) (Cog1.L1.temperature p) r t := by
  have ht : 0 < t := by
    by_contra hc
    have hc' : t ≤ 0 := not_lt.mp hc
    simp [epv_tree, epv_cond, hc'] at h
  have e : ∀ x s, 0 < s → Cog1.density p x s = Cog1.L1.density p x s
      ∧ Cog1.velocity p x s = Cog1.L1.velocity p x s
      ∧ Cog1.temperature p x s = Cog1.L1.temperature p x s := by
    intro x s hs
    have hns : ¬ s ≤ 0 := not_le.mpr hs
    simp only [epv_tree, epv_cond, hns, if_false, and_self]
  refine ⟨ht, ⟨fun x => (e x t ht).1, ?_⟩, ⟨fun x => (e x t ht).2.1, ?_⟩, ⟨fun x => (e x t ht).2.2, ?_⟩⟩
  · filter_upwards [Ioi_mem_nhds ht] with s hs using (e r s hs).1
  · filter_upwards [Ioi_mem_nhds ht] with s hs using (e r s hs).2.1
  · filter_upwards [Ioi_mem_nhds ht] with s hs using (e r s hs).2.2

/-- mass balance of the returned (tree-level) fields -/
theorem cog1_mass_tree (p : Cog1.P) (r t : ℝ) (h : Cog1.outcome p r t = .ok) (hr : 0 < r) :
    massRes (Cog1.density p) (Cog1.velocity p) (p.geometry - 1) r t = 0 := by
  obtain ⟨ht, hρ', hu', hT'⟩ := cog1_tree p r t h
  rw [massRes_congr hρ' hu']
  exact cog1_mass p r t hr ht

/-- momentum balance of the returned (tree-level) fields -/
theorem cog1_momentum_tree (p : Cog1.P) (r t : ℝ) (h : Cog1.outcome p r t = .ok) (hr : 0 < r) (hρ : p.rho0 ≠ 0) :
    momResT (Cog1.density p) (Cog1.velocity p) (Cog1.temperature p) p.Gamma r t = 0 := by
  obtain ⟨ht, hρ', hu', hT'⟩ := cog1_tree p r t h
  rw [momResT_congr hρ' hu' hT']
  exact cog1_momentum p r t hr ht hρ

/-- energy balance of the returned (tree-level) fields -/
theorem cog1_energy_tree (p : Cog1.P) (r t : ℝ) (h : Cog1.outcome p r t = .ok) (hr : 0 < r) (hγ : p.gamma - 1 ≠ 0) (c a α β : ℝ) :
    energyResT (Cog1.density p) (Cog1.velocity p) (Cog1.temperature p) p.Gamma p.gamma
      (p.geometry - 1) c a 0 α β r t = 0 := by
  obtain ⟨ht, hρ', hu', hT'⟩ := cog1_tree p r t h
  rw [energyResT_congr hρ' hu' hT']
  exact cog1_energy p r t hr ht hγ c a α β

end EPV.C01
