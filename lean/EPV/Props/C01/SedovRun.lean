/-
C01 (Sedov share, PARTIAL) — behind the shock the returned fields are the post-shock state times
the similarity functions at λ = r / r2(t):  ρ = ρ₂ g(λ),  u = u₂ f(λ),  p = p₂ h(λ).

Proved at tree level on the generated models of the WHOLE `_run` (two-node grid, one symbolic
point), for t > 0 and r ≤ r2(t) (r2 the generated SedovShock radius), all real parameters:
  * singular type (SedovRunSing): the three fields are ρ₂ (r/r2)^(k-2), u₂ (r/r2), p₂ (r/r2)^k —
    the generated closed forms of `sedov_funcs_singular` (SedovSingular) at the code's own r2;
  * standard type (SedovRunStd): ρ₂ g₀, u₂ f₀, p₂ h₀ with (f₀, g₀, h₀) the values of
    `sedov_funcs_standard` at the root v₀ that `fminbound(sed_lam_min)` returns for
    lam_want = r/r2 (atoms: the root finding is a numerical primitive);
  * vacuum type (SedovRunVac): 0, 0, 0 inside the hole r < λ_vv r2, and ρ₂ g₀, u₂ f₀, p₂ h₀ outside.
What is NOT proved (growth target): that f, g, h solve the similarity ODEs, i.e. that these fields
satisfy the Euler equations of exactpack/solvers/sedov/__init__.py.
-/
import EPV.Lemmas.SedovRun
import EPV.Lemmas.SedovFields
import EPV.Gen.SedovSingular

set_option linter.all false
set_option maxRecDepth 100000

open EPV EPV.Gen EPV.Sedov

namespace EPV.C01

noncomputable section

/-- the post-shock state of the generated SedovShock, t > 0 -/
theorem shock_leaf (q : SedovShock.P) {t : ℝ} (ht : 0 < t) :
    SedovShock.rho2 q t = SedovShock.L1.rho2 q t ∧ SedovShock.u2 q t = SedovShock.L1.u2 q t
      ∧ SedovShock.p2 q t = SedovShock.L1.p2 q t ∧ SedovShock.r2 q t = SedovShock.L1.r2 q t := by
  simp only [epv_tree]
  epv_semi_prune
  all_goals ((repeat' apply And.intro) <;> first | trivial | rfl)

/-- singular type: the returned fields behind the shock are the singular similarity functions
(generated SedovSingular, evaluated at the code's r2) scaled by the post-shock state -/
theorem sedov_behind_sing (p : SedovRunSing.P) (r t : ℝ) (ht : 0 < t)
    (hr : r ≤ SedovShock.r2 (singToShock p) t) :
    SedovRunSing.density p r t
        = SedovShock.rho2 (singToShock p) t * SedovSingular.g_fun ⟨p.geometry, SedovShock.r2 (singToShock p) t⟩ r ∧
    SedovRunSing.velocity p r t
        = SedovShock.u2 (singToShock p) t * SedovSingular.f_fun ⟨p.geometry, SedovShock.r2 (singToShock p) t⟩ r ∧
    SedovRunSing.pressure p r t
        = SedovShock.p2 (singToShock p) t * SedovSingular.h_fun ⟨p.geometry, SedovShock.r2 (singToShock p) t⟩ r := by
  obtain ⟨e1, e2, e3, e4⟩ := shock_leaf (singToShock p) ht
  rw [e1, e2, e3, e4]
  rw [e4] at hr
  have h0 : ¬ SedovRunSing.c0 p r t := by rw [runSing_c0]; exact not_le.mpr ht
  have h1 : SedovRunSing.c1 p r t := by rw [runSing_c1]; exact hr
  simp only [SedovRunSing.density, SedovRunSing.velocity, SedovRunSing.pressure, h0, h1, if_false, if_true]
  split_ifs <;> simp only [epv_leaf, epv_tree, singToShock] <;> epv_semi_conj

/-- standard type: post-shock state times the similarity-function values at the root atom -/
theorem sedov_behind_std (p : SedovRunStd.P) (r t : ℝ) (ht : 0 < t)
    (hr : r ≤ SedovShock.r2 (stdToShock p) t) :
    SedovRunStd.density p r t = SedovShock.rho2 (stdToShock p) t * p.g_0 ∧
    SedovRunStd.velocity p r t = SedovShock.u2 (stdToShock p) t * p.f_0 ∧
    SedovRunStd.pressure p r t = SedovShock.p2 (stdToShock p) t * p.h_0 := by
  obtain ⟨e1, e2, e3, e4⟩ := shock_leaf (stdToShock p) ht
  rw [e1, e2, e3]
  rw [e4] at hr
  have h0 : ¬ SedovRunStd.c0 p r t := by rw [runStd_c0]; exact not_le.mpr ht
  have h1 : SedovRunStd.c1 p r t := by rw [runStd_c1]; exact hr
  simp only [SedovRunStd.density, SedovRunStd.velocity, SedovRunStd.pressure, h0, h1, if_false, if_true]
  split_ifs <;> simp only [epv_leaf, stdToShock] <;> epv_semi_conj

/-- pin: in the vacuum model `c2` is the test `rwant < self.rvv` with rvv = λ_vv · r2 -/
theorem runVac_c2 (p : SedovRunVac.P) (r t : ℝ) :
    SedovRunVac.c2 p r t ↔ r < p.l_vv * SedovShock.L1.r2 (vacToShock p) t := by
  first
  | exact Iff.rfl
  | (simp only [epv_cond, epv_leaf, vacToShock] <;> epv_semi_iff)

/-- vacuum type, inside the hole: everything vanishes -/
theorem sedov_behind_vac_hole (p : SedovRunVac.P) (r t : ℝ) (ht : 0 < t)
    (hr : r ≤ SedovShock.r2 (vacToShock p) t) (hv : r < p.l_vv * SedovShock.r2 (vacToShock p) t) :
    SedovRunVac.density p r t = 0 ∧ SedovRunVac.velocity p r t = 0 ∧ SedovRunVac.pressure p r t = 0 := by
  obtain ⟨e1, e2, e3, e4⟩ := shock_leaf (vacToShock p) ht
  rw [e4] at hr hv
  have h0 : ¬ SedovRunVac.c0 p r t := by rw [runVac_c0]; exact not_le.mpr ht
  have h1 : SedovRunVac.c1 p r t := by rw [runVac_c1]; exact hr
  have h2 : SedovRunVac.c2 p r t := by rw [runVac_c2]; exact hv
  simp only [SedovRunVac.density, SedovRunVac.velocity, SedovRunVac.pressure, h0, h1, h2, if_false, if_true]
  split_ifs <;> simp only [epv_leaf] <;> (repeat' apply And.intro) <;>
    first | trivial | epv_semi_eq | (simp only [mul_zero, zero_mul] <;> first | done | epv_semi_eq)

/-- vacuum type, between the hole and the shock -/
theorem sedov_behind_vac (p : SedovRunVac.P) (r t : ℝ) (ht : 0 < t)
    (hr : r ≤ SedovShock.r2 (vacToShock p) t) (hv : ¬ r < p.l_vv * SedovShock.r2 (vacToShock p) t) :
    SedovRunVac.density p r t = SedovShock.rho2 (vacToShock p) t * p.g_0 ∧
    SedovRunVac.velocity p r t = SedovShock.u2 (vacToShock p) t * p.f_0 ∧
    SedovRunVac.pressure p r t = SedovShock.p2 (vacToShock p) t * p.h_0 := by
  obtain ⟨e1, e2, e3, e4⟩ := shock_leaf (vacToShock p) ht
  rw [e1, e2, e3]
  rw [e4] at hr hv
  have h0 : ¬ SedovRunVac.c0 p r t := by rw [runVac_c0]; exact not_le.mpr ht
  have h1 : SedovRunVac.c1 p r t := by rw [runVac_c1]; exact hr
  have h2 : ¬ SedovRunVac.c2 p r t := by rw [runVac_c2]; exact hv
  simp only [SedovRunVac.density, SedovRunVac.velocity, SedovRunVac.pressure, h0, h1, h2, if_false, if_true]
  split_ifs <;> simp only [epv_leaf, vacToShock] <;> epv_semi_conj

/-- non-vacuity: default spherical problem at t = 1 with α = E (r2 = 1), r = 1/2 -/
example : ∃ (p : SedovRunSing.P) (r t : ℝ), 0 < t ∧ r ≤ SedovShock.r2 (singToShock p) t := by
  refine ⟨⟨851072/1000000, 851072/1000000, 7/5, 3, 0, 1⟩, 1/2, 1, one_pos, ?_⟩
  rw [(shock_leaf _ one_pos).2.2.2]
  simp only [epv_leaf, singToShock]
  norm_num

end

end EPV.C01
