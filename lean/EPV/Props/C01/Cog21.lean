/-
C01 — Coggeshall solution 21 (spherical, k = 2, γ = 5 hard-wired in the solver; a shock at
R(t) = 2 / (Γ T₀ t²) separates two smooth regions).  The problem has no heat conduction
(no α, β, λ₀ among its parameters): the documented energy equation is the hydrodynamic one,
stated here as `energyResT` with λ₀ = 0.

* leaf 1 (r < R, behind the shock): ρ = (3/2) ρ₀ r⁻³, u = 0, T = T₀ r³ (uniform pressure).
* leaf 2 (r ≥ R, ahead of the shock): ρ = ρ₀ r⁻³, u = r / t, T = 0.  Here the temperature is
  flat, so the energy statement holds for any conduction coefficients.

ρ₀, T₀, Γ are arbitrary reals (ρ₀ ≠ 0 where the momentum equation divides by ρ).
-/
import EPV.Gen.Cog21D
import EPV.Spec.Euler1D
import EPV.Lemmas.Euler1Db
import EPV.Lemmas.HydroRobust
import EPV.Lemmas.Bridge.Cog21
import EPV.Tactics

set_option linter.all false

open EPV EPV.Gen EPV.Spec EPV.Lemmas

open Filter Topology

namespace EPV.C01

/-- the traced model has exactly the leaves the theorems below cover (leaf 0 is the NaN
leaf of t ≤ 0) -/
theorem cog21_leaves : Cog21.okLeaves = [1, 2] := rfl

/-! ### leaf 1: behind the shock (k = 2, γ = 5) -/

theorem cog21_post_mass (p : Cog21.P) (r t : ℝ) (hr : r ≠ 0) :
    massRes (Cog21.L1.density p) (Cog21.L1.velocity p) 2 r t = 0 := by
  unfold massRes dr dt
  epv_hydro_rw_derivs [Cog21.L1.density_hasDerivAt_t p r t, Cog21.L1.density_hasDerivAt_r p r t,
    Cog21.L1.velocity_hasDerivAt_r p r t]
  simp only [epv_deriv, epv_leaf]
  ring

theorem cog21_post_momentum (p : Cog21.P) (r t : ℝ) (hr : r ≠ 0) (hρ : p.rho0 ≠ 0) :
    momResT (Cog21.L1.density p) (Cog21.L1.velocity p) (Cog21.L1.temperature p) p.Gamma r t = 0 := by
  unfold momResT dr dt
  epv_hydro_rw_derivs [Cog21.L1.velocity_hasDerivAt_t p r t, Cog21.L1.velocity_hasDerivAt_r p r t,
    Cog21.L1.density_hasDerivAt_r p r t, Cog21.L1.temperature_hasDerivAt_r p r t]
  simp only [epv_deriv, epv_leaf]
  epv_hydro_field_simp
  ring

example : ∃ p : Cog21.P, ∃ r : ℝ, r ≠ 0 ∧ p.rho0 ≠ 0 :=
  ⟨⟨400, 0, 0, 0, 0, 0, 9 / 5, 29 / 10⟩, 1 / 10, by norm_num, by norm_num⟩

/-- energy equation without conduction (λ₀ = 0: solution 21 is a pure hydrodynamic problem) -/
theorem cog21_post_energy (p : Cog21.P) (c a α β r t : ℝ) :
    energyResT (Cog21.L1.density p) (Cog21.L1.velocity p) (Cog21.L1.temperature p)
      p.Gamma 5 2 c a 0 α β r t = 0 := by
  rw [energyResT_lam0_zero]
  unfold energyHydroT dr dt
  epv_hydro_rw_derivs [Cog21.L1.temperature_hasDerivAt_t p r t, Cog21.L1.temperature_hasDerivAt_r p r t,
    Cog21.L1.velocity_hasDerivAt_r p r t]
  simp only [epv_deriv, epv_leaf]
  ring

/-! ### leaf 2: ahead of the shock -/

theorem cog21_pre_mass (p : Cog21.P) (r t : ℝ) (hr : r ≠ 0) (ht : t ≠ 0) :
    massRes (Cog21.L2.density p) (Cog21.L2.velocity p) 2 r t = 0 := by
  unfold massRes dr dt
  epv_hydro_rw_derivs [Cog21.L2.density_hasDerivAt_t p r t, Cog21.L2.density_hasDerivAt_r p r t,
    Cog21.L2.velocity_hasDerivAt_r p r t]
  simp only [epv_deriv, epv_leaf]
  epv_hydro_field_simp
  ring

theorem cog21_pre_momentum (p : Cog21.P) (r t : ℝ) (ht : t ≠ 0) :
    momResT (Cog21.L2.density p) (Cog21.L2.velocity p) (Cog21.L2.temperature p) p.Gamma r t = 0 := by
  unfold momResT dr dt
  epv_hydro_rw_derivs [Cog21.L2.velocity_hasDerivAt_t p r t, Cog21.L2.velocity_hasDerivAt_r p r t,
    Cog21.L2.temperature_hasDerivAt_r p r t]
  simp only [epv_deriv, epv_leaf]
  epv_hydro_field_simp
  ring

theorem cog21_pre_energy (p : Cog21.P) (c a lam0 α β r t : ℝ) :
    energyResT (Cog21.L2.density p) (Cog21.L2.velocity p) (Cog21.L2.temperature p)
      p.Gamma 5 2 c a lam0 α β r t = 0 := by
  rw [energyResT_of_T_const_r _ _ _ _ _ _ _ _ _ _ _ _ _ (fun x => by simp only [epv_leaf])]
  unfold energyHydroT dr dt
  epv_hydro_rw_derivs [Cog21.L2.temperature_hasDerivAt_t p r t, Cog21.L2.temperature_hasDerivAt_r p r t,
    Cog21.L2.velocity_hasDerivAt_r p r t]
  simp only [epv_deriv, epv_leaf]
  ring

/-! ### The returned (tree-level) fields away from the shock -/

/-- the shock position of solution 21 -/
noncomputable def cog21_shock (p : Cog21.P) (t : ℝ) : ℝ := 2 / ((p.Gamma * p.temp0) * t ^ 2)

theorem cog21_shock_continuousAt (p : Cog21.P) (t : ℝ) (hΓT : p.Gamma * p.temp0 ≠ 0) (ht : t ≠ 0) :
    ContinuousAt (cog21_shock p) t := by
  unfold cog21_shock
  exact ContinuousAt.div (by fun_prop) (by fun_prop) (mul_ne_zero hΓT (pow_ne_zero 2 ht))

/-- behind the shock the returned fields are those of leaf 1 near the point -/
theorem cog21_tree_post (p : Cog21.P) (r t : ℝ) (hΓT : p.Gamma * p.temp0 ≠ 0) (ht : 0 < t)
    (h : r < cog21_shock p t) :
    AgreeNear (Cog21.density p) (Cog21.L1.density p) r t
      ∧ AgreeNear (Cog21.velocity p) (Cog21.L1.velocity p) r t
      ∧ AgreeNear (Cog21.temperature p) (Cog21.L1.temperature p) r t := by
  have hx : ∀ᶠ x in 𝓝 r, 0 < t ∧ x < cog21_shock p t :=
    (eventually_lt_nhds h).mono fun x hx => ⟨ht, hx⟩
  have hs : ∀ᶠ s in 𝓝 t, 0 < s ∧ r < cog21_shock p s :=
    (eventually_gt_nhds ht).and
      (continuousAt_const.eventually_lt (cog21_shock_continuousAt p t hΓT ht.ne') h)
  have e : ∀ x s, (0 < s ∧ x < cog21_shock p s) → ¬ Cog21.c0 p x s ∧ Cog21.c1 p x s := by
    intro x s hc
    rw [EPV.Bridge.cog21_c0_iff, EPV.Bridge.cog21_c1_iff]
    exact ⟨not_le.2 hc.1, hc.2⟩
  exact ⟨agreeNear_of_cond (c := fun x s => 0 < s ∧ x < cog21_shock p s)
      (fun x s hc => by simp only [epv_tree, if_neg (e x s hc).1, if_pos (e x s hc).2]) hx hs,
    agreeNear_of_cond (c := fun x s => 0 < s ∧ x < cog21_shock p s)
      (fun x s hc => by simp only [epv_tree, if_neg (e x s hc).1, if_pos (e x s hc).2]) hx hs,
    agreeNear_of_cond (c := fun x s => 0 < s ∧ x < cog21_shock p s)
      (fun x s hc => by simp only [epv_tree, if_neg (e x s hc).1, if_pos (e x s hc).2]) hx hs⟩

/-- ahead of the shock the returned fields are those of leaf 2 near the point -/
theorem cog21_tree_pre (p : Cog21.P) (r t : ℝ) (hΓT : p.Gamma * p.temp0 ≠ 0) (ht : 0 < t)
    (h : cog21_shock p t < r) :
    AgreeNear (Cog21.density p) (Cog21.L2.density p) r t
      ∧ AgreeNear (Cog21.velocity p) (Cog21.L2.velocity p) r t
      ∧ AgreeNear (Cog21.temperature p) (Cog21.L2.temperature p) r t := by
  have hx : ∀ᶠ x in 𝓝 r, 0 < t ∧ cog21_shock p t < x :=
    (eventually_gt_nhds h).mono fun x hx => ⟨ht, hx⟩
  have hs : ∀ᶠ s in 𝓝 t, 0 < s ∧ cog21_shock p s < r :=
    (eventually_gt_nhds ht).and
      ((cog21_shock_continuousAt p t hΓT ht.ne').eventually_lt continuousAt_const h)
  have e : ∀ x s, (0 < s ∧ cog21_shock p s < x) → ¬ Cog21.c0 p x s ∧ ¬ Cog21.c1 p x s := by
    intro x s hc
    rw [EPV.Bridge.cog21_c0_iff, EPV.Bridge.cog21_c1_iff]
    exact ⟨not_le.2 hc.1, not_lt.2 hc.2.le⟩
  exact ⟨agreeNear_of_cond (c := fun x s => 0 < s ∧ cog21_shock p s < x)
      (fun x s hc => by simp only [epv_tree, if_neg (e x s hc).1, if_neg (e x s hc).2]) hx hs,
    agreeNear_of_cond (c := fun x s => 0 < s ∧ cog21_shock p s < x)
      (fun x s hc => by simp only [epv_tree, if_neg (e x s hc).1, if_neg (e x s hc).2]) hx hs,
    agreeNear_of_cond (c := fun x s => 0 < s ∧ cog21_shock p s < x)
      (fun x s hc => by simp only [epv_tree, if_neg (e x s hc).1, if_neg (e x s hc).2]) hx hs⟩

/-- mass balance of the returned fields at every point away from the shock -/
theorem cog21_mass_tree (p : Cog21.P) (r t : ℝ) (hr : r ≠ 0) (ht : 0 < t) (hΓT : p.Gamma * p.temp0 ≠ 0)
    (hsh : r ≠ cog21_shock p t) :
    massRes (Cog21.density p) (Cog21.velocity p) 2 r t = 0 := by
  rcases lt_or_gt_of_ne hsh with h | h
  · obtain ⟨h2, h3, h4⟩ := cog21_tree_post p r t hΓT ht h
    rw [massRes_congr_near h2 h3]; exact cog21_post_mass p r t hr
  · obtain ⟨h2, h3, h4⟩ := cog21_tree_pre p r t hΓT ht h
    rw [massRes_congr_near h2 h3]; exact cog21_pre_mass p r t hr ht.ne'

/-- momentum balance of the returned fields at every point away from the shock -/
theorem cog21_momentum_tree (p : Cog21.P) (r t : ℝ) (hr : r ≠ 0) (ht : 0 < t) (hρ : p.rho0 ≠ 0)
    (hΓT : p.Gamma * p.temp0 ≠ 0) (hsh : r ≠ cog21_shock p t) :
    momResT (Cog21.density p) (Cog21.velocity p) (Cog21.temperature p) p.Gamma r t = 0 := by
  rcases lt_or_gt_of_ne hsh with h | h
  · obtain ⟨h2, h3, h4⟩ := cog21_tree_post p r t hΓT ht h
    rw [momResT_congr_near h2 h3 h4]; exact cog21_post_momentum p r t hr hρ
  · obtain ⟨h2, h3, h4⟩ := cog21_tree_pre p r t hΓT ht h
    rw [momResT_congr_near h2 h3 h4]; exact cog21_pre_momentum p r t ht.ne'

/-- energy balance (no conduction) of the returned fields at every point away from the shock -/
theorem cog21_energy_tree (p : Cog21.P) (c a α β r t : ℝ) (ht : 0 < t) (hΓT : p.Gamma * p.temp0 ≠ 0)
    (hsh : r ≠ cog21_shock p t) :
    energyResT (Cog21.density p) (Cog21.velocity p) (Cog21.temperature p)
      p.Gamma 5 2 c a 0 α β r t = 0 := by
  rcases lt_or_gt_of_ne hsh with h | h
  · obtain ⟨h2, h3, h4⟩ := cog21_tree_post p r t hΓT ht h
    rw [energyResT_congr_near h2 h3 h4]; exact cog21_post_energy p c a α β r t
  · obtain ⟨h2, h3, h4⟩ := cog21_tree_pre p r t hΓT ht h
    rw [energyResT_congr_near h2 h3 h4]; exact cog21_pre_energy p c a 0 α β r t

/-- non-vacuity of the hypotheses of the tree-level theorems (class defaults, r = 1, t = 1; shock at 2/1160) -/
example : ∃ p : Cog21.P, ∃ r t : ℝ, r ≠ 0 ∧ 0 < t ∧ p.rho0 ≠ 0 ∧ p.Gamma * p.temp0 ≠ 0 ∧ r ≠ cog21_shock p t := by
  refine ⟨⟨400, 0, 0, 0, 0, 0, 9 / 5, 29 / 10⟩, 1, 1, by norm_num, by norm_num, by norm_num, by norm_num, ?_⟩
  unfold cog21_shock; norm_num

end EPV.C01
