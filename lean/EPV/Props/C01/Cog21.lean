/-
C01 — Coggeshall solution 21 (spherical, k = 2, γ = 5 hard-wired in the solver; a shock at
R(t) = 2 / (Γ T₀ t²) separates two smooth regions).  The problem has no heat conduction
(no α, β, λ₀ among its parameters): the documented energy equation is the hydrodynamic one,
stated here as `energyResT` with λ₀ = 0.

* leaf 1 (r < R, behind the shock): ρ = (3/2) ρ₀ r⁻³, u = 0, T = T₀ r³ (uniform pressure).
* leaf 2 (r ≥ R, ahead of the shock): ρ = ρ₀ r⁻³, u = r / t, T = 0.  Here the temperature is
  flat, so the energy statement holds for any conduction coefficients.

ρ₀, T₀, Γ are arbitrary reals (ρ₀ ≠ 0 where the momentum equation divides by ρ).
-/
import EPV.Gen.Cog21D
import EPV.Spec.Euler1D
import EPV.Lemmas.Euler1Db
import EPV.Tactics

set_option linter.all false

open EPV EPV.Gen EPV.Spec EPV.Lemmas

namespace EPV.C01

/-- the traced model has exactly the leaves the theorems below cover (leaf 0 is the NaN
leaf of t ≤ 0) -/
theorem cog21_leaves : Cog21.okLeaves = [1, 2] := rfl

/-! ### leaf 1: behind the shock (k = 2, γ = 5) -/

theorem cog21_post_mass (p : Cog21.P) (r t : ℝ) (hr : r ≠ 0) :
    massRes (Cog21.L1.density p) (Cog21.L1.velocity p) 2 r t = 0 := by
  unfold massRes dr dt
  rw [(Cog21.L1.density_hasDerivAt_t p r t).deriv, (Cog21.L1.density_hasDerivAt_r p r t (pow_ne_zero 3 hr)).deriv,
    (Cog21.L1.velocity_hasDerivAt_r p r t).deriv]
  simp only [epv_deriv, epv_leaf]
  ring

theorem cog21_post_momentum (p : Cog21.P) (r t : ℝ) (hr : r ≠ 0) (hρ : p.rho0 ≠ 0) :
    momResT (Cog21.L1.density p) (Cog21.L1.velocity p) (Cog21.L1.temperature p) p.Gamma r t = 0 := by
  unfold momResT dr dt
  rw [(Cog21.L1.velocity_hasDerivAt_t p r t).deriv, (Cog21.L1.velocity_hasDerivAt_r p r t).deriv,
    (Cog21.L1.density_hasDerivAt_r p r t (pow_ne_zero 3 hr)).deriv,
    (Cog21.L1.temperature_hasDerivAt_r p r t).deriv]
  simp only [epv_deriv, epv_leaf]
  field_simp
  ring

example : ∃ p : Cog21.P, ∃ r : ℝ, r ≠ 0 ∧ p.rho0 ≠ 0 :=
  ⟨⟨400, 0, 0, 0, 0, 0, 9 / 5, 29 / 10⟩, 1 / 10, by norm_num, by norm_num⟩

/-- energy equation without conduction (λ₀ = 0: solution 21 is a pure hydrodynamic problem) -/
theorem cog21_post_energy (p : Cog21.P) (c a α β r t : ℝ) :
    energyResT (Cog21.L1.density p) (Cog21.L1.velocity p) (Cog21.L1.temperature p)
      p.Gamma 5 2 c a 0 α β r t = 0 := by
  rw [energyResT_lam0_zero]
  unfold energyHydroT dr dt
  rw [(Cog21.L1.temperature_hasDerivAt_t p r t).deriv, (Cog21.L1.temperature_hasDerivAt_r p r t).deriv,
    (Cog21.L1.velocity_hasDerivAt_r p r t).deriv]
  simp only [epv_deriv, epv_leaf]
  ring

/-! ### leaf 2: ahead of the shock -/

theorem cog21_pre_mass (p : Cog21.P) (r t : ℝ) (hr : r ≠ 0) (ht : t ≠ 0) :
    massRes (Cog21.L2.density p) (Cog21.L2.velocity p) 2 r t = 0 := by
  unfold massRes dr dt
  rw [(Cog21.L2.density_hasDerivAt_t p r t).deriv, (Cog21.L2.density_hasDerivAt_r p r t (pow_ne_zero 3 hr)).deriv,
    (Cog21.L2.velocity_hasDerivAt_r p r t).deriv]
  simp only [epv_deriv, epv_leaf]
  field_simp
  ring

theorem cog21_pre_momentum (p : Cog21.P) (r t : ℝ) (ht : t ≠ 0) :
    momResT (Cog21.L2.density p) (Cog21.L2.velocity p) (Cog21.L2.temperature p) p.Gamma r t = 0 := by
  unfold momResT dr dt
  rw [(Cog21.L2.velocity_hasDerivAt_t p r t ht).deriv, (Cog21.L2.velocity_hasDerivAt_r p r t).deriv,
    (Cog21.L2.temperature_hasDerivAt_r p r t).deriv]
  simp only [epv_deriv, epv_leaf]
  field_simp
  ring

theorem cog21_pre_energy (p : Cog21.P) (c a lam0 α β r t : ℝ) :
    energyResT (Cog21.L2.density p) (Cog21.L2.velocity p) (Cog21.L2.temperature p)
      p.Gamma 5 2 c a lam0 α β r t = 0 := by
  rw [energyResT_of_T_const_r _ _ _ _ _ _ _ _ _ _ _ _ _ (fun x => by simp only [epv_leaf])]
  unfold energyHydroT dr dt
  rw [(Cog21.L2.temperature_hasDerivAt_t p r t).deriv, (Cog21.L2.temperature_hasDerivAt_r p r t).deriv,
    (Cog21.L2.velocity_hasDerivAt_r p r t).deriv]
  simp only [epv_deriv, epv_leaf]
  ring

end EPV.C01
