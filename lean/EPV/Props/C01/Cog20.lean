/-
C01 — Coggeshall solution 20 (solution 19 with a uniform collapse superposed; a shock
separates two smooth regions).  k = geometry - 1 is an arbitrary real, all other
parameters arbitrary reals; 1 - a t > 0 (before the collapse time) throughout.

* leaf 0 (behind the shock): ρ = ρ₀ ((γ+1)/(γ-1))^{k+1} (1-at)^{-k-1}, u = -a r/(1-at),
  T = u₀² (γ-1) / (2Γ) (1-at)^{-2}.
    - mass, momentum: proved for all parameters.
    - energy: the residual is computed in closed form (`cog20_post_energy_residual`):

          Γ T · a/(1-at) · ( 2/(γ-1) - (k+1) ) .

      It vanishes iff γ = (k+3)/(k+1) (`cog20_post_energy_partial`) — the uniform-collapse
      overlay is a symmetry of the Euler equations only for that adiabatic index, exactly as
      in solutions 6, 7 and 18 whose documentation states γ = (k+3)/(k+1).  The documentation
      of solution 20 lists γ as a *free* parameter and the class default is γ = 1.4 with
      k = 2: there the energy equation is violated (`Finding_cog20_post_energy`, a finding).
* leaf 1 (ahead of the shock): ρ = ρ₀ (1-at)^{-k-1} ((r-u₀t)/r)^k, u = (u₀ - a r)/(1-at), T = 0:
  mass (r > 0, r - u₀ t > 0 for the real power), momentum, energy proved.

The temperature is flat in r on both leaves, so the heat flux vanishes identically and the
statements are about the full `energyResT` with arbitrary c, a, λ₀, α, β.
(The position of the shock itself is the business of C02, not of this file.)
-/
import EPV.Gen.Cog20D
import EPV.Spec.Euler1D
import EPV.Lemmas.Euler1Db
import EPV.Lemmas.HydroRobust
import EPV.Tactics

set_option linter.all false

open EPV EPV.Gen EPV.Spec EPV.Lemmas

open Filter Topology

namespace EPV.C01

/-- the traced model has exactly the leaves the theorems below cover -/
theorem cog20_leaves : Cog20.okLeaves = [0, 1] := rfl

/-! ### leaf 0: behind the shock -/

theorem cog20_post_mass (p : Cog20.P) (r t : ℝ) (hr : r ≠ 0) (h1 : 0 < 1 - p.a * t) :
    massRes (Cog20.L0.density p) (Cog20.L0.velocity p) (p.geometry - 1) r t = 0 := by
  have hq := Real.rpow_pos_of_pos h1 ((p.geometry - 1) + 1)
  unfold massRes dr dt
  epv_hydro_rw_derivs [Cog20.L0.density_hasDerivAt_t p r t, Cog20.L0.density_hasDerivAt_r p r t,
    Cog20.L0.velocity_hasDerivAt_r p r t]
  simp only [epv_deriv, epv_leaf]
  generalize ((1 : ℝ) - p.a * t) ^ ((p.geometry - 1) + 1) = q at hq ⊢
  generalize ((p.gamma + 1) / (p.gamma - 1)) ^ ((p.geometry - 1) + 1) = w
  have h1' := h1.ne'
  field_simp
  ring

theorem cog20_post_momentum (p : Cog20.P) (r t : ℝ) (h1 : 0 < 1 - p.a * t) :
    momResT (Cog20.L0.density p) (Cog20.L0.velocity p) (Cog20.L0.temperature p) p.Gamma r t = 0 := by
  unfold momResT dr dt
  epv_hydro_rw_derivs [Cog20.L0.velocity_hasDerivAt_t p r t, Cog20.L0.velocity_hasDerivAt_r p r t,
    Cog20.L0.density_hasDerivAt_r p r t, Cog20.L0.temperature_hasDerivAt_r p r t]
  simp only [epv_deriv, epv_leaf]
  have h1' := h1.ne'
  field_simp
  ring

/-- the energy residual behind the shock, in closed form, for all parameters -/
theorem cog20_post_energy_residual (p : Cog20.P) (c a lam0 α β r t : ℝ) (hr : r ≠ 0)
    (h1 : 0 < 1 - p.a * t) (hΓ : p.Gamma ≠ 0) (hγ1 : p.gamma - 1 ≠ 0) :
    energyResT (Cog20.L0.density p) (Cog20.L0.velocity p) (Cog20.L0.temperature p)
      p.Gamma p.gamma (p.geometry - 1) c a lam0 α β r t
      = p.Gamma * Cog20.L0.temperature p r t * (p.a / (1 - p.a * t))
          * (2 / (p.gamma - 1) - ((p.geometry - 1) + 1)) := by
  rw [energyResT_of_T_const_r _ _ _ _ _ _ _ _ _ _ _ _ _ (fun x => by simp only [epv_leaf])]
  unfold energyHydroT dr dt
  epv_hydro_rw_derivs [Cog20.L0.temperature_hasDerivAt_t p r t, Cog20.L0.temperature_hasDerivAt_r p r t,
    Cog20.L0.velocity_hasDerivAt_r p r t]
  simp only [epv_deriv, epv_leaf]
  have h1' := h1.ne'
  field_simp
  ring

/-- PARTIAL: the energy equation behind the shock holds when γ = (k+3)/(k+1) (not stated by the
documentation of solution 20, which lists γ as free; for any other γ it is violated, see the
finding below) -/
theorem cog20_post_energy_partial (p : Cog20.P) (c a lam0 α β r t : ℝ) (hr : r ≠ 0)
    (h1 : 0 < 1 - p.a * t) (hΓ : p.Gamma ≠ 0) (hk : (p.geometry - 1) + 1 ≠ 0)
    (hγ : p.gamma = ((p.geometry - 1) + 3) / ((p.geometry - 1) + 1)) :
    energyResT (Cog20.L0.density p) (Cog20.L0.velocity p) (Cog20.L0.temperature p)
      p.Gamma p.gamma (p.geometry - 1) c a lam0 α β r t = 0 := by
  have hγ1 : p.gamma - 1 ≠ 0 := by
    have : p.gamma - 1 = 2 / ((p.geometry - 1) + 1) := by
      rw [hγ]
      field_simp
      ring
    rw [this]
    exact div_ne_zero two_ne_zero hk
  rw [cog20_post_energy_residual p c a lam0 α β r t hr h1 hΓ hγ1]
  have : 2 / (p.gamma - 1) - ((p.geometry - 1) + 1) = 0 := by
    rw [hγ]
    field_simp
    ring
  rw [this, mul_zero]

example : ∃ p : Cog20.P, ∃ r t : ℝ, r ≠ 0 ∧ 0 < 1 - p.a * t ∧ p.Gamma ≠ 0 ∧ (p.geometry - 1) + 1 ≠ 0 ∧
    p.gamma = ((p.geometry - 1) + 3) / ((p.geometry - 1) + 1) :=
  ⟨⟨40, 3 / 10, 0, 0, 0, 0, 5 / 3, 3, 0, 9 / 5, 23 / 10⟩, 1 / 10, 1 / 2, by norm_num, by norm_num,
    by norm_num, by norm_num, by norm_num⟩

/-- FINDING (false on the current tree): at the class defaults (geometry 3, γ = 1.4, ρ₀ = 1.8,
u₀ = 2.3, a = 0.3, Γ = 40), at r = 0.1, t = 0.5 — a point behind the shock (`c0` holds) — the
energy equation is *not* satisfied: the residual is Γ T a/(1-at) (2/(γ-1) - 3) ≠ 0. -/
theorem Finding_cog20_post_energy :
    ∃ p : Cog20.P, ∃ r t : ℝ, p.geometry = 3 ∧ 0 < r ∧ 0 < t ∧ 0 < 1 - p.a * t ∧ Cog20.c0 p r t ∧
      ∀ c a lam0 α β : ℝ,
        energyResT (Cog20.L0.density p) (Cog20.L0.velocity p) (Cog20.L0.temperature p)
          p.Gamma p.gamma (p.geometry - 1) c a lam0 α β r t ≠ 0 := by
  refine ⟨⟨40, 3 / 10, 0, 0, 0, 0, 7 / 5, 3, 0, 9 / 5, 23 / 10⟩, 1 / 10, 1 / 2, by norm_num, by norm_num,
    by norm_num, by norm_num, ?_, ?_⟩
  · simp only [epv_cond]; norm_num
  · intro c a lam0 α β
    rw [cog20_post_energy_residual _ c a lam0 α β _ _ (by norm_num) (by norm_num) (by norm_num) (by norm_num)]
    simp only [epv_leaf]
    norm_num

/-! ### leaf 1: ahead of the shock -/

theorem cog20_pre_mass (p : Cog20.P) (r t : ℝ) (hr : 0 < r) (hb : 0 < r - p.u0 * t)
    (h1 : 0 < 1 - p.a * t) :
    massRes (Cog20.L1.density p) (Cog20.L1.velocity p) (p.geometry - 1) r t = 0 := by
  have hq := Real.rpow_pos_of_pos h1 ((p.geometry - 1) + 1)
  have hb' : 0 < (r - p.u0 * t) / r := div_pos hb hr
  have hw := Real.rpow_pos_of_pos hb' (p.geometry - 1)
  unfold massRes dr dt
  epv_hydro_rw_derivs [Cog20.L1.density_hasDerivAt_t p r t, Cog20.L1.density_hasDerivAt_r p r t,
    Cog20.L1.velocity_hasDerivAt_r p r t]
  simp only [epv_deriv, epv_leaf]
  generalize ((1 : ℝ) - p.a * t) ^ ((p.geometry - 1) + 1) = q at hq ⊢
  generalize ((r - p.u0 * t) / r) ^ (p.geometry - 1) = w at hw ⊢
  have h1' := h1.ne'
  have hb'' := hb.ne'
  have hb3 : r - t * p.u0 ≠ 0 := by rwa [mul_comm t]
  field_simp
  ring

example : ∃ p : Cog20.P, ∃ r t : ℝ, 0 < r ∧ 0 < r - p.u0 * t ∧ 0 < 1 - p.a * t :=
  ⟨⟨40, 3 / 10, 0, 0, 0, 0, 7 / 5, 3, 0, 9 / 5, 23 / 10⟩, 2, 1 / 2, by norm_num, by norm_num, by norm_num⟩

theorem cog20_pre_momentum (p : Cog20.P) (r t : ℝ) (h1 : 0 < 1 - p.a * t) :
    momResT (Cog20.L1.density p) (Cog20.L1.velocity p) (Cog20.L1.temperature p) p.Gamma r t = 0 := by
  unfold momResT dr dt
  epv_hydro_rw_derivs [Cog20.L1.velocity_hasDerivAt_t p r t, Cog20.L1.velocity_hasDerivAt_r p r t,
    Cog20.L1.temperature_hasDerivAt_r p r t]
  simp only [epv_deriv, epv_leaf]
  have h1' := h1.ne'
  field_simp
  ring

theorem cog20_pre_energy (p : Cog20.P) (c a lam0 α β r t : ℝ) :
    energyResT (Cog20.L1.density p) (Cog20.L1.velocity p) (Cog20.L1.temperature p)
      p.Gamma p.gamma (p.geometry - 1) c a lam0 α β r t = 0 := by
  rw [energyResT_of_T_const_r _ _ _ _ _ _ _ _ _ _ _ _ _ (fun x => by simp only [epv_leaf])]
  unfold energyHydroT dr dt
  epv_hydro_rw_derivs [Cog20.L1.temperature_hasDerivAt_t p r t, Cog20.L1.temperature_hasDerivAt_r p r t,
    Cog20.L1.velocity_hasDerivAt_r p r t]
  simp only [epv_deriv, epv_leaf]
  ring

/-! ### The returned (tree-level) fields away from the shock -/

/-- the coded shock position of solution 20 (whether it is the right one is C02's business) -/
noncomputable def cog20_shock (p : Cog20.P) (t : ℝ) : ℝ :=
  (((p.u0 * (p.gamma - 1)) / (4 * p.a)) * t) * (1 - (2 * p.a) * t) / (1 - p.a * t)

theorem cog20_shock_continuousAt (p : Cog20.P) (t : ℝ) (h1 : 1 - p.a * t ≠ 0) :
    ContinuousAt (cog20_shock p) t := by
  unfold cog20_shock
  exact ContinuousAt.div (by fun_prop) (by fun_prop) h1

/-- behind the coded shock the returned fields are those of leaf 0 near the point -/
theorem cog20_tree_post (p : Cog20.P) (r t : ℝ) (h1 : 1 - p.a * t ≠ 0) (h : r < cog20_shock p t) :
    AgreeNear (Cog20.density p) (Cog20.L0.density p) r t
      ∧ AgreeNear (Cog20.velocity p) (Cog20.L0.velocity p) r t
      ∧ AgreeNear (Cog20.temperature p) (Cog20.L0.temperature p) r t := by
  have e : ∀ x s, Cog20.c0 p x s ↔ x < cog20_shock p s := by
    intro x s; simp only [epv_cond, cog20_shock]
  have hx : ∀ᶠ x in 𝓝 r, Cog20.c0 p x t := by
    simp only [e]; exact eventually_lt_nhds h
  have hs : ∀ᶠ s in 𝓝 t, Cog20.c0 p r s := by
    simp only [e]
    exact continuousAt_const.eventually_lt (cog20_shock_continuousAt p t h1) h
  exact ⟨agreeNear_of_cond (fun x s hc => by simp only [epv_tree, if_pos hc]) hx hs,
    agreeNear_of_cond (fun x s hc => by simp only [epv_tree, if_pos hc]) hx hs,
    agreeNear_of_cond (fun x s hc => by simp only [epv_tree, if_pos hc]) hx hs⟩

/-- ahead of the coded shock the returned fields are those of leaf 1 near the point -/
theorem cog20_tree_pre (p : Cog20.P) (r t : ℝ) (h1 : 1 - p.a * t ≠ 0) (h : cog20_shock p t < r) :
    AgreeNear (Cog20.density p) (Cog20.L1.density p) r t
      ∧ AgreeNear (Cog20.velocity p) (Cog20.L1.velocity p) r t
      ∧ AgreeNear (Cog20.temperature p) (Cog20.L1.temperature p) r t := by
  have e : ∀ x s, Cog20.c0 p x s ↔ x < cog20_shock p s := by
    intro x s; simp only [epv_cond, cog20_shock]
  have hx : ∀ᶠ x in 𝓝 r, ¬ Cog20.c0 p x t := by
    simp only [e, not_lt]
    exact (eventually_gt_nhds h).mono fun x hx => hx.le
  have hs : ∀ᶠ s in 𝓝 t, ¬ Cog20.c0 p r s := by
    simp only [e, not_lt]
    exact ((cog20_shock_continuousAt p t h1).eventually_lt continuousAt_const h).mono fun s hs => hs.le
  exact ⟨agreeNear_of_cond (c := fun x s => ¬ Cog20.c0 p x s) (fun x s hc => by simp only [epv_tree, if_neg hc]) hx hs,
    agreeNear_of_cond (c := fun x s => ¬ Cog20.c0 p x s) (fun x s hc => by simp only [epv_tree, if_neg hc]) hx hs,
    agreeNear_of_cond (c := fun x s => ¬ Cog20.c0 p x s) (fun x s hc => by simp only [epv_tree, if_neg hc]) hx hs⟩

/-- mass balance of the returned fields at every point away from the coded shock -/
theorem cog20_mass_tree (p : Cog20.P) (r t : ℝ) (hr : 0 < r) (hb : 0 < r - p.u0 * t)
    (h1 : 0 < 1 - p.a * t) (hsh : r ≠ cog20_shock p t) :
    massRes (Cog20.density p) (Cog20.velocity p) (p.geometry - 1) r t = 0 := by
  rcases lt_or_gt_of_ne hsh with h | h
  · obtain ⟨h2, h3, h4⟩ := cog20_tree_post p r t h1.ne' h
    rw [massRes_congr_near h2 h3]; exact cog20_post_mass p r t hr.ne' h1
  · obtain ⟨h2, h3, h4⟩ := cog20_tree_pre p r t h1.ne' h
    rw [massRes_congr_near h2 h3]; exact cog20_pre_mass p r t hr hb h1

/-- momentum balance of the returned fields at every point away from the coded shock -/
theorem cog20_momentum_tree (p : Cog20.P) (r t : ℝ) (h1 : 0 < 1 - p.a * t) (hsh : r ≠ cog20_shock p t) :
    momResT (Cog20.density p) (Cog20.velocity p) (Cog20.temperature p) p.Gamma r t = 0 := by
  rcases lt_or_gt_of_ne hsh with h | h
  · obtain ⟨h2, h3, h4⟩ := cog20_tree_post p r t h1.ne' h
    rw [momResT_congr_near h2 h3 h4]; exact cog20_post_momentum p r t h1
  · obtain ⟨h2, h3, h4⟩ := cog20_tree_pre p r t h1.ne' h
    rw [momResT_congr_near h2 h3 h4]; exact cog20_pre_momentum p r t h1

/-- PARTIAL: energy balance of the returned fields away from the coded shock, only for
γ = (k+3)/(k+1) (see `cog20_post_energy_partial`) -/
theorem cog20_energy_tree_partial (p : Cog20.P) (c a lam0 α β r t : ℝ) (hr : r ≠ 0)
    (h1 : 0 < 1 - p.a * t) (hΓ : p.Gamma ≠ 0) (hk : (p.geometry - 1) + 1 ≠ 0)
    (hγ : p.gamma = ((p.geometry - 1) + 3) / ((p.geometry - 1) + 1)) (hsh : r ≠ cog20_shock p t) :
    energyResT (Cog20.density p) (Cog20.velocity p) (Cog20.temperature p)
      p.Gamma p.gamma (p.geometry - 1) c a lam0 α β r t = 0 := by
  rcases lt_or_gt_of_ne hsh with h | h
  · obtain ⟨h2, h3, h4⟩ := cog20_tree_post p r t h1.ne' h
    rw [energyResT_congr_near h2 h3 h4]; exact cog20_post_energy_partial p c a lam0 α β r t hr h1 hΓ hk hγ
  · obtain ⟨h2, h3, h4⟩ := cog20_tree_pre p r t h1.ne' h
    rw [energyResT_congr_near h2 h3 h4]; exact cog20_pre_energy p c a lam0 α β r t

/-- FINDING (false on the current tree), for the returned fields themselves: class defaults,
r = 0.1, t = 0.5 (behind the coded shock at 0.3157): the energy residual is not zero -/
theorem Finding_cog20_energy_tree :
    ∃ p : Cog20.P, ∃ r t : ℝ, p.geometry = 3 ∧ 0 < r ∧ 0 < t ∧ 0 < 1 - p.a * t ∧ r ≠ cog20_shock p t ∧
      ∀ c a lam0 α β : ℝ,
        energyResT (Cog20.density p) (Cog20.velocity p) (Cog20.temperature p)
          p.Gamma p.gamma (p.geometry - 1) c a lam0 α β r t ≠ 0 := by
  have hlt : (1 / 10 : ℝ) < cog20_shock ⟨40, 3 / 10, 0, 0, 0, 0, 7 / 5, 3, 0, 9 / 5, 23 / 10⟩ (1 / 2) := by
    unfold cog20_shock; norm_num
  refine ⟨⟨40, 3 / 10, 0, 0, 0, 0, 7 / 5, 3, 0, 9 / 5, 23 / 10⟩, 1 / 10, 1 / 2, by norm_num, by norm_num,
    by norm_num, by norm_num, hlt.ne, ?_⟩
  intro c a lam0 α β
  obtain ⟨h2, h3, h4⟩ := cog20_tree_post _ _ _ (by norm_num) hlt
  rw [energyResT_congr_near h2 h3 h4,
    cog20_post_energy_residual _ c a lam0 α β _ _ (by norm_num) (by norm_num) (by norm_num) (by norm_num)]
  simp only [epv_leaf]
  norm_num

/-- non-vacuity of the hypotheses of the tree-level theorems (class defaults, r = 2, t = 1/2) -/
example : ∃ p : Cog20.P, ∃ r t : ℝ, 0 < r ∧ 0 < r - p.u0 * t ∧ 0 < 1 - p.a * t ∧ r ≠ cog20_shock p t := by
  refine ⟨⟨40, 3 / 10, 0, 0, 0, 0, 7 / 5, 3, 0, 9 / 5, 23 / 10⟩, 2, 1 / 2, by norm_num, by norm_num, by norm_num, ?_⟩
  unfold cog20_shock; norm_num

end EPV.C01
