/-
C01 (Sedov share, growth target closed) — THE SEDOV SIMILARITY FUNCTIONS SOLVE THE SIMILARITY ODEs,
and the fields assembled from them solve the Euler equations behind the shock.

Objects.  `sedov_funcs_standard(v)` gives (λ, f, g, h) parametrically in the similarity velocity v:
generated models SedovFuncs (special_singularity none), SedovFuncsO2 (omega2), SedovFuncsO3 (omega3),
leaf 1 = neither of the two guards `max(1e-30, ·)`, `max(·, 1e-12)` active, with derivative
certificates in v for all four functions.  `_run` evaluates them at the root v(λ) of λ(v) = λ, so as
functions of λ the similarity functions are ANY f, g, h with f(λ(v)) = F(v), g(λ(v)) = G(v),
h(λ(v)) = H(v) near the point (hypotheses `hf hg hh`; the root finding itself is the modelled-not-
verified atom of SedovRunStd/Vac).  The ODE system (`Spec/SedovODE.lean`) is written from the Euler
equations, not from the code.

Proved, for real γ > 1, k > 0, ω < k (the documented domain k ∈ {1,2,3}, 0 ≤ ω < k is inside), v₀
STRICTLY inside the branch of the standard type (v0 < v₀ < v2 when v2 < vstar) or of the vacuum
type (v2 < v₀ < vv when vstar < v2):

  * `sedov_ode_param_{none,omega2,omega3}`: the parametric ODE system — the generated derivative
    expressions dλ/dv, dF/dv, dG/dv, dH/dv (certificates: `…hasDerivAt`) satisfy mass, momentum and
    energy ODE multiplied by dλ/dv;
  * `sedov_dlamdv_ne_{none,omega2,omega3}`: dλ/dv ≠ 0 there (λ strictly increasing on the standard
    branch, strictly decreasing on the vacuum branch), hence λ(v) is locally invertible — PROVED, not
    assumed;
  * `sedov_ode_{none,omega2,omega3}`: `SolvesAt γ k ω f g h (λ(v₀))` — f, g, h are differentiable at
    λ(v₀) and satisfy the three ODEs (inverse function theorem);
  * `sedov_euler_{none,omega2,omega3}`: the assembled fields ρ₂g, u₂f, p₂h, e = p/(γ-1)/ρ at
    λ = r/r2(t) (generated SedovShock) satisfy `massRes = momResP = energyResE = 0` at
    r = λ(v₀) r2(t), every t > 0 (chain rule through λ = r/r2(t): `euler_of_similarity`);
  * `sedov_ode_code_*`: the same with the constants produced by the traced constructor
    (generated SedovConsts: the REAL `__init__` on symbolic parameters), i.e. for the stub the code
    itself hands to `sedov_funcs_standard`;
  * `*_tree`: the tree-level functions (with the guards) coincide with leaf 1 near every point
    where the guards are strictly inactive.

Restrictions that remain (documented, not hidden):
  * the constants are those `__init__` computes (hypothesis `StdConsts`/`O2Consts`/`O3Consts`,
    discharged from the generated SedovConsts by `consts_none/omega2/omega3`);
  * special_singularity none needs denom2 ≠ 0, denom3 ≠ 0 (the code switches branch for |denom| ≤ 1e-4);
  * the omega2 / omega3 closed forms are exact solutions ONLY AT the exactly special ω
    (denom2 = 0 resp. denom3 = 0); the code uses them on the band |denom| ≤ 1e-4 where they are
    approximations (oracle: residual O(band width));
  * the singular solution type (v2 = vstar) has its own closed forms (Props/C11/Sedov.lean);
  * at the end points of the branch (λ = 0 resp. the vacuum boundary, and v = v2: the shock) the
    statement is not made (one-sided there).
-/
import EPV.Lemmas.SedovODEStd
import EPV.Lemmas.SedovODEO2
import EPV.Lemmas.SedovODEO3
import EPV.Lemmas.SedovODEChain
import EPV.Spec.SedovODE
import EPV.Spec.Euler1D

set_option linter.all false
set_option maxRecDepth 100000

open EPV EPV.Gen EPV.Sedov EPV.Spec EPV.Spec.SedovODE Filter Topology

namespace EPV.C01

/-- the traced models have exactly the leaves the theorems name (leaf 1 = unguarded) -/
theorem sedov_ode_leaves : SedovFuncs.okLeaves = [0, 1, 2, 3] ∧ SedovFuncsO2.okLeaves = [0, 1, 2, 3]
    ∧ SedovFuncsO3.okLeaves = [0, 1, 2, 3] := ⟨rfl, rfl, rfl⟩

/-! ### special_singularity none -/

/-- the four power bases are positive strictly inside either branch: the side conditions of the
generated certificates hold -/
theorem sedov_bases_none {p : SedovFuncs.P} {γ k ω v : ℝ} (hC : StdConsts p γ k ω)
    (I : StdInterior γ k ω v ∨ VacInterior γ k ω v) :
    0 < p.a_val * v ∧ 0 < p.b_val * (p.c_val * v - 1) ∧ 0 < p.d_val * (1 - p.e_val * v)
      ∧ 0 < p.b_val * (1 - 1 / 2 * p.xg2 * v) := by
  have B := Std.bases hC (Std.signs_of_interior I)
  exact ⟨B.x1, B.x2, B.x3, B.x4⟩

/-- **parametric ODE system** on the generated model: (dλ/dv, dF/dv, dG/dv, dH/dv) are the generated
derivative expressions, they ARE the derivatives, and they satisfy the three ODEs -/
theorem sedov_ode_param_none {p : SedovFuncs.P} {γ k ω v : ℝ} (hC : StdConsts p γ k ω)
    (I : StdInterior γ k ω v ∨ VacInterior γ k ω v) (hd2 : K.denom2 γ k ω ≠ 0) (hd3 : K.denom3 γ k ω ≠ 0) :
    (HasDerivAt (SedovFuncs.L1.l_fun p) (SedovFuncs.L1.l_fun_dv p v) v ∧
     HasDerivAt (SedovFuncs.L1.f_fun p) (SedovFuncs.L1.f_fun_dv p v) v ∧
     HasDerivAt (SedovFuncs.L1.g_fun p) (SedovFuncs.L1.g_fun_dv p v) v ∧
     HasDerivAt (SedovFuncs.L1.h_fun p) (SedovFuncs.L1.h_fun_dv p v) v) ∧
    massODEv γ k ω (SedovFuncs.L1.l_fun p v) (SedovFuncs.L1.f_fun p v) (SedovFuncs.L1.g_fun p v)
      (SedovFuncs.L1.l_fun_dv p v) (SedovFuncs.L1.f_fun_dv p v) (SedovFuncs.L1.g_fun_dv p v) = 0 ∧
    momODEv γ k ω (SedovFuncs.L1.l_fun p v) (SedovFuncs.L1.f_fun p v) (SedovFuncs.L1.g_fun p v)
      (SedovFuncs.L1.l_fun_dv p v) (SedovFuncs.L1.f_fun_dv p v) (SedovFuncs.L1.h_fun_dv p v) = 0 ∧
    energyODEv γ k ω (SedovFuncs.L1.l_fun p v) (SedovFuncs.L1.f_fun p v) (SedovFuncs.L1.g_fun p v)
      (SedovFuncs.L1.h_fun p v) (SedovFuncs.L1.l_fun_dv p v) (SedovFuncs.L1.f_fun_dv p v)
      (SedovFuncs.L1.g_fun_dv p v) (SedovFuncs.L1.h_fun_dv p v) = 0 := by
  have S := Std.signs_of_interior I
  exact ⟨Std.hasDerivAt p v (Std.bases hC S), Std.mass_ode hC S hd2 hd3, Std.mom_ode hC S hd2 hd3,
    Std.energy_ode hC S hd2 hd3⟩

/-- the generated derivative of λ is the coded `dlamdv` (wp sedov: `SedovFuncs_dlamdv`), and it does
not vanish strictly inside the branch: λ(v) is locally invertible -/
theorem sedov_dlamdv_ne_none {p : SedovFuncs.P} {γ k ω v : ℝ} (hC : StdConsts p γ k ω)
    (I : StdInterior γ k ω v ∨ VacInterior γ k ω v) (hd2 : K.denom2 γ k ω ≠ 0) (hd3 : K.denom3 γ k ω ≠ 0) :
    SedovFuncs.L1.dlamdv p v = SedovFuncs.L1.l_fun_dv p v ∧ SedovFuncs.L1.dlamdv p v ≠ 0 := by
  have B := Std.bases hC (Std.signs_of_interior I)
  have e : SedovFuncs.L1.dlamdv p v = SedovFuncs.L1.l_fun_dv p v := by
    rw [Std.l_dv p v B]
    simp only [epv_semi_leaf, Alg.sL]
    have h1 := B.x1.ne'; have h2 := B.x2.ne'; have h3 := B.x3.ne'
    have h4 : p.a_val ≠ 0 := left_ne_zero_of_mul h1
    have h5 : p.b_val ≠ 0 := left_ne_zero_of_mul h2
    have h6 : p.d_val ≠ 0 := left_ne_zero_of_mul h3
    have h7 : v ≠ 0 := right_ne_zero_of_mul h1
    have h8 : p.c_val * v - 1 ≠ 0 := right_ne_zero_of_mul h2
    have h9 : 1 - p.e_val * v ≠ 0 := right_ne_zero_of_mul h3
    generalize hD2 : p.c_val * v - 1 = D2 at *
    generalize hD3 : 1 - p.e_val * v = D3 at *
    field_simp
    ring
  exact ⟨e, by rw [e]; exact Std.l_dv_ne hC I hd2 hd3⟩

/-- λ is strictly increasing in v on the standard branch, strictly decreasing on the vacuum branch -/
theorem sedov_dlamdv_sign_none {p : SedovFuncs.P} {γ k ω v : ℝ} (hC : StdConsts p γ k ω)
    (hd2 : K.denom2 γ k ω ≠ 0) (hd3 : K.denom3 γ k ω ≠ 0) :
    (StdInterior γ k ω v → 0 < SedovFuncs.L1.l_fun_dv p v) ∧ (VacInterior γ k ω v → SedovFuncs.L1.l_fun_dv p v < 0) :=
  ⟨fun I => Std.l_dv_pos hC I hd2 hd3, fun I => Std.l_dv_neg hC I hd2 hd3⟩

/-- **C01 growth target, special_singularity none**: the similarity functions solve the similarity ODEs -/
theorem sedov_ode_none {p : SedovFuncs.P} {γ k ω v₀ : ℝ} (hC : StdConsts p γ k ω)
    (I : StdInterior γ k ω v₀ ∨ VacInterior γ k ω v₀)
    (hd2 : K.denom2 γ k ω ≠ 0) (hd3 : K.denom3 γ k ω ≠ 0) (f g h : ℝ → ℝ)
    (hf : ∀ᶠ v in 𝓝 v₀, f (SedovFuncs.L1.l_fun p v) = SedovFuncs.L1.f_fun p v)
    (hg : ∀ᶠ v in 𝓝 v₀, g (SedovFuncs.L1.l_fun p v) = SedovFuncs.L1.g_fun p v)
    (hh : ∀ᶠ v in 𝓝 v₀, h (SedovFuncs.L1.l_fun p v) = SedovFuncs.L1.h_fun p v) :
    SolvesAt γ k ω f g h (SedovFuncs.L1.l_fun p v₀) :=
  Std.solvesAt hC I hd2 hd3 f g h hf hg hh

/-- **PDE level**: the returned fields satisfy the Euler equations at r = λ(v₀) r2(t), every t > 0 -/
theorem sedov_euler_none (q : SedovShock.P) (kn : ℕ) (A : Admissible q kn) {p : SedovFuncs.P} {v₀ : ℝ}
    (hC : StdConsts p q.gamma q.geometry q.omega)
    (I : StdInterior q.gamma q.geometry q.omega v₀ ∨ VacInterior q.gamma q.geometry q.omega v₀)
    (hd2 : K.denom2 q.gamma q.geometry q.omega ≠ 0) (hd3 : K.denom3 q.gamma q.geometry q.omega ≠ 0) (f g h : ℝ → ℝ)
    (hf : ∀ᶠ v in 𝓝 v₀, f (SedovFuncs.L1.l_fun p v) = SedovFuncs.L1.f_fun p v)
    (hg : ∀ᶠ v in 𝓝 v₀, g (SedovFuncs.L1.l_fun p v) = SedovFuncs.L1.g_fun p v)
    (hh : ∀ᶠ v in 𝓝 v₀, h (SedovFuncs.L1.l_fun p v) = SedovFuncs.L1.h_fun p v) {t : ℝ} (ht : 0 < t) :
    massRes (ρF q g) (uF q f) (q.geometry - 1) (SedovFuncs.L1.l_fun p v₀ * SedovShock.r2 q t) t = 0 ∧
    momResP (ρF q g) (uF q f) (pF q h) (SedovFuncs.L1.l_fun p v₀ * SedovShock.r2 q t) t = 0 ∧
    energyResE (ρF q g) (uF q f) (pF q h) (eF q g h) (q.geometry - 1)
      (SedovFuncs.L1.l_fun p v₀ * SedovShock.r2 q t) t = 0 := by
  have B := Std.bases hC (Std.signs_of_interior I)
  refine euler_of_solvesAt A f g h (sedov_ode_none hC I hd2 hd3 f g h hf hg hh) (Std.l_pos p v₀ B) ?_ ht
  rw [hg.self_of_nhds]; exact (Std.g_pos p v₀ B).ne'

/-! ### special_singularity omega2 (exactly special ω) -/

theorem sedov_ode_param_omega2 {p : SedovFuncsO2.P} {γ k ω v : ℝ} (hC : O2Consts p γ k ω)
    (I : StdInterior γ k ω v ∨ VacInterior γ k ω v) (hω2 : K.denom2 γ k ω = 0) :
    (HasDerivAt (SedovFuncsO2.L1.l_fun p) (SedovFuncsO2.L1.l_fun_dv p v) v ∧
     HasDerivAt (SedovFuncsO2.L1.f_fun p) (SedovFuncsO2.L1.f_fun_dv p v) v ∧
     HasDerivAt (SedovFuncsO2.L1.g_fun p) (SedovFuncsO2.L1.g_fun_dv p v) v ∧
     HasDerivAt (SedovFuncsO2.L1.h_fun p) (SedovFuncsO2.L1.h_fun_dv p v) v) ∧
    massODEv γ k ω (SedovFuncsO2.L1.l_fun p v) (SedovFuncsO2.L1.f_fun p v) (SedovFuncsO2.L1.g_fun p v)
      (SedovFuncsO2.L1.l_fun_dv p v) (SedovFuncsO2.L1.f_fun_dv p v) (SedovFuncsO2.L1.g_fun_dv p v) = 0 ∧
    momODEv γ k ω (SedovFuncsO2.L1.l_fun p v) (SedovFuncsO2.L1.f_fun p v) (SedovFuncsO2.L1.g_fun p v)
      (SedovFuncsO2.L1.l_fun_dv p v) (SedovFuncsO2.L1.f_fun_dv p v) (SedovFuncsO2.L1.h_fun_dv p v) = 0 ∧
    energyODEv γ k ω (SedovFuncsO2.L1.l_fun p v) (SedovFuncsO2.L1.f_fun p v) (SedovFuncsO2.L1.g_fun p v)
      (SedovFuncsO2.L1.h_fun p v) (SedovFuncsO2.L1.l_fun_dv p v) (SedovFuncsO2.L1.f_fun_dv p v)
      (SedovFuncsO2.L1.g_fun_dv p v) (SedovFuncsO2.L1.h_fun_dv p v) = 0 := by
  have S := (Std.signs_of_interior I).toO2
  exact ⟨O2.hasDerivAt p v (O2.bases hC S hω2), O2.mass_ode hC S hω2, O2.mom_ode hC S hω2, O2.energy_ode hC S hω2⟩

/-- dλ/dv < 0 strictly inside the branch (the omega2 exponent is of vacuum type) -/
theorem sedov_dlamdv_ne_omega2 {p : SedovFuncsO2.P} {γ k ω v : ℝ} (hC : O2Consts p γ k ω)
    (I : StdInterior γ k ω v ∨ VacInterior γ k ω v) (hω2 : K.denom2 γ k ω = 0) :
    SedovFuncsO2.L1.l_fun_dv p v < 0 :=
  O2.l_dv_neg hC (Std.signs_of_interior I).toO2 hω2

theorem sedov_ode_omega2 {p : SedovFuncsO2.P} {γ k ω v₀ : ℝ} (hC : O2Consts p γ k ω)
    (I : StdInterior γ k ω v₀ ∨ VacInterior γ k ω v₀) (hω2 : K.denom2 γ k ω = 0) (f g h : ℝ → ℝ)
    (hf : ∀ᶠ v in 𝓝 v₀, f (SedovFuncsO2.L1.l_fun p v) = SedovFuncsO2.L1.f_fun p v)
    (hg : ∀ᶠ v in 𝓝 v₀, g (SedovFuncsO2.L1.l_fun p v) = SedovFuncsO2.L1.g_fun p v)
    (hh : ∀ᶠ v in 𝓝 v₀, h (SedovFuncsO2.L1.l_fun p v) = SedovFuncsO2.L1.h_fun p v) :
    SolvesAt γ k ω f g h (SedovFuncsO2.L1.l_fun p v₀) :=
  O2.solvesAt hC I hω2 f g h hf hg hh

theorem sedov_euler_omega2 (q : SedovShock.P) (kn : ℕ) (A : Admissible q kn) {p : SedovFuncsO2.P} {v₀ : ℝ}
    (hC : O2Consts p q.gamma q.geometry q.omega)
    (I : StdInterior q.gamma q.geometry q.omega v₀ ∨ VacInterior q.gamma q.geometry q.omega v₀)
    (hω2 : K.denom2 q.gamma q.geometry q.omega = 0) (f g h : ℝ → ℝ)
    (hf : ∀ᶠ v in 𝓝 v₀, f (SedovFuncsO2.L1.l_fun p v) = SedovFuncsO2.L1.f_fun p v)
    (hg : ∀ᶠ v in 𝓝 v₀, g (SedovFuncsO2.L1.l_fun p v) = SedovFuncsO2.L1.g_fun p v)
    (hh : ∀ᶠ v in 𝓝 v₀, h (SedovFuncsO2.L1.l_fun p v) = SedovFuncsO2.L1.h_fun p v) {t : ℝ} (ht : 0 < t) :
    massRes (ρF q g) (uF q f) (q.geometry - 1) (SedovFuncsO2.L1.l_fun p v₀ * SedovShock.r2 q t) t = 0 ∧
    momResP (ρF q g) (uF q f) (pF q h) (SedovFuncsO2.L1.l_fun p v₀ * SedovShock.r2 q t) t = 0 ∧
    energyResE (ρF q g) (uF q f) (pF q h) (eF q g h) (q.geometry - 1)
      (SedovFuncsO2.L1.l_fun p v₀ * SedovShock.r2 q t) t = 0 := by
  have B := O2.bases hC (Std.signs_of_interior I).toO2 hω2
  refine euler_of_solvesAt A f g h (sedov_ode_omega2 hC I hω2 f g h hf hg hh) (O2.l_pos p v₀ B) ?_ ht
  rw [hg.self_of_nhds]; exact (O2.g_pos p v₀ B).ne'

/-! ### special_singularity omega3 (exactly special ω) -/

theorem sedov_ode_param_omega3 {p : SedovFuncsO3.P} {γ k ω v : ℝ} (hC : O3Consts p γ k ω)
    (I : StdInterior γ k ω v ∨ VacInterior γ k ω v) (hω3 : K.denom3 γ k ω = 0) :
    (HasDerivAt (SedovFuncsO3.L1.l_fun p) (SedovFuncsO3.L1.l_fun_dv p v) v ∧
     HasDerivAt (SedovFuncsO3.L1.f_fun p) (SedovFuncsO3.L1.f_fun_dv p v) v ∧
     HasDerivAt (SedovFuncsO3.L1.g_fun p) (SedovFuncsO3.L1.g_fun_dv p v) v ∧
     HasDerivAt (SedovFuncsO3.L1.h_fun p) (SedovFuncsO3.L1.h_fun_dv p v) v) ∧
    massODEv γ k ω (SedovFuncsO3.L1.l_fun p v) (SedovFuncsO3.L1.f_fun p v) (SedovFuncsO3.L1.g_fun p v)
      (SedovFuncsO3.L1.l_fun_dv p v) (SedovFuncsO3.L1.f_fun_dv p v) (SedovFuncsO3.L1.g_fun_dv p v) = 0 ∧
    momODEv γ k ω (SedovFuncsO3.L1.l_fun p v) (SedovFuncsO3.L1.f_fun p v) (SedovFuncsO3.L1.g_fun p v)
      (SedovFuncsO3.L1.l_fun_dv p v) (SedovFuncsO3.L1.f_fun_dv p v) (SedovFuncsO3.L1.h_fun_dv p v) = 0 ∧
    energyODEv γ k ω (SedovFuncsO3.L1.l_fun p v) (SedovFuncsO3.L1.f_fun p v) (SedovFuncsO3.L1.g_fun p v)
      (SedovFuncsO3.L1.h_fun p v) (SedovFuncsO3.L1.l_fun_dv p v) (SedovFuncsO3.L1.f_fun_dv p v)
      (SedovFuncsO3.L1.g_fun_dv p v) (SedovFuncsO3.L1.h_fun_dv p v) = 0 := by
  have S := (Std.signs_of_interior I).toO2
  exact ⟨O3.hasDerivAt p v (O3.bases hC S), O3.mass_ode hC S hω3, O3.mom_ode hC S hω3, O3.energy_ode hC S hω3⟩

/-- dλ/dv > 0 strictly inside the branch (the omega3 exponent is of standard type) -/
theorem sedov_dlamdv_ne_omega3 {p : SedovFuncsO3.P} {γ k ω v : ℝ} (hC : O3Consts p γ k ω)
    (I : StdInterior γ k ω v ∨ VacInterior γ k ω v) (hω3 : K.denom3 γ k ω = 0) :
    0 < SedovFuncsO3.L1.l_fun_dv p v :=
  O3.l_dv_pos hC (Std.signs_of_interior I).toO2 hω3

theorem sedov_ode_omega3 {p : SedovFuncsO3.P} {γ k ω v₀ : ℝ} (hC : O3Consts p γ k ω)
    (I : StdInterior γ k ω v₀ ∨ VacInterior γ k ω v₀) (hω3 : K.denom3 γ k ω = 0) (f g h : ℝ → ℝ)
    (hf : ∀ᶠ v in 𝓝 v₀, f (SedovFuncsO3.L1.l_fun p v) = SedovFuncsO3.L1.f_fun p v)
    (hg : ∀ᶠ v in 𝓝 v₀, g (SedovFuncsO3.L1.l_fun p v) = SedovFuncsO3.L1.g_fun p v)
    (hh : ∀ᶠ v in 𝓝 v₀, h (SedovFuncsO3.L1.l_fun p v) = SedovFuncsO3.L1.h_fun p v) :
    SolvesAt γ k ω f g h (SedovFuncsO3.L1.l_fun p v₀) :=
  O3.solvesAt hC I hω3 f g h hf hg hh

theorem sedov_euler_omega3 (q : SedovShock.P) (kn : ℕ) (A : Admissible q kn) {p : SedovFuncsO3.P} {v₀ : ℝ}
    (hC : O3Consts p q.gamma q.geometry q.omega)
    (I : StdInterior q.gamma q.geometry q.omega v₀ ∨ VacInterior q.gamma q.geometry q.omega v₀)
    (hω3 : K.denom3 q.gamma q.geometry q.omega = 0) (f g h : ℝ → ℝ)
    (hf : ∀ᶠ v in 𝓝 v₀, f (SedovFuncsO3.L1.l_fun p v) = SedovFuncsO3.L1.f_fun p v)
    (hg : ∀ᶠ v in 𝓝 v₀, g (SedovFuncsO3.L1.l_fun p v) = SedovFuncsO3.L1.g_fun p v)
    (hh : ∀ᶠ v in 𝓝 v₀, h (SedovFuncsO3.L1.l_fun p v) = SedovFuncsO3.L1.h_fun p v) {t : ℝ} (ht : 0 < t) :
    massRes (ρF q g) (uF q f) (q.geometry - 1) (SedovFuncsO3.L1.l_fun p v₀ * SedovShock.r2 q t) t = 0 ∧
    momResP (ρF q g) (uF q f) (pF q h) (SedovFuncsO3.L1.l_fun p v₀ * SedovShock.r2 q t) t = 0 ∧
    energyResE (ρF q g) (uF q f) (pF q h) (eF q g h) (q.geometry - 1)
      (SedovFuncsO3.L1.l_fun p v₀ * SedovShock.r2 q t) t = 0 := by
  have B := O3.bases hC (Std.signs_of_interior I).toO2
  refine euler_of_solvesAt A f g h (sedov_ode_omega3 hC I hω3 f g h hf hg hh) (O3.l_pos p v₀ B) ?_ ht
  rw [hg.self_of_nhds]; exact (O3.g_pos p v₀ B).ne'

/-! ### With the constants of the traced constructor (generated model SedovConsts) -/

/-- special_singularity none, the code's own constants: for every accepted parameter set with γ > 1
whose constructor path has special_singularity none (`¬c9 ∧ ¬c12`: |denom2|, |denom3| > 1e-4) -/
theorem sedov_ode_code_none (q : SedovConsts.P) (A : AcceptedC q) (h9 : ¬ SedovConsts.c9 q) (h12 : ¬ SedovConsts.c12 q)
    {v₀ : ℝ} (I : StdInterior q.gamma q.geometry q.omega v₀ ∨ VacInterior q.gamma q.geometry q.omega v₀)
    (f g h : ℝ → ℝ)
    (hf : ∀ᶠ v in 𝓝 v₀, f (SedovFuncs.L1.l_fun (stdFuncs q) v) = SedovFuncs.L1.f_fun (stdFuncs q) v)
    (hg : ∀ᶠ v in 𝓝 v₀, g (SedovFuncs.L1.l_fun (stdFuncs q) v) = SedovFuncs.L1.g_fun (stdFuncs q) v)
    (hh : ∀ᶠ v in 𝓝 v₀, h (SedovFuncs.L1.l_fun (stdFuncs q) v) = SedovFuncs.L1.h_fun (stdFuncs q) v) :
    SolvesAt q.gamma q.geometry q.omega f g h (SedovFuncs.L1.l_fun (stdFuncs q) v₀) := by
  have hd2 : K.denom2 q.gamma q.geometry q.omega ≠ 0 := by
    intro h0; apply h9; rw [consts_c9, h0, abs_zero]; norm_num
  have hd3 : K.denom3 q.gamma q.geometry q.omega ≠ 0 := by
    intro h0; apply h12; rw [consts_c12, h0, abs_zero]; norm_num
  exact sedov_ode_none (consts_none q A h9 h12) I hd2 hd3 f g h hf hg hh

/-- special_singularity omega2, the code's own constants, at the exactly special ω -/
theorem sedov_ode_code_omega2 (q : SedovConsts.P) (A : AcceptedC q) (hω2 : K.denom2 q.gamma q.geometry q.omega = 0)
    {v₀ : ℝ} (I : StdInterior q.gamma q.geometry q.omega v₀ ∨ VacInterior q.gamma q.geometry q.omega v₀)
    (f g h : ℝ → ℝ)
    (hf : ∀ᶠ v in 𝓝 v₀, f (SedovFuncsO2.L1.l_fun (o2Funcs q) v) = SedovFuncsO2.L1.f_fun (o2Funcs q) v)
    (hg : ∀ᶠ v in 𝓝 v₀, g (SedovFuncsO2.L1.l_fun (o2Funcs q) v) = SedovFuncsO2.L1.g_fun (o2Funcs q) v)
    (hh : ∀ᶠ v in 𝓝 v₀, h (SedovFuncsO2.L1.l_fun (o2Funcs q) v) = SedovFuncsO2.L1.h_fun (o2Funcs q) v) :
    SolvesAt q.gamma q.geometry q.omega f g h (SedovFuncsO2.L1.l_fun (o2Funcs q) v₀) := by
  have h9 : SedovConsts.c9 q := by rw [consts_c9, hω2, abs_zero]; norm_num
  exact sedov_ode_omega2 (consts_omega2 q A h9) I hω2 f g h hf hg hh

/-- special_singularity omega3, the code's own constants, at the exactly special ω (the omega2 test
comes first in the code: it must fail) -/
theorem sedov_ode_code_omega3 (q : SedovConsts.P) (A : AcceptedC q) (h9 : ¬ SedovConsts.c9 q)
    (hω3 : K.denom3 q.gamma q.geometry q.omega = 0)
    {v₀ : ℝ} (I : StdInterior q.gamma q.geometry q.omega v₀ ∨ VacInterior q.gamma q.geometry q.omega v₀)
    (f g h : ℝ → ℝ)
    (hf : ∀ᶠ v in 𝓝 v₀, f (SedovFuncsO3.L1.l_fun (o3Funcs q) v) = SedovFuncsO3.L1.f_fun (o3Funcs q) v)
    (hg : ∀ᶠ v in 𝓝 v₀, g (SedovFuncsO3.L1.l_fun (o3Funcs q) v) = SedovFuncsO3.L1.g_fun (o3Funcs q) v)
    (hh : ∀ᶠ v in 𝓝 v₀, h (SedovFuncsO3.L1.l_fun (o3Funcs q) v) = SedovFuncsO3.L1.h_fun (o3Funcs q) v) :
    SolvesAt q.gamma q.geometry q.omega f g h (SedovFuncsO3.L1.l_fun (o3Funcs q) v₀) := by
  have h12 : SedovConsts.c12 q := by rw [consts_c12, hω3, abs_zero]; norm_num
  exact sedov_ode_omega3 (consts_omega3 q A h9 h12) I hω3 f g h hf hg hh

/-! ### Tree level: where the two guards are strictly inactive the returned functions are leaf 1 -/

theorem sedov_tree_none (p : SedovFuncs.P) (v₀ : ℝ) (hc0 : ¬ SedovFuncs.c0 p v₀)
    (hc1 : ((4951760157141521 : ℝ) / 4951760157141521099596496896) < p.b_val * (1 - 1 / 2 * p.xg2 * v₀)) :
    ∀ᶠ v in 𝓝 v₀, SedovFuncs.l_fun p v = SedovFuncs.L1.l_fun p v ∧ SedovFuncs.f_fun p v = SedovFuncs.L1.f_fun p v
      ∧ SedovFuncs.g_fun p v = SedovFuncs.L1.g_fun p v ∧ SedovFuncs.h_fun p v = SedovFuncs.L1.h_fun p v
      ∧ SedovFuncs.dlamdv p v = SedovFuncs.L1.dlamdv p v := by
  have hopen0 : ∀ᶠ w in 𝓝 v₀, ¬ SedovFuncs.c0 p w := by
    simp only [epv_semi_cond, not_le] at hc0 ⊢
    have hcont : Continuous fun w : ℝ => p.c_val * w - 1 := by fun_prop
    exact hcont.continuousAt.eventually (lt_mem_nhds hc0)
  have hopen1 : ∀ᶠ w in 𝓝 v₀, SedovFuncs.c1 p w := by
    simp only [epv_semi_cond]
    have hcont : Continuous fun w : ℝ => p.b_val * (1 - 1 / 2 * p.xg2 * w) := by fun_prop
    exact (hcont.continuousAt.eventually (lt_mem_nhds hc1)).mono fun w hw => hw.le
  filter_upwards [hopen0, hopen1] with w h0 h1
  simp only [epv_tree, h0, h1, if_false, if_true, and_self]

theorem sedov_tree_omega2 (p : SedovFuncsO2.P) (v₀ : ℝ) (hc0 : ¬ SedovFuncsO2.c0 p v₀)
    (hc1 : ((4951760157141521 : ℝ) / 4951760157141521099596496896) < p.b_val * (1 - 1 / 2 * p.xg2 * v₀)) :
    ∀ᶠ v in 𝓝 v₀, SedovFuncsO2.l_fun p v = SedovFuncsO2.L1.l_fun p v ∧ SedovFuncsO2.f_fun p v = SedovFuncsO2.L1.f_fun p v
      ∧ SedovFuncsO2.g_fun p v = SedovFuncsO2.L1.g_fun p v ∧ SedovFuncsO2.h_fun p v = SedovFuncsO2.L1.h_fun p v
      ∧ SedovFuncsO2.dlamdv p v = SedovFuncsO2.L1.dlamdv p v := by
  have hopen0 : ∀ᶠ w in 𝓝 v₀, ¬ SedovFuncsO2.c0 p w := by
    simp only [epv_semi_cond, not_le] at hc0 ⊢
    have hcont : Continuous fun w : ℝ => p.c_val * w - 1 := by fun_prop
    exact hcont.continuousAt.eventually (lt_mem_nhds hc0)
  have hopen1 : ∀ᶠ w in 𝓝 v₀, SedovFuncsO2.c1 p w := by
    simp only [epv_semi_cond]
    have hcont : Continuous fun w : ℝ => p.b_val * (1 - 1 / 2 * p.xg2 * w) := by fun_prop
    exact (hcont.continuousAt.eventually (lt_mem_nhds hc1)).mono fun w hw => hw.le
  filter_upwards [hopen0, hopen1] with w h0 h1
  simp only [epv_tree, h0, h1, if_false, if_true, and_self]

theorem sedov_tree_omega3 (p : SedovFuncsO3.P) (v₀ : ℝ) (hc0 : ¬ SedovFuncsO3.c0 p v₀)
    (hc1 : ((4951760157141521 : ℝ) / 4951760157141521099596496896) < p.b_val * (1 - 1 / 2 * p.xg2 * v₀)) :
    ∀ᶠ v in 𝓝 v₀, SedovFuncsO3.l_fun p v = SedovFuncsO3.L1.l_fun p v ∧ SedovFuncsO3.f_fun p v = SedovFuncsO3.L1.f_fun p v
      ∧ SedovFuncsO3.g_fun p v = SedovFuncsO3.L1.g_fun p v ∧ SedovFuncsO3.h_fun p v = SedovFuncsO3.L1.h_fun p v
      ∧ SedovFuncsO3.dlamdv p v = SedovFuncsO3.L1.dlamdv p v := by
  have hopen0 : ∀ᶠ w in 𝓝 v₀, ¬ SedovFuncsO3.c0 p w := by
    simp only [epv_semi_cond, not_le] at hc0 ⊢
    have hcont : Continuous fun w : ℝ => p.c_val * w - 1 := by fun_prop
    exact hcont.continuousAt.eventually (lt_mem_nhds hc0)
  have hopen1 : ∀ᶠ w in 𝓝 v₀, SedovFuncsO3.c1 p w := by
    simp only [epv_semi_cond]
    have hcont : Continuous fun w : ℝ => p.b_val * (1 - 1 / 2 * p.xg2 * w) := by fun_prop
    exact (hcont.continuousAt.eventually (lt_mem_nhds hc1)).mono fun w hw => hw.le
  filter_upwards [hopen0, hopen1] with w h0 h1
  simp only [epv_tree, h0, h1, if_false, if_true, and_self]

/-- tree-level form of `sedov_ode_none`: f, g, h are tied to the RETURNED functions (with guards) -/
theorem sedov_ode_none_tree {p : SedovFuncs.P} {γ k ω v₀ : ℝ} (hC : StdConsts p γ k ω)
    (I : StdInterior γ k ω v₀ ∨ VacInterior γ k ω v₀)
    (hd2 : K.denom2 γ k ω ≠ 0) (hd3 : K.denom3 γ k ω ≠ 0) (hc0 : ¬ SedovFuncs.c0 p v₀)
    (hc1 : ((4951760157141521 : ℝ) / 4951760157141521099596496896) < p.b_val * (1 - 1 / 2 * p.xg2 * v₀))
    (f g h : ℝ → ℝ)
    (hf : ∀ᶠ v in 𝓝 v₀, f (SedovFuncs.l_fun p v) = SedovFuncs.f_fun p v)
    (hg : ∀ᶠ v in 𝓝 v₀, g (SedovFuncs.l_fun p v) = SedovFuncs.g_fun p v)
    (hh : ∀ᶠ v in 𝓝 v₀, h (SedovFuncs.l_fun p v) = SedovFuncs.h_fun p v) :
    SolvesAt γ k ω f g h (SedovFuncs.l_fun p v₀) := by
  have ht := sedov_tree_none p v₀ hc0 hc1
  rw [ht.self_of_nhds.1]
  refine sedov_ode_none hC I hd2 hd3 f g h ?_ ?_ ?_
  · filter_upwards [ht, hf] with v h1 h2; rw [← h1.1, ← h1.2.1]; exact h2
  · filter_upwards [ht, hg] with v h1 h2; rw [← h1.1, ← h1.2.2.1]; exact h2
  · filter_upwards [ht, hh] with v h1 h2; rw [← h1.1, ← h1.2.2.2.1]; exact h2

/-! ### Non-vacuity

The default spherical problem γ = 7/5, k = 3, ω = 0 at v = 3/10 ∈ (v0, v2) = (2/7, 1/3); the omega2
problem γ = 7/5, k = 3, ω = 19/7 (vacuum type) at v = 4/5 ∈ (v2, vv) = (35/48, 7/8); the omega3 problem
γ = 7/5, k = 3, ω = 9/5 (standard type) at v = 1/2 ∈ (v0, v2) = (25/56, 25/48).  The constants are the
ones `__init__` computes (checked against the real constructor by the tie `o_sedov2.tie_consts`). -/
noncomputable def odeExStd : SedovFuncs.P :=
  { a0 := 2/5, a1 := 173/380, a2 := -2/19, a3 := 15/19, a4 := 865/228, a5 := -10/3, a_val := 3, b_val := 6,
    c_val := 7/2, d_val := 15/7, e_val := 8/5, gamp1 := 12/5, geometry := 3, gpogm := 6, omega := 0, xg2 := 5 }
noncomputable def odeExO2 : SedovFuncsO2.P :=
  { a0 := 7/8, a5 := -9/16, a_val := 48/35, b_val := 6, c_val := 8/5, e_val := 8/5, gamm1 := 2/5, gamma := 7/5,
    gamp1 := 12/5, geometry := 3, gpogm := 6, omega := 19/7, xg2 := 16/7 }
noncomputable def odeExO3 : SedovFuncsO3.P :=
  { a0 := 5/8, a1 := 7/16, a2 := -5/16, a3 := 15/16, a_val := 48/25, b_val := 6, c_val := 56/25, e_val := 8/5,
    gamm1 := 2/5, gamma := 7/5, gamp1 := 12/5, geometry := 3, gpogm := 6, omega := 9/5, xg2 := 16/5 }

example : StdConsts odeExStd (7/5) 3 0 ∧ StdInterior (7/5) 3 0 (3/10) ∧ K.denom2 (7/5) 3 0 ≠ 0 ∧ K.denom3 (7/5) 3 0 ≠ 0 := by
  refine ⟨⟨?_, ?_, ?_, ?_, ?_, ?_, ?_, ?_, ?_, ?_, ?_, ?_, ?_, ?_, ?_, ?_⟩,
    ⟨⟨by norm_num, by norm_num, by norm_num⟩, by norm_num [v2, vstar], by norm_num [v0], by norm_num [v2]⟩,
    by norm_num [K.denom2], by norm_num [K.denom3]⟩ <;>
  norm_num [odeExStd, K.a0, K.a1, K.a2, K.a3, K.a4, K.a5, K.a_val, K.b_val, K.c_val, K.d_val, K.e_val]

example : O2Consts odeExO2 (7/5) 3 (19/7) ∧ VacInterior (7/5) 3 (19/7) (4/5) ∧ K.denom2 (7/5) 3 (19/7) = 0 := by
  refine ⟨⟨?_, ?_, ?_, ?_, ?_, ?_, ?_, ?_, ?_, ?_, ?_, ?_, ?_⟩,
    ⟨⟨by norm_num, by norm_num, by norm_num⟩, by norm_num [v2, vstar], by norm_num [v2], by norm_num [vv]⟩,
    by norm_num [K.denom2]⟩ <;>
  norm_num [odeExO2, K.a0, K.a5, K.a_val, K.b_val, K.c_val, K.e_val]

example : O3Consts odeExO3 (7/5) 3 (9/5) ∧ StdInterior (7/5) 3 (9/5) (1/2) ∧ K.denom3 (7/5) 3 (9/5) = 0 := by
  refine ⟨⟨?_, ?_, ?_, ?_, ?_, ?_, ?_, ?_, ?_, ?_, ?_, ?_, ?_, ?_, ?_⟩,
    ⟨⟨by norm_num, by norm_num, by norm_num⟩, by norm_num [v2, vstar], by norm_num [v0], by norm_num [v2]⟩,
    by norm_num [K.denom3]⟩ <;>
  norm_num [odeExO3, K.a0, K.a1, K.a2, K.a3, K.a_val, K.b_val, K.c_val, K.e_val]

/-- similarity functions of λ with f ∘ λ = F, g ∘ λ = G, h ∘ λ = H near v₀ EXIST wherever dλ/dv ≠ 0
(compose with the local inverse): the hypotheses `hf hg hh` are satisfiable at the default problem -/
example : ∃ f g h : ℝ → ℝ,
    (∀ᶠ v in 𝓝 (3/10 : ℝ), f (SedovFuncs.L1.l_fun odeExStd v) = SedovFuncs.L1.f_fun odeExStd v) ∧
    (∀ᶠ v in 𝓝 (3/10 : ℝ), g (SedovFuncs.L1.l_fun odeExStd v) = SedovFuncs.L1.g_fun odeExStd v) ∧
    (∀ᶠ v in 𝓝 (3/10 : ℝ), h (SedovFuncs.L1.l_fun odeExStd v) = SedovFuncs.L1.h_fun odeExStd v) := by
  have hC : StdConsts odeExStd (7/5) 3 0 := by
    refine ⟨?_, ?_, ?_, ?_, ?_, ?_, ?_, ?_, ?_, ?_, ?_, ?_, ?_, ?_, ?_, ?_⟩ <;>
    norm_num [odeExStd, K.a0, K.a1, K.a2, K.a3, K.a4, K.a5, K.a_val, K.b_val, K.c_val, K.d_val, K.e_val]
  have I : StdInterior (7/5) 3 0 (3/10) :=
    ⟨⟨by norm_num, by norm_num, by norm_num⟩, by norm_num [v2, vstar], by norm_num [v0], by norm_num [v2]⟩
  have B := Std.bases hC I.toSigns
  have hs := Std.l_strict odeExStd (3/10) B
  have hne := Std.l_dv_ne hC (Or.inl I) (by norm_num [K.denom2]) (by norm_num [K.denom3])
  have hli := hs.eventually_left_inverse hne
  refine ⟨fun y => SedovFuncs.L1.f_fun odeExStd (hs.localInverse _ _ _ hne y),
    fun y => SedovFuncs.L1.g_fun odeExStd (hs.localInverse _ _ _ hne y),
    fun y => SedovFuncs.L1.h_fun odeExStd (hs.localInverse _ _ _ hne y), ?_, ?_, ?_⟩ <;>
  · filter_upwards [hli] with v hv
    simp only [hv]

end EPV.C01
