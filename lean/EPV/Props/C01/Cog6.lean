/-
C01 — Coggeshall solution 6 satisfies the documented balance equations of mass,
momentum and energy with the documented adiabatic index γ = (k+3)/(k+1), for
every real geometry factor k = geometry - 1 ≠ -1, every b ≠ -2, ρ₀ ≠ 0, Γ ≠ 0,
τ, at every r > 0 and every t with t² < τ² (the validity interval).

Solution 6 is a pure hydrodynamic solution (free parameters b, k, ρ₀, τ, Γ; no
mean-free-path law), i.e. λ₀ = 0: the energy equation is stated in its
hydrodynamic form (`cog6_energy_hydro`) and as the full documented residual
with λ₀ = 0 and arbitrary c, a, α, β (`cog6_energy`).
-/
import EPV.Gen.Cog6D
import EPV.Spec.Euler1D
import EPV.Lemmas.Euler1D
import EPV.Lemmas.HydroRobust
import EPV.Tactics

set_option linter.all false

open EPV EPV.Gen EPV.Spec Filter Topology

namespace EPV.C01

/-- the traced model has exactly the leaves the theorems below cover -/
theorem cog6_leaves : Cog6.okLeaves = [0] := rfl

theorem cog6_mass (p : Cog6.P) (r t : ℝ) (hr : 0 < r) (hx : 0 < p.tau ^ 2 - t ^ 2) :
    massRes (Cog6.L0.density p) (Cog6.L0.velocity p) (p.geometry - 1) r t = 0 := by
  unfold massRes dr dt
  epv_hydro_rw_derivs [Cog6.L0.density_hasDerivAt_t p r t, Cog6.L0.density_hasDerivAt_r p r t,
    Cog6.L0.velocity_hasDerivAt_r p r t]
  simp only [epv_deriv, epv_leaf]
  epv_hydro_rpow_pos
  field_simp
  ring

theorem cog6_momentum (p : Cog6.P) (r t : ℝ) (hr : 0 < r) (hx : 0 < p.tau ^ 2 - t ^ 2)
    (hΓ : p.Gamma ≠ 0) (hb : p.b + 2 ≠ 0) (hρ : p.rho0 ≠ 0) :
    momResT (Cog6.L0.density p) (Cog6.L0.velocity p) (Cog6.L0.temperature p) p.Gamma r t = 0 := by
  unfold momResT dr dt
  epv_hydro_rw_derivs [Cog6.L0.velocity_hasDerivAt_t p r t, Cog6.L0.velocity_hasDerivAt_r p r t,
    Cog6.L0.density_hasDerivAt_r p r t, Cog6.L0.temperature_hasDerivAt_r p r t]
  simp only [epv_deriv, epv_leaf]
  epv_hydro_rpow_pos
  field_simp
  ring

theorem cog6_energy_hydro (p : Cog6.P) (r t : ℝ) (hr : 0 < r) (hx : 0 < p.tau ^ 2 - t ^ 2)
    (hΓ : p.Gamma ≠ 0) (hb : p.b + 2 ≠ 0) (hk : (p.geometry - 1) + 1 ≠ 0) :
    energyHydroT (Cog6.L0.velocity p) (Cog6.L0.temperature p) p.Gamma
      (((p.geometry - 1) + 3) / ((p.geometry - 1) + 1)) (p.geometry - 1) r t = 0 := by
  unfold energyHydroT dr dt
  epv_hydro_rw_derivs [Cog6.L0.temperature_hasDerivAt_t p r t, Cog6.L0.velocity_hasDerivAt_r p r t,
    Cog6.L0.temperature_hasDerivAt_r p r t]
  simp only [epv_deriv, epv_leaf]
  have hg : ((p.geometry - 1) + 3) / ((p.geometry - 1) + 1) - 1 = 2 / ((p.geometry - 1) + 1) := by
    field_simp
    ring
  rw [hg]
  epv_hydro_rpow_pos
  field_simp
  ring

/-- the documented energy residual with no conduction (λ₀ = 0), any c, a, α, β -/
theorem cog6_energy (p : Cog6.P) (r t : ℝ) (hr : 0 < r) (hx : 0 < p.tau ^ 2 - t ^ 2)
    (hΓ : p.Gamma ≠ 0) (hb : p.b + 2 ≠ 0) (hk : (p.geometry - 1) + 1 ≠ 0) (c a α β : ℝ) :
    energyResT (Cog6.L0.density p) (Cog6.L0.velocity p) (Cog6.L0.temperature p) p.Gamma
      (((p.geometry - 1) + 3) / ((p.geometry - 1) + 1)) (p.geometry - 1) c a 0 α β r t = 0 := by
  rw [energyResT_lam0_zero]
  exact cog6_energy_hydro p r t hr hx hΓ hb hk

/-- non-vacuity: the hypotheses hold at the solver's defaults -/
example : ∃ (p : Cog6.P) (r t : ℝ), 0 < r ∧ 0 < p.tau ^ 2 - t ^ 2 ∧ p.Gamma ≠ 0 ∧ p.b + 2 ≠ 0 ∧ p.rho0 ≠ 0 ∧
    (p.geometry - 1) + 1 ≠ 0 :=
  ⟨{ Gamma := 40, a_rad := 0, alpha_ := 0, b := 6/5, beta_ := 0, c_light := 0, geometry := 3,
     lam0_ := 0, rho0 := 9/5, tau := 5/4 }, 1, 1, by norm_num, by norm_num, by norm_num, by norm_num, by norm_num,
    by norm_num⟩

/-! ### The returned fields (tree level)

The traced decision tree has a single leaf: the returned fields *are* those of leaf 0. -/


theorem cog6_tree (p : Cog6.P) (r t : ℝ) :
    AgreeAt (Cog6.density p) (Cog6.L0.density p) r t
      ∧ AgreeAt (Cog6.velocity p) (Cog6.L0.velocity p) r t
      ∧ AgreeAt (Cog6.temperature p) (Cog6.L0.temperature p) r t := by
  have e : ∀ x s, Cog6.density p x s = Cog6.L0.density p x s
      ∧ Cog6.velocity p x s = Cog6.L0.velocity p x s
      ∧ Cog6.temperature p x s = Cog6.L0.temperature p x s := by
    intro x s
    exact ⟨rfl, rfl, rfl⟩
  exact ⟨⟨fun x => (e x t).1, Filter.Eventually.of_forall fun s => (e r s).1⟩,
    ⟨fun x => (e x t).2.1, Filter.Eventually.of_forall fun s => (e r s).2.1⟩,
    ⟨fun x => (e x t).2.2, Filter.Eventually.of_forall fun s => (e r s).2.2⟩⟩

/-- mass balance of the returned (tree-level) fields -/
theorem cog6_mass_tree (p : Cog6.P) (r t : ℝ) (hr : 0 < r) (hx : 0 < p.tau ^ 2 - t ^ 2) :
    massRes (Cog6.density p) (Cog6.velocity p) (p.geometry - 1) r t = 0 := by
  obtain ⟨hρ', hu', hT'⟩ := cog6_tree p r t
  rw [massRes_congr hρ' hu']
  exact cog6_mass p r t hr hx

/-- momentum balance of the returned (tree-level) fields -/
theorem cog6_momentum_tree (p : Cog6.P) (r t : ℝ) (hr : 0 < r) (hx : 0 < p.tau ^ 2 - t ^ 2)
    (hΓ : p.Gamma ≠ 0) (hb : p.b + 2 ≠ 0) (hρ : p.rho0 ≠ 0) :
    momResT (Cog6.density p) (Cog6.velocity p) (Cog6.temperature p) p.Gamma r t = 0 := by
  obtain ⟨hρ', hu', hT'⟩ := cog6_tree p r t
  rw [momResT_congr hρ' hu' hT']
  exact cog6_momentum p r t hr hx hΓ hb hρ

/-- energy balance of the returned (tree-level) fields -/
theorem cog6_energy_tree (p : Cog6.P) (r t : ℝ) (hr : 0 < r) (hx : 0 < p.tau ^ 2 - t ^ 2)
    (hΓ : p.Gamma ≠ 0) (hb : p.b + 2 ≠ 0) (hk : (p.geometry - 1) + 1 ≠ 0) (c a α β : ℝ) :
    energyResT (Cog6.density p) (Cog6.velocity p) (Cog6.temperature p) p.Gamma (((p.geometry - 1) + 3) / ((p.geometry - 1) + 1))
      (p.geometry - 1) c a 0 α β r t = 0 := by
  obtain ⟨hρ', hu', hT'⟩ := cog6_tree p r t
  rw [energyResT_congr hρ' hu' hT']
  exact cog6_energy p r t hr hx hΓ hb hk c a α β

end EPV.C01
