/-
C01 — Coggeshall solution 2 satisfies the documented balance equations of mass,
momentum and energy for every real geometry factor k = geometry - 1, every
γ, b, ρ₀, Γ for which the documented coefficients are defined
(2 + (γ-1)(k+1) ≠ 0, Γ ≠ 0, b + 2 ≠ 0, γ ≠ 1), at every r > 0, t > 0.

Solution 2 is a pure hydrodynamic solution (free parameters b, k, ρ₀, γ, Γ; no
mean-free-path law), i.e. λ₀ = 0: the energy equation is stated in its
hydrodynamic form (`cog2_energy_hydro`) and as the full documented residual
with λ₀ = 0 and arbitrary c, a, α, β (`cog2_energy`).
-/
import EPV.Gen.Cog2D
import EPV.Spec.Euler1D
import EPV.Lemmas.Euler1D
import EPV.Lemmas.HydroRobust
import EPV.Tactics

set_option linter.all false

open EPV EPV.Gen EPV.Spec Filter Topology

namespace EPV.C01

/-- the traced model has exactly the leaves the theorems below cover -/
theorem cog2_leaves : Cog2.okLeaves = [1] := rfl

theorem cog2_mass (p : Cog2.P) (r t : ℝ) (hr : 0 < r) (ht : 0 < t)
    (hc : 2 + (p.gamma - 1) * ((p.geometry - 1) + 1) ≠ 0) :
    massRes (Cog2.L1.density p) (Cog2.L1.velocity p) (p.geometry - 1) r t = 0 := by
  unfold massRes dr dt
  epv_hydro_rw_derivs [Cog2.L1.density_hasDerivAt_t p r t, Cog2.L1.density_hasDerivAt_r p r t,
    Cog2.L1.velocity_hasDerivAt_r p r t]
  simp only [epv_deriv, epv_leaf]
  epv_hydro_field_simp
  ring

theorem cog2_momentum (p : Cog2.P) (r t : ℝ) (hr : 0 < r) (ht : 0 < t)
    (hc : 2 + (p.gamma - 1) * ((p.geometry - 1) + 1) ≠ 0) (hΓ : p.Gamma ≠ 0) (hb : p.b + 2 ≠ 0)
    (hρ : p.rho0 ≠ 0) :
    momResT (Cog2.L1.density p) (Cog2.L1.velocity p) (Cog2.L1.temperature p) p.Gamma r t = 0 := by
  unfold momResT dr dt
  epv_hydro_rw_derivs [Cog2.L1.velocity_hasDerivAt_t p r t, Cog2.L1.velocity_hasDerivAt_r p r t,
    Cog2.L1.density_hasDerivAt_r p r t, Cog2.L1.temperature_hasDerivAt_r p r t]
  simp only [epv_deriv, epv_leaf]
  epv_hydro_field_simp
  ring

theorem cog2_energy_hydro (p : Cog2.P) (r t : ℝ) (hr : 0 < r) (ht : 0 < t)
    (hc : 2 + (p.gamma - 1) * ((p.geometry - 1) + 1) ≠ 0) (hΓ : p.Gamma ≠ 0) (hb : p.b + 2 ≠ 0)
    (hγ : p.gamma - 1 ≠ 0) :
    energyHydroT (Cog2.L1.velocity p) (Cog2.L1.temperature p) p.Gamma p.gamma (p.geometry - 1) r t = 0 := by
  unfold energyHydroT dr dt
  epv_hydro_rw_derivs [Cog2.L1.temperature_hasDerivAt_t p r t, Cog2.L1.velocity_hasDerivAt_r p r t,
    Cog2.L1.temperature_hasDerivAt_r p r t]
  simp only [epv_deriv, epv_leaf]
  epv_hydro_field_simp
  ring

/-- the documented energy residual with no conduction (λ₀ = 0), any c, a, α, β -/
theorem cog2_energy (p : Cog2.P) (r t : ℝ) (hr : 0 < r) (ht : 0 < t)
    (hc : 2 + (p.gamma - 1) * ((p.geometry - 1) + 1) ≠ 0) (hΓ : p.Gamma ≠ 0) (hb : p.b + 2 ≠ 0)
    (hγ : p.gamma - 1 ≠ 0) (c a α β : ℝ) :
    energyResT (Cog2.L1.density p) (Cog2.L1.velocity p) (Cog2.L1.temperature p) p.Gamma p.gamma
      (p.geometry - 1) c a 0 α β r t = 0 := by
  rw [energyResT_lam0_zero]
  exact cog2_energy_hydro p r t hr ht hc hΓ hb hγ

/-- non-vacuity: the hypotheses hold at the solver's defaults -/
example : ∃ (p : Cog2.P) (r t : ℝ), 0 < r ∧ 0 < t ∧ 2 + (p.gamma - 1) * ((p.geometry - 1) + 1) ≠ 0 ∧
    p.Gamma ≠ 0 ∧ p.b + 2 ≠ 0 ∧ p.rho0 ≠ 0 ∧ p.gamma - 1 ≠ 0 :=
  ⟨{ Gamma := 40, a_rad := 0, alpha_ := 0, b := 6/5, beta_ := 0, c_light := 0, gamma := 7/5, geometry := 3,
     lam0_ := 0, rho0 := 9/5 }, 1, 1, by norm_num, by norm_num, by norm_num, by norm_num, by norm_num,
    by norm_num, by norm_num⟩

/-! ### The returned fields (tree level)

The only path condition is `t ≤ 0` (NaN fields); where the solver returns numbers the returned
fields are those of leaf 1, on the whole line {(x, t)} and for all times near t. -/


theorem cog2_tree (p : Cog2.P) (r t : ℝ) (h : Cog2.outcome p r t = .ok) :
    0 < t ∧ AgreeAt (Cog2.density p) (Cog2.L1.density p) r t
      ∧ AgreeAt (Cog2.velocity p) (Cog2.L1.velocity p) r t
      ∧ AgreeAt (Cog2.temperature p) (Cog2.L1.temperature p) r t := by
  have ht : 0 < t := by
    by_contra hc
    have hc' : t ≤ 0 := not_lt.mp hc
    simp [epv_tree, epv_cond, hc'] at h
  have e : ∀ x s, 0 < s → Cog2.density p x s = Cog2.L1.density p x s
      ∧ Cog2.velocity p x s = Cog2.L1.velocity p x s
      ∧ Cog2.temperature p x s = Cog2.L1.temperature p x s := by
    intro x s hs
    have hns : ¬ s ≤ 0 := not_le.mpr hs
    simp only [epv_tree, epv_cond, hns, if_false, and_self]
  refine ⟨ht, ⟨fun x => (e x t ht).1, ?_⟩, ⟨fun x => (e x t ht).2.1, ?_⟩, ⟨fun x => (e x t ht).2.2, ?_⟩⟩
  · filter_upwards [Ioi_mem_nhds ht] with s hs using (e r s hs).1
  · filter_upwards [Ioi_mem_nhds ht] with s hs using (e r s hs).2.1
  · filter_upwards [Ioi_mem_nhds ht] with s hs using (e r s hs).2.2

/-- mass balance of the returned (tree-level) fields -/
theorem cog2_mass_tree (p : Cog2.P) (r t : ℝ) (h : Cog2.outcome p r t = .ok) (hr : 0 < r) (hc : 2 + (p.gamma - 1) * ((p.geometry - 1) + 1) ≠ 0) :
    massRes (Cog2.density p) (Cog2.velocity p) (p.geometry - 1) r t = 0 := by
  obtain ⟨ht, hρ', hu', hT'⟩ := cog2_tree p r t h
  rw [massRes_congr hρ' hu']
  exact cog2_mass p r t hr ht hc

/-- momentum balance of the returned (tree-level) fields -/
theorem cog2_momentum_tree (p : Cog2.P) (r t : ℝ) (h : Cog2.outcome p r t = .ok) (hr : 0 < r) (hc : 2 + (p.gamma - 1) * ((p.geometry - 1) + 1) ≠ 0) (hΓ : p.Gamma ≠ 0)
    (hb : p.b + 2 ≠ 0) (hρ : p.rho0 ≠ 0) :
    momResT (Cog2.density p) (Cog2.velocity p) (Cog2.temperature p) p.Gamma r t = 0 := by
  obtain ⟨ht, hρ', hu', hT'⟩ := cog2_tree p r t h
  rw [momResT_congr hρ' hu' hT']
  exact cog2_momentum p r t hr ht hc hΓ hb hρ

/-- energy balance of the returned (tree-level) fields -/
theorem cog2_energy_tree (p : Cog2.P) (r t : ℝ) (h : Cog2.outcome p r t = .ok) (hr : 0 < r) (hc : 2 + (p.gamma - 1) * ((p.geometry - 1) + 1) ≠ 0) (hΓ : p.Gamma ≠ 0)
    (hb : p.b + 2 ≠ 0) (hγ : p.gamma - 1 ≠ 0) (c a α β : ℝ) :
    energyResT (Cog2.density p) (Cog2.velocity p) (Cog2.temperature p) p.Gamma p.gamma
      (p.geometry - 1) c a 0 α β r t = 0 := by
  obtain ⟨ht, hρ', hu', hT'⟩ := cog2_tree p r t h
  rw [energyResT_congr hρ' hu' hT']
  exact cog2_energy p r t hr ht hc hΓ hb hγ c a α β

end EPV.C01
