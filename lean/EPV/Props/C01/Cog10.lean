/-
C01 — Coggeshall solution 10 (steady, uniform velocity) satisfies the documented
balance equations of mass, momentum and energy *with* the conduction term
F = -(c λ₀ ρ^α T^β / 3) ∂_r (a T⁴), the documented α = β + 4 - 1/k (k ≠ 0), the
solver's own `lambda0`, `beta` and the radiation constants hard-wired in
`cog10.py` (c = 2.997e10 cm/s, a = 1.3720e+02 erg cm⁻³ eV⁻⁴), for every real
geometry factor k = geometry - 1 ≠ 0, every γ ∉ {0, 1}, Γ ≠ 0, ρ₀ > 0, T₀ > 0, β,
λ₀, at every r > 0 and every t.

Here the conduction term does *not* vanish by itself: the flux is constant in r,
its divergence k F / r balances the hydrodynamic part through the documented
velocity u = (4 c a λ₀ / 3) (γ-1)/(Γγ) k ρ₀^(α-1) T₀^(β+3)  (`cog10_energy`).
The code computes α only to print a range warning (that is where the three
identical ok leaves come from).

The theorems are proved on leaf 0; leaves 1 and 2 return the same expressions
and are covered by definitional unfolding in the `cog10_*` conjunctions.
-/
import EPV.Gen.Cog10D
import EPV.Spec.Euler1D
import EPV.Lemmas.Euler1D
import EPV.Lemmas.HydroRobust
import EPV.Tactics

set_option linter.all false

open EPV EPV.Gen EPV.Spec Filter Topology

namespace EPV.C01

/-- the traced model has exactly the leaves the theorems below cover -/
theorem cog10_leaves : Cog10.okLeaves = [0, 1, 2] := rfl

/-- the documented α of solution 10 -/
noncomputable def cog10_alpha (p : Cog10.P) : ℝ := p.beta + 4 - 1 / (p.geometry - 1)

/-- the traced path conditions are the range test of the documented α -/
theorem cog10_c0_iff (p : Cog10.P) (r t : ℝ) : Cog10.c0 p r t ↔ cog10_alpha p < -2 := by
  unfold cog10_alpha; simp only [epv_cond] <;> epv_arith_iff
theorem cog10_c1_iff (p : Cog10.P) (r t : ℝ) : Cog10.c1 p r t ↔ -1 < cog10_alpha p := by
  unfold cog10_alpha; simp only [epv_cond] <;> epv_arith_iff

theorem cog10_mass_L0 (p : Cog10.P) (r t : ℝ) (hr : 0 < r) :
    massRes (Cog10.L0.density p) (Cog10.L0.velocity p) (p.geometry - 1) r t = 0 := by
  unfold massRes dr dt
  epv_hydro_rw_derivs [Cog10.L0.density_hasDerivAt_t p r t, Cog10.L0.density_hasDerivAt_r p r t,
    Cog10.L0.velocity_hasDerivAt_r p r t]
  simp only [epv_deriv, epv_leaf]
  field_simp
  ring

theorem cog10_momentum_L0 (p : Cog10.P) (r t : ℝ) (hr : 0 < r) (hρ : p.rho0 ≠ 0) :
    momResT (Cog10.L0.density p) (Cog10.L0.velocity p) (Cog10.L0.temperature p) p.Gamma r t = 0 := by
  unfold momResT dr dt
  epv_hydro_rw_derivs [Cog10.L0.velocity_hasDerivAt_t p r t, Cog10.L0.velocity_hasDerivAt_r p r t,
    Cog10.L0.density_hasDerivAt_r p r t, Cog10.L0.temperature_hasDerivAt_r p r t]
  simp only [epv_deriv, epv_leaf]
  have h1 := Real.rpow_pos_of_pos hr (-(p.geometry - (1 : ℝ)))
  field_simp
  ring

/-- near r the documented flux of the returned fields is the generated `heat_flux` -/
theorem cog10_flux_near_L0 (p : Cog10.P) (r t : ℝ) (hr : 0 < r) :
    (fun x => heatFlux (Cog10.L0.density p) (Cog10.L0.temperature p) p.c_light p.a_rad p.lam0_ p.alpha_ p.beta_ x t)
      =ᶠ[𝓝 r] fun x => Cog10.L0.heat_flux p x t :=
  heatFlux_eventuallyEq (G' := fun x => Cog10.L0.aT4_dr p x t) (Ioi_mem_nhds hr)
    (fun x hx => Cog10.L0.aT4_hasDerivAt_r p x t hx)

/-- the key power identity ρ^α T^β T³ = r ρ ρ₀^(α-1) T₀^(β+3) for k (β + 4 - α) = 1 -/
theorem cog10_key (ρ0 T0 r k α β : ℝ) (hr : 0 < r) (hρ : 0 < ρ0) (hT : 0 < T0) (hk : k ≠ 0)
    (hα : α = β + 4 - 1 / k) :
    (ρ0 * r ^ (-k)) ^ α * (T0 * r ^ k) ^ β * (T0 * r ^ k) ^ (3 : ℕ)
      = r * (ρ0 * r ^ (-k)) * ρ0 ^ (α - 1) * T0 ^ (β + 3) := by
  have h1 : (ρ0 * r ^ (-k)) ^ α = ρ0 ^ (α - 1) * ρ0 * r ^ (-k * α) := by
    rw [Real.mul_rpow hρ.le (Real.rpow_nonneg hr.le _), ← Real.rpow_mul hr.le, Real.rpow_sub_one hρ.ne' α]
    field_simp
  have h2 : (T0 * r ^ k) ^ β = T0 ^ β * r ^ (k * β) := by
    rw [Real.mul_rpow hT.le (Real.rpow_nonneg hr.le _), ← Real.rpow_mul hr.le]
  have h3 : (T0 * r ^ k) ^ (3 : ℕ) = T0 ^ (3 : ℝ) * r ^ (k * 3) := by
    rw [mul_pow, ← Real.rpow_natCast (r ^ k), ← Real.rpow_mul hr.le, ← Real.rpow_natCast T0]
    norm_num
  have h4 : T0 ^ (β + 3) = T0 ^ β * T0 ^ (3 : ℝ) := Real.rpow_add hT _ _
  have h5 : r ^ (-k * α) * r ^ (k * β) * r ^ (k * 3) = r * r ^ (-k) := by
    have h6 : r * r ^ (-k) = r ^ (1 + -k) := by rw [Real.rpow_add hr, Real.rpow_one]
    rw [h6, ← Real.rpow_add hr, ← Real.rpow_add hr]
    congr 1
    rw [hα]; field_simp; ring
  rw [h1, h2, h3, h4]
  linear_combination (ρ0 ^ (α - 1) * ρ0 * T0 ^ β * T0 ^ (3:ℝ)) * h5

/-- the documented energy balance with conduction -/
theorem cog10_energy_L0 (p : Cog10.P) (r t : ℝ) (hr : 0 < r) (hk : p.geometry - 1 ≠ 0)
    (hΓ : p.Gamma ≠ 0) (hg0 : p.gamma ≠ 0) (hγ : p.gamma - 1 ≠ 0) (hρ : 0 < p.rho0) (hT : 0 < p.temp0)
    (hc : p.c_light = 29970000000) (ha : p.a_rad = 686 / 5) (hl : p.lam0_ = p.lambda0)
    (hα : p.alpha_ = cog10_alpha p) (hβ : p.beta_ = p.beta) :
    energyResT (Cog10.L0.density p) (Cog10.L0.velocity p) (Cog10.L0.temperature p) p.Gamma p.gamma
      (p.geometry - 1) p.c_light p.a_rad p.lam0_ p.alpha_ p.beta_ r t = 0 := by
  have hρ' : 0 < Cog10.L0.density p r t := by
    simp only [epv_leaf]; positivity
  have hT' : 0 < Cog10.L0.temperature p r t := by
    simp only [epv_leaf]; positivity
  rw [energyResT_eq_of_flux (cog10_flux_near_L0 p r t hr)
    (Cog10.L0.heat_flux_hasDerivAt_r p r t hr hρ' hT' hr.ne')]
  unfold energyHydroT dr dt
  epv_hydro_rw_derivs [Cog10.L0.temperature_hasDerivAt_t p r t, Cog10.L0.velocity_hasDerivAt_r p r t,
    Cog10.L0.temperature_hasDerivAt_r p r t]
  have key := cog10_key p.rho0 p.temp0 r (p.geometry - 1) (cog10_alpha p) p.beta hr hρ hT hk rfl
  simp only [epv_deriv, epv_leaf]
  rw [hc, ha, hl, hα, hβ]
  simp only [mul_one]
  unfold cog10_alpha at key ⊢
  rw [Real.rpow_neg hr.le] at key ⊢
  have hB := Real.rpow_pos_of_pos (mul_pos hT (Real.rpow_pos_of_pos hr (p.geometry - 1))) p.beta
  have hRk := Real.rpow_pos_of_pos hr (p.geometry - 1)
  generalize (p.rho0 * (r ^ (p.geometry - 1))⁻¹) ^ (p.beta + 4 - 1 / (p.geometry - 1)) = A at key ⊢
  generalize (p.temp0 * r ^ (p.geometry - 1)) ^ p.beta = B at key hB ⊢
  generalize p.rho0 ^ (p.beta + 4 - 1 / (p.geometry - 1) - 1) = P1 at key ⊢
  generalize p.temp0 ^ (p.beta + 3) = P2 at key ⊢
  generalize r ^ (p.geometry - 1) = Rk at key hRk ⊢
  have hA : A = r * (p.rho0 * Rk⁻¹) * P1 * P2 / (B * (p.temp0 * Rk) ^ 3) := by
    rw [eq_div_iff (by positivity)]
    linear_combination key
  rw [hA]
  field_simp
  ring


/-! every ok leaf (leaves 1, 2 unfold to the same expressions as leaf 0) -/

theorem cog10_mass (p : Cog10.P) (r t : ℝ) (hr : 0 < r) :
    massRes (Cog10.L0.density p) (Cog10.L0.velocity p) (p.geometry - 1) r t = 0
    ∧ massRes (Cog10.L1.density p) (Cog10.L1.velocity p) (p.geometry - 1) r t = 0
    ∧ massRes (Cog10.L2.density p) (Cog10.L2.velocity p) (p.geometry - 1) r t = 0 :=
  ⟨cog10_mass_L0 p r t hr, cog10_mass_L0 p r t hr, cog10_mass_L0 p r t hr⟩

theorem cog10_momentum (p : Cog10.P) (r t : ℝ) (hr : 0 < r) (hρ : p.rho0 ≠ 0) :
    momResT (Cog10.L0.density p) (Cog10.L0.velocity p) (Cog10.L0.temperature p) p.Gamma r t = 0
    ∧ momResT (Cog10.L1.density p) (Cog10.L1.velocity p) (Cog10.L1.temperature p) p.Gamma r t = 0
    ∧ momResT (Cog10.L2.density p) (Cog10.L2.velocity p) (Cog10.L2.temperature p) p.Gamma r t = 0 :=
  ⟨cog10_momentum_L0 p r t hr hρ, cog10_momentum_L0 p r t hr hρ, cog10_momentum_L0 p r t hr hρ⟩

theorem cog10_energy (p : Cog10.P) (r t : ℝ) (hr : 0 < r) (hk : p.geometry - 1 ≠ 0)
    (hΓ : p.Gamma ≠ 0) (hg0 : p.gamma ≠ 0) (hγ : p.gamma - 1 ≠ 0) (hρ : 0 < p.rho0) (hT : 0 < p.temp0)
    (hc : p.c_light = 29970000000) (ha : p.a_rad = 686 / 5) (hl : p.lam0_ = p.lambda0)
    (hα : p.alpha_ = cog10_alpha p) (hβ : p.beta_ = p.beta) :
    energyResT (Cog10.L0.density p) (Cog10.L0.velocity p) (Cog10.L0.temperature p) p.Gamma p.gamma
      (p.geometry - 1) p.c_light p.a_rad p.lam0_ p.alpha_ p.beta_ r t = 0
    ∧ energyResT (Cog10.L1.density p) (Cog10.L1.velocity p) (Cog10.L1.temperature p) p.Gamma p.gamma
      (p.geometry - 1) p.c_light p.a_rad p.lam0_ p.alpha_ p.beta_ r t = 0
    ∧ energyResT (Cog10.L2.density p) (Cog10.L2.velocity p) (Cog10.L2.temperature p) p.Gamma p.gamma
      (p.geometry - 1) p.c_light p.a_rad p.lam0_ p.alpha_ p.beta_ r t = 0 :=
  ⟨cog10_energy_L0 p r t hr hk hΓ hg0 hγ hρ hT hc ha hl hα hβ, cog10_energy_L0 p r t hr hk hΓ hg0 hγ hρ hT hc ha hl hα hβ,
    cog10_energy_L0 p r t hr hk hΓ hg0 hγ hρ hT hc ha hl hα hβ⟩

/-- non-vacuity: the hypotheses hold at the solver's defaults -/
example : ∃ (p : Cog10.P) (r : ℝ), 0 < r ∧ p.geometry - 1 ≠ 0 ∧ p.Gamma ≠ 0 ∧ p.gamma ≠ 0 ∧ p.gamma - 1 ≠ 0 ∧
    0 < p.rho0 ∧ 0 < p.temp0 ∧ p.c_light = 29970000000 ∧ p.a_rad = 686 / 5 ∧ p.lam0_ = p.lambda0 ∧
    p.alpha_ = cog10_alpha p ∧ p.beta_ = p.beta := by
  refine ⟨{ Gamma := 40, a_rad := 686 / 5, alpha_ := 9/2, beta := 1, beta_ := 1, c_light := 29970000000,
            gamma := 7/5, geometry := 3, lam0_ := 1/10, lambda0 := 1/10, rho0 := 9/5, temp0 := 7/5 }, 1, ?_⟩
  simp only [cog10_alpha]
  norm_num

/-! ### The returned fields (tree level)

The path conditions only select which range warning is printed: on every path the returned
fields are those of leaf 0. -/


theorem cog10_tree (p : Cog10.P) (r t : ℝ) :
    AgreeAt (Cog10.density p) (Cog10.L0.density p) r t
      ∧ AgreeAt (Cog10.velocity p) (Cog10.L0.velocity p) r t
      ∧ AgreeAt (Cog10.temperature p) (Cog10.L0.temperature p) r t := by
  have e : ∀ x s, Cog10.density p x s = Cog10.L0.density p x s
      ∧ Cog10.velocity p x s = Cog10.L0.velocity p x s
      ∧ Cog10.temperature p x s = Cog10.L0.temperature p x s := by
    intro x s
    simp only [epv_tree]
    split_ifs <;> exact ⟨rfl, rfl, rfl⟩
  exact ⟨⟨fun x => (e x t).1, Filter.Eventually.of_forall fun s => (e r s).1⟩,
    ⟨fun x => (e x t).2.1, Filter.Eventually.of_forall fun s => (e r s).2.1⟩,
    ⟨fun x => (e x t).2.2, Filter.Eventually.of_forall fun s => (e r s).2.2⟩⟩

/-- mass balance of the returned (tree-level) fields -/
theorem cog10_mass_tree (p : Cog10.P) (r t : ℝ) (hr : 0 < r) :
    massRes (Cog10.density p) (Cog10.velocity p) (p.geometry - 1) r t = 0 := by
  obtain ⟨hρ', hu', hT'⟩ := cog10_tree p r t
  rw [massRes_congr hρ' hu']
  exact cog10_mass_L0 p r t hr

/-- momentum balance of the returned (tree-level) fields -/
theorem cog10_momentum_tree (p : Cog10.P) (r t : ℝ) (hr : 0 < r) (hρ : p.rho0 ≠ 0) :
    momResT (Cog10.density p) (Cog10.velocity p) (Cog10.temperature p) p.Gamma r t = 0 := by
  obtain ⟨hρ', hu', hT'⟩ := cog10_tree p r t
  rw [momResT_congr hρ' hu' hT']
  exact cog10_momentum_L0 p r t hr hρ

/-- energy balance of the returned (tree-level) fields -/
theorem cog10_energy_tree (p : Cog10.P) (r t : ℝ) (hr : 0 < r) (hk : p.geometry - 1 ≠ 0)
    (hΓ : p.Gamma ≠ 0) (hg0 : p.gamma ≠ 0) (hγ : p.gamma - 1 ≠ 0) (hρ : 0 < p.rho0) (hT : 0 < p.temp0)
    (hc : p.c_light = 29970000000) (ha : p.a_rad = 686 / 5) (hl : p.lam0_ = p.lambda0)
    (hα : p.alpha_ = cog10_alpha p) (hβ : p.beta_ = p.beta) :
    energyResT (Cog10.density p) (Cog10.velocity p) (Cog10.temperature p) p.Gamma p.gamma
      (p.geometry - 1) p.c_light p.a_rad p.lam0_ p.alpha_ p.beta_ r t = 0 := by
  obtain ⟨hρ', hu', hT'⟩ := cog10_tree p r t
  rw [energyResT_congr hρ' hu' hT']
  exact cog10_energy_L0 p r t hr hk hΓ hg0 hγ hρ hT hc ha hl hα hβ

end EPV.C01
