/-
C01 — Coggeshall solution 7 satisfies the documented balance equations of mass,
momentum and energy with the documented adiabatic index γ = (k+3)/(k+1), for
every real geometry factor k = geometry - 1 ≠ -1, every b, τ, R₀, Rᵢ, Γ ≠ 0 with
2γ - b ≠ 0 (the documented temperature coefficient is defined), at every r > 0
and t with t² < τ² (the validity interval) inside the shell, i.e. where the
documented bracket  W = (r/√(τ²-t²))^(2-b/γ) - (Rᵢ/τ)^(2-b/γ)  is positive (it is
raised to the real power 1/(γ-1)); the momentum equation divides by ρ and is
stated where ρ ≠ 0.

Solution 7 is a pure hydrodynamic solution (free parameters b, k, τ, R₀, Rᵢ, Γ;
no mean-free-path law), i.e. λ₀ = 0: the energy equation is stated in its
hydrodynamic form (`cog7_energy_hydro`) and as the full documented residual
with λ₀ = 0 and arbitrary c, a, α, β (`cog7_energy`).

Proof shape: the similarity variable s = r/√(τ²-t²) is a Lagrangian invariant
(s_t + u s_r = 0); all real powers are generalised to atoms, √(τ²-t²)² = τ²-t²
is the only relation needed (plus s^(2+b/γ) s^(2-b/γ) = s⁴ for the momentum).
-/
import EPV.Gen.Cog7D
import EPV.Spec.Euler1D
import EPV.Lemmas.Euler1D
import EPV.Lemmas.HydroRobust
import EPV.Tactics

set_option linter.all false

open EPV EPV.Gen EPV.Spec Filter Topology

namespace EPV.C01

/-- the traced model has exactly the leaves the theorems below cover -/
theorem cog7_leaves : Cog7.okLeaves = [1] := rfl

/-- the documented γ = (k+3)/(k+1) of solution 7 -/
noncomputable def cog7_gamma (p : Cog7.P) : ℝ := ((p.geometry - 1) + 3) / ((p.geometry - 1) + 1)

/-- the bracket  (r/√(τ²-t²))^(2-b/γ) - (Rᵢ/τ)^(2-b/γ)  of the documented solution -/
noncomputable def cog7_W (p : Cog7.P) (r t : ℝ) : ℝ :=
  (r / Real.sqrt (p.tau ^ 2 - t ^ 2)) ^ (2 - p.b / cog7_gamma p) - (p.Ri / p.tau) ^ (2 - p.b / cog7_gamma p)

theorem cog7_mass (p : Cog7.P) (r t : ℝ) (hr : 0 < r) (hx : 0 < p.tau ^ 2 - t ^ 2) (hW : 0 < cog7_W p r t) :
    massRes (Cog7.L1.density p) (Cog7.L1.velocity p) (p.geometry - 1) r t = 0 := by
  have hq : 0 < Real.sqrt (p.tau ^ 2 - t ^ 2) := Real.sqrt_pos.mpr hx
  have hs : 0 < r / Real.sqrt (p.tau ^ 2 - t ^ 2) := div_pos hr hq
  unfold massRes dr dt
  epv_hydro_rw_derivs [Cog7.L1.density_hasDerivAt_t p r t, Cog7.L1.density_hasDerivAt_r p r t,
    Cog7.L1.velocity_hasDerivAt_r p r t]
  simp only [epv_deriv, epv_leaf]
  unfold cog7_W cog7_gamma at hW
  have hxx : p.tau ^ 2 - t ^ 2 = Real.sqrt (p.tau ^ 2 - t ^ 2) * Real.sqrt (p.tau ^ 2 - t ^ 2) :=
    (Real.mul_self_sqrt hx.le).symm
  generalize (((p.geometry - (1 : ℝ)) + (3 : ℝ)) / ((p.geometry - (1 : ℝ)) + (1 : ℝ))) = γ at *
  generalize Real.sqrt (p.tau ^ 2 - t ^ 2) = q at *
  generalize (r / q) ^ (2 - p.b / γ) = S1 at *
  generalize (p.Ri / p.tau) ^ (2 - p.b / γ) = I1 at *
  generalize (S1 - I1) ^ (1 / (γ - 1)) = Wc at *
  generalize (r / q) ^ (p.geometry - 1 + 1 - p.b / γ) = S3 at *
  generalize p.R0 ^ (p.b / γ) / (p.R0 ^ (2 - p.b / γ) - p.Ri ^ (2 - p.b / γ)) ^ (1 / (γ - 1)) = K1 at *
  generalize p.tau ^ (((p.geometry - 1 + 1) * γ - 1 - p.b) / (γ - 1)) = K2 at *
  generalize r ^ (-(p.geometry - 1) - 1) = Rk at *
  rw [hxx]
  have hW' := hW.ne'
  have hq' := hq.ne'
  have hr' := hr.ne'
  field_simp
  ring

theorem cog7_momentum (p : Cog7.P) (r t : ℝ) (hr : 0 < r) (hx : 0 < p.tau ^ 2 - t ^ 2) (hW : 0 < cog7_W p r t)
    (hΓ : p.Gamma ≠ 0) (hg0 : cog7_gamma p ≠ 0) (hγ : cog7_gamma p - 1 ≠ 0) (hb : 2 * cog7_gamma p - p.b ≠ 0)
    (hρ : Cog7.L1.density p r t ≠ 0) :
    momResT (Cog7.L1.density p) (Cog7.L1.velocity p) (Cog7.L1.temperature p) p.Gamma r t = 0 := by
  have hq : 0 < Real.sqrt (p.tau ^ 2 - t ^ 2) := Real.sqrt_pos.mpr hx
  have hs : 0 < r / Real.sqrt (p.tau ^ 2 - t ^ 2) := div_pos hr hq
  unfold momResT dr dt
  epv_hydro_rw_derivs [Cog7.L1.velocity_hasDerivAt_t p r t, Cog7.L1.velocity_hasDerivAt_r p r t,
    Cog7.L1.density_hasDerivAt_r p r t, Cog7.L1.temperature_hasDerivAt_r p r t]
  simp only [epv_deriv, epv_leaf] at hρ ⊢
  unfold cog7_W at hW
  unfold cog7_gamma at hW hg0 hγ hb
  have hxx : p.tau ^ 2 - t ^ 2 = Real.sqrt (p.tau ^ 2 - t ^ 2) * Real.sqrt (p.tau ^ 2 - t ^ 2) :=
    (Real.mul_self_sqrt hx.le).symm
  generalize (((p.geometry - (1 : ℝ)) + (3 : ℝ)) / ((p.geometry - (1 : ℝ)) + (1 : ℝ))) = γ at *
  generalize Real.sqrt (p.tau ^ 2 - t ^ 2) = q at *
  have hS : (r / q) ^ (2 + p.b / γ) = (r / q) ^ (4 : ℕ) / (r / q) ^ (2 - p.b / γ) := by
    rw [eq_div_iff (Real.rpow_pos_of_pos hs _).ne', ← Real.rpow_add hs, ← Real.rpow_natCast]
    congr 1
    push_cast
    ring
  rw [hS]
  have hS1 := Real.rpow_pos_of_pos hs (2 - p.b / γ)
  generalize (r / q) ^ (2 - p.b / γ) = S1 at *
  generalize (p.Ri / p.tau) ^ (2 - p.b / γ) = I1 at *
  generalize (S1 - I1) ^ (1 / (γ - 1)) = Wc at *
  generalize (r / q) ^ (p.geometry - 1 + 1 - p.b / γ) = S3 at *
  generalize p.R0 ^ (p.b / γ) / (p.R0 ^ (2 - p.b / γ) - p.Ri ^ (2 - p.b / γ)) ^ (1 / (γ - 1)) = K1 at *
  generalize p.tau ^ (((p.geometry - 1 + 1) * γ - 1 - p.b) / (γ - 1)) = K2 at *
  generalize r ^ (-(p.geometry - 1) - 1) = Rk at *
  rw [hxx]
  have hW' := hW.ne'
  have hq' := hq.ne'
  have hr' := hr.ne'
  have hS1' := hS1.ne'
  have hK1 : K1 ≠ 0 := by intro h; apply hρ; rw [h]; ring
  have hS3 : S3 ≠ 0 := by intro h; apply hρ; rw [h]; ring
  have hWc : Wc ≠ 0 := by intro h; apply hρ; rw [h]; ring
  have hK2 : K2 ≠ 0 := by intro h; apply hρ; rw [h]; ring
  have hRk : Rk ≠ 0 := by intro h; apply hρ; rw [h]; ring
  have hτ : p.tau ^ 2 = q * q + t ^ 2 := by linarith
  field_simp
  first
    | linear_combination (r * γ * (2 * γ - p.b) * S1) * hτ
    | grind

theorem cog7_energy_hydro (p : Cog7.P) (r t : ℝ) (hr : 0 < r) (hx : 0 < p.tau ^ 2 - t ^ 2)
    (hΓ : p.Gamma ≠ 0) (hk : (p.geometry - 1) + 1 ≠ 0) (hb : 2 * cog7_gamma p - p.b ≠ 0) :
    energyHydroT (Cog7.L1.velocity p) (Cog7.L1.temperature p) p.Gamma (cog7_gamma p) (p.geometry - 1) r t = 0 := by
  have hq : 0 < Real.sqrt (p.tau ^ 2 - t ^ 2) := Real.sqrt_pos.mpr hx
  have hs : 0 < r / Real.sqrt (p.tau ^ 2 - t ^ 2) := div_pos hr hq
  unfold energyHydroT dr dt
  epv_hydro_rw_derivs [Cog7.L1.temperature_hasDerivAt_t p r t, Cog7.L1.velocity_hasDerivAt_r p r t,
    Cog7.L1.temperature_hasDerivAt_r p r t]
  simp only [epv_deriv, epv_leaf]
  have hg : cog7_gamma p - 1 = 2 / ((p.geometry - 1) + 1) := by
    unfold cog7_gamma
    field_simp
    ring
  rw [hg]
  unfold cog7_gamma at hb
  have hxx : p.tau ^ 2 - t ^ 2 = Real.sqrt (p.tau ^ 2 - t ^ 2) * Real.sqrt (p.tau ^ 2 - t ^ 2) :=
    (Real.mul_self_sqrt hx.le).symm
  generalize (((p.geometry - (1 : ℝ)) + (3 : ℝ)) / ((p.geometry - (1 : ℝ)) + (1 : ℝ))) = γ at *
  generalize Real.sqrt (p.tau ^ 2 - t ^ 2) = q at *
  generalize (r / q) ^ (2 - p.b / γ) = S1 at *
  generalize (r / q) ^ (2 + p.b / γ) = S4 at *
  generalize (p.Ri / p.tau) ^ (2 - p.b / γ) = I1 at *
  rw [hxx]
  have hq' := hq.ne'
  have hr' := hr.ne'
  field_simp
  ring


/-- the documented energy residual with no conduction (λ₀ = 0), any c, a, α, β -/
theorem cog7_energy (p : Cog7.P) (r t : ℝ) (hr : 0 < r) (hx : 0 < p.tau ^ 2 - t ^ 2)
    (hΓ : p.Gamma ≠ 0) (hk : (p.geometry - 1) + 1 ≠ 0) (hb : 2 * cog7_gamma p - p.b ≠ 0) (c a α β : ℝ) :
    energyResT (Cog7.L1.density p) (Cog7.L1.velocity p) (Cog7.L1.temperature p) p.Gamma (cog7_gamma p)
      (p.geometry - 1) c a 0 α β r t = 0 := by
  rw [energyResT_lam0_zero]
  exact cog7_energy_hydro p r t hr hx hΓ hk hb

/-- non-vacuity: the hypotheses hold at the solver's defaults (r = 1, t = 3/4: √(τ²-t²) = 1, W = 1 - (2/25)^(32/25)) -/
example : ∃ (p : Cog7.P) (r t : ℝ), 0 < r ∧ 0 < p.tau ^ 2 - t ^ 2 ∧ 0 < cog7_W p r t ∧ p.Gamma ≠ 0 ∧
    (p.geometry - 1) + 1 ≠ 0 ∧ cog7_gamma p ≠ 0 ∧ cog7_gamma p - 1 ≠ 0 ∧ 2 * cog7_gamma p - p.b ≠ 0 := by
  refine ⟨{ Gamma := 40, R0 := 2, Ri := 1/10, a_rad := 0, alpha_ := 0, b := 6/5, beta_ := 0, c_light := 0,
            geometry := 3, lam0_ := 0, tau := 5/4 }, 1, 3/4, by norm_num, by norm_num, ?_, by norm_num,
            by norm_num, ?_, ?_, ?_⟩
  · simp only [cog7_W, cog7_gamma]
    have h1 : Real.sqrt ((5 / 4 : ℝ) ^ 2 - (3 / 4) ^ 2) = 1 := by
      rw [show ((5 / 4 : ℝ) ^ 2 - (3 / 4) ^ 2) = 1 by norm_num, Real.sqrt_one]
    rw [h1]
    have h2 : ((1 / 10 : ℝ) / (5 / 4)) ^ ((2 : ℝ) - 6 / 5 / ((3 - 1 + 3) / (3 - 1 + 1))) < 1 :=
      Real.rpow_lt_one (by norm_num) (by norm_num) (by norm_num)
    simpa using h2
  · simp only [cog7_gamma]; norm_num
  · simp only [cog7_gamma]; norm_num
  · simp only [cog7_gamma]; norm_num

/-! ### The returned fields (tree level)

The only path condition is `t ≤ 0` (NaN fields); where the solver returns numbers the returned
fields are those of leaf 1, on the whole line {(x, t)} and for all times near t. -/


theorem cog7_tree (p : Cog7.P) (r t : ℝ) (h : Cog7.outcome p r t = .ok) :
    0 < t ∧ AgreeAt (Cog7.density p) (Cog7.L1.density p) r t
      ∧ AgreeAt (Cog7.velocity p) (Cog7.L1.velocity p) r t
      ∧ AgreeAt (Cog7.temperature p) (Cog7.L1.temperature p) r t := by
  have ht : 0 < t := by
    by_contra hc
    have hc' : t ≤ 0 := not_lt.mp hc
    simp [epv_tree, epv_cond, hc'] at h
  have e : ∀ x s, 0 < s → Cog7.density p x s = Cog7.L1.density p x s
      ∧ Cog7.velocity p x s = Cog7.L1.velocity p x s
      ∧ Cog7.temperature p x s = Cog7.L1.temperature p x s := by
    intro x s hs
    have hns : ¬ s ≤ 0 := not_le.mpr hs
    simp only [epv_tree, epv_cond, hns, if_false, and_self]
  refine ⟨ht, ⟨fun x => (e x t ht).1, ?_⟩, ⟨fun x => (e x t ht).2.1, ?_⟩, ⟨fun x => (e x t ht).2.2, ?_⟩⟩
  · filter_upwards [Ioi_mem_nhds ht] with s hs using (e r s hs).1
  · filter_upwards [Ioi_mem_nhds ht] with s hs using (e r s hs).2.1
  · filter_upwards [Ioi_mem_nhds ht] with s hs using (e r s hs).2.2

/-- mass balance of the returned (tree-level) fields -/
theorem cog7_mass_tree (p : Cog7.P) (r t : ℝ) (h : Cog7.outcome p r t = .ok) (hr : 0 < r) (hx : 0 < p.tau ^ 2 - t ^ 2)
    (hW : 0 < cog7_W p r t) :
    massRes (Cog7.density p) (Cog7.velocity p) (p.geometry - 1) r t = 0 := by
  obtain ⟨ht, hρ', hu', hT'⟩ := cog7_tree p r t h
  rw [massRes_congr hρ' hu']
  exact cog7_mass p r t hr hx hW

/-- momentum balance of the returned (tree-level) fields -/
theorem cog7_momentum_tree (p : Cog7.P) (r t : ℝ) (h : Cog7.outcome p r t = .ok) (hr : 0 < r) (hx : 0 < p.tau ^ 2 - t ^ 2)
    (hW : 0 < cog7_W p r t) (hΓ : p.Gamma ≠ 0) (hg0 : cog7_gamma p ≠ 0) (hγ : cog7_gamma p - 1 ≠ 0)
    (hb : 2 * cog7_gamma p - p.b ≠ 0) (hρ : Cog7.density p r t ≠ 0) :
    momResT (Cog7.density p) (Cog7.velocity p) (Cog7.temperature p) p.Gamma r t = 0 := by
  obtain ⟨ht, hρ', hu', hT'⟩ := cog7_tree p r t h
  rw [hρ'.eq] at hρ
  rw [momResT_congr hρ' hu' hT']
  exact cog7_momentum p r t hr hx hW hΓ hg0 hγ hb hρ

/-- energy balance of the returned (tree-level) fields -/
theorem cog7_energy_tree (p : Cog7.P) (r t : ℝ) (h : Cog7.outcome p r t = .ok) (hr : 0 < r) (hx : 0 < p.tau ^ 2 - t ^ 2)
    (hΓ : p.Gamma ≠ 0) (hk : (p.geometry - 1) + 1 ≠ 0) (hb : 2 * cog7_gamma p - p.b ≠ 0) (c a α β : ℝ) :
    energyResT (Cog7.density p) (Cog7.velocity p) (Cog7.temperature p) p.Gamma (cog7_gamma p)
      (p.geometry - 1) c a 0 α β r t = 0 := by
  obtain ⟨ht, hρ', hu', hT'⟩ := cog7_tree p r t h
  rw [energyResT_congr hρ' hu' hT']
  exact cog7_energy p r t hr hx hΓ hk hb c a α β

end EPV.C01
