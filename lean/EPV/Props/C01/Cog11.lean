/-
C01 — Coggeshall solution 11 satisfies the documented balance equations of
mass, momentum and energy *with* the conduction term
F = -(c λ₀ ρ^α T^β / 3) ∂_r (a T⁴) and the documented
α = β + 4 + (k-1)/(2 - (γ-1)(k+1)), for every real geometry factor
k = geometry - 1, every γ ≠ 1 with 2 - (γ-1)(k+1) ≠ 0, every Γ, β, c, a, λ₀, at
every r > 0, t > 0 (the flux needs ρ₀ > 0, T₀ > 0 so that ρ^α, T^β are real
powers).

The solver's `beta` is the temperature exponent of the mean-free-path law
(`p.beta_ = p.beta`); the documented α (which the code computes only to print a
range warning — that is where the three identical ok leaves come from) is
exactly what makes the flux divergence free (`cog11_flux_div`), and the
hydrodynamic part vanishes by itself (`cog11_energy_hydro`).

The theorems are proved on leaf 1; leaves 2 and 3 return the same expressions
(they differ only in the printed warning) and are covered by definitional
unfolding in the `cog11_*` conjunctions.
-/
import EPV.Gen.Cog11D
import EPV.Spec.Euler1D
import EPV.Lemmas.Euler1D
import EPV.Lemmas.HydroRobust
import EPV.Tactics

set_option linter.all false

open EPV EPV.Gen EPV.Spec Filter Topology

namespace EPV.C01

/-- the traced model has exactly the leaves the theorems below cover -/
theorem cog11_leaves : Cog11.okLeaves = [1, 2, 3] := rfl

/-- the documented α of solution 11 -/
noncomputable def cog11_alpha (p : Cog11.P) : ℝ :=
  p.beta + 4 + ((p.geometry - 1) - 1) / (2 - (p.gamma - 1) * ((p.geometry - 1) + 1))

theorem cog11_mass_L1 (p : Cog11.P) (r t : ℝ) (hr : 0 < r) (ht : 0 < t) :
    massRes (Cog11.L1.density p) (Cog11.L1.velocity p) (p.geometry - 1) r t = 0 := by
  unfold massRes dr dt
  epv_hydro_rw_derivs [Cog11.L1.density_hasDerivAt_t p r t, Cog11.L1.density_hasDerivAt_r p r t,
    Cog11.L1.velocity_hasDerivAt_r p r t]
  simp only [epv_deriv, epv_leaf]
  field_simp
  ring

theorem cog11_momentum_L1 (p : Cog11.P) (r t : ℝ) (hr : 0 < r) (ht : 0 < t) (hρ : p.rho0 ≠ 0) :
    momResT (Cog11.L1.density p) (Cog11.L1.velocity p) (Cog11.L1.temperature p) p.Gamma r t = 0 := by
  unfold momResT dr dt
  epv_hydro_rw_derivs [Cog11.L1.velocity_hasDerivAt_t p r t, Cog11.L1.velocity_hasDerivAt_r p r t,
    Cog11.L1.density_hasDerivAt_r p r t, Cog11.L1.temperature_hasDerivAt_r p r t]
  simp only [epv_deriv, epv_leaf]
  have h1 := Real.rpow_pos_of_pos hr (((p.gamma - (1 : ℝ)) * ((p.geometry - (1 : ℝ)) + (1 : ℝ))) - (2 : ℝ))
  have h2 := Real.rpow_pos_of_pos ht (((1 : ℝ) - (p.geometry - (1 : ℝ))) - ((p.gamma - (1 : ℝ)) * ((p.geometry - (1 : ℝ)) + (1 : ℝ))))
  field_simp
  ring

theorem cog11_energy_hydro_L1 (p : Cog11.P) (r t : ℝ) (hr : 0 < r) (ht : 0 < t) (hγ : p.gamma - 1 ≠ 0) :
    energyHydroT (Cog11.L1.velocity p) (Cog11.L1.temperature p) p.Gamma p.gamma (p.geometry - 1) r t = 0 := by
  unfold energyHydroT dr dt
  epv_hydro_rw_derivs [Cog11.L1.temperature_hasDerivAt_t p r t, Cog11.L1.velocity_hasDerivAt_r p r t,
    Cog11.L1.temperature_hasDerivAt_r p r t]
  simp only [epv_deriv, epv_leaf]
  field_simp
  ring

/-- near r the documented flux of the returned fields is the generated `heat_flux` -/
theorem cog11_flux_near_L1 (p : Cog11.P) (r t : ℝ) (hr : 0 < r) :
    (fun x => heatFlux (Cog11.L1.density p) (Cog11.L1.temperature p) p.c_light p.a_rad p.lam0_ p.alpha_ p.beta_ x t)
      =ᶠ[𝓝 r] fun x => Cog11.L1.heat_flux p x t :=
  heatFlux_eventuallyEq (G' := fun x => Cog11.L1.aT4_dr p x t) (Ioi_mem_nhds hr)
    (fun x hx => Cog11.L1.aT4_hasDerivAt_r p x t hx)

/-- with the documented α the flux is divergence free: ∂_r F + k F / r = 0 -/
theorem cog11_flux_div_L1 (p : Cog11.P) (r t : ℝ) (hr : 0 < r) (ht : 0 < t)
    (hc : 2 - (p.gamma - 1) * ((p.geometry - 1) + 1) ≠ 0) (hρ : p.rho0 ≠ 0) (hT : p.temp0 ≠ 0)
    (hα : p.alpha_ = cog11_alpha p) (hβ : p.beta_ = p.beta) :
    Cog11.L1.heat_flux_dr p r t + (p.geometry - 1) * Cog11.L1.heat_flux p r t / r = 0 := by
  simp only [epv_deriv, epv_leaf]
  rw [hα, hβ]
  obtain ⟨A, hA⟩ : ∃ A, Cog11.L1.density p r t ^ cog11_alpha p = A := ⟨_, rfl⟩
  obtain ⟨B, hB⟩ : ∃ B, Cog11.L1.temperature p r t ^ p.beta = B := ⟨_, rfl⟩
  simp only [epv_leaf] at hA hB
  rw [hA, hB]
  clear hA hB
  unfold cog11_alpha
  have h1 := Real.rpow_pos_of_pos hr (((p.gamma - (1 : ℝ)) * ((p.geometry - (1 : ℝ)) + (1 : ℝ))) - (2 : ℝ))
  have h2 := Real.rpow_pos_of_pos ht (((1 : ℝ) - (p.geometry - (1 : ℝ))) - ((p.gamma - (1 : ℝ)) * ((p.geometry - (1 : ℝ)) + (1 : ℝ))))
  have h3 := Real.rpow_pos_of_pos hr ((2 : ℝ) - ((p.gamma - (1 : ℝ)) * ((p.geometry - (1 : ℝ)) + (1 : ℝ))))
  have hc' : 2 - (p.geometry - 1 + 1) * (p.gamma - 1) ≠ 0 := by
    intro h; apply hc; linarith
  field_simp
  ring

theorem cog11_energy_L1 (p : Cog11.P) (r t : ℝ) (hr : 0 < r) (ht : 0 < t)
    (hc : 2 - (p.gamma - 1) * ((p.geometry - 1) + 1) ≠ 0) (hγ : p.gamma - 1 ≠ 0)
    (hρ : 0 < p.rho0) (hT : 0 < p.temp0) (hα : p.alpha_ = cog11_alpha p) (hβ : p.beta_ = p.beta) :
    energyResT (Cog11.L1.density p) (Cog11.L1.velocity p) (Cog11.L1.temperature p) p.Gamma p.gamma
      (p.geometry - 1) p.c_light p.a_rad p.lam0_ p.alpha_ p.beta_ r t = 0 := by
  have hρ' : 0 < Cog11.L1.density p r t := by
    simp only [epv_leaf]; positivity
  have hT' : 0 < Cog11.L1.temperature p r t := by
    simp only [epv_leaf]; positivity
  exact energyResT_zero_of_split (cog11_flux_near_L1 p r t hr)
    (Cog11.L1.heat_flux_hasDerivAt_r p r t hr hρ' hT' hr.ne')
    (cog11_energy_hydro_L1 p r t hr ht hγ) (cog11_flux_div_L1 p r t hr ht hc hρ.ne' hT.ne' hα hβ)

/-! every ok leaf (leaves 2, 3 unfold to the same expressions as leaf 1) -/

theorem cog11_mass (p : Cog11.P) (r t : ℝ) (hr : 0 < r) (ht : 0 < t) :
    massRes (Cog11.L1.density p) (Cog11.L1.velocity p) (p.geometry - 1) r t = 0
    ∧ massRes (Cog11.L2.density p) (Cog11.L2.velocity p) (p.geometry - 1) r t = 0
    ∧ massRes (Cog11.L3.density p) (Cog11.L3.velocity p) (p.geometry - 1) r t = 0 :=
  ⟨cog11_mass_L1 p r t hr ht, cog11_mass_L1 p r t hr ht, cog11_mass_L1 p r t hr ht⟩

theorem cog11_momentum (p : Cog11.P) (r t : ℝ) (hr : 0 < r) (ht : 0 < t) (hρ : p.rho0 ≠ 0) :
    momResT (Cog11.L1.density p) (Cog11.L1.velocity p) (Cog11.L1.temperature p) p.Gamma r t = 0
    ∧ momResT (Cog11.L2.density p) (Cog11.L2.velocity p) (Cog11.L2.temperature p) p.Gamma r t = 0
    ∧ momResT (Cog11.L3.density p) (Cog11.L3.velocity p) (Cog11.L3.temperature p) p.Gamma r t = 0 :=
  ⟨cog11_momentum_L1 p r t hr ht hρ, cog11_momentum_L1 p r t hr ht hρ, cog11_momentum_L1 p r t hr ht hρ⟩

theorem cog11_energy (p : Cog11.P) (r t : ℝ) (hr : 0 < r) (ht : 0 < t)
    (hc : 2 - (p.gamma - 1) * ((p.geometry - 1) + 1) ≠ 0) (hγ : p.gamma - 1 ≠ 0)
    (hρ : 0 < p.rho0) (hT : 0 < p.temp0) (hα : p.alpha_ = cog11_alpha p) (hβ : p.beta_ = p.beta) :
    energyResT (Cog11.L1.density p) (Cog11.L1.velocity p) (Cog11.L1.temperature p) p.Gamma p.gamma
      (p.geometry - 1) p.c_light p.a_rad p.lam0_ p.alpha_ p.beta_ r t = 0
    ∧ energyResT (Cog11.L2.density p) (Cog11.L2.velocity p) (Cog11.L2.temperature p) p.Gamma p.gamma
      (p.geometry - 1) p.c_light p.a_rad p.lam0_ p.alpha_ p.beta_ r t = 0
    ∧ energyResT (Cog11.L3.density p) (Cog11.L3.velocity p) (Cog11.L3.temperature p) p.Gamma p.gamma
      (p.geometry - 1) p.c_light p.a_rad p.lam0_ p.alpha_ p.beta_ r t = 0 :=
  ⟨cog11_energy_L1 p r t hr ht hc hγ hρ hT hα hβ, cog11_energy_L1 p r t hr ht hc hγ hρ hT hα hβ,
    cog11_energy_L1 p r t hr ht hc hγ hρ hT hα hβ⟩

/-- non-vacuity: the hypotheses hold at the solver's defaults (Γ = 40 supplied: the class has no default) -/
example : ∃ (p : Cog11.P) (r t : ℝ), 0 < r ∧ 0 < t ∧ 2 - (p.gamma - 1) * ((p.geometry - 1) + 1) ≠ 0 ∧
    p.gamma - 1 ≠ 0 ∧ 0 < p.rho0 ∧ 0 < p.temp0 ∧ p.alpha_ = cog11_alpha p ∧ p.beta_ = p.beta := by
  refine ⟨{ Gamma := 40, a_rad := 1, alpha_ := 25/4, beta := 1, beta_ := 1, c_light := 1,
            gamma := 7/5, geometry := 3, lam0_ := 1, rho0 := 9/5, temp0 := 7/5 }, 1, 1, ?_⟩
  simp only [cog11_alpha]
  norm_num

/-! ### The returned fields (tree level)

The path conditions are `t ≤ 0` (NaN fields) and the range test of α that selects the printed
warning; where the solver returns numbers the returned fields are those of leaf 1. -/


theorem cog11_tree (p : Cog11.P) (r t : ℝ) (h : Cog11.outcome p r t = .ok) :
    0 < t ∧ AgreeAt (Cog11.density p) (Cog11.L1.density p) r t
      ∧ AgreeAt (Cog11.velocity p) (Cog11.L1.velocity p) r t
      ∧ AgreeAt (Cog11.temperature p) (Cog11.L1.temperature p) r t := by
  have ht : 0 < t := by
    by_contra hc
    have hc' : t ≤ 0 := not_lt.mp hc
    simp [epv_tree, epv_cond, hc'] at h
  have e : ∀ x s, 0 < s → Cog11.density p x s = Cog11.L1.density p x s
      ∧ Cog11.velocity p x s = Cog11.L1.velocity p x s
      ∧ Cog11.temperature p x s = Cog11.L1.temperature p x s := by
    intro x s hs
    have hns : ¬ s ≤ 0 := not_le.mpr hs
    simp only [epv_tree, Cog11.c0, hns, if_false]
    split_ifs <;> exact ⟨rfl, rfl, rfl⟩
  refine ⟨ht, ⟨fun x => (e x t ht).1, ?_⟩, ⟨fun x => (e x t ht).2.1, ?_⟩, ⟨fun x => (e x t ht).2.2, ?_⟩⟩
  · filter_upwards [Ioi_mem_nhds ht] with s hs using (e r s hs).1
  · filter_upwards [Ioi_mem_nhds ht] with s hs using (e r s hs).2.1
  · filter_upwards [Ioi_mem_nhds ht] with s hs using (e r s hs).2.2

/-- mass balance of the returned (tree-level) fields -/
theorem cog11_mass_tree (p : Cog11.P) (r t : ℝ) (h : Cog11.outcome p r t = .ok) (hr : 0 < r) :
    massRes (Cog11.density p) (Cog11.velocity p) (p.geometry - 1) r t = 0 := by
  obtain ⟨ht, hρ', hu', hT'⟩ := cog11_tree p r t h
  rw [massRes_congr hρ' hu']
  exact cog11_mass_L1 p r t hr ht

/-- momentum balance of the returned (tree-level) fields -/
theorem cog11_momentum_tree (p : Cog11.P) (r t : ℝ) (h : Cog11.outcome p r t = .ok) (hr : 0 < r) (hρ : p.rho0 ≠ 0) :
    momResT (Cog11.density p) (Cog11.velocity p) (Cog11.temperature p) p.Gamma r t = 0 := by
  obtain ⟨ht, hρ', hu', hT'⟩ := cog11_tree p r t h
  rw [momResT_congr hρ' hu' hT']
  exact cog11_momentum_L1 p r t hr ht hρ

/-- energy balance of the returned (tree-level) fields -/
theorem cog11_energy_tree (p : Cog11.P) (r t : ℝ) (h : Cog11.outcome p r t = .ok) (hr : 0 < r)
    (hc : 2 - (p.gamma - 1) * ((p.geometry - 1) + 1) ≠ 0) (hγ : p.gamma - 1 ≠ 0)
    (hρ : 0 < p.rho0) (hT : 0 < p.temp0) (hα : p.alpha_ = cog11_alpha p) (hβ : p.beta_ = p.beta) :
    energyResT (Cog11.density p) (Cog11.velocity p) (Cog11.temperature p) p.Gamma p.gamma
      (p.geometry - 1) p.c_light p.a_rad p.lam0_ p.alpha_ p.beta_ r t = 0 := by
  obtain ⟨ht, hρ', hu', hT'⟩ := cog11_tree p r t h
  rw [energyResT_congr hρ' hu' hT']
  exact cog11_energy_L1 p r t hr ht hc hγ hρ hT hα hβ

end EPV.C01
