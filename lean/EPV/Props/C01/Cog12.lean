/-
C01 — Coggeshall solution 12 (steady flow) satisfies the documented balance
equations of mass, momentum and energy *with* the conduction term
F = -(c λ₀ ρ^α T^β / 3) ∂_r (a T⁴) and the documented
α = (β + 4)(1 - γ) + (k-1)(γ+1)/(2k)  (k ≠ 0), for every real geometry factor
k = geometry - 1 ≠ 0, every γ ∉ {-1, 0, 1}, Γ ≠ 0, u₀ ≠ 0, β, c, a, λ₀, at every
r > 0 and every t; the flux needs ρ₀ > 0 and a positive temperature (γ < 1 for
Γ > 0, as the documentation says — at the class default γ = 1.4 the documented
temperature is negative).

The solver's `beta` is the temperature exponent of the mean-free-path law
(`p.beta_ = p.beta`); the *documented* α is exactly what makes the flux
divergence free (`cog12_flux_div`), and the hydrodynamic part vanishes by
itself (`cog12_energy_hydro`).  The code computes a *different* α,
(β+4)(1+γ) + (k-1)/(2-(γ-1)(k+1)), but only to print a range warning (that is
where the three identical ok leaves come from); the returned fields do not
depend on it.  `cog12_alpha_code_ne_doc` records the discrepancy.

The theorems are proved on leaf 0; leaves 1 and 2 return the same expressions
and are covered by definitional unfolding in the `cog12_*` conjunctions.
-/
import EPV.Gen.Cog12D
import EPV.Spec.Euler1D
import EPV.Lemmas.Euler1D
import EPV.Lemmas.HydroRobust
import EPV.Tactics

set_option linter.all false

open EPV EPV.Gen EPV.Spec Filter Topology

namespace EPV.C01

/-- the traced model has exactly the leaves the theorems below cover -/
theorem cog12_leaves : Cog12.okLeaves = [0, 1, 2] := rfl

/-- the documented α of solution 12 -/
noncomputable def cog12_alpha (p : Cog12.P) : ℝ :=
  (p.beta + 4) * (1 - p.gamma) + ((p.geometry - 1) - 1) * (p.gamma + 1) / (2 * (p.geometry - 1))

/-- the α the code computes for its range warning (the left-hand side of the traced conditions c0, c1) -/
noncomputable def cog12_alpha_code (p : Cog12.P) : ℝ :=
  (p.beta + 4) * (1 + p.gamma) + ((p.geometry - 1) - 1) / (2 - (p.gamma - 1) * ((p.geometry - 1) + 1))

/-- the traced path conditions are the range test of the code's α -/
theorem cog12_c0_iff (p : Cog12.P) (r t : ℝ) : Cog12.c0 p r t ↔ cog12_alpha_code p < -2 := by
  unfold cog12_alpha_code; simp only [epv_cond] <;> epv_arith_iff
theorem cog12_c1_iff (p : Cog12.P) (r t : ℝ) : Cog12.c1 p r t ↔ -1 < cog12_alpha_code p := by
  unfold cog12_alpha_code; simp only [epv_cond] <;> epv_arith_iff

/-- the α the code tests is not the documented one (defaults: 53/4 against -7/5); only the printed
warning is affected -/
theorem cog12_alpha_code_ne_doc :
    ∃ p : Cog12.P, cog12_alpha_code p ≠ cog12_alpha p := by
  refine ⟨{ Gamma := 40, a_rad := 1, alpha_ := 0, beta := 1, beta_ := 1, c_light := 1,
            gamma := 7/5, geometry := 3, lam0_ := 1, rho0 := 9/5, u0 := 23/10 }, ?_⟩
  simp only [cog12_alpha_code, cog12_alpha]
  norm_num

theorem cog12_mass_L0 (p : Cog12.P) (r t : ℝ) (hr : 0 < r) (hg : p.gamma + 1 ≠ 0) :
    massRes (Cog12.L0.density p) (Cog12.L0.velocity p) (p.geometry - 1) r t = 0 := by
  unfold massRes dr dt
  epv_hydro_rw_derivs [Cog12.L0.density_hasDerivAt_t p r t, Cog12.L0.density_hasDerivAt_r p r t,
    Cog12.L0.velocity_hasDerivAt_r p r t]
  simp only [epv_deriv, epv_leaf]
  have hg' : 1 + p.gamma ≠ 0 := by rwa [add_comm]
  field_simp
  ring

theorem cog12_momentum_L0 (p : Cog12.P) (r t : ℝ) (hr : 0 < r) (hg : p.gamma + 1 ≠ 0) (hg0 : p.gamma ≠ 0)
    (hΓ : p.Gamma ≠ 0) (hρ : p.rho0 ≠ 0) :
    momResT (Cog12.L0.density p) (Cog12.L0.velocity p) (Cog12.L0.temperature p) p.Gamma r t = 0 := by
  unfold momResT dr dt
  epv_hydro_rw_derivs [Cog12.L0.velocity_hasDerivAt_t p r t, Cog12.L0.velocity_hasDerivAt_r p r t,
    Cog12.L0.density_hasDerivAt_r p r t, Cog12.L0.temperature_hasDerivAt_r p r t]
  simp only [epv_deriv, epv_leaf]
  have h1 := Real.rpow_pos_of_pos hr (((-2 : ℝ) * (p.geometry - (1 : ℝ))) / (p.gamma + (1 : ℝ)))
  have h2 : r ^ ((2 : ℝ) * (((p.geometry - (1 : ℝ)) * ((1 : ℝ) - p.gamma)) / ((1 : ℝ) + p.gamma)))
      = r ^ (((p.geometry - (1 : ℝ)) * ((1 : ℝ) - p.gamma)) / ((1 : ℝ) + p.gamma))
        * r ^ (((p.geometry - (1 : ℝ)) * ((1 : ℝ) - p.gamma)) / ((1 : ℝ) + p.gamma)) := by
    rw [two_mul, Real.rpow_add hr]
  rw [h2]
  have hg' : 1 + p.gamma ≠ 0 := by rwa [add_comm]
  field_simp
  ring

theorem cog12_energy_hydro_L0 (p : Cog12.P) (r t : ℝ) (hr : 0 < r) (hg : p.gamma + 1 ≠ 0) (hg0 : p.gamma ≠ 0)
    (hΓ : p.Gamma ≠ 0) (hγ : p.gamma - 1 ≠ 0) :
    energyHydroT (Cog12.L0.velocity p) (Cog12.L0.temperature p) p.Gamma p.gamma (p.geometry - 1) r t = 0 := by
  unfold energyHydroT dr dt
  epv_hydro_rw_derivs [Cog12.L0.temperature_hasDerivAt_t p r t, Cog12.L0.velocity_hasDerivAt_r p r t,
    Cog12.L0.temperature_hasDerivAt_r p r t]
  simp only [epv_deriv, epv_leaf]
  have hg' : 1 + p.gamma ≠ 0 := by rwa [add_comm]
  field_simp
  ring

/-- near r the documented flux of the returned fields is the generated `heat_flux` -/
theorem cog12_flux_near_L0 (p : Cog12.P) (r t : ℝ) (hr : 0 < r) :
    (fun x => heatFlux (Cog12.L0.density p) (Cog12.L0.temperature p) p.c_light p.a_rad p.lam0_ p.alpha_ p.beta_ x t)
      =ᶠ[𝓝 r] fun x => Cog12.L0.heat_flux p x t :=
  heatFlux_eventuallyEq (G' := fun x => Cog12.L0.aT4_dr p x t) (Ioi_mem_nhds hr)
    (fun x hx => Cog12.L0.aT4_hasDerivAt_r p x t hx)

/-- with the documented α the flux is divergence free: ∂_r F + k F / r = 0 -/
theorem cog12_flux_div_L0 (p : Cog12.P) (r t : ℝ) (hr : 0 < r) (hg : p.gamma + 1 ≠ 0) (hg0 : p.gamma ≠ 0)
    (hΓ : p.Gamma ≠ 0) (hγ : p.gamma - 1 ≠ 0) (hk : p.geometry - 1 ≠ 0) (hu : p.u0 ≠ 0) (hρ : p.rho0 ≠ 0)
    (hα : p.alpha_ = cog12_alpha p) (hβ : p.beta_ = p.beta) :
    Cog12.L0.heat_flux_dr p r t + (p.geometry - 1) * Cog12.L0.heat_flux p r t / r = 0 := by
  simp only [epv_deriv, epv_leaf]
  rw [hα, hβ]
  obtain ⟨A, hA⟩ : ∃ A, Cog12.L0.density p r t ^ cog12_alpha p = A := ⟨_, rfl⟩
  obtain ⟨B, hB⟩ : ∃ B, Cog12.L0.temperature p r t ^ p.beta = B := ⟨_, rfl⟩
  simp only [epv_leaf] at hA hB
  rw [hA, hB]
  clear hA hB
  unfold cog12_alpha
  have h1 := Real.rpow_pos_of_pos hr (((-2 : ℝ) * (p.geometry - (1 : ℝ))) / (p.gamma + (1 : ℝ)))
  have h3 := Real.rpow_pos_of_pos hr ((2 : ℝ) * (((p.geometry - (1 : ℝ)) * ((1 : ℝ) - p.gamma)) / ((1 : ℝ) + p.gamma)))
  have hg' : 1 + p.gamma ≠ 0 := by rwa [add_comm]
  have hγ' : 1 - p.gamma ≠ 0 := by
    intro h; apply hγ; linarith
  field_simp
  ring

theorem cog12_energy_L0 (p : Cog12.P) (r t : ℝ) (hr : 0 < r) (hg : p.gamma + 1 ≠ 0) (hg0 : p.gamma ≠ 0)
    (hΓ : p.Gamma ≠ 0) (hγ : p.gamma - 1 ≠ 0) (hk : p.geometry - 1 ≠ 0) (hu : p.u0 ≠ 0)
    (hρ : 0 < p.rho0) (hT : 0 < Cog12.L0.temperature p r t)
    (hα : p.alpha_ = cog12_alpha p) (hβ : p.beta_ = p.beta) :
    energyResT (Cog12.L0.density p) (Cog12.L0.velocity p) (Cog12.L0.temperature p) p.Gamma p.gamma
      (p.geometry - 1) p.c_light p.a_rad p.lam0_ p.alpha_ p.beta_ r t = 0 := by
  have hρ' : 0 < Cog12.L0.density p r t := by
    simp only [epv_leaf]; positivity
  exact energyResT_zero_of_split (cog12_flux_near_L0 p r t hr)
    (Cog12.L0.heat_flux_hasDerivAt_r p r t hr hρ' hT hr.ne')
    (cog12_energy_hydro_L0 p r t hr hg hg0 hΓ hγ) (cog12_flux_div_L0 p r t hr hg hg0 hΓ hγ hk hu hρ.ne' hα hβ)

/-! every ok leaf (leaves 1, 2 unfold to the same expressions as leaf 0) -/

theorem cog12_mass (p : Cog12.P) (r t : ℝ) (hr : 0 < r) (hg : p.gamma + 1 ≠ 0) :
    massRes (Cog12.L0.density p) (Cog12.L0.velocity p) (p.geometry - 1) r t = 0
    ∧ massRes (Cog12.L1.density p) (Cog12.L1.velocity p) (p.geometry - 1) r t = 0
    ∧ massRes (Cog12.L2.density p) (Cog12.L2.velocity p) (p.geometry - 1) r t = 0 :=
  ⟨cog12_mass_L0 p r t hr hg, cog12_mass_L0 p r t hr hg, cog12_mass_L0 p r t hr hg⟩

theorem cog12_momentum (p : Cog12.P) (r t : ℝ) (hr : 0 < r) (hg : p.gamma + 1 ≠ 0) (hg0 : p.gamma ≠ 0)
    (hΓ : p.Gamma ≠ 0) (hρ : p.rho0 ≠ 0) :
    momResT (Cog12.L0.density p) (Cog12.L0.velocity p) (Cog12.L0.temperature p) p.Gamma r t = 0
    ∧ momResT (Cog12.L1.density p) (Cog12.L1.velocity p) (Cog12.L1.temperature p) p.Gamma r t = 0
    ∧ momResT (Cog12.L2.density p) (Cog12.L2.velocity p) (Cog12.L2.temperature p) p.Gamma r t = 0 :=
  ⟨cog12_momentum_L0 p r t hr hg hg0 hΓ hρ, cog12_momentum_L0 p r t hr hg hg0 hΓ hρ,
    cog12_momentum_L0 p r t hr hg hg0 hΓ hρ⟩

theorem cog12_energy (p : Cog12.P) (r t : ℝ) (hr : 0 < r) (hg : p.gamma + 1 ≠ 0) (hg0 : p.gamma ≠ 0)
    (hΓ : p.Gamma ≠ 0) (hγ : p.gamma - 1 ≠ 0) (hk : p.geometry - 1 ≠ 0) (hu : p.u0 ≠ 0)
    (hρ : 0 < p.rho0) (hT : 0 < Cog12.L0.temperature p r t)
    (hα : p.alpha_ = cog12_alpha p) (hβ : p.beta_ = p.beta) :
    energyResT (Cog12.L0.density p) (Cog12.L0.velocity p) (Cog12.L0.temperature p) p.Gamma p.gamma
      (p.geometry - 1) p.c_light p.a_rad p.lam0_ p.alpha_ p.beta_ r t = 0
    ∧ energyResT (Cog12.L1.density p) (Cog12.L1.velocity p) (Cog12.L1.temperature p) p.Gamma p.gamma
      (p.geometry - 1) p.c_light p.a_rad p.lam0_ p.alpha_ p.beta_ r t = 0
    ∧ energyResT (Cog12.L2.density p) (Cog12.L2.velocity p) (Cog12.L2.temperature p) p.Gamma p.gamma
      (p.geometry - 1) p.c_light p.a_rad p.lam0_ p.alpha_ p.beta_ r t = 0 :=
  ⟨cog12_energy_L0 p r t hr hg hg0 hΓ hγ hk hu hρ hT hα hβ, cog12_energy_L0 p r t hr hg hg0 hΓ hγ hk hu hρ hT hα hβ,
    cog12_energy_L0 p r t hr hg hg0 hΓ hγ hk hu hρ hT hα hβ⟩

/-- non-vacuity: the hypotheses hold for γ = 1/2 (< 1, as the documentation requires for T > 0) and the
other parameters at the solver's defaults -/
example : ∃ (p : Cog12.P) (r : ℝ), 0 < r ∧ p.gamma + 1 ≠ 0 ∧ p.gamma ≠ 0 ∧ p.Gamma ≠ 0 ∧ p.gamma - 1 ≠ 0 ∧
    p.geometry - 1 ≠ 0 ∧ p.u0 ≠ 0 ∧ 0 < p.rho0 ∧ 0 < Cog12.L0.temperature p r 0 ∧
    p.alpha_ = cog12_alpha p ∧ p.beta_ = p.beta := by
  refine ⟨{ Gamma := 40, a_rad := 1, alpha_ := 23/8, beta := 1, beta_ := 1, c_light := 1,
            gamma := 1/2, geometry := 3, lam0_ := 1, rho0 := 9/5, u0 := 23/10 }, 1, ?_⟩
  simp only [cog12_alpha, epv_leaf]
  norm_num

/-! ### The returned fields (tree level)

The path conditions only select which range warning is printed: on every path the returned
fields are those of leaf 0. -/


theorem cog12_tree (p : Cog12.P) (r t : ℝ) :
    AgreeAt (Cog12.density p) (Cog12.L0.density p) r t
      ∧ AgreeAt (Cog12.velocity p) (Cog12.L0.velocity p) r t
      ∧ AgreeAt (Cog12.temperature p) (Cog12.L0.temperature p) r t := by
  have e : ∀ x s, Cog12.density p x s = Cog12.L0.density p x s
      ∧ Cog12.velocity p x s = Cog12.L0.velocity p x s
      ∧ Cog12.temperature p x s = Cog12.L0.temperature p x s := by
    intro x s
    simp only [epv_tree]
    split_ifs <;> exact ⟨rfl, rfl, rfl⟩
  exact ⟨⟨fun x => (e x t).1, Filter.Eventually.of_forall fun s => (e r s).1⟩,
    ⟨fun x => (e x t).2.1, Filter.Eventually.of_forall fun s => (e r s).2.1⟩,
    ⟨fun x => (e x t).2.2, Filter.Eventually.of_forall fun s => (e r s).2.2⟩⟩

/-- mass balance of the returned (tree-level) fields -/
theorem cog12_mass_tree (p : Cog12.P) (r t : ℝ) (hr : 0 < r) (hg : p.gamma + 1 ≠ 0) :
    massRes (Cog12.density p) (Cog12.velocity p) (p.geometry - 1) r t = 0 := by
  obtain ⟨hρ', hu', hT'⟩ := cog12_tree p r t
  rw [massRes_congr hρ' hu']
  exact cog12_mass_L0 p r t hr hg

/-- momentum balance of the returned (tree-level) fields -/
theorem cog12_momentum_tree (p : Cog12.P) (r t : ℝ) (hr : 0 < r) (hg : p.gamma + 1 ≠ 0) (hg0 : p.gamma ≠ 0)
    (hΓ : p.Gamma ≠ 0) (hρ : p.rho0 ≠ 0) :
    momResT (Cog12.density p) (Cog12.velocity p) (Cog12.temperature p) p.Gamma r t = 0 := by
  obtain ⟨hρ', hu', hT'⟩ := cog12_tree p r t
  rw [momResT_congr hρ' hu' hT']
  exact cog12_momentum_L0 p r t hr hg hg0 hΓ hρ

/-- energy balance of the returned (tree-level) fields -/
theorem cog12_energy_tree (p : Cog12.P) (r t : ℝ) (hr : 0 < r) (hg : p.gamma + 1 ≠ 0) (hg0 : p.gamma ≠ 0)
    (hΓ : p.Gamma ≠ 0) (hγ : p.gamma - 1 ≠ 0) (hk : p.geometry - 1 ≠ 0) (hu : p.u0 ≠ 0)
    (hρ : 0 < p.rho0) (hT : 0 < Cog12.temperature p r t)
    (hα : p.alpha_ = cog12_alpha p) (hβ : p.beta_ = p.beta) :
    energyResT (Cog12.density p) (Cog12.velocity p) (Cog12.temperature p) p.Gamma p.gamma
      (p.geometry - 1) p.c_light p.a_rad p.lam0_ p.alpha_ p.beta_ r t = 0 := by
  obtain ⟨hρ', hu', hT'⟩ := cog12_tree p r t
  rw [hT'.eq] at hT
  rw [energyResT_congr hρ' hu' hT']
  exact cog12_energy_L0 p r t hr hg hg0 hΓ hγ hk hu hρ hT hα hβ

end EPV.C01
