/-
C01 — escape of HE products (EHEP), regions I–V: the returned fields satisfy the planar Euler
equations of a γ = 3 gas wherever the region formulas are smooth.

Model: `EHEP` = `EscapeOfHEProducts.__init__` + `_run`, with the polygon test an atom (`region`);
the leaves below are the region formulas of `_run` (density ≠ 0 variants), named by the pin
`ehep_leaves`.  For each region R ∈ {I, II, III, IV, V}:

* `ehep_R_riemann`  : `(u + c)_t + (u + c)(u + c)_x = 0` and `(u - c)_t + (u - c)(u - c)_x = 0`
  (`Spec.riemannRes`), the form in which [Doebling2015] derives the solution;
* `ehep_R_isentrope`: `ρ = (16 ρ₀ / 9 D) c` and `p = (16 ρ₀ / 27 D) c³` (`p_rho`), hence `c² = 3 p / ρ`;
* `ehep_R_mass`, `ehep_R_momentum`: the planar (k = 0) mass and momentum balances `Spec.massRes`,
  `Spec.momResP` vanish;
* `ehep_R_energy`: the internal-energy balance `Spec.energyResE` vanishes **when γ = 3**
  (the returned `e = p / ρ / (γ - 1)` uses the parameter `gamma`; see C20 for γ ≠ 3).

All identities hold for every real D ≠ 0, ρ₀, u_p, x̃ and every (x, t) at which the region's
formulas are defined (the listed denominators do not vanish).  In region II the statements are
for the unclamped branch `cs > 0` (on the clamped branch cs = p = ρ = 0: vacuum).
-/
import EPV.Gen.EHEP
import EPV.Gen.EHEPD
import EPV.Spec.Euler1D
import EPV.Spec.Detonation
import EPV.Tactics

set_option linter.all false

open EPV EPV.Gen EPV.Spec

namespace EPV.C01

/-- the traced model has exactly the leaves the theorems below name:
23 = I, 22 = II (cs > 0), 19 = III, 18 = IV, 17 = V (each with density ≠ 0) -/
theorem ehep_leaves : EHEP.okLeaves = [7, 8, 9, 10, 11, 12, 13, 14, 15, 16, 17, 18, 19, 20, 21, 22, 23] := rfl

theorem ehep_aux (D t xt : ℝ) (hD : D ≠ 0) (h2 : t - xt / D ≠ 0) : D * t - xt ≠ 0 ∧ t * D - xt ≠ 0 := by
  have : D * t - xt ≠ 0 := by
    intro h; apply h2; field_simp; linarith
  exact ⟨this, by rw [mul_comm]; exact this⟩

/-! ### region I (leaf 23) -/

theorem ehep_I_riemann (p : EHEP.P) (x t : ℝ) (hD : p.D ≠ 0) (ht : t ≠ 0) :
    riemannRes (fun x t => EHEP.L23.velocity p x t + EHEP.L23.sound_speed p x t) x t = 0 ∧
    riemannRes (fun x t => EHEP.L23.velocity p x t - EHEP.L23.sound_speed p x t) x t = 0 := by
  constructor
  · simp only [riemannRes]
    rw [((EHEP.L23.velocity_hasDerivAt_t p x t ht)|> fun h => EPV.D.add h (EHEP.L23.sound_speed_hasDerivAt_t p x t ht)).deriv,
      ((EHEP.L23.velocity_hasDerivAt_x p x t)|> fun h => EPV.D.add h (EHEP.L23.sound_speed_hasDerivAt_x p x t)).deriv]
    simp only [epv_deriv, epv_leaf]
    skip
    field_simp
    ring
  · simp only [riemannRes]
    rw [((EHEP.L23.velocity_hasDerivAt_t p x t ht)|> fun h => EPV.D.sub h (EHEP.L23.sound_speed_hasDerivAt_t p x t ht)).deriv,
      ((EHEP.L23.velocity_hasDerivAt_x p x t)|> fun h => EPV.D.sub h (EHEP.L23.sound_speed_hasDerivAt_x p x t)).deriv]
    simp only [epv_deriv, epv_leaf]
    skip
    field_simp
    ring

theorem ehep_I_isentrope (p : EHEP.P) (x t : ℝ) (hD : p.D ≠ 0) :
    EHEP.L23.density p x t = 16 * p.rho_0 / (9 * p.D) * EHEP.L23.sound_speed p x t ∧
    EHEP.L23.pressure p x t = 16 * p.rho_0 / (27 * p.D) * EHEP.L23.sound_speed p x t ^ 3 := by
  constructor <;> simp only [epv_leaf] <;> field_simp <;> (try ring1)

theorem ehep_I_mass (p : EHEP.P) (x t : ℝ) (hD : p.D ≠ 0) (ht : t ≠ 0) :
    massRes (EHEP.L23.density p) (EHEP.L23.velocity p) 0 x t = 0 := by
  simp only [massRes, dr, dt]
  rw [(EHEP.L23.density_hasDerivAt_t p x t ht).deriv, (EHEP.L23.density_hasDerivAt_x p x t).deriv,
    (EHEP.L23.velocity_hasDerivAt_x p x t).deriv]
  simp only [epv_deriv, epv_leaf]
  skip
  field_simp
  ring

theorem ehep_I_momentum (p : EHEP.P) (x t : ℝ) (hD : p.D ≠ 0) (ht : t ≠ 0)
    (hρ : EHEP.L23.density p x t ≠ 0) :
    momResP (EHEP.L23.density p) (EHEP.L23.velocity p) (EHEP.L23.pressure p) x t = 0 := by
  simp only [momResP, dr, dt]
  rw [(EHEP.L23.velocity_hasDerivAt_t p x t ht).deriv, (EHEP.L23.velocity_hasDerivAt_x p x t).deriv,
    (EHEP.L23.pressure_hasDerivAt_x p x t).deriv]
  simp only [epv_deriv, epv_leaf] at hρ ⊢
  have hρ0 : p.rho_0 ≠ 0 := by
    intro h0; apply hρ; rw [h0]; simp
  have hcs : EHEP.L23.sound_speed p x t ≠ 0 := by
    intro h0; apply hρ; simp only [epv_leaf] at h0 ⊢; rw [h0]; simp
  simp only [epv_leaf] at hcs
  skip
  field_simp
  ring

theorem ehep_I_energy (p : EHEP.P) (x t : ℝ) (hD : p.D ≠ 0) (ht : t ≠ 0)
    (hρ : EHEP.L23.density p x t ≠ 0) (hγ : p.gamma = 3) :
    energyResE (EHEP.L23.density p) (EHEP.L23.velocity p) (EHEP.L23.pressure p)
      (EHEP.L23.specific_internal_energy p) 0 x t = 0 := by
  simp only [energyResE, dr, dt]
  rw [(EHEP.L23.specific_internal_energy_hasDerivAt_t p x t ht hρ).deriv,
    (EHEP.L23.specific_internal_energy_hasDerivAt_x p x t hρ).deriv,
    (EHEP.L23.velocity_hasDerivAt_x p x t).deriv]
  simp only [epv_deriv, epv_leaf, hγ] at hρ ⊢
  have hρ0 : p.rho_0 ≠ 0 := by
    intro h0; apply hρ; rw [h0]; simp
  have hcs : EHEP.L23.sound_speed p x t ≠ 0 := by
    intro h0; apply hρ; simp only [epv_leaf] at h0 ⊢; rw [h0]; simp
  simp only [epv_leaf] at hcs
  skip
  field_simp
  ring

/-- non-vacuity: the hypotheses of the region I theorems hold at the default parameters -/
example : ∃ (p : EHEP.P) (x t : ℝ), p.D ≠ 0 ∧ t ≠ 0 ∧ EHEP.L23.density p x t ≠ 0 ∧ p.gamma = 3 := by
  refine ⟨⟨17/20, 3, 0, 8/5, 10, 1/20, 10, 1⟩, 7/10, 1, ?_⟩
  simp only [epv_leaf]
  norm_num

/-! ### region II (leaf 22) -/

theorem ehep_II_riemann (p : EHEP.P) (x t : ℝ) (hD : p.D ≠ 0) (ht : t ≠ 0) (h2 : t - p.xtilde / p.D ≠ 0) :
    riemannRes (fun x t => EHEP.L22.velocity p x t + EHEP.L22.sound_speed p x t) x t = 0 ∧
    riemannRes (fun x t => EHEP.L22.velocity p x t - EHEP.L22.sound_speed p x t) x t = 0 := by
  constructor
  · simp only [riemannRes]
    rw [((EHEP.L22.velocity_hasDerivAt_t p x t ht h2)|> fun h => EPV.D.add h (EHEP.L22.sound_speed_hasDerivAt_t p x t ht h2)).deriv,
      ((EHEP.L22.velocity_hasDerivAt_x p x t)|> fun h => EPV.D.add h (EHEP.L22.sound_speed_hasDerivAt_x p x t)).deriv]
    simp only [epv_deriv, epv_leaf]
    have ⟨h2a, h2b⟩ := ehep_aux p.D t p.xtilde hD h2
    field_simp
    ring
  · simp only [riemannRes]
    rw [((EHEP.L22.velocity_hasDerivAt_t p x t ht h2)|> fun h => EPV.D.sub h (EHEP.L22.sound_speed_hasDerivAt_t p x t ht h2)).deriv,
      ((EHEP.L22.velocity_hasDerivAt_x p x t)|> fun h => EPV.D.sub h (EHEP.L22.sound_speed_hasDerivAt_x p x t)).deriv]
    simp only [epv_deriv, epv_leaf]
    have ⟨h2a, h2b⟩ := ehep_aux p.D t p.xtilde hD h2
    field_simp
    ring

theorem ehep_II_isentrope (p : EHEP.P) (x t : ℝ) (hD : p.D ≠ 0) :
    EHEP.L22.density p x t = 16 * p.rho_0 / (9 * p.D) * EHEP.L22.sound_speed p x t ∧
    EHEP.L22.pressure p x t = 16 * p.rho_0 / (27 * p.D) * EHEP.L22.sound_speed p x t ^ 3 := by
  constructor <;> simp only [epv_leaf] <;> field_simp <;> (try ring1)

theorem ehep_II_mass (p : EHEP.P) (x t : ℝ) (hD : p.D ≠ 0) (ht : t ≠ 0) (h2 : t - p.xtilde / p.D ≠ 0) :
    massRes (EHEP.L22.density p) (EHEP.L22.velocity p) 0 x t = 0 := by
  simp only [massRes, dr, dt]
  rw [(EHEP.L22.density_hasDerivAt_t p x t ht h2).deriv, (EHEP.L22.density_hasDerivAt_x p x t).deriv,
    (EHEP.L22.velocity_hasDerivAt_x p x t).deriv]
  simp only [epv_deriv, epv_leaf]
  have ⟨h2a, h2b⟩ := ehep_aux p.D t p.xtilde hD h2
  field_simp
  ring

theorem ehep_II_momentum (p : EHEP.P) (x t : ℝ) (hD : p.D ≠ 0) (ht : t ≠ 0) (h2 : t - p.xtilde / p.D ≠ 0)
    (hρ : EHEP.L22.density p x t ≠ 0) :
    momResP (EHEP.L22.density p) (EHEP.L22.velocity p) (EHEP.L22.pressure p) x t = 0 := by
  simp only [momResP, dr, dt]
  rw [(EHEP.L22.velocity_hasDerivAt_t p x t ht h2).deriv, (EHEP.L22.velocity_hasDerivAt_x p x t).deriv,
    (EHEP.L22.pressure_hasDerivAt_x p x t).deriv]
  simp only [epv_deriv, epv_leaf] at hρ ⊢
  have hρ0 : p.rho_0 ≠ 0 := by
    intro h0; apply hρ; rw [h0]; simp
  have hcs : EHEP.L22.sound_speed p x t ≠ 0 := by
    intro h0; apply hρ; simp only [epv_leaf] at h0 ⊢; rw [h0]; simp
  simp only [epv_leaf] at hcs
  have ⟨h2a, h2b⟩ := ehep_aux p.D t p.xtilde hD h2
  field_simp
  ring

theorem ehep_II_energy (p : EHEP.P) (x t : ℝ) (hD : p.D ≠ 0) (ht : t ≠ 0) (h2 : t - p.xtilde / p.D ≠ 0)
    (hρ : EHEP.L22.density p x t ≠ 0) (hγ : p.gamma = 3) :
    energyResE (EHEP.L22.density p) (EHEP.L22.velocity p) (EHEP.L22.pressure p)
      (EHEP.L22.specific_internal_energy p) 0 x t = 0 := by
  simp only [energyResE, dr, dt]
  rw [(EHEP.L22.specific_internal_energy_hasDerivAt_t p x t ht h2 hρ).deriv,
    (EHEP.L22.specific_internal_energy_hasDerivAt_x p x t hρ).deriv,
    (EHEP.L22.velocity_hasDerivAt_x p x t).deriv]
  simp only [epv_deriv, epv_leaf, hγ] at hρ ⊢
  have hρ0 : p.rho_0 ≠ 0 := by
    intro h0; apply hρ; rw [h0]; simp
  have hcs : EHEP.L22.sound_speed p x t ≠ 0 := by
    intro h0; apply hρ; simp only [epv_leaf] at h0 ⊢; rw [h0]; simp
  simp only [epv_leaf] at hcs
  have ⟨h2a, h2b⟩ := ehep_aux p.D t p.xtilde hD h2
  field_simp
  ring

/-- non-vacuity: the hypotheses of the region II theorems hold at the default parameters -/
example : ∃ (p : EHEP.P) (x t : ℝ), p.D ≠ 0 ∧ t ≠ 0 ∧ t - p.xtilde / p.D ≠ 0 ∧ EHEP.L22.density p x t ≠ 0 ∧ p.gamma = 3 := by
  refine ⟨⟨17/20, 3, 0, 8/5, 10, 1/20, 10, 1⟩, 6/5, 8/5, ?_⟩
  simp only [epv_leaf]
  norm_num

/-! ### region III (leaf 19) -/

theorem ehep_III_riemann (p : EHEP.P) (x t : ℝ) (hD : p.D ≠ 0) :
    riemannRes (fun x t => EHEP.L19.velocity p x t + EHEP.L19.sound_speed p x t) x t = 0 ∧
    riemannRes (fun x t => EHEP.L19.velocity p x t - EHEP.L19.sound_speed p x t) x t = 0 := by
  constructor
  · simp only [riemannRes]
    rw [((EHEP.L19.velocity_hasDerivAt_t p x t)|> fun h => EPV.D.add h (EHEP.L19.sound_speed_hasDerivAt_t p x t)).deriv,
      ((EHEP.L19.velocity_hasDerivAt_x p x t)|> fun h => EPV.D.add h (EHEP.L19.sound_speed_hasDerivAt_x p x t)).deriv]
    simp only [epv_deriv, epv_leaf]
    skip
    field_simp
    ring
  · simp only [riemannRes]
    rw [((EHEP.L19.velocity_hasDerivAt_t p x t)|> fun h => EPV.D.sub h (EHEP.L19.sound_speed_hasDerivAt_t p x t)).deriv,
      ((EHEP.L19.velocity_hasDerivAt_x p x t)|> fun h => EPV.D.sub h (EHEP.L19.sound_speed_hasDerivAt_x p x t)).deriv]
    simp only [epv_deriv, epv_leaf]
    skip
    field_simp
    ring

theorem ehep_III_isentrope (p : EHEP.P) (x t : ℝ) (hD : p.D ≠ 0) :
    EHEP.L19.density p x t = 16 * p.rho_0 / (9 * p.D) * EHEP.L19.sound_speed p x t ∧
    EHEP.L19.pressure p x t = 16 * p.rho_0 / (27 * p.D) * EHEP.L19.sound_speed p x t ^ 3 := by
  constructor <;> simp only [epv_leaf] <;> field_simp <;> (try ring1)

theorem ehep_III_mass (p : EHEP.P) (x t : ℝ) (hD : p.D ≠ 0) :
    massRes (EHEP.L19.density p) (EHEP.L19.velocity p) 0 x t = 0 := by
  simp only [massRes, dr, dt]
  rw [(EHEP.L19.density_hasDerivAt_t p x t).deriv, (EHEP.L19.density_hasDerivAt_x p x t).deriv,
    (EHEP.L19.velocity_hasDerivAt_x p x t).deriv]
  simp only [epv_deriv, epv_leaf]
  skip
  field_simp
  ring

theorem ehep_III_momentum (p : EHEP.P) (x t : ℝ) (hD : p.D ≠ 0)
    (hρ : EHEP.L19.density p x t ≠ 0) :
    momResP (EHEP.L19.density p) (EHEP.L19.velocity p) (EHEP.L19.pressure p) x t = 0 := by
  simp only [momResP, dr, dt]
  rw [(EHEP.L19.velocity_hasDerivAt_t p x t).deriv, (EHEP.L19.velocity_hasDerivAt_x p x t).deriv,
    (EHEP.L19.pressure_hasDerivAt_x p x t).deriv]
  simp only [epv_deriv, epv_leaf] at hρ ⊢
  have hρ0 : p.rho_0 ≠ 0 := by
    intro h0; apply hρ; rw [h0]; simp
  have hcs : EHEP.L19.sound_speed p x t ≠ 0 := by
    intro h0; apply hρ; simp only [epv_leaf] at h0 ⊢; rw [h0]; simp
  simp only [epv_leaf] at hcs
  skip
  field_simp
  ring

theorem ehep_III_energy (p : EHEP.P) (x t : ℝ) (hD : p.D ≠ 0)
    (hρ : EHEP.L19.density p x t ≠ 0) (hγ : p.gamma = 3) :
    energyResE (EHEP.L19.density p) (EHEP.L19.velocity p) (EHEP.L19.pressure p)
      (EHEP.L19.specific_internal_energy p) 0 x t = 0 := by
  simp only [energyResE, dr, dt]
  rw [(EHEP.L19.specific_internal_energy_hasDerivAt_t p x t).deriv,
    (EHEP.L19.specific_internal_energy_hasDerivAt_x p x t).deriv,
    (EHEP.L19.velocity_hasDerivAt_x p x t).deriv]
  simp only [epv_deriv, epv_leaf, hγ] at hρ ⊢
  have hρ0 : p.rho_0 ≠ 0 := by
    intro h0; apply hρ; rw [h0]; simp
  have hcs : EHEP.L19.sound_speed p x t ≠ 0 := by
    intro h0; apply hρ; simp only [epv_leaf] at h0 ⊢; rw [h0]; simp
  simp only [epv_leaf] at hcs
  skip
  field_simp
  ring

/-- non-vacuity: the hypotheses of the region III theorems hold at the default parameters -/
example : ∃ (p : EHEP.P) (x t : ℝ), p.D ≠ 0 ∧ EHEP.L19.density p x t ≠ 0 ∧ p.gamma = 3 := by
  refine ⟨⟨17/20, 3, 0, 8/5, 10, 1/20, 10, 1⟩, 3/10, 1, ?_⟩
  simp only [epv_leaf]
  norm_num

/-! ### region IV (leaf 18) -/

theorem ehep_IV_riemann (p : EHEP.P) (x t : ℝ) (hD : p.D ≠ 0) (h4 : p.D * t - p.xtilde ≠ 0) :
    riemannRes (fun x t => EHEP.L18.velocity p x t + EHEP.L18.sound_speed p x t) x t = 0 ∧
    riemannRes (fun x t => EHEP.L18.velocity p x t - EHEP.L18.sound_speed p x t) x t = 0 := by
  constructor
  · simp only [riemannRes]
    rw [((EHEP.L18.velocity_hasDerivAt_t p x t h4)|> fun h => EPV.D.add h (EHEP.L18.sound_speed_hasDerivAt_t p x t h4)).deriv,
      ((EHEP.L18.velocity_hasDerivAt_x p x t)|> fun h => EPV.D.add h (EHEP.L18.sound_speed_hasDerivAt_x p x t)).deriv]
    simp only [epv_deriv, epv_leaf]
    have h4b : t * p.D - p.xtilde ≠ 0 := by rw [mul_comm]; exact h4
    field_simp
    ring
  · simp only [riemannRes]
    rw [((EHEP.L18.velocity_hasDerivAt_t p x t h4)|> fun h => EPV.D.sub h (EHEP.L18.sound_speed_hasDerivAt_t p x t h4)).deriv,
      ((EHEP.L18.velocity_hasDerivAt_x p x t)|> fun h => EPV.D.sub h (EHEP.L18.sound_speed_hasDerivAt_x p x t)).deriv]
    simp only [epv_deriv, epv_leaf]
    have h4b : t * p.D - p.xtilde ≠ 0 := by rw [mul_comm]; exact h4
    field_simp
    ring

theorem ehep_IV_isentrope (p : EHEP.P) (x t : ℝ) (hD : p.D ≠ 0) :
    EHEP.L18.density p x t = 16 * p.rho_0 / (9 * p.D) * EHEP.L18.sound_speed p x t ∧
    EHEP.L18.pressure p x t = 16 * p.rho_0 / (27 * p.D) * EHEP.L18.sound_speed p x t ^ 3 := by
  constructor <;> simp only [epv_leaf] <;> field_simp <;> (try ring1)

theorem ehep_IV_mass (p : EHEP.P) (x t : ℝ) (hD : p.D ≠ 0) (h4 : p.D * t - p.xtilde ≠ 0) :
    massRes (EHEP.L18.density p) (EHEP.L18.velocity p) 0 x t = 0 := by
  simp only [massRes, dr, dt]
  rw [(EHEP.L18.density_hasDerivAt_t p x t h4).deriv, (EHEP.L18.density_hasDerivAt_x p x t).deriv,
    (EHEP.L18.velocity_hasDerivAt_x p x t).deriv]
  simp only [epv_deriv, epv_leaf]
  have h4b : t * p.D - p.xtilde ≠ 0 := by rw [mul_comm]; exact h4
  field_simp
  ring

theorem ehep_IV_momentum (p : EHEP.P) (x t : ℝ) (hD : p.D ≠ 0) (h4 : p.D * t - p.xtilde ≠ 0)
    (hρ : EHEP.L18.density p x t ≠ 0) :
    momResP (EHEP.L18.density p) (EHEP.L18.velocity p) (EHEP.L18.pressure p) x t = 0 := by
  simp only [momResP, dr, dt]
  rw [(EHEP.L18.velocity_hasDerivAt_t p x t h4).deriv, (EHEP.L18.velocity_hasDerivAt_x p x t).deriv,
    (EHEP.L18.pressure_hasDerivAt_x p x t).deriv]
  simp only [epv_deriv, epv_leaf] at hρ ⊢
  have hρ0 : p.rho_0 ≠ 0 := by
    intro h0; apply hρ; rw [h0]; simp
  have hcs : EHEP.L18.sound_speed p x t ≠ 0 := by
    intro h0; apply hρ; simp only [epv_leaf] at h0 ⊢; rw [h0]; simp
  simp only [epv_leaf] at hcs
  have h4b : t * p.D - p.xtilde ≠ 0 := by rw [mul_comm]; exact h4
  field_simp
  ring

theorem ehep_IV_energy (p : EHEP.P) (x t : ℝ) (hD : p.D ≠ 0) (h4 : p.D * t - p.xtilde ≠ 0)
    (hρ : EHEP.L18.density p x t ≠ 0) (hγ : p.gamma = 3) :
    energyResE (EHEP.L18.density p) (EHEP.L18.velocity p) (EHEP.L18.pressure p)
      (EHEP.L18.specific_internal_energy p) 0 x t = 0 := by
  simp only [energyResE, dr, dt]
  rw [(EHEP.L18.specific_internal_energy_hasDerivAt_t p x t h4 hρ).deriv,
    (EHEP.L18.specific_internal_energy_hasDerivAt_x p x t hρ).deriv,
    (EHEP.L18.velocity_hasDerivAt_x p x t).deriv]
  simp only [epv_deriv, epv_leaf, hγ] at hρ ⊢
  have hρ0 : p.rho_0 ≠ 0 := by
    intro h0; apply hρ; rw [h0]; simp
  have hcs : EHEP.L18.sound_speed p x t ≠ 0 := by
    intro h0; apply hρ; simp only [epv_leaf] at h0 ⊢; rw [h0]; simp
  simp only [epv_leaf] at hcs
  have h4b : t * p.D - p.xtilde ≠ 0 := by rw [mul_comm]; exact h4
  field_simp
  ring

/-- non-vacuity: the hypotheses of the region IV theorems hold at the default parameters -/
example : ∃ (p : EHEP.P) (x t : ℝ), p.D ≠ 0 ∧ p.D * t - p.xtilde ≠ 0 ∧ EHEP.L18.density p x t ≠ 0 ∧ p.gamma = 3 := by
  refine ⟨⟨17/20, 3, 0, 8/5, 10, 1/20, 10, 1⟩, 3/2, 3, ?_⟩
  simp only [epv_leaf]
  norm_num

/-! ### region V (leaf 17) -/

theorem ehep_V_riemann (p : EHEP.P) (x t : ℝ) (hD : p.D ≠ 0) (h2 : t - p.xtilde / p.D ≠ 0) :
    riemannRes (fun x t => EHEP.L17.velocity p x t + EHEP.L17.sound_speed p x t) x t = 0 ∧
    riemannRes (fun x t => EHEP.L17.velocity p x t - EHEP.L17.sound_speed p x t) x t = 0 := by
  constructor
  · simp only [riemannRes]
    rw [((EHEP.L17.velocity_hasDerivAt_t p x t h2)|> fun h => EPV.D.add h (EHEP.L17.sound_speed_hasDerivAt_t p x t h2)).deriv,
      ((EHEP.L17.velocity_hasDerivAt_x p x t)|> fun h => EPV.D.add h (EHEP.L17.sound_speed_hasDerivAt_x p x t)).deriv]
    simp only [epv_deriv, epv_leaf]
    have ⟨h2a, h2b⟩ := ehep_aux p.D t p.xtilde hD h2
    field_simp
    ring
  · simp only [riemannRes]
    rw [((EHEP.L17.velocity_hasDerivAt_t p x t h2)|> fun h => EPV.D.sub h (EHEP.L17.sound_speed_hasDerivAt_t p x t h2)).deriv,
      ((EHEP.L17.velocity_hasDerivAt_x p x t)|> fun h => EPV.D.sub h (EHEP.L17.sound_speed_hasDerivAt_x p x t)).deriv]
    simp only [epv_deriv, epv_leaf]
    have ⟨h2a, h2b⟩ := ehep_aux p.D t p.xtilde hD h2
    field_simp
    ring

theorem ehep_V_isentrope (p : EHEP.P) (x t : ℝ) (hD : p.D ≠ 0) :
    EHEP.L17.density p x t = 16 * p.rho_0 / (9 * p.D) * EHEP.L17.sound_speed p x t ∧
    EHEP.L17.pressure p x t = 16 * p.rho_0 / (27 * p.D) * EHEP.L17.sound_speed p x t ^ 3 := by
  constructor <;> simp only [epv_leaf] <;> field_simp <;> (try ring1)

theorem ehep_V_mass (p : EHEP.P) (x t : ℝ) (hD : p.D ≠ 0) (h2 : t - p.xtilde / p.D ≠ 0) :
    massRes (EHEP.L17.density p) (EHEP.L17.velocity p) 0 x t = 0 := by
  simp only [massRes, dr, dt]
  rw [(EHEP.L17.density_hasDerivAt_t p x t h2).deriv, (EHEP.L17.density_hasDerivAt_x p x t).deriv,
    (EHEP.L17.velocity_hasDerivAt_x p x t).deriv]
  simp only [epv_deriv, epv_leaf]
  have ⟨h2a, h2b⟩ := ehep_aux p.D t p.xtilde hD h2
  field_simp
  ring

theorem ehep_V_momentum (p : EHEP.P) (x t : ℝ) (hD : p.D ≠ 0) (h2 : t - p.xtilde / p.D ≠ 0)
    (hρ : EHEP.L17.density p x t ≠ 0) :
    momResP (EHEP.L17.density p) (EHEP.L17.velocity p) (EHEP.L17.pressure p) x t = 0 := by
  simp only [momResP, dr, dt]
  rw [(EHEP.L17.velocity_hasDerivAt_t p x t h2).deriv, (EHEP.L17.velocity_hasDerivAt_x p x t).deriv,
    (EHEP.L17.pressure_hasDerivAt_x p x t).deriv]
  simp only [epv_deriv, epv_leaf] at hρ ⊢
  have hρ0 : p.rho_0 ≠ 0 := by
    intro h0; apply hρ; rw [h0]; simp
  have hcs : EHEP.L17.sound_speed p x t ≠ 0 := by
    intro h0; apply hρ; simp only [epv_leaf] at h0 ⊢; rw [h0]; simp
  simp only [epv_leaf] at hcs
  have ⟨h2a, h2b⟩ := ehep_aux p.D t p.xtilde hD h2
  field_simp
  ring

theorem ehep_V_energy (p : EHEP.P) (x t : ℝ) (hD : p.D ≠ 0) (h2 : t - p.xtilde / p.D ≠ 0)
    (hρ : EHEP.L17.density p x t ≠ 0) (hγ : p.gamma = 3) :
    energyResE (EHEP.L17.density p) (EHEP.L17.velocity p) (EHEP.L17.pressure p)
      (EHEP.L17.specific_internal_energy p) 0 x t = 0 := by
  simp only [energyResE, dr, dt]
  rw [(EHEP.L17.specific_internal_energy_hasDerivAt_t p x t h2 hρ).deriv,
    (EHEP.L17.specific_internal_energy_hasDerivAt_x p x t).deriv,
    (EHEP.L17.velocity_hasDerivAt_x p x t).deriv]
  simp only [epv_deriv, epv_leaf, hγ] at hρ ⊢
  have hρ0 : p.rho_0 ≠ 0 := by
    intro h0; apply hρ; rw [h0]; simp
  have hcs : EHEP.L17.sound_speed p x t ≠ 0 := by
    intro h0; apply hρ; simp only [epv_leaf] at h0 ⊢; rw [h0]; simp
  simp only [epv_leaf] at hcs
  have ⟨h2a, h2b⟩ := ehep_aux p.D t p.xtilde hD h2
  field_simp
  ring

/-- non-vacuity: the hypotheses of the region V theorems hold at the default parameters -/
example : ∃ (p : EHEP.P) (x t : ℝ), p.D ≠ 0 ∧ t - p.xtilde / p.D ≠ 0 ∧ EHEP.L17.density p x t ≠ 0 ∧ p.gamma = 3 := by
  refine ⟨⟨17/20, 3, 0, 8/5, 10, 1/20, 10, 1⟩, 1, 5, ?_⟩
  simp only [epv_leaf]
  norm_num

end EPV.C01
