/-
C01 (Sedov share, PARTIAL) — the similarity function λ(v) of `sedov_funcs_standard` and its coded
derivative: `dlamdv` IS dλ/dv, in all three singularity branches (special_singularity none /
omega2 / omega3; generated models SedovFuncs / SedovFuncsO2 / SedovFuncsO3 with their derivative
certificates), wherever neither of the two guards `max(1e-30, c_val v - 1)`, `max(x4, 1e-12)` is
active and the power bases are positive; the derived constants a0…a5, a_val…e_val are arbitrary
reals.  (On the guarded leaves the identity is false by construction: λ is computed from the
clamped value while `dlamdv` keeps the unclamped slope; they are reached only at/below the end
v = v0 of the interval and at the vacuum boundary v = vv.)

What is NOT proved (growth target): that f, g, h of `sedov_funcs_standard` solve the similarity
ODEs of the Euler equations.  The returned fields are ρ₂ g, u₂ f, p₂ h at λ = r/r2(t): generated
models SedovRunStd/Vac/Sing (Props/C11/SedovAmbient.lean, Props/C03/Sedov.lean).
-/
import EPV.Gen.SedovFuncsD
import EPV.Gen.SedovFuncsO2D
import EPV.Gen.SedovFuncsO3D
import EPV.Lemmas.SedovFuncs

set_option linter.all false
set_option maxRecDepth 100000

open EPV EPV.Gen EPV.Sedov

namespace EPV.C01

/-- SedovFuncs : the coded `dlamdv` IS the derivative of the coded λ(v),
wherever neither guard is active and the three power bases are positive -/
theorem SedovFuncs_dlamdv (p : SedovFuncs.P) (v : ℝ) (hs1 : 0 < p.a_val * v) (hs2 : 0 < p.b_val * (p.c_val * v - 1)) (hs3 : 0 < p.d_val * (1 - p.e_val * v)) :
    HasDerivAt (fun v => SedovFuncs.L1.l_fun p v) (SedovFuncs.L1.dlamdv p v) v := by
  -- the certificate's side conditions (number, order and form follow the Python) are discharged from hs1 hs2 hs3
  epv_hydro_have_cert hcert : SedovFuncs.L1.l_fun_hasDerivAt_v p v
  refine hcert.congr_deriv ?_
  simp only [epv_semi_deriv, epv_semi_leaf]
  have h1 := hs1.ne'; have h2 := hs2.ne'; have h3 := hs3.ne'
  have h4 : p.a_val ≠ 0 := left_ne_zero_of_mul h1
  have h5 : p.b_val ≠ 0 := left_ne_zero_of_mul h2
  have h6 : p.d_val ≠ 0 := left_ne_zero_of_mul h3
  field_simp
  ring

/-- SedovFuncs, tree level: on the unguarded leaf the returned `dlamdv` is dλ/dv of the returned λ -/
theorem SedovFuncs_dlamdv_tree (p : SedovFuncs.P) (v : ℝ) (hleaf : ¬ SedovFuncs.c0 p v ∧
    ((4951760157141521 : ℝ) / 4951760157141521099596496896) < p.b_val * (1 - 1 / 2 * p.xg2 * v)) (hs1 : 0 < p.a_val * v) (hs2 : 0 < p.b_val * (p.c_val * v - 1)) (hs3 : 0 < p.d_val * (1 - p.e_val * v)) :
    HasDerivAt (fun v => SedovFuncs.l_fun p v) (SedovFuncs.dlamdv p v) v := by
  have hc0 : ¬ SedovFuncs.c0 p v := hleaf.1
  have hc1 : SedovFuncs.c1 p v := by simp only [epv_semi_cond]; exact hleaf.2.le
  have hval : SedovFuncs.dlamdv p v = SedovFuncs.L1.dlamdv p v := by
    simp only [epv_tree, hc0, hc1, if_false, if_true]
  rw [hval]
  refine (SedovFuncs_dlamdv p v hs1 hs2 hs3).congr_of_eventuallyEq ?_
  -- both guards are open conditions in v
  have hopen0 : ∀ᶠ w in nhds v, ¬ SedovFuncs.c0 p w := by
    simp only [epv_semi_cond, not_le] at hc0 ⊢
    have hcont : Continuous fun w : ℝ => p.c_val * w - 1 := by fun_prop
    exact hcont.continuousAt.eventually (lt_mem_nhds hc0)
  have hopen1 : ∀ᶠ w in nhds v, SedovFuncs.c1 p w := by
    simp only [epv_semi_cond]
    have hcont : Continuous fun w : ℝ => p.b_val * (1 - 1 / 2 * p.xg2 * w) := by fun_prop
    exact (hcont.continuousAt.eventually (lt_mem_nhds hleaf.2)).mono fun w hw => hw.le
  filter_upwards [hopen0, hopen1] with w h0 h1
  simp only [epv_tree, h0, h1, if_false, if_true]

/-- SedovFuncsO2 : the coded `dlamdv` IS the derivative of the coded λ(v),
wherever neither guard is active and the three power bases are positive -/
theorem SedovFuncsO2_dlamdv (p : SedovFuncsO2.P) (v : ℝ) (hs1 : 0 < p.a_val * v) (hs2 : 0 < p.b_val * (p.c_val * v - 1)) (hs3 : p.a_val * v - 1 / 2 * p.gamp1 / p.gamma ≠ 0) :
    HasDerivAt (fun v => SedovFuncsO2.L1.l_fun p v) (SedovFuncsO2.L1.dlamdv p v) v := by
  -- the certificate's side conditions (number, order and form follow the Python) are discharged from hs1 hs2 hs3
  epv_hydro_have_cert hcert : SedovFuncsO2.L1.l_fun_hasDerivAt_v p v
  refine hcert.congr_deriv ?_
  simp only [epv_semi_deriv, epv_semi_leaf]
  -- the transcendental atoms and the two denominators, then it is a polynomial identity
  generalize Real.exp ((p.gamp1 * ((1 : ℝ) / ((2 : ℝ) * p.e_val))) * (((1 : ℝ) - (p.a_val * v)) * ((1 : ℝ) / ((p.a_val * v) - ((((1 : ℝ) / 2) * p.gamp1) / p.gamma))))) = Ex
  generalize (p.b_val * ((p.c_val * v) - (1 : ℝ))) ^ (p.gamm1 * ((1 : ℝ) / ((2 : ℝ) * p.e_val))) = Bq
  generalize (p.a_val * v) ^ (-p.a0) = A
  generalize (1 : ℝ) / ((2 : ℝ) * p.e_val) = β
  generalize hD : (p.a_val * v) - ((((1 : ℝ) / 2) * p.gamp1) / p.gamma) = D
  have hD0 : D ≠ 0 := by rw [← hD]; simpa using hs3
  have h1 := hs1.ne'; have h2 := hs2.ne'
  have h4 : p.a_val ≠ 0 := left_ne_zero_of_mul h1
  have h5 : p.b_val ≠ 0 := left_ne_zero_of_mul h2
  field_simp
  ring

/-- SedovFuncsO2, tree level: on the unguarded leaf the returned `dlamdv` is dλ/dv of the returned λ -/
theorem SedovFuncsO2_dlamdv_tree (p : SedovFuncsO2.P) (v : ℝ) (hleaf : ¬ SedovFuncsO2.c0 p v ∧
    ((4951760157141521 : ℝ) / 4951760157141521099596496896) < p.b_val * (1 - 1 / 2 * p.xg2 * v)) (hs1 : 0 < p.a_val * v) (hs2 : 0 < p.b_val * (p.c_val * v - 1)) (hs3 : p.a_val * v - 1 / 2 * p.gamp1 / p.gamma ≠ 0) :
    HasDerivAt (fun v => SedovFuncsO2.l_fun p v) (SedovFuncsO2.dlamdv p v) v := by
  have hc0 : ¬ SedovFuncsO2.c0 p v := hleaf.1
  have hc1 : SedovFuncsO2.c1 p v := by simp only [epv_semi_cond]; exact hleaf.2.le
  have hval : SedovFuncsO2.dlamdv p v = SedovFuncsO2.L1.dlamdv p v := by
    simp only [epv_tree, hc0, hc1, if_false, if_true]
  rw [hval]
  refine (SedovFuncsO2_dlamdv p v hs1 hs2 hs3).congr_of_eventuallyEq ?_
  -- both guards are open conditions in v
  have hopen0 : ∀ᶠ w in nhds v, ¬ SedovFuncsO2.c0 p w := by
    simp only [epv_semi_cond, not_le] at hc0 ⊢
    have hcont : Continuous fun w : ℝ => p.c_val * w - 1 := by fun_prop
    exact hcont.continuousAt.eventually (lt_mem_nhds hc0)
  have hopen1 : ∀ᶠ w in nhds v, SedovFuncsO2.c1 p w := by
    simp only [epv_semi_cond]
    have hcont : Continuous fun w : ℝ => p.b_val * (1 - 1 / 2 * p.xg2 * w) := by fun_prop
    exact (hcont.continuousAt.eventually (lt_mem_nhds hleaf.2)).mono fun w hw => hw.le
  filter_upwards [hopen0, hopen1] with w h0 h1
  simp only [epv_tree, h0, h1, if_false, if_true]

/-- SedovFuncsO3 : the coded `dlamdv` IS the derivative of the coded λ(v),
wherever neither guard is active and the three power bases are positive -/
theorem SedovFuncsO3_dlamdv (p : SedovFuncsO3.P) (v : ℝ) (hs1 : 0 < p.a_val * v) (hs2 : 0 < p.b_val * (p.c_val * v - 1)) (hs3 : 0 < p.b_val * (1 - 1 / 2 * p.xg2 * v)) :
    HasDerivAt (fun v => SedovFuncsO3.L1.l_fun p v) (SedovFuncsO3.L1.dlamdv p v) v := by
  -- the certificate's side conditions (number, order and form follow the Python) are discharged from hs1 hs2 hs3
  epv_hydro_have_cert hcert : SedovFuncsO3.L1.l_fun_hasDerivAt_v p v
  refine hcert.congr_deriv ?_
  simp only [epv_semi_deriv, epv_semi_leaf]
  have h1 := hs1.ne'; have h2 := hs2.ne'; have h3 := hs3.ne'
  have h4 : p.a_val ≠ 0 := left_ne_zero_of_mul h1
  have h5 : p.b_val ≠ 0 := left_ne_zero_of_mul h2
  field_simp
  ring

/-- SedovFuncsO3, tree level: on the unguarded leaf the returned `dlamdv` is dλ/dv of the returned λ -/
theorem SedovFuncsO3_dlamdv_tree (p : SedovFuncsO3.P) (v : ℝ) (hleaf : ¬ SedovFuncsO3.c0 p v ∧
    ((4951760157141521 : ℝ) / 4951760157141521099596496896) < p.b_val * (1 - 1 / 2 * p.xg2 * v)) (hs1 : 0 < p.a_val * v) (hs2 : 0 < p.b_val * (p.c_val * v - 1)) (hs3 : 0 < p.b_val * (1 - 1 / 2 * p.xg2 * v)) :
    HasDerivAt (fun v => SedovFuncsO3.l_fun p v) (SedovFuncsO3.dlamdv p v) v := by
  have hc0 : ¬ SedovFuncsO3.c0 p v := hleaf.1
  have hc1 : SedovFuncsO3.c1 p v := by simp only [epv_semi_cond]; exact hleaf.2.le
  have hval : SedovFuncsO3.dlamdv p v = SedovFuncsO3.L1.dlamdv p v := by
    simp only [epv_tree, hc0, hc1, if_false, if_true]
  rw [hval]
  refine (SedovFuncsO3_dlamdv p v hs1 hs2 hs3).congr_of_eventuallyEq ?_
  -- both guards are open conditions in v
  have hopen0 : ∀ᶠ w in nhds v, ¬ SedovFuncsO3.c0 p w := by
    simp only [epv_semi_cond, not_le] at hc0 ⊢
    have hcont : Continuous fun w : ℝ => p.c_val * w - 1 := by fun_prop
    exact hcont.continuousAt.eventually (lt_mem_nhds hc0)
  have hopen1 : ∀ᶠ w in nhds v, SedovFuncsO3.c1 p w := by
    simp only [epv_semi_cond]
    have hcont : Continuous fun w : ℝ => p.b_val * (1 - 1 / 2 * p.xg2 * w) := by fun_prop
    exact (hcont.continuousAt.eventually (lt_mem_nhds hleaf.2)).mono fun w hw => hw.le
  filter_upwards [hopen0, hopen1] with w h0 h1
  simp only [epv_tree, h0, h1, if_false, if_true]


/-! non-vacuity: constants of the default spherical problem (γ = 7/5, ω = 0; v = 0.3 ∈ (2/7, 1/3)),
of the omega2 problem (γ = 7/5, k = 3, ω = 19/7; v = 0.8) and of the omega3 problem (ω = 9/5; v = 0.5) -/
noncomputable def exStd : SedovFuncs.P :=
  { a0 := 2/5, a1 := 173/380, a2 := -2/19, a3 := 15/19, a4 := 865/228, a5 := -10/3, a_val := 3, b_val := 6,
    c_val := 7/2, d_val := 15/7, e_val := 8/5, gamp1 := 12/5, geometry := 3, gpogm := 6, omega := 0, xg2 := 5 }
noncomputable def exO2 : SedovFuncsO2.P :=
  { a0 := 7/8, a5 := -9/16, a_val := 48/35, b_val := 6, c_val := 8/5, e_val := 8/5, gamm1 := 2/5, gamma := 7/5,
    gamp1 := 12/5, geometry := 3, gpogm := 6, omega := 19/7, xg2 := 16/7 }
noncomputable def exO3 : SedovFuncsO3.P :=
  { a0 := 5/8, a1 := 7/16, a2 := -5/16, a3 := 15/16, a_val := 48/25, b_val := 6, c_val := 56/25, e_val := 8/5,
    gamm1 := 2/5, gamma := 7/5, gamp1 := 12/5, geometry := 3, gpogm := 6, omega := 9/5, xg2 := 16/5 }

example : 0 < exStd.a_val * (3/10) ∧ 0 < exStd.b_val * (exStd.c_val * (3/10) - 1) ∧ 0 < exStd.d_val * (1 - exStd.e_val * (3/10))
    ∧ ¬ SedovFuncs.c0 exStd (3/10)
    ∧ ((4951760157141521 : ℝ) / 4951760157141521099596496896) < exStd.b_val * (1 - 1 / 2 * exStd.xg2 * (3/10)) := by
  simp only [epv_semi_cond, exStd]; norm_num
example : 0 < exO2.a_val * (4/5) ∧ 0 < exO2.b_val * (exO2.c_val * (4/5) - 1) ∧ exO2.a_val * (4/5) - 1 / 2 * exO2.gamp1 / exO2.gamma ≠ 0
    ∧ ¬ SedovFuncsO2.c0 exO2 (4/5)
    ∧ ((4951760157141521 : ℝ) / 4951760157141521099596496896) < exO2.b_val * (1 - 1 / 2 * exO2.xg2 * (4/5)) := by
  simp only [epv_semi_cond, exO2]; norm_num
example : 0 < exO3.a_val * (1/2) ∧ 0 < exO3.b_val * (exO3.c_val * (1/2) - 1) ∧ 0 < exO3.b_val * (1 - 1 / 2 * exO3.xg2 * (1/2))
    ∧ ¬ SedovFuncsO3.c0 exO3 (1/2)
    ∧ ((4951760157141521 : ℝ) / 4951760157141521099596496896) < exO3.b_val * (1 - 1 / 2 * exO3.xg2 * (1/2)) := by
  simp only [epv_semi_cond, exO3]; norm_num

end EPV.C01
