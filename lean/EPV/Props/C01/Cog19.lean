/-
C01 — Coggeshall solution 19 (the Noh problem in Coggeshall's variables; a shock at
R(t) = -(γ-1) u₀ t / 2 separates two smooth regions).  On each smooth region the
returned fields satisfy the documented balance equations of mass, momentum and energy.

* leaf 0 (r < R(t), behind the shock): constant state at rest.  No hypotheses at all.
* leaf 1 (r ≥ R(t), ahead of the shock): ρ = ρ₀ ((r - u₀ t)/r)^k, u = u₀, T = 0.
  Hypotheses r > 0 and r - u₀ t > 0 (implied by the documented u₀ < 0, t ≥ 0: see
  `cog19_pre_domain`), needed for the real power with real exponent k.

The temperature is flat in r on both leaves, so the heat flux vanishes identically: the
full energy residual `energyResT` (with *any* c, a, λ₀, α, β) is proved zero, not just its
hydrodynamic part.  The geometry factor k = geometry - 1 is an arbitrary real.
-/
import EPV.Gen.Cog19D
import EPV.Spec.Euler1D
import EPV.Lemmas.Euler1Db
import EPV.Lemmas.HydroRobust
import EPV.Lemmas.Bridge.Cog19
import EPV.Tactics

set_option linter.all false

open EPV EPV.Gen EPV.Spec EPV.Lemmas

open Filter Topology

namespace EPV.C01

/-- the traced model has exactly the leaves the theorems below cover -/
theorem cog19_leaves : Cog19.okLeaves = [0, 1] := rfl

/-! ### leaf 0: behind the shock -/

theorem cog19_post_mass (p : Cog19.P) (r t : ℝ) :
    massRes (Cog19.L0.density p) (Cog19.L0.velocity p) (p.geometry - 1) r t = 0 := by
  unfold massRes dr dt
  epv_hydro_rw_derivs [Cog19.L0.density_hasDerivAt_t p r t, Cog19.L0.density_hasDerivAt_r p r t,
    Cog19.L0.velocity_hasDerivAt_r p r t]
  simp only [epv_deriv, epv_leaf]
  ring

theorem cog19_post_momentum (p : Cog19.P) (r t : ℝ) :
    momResT (Cog19.L0.density p) (Cog19.L0.velocity p) (Cog19.L0.temperature p) p.Gamma r t = 0 := by
  unfold momResT dr dt
  epv_hydro_rw_derivs [Cog19.L0.velocity_hasDerivAt_t p r t, Cog19.L0.velocity_hasDerivAt_r p r t,
    Cog19.L0.density_hasDerivAt_r p r t, Cog19.L0.temperature_hasDerivAt_r p r t]
  simp only [epv_deriv, epv_leaf]
  ring

theorem cog19_post_energy (p : Cog19.P) (c a lam0 α β r t : ℝ) :
    energyResT (Cog19.L0.density p) (Cog19.L0.velocity p) (Cog19.L0.temperature p)
      p.Gamma p.gamma (p.geometry - 1) c a lam0 α β r t = 0 := by
  rw [energyResT_of_T_const_r _ _ _ _ _ _ _ _ _ _ _ _ _ (fun x => by simp only [epv_leaf])]
  unfold energyHydroT dr dt
  epv_hydro_rw_derivs [Cog19.L0.temperature_hasDerivAt_t p r t, Cog19.L0.temperature_hasDerivAt_r p r t,
    Cog19.L0.velocity_hasDerivAt_r p r t]
  simp only [epv_deriv, epv_leaf]
  ring

/-! ### leaf 1: ahead of the shock -/

/-- the documented domain (u₀ < 0, t ≥ 0, r > 0) implies the hypothesis used below -/
theorem cog19_pre_domain (p : Cog19.P) (r t : ℝ) (hr : 0 < r) (ht : 0 ≤ t) (hu : p.u0 < 0) :
    0 < r - p.u0 * t := by nlinarith

theorem cog19_pre_mass (p : Cog19.P) (r t : ℝ) (hr : 0 < r) (hb : 0 < r - p.u0 * t) :
    massRes (Cog19.L1.density p) (Cog19.L1.velocity p) (p.geometry - 1) r t = 0 := by
  unfold massRes dr dt
  epv_hydro_rw_derivs [Cog19.L1.density_hasDerivAt_t p r t, Cog19.L1.density_hasDerivAt_r p r t,
    Cog19.L1.velocity_hasDerivAt_r p r t]
  simp only [epv_deriv, epv_leaf]
  epv_hydro_gen_rpow
  epv_hydro_field_simp
  ring

example : ∃ p : Cog19.P, ∃ r t : ℝ, 0 < r ∧ 0 < r - p.u0 * t :=
  ⟨⟨40, 0, 0, 0, 0, 7 / 5, 3, 0, 9 / 5, -23 / 10⟩, 1, 1 / 10, by norm_num, by norm_num⟩

theorem cog19_pre_momentum (p : Cog19.P) (r t : ℝ) :
    momResT (Cog19.L1.density p) (Cog19.L1.velocity p) (Cog19.L1.temperature p) p.Gamma r t = 0 := by
  unfold momResT dr dt
  epv_hydro_rw_derivs [Cog19.L1.velocity_hasDerivAt_t p r t, Cog19.L1.velocity_hasDerivAt_r p r t,
    Cog19.L1.temperature_hasDerivAt_r p r t]
  simp only [epv_deriv, epv_leaf]
  ring

theorem cog19_pre_energy (p : Cog19.P) (c a lam0 α β r t : ℝ) :
    energyResT (Cog19.L1.density p) (Cog19.L1.velocity p) (Cog19.L1.temperature p)
      p.Gamma p.gamma (p.geometry - 1) c a lam0 α β r t = 0 := by
  rw [energyResT_of_T_const_r _ _ _ _ _ _ _ _ _ _ _ _ _ (fun x => by simp only [epv_leaf])]
  unfold energyHydroT dr dt
  epv_hydro_rw_derivs [Cog19.L1.temperature_hasDerivAt_t p r t, Cog19.L1.temperature_hasDerivAt_r p r t,
    Cog19.L1.velocity_hasDerivAt_r p r t]
  simp only [epv_deriv, epv_leaf]
  ring

/-! ### The returned (tree-level) fields away from the shock -/

/-- behind the shock (r < R(t)) the returned fields are those of leaf 0 near the point -/
theorem cog19_tree_post (p : Cog19.P) (r t : ℝ) (h : r < (-(p.gamma - 1)) * p.u0 * t / 2) :
    AgreeNear (Cog19.density p) (Cog19.L0.density p) r t
      ∧ AgreeNear (Cog19.velocity p) (Cog19.L0.velocity p) r t
      ∧ AgreeNear (Cog19.temperature p) (Cog19.L0.temperature p) r t := by
  have hx : ∀ᶠ x in 𝓝 r, Cog19.c0 p x t :=
    (eventually_lt_nhds h).mono fun x hx => (EPV.Bridge.cog19_c0_iff p x t).2 hx
  have hs : ∀ᶠ s in 𝓝 t, Cog19.c0 p r s := by
    have hc : ContinuousAt (fun s : ℝ => (-(p.gamma - 1)) * p.u0 * s / 2) t := by fun_prop
    exact (continuousAt_const.eventually_lt hc h).mono fun s hs => (EPV.Bridge.cog19_c0_iff p r s).2 hs
  exact ⟨agreeNear_of_cond (fun x s hc => by simp only [epv_tree, if_pos hc]) hx hs,
    agreeNear_of_cond (fun x s hc => by simp only [epv_tree, if_pos hc]) hx hs,
    agreeNear_of_cond (fun x s hc => by simp only [epv_tree, if_pos hc]) hx hs⟩

/-- ahead of the shock (r > R(t)) the returned fields are those of leaf 1 near the point -/
theorem cog19_tree_pre (p : Cog19.P) (r t : ℝ) (h : (-(p.gamma - 1)) * p.u0 * t / 2 < r) :
    AgreeNear (Cog19.density p) (Cog19.L1.density p) r t
      ∧ AgreeNear (Cog19.velocity p) (Cog19.L1.velocity p) r t
      ∧ AgreeNear (Cog19.temperature p) (Cog19.L1.temperature p) r t := by
  have hx : ∀ᶠ x in 𝓝 r, ¬ Cog19.c0 p x t :=
    (eventually_gt_nhds h).mono fun x hx => (EPV.Bridge.cog19_not_c0_iff p x t).2 hx.le
  have hs : ∀ᶠ s in 𝓝 t, ¬ Cog19.c0 p r s := by
    have hc : ContinuousAt (fun s : ℝ => (-(p.gamma - 1)) * p.u0 * s / 2) t := by fun_prop
    exact (hc.eventually_lt continuousAt_const h).mono fun s hs => (EPV.Bridge.cog19_not_c0_iff p r s).2 hs.le
  exact ⟨agreeNear_of_cond (c := fun x s => ¬ Cog19.c0 p x s) (fun x s hc => by simp only [epv_tree, if_neg hc]) hx hs,
    agreeNear_of_cond (c := fun x s => ¬ Cog19.c0 p x s) (fun x s hc => by simp only [epv_tree, if_neg hc]) hx hs,
    agreeNear_of_cond (c := fun x s => ¬ Cog19.c0 p x s) (fun x s hc => by simp only [epv_tree, if_neg hc]) hx hs⟩

/-- mass balance of the returned fields at every point away from the shock -/
theorem cog19_mass_tree (p : Cog19.P) (r t : ℝ) (hr : 0 < r) (hb : 0 < r - p.u0 * t)
    (hsh : r ≠ (-(p.gamma - 1)) * p.u0 * t / 2) :
    massRes (Cog19.density p) (Cog19.velocity p) (p.geometry - 1) r t = 0 := by
  rcases lt_or_gt_of_ne hsh with h | h
  · obtain ⟨h1, h2, h3⟩ := cog19_tree_post p r t h
    rw [massRes_congr_near h1 h2]; exact cog19_post_mass p r t
  · obtain ⟨h1, h2, h3⟩ := cog19_tree_pre p r t h
    rw [massRes_congr_near h1 h2]; exact cog19_pre_mass p r t hr hb

/-- momentum balance of the returned fields at every point away from the shock -/
theorem cog19_momentum_tree (p : Cog19.P) (r t : ℝ) (hsh : r ≠ (-(p.gamma - 1)) * p.u0 * t / 2) :
    momResT (Cog19.density p) (Cog19.velocity p) (Cog19.temperature p) p.Gamma r t = 0 := by
  rcases lt_or_gt_of_ne hsh with h | h
  · obtain ⟨h1, h2, h3⟩ := cog19_tree_post p r t h
    rw [momResT_congr_near h1 h2 h3]; exact cog19_post_momentum p r t
  · obtain ⟨h1, h2, h3⟩ := cog19_tree_pre p r t h
    rw [momResT_congr_near h1 h2 h3]; exact cog19_pre_momentum p r t

/-- energy balance (any conduction coefficients) of the returned fields away from the shock -/
theorem cog19_energy_tree (p : Cog19.P) (c a lam0 α β r t : ℝ)
    (hsh : r ≠ (-(p.gamma - 1)) * p.u0 * t / 2) :
    energyResT (Cog19.density p) (Cog19.velocity p) (Cog19.temperature p)
      p.Gamma p.gamma (p.geometry - 1) c a lam0 α β r t = 0 := by
  rcases lt_or_gt_of_ne hsh with h | h
  · obtain ⟨h1, h2, h3⟩ := cog19_tree_post p r t h
    rw [energyResT_congr_near h1 h2 h3]; exact cog19_post_energy p c a lam0 α β r t
  · obtain ⟨h1, h2, h3⟩ := cog19_tree_pre p r t h
    rw [energyResT_congr_near h1 h2 h3]; exact cog19_pre_energy p c a lam0 α β r t

/-- non-vacuity of the hypotheses of the tree-level theorems (class defaults, r = 2, t = 1; shock at 0.46) -/
example : ∃ p : Cog19.P, ∃ r t : ℝ, 0 < r ∧ 0 < r - p.u0 * t ∧ r ≠ (-(p.gamma - 1)) * p.u0 * t / 2 :=
  ⟨⟨40, 0, 0, 0, 0, 7 / 5, 3, 0, 9 / 5, -23 / 10⟩, 2, 1, by norm_num, by norm_num, by norm_num⟩

end EPV.C01
