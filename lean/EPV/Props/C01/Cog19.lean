/-
C01 — Coggeshall solution 19 (the Noh problem in Coggeshall's variables; a shock at
R(t) = -(γ-1) u₀ t / 2 separates two smooth regions).  On each smooth region the
returned fields satisfy the documented balance equations of mass, momentum and energy.

* leaf 0 (r < R(t), behind the shock): constant state at rest.  No hypotheses at all.
* leaf 1 (r ≥ R(t), ahead of the shock): ρ = ρ₀ ((r - u₀ t)/r)^k, u = u₀, T = 0.
  Hypotheses r > 0 and r - u₀ t > 0 (implied by the documented u₀ < 0, t ≥ 0: see
  `cog19_pre_domain`), needed for the real power with real exponent k.

The temperature is flat in r on both leaves, so the heat flux vanishes identically: the
full energy residual `energyResT` (with *any* c, a, λ₀, α, β) is proved zero, not just its
hydrodynamic part.  The geometry factor k = geometry - 1 is an arbitrary real.
-/
import EPV.Gen.Cog19D
import EPV.Spec.Euler1D
import EPV.Lemmas.Euler1Db
import EPV.Tactics

set_option linter.all false

open EPV EPV.Gen EPV.Spec EPV.Lemmas

namespace EPV.C01

/-- the traced model has exactly the leaves the theorems below cover -/
theorem cog19_leaves : Cog19.okLeaves = [0, 1] := rfl

/-! ### leaf 0: behind the shock -/

theorem cog19_post_mass (p : Cog19.P) (r t : ℝ) :
    massRes (Cog19.L0.density p) (Cog19.L0.velocity p) (p.geometry - 1) r t = 0 := by
  unfold massRes dr dt
  rw [(Cog19.L0.density_hasDerivAt_t p r t).deriv, (Cog19.L0.density_hasDerivAt_r p r t).deriv,
    (Cog19.L0.velocity_hasDerivAt_r p r t).deriv]
  simp only [epv_deriv, epv_leaf]
  ring

theorem cog19_post_momentum (p : Cog19.P) (r t : ℝ) :
    momResT (Cog19.L0.density p) (Cog19.L0.velocity p) (Cog19.L0.temperature p) p.Gamma r t = 0 := by
  unfold momResT dr dt
  rw [(Cog19.L0.velocity_hasDerivAt_t p r t).deriv, (Cog19.L0.velocity_hasDerivAt_r p r t).deriv,
    (Cog19.L0.density_hasDerivAt_r p r t).deriv, (Cog19.L0.temperature_hasDerivAt_r p r t).deriv]
  simp only [epv_deriv, epv_leaf]
  ring

theorem cog19_post_energy (p : Cog19.P) (c a lam0 α β r t : ℝ) :
    energyResT (Cog19.L0.density p) (Cog19.L0.velocity p) (Cog19.L0.temperature p)
      p.Gamma p.gamma (p.geometry - 1) c a lam0 α β r t = 0 := by
  rw [energyResT_of_T_const_r _ _ _ _ _ _ _ _ _ _ _ _ _ (fun x => by simp only [epv_leaf])]
  unfold energyHydroT dr dt
  rw [(Cog19.L0.temperature_hasDerivAt_t p r t).deriv, (Cog19.L0.temperature_hasDerivAt_r p r t).deriv,
    (Cog19.L0.velocity_hasDerivAt_r p r t).deriv]
  simp only [epv_deriv, epv_leaf]
  ring

/-! ### leaf 1: ahead of the shock -/

/-- the documented domain (u₀ < 0, t ≥ 0, r > 0) implies the hypothesis used below -/
theorem cog19_pre_domain (p : Cog19.P) (r t : ℝ) (hr : 0 < r) (ht : 0 ≤ t) (hu : p.u0 < 0) :
    0 < r - p.u0 * t := by nlinarith

theorem cog19_pre_mass (p : Cog19.P) (r t : ℝ) (hr : 0 < r) (hb : 0 < r - p.u0 * t) :
    massRes (Cog19.L1.density p) (Cog19.L1.velocity p) (p.geometry - 1) r t = 0 := by
  have hq : 0 < (r - p.u0 * t) / r := div_pos hb hr
  unfold massRes dr dt
  rw [(Cog19.L1.density_hasDerivAt_t p r t hq).deriv, (Cog19.L1.density_hasDerivAt_r p r t hr.ne' hq).deriv,
    (Cog19.L1.velocity_hasDerivAt_r p r t).deriv]
  simp only [epv_deriv, epv_leaf]
  have hp := Real.rpow_pos_of_pos hq (p.geometry - 1)
  generalize ((r - p.u0 * t) / r) ^ (p.geometry - 1) = q at hp ⊢
  have hb' := hb.ne'
  field_simp
  ring

example : ∃ p : Cog19.P, ∃ r t : ℝ, 0 < r ∧ 0 < r - p.u0 * t :=
  ⟨⟨40, 0, 0, 0, 0, 7 / 5, 3, 0, 9 / 5, -23 / 10⟩, 1, 1 / 10, by norm_num, by norm_num⟩

theorem cog19_pre_momentum (p : Cog19.P) (r t : ℝ) :
    momResT (Cog19.L1.density p) (Cog19.L1.velocity p) (Cog19.L1.temperature p) p.Gamma r t = 0 := by
  unfold momResT dr dt
  rw [(Cog19.L1.velocity_hasDerivAt_t p r t).deriv, (Cog19.L1.velocity_hasDerivAt_r p r t).deriv,
    (Cog19.L1.temperature_hasDerivAt_r p r t).deriv]
  simp only [epv_deriv, epv_leaf]
  ring

theorem cog19_pre_energy (p : Cog19.P) (c a lam0 α β r t : ℝ) :
    energyResT (Cog19.L1.density p) (Cog19.L1.velocity p) (Cog19.L1.temperature p)
      p.Gamma p.gamma (p.geometry - 1) c a lam0 α β r t = 0 := by
  rw [energyResT_of_T_const_r _ _ _ _ _ _ _ _ _ _ _ _ _ (fun x => by simp only [epv_leaf])]
  unfold energyHydroT dr dt
  rw [(Cog19.L1.temperature_hasDerivAt_t p r t).deriv, (Cog19.L1.temperature_hasDerivAt_r p r t).deriv,
    (Cog19.L1.velocity_hasDerivAt_r p r t).deriv]
  simp only [epv_deriv, epv_leaf]
  ring

end EPV.C01
