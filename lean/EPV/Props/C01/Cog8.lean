/-
C01 — Coggeshall solution 8 satisfies the documented balance equations of mass,
momentum and energy *with* the conduction term
F = -(c λ₀ ρ^α T^β / 3) ∂_r (a T⁴), for every real geometry factor
k = geometry - 1, every γ ≠ 1, Γ, every α, β with β - α + 4 ≠ 0, every c, a, λ₀,
at every r > 0, t > 0 (the flux needs ρ₀ > 0, T₀ > 0 so that ρ^α, T^β are real
powers).

The solver's own `alpha`, `beta` are the exponents of the mean-free-path law
(hypotheses `p.alpha_ = p.alpha`, `p.beta_ = p.beta`); the exponent
(k-1)/(β-α+4) of the solution is exactly what makes the flux divergence free
(`cog8_flux_div`), and the hydrodynamic part vanishes by itself
(`cog8_energy_hydro`).
-/
import EPV.Gen.Cog8D
import EPV.Spec.Euler1D
import EPV.Lemmas.Euler1D
import EPV.Lemmas.HydroRobust
import EPV.Tactics

set_option linter.all false

open EPV EPV.Gen EPV.Spec Filter Topology

namespace EPV.C01

/-- the traced model has exactly the leaves the theorems below cover -/
theorem cog8_leaves : Cog8.okLeaves = [1] := rfl

theorem cog8_mass (p : Cog8.P) (r t : ℝ) (hr : 0 < r) (ht : 0 < t) (hden : p.beta - p.alpha + 4 ≠ 0) :
    massRes (Cog8.L1.density p) (Cog8.L1.velocity p) (p.geometry - 1) r t = 0 := by
  unfold massRes dr dt
  epv_hydro_rw_derivs [Cog8.L1.density_hasDerivAt_t p r t, Cog8.L1.density_hasDerivAt_r p r t,
    Cog8.L1.velocity_hasDerivAt_r p r t]
  simp only [epv_deriv, epv_leaf]
  field_simp
  ring

theorem cog8_momentum (p : Cog8.P) (r t : ℝ) (hr : 0 < r) (ht : 0 < t) (hden : p.beta - p.alpha + 4 ≠ 0)
    (hρ : p.rho0 ≠ 0) :
    momResT (Cog8.L1.density p) (Cog8.L1.velocity p) (Cog8.L1.temperature p) p.Gamma r t = 0 := by
  unfold momResT dr dt
  epv_hydro_rw_derivs [Cog8.L1.velocity_hasDerivAt_t p r t, Cog8.L1.velocity_hasDerivAt_r p r t,
    Cog8.L1.density_hasDerivAt_r p r t, Cog8.L1.temperature_hasDerivAt_r p r t]
  simp only [epv_deriv, epv_leaf]
  epv_hydro_facts
  field_simp
  ring

theorem cog8_energy_hydro (p : Cog8.P) (r t : ℝ) (hr : 0 < r) (ht : 0 < t) (hden : p.beta - p.alpha + 4 ≠ 0)
    (hγ : p.gamma - 1 ≠ 0) :
    energyHydroT (Cog8.L1.velocity p) (Cog8.L1.temperature p) p.Gamma p.gamma (p.geometry - 1) r t = 0 := by
  unfold energyHydroT dr dt
  epv_hydro_rw_derivs [Cog8.L1.temperature_hasDerivAt_t p r t, Cog8.L1.velocity_hasDerivAt_r p r t,
    Cog8.L1.temperature_hasDerivAt_r p r t]
  simp only [epv_deriv, epv_leaf]
  field_simp
  ring

/-- near r the documented flux of the returned fields is the generated `heat_flux` -/
theorem cog8_flux_near (p : Cog8.P) (r t : ℝ) (hr : 0 < r) :
    (fun x => heatFlux (Cog8.L1.density p) (Cog8.L1.temperature p) p.c_light p.a_rad p.lam0_ p.alpha_ p.beta_ x t)
      =ᶠ[𝓝 r] fun x => Cog8.L1.heat_flux p x t :=
  heatFlux_eventuallyEq (G' := fun x => Cog8.L1.aT4_dr p x t) (Ioi_mem_nhds hr)
    (fun x hx => by have hx' : 0 < x := hx; epv_hydro_cert Cog8.L1.aT4_hasDerivAt_r p x t)

/-- the flux is divergence free: ∂_r F + k F / r = 0 -/
theorem cog8_flux_div (p : Cog8.P) (r t : ℝ) (hr : 0 < r) (ht : 0 < t) (hden : p.beta - p.alpha + 4 ≠ 0)
    (hρ : 0 < p.rho0) (hT : 0 < p.temp0) (hα : p.alpha_ = p.alpha) (hβ : p.beta_ = p.beta) :
    Cog8.L1.heat_flux_dr p r t + (p.geometry - 1) * Cog8.L1.heat_flux p r t / r = 0 := by
  simp only [epv_deriv, epv_leaf]
  rw [hα, hβ]
  epv_hydro_gen_rpow
  epv_hydro_den_facts
  field_simp
  ring

theorem cog8_energy (p : Cog8.P) (r t : ℝ) (hr : 0 < r) (ht : 0 < t) (hden : p.beta - p.alpha + 4 ≠ 0)
    (hγ : p.gamma - 1 ≠ 0) (hρ : 0 < p.rho0) (hT : 0 < p.temp0)
    (hα : p.alpha_ = p.alpha) (hβ : p.beta_ = p.beta) :
    energyResT (Cog8.L1.density p) (Cog8.L1.velocity p) (Cog8.L1.temperature p) p.Gamma p.gamma
      (p.geometry - 1) p.c_light p.a_rad p.lam0_ p.alpha_ p.beta_ r t = 0 := by
  have hF : HasDerivAt (fun x => Cog8.L1.heat_flux p x t) (Cog8.L1.heat_flux_dr p r t) r := by
    epv_hydro_cert Cog8.L1.heat_flux_hasDerivAt_r p r t
  exact energyResT_zero_of_split (cog8_flux_near p r t hr) hF
    (cog8_energy_hydro p r t hr ht hden hγ) (cog8_flux_div p r t hr ht hden hρ hT hα hβ)

/-- non-vacuity: the hypotheses hold at the solver's defaults -/
example : ∃ (p : Cog8.P) (r t : ℝ), 0 < r ∧ 0 < t ∧ p.beta - p.alpha + 4 ≠ 0 ∧ p.gamma - 1 ≠ 0 ∧
    0 < p.rho0 ∧ 0 < p.temp0 ∧ p.alpha_ = p.alpha ∧ p.beta_ = p.beta := by
  refine ⟨{ Gamma := 40, a_rad := 1, alpha := 2, alpha_ := 2, beta := 1, beta_ := 1, c_light := 1,
            gamma := 7/5, geometry := 3, lam0_ := 1, rho0 := 9/5, temp0 := 7/5 }, 1, 1, ?_⟩
  norm_num

/-! ### The returned fields (tree level)

The only path condition is `t ≤ 0` (NaN fields); where the solver returns numbers the returned
fields are those of leaf 1, on the whole line {(x, t)} and for all times near t. -/


theorem cog8_tree (p : Cog8.P) (r t : ℝ) (h : Cog8.outcome p r t = .ok) :
    0 < t ∧ AgreeAt (Cog8.density p) (Cog8.L1.density p) r t
      ∧ AgreeAt (Cog8.velocity p) (Cog8.L1.velocity p) r t
      ∧ AgreeAt (Cog8.temperature p) (Cog8.L1.temperature p) r t := by
  have ht : 0 < t := by
    by_contra hc
    have hc' : t ≤ 0 := not_lt.mp hc
    simp [epv_tree, epv_cond, hc'] at h
  have e : ∀ x s, 0 < s → Cog8.density p x s = Cog8.L1.density p x s
      ∧ Cog8.velocity p x s = Cog8.L1.velocity p x s
      ∧ Cog8.temperature p x s = Cog8.L1.temperature p x s := by
    intro x s hs
    have hns : ¬ s ≤ 0 := not_le.mpr hs
    simp only [epv_tree, epv_cond, hns, if_false, and_self]
  refine ⟨ht, ⟨fun x => (e x t ht).1, ?_⟩, ⟨fun x => (e x t ht).2.1, ?_⟩, ⟨fun x => (e x t ht).2.2, ?_⟩⟩
  · filter_upwards [Ioi_mem_nhds ht] with s hs using (e r s hs).1
  · filter_upwards [Ioi_mem_nhds ht] with s hs using (e r s hs).2.1
  · filter_upwards [Ioi_mem_nhds ht] with s hs using (e r s hs).2.2

/-- mass balance of the returned (tree-level) fields -/
theorem cog8_mass_tree (p : Cog8.P) (r t : ℝ) (h : Cog8.outcome p r t = .ok) (hr : 0 < r) (hden : p.beta - p.alpha + 4 ≠ 0) :
    massRes (Cog8.density p) (Cog8.velocity p) (p.geometry - 1) r t = 0 := by
  obtain ⟨ht, hρ', hu', hT'⟩ := cog8_tree p r t h
  rw [massRes_congr hρ' hu']
  exact cog8_mass p r t hr ht hden

/-- momentum balance of the returned (tree-level) fields -/
theorem cog8_momentum_tree (p : Cog8.P) (r t : ℝ) (h : Cog8.outcome p r t = .ok) (hr : 0 < r) (hden : p.beta - p.alpha + 4 ≠ 0)
    (hρ : p.rho0 ≠ 0) :
    momResT (Cog8.density p) (Cog8.velocity p) (Cog8.temperature p) p.Gamma r t = 0 := by
  obtain ⟨ht, hρ', hu', hT'⟩ := cog8_tree p r t h
  rw [momResT_congr hρ' hu' hT']
  exact cog8_momentum p r t hr ht hden hρ

/-- energy balance of the returned (tree-level) fields -/
theorem cog8_energy_tree (p : Cog8.P) (r t : ℝ) (h : Cog8.outcome p r t = .ok) (hr : 0 < r) (hden : p.beta - p.alpha + 4 ≠ 0)
    (hγ : p.gamma - 1 ≠ 0) (hρ : 0 < p.rho0) (hT : 0 < p.temp0)
    (hα : p.alpha_ = p.alpha) (hβ : p.beta_ = p.beta) :
    energyResT (Cog8.density p) (Cog8.velocity p) (Cog8.temperature p) p.Gamma p.gamma
      (p.geometry - 1) p.c_light p.a_rad p.lam0_ p.alpha_ p.beta_ r t = 0 := by
  obtain ⟨ht, hρ', hu', hT'⟩ := cog8_tree p r t h
  rw [energyResT_congr hρ' hu' hT']
  exact cog8_energy p r t hr ht hden hγ hρ hT hα hβ

end EPV.C01
