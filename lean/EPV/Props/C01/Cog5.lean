/-
C01 — Coggeshall solution 5 satisfies the documented balance equations of mass,
momentum and energy with the documented k = 2 (spherical) and γ = 1/2, for
every u₀, ρ₀ ≠ 0, Γ ≠ 0, at every r > 0 and every t.

Solution 5 is a pure hydrodynamic solution (free parameters u₀, ρ₀, Γ; no
mean-free-path law), i.e. λ₀ = 0: the energy equation is stated in its
hydrodynamic form (`cog5_energy_hydro`) and as the full documented residual
with λ₀ = 0 and arbitrary c, a, α, β (`cog5_energy`).
-/
import EPV.Gen.Cog5D
import EPV.Spec.Euler1D
import EPV.Lemmas.Euler1D
import EPV.Lemmas.HydroRobust
import EPV.Tactics

set_option linter.all false

open EPV EPV.Gen EPV.Spec Filter Topology

namespace EPV.C01

/-- the traced model has exactly the leaves the theorems below cover -/
theorem cog5_leaves : Cog5.okLeaves = [0] := rfl

theorem cog5_mass (p : Cog5.P) (r t : ℝ) (hr : 0 < r) :
    massRes (Cog5.L0.density p) (Cog5.L0.velocity p) 2 r t = 0 := by
  unfold massRes dr dt
  epv_hydro_rw_derivs [Cog5.L0.density_hasDerivAt_t p r t, Cog5.L0.density_hasDerivAt_r p r t,
    Cog5.L0.velocity_hasDerivAt_r p r t]
  simp only [epv_deriv, epv_leaf]
  field_simp
  ring

theorem cog5_momentum (p : Cog5.P) (r t : ℝ) (hr : 0 < r) (hΓ : p.Gamma ≠ 0) (hρ : p.rho0 ≠ 0) :
    momResT (Cog5.L0.density p) (Cog5.L0.velocity p) (Cog5.L0.temperature p) p.Gamma r t = 0 := by
  unfold momResT dr dt
  epv_hydro_rw_derivs [Cog5.L0.velocity_hasDerivAt_t p r t, Cog5.L0.velocity_hasDerivAt_r p r t,
    Cog5.L0.density_hasDerivAt_r p r t, Cog5.L0.temperature_hasDerivAt_r p r t]
  simp only [epv_deriv, epv_leaf]
  field_simp
  ring

theorem cog5_energy_hydro (p : Cog5.P) (r t : ℝ) (hr : 0 < r) (hΓ : p.Gamma ≠ 0) :
    energyHydroT (Cog5.L0.velocity p) (Cog5.L0.temperature p) p.Gamma (1 / 2) 2 r t = 0 := by
  unfold energyHydroT dr dt
  epv_hydro_rw_derivs [Cog5.L0.temperature_hasDerivAt_t p r t, Cog5.L0.velocity_hasDerivAt_r p r t,
    Cog5.L0.temperature_hasDerivAt_r p r t]
  simp only [epv_deriv, epv_leaf]
  field_simp
  ring

/-- the documented energy residual with no conduction (λ₀ = 0), any c, a, α, β -/
theorem cog5_energy (p : Cog5.P) (r t : ℝ) (hr : 0 < r) (hΓ : p.Gamma ≠ 0) (c a α β : ℝ) :
    energyResT (Cog5.L0.density p) (Cog5.L0.velocity p) (Cog5.L0.temperature p) p.Gamma (1 / 2) 2
      c a 0 α β r t = 0 := by
  rw [energyResT_lam0_zero]
  exact cog5_energy_hydro p r t hr hΓ

/-- non-vacuity: the hypotheses hold at the solver's defaults -/
example : ∃ (p : Cog5.P) (r : ℝ), 0 < r ∧ p.Gamma ≠ 0 ∧ p.rho0 ≠ 0 :=
  ⟨{ Gamma := 40, a_rad := 0, alpha_ := 0, beta_ := 0, c_light := 0, lam0_ := 0, rho0 := 9/5, u0 := 23/10 },
    1, by norm_num, by norm_num, by norm_num⟩

/-! ### The returned fields (tree level)

The traced decision tree has a single leaf: the returned fields *are* those of leaf 0. -/


theorem cog5_tree (p : Cog5.P) (r t : ℝ) :
    AgreeAt (Cog5.density p) (Cog5.L0.density p) r t
      ∧ AgreeAt (Cog5.velocity p) (Cog5.L0.velocity p) r t
      ∧ AgreeAt (Cog5.temperature p) (Cog5.L0.temperature p) r t := by
  have e : ∀ x s, Cog5.density p x s = Cog5.L0.density p x s
      ∧ Cog5.velocity p x s = Cog5.L0.velocity p x s
      ∧ Cog5.temperature p x s = Cog5.L0.temperature p x s := by
    intro x s
    exact ⟨rfl, rfl, rfl⟩
  exact ⟨⟨fun x => (e x t).1, Filter.Eventually.of_forall fun s => (e r s).1⟩,
    ⟨fun x => (e x t).2.1, Filter.Eventually.of_forall fun s => (e r s).2.1⟩,
    ⟨fun x => (e x t).2.2, Filter.Eventually.of_forall fun s => (e r s).2.2⟩⟩

/-- mass balance of the returned (tree-level) fields -/
theorem cog5_mass_tree (p : Cog5.P) (r t : ℝ) (hr : 0 < r) :
    massRes (Cog5.density p) (Cog5.velocity p) 2 r t = 0 := by
  obtain ⟨hρ', hu', hT'⟩ := cog5_tree p r t
  rw [massRes_congr hρ' hu']
  exact cog5_mass p r t hr

/-- momentum balance of the returned (tree-level) fields -/
theorem cog5_momentum_tree (p : Cog5.P) (r t : ℝ) (hr : 0 < r) (hΓ : p.Gamma ≠ 0) (hρ : p.rho0 ≠ 0) :
    momResT (Cog5.density p) (Cog5.velocity p) (Cog5.temperature p) p.Gamma r t = 0 := by
  obtain ⟨hρ', hu', hT'⟩ := cog5_tree p r t
  rw [momResT_congr hρ' hu' hT']
  exact cog5_momentum p r t hr hΓ hρ

/-- energy balance of the returned (tree-level) fields -/
theorem cog5_energy_tree (p : Cog5.P) (r t : ℝ) (hr : 0 < r) (hΓ : p.Gamma ≠ 0) (c a α β : ℝ) :
    energyResT (Cog5.density p) (Cog5.velocity p) (Cog5.temperature p) p.Gamma (1 / 2)
      2 c a 0 α β r t = 0 := by
  obtain ⟨hρ', hu', hT'⟩ := cog5_tree p r t
  rw [energyResT_congr hρ' hu' hT']
  exact cog5_energy p r t hr hΓ c a α β

end EPV.C01
