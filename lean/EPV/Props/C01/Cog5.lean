/-
C01 — Coggeshall solution 5 satisfies the documented balance equations of mass,
momentum and energy with the documented k = 2 (spherical) and γ = 1/2, for
every u₀, ρ₀ ≠ 0, Γ ≠ 0, at every r > 0 and every t.

Solution 5 is a pure hydrodynamic solution (free parameters u₀, ρ₀, Γ; no
mean-free-path law), i.e. λ₀ = 0: the energy equation is stated in its
hydrodynamic form (`cog5_energy_hydro`) and as the full documented residual
with λ₀ = 0 and arbitrary c, a, α, β (`cog5_energy`).
-/
import EPV.Gen.Cog5D
import EPV.Spec.Euler1D
import EPV.Lemmas.Euler1D
import EPV.Tactics

set_option linter.all false

open EPV EPV.Gen EPV.Spec

namespace EPV.C01

/-- the traced model has exactly the leaves the theorems below cover -/
theorem cog5_leaves : Cog5.okLeaves = [0] := rfl

theorem cog5_mass (p : Cog5.P) (r t : ℝ) (hr : 0 < r) :
    massRes (Cog5.L0.density p) (Cog5.L0.velocity p) 2 r t = 0 := by
  unfold massRes dr dt
  rw [(Cog5.L0.density_hasDerivAt_t p r t).deriv, (Cog5.L0.density_hasDerivAt_r p r t (pow_ne_zero 2 hr.ne')).deriv,
    (Cog5.L0.velocity_hasDerivAt_r p r t).deriv]
  simp only [epv_deriv, epv_leaf]
  field_simp
  ring

theorem cog5_momentum (p : Cog5.P) (r t : ℝ) (hr : 0 < r) (hΓ : p.Gamma ≠ 0) (hρ : p.rho0 ≠ 0) :
    momResT (Cog5.L0.density p) (Cog5.L0.velocity p) (Cog5.L0.temperature p) p.Gamma r t = 0 := by
  unfold momResT dr dt
  rw [(Cog5.L0.velocity_hasDerivAt_t p r t).deriv, (Cog5.L0.velocity_hasDerivAt_r p r t).deriv,
    (Cog5.L0.density_hasDerivAt_r p r t (pow_ne_zero 2 hr.ne')).deriv, (Cog5.L0.temperature_hasDerivAt_r p r t).deriv]
  simp only [epv_deriv, epv_leaf]
  field_simp
  ring

theorem cog5_energy_hydro (p : Cog5.P) (r t : ℝ) (hr : 0 < r) (hΓ : p.Gamma ≠ 0) :
    energyHydroT (Cog5.L0.velocity p) (Cog5.L0.temperature p) p.Gamma (1 / 2) 2 r t = 0 := by
  unfold energyHydroT dr dt
  rw [(Cog5.L0.temperature_hasDerivAt_t p r t).deriv, (Cog5.L0.velocity_hasDerivAt_r p r t).deriv,
    (Cog5.L0.temperature_hasDerivAt_r p r t).deriv]
  simp only [epv_deriv, epv_leaf]
  field_simp
  ring

/-- the documented energy residual with no conduction (λ₀ = 0), any c, a, α, β -/
theorem cog5_energy (p : Cog5.P) (r t : ℝ) (hr : 0 < r) (hΓ : p.Gamma ≠ 0) (c a α β : ℝ) :
    energyResT (Cog5.L0.density p) (Cog5.L0.velocity p) (Cog5.L0.temperature p) p.Gamma (1 / 2) 2
      c a 0 α β r t = 0 := by
  rw [energyResT_lam0_zero]
  exact cog5_energy_hydro p r t hr hΓ

/-- non-vacuity: the hypotheses hold at the solver's defaults -/
example : ∃ (p : Cog5.P) (r : ℝ), 0 < r ∧ p.Gamma ≠ 0 ∧ p.rho0 ≠ 0 :=
  ⟨{ Gamma := 40, a_rad := 0, alpha_ := 0, beta_ := 0, c_light := 0, lam0_ := 0, rho0 := 9/5, u0 := 23/10 },
    1, by norm_num, by norm_num, by norm_num⟩

end EPV.C01
