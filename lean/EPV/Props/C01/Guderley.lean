/-
C01 — Guderley converging shock, pre- and post-reflection flow: the returned fields satisfy
the Euler equations documented in `exactpack/solvers/guderley/__init__.py`,

    ρ_t + (uρ)_r + (k-1) uρ / r = 0 ,   u_t + u u_r + p_r / ρ = 0 ,   (energy, e = p / ((γ-1) ρ))

**in Lazarus time** — and NOT in the time argument of the solver (finding below).

What is proved (`guderley_euler_lazarus_partial`): for ANY functions (V, C, R) that satisfy the
traced right-hand side `ramsey.g` (model GudG, with the module globals gamma, lambda_, nu exactly
as `state` sets them — model GudJump) at the point's similarity coordinate x = t_L / r^λ, the
fields assembled by the traced `_run → guderley_1d → state` chain (Spec/Guderley.lean) satisfy
the three balance laws at (r, t_L), for every real geometry, γ ∉ {0, 1}, ρ₀ ≠ 0, every real
λ ≠ 0 (λ need not be the eigenvalue), at every r > 0, t_L ≠ 0 behind the converging shock
(x > -1), where the similarity ODE is regular (its denominator and 1 + V do not vanish) and R ≠ 0.
Both sides of the reflected shock are covered: differentiability of (V, C, R) at x is a
hypothesis, so x = B itself is excluded.

Partial: the numerical integration (`solve_ivp`), λ = eexp(…) and B are atoms.

FINDING (`finding_guderley_solver_time`, `finding_guderley_solver_time_witness`): as functions of
the solver's own time argument t = 0.750024322 (t_L + 1) the same fields violate the equations:
every time derivative is 1/0.750024322 times its Lazarus-time value while velocity, pressure and
energy are returned per unit of Lazarus time.  The mass residual in solver time equals
(1/0.750024322 - 1) ρ_{t_L}; at the converging shock (x = -1: r = 1, t = 0) with γ = 7/5,
geometry 3, ρ₀ = 1 and any 6/5 ≤ λ ≤ 2 it is ≠ 0.
-/
import EPV.Spec.Guderley
import EPV.Gen.GudF
import EPV.Gen.GudEnergy
import EPV.Gen.GudFe
import EPV.Lemmas.Guderley
import EPV.Lemmas.Euler1Db
import EPV.Lemmas.Bridge.SemiGud

set_option linter.all false

open EPV EPV.Gen EPV.Spec EPV.Spec.Guderley EPV.Lemmas Filter Topology

namespace EPV.C01

/-! ### The atoms' hypothesis in the form of the chain-rule lemma -/

theorem glob_gamma_eq (p : GudJump.P) : GudJump.glob_gamma p = p.gamma_d := by
  simp only [epv_tree]; split_ifs <;> (simp only [epv_leaf]; epv_semi_gud_eq)
theorem glob_lambda_eq (p : GudJump.P) : GudJump.glob_lambda p = p.lambda_d := by
  simp only [epv_tree]; split_ifs <;> (simp only [epv_leaf]; epv_semi_gud_eq)
theorem glob_nu_eq (p : GudJump.P) : GudJump.glob_nu p = p.n - 1 := by
  simp only [epv_tree]; split_ifs <;> (simp only [epv_leaf]; epv_semi_gud_eq)

/-- the traced right-hand side `g`, with the globals `state` sets, is the system of
`Lemmas/Guderley.lean` with γ = gamma, λ = lam, ν = geometry - 1 -/
theorem solvesAt_of_solvesG {i : Inp} {a : Atoms} {x : ℝ} (h : SolvesG i a x) :
    Gud.SolvesAt a.V a.C a.R a.lam i.gamma (i.geometry - 1) x := by
  obtain ⟨hV, hC, hR⟩ := h
  refine ⟨hV.congr_deriv ?_, hC.congr_deriv ?_, hR.congr_deriv ?_⟩ <;>
  · simp only [gP, glob_gamma_eq, glob_lambda_eq, glob_nu_eq, jumpP]
    simp only [Bridge.SemiGud.g_dV, Bridge.SemiGud.g_dC, Bridge.SemiGud.g_dR, Gud.N0, Gud.N1, Gud.N2, Gud.Den]
    epv_semi_gud_eq

/-- the denominator of the traced `g` at x (the WellDefined side condition of GudG) -/
def gDen (a : Atoms) (x : ℝ) : ℝ := (a.C x * a.C x - (a.V x + 1) ^ 2) * x * a.lam

/-! ### The returned fields in normal form near a point behind the converging shock -/

/-- the open region of the (r, t_L) plane on which the comparison is made -/
def Behind (a : Atoms) (r tL : ℝ) : Prop :=
  0 < r ∧ tL ≠ 0 ∧ -1 < Gud.sx a.lam r tL ∧ a.R (Gud.sx a.lam r tL) ≠ 0

theorem stP_lazarus (i : Inp) (a : Atoms) (r tL : ℝ) :
    stP i a r (solverTime tL)
      = { B := a.B, gamma_d := i.gamma, lambda_d := a.lam, r := r, rho0 := i.rho0, targetx := Gud.sx a.lam r tL,
          V := a.V (Gud.sx a.lam r tL), C := a.C (Gud.sx a.lam r tL), R := a.R (Gud.sx a.lam r tL), Cb := a.Cb } := by
  rw [stP_eq, xi_solverTime]
  rfl

theorem rpow_one_sub {r : ℝ} (hr : 0 < r) (lam : ℝ) : r ^ (1 - lam) = r / r ^ lam := by
  rw [Real.rpow_sub hr, Real.rpow_one]

theorem fields_normal (i : Inp) (a : Atoms) (hl : a.lam ≠ 0) (hρ : i.rho0 ≠ 0) (r tL : ℝ) (h : Behind a r tL) :
    inLazarusTime (density i a) r tL = Gud.rhoN a.R a.lam i.rho0 r tL
    ∧ inLazarusTime (velocity i a) r tL = Gud.uN a.V a.lam r tL
    ∧ inLazarusTime (pressure i a) r tL = Gud.pN a.C a.R a.lam i.gamma i.rho0 r tL
    ∧ inLazarusTime (sie i a) r tL = Gud.eN a.C a.lam i.gamma r tL
    ∧ inLazarusTime (sound_speed i a) r tL = Gud.cN a.C a.lam r tL := by
  obtain ⟨hr, ht, hx, hR⟩ := h
  have hb := state_behind (stP i a r (solverTime tL)) (by rw [stP_lazarus]; exact not_lt.mpr hx.le)
  simp only [inLazarusTime, density_eq, velocity_eq, pressure_eq, sie_eq, sound_speed_eq]
  rw [hb.1, hb.2.1, hb.2.2.1, hb.2.2.2.1, hb.2.2.2.2, stP_lazarus]
  simp only [Gud.rhoN, Gud.uN, Gud.pN, Gud.eN, Gud.cN, rpow_one_sub hr]
  have hA : 0 < r ^ a.lam := Real.rpow_pos_of_pos hr _
  generalize hxx : Gud.sx a.lam r tL = x at *
  have hxA : x * r ^ a.lam = tL := by
    rw [← hxx]; unfold Gud.sx; field_simp
  generalize r ^ a.lam = A at *
  subst hxA
  have hx0 : x ≠ 0 := fun h0 => ht (by rw [h0]; ring)
  refine ⟨?_, ?_, ?_, ?_, ?_⟩
  · first | trivial | rfl
  · field_simp
  · by_cases hg : i.gamma = 0
    · simp [hg]
    · field_simp
  · by_cases hg : i.gamma = 0
    · simp [hg]
    · by_cases hg1 : i.gamma - 1 = 0
      · simp [hg1]
      · field_simp
  · field_simp

theorem behind_near_r {a : Atoms} {r tL : ℝ} {R' : ℝ} (h : Behind a r tL)
    (hR : HasDerivAt a.R R' (Gud.sx a.lam r tL)) : ∀ᶠ y in 𝓝 r, Behind a y tL := by
  obtain ⟨hr, ht, hx, hR0⟩ := h
  have hc : ContinuousAt (fun y => Gud.sx a.lam y tL) r := (Gud.sx_hasDerivAt_r a.lam r tL hr).continuousAt
  have hcR : ContinuousAt (fun y => a.R (Gud.sx a.lam y tL)) r :=
    ContinuousAt.comp (g := a.R) hR.continuousAt hc
  filter_upwards [Ioi_mem_nhds hr, hc.eventually (Ioi_mem_nhds hx), hcR.eventually_ne hR0] with y h1 h2 h3
  exact ⟨h1, ht, h2, h3⟩

theorem behind_near_t {a : Atoms} {r tL : ℝ} {R' : ℝ} (h : Behind a r tL)
    (hR : HasDerivAt a.R R' (Gud.sx a.lam r tL)) : ∀ᶠ s in 𝓝 tL, Behind a r s := by
  obtain ⟨hr, ht, hx, hR0⟩ := h
  have hc : ContinuousAt (fun s => Gud.sx a.lam r s) tL := (Gud.sx_hasDerivAt_t a.lam r tL).continuousAt
  have hcR : ContinuousAt (fun s => a.R (Gud.sx a.lam r s)) tL :=
    ContinuousAt.comp (g := a.R) hR.continuousAt hc
  filter_upwards [isOpen_ne.mem_nhds ht, hc.eventually (Ioi_mem_nhds hx), hcR.eventually_ne hR0] with s h1 h2 h3
  exact ⟨hr, h1, h2, h3⟩

/-! ### The theorem -/

/-- **C01, Guderley (partial: the integrations are atoms).**  In Lazarus time the returned
density, velocity, pressure and specific internal energy satisfy the documented Euler
equations wherever the flow is smooth, for any (V, C, R) solving the traced right-hand side. -/
theorem guderley_euler_lazarus_partial (i : Inp) (a : Atoms) (r tL : ℝ)
    (hr : 0 < r) (ht : tL ≠ 0) (hx : -1 < tL / r ^ a.lam)
    (hl : a.lam ≠ 0) (hg : i.gamma ≠ 0) (hg1 : i.gamma - 1 ≠ 0) (hρ : i.rho0 ≠ 0)
    (hsol : SolvesG i a (tL / r ^ a.lam))
    (hD : gDen a (tL / r ^ a.lam) ≠ 0) (hV1 : a.V (tL / r ^ a.lam) + 1 ≠ 0) (hR0 : a.R (tL / r ^ a.lam) ≠ 0) :
    massRes (inLazarusTime (density i a)) (inLazarusTime (velocity i a)) (i.geometry - 1) r tL = 0
    ∧ momResP (inLazarusTime (density i a)) (inLazarusTime (velocity i a)) (inLazarusTime (pressure i a)) r tL = 0
    ∧ energyResE (inLazarusTime (density i a)) (inLazarusTime (velocity i a)) (inLazarusTime (pressure i a))
        (inLazarusTime (sie i a)) (i.geometry - 1) r tL = 0 := by
  have hb : Behind a r tL := ⟨hr, ht, hx, hR0⟩
  have hs := solvesAt_of_solvesG hsol
  have hn := fields_normal i a hl hρ
  have nr := behind_near_r hb hs.hR
  have nt := behind_near_t hb hs.hR
  have aρ : AgreeNear (inLazarusTime (density i a)) (Gud.rhoN a.R a.lam i.rho0) r tL :=
    agreeNear_of_cond (fun y s h => (hn y s h).1) nr nt
  have au : AgreeNear (inLazarusTime (velocity i a)) (Gud.uN a.V a.lam) r tL :=
    agreeNear_of_cond (fun y s h => (hn y s h).2.1) nr nt
  have ap : AgreeNear (inLazarusTime (pressure i a)) (Gud.pN a.C a.R a.lam i.gamma i.rho0) r tL :=
    agreeNear_of_cond (fun y s h => (hn y s h).2.2.1) nr nt
  have ae : AgreeNear (inLazarusTime (sie i a)) (Gud.eN a.C a.lam i.gamma) r tL :=
    agreeNear_of_cond (fun y s h => (hn y s h).2.2.2.1) nr nt
  have hD' : Gud.Den a.lam (a.V (Gud.sx a.lam r tL)) (a.C (Gud.sx a.lam r tL)) (Gud.sx a.lam r tL) ≠ 0 := hD
  refine ⟨?_, ?_, ?_⟩
  · rw [massRes_congr_near aρ au]
    exact Gud.mass_of_similarity hs hr ht hl hD' hV1 hg
  · rw [momResP_congr_near aρ au ap]
    exact Gud.momentum_of_similarity hs hr ht hl hD' hV1 hg hρ hR0
  · rw [energyResE_congr_near aρ au ap ae]
    exact Gud.energy_of_similarity hs hr ht hl hD' hV1 hg hg1 hρ hR0

/-- non-vacuity of the pointwise hypotheses: the converging-shock values for γ = 7/5 (V = -5/6,
C² = 7/36, R = 6) at x = -1 (r = 1, t_L = -1), λ = 7/5 -/
example : ∃ (lam V C R gam rho0 r tL : ℝ), 0 < r ∧ tL ≠ 0 ∧ -1 < tL / r ^ lam + 1 / 2 ∧ lam ≠ 0 ∧ gam ≠ 0
    ∧ gam - 1 ≠ 0 ∧ rho0 ≠ 0 ∧ (C * C - (V + 1) ^ 2) * (tL / r ^ lam) * lam ≠ 0 ∧ V + 1 ≠ 0 ∧ R ≠ 0 :=
  ⟨7 / 5, -5 / 6, 1 / 2, 6, 7 / 5, 1, 1, -1, by norm_num, by norm_num, by norm_num, by norm_num, by norm_num,
    by norm_num, by norm_num, by norm_num, by norm_num, by norm_num⟩

/-! ### The other traced pieces of the similarity system

`get_shock_position` finds B with the right-hand side `f`, `state` integrates `g`; `energy` is the
consistency check both use.  They are the SAME system: -/

/-- the GudG argument record that corresponds to a GudF one -/
def fToG (p : GudF.P) (x : ℝ) : GudG.P :=
  { gamma := p.gamma, lambda_ := p.lambda_, nu := p.nu, x := x, V := p.V, C := p.C, R := p.R }

/-- `f` with intno ≠ 2 (the x-integration of `Guderley`) is `g` -/
theorem f_eq_g (p : GudF.P) (h : p.intno ≠ 2) :
    GudF.dV p = GudG.dV (fToG p p.x) ∧ GudF.dC p = GudG.dC (fToG p p.x) ∧ GudF.dR p = GudG.dR (fToG p p.x) := by
  rw [Bridge.SemiGud.f_dV_x p h, Bridge.SemiGud.f_dC_x p h, Bridge.SemiGud.f_dR_x p h, Bridge.SemiGud.g_dV,
    Bridge.SemiGud.g_dC, Bridge.SemiGud.g_dR]
  simp only [fToG, and_self]

/-- `f` with intno = 2 is `g` transformed to the variable w = k x^(-σ) (dw/dx = -σ w / x), for every
x ≠ 0: the value of `f` at abscissa w equals (dy/dx)(x) / (dw/dx) -/
theorem f_eq_g_in_w (p : GudF.P) (h : p.intno = 2) (x : ℝ) (hx : x ≠ 0) (hw : p.x ≠ 0) (hσ : p.sigma ≠ 0) :
    GudF.dV p = GudG.dV (fToG p x) / (-p.sigma * p.x / x)
    ∧ GudF.dC p = GudG.dC (fToG p x) / (-p.sigma * p.x / x)
    ∧ GudF.dR p = GudG.dR (fToG p x) / (-p.sigma * p.x / x) := by
  rw [Bridge.SemiGud.f_dV_w p h, Bridge.SemiGud.f_dC_w p h, Bridge.SemiGud.f_dR_w p h, Bridge.SemiGud.g_dV,
    Bridge.SemiGud.g_dC, Bridge.SemiGud.g_dR]
  simp only [fToG]
  refine ⟨?_, ?_, ?_⟩ <;>
  · by_cases hD : (p.C * p.C - (p.V + 1) ^ 2) = 0
    · simp [hD]
    by_cases hl : p.lambda_ = 0
    · simp [hl]
    field_simp

/-- **the adiabatic integral (Lazarus 2.7) is a first integral of the traced system**: along any
solution of `g` the logarithmic derivative of (C/x)² (1+V)^q R^(q-γ+1), q = 2(λ-1)/(ν+1) — the
quantity `ramsey.energy` evaluates (model GudEnergy) — vanishes -/
theorem energy_integral_logderiv (p : GudG.P) (hγ : p.gamma ≠ 0) (hx : p.x ≠ 0) (hl : p.lambda_ ≠ 0)
    (hD : p.C * p.C - (p.V + 1) ^ 2 ≠ 0) (hV : p.V + 1 ≠ 0) (hC : p.C ≠ 0) (hR : p.R ≠ 0) (hν : p.nu + 1 ≠ 0) :
    2 * GudG.dC p / p.C - 2 / p.x + (2 * (p.lambda_ - 1) / (p.nu + 1)) * GudG.dV p / (p.V + 1)
      + (2 * (p.lambda_ - 1) / (p.nu + 1) - p.gamma + 1) * GudG.dR p / p.R = 0 := by
  rw [Bridge.SemiGud.g_dV, Bridge.SemiGud.g_dC, Bridge.SemiGud.g_dR]
  obtain ⟨d, hd⟩ : ∃ d, p.C * p.C - (p.V + 1) ^ 2 = d := ⟨_, rfl⟩
  rw [hd] at hD ⊢
  field_simp
  subst hd
  ring

/-- the quantity `ramsey.energy` returns is that integral minus its reference value -/
theorem energy_is_integral (p : GudEnergy.P) (h : (3022314549036573 : ℝ) / 302231454903657293676544 ≤ |p.x|) :
    GudEnergy.energy p
      = (p.C / p.x) ^ 2 * (1 + p.V) ^ (2 * (p.lambda_ - 1) / (p.nu + 1))
          * p.R ^ (2 * (p.lambda_ - 1) / (p.nu + 1) - p.gamma + 1) - p.energy0 := by
  epv_semi_gud_tree

/-- **analytic form**: along any solution of the traced system the value `ramsey.energy` returns
(away from its |x| < 1e-8 cut-off: leaf 0 of GudEnergy) has derivative 0 — the consistency check of
`Guderley` / the redundancy of the R-equation noted in `f` and `g` -/
theorem energy_integral_conserved (V C R : ℝ → ℝ) (gam lam nu e0 x : ℝ)
    (h : Gud.SolvesAt V C R lam gam nu x) (hx : x ≠ 0) (hl : lam ≠ 0) (hg : gam ≠ 0)
    (hD : Gud.Den lam (V x) (C x) x ≠ 0) (hV : 0 < 1 + V x) (hR : 0 < R x) (hC : C x ≠ 0) (hν : nu + 1 ≠ 0) :
    HasDerivAt (fun y => GudEnergy.L0.energy
      { C := C y, R := R y, V := V y, energy0 := e0, gamma := gam, lambda_ := lam, nu := nu, x := y }) 0 x := by
  have hleaf : (fun y => GudEnergy.L0.energy
        { C := C y, R := R y, V := V y, energy0 := e0, gamma := gam, lambda_ := lam, nu := nu, x := y })
      = fun y => (C y / y) ^ 2 * (1 + V y) ^ (2 * (lam - 1) / (nu + 1))
          * R y ^ (2 * (lam - 1) / (nu + 1) - gam + 1) - e0 := by
    funext y
    simp only [epv_leaf]
    epv_semi_gud_eq
  rw [hleaf]
  set q := 2 * (lam - 1) / (nu + 1) with hq
  have hA := (h.hC.div (hasDerivAt_id' x) hx).pow 2
  have hB := (h.hV.const_add 1).rpow_const (p := q) (Or.inl hV.ne')
  have hRr := h.hR.rpow_const (p := q - gam + 1) (Or.inl hR.ne')
  have hall := ((hA.mul hB).mul hRr).sub_const e0
  refine hall.congr_deriv ?_
  clear hall hA hB hRr
  simp only [Pi.mul_apply, Pi.div_apply, Pi.pow_apply, Nat.cast_ofNat, show (2 : ℕ) - 1 = 1 from rfl, pow_one]
  rw [Real.rpow_sub_one hV.ne' q, Real.rpow_sub_one hR.ne' (q - gam + 1)]
  have hV1 : V x + 1 ≠ 0 := by linarith
  simp only [Gud.Den, Gud.N0, Gud.N1, Gud.N2] at *
  have p1 := Real.rpow_pos_of_pos hV q
  have p2 := Real.rpow_pos_of_pos hR (q - gam + 1)
  generalize (1 + V x) ^ q = P1 at *
  generalize R x ^ (q - gam + 1) = P2 at *
  generalize V x = v at *
  generalize C x = c at *
  generalize R x = ρ at *
  have hD0 : c * c - (v + 1) ^ 2 ≠ 0 := fun h0 => hD (by rw [h0]; ring)
  obtain ⟨d, hd⟩ : ∃ d, c * c - (v + 1) ^ 2 = d := ⟨_, rfl⟩
  rw [hd] at hD0 ⊢
  have hv' : 1 + v ≠ 0 := by linarith
  clear_value q
  subst hq
  field_simp
  subst hd
  ring

theorem energy_leaves : GudEnergy.okLeaves = [0, 1] := rfl

/-- Chisnell's variables (eexp.py) of a Lazarus state (ramsey.py): a = 1/λ, g = γ, n = ν + 1,
t = -V/λ, y = C²/λ² -/
noncomputable def chisnell (lam gam nu V C : ℝ) : GudFe.P :=
  { a := 1 / lam, g := gam, n := nu + 1, t := -V / lam, y0 := C * C / lam ^ 2 }

/-- **the exponent λ that `eexp` computes belongs to the system `state` integrates**: the right-hand
side `fe` of eexp.py (Chisnell 1998, Eq. 3.1: dC²/dV in Chisnell's variables) is exactly
(dy/dx)/(dt/dx) of the Lazarus system of ramsey.py under t = -V/λ, y = C²/λ², a = 1/λ, n = ν + 1 -/
theorem chisnell_is_phase_plane_of_lazarus (lam gam nu V C : ℝ) (hl : lam ≠ 0) (hg : gam ≠ 0) (hV : V + 1 ≠ 0)
    (hN : Gud.N0 lam gam nu V C ≠ 0) (hW : GudFe.L0.WellDefined (chisnell lam gam nu V C)) :
    GudFe.dy0 (chisnell lam gam nu V C)
      = (2 * (C / lam ^ 2) * (C * Gud.N1 lam gam nu V C)) / (-(1 / lam) * Gud.N0 lam gam nu V C) := by
  have hden := Bridge.SemiGud.fe_den_ne _ hW
  rw [Bridge.SemiGud.fe_dy0, div_eq_iff hden]
  simp only [Bridge.SemiGud.feNum, Bridge.SemiGud.feDen, chisnell, Real.rpow_two]
  obtain ⟨m, hm⟩ : ∃ m, Gud.N0 lam gam nu V C = m := ⟨_, rfl⟩
  rw [hm] at hN ⊢
  simp only [Gud.N1]
  field_simp
  subst hm
  simp only [Gud.N0]
  field_simp
  ring

/-- … where (dy/dx)/(dt/dx) is formed from the traced `g` -/
theorem phase_plane_of_g (p : GudG.P) (hl : p.lambda_ ≠ 0) (hx : p.x ≠ 0)
    (hD : p.C * p.C - (p.V + 1) ^ 2 ≠ 0) :
    (2 * (p.C / p.lambda_ ^ 2) * GudG.dC p) / (-(1 / p.lambda_) * GudG.dV p)
      = (2 * (p.C / p.lambda_ ^ 2) * (p.C * Gud.N1 p.lambda_ p.gamma p.nu p.V p.C))
          / (-(1 / p.lambda_) * Gud.N0 p.lambda_ p.gamma p.nu p.V p.C) := by
  simp only [Bridge.SemiGud.g_dV, Bridge.SemiGud.g_dC, Gud.N0, Gud.N1]
  obtain ⟨d, hd⟩ : ∃ d, p.C * p.C - (p.V + 1) ^ 2 = d := ⟨_, rfl⟩
  rw [hd] at hD ⊢
  by_cases hN : (((p.nu + 1) * p.V + 2 * ((p.lambda_ - 1) / p.gamma)) * (p.C * p.C) - p.V * (p.V + 1) * (p.V + p.lambda_)) = 0
  · simp [hN]
  · field_simp


/-! ### FINDING: the same fields as functions of the solver's own time argument -/

theorem solverTime_lazarus (t : ℝ) : solverTime (lazarus t) = t := by
  unfold lazarus solverTime
  have := fC_pos.ne'
  field_simp
  ring

theorem lazarus_hasDerivAt (t : ℝ) : HasDerivAt lazarus (1 / fC) t := by
  unfold lazarus
  simpa using ((hasDerivAt_id t).div_const fC).sub_const 1

/-- **Finding (general form).**  Under the hypotheses of `guderley_euler_lazarus_partial` (at the
Lazarus time t_L = t / 0.750024322 - 1 of the solver time t), the mass residual of the returned
fields *with respect to the solver's own arguments (r, t)* is not zero but

    (1 / 0.750024322 - 1) · ∂ρ/∂t_L ,     ∂ρ/∂t_L = ρ₀ R'(x) / r^λ ,

R'(x) the value the traced right-hand side `g` gives for dR/dx. -/
theorem finding_guderley_solver_time (i : Inp) (a : Atoms) (r t : ℝ)
    (hr : 0 < r) (ht : lazarus t ≠ 0) (hx : -1 < lazarus t / r ^ a.lam)
    (hl : a.lam ≠ 0) (hg : i.gamma ≠ 0) (hg1 : i.gamma - 1 ≠ 0) (hρ : i.rho0 ≠ 0)
    (hsol : SolvesG i a (lazarus t / r ^ a.lam))
    (hD : gDen a (lazarus t / r ^ a.lam) ≠ 0) (hV1 : a.V (lazarus t / r ^ a.lam) + 1 ≠ 0)
    (hR0 : a.R (lazarus t / r ^ a.lam) ≠ 0) :
    massRes (density i a) (velocity i a) (i.geometry - 1) r t
      = (1 / fC - 1) * (GudG.dR (gP i a (lazarus t / r ^ a.lam)) * (1 / r ^ a.lam) * i.rho0) := by
  have hmain := (guderley_euler_lazarus_partial i a r (lazarus t) hr ht hx hl hg hg1 hρ hsol hD hV1 hR0).1
  have hb : Behind a r (lazarus t) := ⟨hr, ht, hx, hR0⟩
  have hs := solvesAt_of_solvesG hsol
  have hn := fields_normal i a hl hρ
  have nt := behind_near_t hb hs.hR
  -- the time derivative of the density in Lazarus time …
  have hρt := Gud.rhoN_dt a.lam i.rho0 r (lazarus t) hsol.hR
  have e1 : (fun s => inLazarusTime (density i a) r s) =ᶠ[𝓝 (lazarus t)] fun s => Gud.rhoN a.R a.lam i.rho0 r s :=
    nt.mono fun s h => (hn r s h).1
  have d1 : dt (inLazarusTime (density i a)) r (lazarus t)
      = GudG.dR (gP i a (lazarus t / r ^ a.lam)) * (1 / r ^ a.lam) * i.rho0 := by
    unfold Spec.dt
    rw [e1.deriv_eq]
    exact hρt.deriv
  -- … and in solver time: the chain rule through t_L = t / 0.750024322 - 1
  have e2 : (fun s => density i a r s) =ᶠ[𝓝 t] fun s => Gud.rhoN a.R a.lam i.rho0 r (lazarus s) := by
    have hc : ContinuousAt lazarus t := (lazarus_hasDerivAt t).continuousAt
    filter_upwards [hc.eventually nt] with s h
    have := (hn r (lazarus s) h).1
    simpa only [inLazarusTime, solverTime_lazarus] using this
  have d2 : dt (density i a) r t
      = GudG.dR (gP i a (lazarus t / r ^ a.lam)) * (1 / r ^ a.lam) * i.rho0 * (1 / fC) := by
    unfold Spec.dt
    rw [e2.deriv_eq]
    exact (HasDerivAt.comp t hρt (lazarus_hasDerivAt t)).deriv
  -- the spatial terms are the same in both descriptions
  have sρ : (fun y => density i a y t) = fun y => inLazarusTime (density i a) y (lazarus t) := by
    funext y; simp only [inLazarusTime, solverTime_lazarus]
  have su : (fun y => velocity i a y t) = fun y => inLazarusTime (velocity i a) y (lazarus t) := by
    funext y; simp only [inLazarusTime, solverTime_lazarus]
  have vρ : density i a r t = inLazarusTime (density i a) r (lazarus t) := congrFun sρ r
  have vu : velocity i a r t = inLazarusTime (velocity i a) r (lazarus t) := congrFun su r
  unfold massRes at hmain ⊢
  unfold Spec.dr at hmain ⊢
  rw [sρ, su, vρ, vu, d2]
  rw [d1] at hmain
  linear_combination hmain

/-- **Finding (witness).**  γ = 7/5, geometry = 3, ρ₀ = 1, λ = 7/5, the point r = 1 at solver time
t = 0.750024322 / 2 (Lazarus time -1/2, similarity coordinate x = -1/2), similarity variables with
the values V = -5/6, C = 1/2, R = 6 there and the slopes the traced right-hand side prescribes:
all hypotheses of the C01 theorem hold, and the mass residual in the solver's (r, t) is not 0. -/
theorem finding_guderley_solver_time_witness :
    ∃ (i : Inp) (a : Atoms) (r t : ℝ), 0 < r ∧ lazarus t ≠ 0 ∧ -1 < lazarus t / r ^ a.lam ∧ a.lam ≠ 0
      ∧ i.gamma ≠ 0 ∧ i.gamma - 1 ≠ 0 ∧ i.rho0 ≠ 0 ∧ SolvesG i a (lazarus t / r ^ a.lam)
      ∧ gDen a (lazarus t / r ^ a.lam) ≠ 0 ∧ a.V (lazarus t / r ^ a.lam) + 1 ≠ 0 ∧ a.R (lazarus t / r ^ a.lam) ≠ 0
      ∧ massRes (density i a) (velocity i a) (i.geometry - 1) r t ≠ 0 := by
  -- slopes = values of the traced g at (x, V, C, R) = (-1/2, -5/6, 1/2, 6), γ = λ = 7/5, ν = 2
  let i : Inp := ⟨3, 7 / 5, 1⟩
  let g0 : GudG.P := { gamma := 7 / 5, lambda_ := 7 / 5, nu := 2, x := -1 / 2, V := -5 / 6, C := 1 / 2, R := 6 }
  let a : Atoms :=
    { lam := 7 / 5, B := 1, Cb := 1,
      V := fun x => -5 / 6 + GudG.dV g0 * (x - (-1 / 2)),
      C := fun x => 1 / 2 + GudG.dC g0 * (x - (-1 / 2)),
      R := fun x => 6 + GudG.dR g0 * (x - (-1 / 2)) }
  have hx : lazarus (fC / 2) / (1 : ℝ) ^ a.lam = -1 / 2 := by
    have := fC_pos.ne'
    unfold lazarus
    rw [Real.one_rpow]
    field_simp
    norm_num
  have hgp : gP i a (-1 / 2) = g0 := by
    simp only [gP, glob_gamma_eq, glob_lambda_eq, glob_nu_eq, jumpP, a, i, g0]
    norm_num
  have hsol : SolvesG i a (-1 / 2) := by
    refine ⟨?_, ?_, ?_⟩ <;> rw [hgp]
    · exact ((((hasDerivAt_id (-1 / 2 : ℝ)).sub_const (-1 / 2)).const_mul (GudG.dV g0)).const_add (-5 / 6)).congr_deriv
        (mul_one _)
    · exact ((((hasDerivAt_id (-1 / 2 : ℝ)).sub_const (-1 / 2)).const_mul (GudG.dC g0)).const_add (1 / 2)).congr_deriv
        (mul_one _)
    · exact ((((hasDerivAt_id (-1 / 2 : ℝ)).sub_const (-1 / 2)).const_mul (GudG.dR g0)).const_add 6).congr_deriv
        (mul_one _)
  have hlt : lazarus (fC / 2) ≠ 0 := by
    have := fC_pos.ne'
    unfold lazarus
    field_simp
    norm_num
  refine ⟨i, a, 1, fC / 2, one_pos, hlt, ?_, ?_, ?_, ?_, ?_, ?_, ?_, ?_, ?_, ?_⟩
  · rw [hx]; norm_num
  · show (7 / 5 : ℝ) ≠ 0; norm_num
  · show (7 / 5 : ℝ) ≠ 0; norm_num
  · show (7 / 5 : ℝ) - 1 ≠ 0; norm_num
  · show (1 : ℝ) ≠ 0; norm_num
  · rw [hx]; exact hsol
  · rw [hx]; simp only [gDen, a]; norm_num
  · rw [hx]; simp only [a]; norm_num
  · rw [hx]; simp only [a]; norm_num
  · rw [finding_guderley_solver_time i a 1 (fC / 2) one_pos hlt (by rw [hx]; norm_num) (by show (7 / 5 : ℝ) ≠ 0; norm_num)
      (by show (7 / 5 : ℝ) ≠ 0; norm_num) (by show (7 / 5 : ℝ) - 1 ≠ 0; norm_num) (by show (1 : ℝ) ≠ 0; norm_num)
      (by rw [hx]; exact hsol) (by rw [hx]; simp only [gDen, a]; norm_num) (by rw [hx]; simp only [a]; norm_num)
      (by rw [hx]; simp only [a]; norm_num)]
    rw [hx, hgp, Real.one_rpow]
    simp only [g0, i, epv_tree, epv_leaf, fC]
    norm_num

end EPV.C01
