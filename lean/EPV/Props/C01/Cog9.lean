/-
C01 — Coggeshall solution 9 satisfies the documented balance equations of mass,
momentum and energy *with* the conduction term
F = -(c λ₀ ρ^α T^β / 3) ∂_r (a T⁴), for every real geometry factor
k = geometry - 1, every γ ≠ 1, Γ ≠ 0, α ≠ 0, β for which the documented
coefficients are defined (2 + (γ-1)(k+1) ≠ 0, 2α - 2β - k - 7 ≠ 0, (k+1) ≠ 0 for
the flux), every c, a, λ₀, at every r > 0, t > 0; the flux needs ρ₀ > 0 and a
positive temperature (true e.g. for α in the range [-2,-1] the constructor
checks; at the class default α = 2 the documented temperature is negative and
ρ^α T^β leaves the physical regime).

The solver's own `alpha`, `beta` are the exponents of the mean-free-path law
(hypotheses `p.alpha_ = p.alpha`, `p.beta_ = p.beta`); the density exponent
-(2β+k+7)/α is exactly what makes the flux divergence free (`cog9_flux_div`),
and the hydrodynamic part vanishes by itself (`cog9_energy_hydro`).
-/
import EPV.Gen.Cog9D
import EPV.Spec.Euler1D
import EPV.Lemmas.Euler1D
import EPV.Lemmas.HydroRobust
import EPV.Tactics

set_option linter.all false

open EPV EPV.Gen EPV.Spec Filter Topology

namespace EPV.C01

/-- the traced model has exactly the leaves the theorems below cover -/
theorem cog9_leaves : Cog9.okLeaves = [1] := rfl

theorem cog9_mass (p : Cog9.P) (r t : ℝ) (hr : 0 < r) (ht : 0 < t) (hα0 : p.alpha ≠ 0)
    (hc : 2 + (p.gamma - 1) * ((p.geometry - 1) + 1) ≠ 0) :
    massRes (Cog9.L1.density p) (Cog9.L1.velocity p) (p.geometry - 1) r t = 0 := by
  unfold massRes dr dt
  epv_hydro_rw_derivs [Cog9.L1.density_hasDerivAt_t p r t, Cog9.L1.density_hasDerivAt_r p r t,
    Cog9.L1.velocity_hasDerivAt_r p r t]
  simp only [epv_deriv, epv_leaf]
  epv_hydro_field_simp
  ring

theorem cog9_momentum (p : Cog9.P) (r t : ℝ) (hr : 0 < r) (ht : 0 < t) (hα0 : p.alpha ≠ 0)
    (hc : 2 + (p.gamma - 1) * ((p.geometry - 1) + 1) ≠ 0) (hΓ : p.Gamma ≠ 0)
    (hD : 2 * p.alpha - 2 * p.beta - (p.geometry - 1) - 7 ≠ 0) (hρ : p.rho0 ≠ 0) :
    momResT (Cog9.L1.density p) (Cog9.L1.velocity p) (Cog9.L1.temperature p) p.Gamma r t = 0 := by
  unfold momResT dr dt
  epv_hydro_rw_derivs [Cog9.L1.velocity_hasDerivAt_t p r t, Cog9.L1.velocity_hasDerivAt_r p r t,
    Cog9.L1.density_hasDerivAt_r p r t, Cog9.L1.temperature_hasDerivAt_r p r t]
  simp only [epv_deriv, epv_leaf]
  epv_hydro_field_simp
  ring

theorem cog9_energy_hydro (p : Cog9.P) (r t : ℝ) (hr : 0 < r) (ht : 0 < t)
    (hc : 2 + (p.gamma - 1) * ((p.geometry - 1) + 1) ≠ 0) (hΓ : p.Gamma ≠ 0)
    (hD : 2 * p.alpha - 2 * p.beta - (p.geometry - 1) - 7 ≠ 0) (hγ : p.gamma - 1 ≠ 0) :
    energyHydroT (Cog9.L1.velocity p) (Cog9.L1.temperature p) p.Gamma p.gamma (p.geometry - 1) r t = 0 := by
  unfold energyHydroT dr dt
  epv_hydro_rw_derivs [Cog9.L1.temperature_hasDerivAt_t p r t, Cog9.L1.velocity_hasDerivAt_r p r t,
    Cog9.L1.temperature_hasDerivAt_r p r t]
  simp only [epv_deriv, epv_leaf]
  epv_hydro_field_simp
  ring

/-- near r the documented flux of the returned fields is the generated `heat_flux` -/
theorem cog9_flux_near (p : Cog9.P) (r t : ℝ) :
    (fun x => heatFlux (Cog9.L1.density p) (Cog9.L1.temperature p) p.c_light p.a_rad p.lam0_ p.alpha_ p.beta_ x t)
      =ᶠ[𝓝 r] fun x => Cog9.L1.heat_flux p x t :=
  heatFlux_eventuallyEq (G' := fun x => Cog9.L1.aT4_dr p x t) univ_mem
    (fun x _ => by epv_hydro_cert Cog9.L1.aT4_hasDerivAt_r p x t)

/-- the flux is divergence free: ∂_r F + k F / r = 0 -/
theorem cog9_flux_div (p : Cog9.P) (r t : ℝ) (hr : 0 < r) (ht : 0 < t) (hα0 : p.alpha ≠ 0)
    (hc : 2 + (p.gamma - 1) * ((p.geometry - 1) + 1) ≠ 0) (hΓ : p.Gamma ≠ 0)
    (hD : 2 * p.alpha - 2 * p.beta - (p.geometry - 1) - 7 ≠ 0) (hγ : p.gamma - 1 ≠ 0)
    (hk : (p.geometry - 1) + 1 ≠ 0) (hρ : p.rho0 ≠ 0)
    (hα : p.alpha_ = p.alpha) (hβ : p.beta_ = p.beta) :
    Cog9.L1.heat_flux_dr p r t + (p.geometry - 1) * Cog9.L1.heat_flux p r t / r = 0 := by
  simp only [epv_deriv, epv_leaf]
  rw [hα, hβ]
  obtain ⟨A, hA⟩ : ∃ A, Cog9.L1.density p r t ^ p.alpha = A := ⟨_, rfl⟩
  obtain ⟨B, hB⟩ : ∃ B, Cog9.L1.temperature p r t ^ p.beta = B := ⟨_, rfl⟩
  simp only [epv_leaf] at hA hB
  rw [hA, hB]
  clear hA hB
  epv_hydro_field_simp
  ring

theorem cog9_energy (p : Cog9.P) (r t : ℝ) (hr : 0 < r) (ht : 0 < t) (hα0 : p.alpha ≠ 0)
    (hc : 2 + (p.gamma - 1) * ((p.geometry - 1) + 1) ≠ 0) (hΓ : p.Gamma ≠ 0)
    (hD : 2 * p.alpha - 2 * p.beta - (p.geometry - 1) - 7 ≠ 0) (hγ : p.gamma - 1 ≠ 0)
    (hk : (p.geometry - 1) + 1 ≠ 0) (hρ : 0 < p.rho0) (hT : 0 < Cog9.L1.temperature p r t)
    (hα : p.alpha_ = p.alpha) (hβ : p.beta_ = p.beta) :
    energyResT (Cog9.L1.density p) (Cog9.L1.velocity p) (Cog9.L1.temperature p) p.Gamma p.gamma
      (p.geometry - 1) p.c_light p.a_rad p.lam0_ p.alpha_ p.beta_ r t = 0 := by
  have hF : HasDerivAt (fun x => Cog9.L1.heat_flux p x t) (Cog9.L1.heat_flux_dr p r t) r := by
    simp only [epv_leaf] at hT
    epv_hydro_cert Cog9.L1.heat_flux_hasDerivAt_r p r t
  exact energyResT_zero_of_split (cog9_flux_near p r t) hF
    (cog9_energy_hydro p r t hr ht hc hΓ hD hγ) (cog9_flux_div p r t hr ht hα0 hc hΓ hD hγ hk hρ.ne' hα hβ)

/-- non-vacuity: the hypotheses hold for α = -3/2 (inside the range [-2,-1] the constructor checks) and
the other parameters at the solver's defaults -/
example : ∃ (p : Cog9.P) (r t : ℝ), 0 < r ∧ 0 < t ∧ p.alpha ≠ 0 ∧
    2 + (p.gamma - 1) * ((p.geometry - 1) + 1) ≠ 0 ∧ p.Gamma ≠ 0 ∧
    2 * p.alpha - 2 * p.beta - (p.geometry - 1) - 7 ≠ 0 ∧ p.gamma - 1 ≠ 0 ∧ (p.geometry - 1) + 1 ≠ 0 ∧
    0 < p.rho0 ∧ 0 < Cog9.L1.temperature p r t ∧ p.alpha_ = p.alpha ∧ p.beta_ = p.beta := by
  refine ⟨{ Gamma := 40, a_rad := 1, alpha := -3/2, alpha_ := -3/2, beta := 1, beta_ := 1, c_light := 1,
            gamma := 7/5, geometry := 3, lam0_ := 1, rho0 := 9/5 }, 1, 1, ?_⟩
  simp only [epv_leaf]
  norm_num

/-! ### The returned fields (tree level)

The only path condition is `t ≤ 0` (NaN fields); where the solver returns numbers the returned
fields are those of leaf 1, on the whole line {(x, t)} and for all times near t. -/


theorem cog9_tree (p : Cog9.P) (r t : ℝ) (h : Cog9.outcome p r t = .ok) :
    0 < t ∧ AgreeAt (Cog9.density p) (Cog9.L1.density p) r t
      ∧ AgreeAt (Cog9.velocity p) (Cog9.L1.velocity p) r t
      ∧ AgreeAt (Cog9.temperature p) (Cog9.L1.temperature p) r t := by
  have ht : 0 < t := by
    by_contra hc
    have hc' : t ≤ 0 := not_lt.mp hc
    simp [epv_tree, epv_cond, hc'] at h
  have e : ∀ x s, 0 < s → Cog9.density p x s = Cog9.L1.density p x s
      ∧ Cog9.velocity p x s = Cog9.L1.velocity p x s
      ∧ Cog9.temperature p x s = Cog9.L1.temperature p x s := by
    intro x s hs
    have hns : ¬ s ≤ 0 := not_le.mpr hs
    simp only [epv_tree, epv_cond, hns, if_false, and_self]
  refine ⟨ht, ⟨fun x => (e x t ht).1, ?_⟩, ⟨fun x => (e x t ht).2.1, ?_⟩, ⟨fun x => (e x t ht).2.2, ?_⟩⟩
  · filter_upwards [Ioi_mem_nhds ht] with s hs using (e r s hs).1
  · filter_upwards [Ioi_mem_nhds ht] with s hs using (e r s hs).2.1
  · filter_upwards [Ioi_mem_nhds ht] with s hs using (e r s hs).2.2

/-- mass balance of the returned (tree-level) fields -/
theorem cog9_mass_tree (p : Cog9.P) (r t : ℝ) (h : Cog9.outcome p r t = .ok) (hr : 0 < r) (hα0 : p.alpha ≠ 0)
    (hc : 2 + (p.gamma - 1) * ((p.geometry - 1) + 1) ≠ 0) :
    massRes (Cog9.density p) (Cog9.velocity p) (p.geometry - 1) r t = 0 := by
  obtain ⟨ht, hρ', hu', hT'⟩ := cog9_tree p r t h
  rw [massRes_congr hρ' hu']
  exact cog9_mass p r t hr ht hα0 hc

/-- momentum balance of the returned (tree-level) fields -/
theorem cog9_momentum_tree (p : Cog9.P) (r t : ℝ) (h : Cog9.outcome p r t = .ok) (hr : 0 < r) (hα0 : p.alpha ≠ 0)
    (hc : 2 + (p.gamma - 1) * ((p.geometry - 1) + 1) ≠ 0) (hΓ : p.Gamma ≠ 0)
    (hD : 2 * p.alpha - 2 * p.beta - (p.geometry - 1) - 7 ≠ 0) (hρ : p.rho0 ≠ 0) :
    momResT (Cog9.density p) (Cog9.velocity p) (Cog9.temperature p) p.Gamma r t = 0 := by
  obtain ⟨ht, hρ', hu', hT'⟩ := cog9_tree p r t h
  rw [momResT_congr hρ' hu' hT']
  exact cog9_momentum p r t hr ht hα0 hc hΓ hD hρ

/-- energy balance of the returned (tree-level) fields -/
theorem cog9_energy_tree (p : Cog9.P) (r t : ℝ) (h : Cog9.outcome p r t = .ok) (hr : 0 < r) (hα0 : p.alpha ≠ 0)
    (hc : 2 + (p.gamma - 1) * ((p.geometry - 1) + 1) ≠ 0) (hΓ : p.Gamma ≠ 0)
    (hD : 2 * p.alpha - 2 * p.beta - (p.geometry - 1) - 7 ≠ 0) (hγ : p.gamma - 1 ≠ 0)
    (hk : (p.geometry - 1) + 1 ≠ 0) (hρ : 0 < p.rho0) (hT : 0 < Cog9.temperature p r t)
    (hα : p.alpha_ = p.alpha) (hβ : p.beta_ = p.beta) :
    energyResT (Cog9.density p) (Cog9.velocity p) (Cog9.temperature p) p.Gamma p.gamma
      (p.geometry - 1) p.c_light p.a_rad p.lam0_ p.alpha_ p.beta_ r t = 0 := by
  obtain ⟨ht, hρ', hu', hT'⟩ := cog9_tree p r t h
  rw [hT'.eq] at hT
  rw [energyResT_congr hρ' hu' hT']
  exact cog9_energy p r t hr ht hα0 hc hΓ hD hγ hk hρ hT hα hβ

end EPV.C01
