/-
C01 — the Noh family (gamma-law gas, no conduction) satisfies the Euler equations
in (ρ, u, p, e) form, as `exactpack/solvers/noh/__init__.py` and `noh2/__init__.py`
state them:

    ρ_t + u ρ_r + ρ u_r + k ρ u / r = 0
    u_t + u u_r + p_r / ρ = 0
    e_t + u e_r + (p/ρ)(u_r + k u / r) = 0            (k = geometry - 1)

on every `ok` leaf of the traced decision trees:

* `Noh`     leaf 0 (behind the shock: constant state at rest) and leaf 1 (ahead of
            the shock: cold converging flow, ρ = ρ₀ (1 + |u₀| t / r)^k, u = u₀ < 0);
* `Noh2`    leaf 1 (uniform collapse, t < 1);
* `Noh2Cog` leaves 5, 7, 9 (the same collapse through `Cog1`, one leaf per accepted
            value of `geometry`).

All parameters are arbitrary reals (the geometry factor is *not* restricted to
{0,1,2}); the only hypotheses are the documented ones: r > 0, t > 0 resp. t < 1,
u₀ < 0 for Noh ("incident velocity (negative)"), ρ ≠ 0 where the equations divide by ρ.
-/
import EPV.Gen.NohD
import EPV.Lemmas.Bridge.Noh
import EPV.Gen.Noh2D
import EPV.Gen.Noh2CogD
import EPV.Spec.Euler1D
import EPV.Lemmas.Euler1Db
import EPV.Lemmas.HydroRobust
import EPV.Tactics

set_option linter.all false

open EPV EPV.Gen EPV.Spec EPV.Lemmas

open Filter Topology

namespace EPV.C01

/-! ### Noh -/

/-- the traced model has exactly the leaves the theorems below cover -/
theorem noh_leaves : Noh.okLeaves = [0, 1] := rfl

/-- post-shock state (leaf 0): mass balance -/
theorem noh_post_mass (p : Noh.P) (r t : ℝ) :
    massRes (Noh.L0.density p) (Noh.L0.velocity p) (p.geometry - 1) r t = 0 := by
  unfold massRes dr dt
  rw [(Noh.L0.density_hasDerivAt_t p r t).deriv, (Noh.L0.density_hasDerivAt_r p r t).deriv,
    (Noh.L0.velocity_hasDerivAt_r p r t).deriv]
  simp only [epv_deriv, epv_leaf]
  ring

/-- post-shock state (leaf 0): momentum balance -/
theorem noh_post_momentum (p : Noh.P) (r t : ℝ) :
    momResP (Noh.L0.density p) (Noh.L0.velocity p) (Noh.L0.pressure p) r t = 0 := by
  unfold momResP dr dt
  rw [(Noh.L0.velocity_hasDerivAt_t p r t).deriv, (Noh.L0.velocity_hasDerivAt_r p r t).deriv,
    (Noh.L0.pressure_hasDerivAt_r p r t).deriv]
  simp only [epv_deriv, epv_leaf]
  ring

/-- post-shock state (leaf 0): internal-energy balance -/
theorem noh_post_energy (p : Noh.P) (r t : ℝ) :
    energyResE (Noh.L0.density p) (Noh.L0.velocity p) (Noh.L0.pressure p)
      (Noh.L0.specific_internal_energy p) (p.geometry - 1) r t = 0 := by
  unfold energyResE dr dt
  rw [(Noh.L0.specific_internal_energy_hasDerivAt_t p r t).deriv,
    (Noh.L0.specific_internal_energy_hasDerivAt_r p r t).deriv,
    (Noh.L0.velocity_hasDerivAt_r p r t).deriv]
  simp only [epv_deriv, epv_leaf]
  ring

/-- pre-shock converging flow (leaf 1): mass balance, for the documented u₀ < 0 -/
theorem noh_pre_mass (p : Noh.P) (r t : ℝ) (hr : 0 < r) (ht : 0 ≤ t) (hu : p.u0 < 0) :
    massRes (Noh.L1.density p) (Noh.L1.velocity p) (p.geometry - 1) r t = 0 := by
  unfold massRes dr dt
  epv_hydro_rw_derivs [Noh.L1.density_hasDerivAt_t p r t, Noh.L1.density_hasDerivAt_r p r t,
    Noh.L1.velocity_hasDerivAt_r p r t]
  simp only [epv_deriv, epv_leaf]
  -- |u₀| = -u₀ =: v > 0
  rw [abs_of_neg hu]
  generalize p.u0 = u0 at hu ⊢
  obtain ⟨v, rfl⟩ : ∃ v, u0 = -v := ⟨-u0, by ring⟩
  have hv : 0 < v := by linarith
  simp only [neg_neg]
  epv_hydro_gen_rpow
  have hb' : r + v * t ≠ 0 := by positivity
  epv_hydro_field_simp
  ring

example : ∃ p : Noh.P, ∃ r t : ℝ, 0 < r ∧ 0 ≤ t ∧ p.u0 < 0 :=
  ⟨⟨5 / 3, 3, 1, -1⟩, 1, 1 / 2, by norm_num, by norm_num, by norm_num⟩

/-- pre-shock converging flow (leaf 1): momentum balance (cold gas, p = 0) -/
theorem noh_pre_momentum (p : Noh.P) (r t : ℝ) :
    momResP (Noh.L1.density p) (Noh.L1.velocity p) (Noh.L1.pressure p) r t = 0 := by
  unfold momResP dr dt
  rw [(Noh.L1.velocity_hasDerivAt_t p r t).deriv, (Noh.L1.velocity_hasDerivAt_r p r t).deriv,
    (Noh.L1.pressure_hasDerivAt_r p r t).deriv]
  simp only [epv_deriv, epv_leaf]
  ring

/-- pre-shock converging flow (leaf 1): internal-energy balance (cold gas, e = p = 0) -/
theorem noh_pre_energy (p : Noh.P) (r t : ℝ) :
    energyResE (Noh.L1.density p) (Noh.L1.velocity p) (Noh.L1.pressure p)
      (Noh.L1.specific_internal_energy p) (p.geometry - 1) r t = 0 := by
  unfold energyResE dr dt
  rw [(Noh.L1.specific_internal_energy_hasDerivAt_t p r t).deriv,
    (Noh.L1.specific_internal_energy_hasDerivAt_r p r t).deriv,
    (Noh.L1.velocity_hasDerivAt_r p r t).deriv]
  simp only [epv_deriv, epv_leaf]
  ring

/-! ### Noh2 (uniform collapse, t < 1) -/

theorem noh2_leaves : Noh2.okLeaves = [1] := rfl

theorem noh2_mass (p : Noh2.P) (r t : ℝ) (hr : r ≠ 0) (ht : t < 1) :
    massRes (Noh2.L1.density p) (Noh2.L1.velocity p) (p.geometry - 1) r t = 0 := by
  have h1 : 0 < (1 : ℝ) - t := by linarith
  unfold massRes dr dt
  epv_hydro_rw_derivs [Noh2.L1.density_hasDerivAt_t p r t, Noh2.L1.density_hasDerivAt_r p r t,
    Noh2.L1.velocity_hasDerivAt_r p r t]
  simp only [epv_deriv, epv_leaf]
  epv_hydro_gen_rpow
  have h1' := h1.ne'
  field_simp
  ring

theorem noh2_momentum (p : Noh2.P) (r t : ℝ) (ht : t < 1) :
    momResP (Noh2.L1.density p) (Noh2.L1.velocity p) (Noh2.L1.pressure p) r t = 0 := by
  have h1 : 0 < (1 : ℝ) - t := by linarith
  unfold momResP dr dt
  epv_hydro_rw_derivs [Noh2.L1.velocity_hasDerivAt_t p r t, Noh2.L1.velocity_hasDerivAt_r p r t,
    Noh2.L1.pressure_hasDerivAt_r p r t]
  simp only [epv_deriv, epv_leaf]
  have h1' := h1.ne'
  field_simp
  ring

theorem noh2_energy (p : Noh2.P) (r t : ℝ) (hr : r ≠ 0) (ht : t < 1) (hρ : p.rho0 ≠ 0) :
    energyResE (Noh2.L1.density p) (Noh2.L1.velocity p) (Noh2.L1.pressure p)
      (Noh2.L1.specific_internal_energy p) (p.geometry - 1) r t = 0 := by
  have h1 : 0 < (1 : ℝ) - t := by linarith
  unfold energyResE dr dt
  epv_hydro_rw_derivs [Noh2.L1.specific_internal_energy_hasDerivAt_t p r t,
    Noh2.L1.specific_internal_energy_hasDerivAt_r p r t,
    Noh2.L1.velocity_hasDerivAt_r p r t]
  simp only [epv_deriv, epv_leaf]
  epv_hydro_gen_rpow
  have h1' := h1.ne'
  field_simp
  ring

example : ∃ p : Noh2.P, ∃ r t : ℝ, r ≠ 0 ∧ t < 1 ∧ p.rho0 ≠ 0 :=
  ⟨⟨1, 5 / 3, 3, 1⟩, 1, 1 / 2, by norm_num, by norm_num, by norm_num⟩

/-! ### Noh2 through Cog1 (`Noh2Cog`), t < 1

The traced tree has one `ok` leaf per accepted value of `geometry` (the constructor's
membership test); the leaf expressions keep `geometry` symbolic, so each leaf theorem
holds for every real geometry factor.  The solver multiplies by `r ** 0`, for which the
generator emits no r-certificate: the r-derivatives of the r-independent fields are
obtained here from `deriv_const`. -/

theorem noh2cog_leaves : Noh2Cog.okLeaves = [5, 7, 9] := rfl

private theorem deriv_of_const {f : ℝ → ℝ} (c : ℝ) (h : ∀ x, f x = c) (r : ℝ) : deriv f r = 0 := by
  have : f = fun _ => c := funext h
  rw [this]
  exact deriv_const r c

/-- leaf 5 (geometry = 3 path): mass balance -/
theorem noh2cog_L5_mass (p : Noh2Cog.P) (r t : ℝ) (hr : r ≠ 0) (ht : t < 1) :
    massRes (Noh2Cog.L5.density p) (Noh2Cog.L5.velocity p) (p.geometry - 1) r t = 0 := by
  have h1 : 0 < (1 : ℝ) - t := by linarith
  have hdr : deriv (fun x => Noh2Cog.L5.density p x t) r = 0 :=
    deriv_of_const (Noh2Cog.L5.density p 1 t) (fun x => by simp only [epv_leaf, pow_zero]) r
  unfold massRes dr dt
  epv_hydro_rw_derivs [Noh2Cog.L5.density_hasDerivAt_t p r t, Noh2Cog.L5.velocity_hasDerivAt_r p r t]
  rw [hdr]
  simp only [epv_deriv, epv_leaf]
  epv_hydro_gen_rpow
  have h1' := h1.ne'
  field_simp
  ring

/-- leaf 5: momentum balance -/
theorem noh2cog_L5_momentum (p : Noh2Cog.P) (r t : ℝ) (ht : t < 1) :
    momResP (Noh2Cog.L5.density p) (Noh2Cog.L5.velocity p) (Noh2Cog.L5.pressure p) r t = 0 := by
  have h1 : 0 < (1 : ℝ) - t := by linarith
  have hdr : deriv (fun x => Noh2Cog.L5.pressure p x t) r = 0 :=
    deriv_of_const (Noh2Cog.L5.pressure p 1 t) (fun x => by simp only [epv_leaf, pow_zero]) r
  unfold momResP dr dt
  epv_hydro_rw_derivs [Noh2Cog.L5.velocity_hasDerivAt_t p r t, Noh2Cog.L5.velocity_hasDerivAt_r p r t]
  rw [hdr]
  simp only [epv_deriv, epv_leaf]
  have h1' := h1.ne'
  field_simp
  ring

/-- leaf 5: internal-energy balance (ρ₀ ≠ 0, γ ≠ 1: the code divides by ρ and by γ - 1) -/
theorem noh2cog_L5_energy (p : Noh2Cog.P) (r t : ℝ) (hr : r ≠ 0) (ht : t < 1) (hρ : p.rho0 ≠ 0)
    (hγ : p.gamma - 1 ≠ 0) :
    energyResE (Noh2Cog.L5.density p) (Noh2Cog.L5.velocity p) (Noh2Cog.L5.pressure p)
      (Noh2Cog.L5.specific_internal_energy p) (p.geometry - 1) r t = 0 := by
  have h1 : 0 < (1 : ℝ) - t := by linarith
  have hdr : deriv (fun x => Noh2Cog.L5.specific_internal_energy p x t) r = 0 :=
    deriv_of_const (Noh2Cog.L5.specific_internal_energy p 1 t)
      (fun x => by simp only [epv_leaf, pow_zero, one_pow]) r
  unfold energyResE dr dt
  epv_hydro_rw_derivs [Noh2Cog.L5.specific_internal_energy_hasDerivAt_t p r t,
    Noh2Cog.L5.velocity_hasDerivAt_r p r t]
  rw [hdr]
  simp only [epv_deriv, epv_leaf]
  epv_hydro_gen_rpow
  have h1' := h1.ne'
  field_simp
  ring

/-- leaf 7 (geometry = 2 path): mass balance -/
theorem noh2cog_L7_mass (p : Noh2Cog.P) (r t : ℝ) (hr : r ≠ 0) (ht : t < 1) :
    massRes (Noh2Cog.L7.density p) (Noh2Cog.L7.velocity p) (p.geometry - 1) r t = 0 := by
  have h1 : 0 < (1 : ℝ) - t := by linarith
  have hdr : deriv (fun x => Noh2Cog.L7.density p x t) r = 0 :=
    deriv_of_const (Noh2Cog.L7.density p 1 t) (fun x => by simp only [epv_leaf, pow_zero]) r
  unfold massRes dr dt
  epv_hydro_rw_derivs [Noh2Cog.L7.density_hasDerivAt_t p r t, Noh2Cog.L7.velocity_hasDerivAt_r p r t]
  rw [hdr]
  simp only [epv_deriv, epv_leaf]
  epv_hydro_gen_rpow
  have h1' := h1.ne'
  field_simp
  ring

/-- leaf 7: momentum balance -/
theorem noh2cog_L7_momentum (p : Noh2Cog.P) (r t : ℝ) (ht : t < 1) :
    momResP (Noh2Cog.L7.density p) (Noh2Cog.L7.velocity p) (Noh2Cog.L7.pressure p) r t = 0 := by
  have h1 : 0 < (1 : ℝ) - t := by linarith
  have hdr : deriv (fun x => Noh2Cog.L7.pressure p x t) r = 0 :=
    deriv_of_const (Noh2Cog.L7.pressure p 1 t) (fun x => by simp only [epv_leaf, pow_zero]) r
  unfold momResP dr dt
  epv_hydro_rw_derivs [Noh2Cog.L7.velocity_hasDerivAt_t p r t, Noh2Cog.L7.velocity_hasDerivAt_r p r t]
  rw [hdr]
  simp only [epv_deriv, epv_leaf]
  have h1' := h1.ne'
  field_simp
  ring

/-- leaf 7: internal-energy balance (ρ₀ ≠ 0, γ ≠ 1: the code divides by ρ and by γ - 1) -/
theorem noh2cog_L7_energy (p : Noh2Cog.P) (r t : ℝ) (hr : r ≠ 0) (ht : t < 1) (hρ : p.rho0 ≠ 0)
    (hγ : p.gamma - 1 ≠ 0) :
    energyResE (Noh2Cog.L7.density p) (Noh2Cog.L7.velocity p) (Noh2Cog.L7.pressure p)
      (Noh2Cog.L7.specific_internal_energy p) (p.geometry - 1) r t = 0 := by
  have h1 : 0 < (1 : ℝ) - t := by linarith
  have hdr : deriv (fun x => Noh2Cog.L7.specific_internal_energy p x t) r = 0 :=
    deriv_of_const (Noh2Cog.L7.specific_internal_energy p 1 t)
      (fun x => by simp only [epv_leaf, pow_zero, one_pow]) r
  unfold energyResE dr dt
  epv_hydro_rw_derivs [Noh2Cog.L7.specific_internal_energy_hasDerivAt_t p r t,
    Noh2Cog.L7.velocity_hasDerivAt_r p r t]
  rw [hdr]
  simp only [epv_deriv, epv_leaf]
  epv_hydro_gen_rpow
  have h1' := h1.ne'
  field_simp
  ring

/-- leaf 9 (geometry = 1 path): mass balance -/
theorem noh2cog_L9_mass (p : Noh2Cog.P) (r t : ℝ) (hr : r ≠ 0) (ht : t < 1) :
    massRes (Noh2Cog.L9.density p) (Noh2Cog.L9.velocity p) (p.geometry - 1) r t = 0 := by
  have h1 : 0 < (1 : ℝ) - t := by linarith
  have hdr : deriv (fun x => Noh2Cog.L9.density p x t) r = 0 :=
    deriv_of_const (Noh2Cog.L9.density p 1 t) (fun x => by simp only [epv_leaf, pow_zero]) r
  unfold massRes dr dt
  epv_hydro_rw_derivs [Noh2Cog.L9.density_hasDerivAt_t p r t, Noh2Cog.L9.velocity_hasDerivAt_r p r t]
  rw [hdr]
  simp only [epv_deriv, epv_leaf]
  epv_hydro_gen_rpow
  have h1' := h1.ne'
  field_simp
  ring

/-- leaf 9: momentum balance -/
theorem noh2cog_L9_momentum (p : Noh2Cog.P) (r t : ℝ) (ht : t < 1) :
    momResP (Noh2Cog.L9.density p) (Noh2Cog.L9.velocity p) (Noh2Cog.L9.pressure p) r t = 0 := by
  have h1 : 0 < (1 : ℝ) - t := by linarith
  have hdr : deriv (fun x => Noh2Cog.L9.pressure p x t) r = 0 :=
    deriv_of_const (Noh2Cog.L9.pressure p 1 t) (fun x => by simp only [epv_leaf, pow_zero]) r
  unfold momResP dr dt
  epv_hydro_rw_derivs [Noh2Cog.L9.velocity_hasDerivAt_t p r t, Noh2Cog.L9.velocity_hasDerivAt_r p r t]
  rw [hdr]
  simp only [epv_deriv, epv_leaf]
  have h1' := h1.ne'
  field_simp
  ring

/-- leaf 9: internal-energy balance (ρ₀ ≠ 0, γ ≠ 1: the code divides by ρ and by γ - 1) -/
theorem noh2cog_L9_energy (p : Noh2Cog.P) (r t : ℝ) (hr : r ≠ 0) (ht : t < 1) (hρ : p.rho0 ≠ 0)
    (hγ : p.gamma - 1 ≠ 0) :
    energyResE (Noh2Cog.L9.density p) (Noh2Cog.L9.velocity p) (Noh2Cog.L9.pressure p)
      (Noh2Cog.L9.specific_internal_energy p) (p.geometry - 1) r t = 0 := by
  have h1 : 0 < (1 : ℝ) - t := by linarith
  have hdr : deriv (fun x => Noh2Cog.L9.specific_internal_energy p x t) r = 0 :=
    deriv_of_const (Noh2Cog.L9.specific_internal_energy p 1 t)
      (fun x => by simp only [epv_leaf, pow_zero, one_pow]) r
  unfold energyResE dr dt
  epv_hydro_rw_derivs [Noh2Cog.L9.specific_internal_energy_hasDerivAt_t p r t,
    Noh2Cog.L9.velocity_hasDerivAt_r p r t]
  rw [hdr]
  simp only [epv_deriv, epv_leaf]
  epv_hydro_gen_rpow
  have h1' := h1.ne'
  field_simp
  ring

example : ∃ p : Noh2Cog.P, ∃ r t : ℝ, r ≠ 0 ∧ t < 1 ∧ p.rho0 ≠ 0 ∧ p.gamma - 1 ≠ 0 :=
  ⟨⟨1, 5 / 3, 3, 1⟩, 1, 1 / 2, by norm_num, by norm_num, by norm_num, by norm_num⟩

/-! ### The returned (tree-level) fields

`Noh`: away from the shock r = |u₀| t (γ-1)/2; `Noh2`, `Noh2Cog`: for t < 1 (and an accepted
geometry).  The returned fields agree with those of one leaf near the point. -/

/-- behind the shock the returned Noh fields are those of leaf 0 near the point -/
theorem noh_tree_post (p : Noh.P) (r t : ℝ) (h : r < |p.u0| * t * (p.gamma - 1) / 2) :
    AgreeNear (Noh.density p) (Noh.L0.density p) r t ∧ AgreeNear (Noh.velocity p) (Noh.L0.velocity p) r t
      ∧ AgreeNear (Noh.pressure p) (Noh.L0.pressure p) r t
      ∧ AgreeNear (Noh.specific_internal_energy p) (Noh.L0.specific_internal_energy p) r t := by
  have hx : ∀ᶠ x in 𝓝 r, Noh.c0 p x t :=
    (eventually_lt_nhds h).mono fun x hx => (EPV.Bridge.noh_c0_iff p x t).2 hx
  have hs : ∀ᶠ s in 𝓝 t, Noh.c0 p r s := by
    have hc : ContinuousAt (fun s : ℝ => |p.u0| * s * (p.gamma - 1) / 2) t := by fun_prop
    exact (continuousAt_const.eventually_lt hc h).mono fun s hs => (EPV.Bridge.noh_c0_iff p r s).2 hs
  exact ⟨agreeNear_of_cond (fun x s hc => by simp only [epv_tree, if_pos hc]) hx hs,
    agreeNear_of_cond (fun x s hc => by simp only [epv_tree, if_pos hc]) hx hs,
    agreeNear_of_cond (fun x s hc => by simp only [epv_tree, if_pos hc]) hx hs,
    agreeNear_of_cond (fun x s hc => by simp only [epv_tree, if_pos hc]) hx hs⟩

/-- ahead of the shock the returned Noh fields are those of leaf 1 near the point -/
theorem noh_tree_pre (p : Noh.P) (r t : ℝ) (h : |p.u0| * t * (p.gamma - 1) / 2 < r) :
    AgreeNear (Noh.density p) (Noh.L1.density p) r t ∧ AgreeNear (Noh.velocity p) (Noh.L1.velocity p) r t
      ∧ AgreeNear (Noh.pressure p) (Noh.L1.pressure p) r t
      ∧ AgreeNear (Noh.specific_internal_energy p) (Noh.L1.specific_internal_energy p) r t := by
  have hx : ∀ᶠ x in 𝓝 r, ¬ Noh.c0 p x t :=
    (eventually_gt_nhds h).mono fun x hx => (EPV.Bridge.noh_not_c0_iff p x t).2 hx.le
  have hs : ∀ᶠ s in 𝓝 t, ¬ Noh.c0 p r s := by
    have hc : ContinuousAt (fun s : ℝ => |p.u0| * s * (p.gamma - 1) / 2) t := by fun_prop
    exact (hc.eventually_lt continuousAt_const h).mono fun s hs => (EPV.Bridge.noh_not_c0_iff p r s).2 hs.le
  exact ⟨agreeNear_of_cond (c := fun x s => ¬ Noh.c0 p x s) (fun x s hc => by simp only [epv_tree, if_neg hc]) hx hs,
    agreeNear_of_cond (c := fun x s => ¬ Noh.c0 p x s) (fun x s hc => by simp only [epv_tree, if_neg hc]) hx hs,
    agreeNear_of_cond (c := fun x s => ¬ Noh.c0 p x s) (fun x s hc => by simp only [epv_tree, if_neg hc]) hx hs,
    agreeNear_of_cond (c := fun x s => ¬ Noh.c0 p x s) (fun x s hc => by simp only [epv_tree, if_neg hc]) hx hs⟩

/-- the three balance equations for the returned Noh fields at every point away from the shock
(documented domain: r > 0, t ≥ 0, u₀ < 0) -/
theorem noh_tree (p : Noh.P) (r t : ℝ) (hr : 0 < r) (ht : 0 ≤ t) (hu : p.u0 < 0)
    (hsh : r ≠ |p.u0| * t * (p.gamma - 1) / 2) :
    massRes (Noh.density p) (Noh.velocity p) (p.geometry - 1) r t = 0
      ∧ momResP (Noh.density p) (Noh.velocity p) (Noh.pressure p) r t = 0
      ∧ energyResE (Noh.density p) (Noh.velocity p) (Noh.pressure p) (Noh.specific_internal_energy p)
          (p.geometry - 1) r t = 0 := by
  rcases lt_or_gt_of_ne hsh with h | h
  · obtain ⟨h1, h2, h3, h4⟩ := noh_tree_post p r t h
    rw [massRes_congr_near h1 h2, momResP_congr_near h1 h2 h3, energyResE_congr_near h1 h2 h3 h4]
    exact ⟨noh_post_mass p r t, noh_post_momentum p r t, noh_post_energy p r t⟩
  · obtain ⟨h1, h2, h3, h4⟩ := noh_tree_pre p r t h
    rw [massRes_congr_near h1 h2, momResP_congr_near h1 h2 h3, energyResE_congr_near h1 h2 h3 h4]
    exact ⟨noh_pre_mass p r t hr ht hu, noh_pre_momentum p r t, noh_pre_energy p r t⟩

/-- for t < 1 the returned Noh2 fields are those of leaf 1 near the point -/
theorem noh2_tree_agree (p : Noh2.P) (r t : ℝ) (ht : t < 1) :
    AgreeNear (Noh2.density p) (Noh2.L1.density p) r t ∧ AgreeNear (Noh2.velocity p) (Noh2.L1.velocity p) r t
      ∧ AgreeNear (Noh2.pressure p) (Noh2.L1.pressure p) r t
      ∧ AgreeNear (Noh2.specific_internal_energy p) (Noh2.L1.specific_internal_energy p) r t := by
  have hx : ∀ᶠ x in 𝓝 r, t < 1 := Eventually.of_forall fun _ => ht
  have hs : ∀ᶠ s in 𝓝 t, s < 1 := eventually_lt_nhds ht
  have e : ∀ x s : ℝ, s < 1 → ¬ Noh2.c0 p x s := by
    intro x s hc; simp only [epv_cond, not_le]; exact hc
  exact ⟨agreeNear_of_cond (c := fun _ s => s < 1) (fun x s hc => by simp only [epv_tree, if_neg (e x s hc)]) hx hs,
    agreeNear_of_cond (c := fun _ s => s < 1) (fun x s hc => by simp only [epv_tree, if_neg (e x s hc)]) hx hs,
    agreeNear_of_cond (c := fun _ s => s < 1) (fun x s hc => by simp only [epv_tree, if_neg (e x s hc)]) hx hs,
    agreeNear_of_cond (c := fun _ s => s < 1) (fun x s hc => by simp only [epv_tree, if_neg (e x s hc)]) hx hs⟩

/-- the three balance equations for the returned Noh2 fields, t < 1 -/
theorem noh2_tree (p : Noh2.P) (r t : ℝ) (hr : r ≠ 0) (ht : t < 1) (hρ : p.rho0 ≠ 0) :
    massRes (Noh2.density p) (Noh2.velocity p) (p.geometry - 1) r t = 0
      ∧ momResP (Noh2.density p) (Noh2.velocity p) (Noh2.pressure p) r t = 0
      ∧ energyResE (Noh2.density p) (Noh2.velocity p) (Noh2.pressure p) (Noh2.specific_internal_energy p)
          (p.geometry - 1) r t = 0 := by
  obtain ⟨h1, h2, h3, h4⟩ := noh2_tree_agree p r t ht
  rw [massRes_congr_near h1 h2, momResP_congr_near h1 h2 h3, energyResE_congr_near h1 h2 h3 h4]
  exact ⟨noh2_mass p r t hr ht, noh2_momentum p r t ht, noh2_energy p r t hr ht hρ⟩

/-- for t < 1 and an accepted geometry the returned Noh2Cog fields are those of leaf 5 (the three
ok leaves carry the same expressions) -/
theorem noh2cog_tree_eq (p : Noh2Cog.P) (hg : p.geometry = 1 ∨ p.geometry = 2 ∨ p.geometry = 3)
    (x s : ℝ) (hs : s < 1) :
    Noh2Cog.density p x s = Noh2Cog.L5.density p x s ∧ Noh2Cog.velocity p x s = Noh2Cog.L5.velocity p x s
      ∧ Noh2Cog.pressure p x s = Noh2Cog.L5.pressure p x s
      ∧ Noh2Cog.specific_internal_energy p x s = Noh2Cog.L5.specific_internal_energy p x s := by
  have h1 : ¬ (1 : ℝ) ≤ s := not_le.2 hs
  have h4 : ¬ (1 : ℝ) - s ≤ 0 := by linarith
  simp only [epv_tree, epv_cond, h1, h4, if_false]
  rcases hg with h | h | h
  · rw [if_pos h, if_pos h, if_pos h, if_pos h]
    exact ⟨rfl, rfl, rfl, rfl⟩
  · have h' : ¬ p.geometry = 1 := by rw [h]; norm_num
    rw [if_neg h', if_neg h', if_neg h', if_neg h', if_pos h, if_pos h, if_pos h, if_pos h]
    exact ⟨rfl, rfl, rfl, rfl⟩
  · have h' : ¬ p.geometry = 1 := by rw [h]; norm_num
    have h'' : ¬ p.geometry = 2 := by rw [h]; norm_num
    rw [if_neg h', if_neg h', if_neg h', if_neg h', if_neg h'', if_neg h'', if_neg h'', if_neg h'',
      if_pos h, if_pos h, if_pos h, if_pos h]
    exact ⟨rfl, rfl, rfl, rfl⟩

theorem noh2cog_tree_agree (p : Noh2Cog.P) (hg : p.geometry = 1 ∨ p.geometry = 2 ∨ p.geometry = 3)
    (r t : ℝ) (ht : t < 1) :
    AgreeNear (Noh2Cog.density p) (Noh2Cog.L5.density p) r t
      ∧ AgreeNear (Noh2Cog.velocity p) (Noh2Cog.L5.velocity p) r t
      ∧ AgreeNear (Noh2Cog.pressure p) (Noh2Cog.L5.pressure p) r t
      ∧ AgreeNear (Noh2Cog.specific_internal_energy p) (Noh2Cog.L5.specific_internal_energy p) r t := by
  have hx : ∀ᶠ x in 𝓝 r, t < 1 := Eventually.of_forall fun _ => ht
  have hs : ∀ᶠ s in 𝓝 t, s < 1 := eventually_lt_nhds ht
  exact ⟨agreeNear_of_cond (c := fun _ s => s < 1) (fun x s hc => (noh2cog_tree_eq p hg x s hc).1) hx hs,
    agreeNear_of_cond (c := fun _ s => s < 1) (fun x s hc => (noh2cog_tree_eq p hg x s hc).2.1) hx hs,
    agreeNear_of_cond (c := fun _ s => s < 1) (fun x s hc => (noh2cog_tree_eq p hg x s hc).2.2.1) hx hs,
    agreeNear_of_cond (c := fun _ s => s < 1) (fun x s hc => (noh2cog_tree_eq p hg x s hc).2.2.2) hx hs⟩

/-- the three balance equations for the returned Noh2Cog fields, t < 1, geometry ∈ {1, 2, 3} -/
theorem noh2cog_tree (p : Noh2Cog.P) (hg : p.geometry = 1 ∨ p.geometry = 2 ∨ p.geometry = 3)
    (r t : ℝ) (hr : r ≠ 0) (ht : t < 1) (hρ : p.rho0 ≠ 0) (hγ : p.gamma - 1 ≠ 0) :
    massRes (Noh2Cog.density p) (Noh2Cog.velocity p) (p.geometry - 1) r t = 0
      ∧ momResP (Noh2Cog.density p) (Noh2Cog.velocity p) (Noh2Cog.pressure p) r t = 0
      ∧ energyResE (Noh2Cog.density p) (Noh2Cog.velocity p) (Noh2Cog.pressure p)
          (Noh2Cog.specific_internal_energy p) (p.geometry - 1) r t = 0 := by
  obtain ⟨h1, h2, h3, h4⟩ := noh2cog_tree_agree p hg r t ht
  rw [massRes_congr_near h1 h2, momResP_congr_near h1 h2 h3, energyResE_congr_near h1 h2 h3 h4]
  exact ⟨noh2cog_L5_mass p r t hr ht, noh2cog_L5_momentum p r t ht, noh2cog_L5_energy p r t hr ht hρ hγ⟩

/-- non-vacuity of the hypotheses of `noh_tree` (class defaults, r = 1, t = 1/2; shock at 1/6) -/
example : ∃ p : Noh.P, ∃ r t : ℝ, 0 < r ∧ 0 ≤ t ∧ p.u0 < 0 ∧ r ≠ |p.u0| * t * (p.gamma - 1) / 2 := by
  refine ⟨⟨5 / 3, 3, 1, -1⟩, 1, 1 / 2, by norm_num, by norm_num, by norm_num, ?_⟩
  norm_num [abs_of_neg]

end EPV.C01
