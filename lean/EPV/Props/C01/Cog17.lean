/-
C01 — Coggeshall solution 17, as coded:  ρ = ρ₀ r^{c₁} t^{c₂},  u = u₀ r/t,  T = T₀ (r/t)²  with
c₁ = (2β-4)/(1-α),  c₂ = (2β+5)/(1-α)  [the documentation has (2β+5)/(α-1)],
u₀ = (2β+5)/(2β-4+(1-α)(k+1)),  T₀ and ρ₀ = [ … ]^{1/(1-α)}  [documentation: ^{1/(α-1)}].

What holds and what does not (k = geometry - 1 an arbitrary real; hypotheses = the generated
side conditions `Cog17.L1.WellDefined`: r, t > 0, T₀ > 0, the bracket of ρ₀ > 0, no zero denominator):

* momentum balance: proved (`cog17_momentum`).
* mass balance: **violated everywhere**.  `cog17_mass_residual` computes the residual

        ρ_t + u ρ_r + ρ u_r + k ρ u / r  =  2 (2β+5)/(1-α) · ρ/t ,

  i.e. the coded time exponent has the wrong sign (c₂ = -u₀ (c₁+k+1) = (2β+5)/(α-1) is what the
  mass equation needs and what the documentation prints).  `cog17_mass_ne_zero`, `Finding_cog17_mass`.
* energy balance with the radiative flux: **violated**.  `cog17_energy_residual` gives the residual
  as (hydrodynamic term ∝ r² t⁻³) − (conduction term ∝ r¹⁰ · t-power): the powers of r do not even
  match, so it cannot vanish at two radii (`cog17_energy_two_point`, `Finding_cog17_energy`).
* domain: at the class defaults (α = 2, β = 1) the temperature (and the density) returned are
  negative (`Finding_cog17_domain`); so they are for every α in the constructor's range [-2,-1]
  with β ∈ [1,3] — the upstream test has its density and pressure assertions commented out.

The witness used for the mass and energy findings (`cog17_witness`: α = 3/2, β = 3, geometry 3,
γ = 1.4, λ₀ = 0.1, Γ = 40) lies inside the documented ranges and gives real, positive fields.
-/
import EPV.Gen.Cog17D
import EPV.Spec.Euler1D
import EPV.Lemmas.Euler1Db
import EPV.Lemmas.HydroRobust
import EPV.Tactics

set_option linter.all false

open EPV EPV.Gen EPV.Spec EPV.Lemmas

open Filter Topology

namespace EPV.C01

/-- the traced model has exactly the leaves the theorems below cover (leaf 0: NaN for t ≤ 0) -/
theorem cog17_leaves : Cog17.okLeaves = [1] := rfl

/-- the mass residual of the coded solution in closed form -/
theorem cog17_mass_residual (p : Cog17.P) (r t : ℝ) (hr : 0 < r) (ht : 0 < t)
    (hx3 : 2 * p.beta - 4 + (1 - p.alpha) * ((p.geometry - 1) + 1) ≠ 0) (hα : 1 - p.alpha ≠ 0) :
    massRes (Cog17.L1.density p) (Cog17.L1.velocity p) (p.geometry - 1) r t
      = 2 * (2 * p.beta + 5) / (1 - p.alpha) * Cog17.L1.density p r t / t := by
  have hρr : dr (Cog17.L1.density p) r t
      = ((((2 : ℝ) * p.beta) - 4) * ((1 : ℝ) / (1 - p.alpha))) * Cog17.L1.density p r t / r := by
    unfold dr
    epv_hydro_rw_derivs [Cog17.L1.density_hasDerivAt_r p r t]
    simp only [epv_deriv, epv_leaf]
    ring
  have hρt : dt (Cog17.L1.density p) r t
      = ((((2 : ℝ) * p.beta) + 5) * ((1 : ℝ) / (1 - p.alpha))) * Cog17.L1.density p r t / t := by
    unfold dt
    epv_hydro_rw_derivs [Cog17.L1.density_hasDerivAt_t p r t]
    simp only [epv_deriv, epv_leaf]
    ring
  have hur : dr (Cog17.L1.velocity p) r t = Cog17.L1.velocity p r t / r := by
    unfold dr
    epv_hydro_rw_derivs [Cog17.L1.velocity_hasDerivAt_r p r t]
    simp only [epv_deriv, epv_leaf]
    have hr' := hr.ne'
    field_simp
  have hu : Cog17.L1.velocity p r t
      = (2 * p.beta + 5) / (2 * p.beta - 4 + (1 - p.alpha) * ((p.geometry - 1) + 1)) * (r / t) := by
    simp only [epv_leaf]; ring
  unfold massRes
  rw [hρr, hρt, hur, hu]
  generalize Cog17.L1.density p r t = ρ
  have hr' := hr.ne'
  have ht' := ht.ne'
  field_simp
  ring

theorem cog17_momentum (p : Cog17.P) (r t : ℝ) (hwd : Cog17.L1.WellDefined p r t) :
    momResT (Cog17.L1.density p) (Cog17.L1.velocity p) (Cog17.L1.temperature p) p.Gamma r t = 0 := by
  obtain ⟨hx3, hα, hx7, hca, hγ, hΓ, -, hx5, hT0, hbase, hr, ht, -, hρne⟩ := hwd
  have hρr : dr (Cog17.L1.density p) r t
      = ((((2 : ℝ) * p.beta) - 4) * ((1 : ℝ) / (1 - p.alpha))) * Cog17.L1.density p r t / r := by
    unfold dr
    epv_hydro_rw_derivs [Cog17.L1.density_hasDerivAt_r p r t]
    simp only [epv_deriv, epv_leaf]
    ring
  unfold momResT
  rw [hρr]
  unfold dr dt
  epv_hydro_rw_derivs [Cog17.L1.velocity_hasDerivAt_t p r t, Cog17.L1.velocity_hasDerivAt_r p r t,
    Cog17.L1.temperature_hasDerivAt_r p r t]
  have hρne' : Cog17.L1.density p r t ≠ 0 := hρne
  generalize Cog17.L1.density p r t = ρ at hρne' ⊢
  simp only [epv_deriv, epv_leaf]
  have hr' := hr.ne'
  have ht' := ht.ne'
  field_simp
  ring

/-- the energy residual of the coded solution: hydrodynamic part (∝ T/t) minus the conduction
term in the closed form of `energyResT_powerLaw` (m = (2β-4)/(1-α), n = 2, so that
n (m α + n (β+4) - 1 + k) = 2α(2β-4)/(1-α) + 4β + 2k + 14) -/
theorem cog17_energy_residual (p : Cog17.P) (r t : ℝ) (hwd : Cog17.L1.WellDefined p r t) :
    energyResT (Cog17.L1.density p) (Cog17.L1.velocity p) (Cog17.L1.temperature p)
      p.Gamma p.gamma (p.geometry - 1) 29970000000 (686 / 5) p.lambda0 p.alpha p.beta r t
      = p.Gamma * Cog17.L1.temperature p r t / t
          * ((-2 + (2 * p.beta + 5) / (2 * p.beta - 4 + (1 - p.alpha) * ((p.geometry - 1) + 1))
                    * (2 + (p.gamma - 1) * ((p.geometry - 1) + 1))) / (p.gamma - 1))
        - (4 * (686 / 5) * 29970000000 * p.lambda0 / 3)
            * (2 * (p.alpha * (2 * p.beta - 4) * (1 / (1 - p.alpha)) + 2 * p.beta + (p.geometry - 1) + 7))
            * ((Cog17.L1.density p r t ^ p.alpha * Cog17.L1.temperature p r t ^ p.beta
                * Cog17.L1.temperature p r t ^ (4 : ℕ)) / (r ^ (2 : ℕ) * Cog17.L1.density p r t)) := by
  obtain ⟨hx3, hα, hx7, hca, hγ, hΓ, -, hx5, hT0, hbase, hr, ht, -, hρne⟩ := hwd
  have hρ : ∀ x, 0 < x → Cog17.L1.density p x t
      = Cog17.L1.density p 1 t * x ^ ((((2 : ℝ) * p.beta) - 4) * ((1 : ℝ) / (1 - p.alpha))) := by
    intro x _; simp only [epv_leaf, Real.one_rpow]; ring
  have hT : ∀ x, 0 < x → Cog17.L1.temperature p x t = Cog17.L1.temperature p 1 t * x ^ (2 : ℝ) := by
    intro x _; rw [Real.rpow_two]; simp only [epv_leaf]; ring
  have hR : 0 < Cog17.L1.density p 1 t := by simp only [epv_leaf]; positivity
  have hΘ : 0 < Cog17.L1.temperature p 1 t := by
    obtain ⟨Θ, hΘeq, hΘpos⟩ := exists_eq_of_pos hT0
    simp only [epv_leaf, ← hΘeq]; positivity
  rw [energyResT_powerLaw _ _ _ _ _ _ _ _ _ _ _ _ _ _ _ r t hr hR hΘ hρ hT]
  unfold energyHydroT dr dt
  epv_hydro_rw_derivs [Cog17.L1.temperature_hasDerivAt_t p r t, Cog17.L1.temperature_hasDerivAt_r p r t,
    Cog17.L1.velocity_hasDerivAt_r p r t]
  generalize Cog17.L1.density p r t ^ p.alpha * Cog17.L1.temperature p r t ^ p.beta
    * Cog17.L1.temperature p r t ^ (4 : ℕ) = Φ
  have hρne' : Cog17.L1.density p r t ≠ 0 := hρne
  generalize Cog17.L1.density p r t = ρ at hρne' ⊢
  simp only [epv_deriv, epv_leaf]
  have hr' := hr.ne'
  have ht' := ht.ne'
  field_simp
  ring

/-- the conduction term of `cog17_energy_residual` scales like r¹⁰ while the hydrodynamic term
scales like r²: if the energy equation held at r = 1 and at r = 2 (same t), the hydrodynamic
term would have to vanish -/
theorem cog17_energy_two_point (p : Cog17.P) (t : ℝ) (hwd1 : Cog17.L1.WellDefined p 1 t)
    (hwd2 : Cog17.L1.WellDefined p 2 t)
    (h1 : energyResT (Cog17.L1.density p) (Cog17.L1.velocity p) (Cog17.L1.temperature p)
      p.Gamma p.gamma (p.geometry - 1) 29970000000 (686 / 5) p.lambda0 p.alpha p.beta 1 t = 0)
    (h2 : energyResT (Cog17.L1.density p) (Cog17.L1.velocity p) (Cog17.L1.temperature p)
      p.Gamma p.gamma (p.geometry - 1) 29970000000 (686 / 5) p.lambda0 p.alpha p.beta 2 t = 0) :
    p.Gamma * Cog17.L1.temperature p 1 t / t
      * ((-2 + (2 * p.beta + 5) / (2 * p.beta - 4 + (1 - p.alpha) * ((p.geometry - 1) + 1))
                * (2 + (p.gamma - 1) * ((p.geometry - 1) + 1))) / (p.gamma - 1)) = 0 := by
  rw [cog17_energy_residual p 1 t hwd1] at h1
  rw [cog17_energy_residual p 2 t hwd2] at h2
  obtain ⟨hx3, hα, hx7, hca, hγ, hΓ, -, hx5, hT0, hbase, -, ht, -, hρne⟩ := hwd1
  have hρ2 : Cog17.L1.density p 2 t
      = Cog17.L1.density p 1 t * (2 : ℝ) ^ ((((2 : ℝ) * p.beta) - 4) * ((1 : ℝ) / (1 - p.alpha))) := by
    simp only [epv_leaf, Real.one_rpow]; ring
  have hT2 : Cog17.L1.temperature p 2 t = Cog17.L1.temperature p 1 t * (2 : ℝ) ^ (2 : ℕ) := by
    simp only [epv_leaf]; ring
  have hR : 0 < Cog17.L1.density p 1 t := by simp only [epv_leaf]; positivity
  have hΘ : 0 < Cog17.L1.temperature p 1 t := by
    obtain ⟨Θ, hΘeq, hΘpos⟩ := exists_eq_of_pos hT0
    simp only [epv_leaf, ← hΘeq]; positivity
  rw [hρ2, hT2] at h2
  generalize Cog17.L1.density p 1 t = ρ at h1 h2 hR
  generalize Cog17.L1.temperature p 1 t = T at h1 h2 hΘ ⊢
  have hΨ : ((ρ * (2 : ℝ) ^ ((((2 : ℝ) * p.beta) - 4) * ((1 : ℝ) / (1 - p.alpha)))) ^ p.alpha
        * (T * (2 : ℝ) ^ (2 : ℕ)) ^ p.beta * (T * (2 : ℝ) ^ (2 : ℕ)) ^ (4 : ℕ))
      / ((2 : ℝ) ^ (2 : ℕ) * (ρ * (2 : ℝ) ^ ((((2 : ℝ) * p.beta) - 4) * ((1 : ℝ) / (1 - p.alpha)))))
      = (2 : ℝ) ^ (10 : ℕ) * ((ρ ^ p.alpha * T ^ p.beta * T ^ (4 : ℕ)) / ((1 : ℝ) ^ (2 : ℕ) * ρ)) := by
    epv_rpow_eq
  rw [hΨ] at h2
  generalize (ρ ^ p.alpha * T ^ p.beta * T ^ (4 : ℕ)) / ((1 : ℝ) ^ (2 : ℕ) * ρ) = Ψ at h1 h2
  linear_combination (1024 / 1020 : ℝ) * h1 - (1 / 1020 : ℝ) * h2

/-! ### Findings -/

/-- a parameter set inside the documented ranges (-1 ≤ α ≤ 2, 1 ≤ β ≤ 3) on which the coded
solution is real with positive density and temperature: geometry 3, γ = 1.4, α = 3/2, β = 3,
λ₀ = 0.1, Γ = 40 (u₀ = 22, T₀ = 231/40) -/
noncomputable def cog17_witness : Cog17.P :=
  ⟨40, 686 / 5, 3 / 2, 3 / 2, 3, 3, 29970000000, 7 / 5, 3, 1 / 10, 1 / 10⟩

theorem cog17_witness_wellDefined (r t : ℝ) (hr : 0 < r) (ht : 0 < t) :
    Cog17.L1.WellDefined cog17_witness r t := by
  unfold Cog17.L1.WellDefined cog17_witness
  refine ⟨by norm_num, by norm_num, by norm_num, by norm_num, by norm_num, by norm_num, by norm_num,
    by norm_num, by norm_num, ?_, hr, ht, ht.ne', ?_⟩
  · norm_num
  · norm_num
    exact ⟨hr.ne', ht.ne'⟩

/-- the mass equation is violated wherever the coded solution is well defined (β ≠ -5/2) -/
theorem cog17_mass_ne_zero (p : Cog17.P) (r t : ℝ) (hwd : Cog17.L1.WellDefined p r t)
    (hβ : 2 * p.beta + 5 ≠ 0) :
    massRes (Cog17.L1.density p) (Cog17.L1.velocity p) (p.geometry - 1) r t ≠ 0 := by
  obtain ⟨hx3, hα, hx7, hca, hγ, hΓ, -, hx5, hT0, hbase, hr, ht, -, hρne⟩ := hwd
  rw [cog17_mass_residual p r t hr ht hx3 hα]
  have hρne' : Cog17.L1.density p r t ≠ 0 := hρne
  have ht' := ht.ne'
  exact div_ne_zero (mul_ne_zero (div_ne_zero (mul_ne_zero two_ne_zero hβ) hα) hρne') ht'

/-- FINDING (false on the current tree): Cog17 violates the documented mass equation — at the
witness parameters, r = 1, t = 1 (and, by `cog17_mass_ne_zero`, everywhere) -/
theorem Finding_cog17_mass :
    ∃ p : Cog17.P, ∃ r t : ℝ, Cog17.L1.WellDefined p r t ∧ p.geometry = 3 ∧
      -1 ≤ p.alpha ∧ p.alpha ≤ 2 ∧ 1 ≤ p.beta ∧ p.beta ≤ 3 ∧
      massRes (Cog17.L1.density p) (Cog17.L1.velocity p) (p.geometry - 1) r t ≠ 0 := by
  refine ⟨cog17_witness, 1, 1, cog17_witness_wellDefined 1 1 one_pos one_pos, ?_, ?_, ?_, ?_, ?_,
    cog17_mass_ne_zero _ 1 1 (cog17_witness_wellDefined 1 1 one_pos one_pos) ?_⟩ <;>
  norm_num [cog17_witness]

/-- FINDING (false on the current tree): Cog17 violates the documented energy equation — at the
witness parameters and t = 1 it fails at r = 1 or at r = 2 (the conduction term scales like r¹⁰,
the hydrodynamic term like r², and the latter does not vanish) -/
theorem Finding_cog17_energy :
    ∃ p : Cog17.P, ∃ r t : ℝ, Cog17.L1.WellDefined p r t ∧ p.geometry = 3 ∧
      -1 ≤ p.alpha ∧ p.alpha ≤ 2 ∧ 1 ≤ p.beta ∧ p.beta ≤ 3 ∧
      energyResT (Cog17.L1.density p) (Cog17.L1.velocity p) (Cog17.L1.temperature p)
        p.Gamma p.gamma (p.geometry - 1) 29970000000 (686 / 5) p.lambda0 p.alpha p.beta r t ≠ 0 := by
  have hw1 := cog17_witness_wellDefined 1 1 one_pos one_pos
  have hw2 := cog17_witness_wellDefined 2 1 two_pos one_pos
  by_cases h1 : energyResT (Cog17.L1.density cog17_witness) (Cog17.L1.velocity cog17_witness)
      (Cog17.L1.temperature cog17_witness) cog17_witness.Gamma cog17_witness.gamma
      (cog17_witness.geometry - 1) 29970000000 (686 / 5) cog17_witness.lambda0 cog17_witness.alpha
      cog17_witness.beta 1 1 = 0
  · by_cases h2 : energyResT (Cog17.L1.density cog17_witness) (Cog17.L1.velocity cog17_witness)
        (Cog17.L1.temperature cog17_witness) cog17_witness.Gamma cog17_witness.gamma
        (cog17_witness.geometry - 1) 29970000000 (686 / 5) cog17_witness.lambda0 cog17_witness.alpha
        cog17_witness.beta 2 1 = 0
    · exfalso
      have h := cog17_energy_two_point cog17_witness 1 hw1 hw2 h1 h2
      simp only [epv_leaf, cog17_witness] at h
      norm_num at h
    · exact ⟨cog17_witness, 2, 1, hw2, by norm_num [cog17_witness], by norm_num [cog17_witness],
        by norm_num [cog17_witness], by norm_num [cog17_witness], by norm_num [cog17_witness], h2⟩
  · exact ⟨cog17_witness, 1, 1, hw1, by norm_num [cog17_witness], by norm_num [cog17_witness],
      by norm_num [cog17_witness], by norm_num [cog17_witness], by norm_num [cog17_witness], h1⟩

/-- FINDING (domain, false on the current tree): at the class defaults (geometry 3, γ = 1.4, α = 2,
β = 1, λ₀ = 0.1, Γ = 40) the returned temperature is negative (T(1,1) = -0.021) and the generated
expressions are not well defined (the real call returns a negative density as well) -/
theorem Finding_cog17_domain :
    ∃ p : Cog17.P, ∃ r t : ℝ, p.geometry = 3 ∧ 0 < r ∧ 0 < t ∧
      Cog17.L1.temperature p r t < 0 ∧ ¬ Cog17.L1.WellDefined p r t := by
  refine ⟨⟨40, 686 / 5, 2, 2, 1, 1, 29970000000, 7 / 5, 3, 1 / 10, 1 / 10⟩, 1, 1, by norm_num, by norm_num,
    by norm_num, ?_, ?_⟩
  · simp only [epv_leaf]; norm_num
  · rintro ⟨-, -, -, -, -, -, -, -, hT0, -⟩
    norm_num at hT0

/-! ### The returned (tree-level) fields

The only path condition is `t ≤ 0` (NaN fields): for t > 0 the returned fields are those of leaf 1
near the point. -/

theorem cog17_tree_agree (p : Cog17.P) (r t : ℝ) (ht : 0 < t) :
    AgreeNear (Cog17.density p) (Cog17.L1.density p) r t
      ∧ AgreeNear (Cog17.velocity p) (Cog17.L1.velocity p) r t
      ∧ AgreeNear (Cog17.temperature p) (Cog17.L1.temperature p) r t := by
  have hx : ∀ᶠ x in 𝓝 r, 0 < t := Eventually.of_forall fun _ => ht
  have hs : ∀ᶠ s in 𝓝 t, 0 < s := eventually_gt_nhds ht
  have e : ∀ x s : ℝ, 0 < s → ¬ Cog17.c0 p x s := by
    intro x s hc; simp only [epv_cond, not_le]; exact hc
  exact ⟨agreeNear_of_cond (c := fun _ s => 0 < s) (fun x s hc => by simp only [epv_tree, if_neg (e x s hc)]) hx hs,
    agreeNear_of_cond (c := fun _ s => 0 < s) (fun x s hc => by simp only [epv_tree, if_neg (e x s hc)]) hx hs,
    agreeNear_of_cond (c := fun _ s => 0 < s) (fun x s hc => by simp only [epv_tree, if_neg (e x s hc)]) hx hs⟩

theorem cog17_momentum_tree (p : Cog17.P) (r t : ℝ) (hwd : Cog17.L1.WellDefined p r t) :
    momResT (Cog17.density p) (Cog17.velocity p) (Cog17.temperature p) p.Gamma r t = 0 := by
  have ht : 0 < t := hwd.2.2.2.2.2.2.2.2.2.2.2.1
  obtain ⟨h1, h2, h3⟩ := cog17_tree_agree p r t ht
  rw [momResT_congr_near h1 h2 h3]; exact cog17_momentum p r t hwd

/-- the mass equation is violated by the returned fields wherever they are well defined -/
theorem cog17_mass_tree_ne_zero (p : Cog17.P) (r t : ℝ) (hwd : Cog17.L1.WellDefined p r t)
    (hβ : 2 * p.beta + 5 ≠ 0) :
    massRes (Cog17.density p) (Cog17.velocity p) (p.geometry - 1) r t ≠ 0 := by
  have ht : 0 < t := hwd.2.2.2.2.2.2.2.2.2.2.2.1
  obtain ⟨h1, h2, h3⟩ := cog17_tree_agree p r t ht
  rw [massRes_congr_near h1 h2]; exact cog17_mass_ne_zero p r t hwd hβ

/-- FINDING (false on the current tree), for the returned fields themselves -/
theorem Finding_cog17_mass_tree :
    ∃ p : Cog17.P, ∃ r t : ℝ, Cog17.L1.WellDefined p r t ∧ p.geometry = 3 ∧
      -1 ≤ p.alpha ∧ p.alpha ≤ 2 ∧ 1 ≤ p.beta ∧ p.beta ≤ 3 ∧
      massRes (Cog17.density p) (Cog17.velocity p) (p.geometry - 1) r t ≠ 0 := by
  refine ⟨cog17_witness, 1, 1, cog17_witness_wellDefined 1 1 one_pos one_pos, ?_, ?_, ?_, ?_, ?_,
    cog17_mass_tree_ne_zero _ 1 1 (cog17_witness_wellDefined 1 1 one_pos one_pos) ?_⟩ <;>
  norm_num [cog17_witness]

/-- FINDING (false on the current tree), for the returned fields themselves -/
theorem Finding_cog17_energy_tree :
    ∃ p : Cog17.P, ∃ r t : ℝ, Cog17.L1.WellDefined p r t ∧ p.geometry = 3 ∧
      -1 ≤ p.alpha ∧ p.alpha ≤ 2 ∧ 1 ≤ p.beta ∧ p.beta ≤ 3 ∧
      energyResT (Cog17.density p) (Cog17.velocity p) (Cog17.temperature p)
        p.Gamma p.gamma (p.geometry - 1) 29970000000 (686 / 5) p.lambda0 p.alpha p.beta r t ≠ 0 := by
  obtain ⟨p, r, t, hwd, hg, ha1, ha2, hb1, hb2, hne⟩ := Finding_cog17_energy
  have ht : 0 < t := hwd.2.2.2.2.2.2.2.2.2.2.2.1
  obtain ⟨h1, h2, h3⟩ := cog17_tree_agree p r t ht
  exact ⟨p, r, t, hwd, hg, ha1, ha2, hb1, hb2, by rw [energyResT_congr_near h1 h2 h3]; exact hne⟩

/-- non-vacuity of the hypotheses of `cog17_mass_residual` (the witness parameters) -/
example : ∃ p : Cog17.P, ∃ r t : ℝ, 0 < r ∧ 0 < t ∧
    2 * p.beta - 4 + (1 - p.alpha) * ((p.geometry - 1) + 1) ≠ 0 ∧ 1 - p.alpha ≠ 0 :=
  ⟨cog17_witness, 1, 1, by norm_num, by norm_num, by norm_num [cog17_witness], by norm_num [cog17_witness]⟩

end EPV.C01
