/-
C01 — Coggeshall solution 18:  ρ = ρ₀ r^{c₁} (τ²-t²)^{c₃},  u = -r t/(τ²-t²),
T = α τ² / (Γ (2α-2β-k-7)) · r²/(τ²-t²)²,  c₁ = -(2β+k+7)/α, c₃ = -(k+1)/2 - c₁/2,  γ = (k+3)/(k+1)
(the adiabatic index the documentation derives; it is what the solver uses for `sie`).

Mass, momentum and energy balance are proved for every real k = geometry - 1 on
`Cog18.L0.WellDefined` (r > 0, τ² - t² > 0, α ≠ 0, no zero denominators).  The solution has no
λ₀ among its parameters because its heat flux F ∝ ρ^α T^{β+3} T_r ∝ r^{-k} is divergence free:
the energy theorem is the *full* `energyResT` for arbitrary c, a, λ₀ (and the solver's α, β),
under the additional positivity of the density and temperature amplitudes
(ρ₀ > 0, α τ² / (Γ (2α-2β-k-7)) > 0) without which ρ^α T^β is not a real number.

FINDING (domain): that positivity fails at the class defaults (α = 2, β = 1, k = 2: the amplitude
is 2 τ²/(Γ·(-7)) < 0) — the solver returns a *negative temperature and pressure* at every point
(`Finding_cog18_domain`).  With β ≥ 1 and k ≥ 0 a positive temperature needs α < 0 (or α > 4.5),
whereas the package documentation gives -1 ≤ α ≤ 2 and the class default is α = 2.
-/
import EPV.Gen.Cog18D
import EPV.Spec.Euler1D
import EPV.Lemmas.Euler1Db
import EPV.Lemmas.HydroRobust
import EPV.Tactics

set_option linter.all false

open EPV EPV.Gen EPV.Spec EPV.Lemmas

namespace EPV.C01

/-- the traced model has exactly the leaf the theorems below cover -/
theorem cog18_leaves : Cog18.okLeaves = [0] := rfl

theorem cog18_mass (p : Cog18.P) (r t : ℝ) (hr : 0 < r) (hx : 0 < p.tau ^ 2 - t ^ 2) (hα : p.alpha ≠ 0) :
    massRes (Cog18.L0.density p) (Cog18.L0.velocity p) (p.geometry - 1) r t = 0 := by
  unfold massRes dr dt
  epv_hydro_rw_derivs [Cog18.L0.density_hasDerivAt_t p r t, Cog18.L0.density_hasDerivAt_r p r t,
    Cog18.L0.velocity_hasDerivAt_r p r t]
  simp only [epv_deriv, epv_leaf]
  epv_hydro_field_simp
  ring

theorem cog18_momentum (p : Cog18.P) (r t : ℝ) (hwd : Cog18.L0.WellDefined p r t) :
    momResT (Cog18.L0.density p) (Cog18.L0.velocity p) (Cog18.L0.temperature p) p.Gamma r t = 0 := by
  have hwd' := hwd
  unfold Cog18.L0.WellDefined at hwd'
  epv_hydro_split hwd'
  unfold momResT dr dt
  epv_hydro_rw_derivs [Cog18.L0.velocity_hasDerivAt_t p r t, Cog18.L0.velocity_hasDerivAt_r p r t,
    Cog18.L0.density_hasDerivAt_r p r t, Cog18.L0.temperature_hasDerivAt_r p r t]
  simp only [epv_deriv, epv_leaf]
  epv_hydro_gen_rpow
  epv_hydro_field_simp
  ring

/-- the full energy equation (heat flux included, any c, a, λ₀), γ = (k+3)/(k+1) -/
theorem cog18_energy (p : Cog18.P) (c a lam0 r t : ℝ) (hwd : Cog18.L0.WellDefined p r t)
    (hρ0 : 0 < p.rho0)
    (hT0 : 0 < p.alpha * p.tau ^ 2 / p.Gamma / (2 * p.alpha - 2 * p.beta - (p.geometry - 1) - 7)) :
    energyResT (Cog18.L0.density p) (Cog18.L0.velocity p) (Cog18.L0.temperature p)
      p.Gamma (((p.geometry - 1) + 3) / ((p.geometry - 1) + 1)) (p.geometry - 1) c a lam0 p.alpha p.beta r t = 0 := by
  have hwd' := hwd
  unfold Cog18.L0.WellDefined at hwd'
  epv_hydro_split hwd'
  have hα : p.alpha ≠ 0 := by epv_hydro_side
  have hr : 0 < r := by epv_hydro_side
  have hx : 0 < p.tau ^ 2 - t ^ 2 := by epv_hydro_side
  have hΓ : p.Gamma ≠ 0 := by epv_hydro_side
  have hden : 2 * p.alpha - 2 * p.beta - (p.geometry - 1) - 7 ≠ 0 := by epv_hydro_side
  have hk1 : (p.geometry - 1) + 1 ≠ 0 := by epv_hydro_side
  have hρ : ∀ x, 0 < x → Cog18.L0.density p x t
      = Cog18.L0.density p 1 t * x ^ ((-((((2 : ℝ) * p.beta) + (p.geometry - 1)) + 7)) / p.alpha) := by
    intro x _; simp only [epv_leaf, Real.one_rpow]; ring
  have hT : ∀ x, 0 < x → Cog18.L0.temperature p x t = Cog18.L0.temperature p 1 t * x ^ (2 : ℝ) := by
    intro x _; rw [Real.rpow_two]; simp only [epv_leaf]; ring
  have hR : 0 < Cog18.L0.density p 1 t := by simp only [epv_leaf]; positivity
  have hΘ : 0 < Cog18.L0.temperature p 1 t := by
    have e : Cog18.L0.temperature p 1 t
        = p.alpha * p.tau ^ 2 / p.Gamma / (2 * p.alpha - 2 * p.beta - (p.geometry - 1) - 7)
            * (1 / (p.tau ^ 2 - t ^ 2) ^ 2) := by
      simp only [epv_leaf]; epv_hydro_field_eq
    rw [e]
    exact mul_pos hT0 (by positivity)
  rw [energyResT_powerLaw _ _ _ _ _ _ _ _ _ _ _ _ _ _ _ r t hr hR hΘ hρ hT]
  have hq : (-((((2 : ℝ) * p.beta) + (p.geometry - 1)) + 7)) / p.alpha * p.alpha + 2 * (p.beta + 4) - 1
      + (p.geometry - 1) = 0 := by
    field_simp
    ring
  rw [hq]
  simp only [mul_zero, zero_mul, zero_div, sub_zero]
  unfold energyHydroT dr dt
  epv_hydro_rw_derivs [Cog18.L0.temperature_hasDerivAt_t p r t, Cog18.L0.temperature_hasDerivAt_r p r t,
    Cog18.L0.velocity_hasDerivAt_r p r t]
  simp only [epv_deriv, epv_leaf]
  epv_hydro_field_simp
  ring


/-- non-vacuity: α = -1.5, β = 2, geometry 3, ρ₀ = 1.8, τ = 1.25, Γ = 40 at r = 1, t = 0.5 -/
example : ∃ p : Cog18.P, Cog18.L0.WellDefined p 1 (1 / 2) ∧ 0 < p.rho0 ∧
    0 < p.alpha * p.tau ^ 2 / p.Gamma / (2 * p.alpha - 2 * p.beta - (p.geometry - 1) - 7) := by
  refine ⟨⟨40, 0, -3 / 2, 0, 2, 0, 0, 3, 0, 9 / 5, 5 / 4⟩, ?_, by norm_num, by norm_num⟩
  unfold Cog18.L0.WellDefined
  (repeat' constructor) <;> norm_num

/-- FINDING (false on the current tree): at the class defaults (geometry 3, α = 2, β = 1, ρ₀ = 1.8,
τ = 1.25, Γ = 40) the returned temperature is negative, e.g. at r = 1, t = 1/2 — the heat-flux
term ρ^α T^β of the documented energy equation is then not a real number. -/
theorem Finding_cog18_domain :
    ∃ p : Cog18.P, ∃ r t : ℝ, p.geometry = 3 ∧ 0 < r ∧ 0 < t ∧ t < p.tau ∧
      Cog18.L0.temperature p r t < 0 := by
  refine ⟨⟨40, 0, 2, 0, 1, 0, 0, 3, 0, 9 / 5, 5 / 4⟩, 1, 1 / 2, by norm_num, by norm_num, by norm_num,
    by norm_num, ?_⟩
  simp only [epv_leaf]
  norm_num

/-! ### The returned (tree-level) fields

The traced decision tree has a single leaf and no path condition: the returned fields *are* those
of leaf 0 (definitionally), so the leaf theorems are statements about what the solver returns. -/

theorem cog18_tree : Cog18.density = Cog18.L0.density ∧ Cog18.velocity = Cog18.L0.velocity
    ∧ Cog18.temperature = Cog18.L0.temperature ∧ ∀ p r t, Cog18.outcome p r t = .ok := ⟨rfl, rfl, rfl, fun _ _ _ => rfl⟩

theorem cog18_mass_tree (p : Cog18.P) (r t : ℝ) (hr : 0 < r) (hx : 0 < p.tau ^ 2 - t ^ 2) (hα : p.alpha ≠ 0) :
    massRes (Cog18.density p) (Cog18.velocity p) (p.geometry - 1) r t = 0 :=
  cog18_mass p r t hr hx hα

theorem cog18_momentum_tree (p : Cog18.P) (r t : ℝ) (hwd : Cog18.L0.WellDefined p r t) :
    momResT (Cog18.density p) (Cog18.velocity p) (Cog18.temperature p) p.Gamma r t = 0 :=
  cog18_momentum p r t hwd

theorem cog18_energy_tree (p : Cog18.P) (c a lam0 : ℝ) (r t : ℝ) (hwd : Cog18.L0.WellDefined p r t)
    (hρ0 : 0 < p.rho0)
    (hT0 : 0 < p.alpha * p.tau ^ 2 / p.Gamma / (2 * p.alpha - 2 * p.beta - (p.geometry - 1) - 7)) :
    energyResT (Cog18.density p) (Cog18.velocity p) (Cog18.temperature p)
      p.Gamma (((p.geometry - 1) + 3) / ((p.geometry - 1) + 1)) (p.geometry - 1) c a lam0 p.alpha p.beta r t = 0 :=
  cog18_energy p c a lam0 r t hwd hρ0 hT0

end EPV.C01
