/-
C12 — FINDING: the flux-limited closures (nED_Solver, problem 'FLD_LP' / 'FLD_2' / 'FLD_poly') do not conserve the total
energy flux.

Generated model RadFLD: the closed forms of fnctn_FLD (`mat_density`, `mat_temp`, `mat_speed`, `mat_pres`, `rad_flux`, `dPdx`,
`rad_flux2`, `mat_beta`, `mat_total_energy`) at a node (E, M) of a flux-limited profile, on a profile object built by the real
constructor chain, with the node's flux limiter (Λ, R) = (`self.Lambda`, `self.R`) symbolic.

* `fld_energy_node`: as for the other closures, `rad_flux` is the energy-flux defect — at every node the total energy flux
  equals the far-field reference C₀β₀(E_m0 + P₀F₂₀) that `dPdx` is pinned to;
* `fld_reference_beta0`: but `mat_beta`, `mat_total_energy`, `rad_flux2` form the radiation pressure of that EQUILIBRIUM
  reference state with the LOCAL limiter, P = (Λ + Λ²R²)·E_eq, so the reference changes from node to node;
* `Finding_fld_energy`: a concrete node at which the total energy flux is not the upstream one.

Reproduced on the real code by the oracle `c12.radshock.fld_energy_flux` (nED_Solver(problem='FLD_poly', M0=3): 3.9·10⁻⁵
relative; the other closures: 10⁻¹⁵).
-/
import EPV.Gen.RadFLD
import EPV.Spec.RadShockUnits
import EPV.Lemmas.Bridge.SemiRad
import EPV.Tactics

set_option linter.all false
-- the generated leaves of fnctn_FLD are deep terms (the Gen files set the same option)
set_option maxRecDepth 100000

open EPV EPV.Gen EPV.Spec.RadShock

namespace EPV.C12

noncomputable section

theorem fld_fields (p : RadFLD.P) :
    RadFLD.Speed p = p.M0 / RadFLD.Density p ∧ RadFLD.Pressure p = RadFLD.Density p * RadFLD.Tm p / p.gamma ∧
      RadFLD.Pr p = (p.Lam + (p.Lam * p.R) ^ 2) * p.E := by
  epv_semi_rad_bigtrees

theorem fld_Fr (p : RadFLD.P) :
    RadFLD.Fr p = -RadFLD.dPdx p / RadFLD.sigma_t p + p.M0 / RadFLD.Density p / p.C0 * RadFLD.F2 p := by
  epv_semi_rad_bigtree

theorem fld_dPdx (p : RadFLD.P) :
    RadFLD.dPdx p = RadFLD.sigma_t p / p.P0 *
      (p.M0 / RadFLD.Density p / p.C0 *
          ((1 : ℝ) / 2 * RadFLD.Density p * RadFLD.Speed p * RadFLD.Speed p
            + RadFLD.Density p * (RadFLD.Tm p / p.gamma / (p.gamma - 1)) + RadFLD.Pressure p + p.P0 * RadFLD.F2 p)
        - RadFLD.beta0 p * (RadFLD.Em0 p + p.P0 * RadFLD.F20 p)) := by
  epv_semi_rad_bigtree

/-- at every node of a flux-limited profile the total energy flux formed with `rad_flux` equals the far-field reference
C₀β₀(E_m0 + P₀F₂₀) of `fnctn_FLD.dPdx` … -/
theorem fld_energy_node (p : RadFLD.P) (hP0 : p.P0 ≠ 0) (hC0 : p.C0 ≠ 0) (hσ : RadFLD.sigma_t p ≠ 0)
    (hρ : RadFLD.Density p ≠ 0) :
    energyFlux p.gamma p.P0 p.C0 (RadFLD.Density p) (RadFLD.Tm p) (RadFLD.Speed p) (RadFLD.Fr p)
      = p.C0 * (RadFLD.beta0 p * (RadFLD.Em0 p + p.P0 * RadFLD.F20 p)) := by
  unfold energyFlux hydroEnergyFlux
  rw [fld_Fr, fld_dPdx, (fld_fields p).2.1, (fld_fields p).1]
  generalize RadFLD.Density p = ρ at *
  generalize RadFLD.sigma_t p = σ at *
  generalize RadFLD.beta0 p * (RadFLD.Em0 p + p.P0 * RadFLD.F20 p) = K
  generalize RadFLD.F2 p = F2
  generalize RadFLD.Tm p = T
  field_simp
  ring

/-- … and that reference is formed with the LOCAL flux limiter: ahead of the sonic point its velocity factor is
β₀ = M₀/ρ_ref/C₀ with ρ_ref = (γM₀² + 1)/(γM₀² + 1 + γP₀(1/3 - (Λ + Λ²R²))), which is the upstream density 1 only for
Λ + Λ²R² = 1/3 -/
theorem fld_reference_beta0 (p : RadFLD.P) (hM : 1 < p.M) (hM0 : p.M0 ≠ 0) :
    RadFLD.beta0 p = p.M0 / ((p.gamma * (p.M0 * p.M0) + 1)
      / (p.gamma * (p.M0 * p.M0) + 1 + p.gamma * p.P0 * (1 / 3 - (p.Lam + (p.Lam * p.R) ^ 2)))) / p.C0 := by
  simp only [epv_tree]
  epv_semi_prune
  simp only [epv_leaf]
  epv_semi_rad_field

/-- the witness: γ = 5/3, M₀ = 1.2, P₀ = 10⁻², C₀ = 10³, constant absorption, a node ahead of the sonic point with flux
limiter Λ = 1/3, R = 1/5 (Eddington factor 76/225 instead of 1/3) -/
def fldWitness : RadFLD.P := ⟨1000, 1, 1 / 3, 6 / 5, 6 / 5, 1, 1 / 100, 1 / 5, 6 / 5, 1, 0, 0, 0, 0, 5 / 3, 1, 0⟩

/-- **FINDING (C12, flux-limited closures)**: there is a node at which the total energy flux — which `fld_energy_node` pins
to the reference of `dPdx` — is NOT the total energy flux of the upstream equilibrium state -/
theorem Finding_fld_energy :
    ∃ p : RadFLD.P, 1 < p.M ∧ p.P0 ≠ 0 ∧ p.C0 ≠ 0 ∧ RadFLD.sigma_t p ≠ 0 ∧ RadFLD.Density p ≠ 0 ∧
      energyFlux p.gamma p.P0 p.C0 (RadFLD.Density p) (RadFLD.Tm p) (RadFLD.Speed p) (RadFLD.Fr p)
        ≠ energyFluxEq p.gamma p.P0 1 1 p.M0 := by
  have hM : (1 : ℝ) < fldWitness.M := by simp only [fldWitness]; norm_num
  have hσ : RadFLD.sigma_t fldWitness ≠ 0 := by
    simp only [epv_tree]
    epv_semi_prune
    simp only [epv_leaf]
    simp only [fldWitness, Real.rpow_zero]; norm_num
  have hρ : RadFLD.Density fldWitness ≠ 0 := by
    simp only [epv_tree]
    epv_semi_prune
    simp only [epv_leaf]
    simp only [fldWitness]; norm_num
  refine ⟨fldWitness, by simp only [fldWitness]; norm_num, by simp only [fldWitness]; norm_num, by simp only [fldWitness]; norm_num,
    hσ, hρ, ?_⟩
  rw [fld_energy_node fldWitness (by simp only [fldWitness]; norm_num) (by simp only [fldWitness]; norm_num) hσ hρ]
  simp only [epv_tree]
  epv_semi_prune
  simp only [epv_leaf, energyFluxEq, hydroEnergyFlux]
  simp only [fldWitness, Real.rpow_zero]
  norm_num

end

end EPV.C12
