/-
C12 — "… and nothing else changes with time", for ALL times: the public call does not change the object it is made on.

`EPV.Gen.RadRunEffects.rows` (generated on every run): for each of the four public wrappers (ED_Solver, nED_Solver,
Sn_Solver, ie_Solver) the real `setup_solver` and the real `_run` are executed on symbolic values (same stand-ins as the
RadWrap models: the ODE drivers install a symbolic stored profile) with attribute access instrumented; the instance
dictionary — and the dictionaries of the private problem object and of the stored profile, whose arrays the wrapper
aliases — are compared before / after the call, element by element for arrays.  The table lists what `_run` READS, what it
WRITES (creates, re-binds, deletes) and which arrays it changes IN PLACE.  The quantifier over the table is finite, so
`decide` is a proof.

* `run_reads_setup`: `_run` reads only attributes bound by `setup_solver`, declared parameters, and `verbose`;
* `run_writes_nothing_held`: nothing `_run` touches was held by the object before the call or is read by `_run` (on the
  current tree it touches nothing at all: `run_touches_nothing`);
* `run_history_independent`: hence (abstract frame lemma `history_independent` of Spec/RadShockUnits.lean) the answer to
  a request does not depend on the requests made before it on the same object: it is the answer of the fresh object, which
  the travelling-wave theorems `wrap_*_travels` / `wrap_*_profile` of RadShock.lean describe.

Modelled, not verified: that the observed read / write sets are those of every call (the traced `_run` has a single
execution path — `run_single_path` — and no data-dependent attribute access); NumPy internals.  The oracle
`c12.radshock.history` checks the same on the real objects (real arrays, sequences of times).
-/
import EPV.Gen.RadRunEffects
import EPV.Spec.RadShockUnits

set_option linter.all false
set_option maxRecDepth 100000

open EPV.Gen.RadRunEffects EPV.Spec.RadShock

namespace EPV.C12

/-- everything the traced `_run` changed: attributes created / re-bound / deleted, and arrays modified in place -/
def touched (r : Row) : List String := r.writes ++ r.inplace

/-- what the object holds before a call -/
def held (r : Row) : List String := r.base ++ r.setup

def readsSetup (r : Row) : Bool :=
  r.reads.all (fun a => r.setup.contains a || r.params.contains a || a == "verbose")

def writesNothingHeld (r : Row) : Bool :=
  (touched r).all (fun a => !(held r).contains a && !r.reads.contains a && !a.startsWith "prob.")

theorem run_rows : rows.map (·.cls) = ["ED_Solver", "nED_Solver", "Sn_Solver", "ie_Solver"] := by
  decide +kernel

/-- `_run` reads only what `setup_solver` bound (the stored profile, `sound`), declared parameters (`M0`) and `verbose` -/
theorem run_reads_setup : ∀ r ∈ rows, readsSetup r = true := by
  decide +kernel

/-- non-vacuity of the observation: the sound speed and the Mach number (the displacement M₀ c_s t) ARE read, and so are at
least two further attributes (an abscissa, the stored fields; no names are pinned: a refactoring that stores the mirrored
arrays in other attributes is harmless) -/
theorem run_reads_profile : ∀ r ∈ rows, (["sound", "M0"].all r.reads.contains && decide (5 ≤ r.reads.length)) = true := by
  decide +kernel

/-- … and what it reads, `setup_solver` or the constructor did bind -/
theorem run_reads_held : ∀ r ∈ rows, (r.reads.all (held r).contains) = true := by
  decide +kernel

/-- nothing the call touches was held before the call, is read by the call, or belongs to the stored profile -/
theorem run_writes_nothing_held : ∀ r ∈ rows, writesNothingHeld r = true := by
  decide +kernel

/-- on the current tree the call touches nothing at all -/
theorem run_touches_nothing : ∀ r ∈ rows, touched r = [] := by
  decide +kernel

theorem run_single_path : ∀ r ∈ rows, r.leaves = 1 := by
  decide +kernel

theorem run_reads_untouched : ∀ r ∈ rows, ∀ a ∈ r.reads, a ∉ touched r := by
  decide +kernel

/-- **history independence of the public call**: for each wrapper, any `run` whose output depends only on the attributes
the traced `_run` reads and which changes only the attributes the traced `_run` touches answers a request, after ANY
sequence of earlier requests on the same object, exactly as the fresh object does -/
theorem run_history_independent (r : Row) (hr : r ∈ rows) {Val In Out : Type}
    (run : (String → Val) → In → (String → Val) × Out)
    (hF : Frame run (fun a => a ∈ r.reads) (fun a => a ∈ touched r)) (σ : String → Val) (hist : List In) (i : In) :
    (run (after run σ hist) i).2 = (run σ i).2 :=
  history_independent run _ _ hF (fun a ha => run_reads_untouched r hr a ha) σ hist i

/-- non-vacuity of the frame hypothesis: a `run` that reads `x`, `sound`, `M0` and writes nothing satisfies it -/
example (r : Row) : Frame (fun (σ : String → ℕ) (i : ℕ) => (σ, σ "x" + σ "sound" * σ "M0" + i))
    (fun a => a = "x" ∨ a = "sound" ∨ a = "M0") (fun _ => False) :=
  ⟨fun σ σ' i h => by simp only [h "x" (Or.inl rfl), h "sound" (Or.inr (Or.inl rfl)), h "M0" (Or.inr (Or.inr rfl))],
   fun σ i a _ => rfl⟩

end EPV.C12
