/-
C12 — the nondimensionalisation of the radiative-shock problem classes is the PHYSICAL one.

Generated models RadConst<X> (X = ED, NED [problem 'nED'], LM ['LM_nED'], FLD ['FLD_LP'], Sn): the real chain
`<X>_Solver.__init__ → setup_solver → radshock.RadShock.__init__ → <X>_driver → utils.<X>_ShockProfiles.__init__`
run on symbolic user parameters (M0, rho0, Tref, Cv, gamma, sigA, sigS, the four exponents, epsilon); only the
numerics are stubbed.  Each derived constant is exposed at three levels: `p_*` (problem class), `f_*` (the profile
object the ODE right-hand sides of fnctn_*.py read), `w_*` (public attribute of the wrapper).

* `const_*_sound`, `const_*_P0`, `const_*_C0`, `const_*_constants`: c_s = √(γ(γ-1)C_vT_ref), P₀ = a_r T_ref⁴/(ρ₀c_s²),
  C₀ = c/c_s with the physical a_r and c of Spec/RadShockUnits.lean — at all three levels;
* `const_*_copies`: the profile object sees the USER's M0, γ, σ_a, σ_s (nED: ε σ_s) and the four exponents, each in its
  own slot;
* `const_*_sigma`: the nondimensional cross sections are σ_a = σ_A ρ^a T^b, σ_s = σ_S ρ^c T^d and σ_t = σ_a + σ_s, each
  with ITS OWN exponents, at the code's own density and temperature;
* `const_ed_density`, `const_ned_state`: that density (and temperature) with P₀ as specified; `ned_momentum_const`: at
  every node (P, M) of a nED / Sn profile the total momentum flux ρu² + p + P₀P is the upstream one, P₀ as specified;
The physical-units consequences are in PhysicalUnits.lean.

PARTIAL: flux-limited variants: constants only (no cross-section functions in fnctn_FLD).
-/
import EPV.Gen.RadConstED
import EPV.Gen.RadConstNED
import EPV.Gen.RadConstLM
import EPV.Gen.RadConstFLD
import EPV.Gen.RadConstSn
import EPV.Spec.RadShockUnits
import EPV.Lemmas.RadShock
import EPV.Lemmas.RadShock2
import EPV.Lemmas.Bridge.SemiRad
import EPV.Tactics

set_option linter.all false

open EPV EPV.Gen EPV.Spec.RadShock

namespace EPV.C12

noncomputable section

/-! ### `ED_Solver` -/

theorem const_ed_sound (p : RadConstED.P) :
    RadConstED.p_sound p = soundSpeed p.gamma p.Cv p.Tref ∧ RadConstED.w_sound p = soundSpeed p.gamma p.Cv p.Tref := by
  epv_semi_rad_trees [soundSpeed]

/-- **P₀ = a_r T_ref⁴ / (ρ₀ c_s²)** in the problem class, in the profile object, and as public attribute -/
theorem const_ed_P0 (p : RadConstED.P) :
    RadConstED.p_P0 p = specP0 p.Tref p.rho0 p.gamma p.Cv ∧ RadConstED.f_P0 p = specP0 p.Tref p.rho0 p.gamma p.Cv ∧
      RadConstED.w_P0 p = specP0 p.Tref p.rho0 p.gamma p.Cv := by
  epv_semi_rad_trees [specP0, physP0, radConstF, soundSpeed]

/-- **C₀ = c / c_s** -/
theorem const_ed_C0 (p : RadConstED.P) :
    RadConstED.p_C0 p = specC0 p.Tref p.gamma p.Cv ∧ RadConstED.f_C0 p = specC0 p.Tref p.gamma p.Cv ∧
      RadConstED.w_C0 p = specC0 p.Tref p.gamma p.Cv := by
  epv_semi_rad_trees [specC0, physC0, cLight, soundSpeed]

/-- the physical constants themselves, and the reference scales handed to `setup_solver` -/
theorem const_ed_constants (p : RadConstED.P) :
    RadConstED.p_c p = cLight ∧ RadConstED.p_ar p = radConstF ∧ RadConstED.w_ar p = radConstF ∧
      RadConstED.p_rho0 p = p.rho0 ∧ RadConstED.p_Tref p = p.Tref := by
  epv_semi_rad_trees [cLight, radConstF]

/-- the profile object sees the user's parameters, each in its own slot -/
theorem const_ed_copies (p : RadConstED.P) :
    RadConstED.f_M0 p = p.M0 ∧ RadConstED.f_gamma p = p.gamma ∧ RadConstED.f_sigA p = p.sigA ∧ RadConstED.f_sigS p = p.sigS ∧
      RadConstED.f_expDensity_abs p = p.expDensity_abs ∧ RadConstED.f_expTemp_abs p = p.expTemp_abs ∧
      RadConstED.f_expDensity_scat p = p.expDensity_scat ∧ RadConstED.f_expTemp_scat p = p.expTemp_scat := by
  epv_semi_rad_trees

/-- **cross sections of `fnctn_ED`**: σ_a, σ_s power laws with their own exponents, σ_t their sum -/
theorem const_ed_sigma (p : RadConstED.P) :
    RadConstED.sigma_a p = crossSection p.sigA p.expDensity_abs p.expTemp_abs (RadConstED.density p) p.T ∧
    RadConstED.sigma_s p = crossSection p.sigS p.expDensity_scat p.expTemp_scat (RadConstED.density p) p.T ∧
    RadConstED.sigma_t p = totalCrossSection p.sigA p.expDensity_abs p.expTemp_abs p.sigS p.expDensity_scat p.expTemp_scat
      (RadConstED.density p) p.T := by
  epv_semi_rad_trees [crossSection, totalCrossSection]

/-- the density at which they are evaluated is `fnctn_ED.rho(T)` with the SPECIFIED P₀ -/
theorem const_ed_density (p : RadConstED.P) :
    RadConstED.density p = edRho p.gamma (specP0 p.Tref p.rho0 p.gamma p.Cv) p.M0 p.T := by
  epv_semi_rad_tree [edRho, edB, specP0, physP0, radConstF, soundSpeed]

/-! ### `nED_Solver`, problem 'nED' -/

theorem const_ned_sound (p : RadConstNED.P) :
    RadConstNED.p_sound p = soundSpeed p.gamma p.Cv p.Tref ∧ RadConstNED.w_sound p = soundSpeed p.gamma p.Cv p.Tref := by
  epv_semi_rad_trees [soundSpeed]

theorem const_ned_P0 (p : RadConstNED.P) :
    RadConstNED.p_P0 p = specP0 p.Tref p.rho0 p.gamma p.Cv ∧ RadConstNED.f_P0 p = specP0 p.Tref p.rho0 p.gamma p.Cv ∧
      RadConstNED.w_P0 p = specP0 p.Tref p.rho0 p.gamma p.Cv := by
  epv_semi_rad_trees [specP0, physP0, radConstF, soundSpeed]

theorem const_ned_C0 (p : RadConstNED.P) :
    RadConstNED.p_C0 p = specC0 p.Tref p.gamma p.Cv ∧ RadConstNED.f_C0 p = specC0 p.Tref p.gamma p.Cv ∧
      RadConstNED.w_C0 p = specC0 p.Tref p.gamma p.Cv := by
  epv_semi_rad_trees [specC0, physC0, cLight, soundSpeed]

theorem const_ned_constants (p : RadConstNED.P) :
    RadConstNED.p_c p = cLight ∧ RadConstNED.p_ar p = radConstF ∧ RadConstNED.p_rho0 p = p.rho0 ∧ RadConstNED.p_Tref p = p.Tref ∧
      RadConstNED.f_Pr0 p = 1 / 3 ∧ RadConstNED.f_T0 p = 1 ∧ RadConstNED.f_epsilon p = p.epsilon := by
  epv_semi_rad_trees [cLight, radConstF]

/-- the profile object sees the user's parameters; the scattering coefficient is scaled by the asymptotic parameter ε
(Ferguson, Morel & Lowrie 2017: σ_s → ε σ_s; ε = 1 by default) -/
theorem const_ned_copies (p : RadConstNED.P) :
    RadConstNED.f_M0 p = p.M0 ∧ RadConstNED.f_gamma p = p.gamma ∧ RadConstNED.f_sigA p = p.sigA ∧
      RadConstNED.f_sigS p = p.epsilon * p.sigS ∧
      RadConstNED.f_expDensity_abs p = p.expDensity_abs ∧ RadConstNED.f_expTemp_abs p = p.expTemp_abs ∧
      RadConstNED.f_expDensity_scat p = p.expDensity_scat ∧ RadConstNED.f_expTemp_scat p = p.expTemp_scat := by
  epv_semi_rad_trees

/-- **cross sections of `fnctn_nED`** at a node (P, M) -/
theorem const_ned_sigma (p : RadConstNED.P) :
    RadConstNED.sigma_a p = crossSection p.sigA p.expDensity_abs p.expTemp_abs (RadConstNED.density p) (RadConstNED.temperature p) ∧
    RadConstNED.sigma_s p = crossSection (RadConstNED.f_sigS p) p.expDensity_scat p.expTemp_scat (RadConstNED.density p)
      (RadConstNED.temperature p) ∧
    RadConstNED.sigma_t p = totalCrossSection p.sigA p.expDensity_abs p.expTemp_abs (RadConstNED.f_sigS p) p.expDensity_scat
      p.expTemp_scat (RadConstNED.density p) (RadConstNED.temperature p) := by
  epv_semi_rad_trees [crossSection, totalCrossSection]

/-- density and temperature of a node (P, M), with the SPECIFIED P₀ -/
theorem const_ned_state (p : RadConstNED.P) :
    RadConstNED.density p = nedRho p.gamma (specP0 p.Tref p.rho0 p.gamma p.Cv) p.M0 p.P p.M ∧
      RadConstNED.temperature p = nedT p.gamma (specP0 p.Tref p.rho0 p.gamma p.Cv) p.M0 p.P p.M := by
  epv_semi_rad_trees [nedRho, nedT, specP0, physP0, radConstF, soundSpeed]

/-- **total momentum flux at every node (P, M) of a nED profile** is the upstream one, with the specified P₀ -/
theorem ned_momentum_const (p : RadConstNED.P) (hγ : p.gamma ≠ 0) (hM : p.M ≠ 0) (hM0 : p.M0 ≠ 0)
    (hn : p.gamma * (p.M * p.M) + 1 ≠ 0)
    (hd : p.gamma * (p.M0 * p.M0) + 1 + p.gamma * specP0 p.Tref p.rho0 p.gamma p.Cv * (1 / 3 - p.P) ≠ 0) :
    RadConstNED.density p * (p.M0 / RadConstNED.density p) ^ 2 + RadConstNED.density p * RadConstNED.temperature p / p.gamma
        + specP0 p.Tref p.rho0 p.gamma p.Cv * p.P
      = p.M0 ^ 2 + 1 / p.gamma + specP0 p.Tref p.rho0 p.gamma p.Cv * (1 / 3) := by
  rw [(const_ned_state p).1, (const_ned_state p).2]
  exact ned_momentum _ _ _ _ _ hγ hM hM0 hn hd

/-- non-vacuity at the defaults (M₀ = 1.2, γ = 5/3, ρ₀ = 1, T_ref = 100, C_v = 1.4472799784454·10¹²) and a node
(P, M) = (0.4, 1.1): the side conditions hold whatever the (non-negative) value of P₀ is, as P < 1/3 + … -/
example : ∃ γ M M0 P0 P : ℝ, γ ≠ 0 ∧ M ≠ 0 ∧ M0 ≠ 0 ∧ γ * (M * M) + 1 ≠ 0 ∧ γ * (M0 * M0) + 1 + γ * P0 * (1 / 3 - P) ≠ 0 :=
  ⟨5 / 3, 11 / 10, 6 / 5, 1 / 10000, 2 / 5, by norm_num, by norm_num, by norm_num, by norm_num, by norm_num⟩

/-! ### `nED_Solver`, problem 'LM_nED' -/

theorem const_lm_sound (p : RadConstLM.P) :
    RadConstLM.p_sound p = soundSpeed p.gamma p.Cv p.Tref ∧ RadConstLM.w_sound p = soundSpeed p.gamma p.Cv p.Tref := by
  epv_semi_rad_trees [soundSpeed]

theorem const_lm_P0 (p : RadConstLM.P) :
    RadConstLM.p_P0 p = specP0 p.Tref p.rho0 p.gamma p.Cv ∧ RadConstLM.f_P0 p = specP0 p.Tref p.rho0 p.gamma p.Cv ∧
      RadConstLM.w_P0 p = specP0 p.Tref p.rho0 p.gamma p.Cv := by
  epv_semi_rad_trees [specP0, physP0, radConstF, soundSpeed]

theorem const_lm_C0 (p : RadConstLM.P) :
    RadConstLM.p_C0 p = specC0 p.Tref p.gamma p.Cv ∧ RadConstLM.f_C0 p = specC0 p.Tref p.gamma p.Cv ∧
      RadConstLM.w_C0 p = specC0 p.Tref p.gamma p.Cv := by
  epv_semi_rad_trees [specC0, physC0, cLight, soundSpeed]

theorem const_lm_constants (p : RadConstLM.P) :
    RadConstLM.p_c p = cLight ∧ RadConstLM.p_ar p = radConstF ∧ RadConstLM.p_rho0 p = p.rho0 ∧ RadConstLM.p_Tref p = p.Tref ∧
      RadConstLM.f_Pr0 p = 1 / 3 ∧ RadConstLM.f_T0 p = 1 ∧ RadConstLM.f_epsilon p = p.epsilon := by
  epv_semi_rad_trees [cLight, radConstF]

theorem const_lm_copies (p : RadConstLM.P) :
    RadConstLM.f_M0 p = p.M0 ∧ RadConstLM.f_gamma p = p.gamma ∧ RadConstLM.f_sigA p = p.sigA ∧
      RadConstLM.f_sigS p = p.epsilon * p.sigS ∧
      RadConstLM.f_expDensity_abs p = p.expDensity_abs ∧ RadConstLM.f_expTemp_abs p = p.expTemp_abs ∧
      RadConstLM.f_expDensity_scat p = p.expDensity_scat ∧ RadConstLM.f_expTemp_scat p = p.expTemp_scat := by
  epv_semi_rad_trees

theorem const_lm_sigma (p : RadConstLM.P) :
    RadConstLM.sigma_a p = crossSection p.sigA p.expDensity_abs p.expTemp_abs (RadConstLM.density p) (RadConstLM.temperature p) ∧
    RadConstLM.sigma_s p = crossSection (RadConstLM.f_sigS p) p.expDensity_scat p.expTemp_scat (RadConstLM.density p)
      (RadConstLM.temperature p) ∧
    RadConstLM.sigma_t p = totalCrossSection p.sigA p.expDensity_abs p.expTemp_abs (RadConstLM.f_sigS p) p.expDensity_scat
      p.expTemp_scat (RadConstLM.density p) (RadConstLM.temperature p) := by
  epv_semi_rad_trees [crossSection, totalCrossSection]

theorem const_lm_state (p : RadConstLM.P) :
    RadConstLM.density p = nedRho p.gamma (specP0 p.Tref p.rho0 p.gamma p.Cv) p.M0 p.P p.M ∧
      RadConstLM.temperature p = nedT p.gamma (specP0 p.Tref p.rho0 p.gamma p.Cv) p.M0 p.P p.M := by
  epv_semi_rad_trees [nedRho, nedT, specP0, physP0, radConstF, soundSpeed]

/-! ### `nED_Solver`, flux-limited variants (traced with problem 'FLD_LP'): constants only -/

theorem const_fld_sound (p : RadConstFLD.P) :
    RadConstFLD.p_sound p = soundSpeed p.gamma p.Cv p.Tref ∧ RadConstFLD.w_sound p = soundSpeed p.gamma p.Cv p.Tref := by
  epv_semi_rad_trees [soundSpeed]

theorem const_fld_P0 (p : RadConstFLD.P) :
    RadConstFLD.p_P0 p = specP0 p.Tref p.rho0 p.gamma p.Cv ∧ RadConstFLD.f_P0 p = specP0 p.Tref p.rho0 p.gamma p.Cv ∧
      RadConstFLD.w_P0 p = specP0 p.Tref p.rho0 p.gamma p.Cv := by
  epv_semi_rad_trees [specP0, physP0, radConstF, soundSpeed]

theorem const_fld_C0 (p : RadConstFLD.P) :
    RadConstFLD.p_C0 p = specC0 p.Tref p.gamma p.Cv ∧ RadConstFLD.f_C0 p = specC0 p.Tref p.gamma p.Cv ∧
      RadConstFLD.w_C0 p = specC0 p.Tref p.gamma p.Cv := by
  epv_semi_rad_trees [specC0, physC0, cLight, soundSpeed]

theorem const_fld_copies (p : RadConstFLD.P) :
    RadConstFLD.f_M0 p = p.M0 ∧ RadConstFLD.f_gamma p = p.gamma ∧ RadConstFLD.f_sigA p = p.sigA ∧
      RadConstFLD.f_sigS p = p.epsilon * p.sigS ∧
      RadConstFLD.f_expDensity_abs p = p.expDensity_abs ∧ RadConstFLD.f_expTemp_abs p = p.expTemp_abs ∧
      RadConstFLD.f_expDensity_scat p = p.expDensity_scat ∧ RadConstFLD.f_expTemp_scat p = p.expTemp_scat ∧
      RadConstFLD.p_c p = cLight ∧ RadConstFLD.p_ar p = radConstF ∧ RadConstFLD.p_rho0 p = p.rho0 ∧ RadConstFLD.p_Tref p = p.Tref ∧
      RadConstFLD.f_Pr0 p = 1 / 3 := by
  epv_semi_rad_trees [cLight, radConstF]

/-! ### `Sn_Solver` (its `epsilon` parameter is not handed on: the Sn problem always runs with ε = 1) -/

theorem const_sn_sound (p : RadConstSn.P) :
    RadConstSn.p_sound p = soundSpeed p.gamma p.Cv p.Tref ∧ RadConstSn.w_sound p = soundSpeed p.gamma p.Cv p.Tref := by
  epv_semi_rad_trees [soundSpeed]

theorem const_sn_P0 (p : RadConstSn.P) :
    RadConstSn.p_P0 p = specP0 p.Tref p.rho0 p.gamma p.Cv ∧ RadConstSn.f_P0 p = specP0 p.Tref p.rho0 p.gamma p.Cv ∧
      RadConstSn.w_P0 p = specP0 p.Tref p.rho0 p.gamma p.Cv := by
  epv_semi_rad_trees [specP0, physP0, radConstF, soundSpeed]

theorem const_sn_C0 (p : RadConstSn.P) :
    RadConstSn.p_C0 p = specC0 p.Tref p.gamma p.Cv ∧ RadConstSn.f_C0 p = specC0 p.Tref p.gamma p.Cv ∧
      RadConstSn.w_C0 p = specC0 p.Tref p.gamma p.Cv := by
  epv_semi_rad_trees [specC0, physC0, cLight, soundSpeed]

theorem const_sn_copies (p : RadConstSn.P) :
    RadConstSn.f_M0 p = p.M0 ∧ RadConstSn.f_gamma p = p.gamma ∧ RadConstSn.f_sigA p = p.sigA ∧ RadConstSn.f_sigS p = p.sigS ∧
      RadConstSn.f_expDensity_abs p = p.expDensity_abs ∧ RadConstSn.f_expTemp_abs p = p.expTemp_abs ∧
      RadConstSn.f_expDensity_scat p = p.expDensity_scat ∧ RadConstSn.f_expTemp_scat p = p.expTemp_scat ∧
      RadConstSn.p_c p = cLight ∧ RadConstSn.p_ar p = radConstF ∧ RadConstSn.p_rho0 p = p.rho0 ∧ RadConstSn.p_Tref p = p.Tref ∧
      RadConstSn.f_Pr0 p = 1 / 3 ∧ RadConstSn.f_epsilon p = 1 := by
  epv_semi_rad_trees [cLight, radConstF]

theorem const_sn_sigma (p : RadConstSn.P) :
    RadConstSn.sigma_a p = crossSection p.sigA p.expDensity_abs p.expTemp_abs (RadConstSn.density p) (RadConstSn.temperature p) ∧
    RadConstSn.sigma_s p = crossSection (RadConstSn.f_sigS p) p.expDensity_scat p.expTemp_scat (RadConstSn.density p)
      (RadConstSn.temperature p) ∧
    RadConstSn.sigma_t p = totalCrossSection p.sigA p.expDensity_abs p.expTemp_abs (RadConstSn.f_sigS p) p.expDensity_scat
      p.expTemp_scat (RadConstSn.density p) (RadConstSn.temperature p) := by
  epv_semi_rad_trees [crossSection, totalCrossSection]

theorem const_sn_state (p : RadConstSn.P) :
    RadConstSn.density p = nedRho p.gamma (specP0 p.Tref p.rho0 p.gamma p.Cv) p.M0 p.P p.M ∧
      RadConstSn.temperature p = nedT p.gamma (specP0 p.Tref p.rho0 p.gamma p.Cv) p.M0 p.P p.M := by
  epv_semi_rad_trees [nedRho, nedT, specP0, physP0, radConstF, soundSpeed]


end

end EPV.C12
