/-
C12 — radiative shocks (`exactpack/solvers/radshocks`).

(a) `wrap_*_travels`, `wrap_*_profile`: the four public wrappers (ED_Solver, nED_Solver, Sn_Solver,
    ie_Solver) return one fixed profile displaced by M₀ c_s t with c_s = √(γ(γ-1)C_v T_ref) of the
    instance's own parameters; nothing else depends on t.
(b) `jump_iff`: `momentum_and_energy(ρ, T) = 0` ⇔ the total momentum and energy fluxes including
    P₀T⁴/3 and 4P₀T⁴v/3 match between (1, 1, M₀) and (ρ, T, M₀/ρ); `ie_jump`: the ion–electron shock's
    downstream state satisfies the hydrodynamic jump conditions (nondimensional upstream state, ρ₀ = 1;
    `ie_rho1_rho0` states what the code stores otherwise).
(c) `ed_mass`, `ed_momentum_const`, `ed_energy_const`: along the whole equilibrium-diffusion profile
    (every temperature T) mass flux, total momentum flux and total energy flux are the upstream ones;
    `ed_Fr_diffusion`: given the ODE atom, `Fr` is the diffusion flux plus advected enthalpy;
    `ed_upstream`, `ed_downstream`, `ed_far_field_jump`: the end states are the equilibrium states
    related by the radiation-modified jump conditions (root solve = ATOM).
C03 share: `attr_*_eos`; `attr_*_fluxes` ties the dimensional attribute fluxes of the test suite to
the nondimensional ones.

PARTIAL: the interiors of the nED / Sn / FLD / ion–electron profiles (fnctn_nED, fnctn_FLD,
fnctn_2Tie: ODE right-hand sides, splice logic, Sn sweeps) are ATOMS; their flux constancy is
checked by the oracles on the solver attributes only.  The stored profile is piecewise linear between
the nodes: the theorems of (c) are about the nodes (every T), not about interpolated values.
-/
import EPV.Gen.RadJump
import EPV.Gen.RadIEJump
import EPV.Gen.RadED
import EPV.Gen.RadWrapED
import EPV.Gen.RadWrapNED
import EPV.Gen.RadWrapSn
import EPV.Gen.RadWrapIE
import EPV.Gen.RadAttrED
import EPV.Gen.RadAttrNED
import EPV.Gen.RadAttrSn
import EPV.Gen.RadAttrIE
import EPV.Lemmas.RadShock
import EPV.Lemmas.Bridge.SemiRad
import EPV.Tactics

set_option linter.all false

open EPV EPV.Gen EPV.Spec.RadShock

namespace EPV.C12

noncomputable section

/-! ### (b) the far-downstream equilibrium state: `momentum_and_energy` -/

/-- the momentum residual is ρ × (total momentum flux at (ρ, T, M₀/ρ) - upstream total momentum flux) -/
theorem jump_momentum (p : RadJump.P) (hρ : p.rho ≠ 0) (hγ : p.gamma ≠ 0) :
    RadJump.momentum p = p.rho * (momFlux p.gamma p.P0 p.rho p.T (p.M0 / p.rho) - momFlux p.gamma p.P0 1 1 p.M0) := by
  simp only [epv_tree, epv_leaf, momFlux]
  epv_semi_rad_field

/-- the energy residual is ρ²/M₀ × (total energy flux at (ρ, T, M₀/ρ) - upstream total energy flux),
both with the equilibrium radiation flux 4P₀T⁴v/3 -/
theorem jump_energy (p : RadJump.P) (hρ : p.rho ≠ 0) (hγ : p.gamma ≠ 0) (hγ1 : p.gamma - 1 ≠ 0) (hM : p.M0 ≠ 0) :
    RadJump.energy p = p.rho ^ 2 / p.M0
      * (energyFluxEq p.gamma p.P0 p.rho p.T (p.M0 / p.rho) - energyFluxEq p.gamma p.P0 1 1 p.M0) := by
  simp only [epv_tree, epv_leaf, energyFluxEq, hydroEnergyFlux]
  epv_semi_rad_field

/-- **C12 (b)**: `momentum_and_energy(ρ, T) = 0` iff the total momentum and total energy fluxes,
including the radiation pressure P₀T⁴/3 and the radiation flux 4P₀T⁴v/3, match between the upstream
state (1, 1, M₀) and (ρ, T, M₀/ρ) — the radiation-modified jump conditions -/
theorem jump_iff (p : RadJump.P) (hρ : p.rho ≠ 0) (hγ : p.gamma ≠ 0) (hγ1 : p.gamma - 1 ≠ 0) (hM : p.M0 ≠ 0) :
    (RadJump.momentum p = 0 ∧ RadJump.energy p = 0) ↔
      (momFlux p.gamma p.P0 p.rho p.T (p.M0 / p.rho) = momFlux p.gamma p.P0 1 1 p.M0 ∧
        energyFluxEq p.gamma p.P0 p.rho p.T (p.M0 / p.rho) = energyFluxEq p.gamma p.P0 1 1 p.M0) := by
  rw [jump_momentum p hρ hγ, jump_energy p hρ hγ hγ1 hM]
  have h2 : p.rho ^ 2 / p.M0 ≠ 0 := div_ne_zero (pow_ne_zero 2 hρ) hM
  constructor
  · rintro ⟨h1, h3⟩
    exact ⟨sub_eq_zero.mp ((mul_eq_zero.mp h1).resolve_left hρ), sub_eq_zero.mp ((mul_eq_zero.mp h3).resolve_left h2)⟩
  · rintro ⟨h1, h3⟩
    rw [h1, h3]; simp

/-- non-vacuity of the hypotheses of `jump_iff` at the defaults (M₀ = 1.2, γ = 5/3, P₀ = 10⁻⁴) -/
example : ∃ p : RadJump.P, p.rho ≠ 0 ∧ p.gamma ≠ 0 ∧ p.gamma - 1 ≠ 0 ∧ p.M0 ≠ 0 :=
  ⟨⟨6 / 5, 1 / 10000, 6 / 5, 6 / 5, 5 / 3, 13 / 10, 13 / 10⟩, by norm_num, by norm_num, by norm_num, by norm_num⟩

/-- what is stored for the downstream state: mass flux ρ₁ u₁ = M₀, 𝒫₁ = T₁⁴/3, ℰ₁ = T₁⁴,
local Mach number M₀/(ρ₁√T₁) -/
theorem jump_downstream (p : RadJump.P) (hρ : p.rho1 ≠ 0) (hT : 0 ≤ p.T1) :
    massFlux (RadJump.rho1 p) (RadJump.speed1 p) = p.M0 ∧ RadJump.Pr1 p = RadJump.T1 p ^ 4 / 3 ∧
      RadJump.Er1 p = RadJump.T1 p ^ 4 ∧ RadJump.M1 p = p.M0 / RadJump.rho1 p / Real.sqrt (RadJump.T1 p) := by
  refine ⟨?_, ?_, ?_, ?_⟩ <;> simp only [epv_tree, epv_leaf, massFlux] <;>
    first | epv_semi_rad_field | epv_semi_rad_eq

/-! ### the ion–electron shock: hydrodynamic downstream state -/

/-- the quantity under the outer square root of `IEShockProfile.downstream_equilibrium`:
the smaller root (-b - √(b² - 4ac))/2/a of the quadratic for the downstream Mach number squared -/
def ieX (γ M0 : ℝ) : ℝ :=
  (-(-2 * (γ * M0 ^ 4 + 1)) - Real.sqrt ((-2 * (γ * M0 ^ 4 + 1)) ^ 2
    - 4 * (γ * (2 * M0 ^ 2 - 1) + 1) * (M0 ^ 2 * ((γ - 1) * M0 ^ 2 + 2)))) / 2 / (γ * (2 * M0 ^ 2 - 1) + 1)

/-- for M₀ ≥ 1 it is the Rankine–Hugoniot downstream Mach number squared -/
theorem ieX_value (γ M0 : ℝ) (hγ : 1 < γ) (hM : 1 ≤ M0) :
    ieX γ M0 = ((γ - 1) * M0 ^ 2 + 2) / (2 * γ * M0 ^ 2 - (γ - 1)) := by
  unfold ieX
  have hM2 : 1 ≤ M0 ^ 2 := by nlinarith
  have e : (-2 * (γ * M0 ^ 4 + 1)) ^ 2 - 4 * (γ * (2 * M0 ^ 2 - 1) + 1) * (M0 ^ 2 * ((γ - 1) * M0 ^ 2 + 2))
      = (2 * (M0 ^ 2 - 1) * (γ * M0 ^ 2 + 1)) ^ 2 := by ring
  have hnn : 0 ≤ 2 * (M0 ^ 2 - 1) * (γ * M0 ^ 2 + 1) := by
    have : 0 ≤ M0 ^ 2 - 1 := by linarith
    have : 0 < γ * M0 ^ 2 + 1 := by nlinarith
    positivity
  rw [e, Real.sqrt_sq hnn]
  have ha : γ * (2 * M0 ^ 2 - 1) + 1 ≠ 0 := by nlinarith
  have ha' : 2 * γ * M0 ^ 2 - (γ - 1) ≠ 0 := by nlinarith
  field_simp
  ring

theorem ieX_pos (γ M0 : ℝ) (hγ : 1 < γ) (hM : 1 ≤ M0) : 0 < ieX γ M0 := by
  rw [ieX_value γ M0 hγ hM]
  have hM2 : 1 ≤ M0 ^ 2 := by nlinarith
  apply div_pos <;> nlinarith

theorem ie_rho1_eq (p : RadIEJump.P) :
    RadIEJump.rho1 p = p.rho0 * p.M0 ^ 2 * (p.gamma * (Real.sqrt (ieX p.gamma p.M0) * Real.sqrt (ieX p.gamma p.M0)) + 1)
      / (Real.sqrt (ieX p.gamma p.M0) * Real.sqrt (ieX p.gamma p.M0)) / (p.gamma * p.M0 ^ 2 + 1) := by
  epv_semi_rad_tree [ieX]

theorem ie_T1_eq (p : RadIEJump.P) :
    RadIEJump.T1 p = p.M0 ^ 2 / (Real.sqrt (ieX p.gamma p.M0) * Real.sqrt (ieX p.gamma p.M0))
      / RadIEJump.rho1 p / RadIEJump.rho1 p := by
  epv_semi_rad_tree [ieX]

theorem ie_speed1_eq (p : RadIEJump.P) : RadIEJump.speed1 p = p.M0 / RadIEJump.rho1 p := by
  epv_semi_rad_tree

/-- **C12, ion–electron shock**: for the nondimensional upstream state (ρ₀, T₀, u₀) = (1, 1, M₀),
M₀ ≥ 1, the downstream state (rho1, T1, speed1) of `IEShockProfile.downstream_equilibrium`
satisfies the hydrodynamic jump conditions: mass, momentum and energy flux are those upstream. -/
theorem ie_jump (p : RadIEJump.P) (hρ0 : p.rho0 = 1) (hγ : 1 < p.gamma) (hM : 1 ≤ p.M0) :
    massFlux (RadIEJump.rho1 p) (RadIEJump.speed1 p) = massFlux 1 p.M0 ∧
    hydroMomFlux p.gamma (RadIEJump.rho1 p) (RadIEJump.T1 p) (RadIEJump.speed1 p) = hydroMomFlux p.gamma 1 1 p.M0 ∧
    hydroEnergyFlux p.gamma (RadIEJump.rho1 p) (RadIEJump.T1 p) (RadIEJump.speed1 p)
      = hydroEnergyFlux p.gamma 1 1 p.M0 := by
  have hX := ieX_value p.gamma p.M0 hγ hM
  have hXpos := ieX_pos p.gamma p.M0 hγ hM
  have hss : Real.sqrt (ieX p.gamma p.M0) * Real.sqrt (ieX p.gamma p.M0) = ieX p.gamma p.M0 :=
    Real.mul_self_sqrt hXpos.le
  have hM2 : 1 ≤ p.M0 ^ 2 := by nlinarith
  have hM0 : p.M0 ≠ 0 := by nlinarith
  have hd1 : 2 * p.gamma * p.M0 ^ 2 - (p.gamma - 1) ≠ 0 := by nlinarith
  have hd2 : p.gamma * p.M0 ^ 2 + 1 ≠ 0 := by nlinarith
  have hd3 : (p.gamma - 1) * p.M0 ^ 2 + 2 ≠ 0 := by nlinarith
  have hr : RadIEJump.rho1 p = (p.gamma + 1) * p.M0 ^ 2 / ((p.gamma - 1) * p.M0 ^ 2 + 2) := by
    rw [ie_rho1_eq, hss, hρ0, one_mul]
    exact ie_core_rho p.gamma p.M0 _ _ _ _ rfl rfl rfl hd1 hd3 hd2 hX
  have hT : RadIEJump.T1 p = (2 * p.gamma * p.M0 ^ 2 - (p.gamma - 1)) * ((p.gamma - 1) * p.M0 ^ 2 + 2)
      / ((p.gamma + 1) ^ 2 * p.M0 ^ 2) := by
    rw [ie_T1_eq, hss]
    exact ie_core_T p.gamma p.M0 _ _ _ _ rfl rfl hd1 hd3 hM0 (by linarith) hX hr
  rw [ie_speed1_eq]
  exact ie_core_fluxes p.gamma p.M0 _ _ _ _ rfl rfl hd3 hM0 (by linarith) (by linarith) (by linarith) hr hT

/-- non-vacuity: the defaults of `ie_Solver` (M₀ = 1.4, γ = 5/3, ρ₀ = 1) -/
example : ∃ p : RadIEJump.P, p.rho0 = 1 ∧ 1 < p.gamma ∧ 1 ≤ p.M0 := ⟨⟨7 / 5, 5 / 3, 1⟩, rfl, by norm_num, by norm_num⟩

/-- what the code does with ρ₀ ≠ 1: `rho1` carries the dimensional ρ₀ although the profile is
nondimensional, so the stored downstream density is ρ₀ times the Rankine–Hugoniot ratio -/
theorem ie_rho1_rho0 (p : RadIEJump.P) (hγ : 1 < p.gamma) (hM : 1 ≤ p.M0) :
    RadIEJump.rho1 p = p.rho0 * ((p.gamma + 1) * p.M0 ^ 2 / ((p.gamma - 1) * p.M0 ^ 2 + 2)) := by
  have hX := ieX_value p.gamma p.M0 hγ hM
  have hXpos := ieX_pos p.gamma p.M0 hγ hM
  have hss : Real.sqrt (ieX p.gamma p.M0) * Real.sqrt (ieX p.gamma p.M0) = ieX p.gamma p.M0 :=
    Real.mul_self_sqrt hXpos.le
  have hM2 : 1 ≤ p.M0 ^ 2 := by nlinarith
  have hd1 : 2 * p.gamma * p.M0 ^ 2 - (p.gamma - 1) ≠ 0 := by nlinarith
  have hd2 : p.gamma * p.M0 ^ 2 + 1 ≠ 0 := by nlinarith
  have hd3 : (p.gamma - 1) * p.M0 ^ 2 + 2 ≠ 0 := by nlinarith
  rw [ie_rho1_eq, hss, ← ie_core_rho p.gamma p.M0 _ _ _ _ rfl rfl rfl hd1 hd3 hd2 hX]
  ring

/-! ### (c) the equilibrium-diffusion profile -/

theorem ed_density_eq (p : RadED.P) :
    RadED.Density1 p = edRho p.gamma p.P0 p.M0 p.T ∧ RadED.rho p = edRho p.gamma p.P0 p.M0 p.T := by
  constructor <;> epv_semi_rad_tree [edRho, edB]

theorem ed_fields_eq (p : RadED.P) :
    RadED.Tm1 p = p.T ∧ RadED.Speed1 p = p.M0 / RadED.Density1 p ∧
      RadED.Pressure1 p = RadED.Density1 p * p.T / p.gamma ∧
      RadED.SIE1 p = p.T / p.gamma / (p.gamma - 1) ∧
      RadED.Mach1 p = p.M0 / RadED.Density1 p / Real.sqrt p.T := by
  epv_semi_rad_trees

theorem ed_sigma_t_eq (p : RadED.P) :
    RadED.sigma_t p = p.sigA * edRho p.gamma p.P0 p.M0 p.T ^ p.expDensity_abs * p.T ^ p.expTemp_abs
      + p.sigS * edRho p.gamma p.P0 p.M0 p.T ^ p.expDensity_scat * p.T ^ p.expTemp_scat := by
  epv_semi_rad_tree [edRho, edB]

theorem ed_dxdT_eq (p : RadED.P) :
    RadED.dxdT p = edDxdT p.gamma p.P0 p.C0 p.M0 (RadED.sigma_t p) (edRho p.gamma p.P0 p.M0 p.T) p.T := by
  epv_semi_rad_tree [edRho, edB, edDxdT]

theorem ed_Fr_eq (p : RadED.P) :
    RadED.Fr1 p = edFr p.C0 p.M0 (RadED.sigma_t p) (RadED.dxdT p) (edRho p.gamma p.P0 p.M0 p.T) p.T := by
  epv_semi_rad_tree [edRho, edB, edFr]

/-- **mass flux** is M₀ at every temperature of the ED profile -/
theorem ed_mass (p : RadED.P) (hρ : RadED.Density1 p ≠ 0) :
    massFlux (RadED.Density1 p) (RadED.Speed1 p) = p.M0 := by
  unfold massFlux
  rw [(ed_fields_eq p).2.1]
  field_simp

/-- **total momentum flux** (with the radiation pressure P₀T⁴/3) is the upstream one at every
temperature T of the ED profile: `fnctn_ED.rho(T)` is a root of the momentum-flux quadratic.
Hypotheses: the quadratic is non-degenerate (T/γ ≠ 0), its discriminant is non-negative (the code
takes its square root) and the root is not zero (the code divides by it). -/
theorem ed_momentum_const (p : RadED.P) (ha : p.T / p.gamma ≠ 0)
    (hd : 0 ≤ edB p.gamma p.P0 p.M0 p.T ^ 2 - 4 * (p.T / p.gamma) * p.M0 ^ 2)
    (hρ : RadED.Density1 p ≠ 0) :
    momFlux p.gamma p.P0 (RadED.Density1 p) (RadED.Tm1 p) (RadED.Speed1 p) = momFlux p.gamma p.P0 1 1 p.M0 := by
  rw [(ed_fields_eq p).2.1, (ed_fields_eq p).1]
  rw [(ed_density_eq p).1] at hρ ⊢
  exact ed_momentum p.gamma p.P0 p.M0 p.T ha hd hρ

/-- **total energy flux** with the radiation flux `Fr` assembled in `make_ED_solution` is the
upstream total energy flux at every temperature T of the ED profile -/
theorem ed_energy_const (p : RadED.P) (hγ : p.gamma ≠ 0) (hγ1 : p.gamma - 1 ≠ 0) (hP : p.P0 ≠ 0) (hC : p.C0 ≠ 0)
    (hσ : RadED.sigma_t p ≠ 0) (hρ : RadED.Density1 p ≠ 0) (hT : p.T ≠ 0) :
    energyFlux p.gamma p.P0 p.C0 (RadED.Density1 p) (RadED.Tm1 p) (RadED.Speed1 p) (RadED.Fr1 p)
      = energyFluxEq p.gamma p.P0 1 1 p.M0 := by
  rw [(ed_fields_eq p).2.1, (ed_fields_eq p).1, ed_Fr_eq, ed_dxdT_eq]
  rw [(ed_density_eq p).1] at hρ ⊢
  exact ed_energy p.gamma p.P0 p.C0 p.M0 _ _ p.T hγ hγ1 hP hC hσ hρ hT

/-- given the ODE atom (the integrator returns x(T) with dx/dT = `fnctn_ED.dxdT`, hence
T_x = 1/dxdT), `Fr` is the diffusion flux plus the advected radiation enthalpy -/
theorem ed_Fr_diffusion (p : RadED.P) (Tx : ℝ) (hode : Tx = 1 / RadED.dxdT p) :
    RadED.Fr1 p = -(4 / (3 * RadED.sigma_t p)) * p.T ^ 3 * Tx + 4 / 3 * (RadED.Speed1 p / p.C0) * p.T ^ 4 := by
  rw [ed_Fr_eq, (ed_fields_eq p).2.1, (ed_density_eq p).1]
  exact edFr_diffusion _ _ _ _ _ _ _ hode

/-- **far upstream**: the first point of the profile is the equilibrium state (ρ, T, u) = (1, 1, M₀)
with p = 1/γ (for γ M₀² ≥ 1) -/
theorem ed_upstream (p : RadED.P) (hγ : 0 < p.gamma) (hM : 1 / p.gamma ≤ p.M0 ^ 2) :
    RadED.Tm0 p = 1 ∧ RadED.Density0 p = 1 ∧ RadED.Speed0 p = p.M0 ∧ RadED.Pressure0 p = 1 / p.gamma := by
  have hd : RadED.Density0 p = edRho p.gamma p.P0 p.M0 1 := by
    epv_semi_rad_tree [edRho, edB]
  have hs : RadED.Speed0 p = p.M0 / RadED.Density0 p := by
    epv_semi_rad_tree
  have hp : RadED.Pressure0 p = RadED.Density0 p * 1 / p.gamma := by
    epv_semi_rad_tree
  have h1 := edRho_upstream p.gamma p.P0 p.M0 hγ hM
  refine ⟨by epv_semi_rad_tree, by rw [hd, h1], ?_, ?_⟩
  · rw [hs, hd, h1, div_one]
  · rw [hp, hd, h1, one_mul]

/-- **far downstream**: the last point of the profile is the state (rho1, T1) found by the root
solve of `momentum_and_energy` (ATOM), with u = M₀/rho1, p = rho1 T1/γ -/
theorem ed_downstream (p : RadED.P) :
    RadED.Density2 p = p.rho1 ∧ RadED.Tm2 p = p.T1 ∧ RadED.Speed2 p = p.M0 / p.rho1 ∧
      RadED.Pressure2 p = p.rho1 * p.T1 / p.gamma ∧ RadED.Mach2 p = p.M1 := by
  epv_semi_rad_trees

/-- hence, when the root solve returns a root (ATOM hypothesis: `momentum_and_energy(rho1, T1) = 0`),
the far-downstream state is related to the far-upstream state by the radiation-modified jump
conditions -/
theorem ed_far_field_jump (p : RadED.P) (hρ : p.rho1 ≠ 0) (hγ : p.gamma ≠ 0) (hγ1 : p.gamma - 1 ≠ 0)
    (hM : p.M0 ≠ 0)
    (hroot : RadJump.momentum ⟨p.M0, p.P0, p.T1, p.T1, p.gamma, p.rho1, p.rho1⟩ = 0
      ∧ RadJump.energy ⟨p.M0, p.P0, p.T1, p.T1, p.gamma, p.rho1, p.rho1⟩ = 0) :
    momFlux p.gamma p.P0 (RadED.Density2 p) (RadED.Tm2 p) (RadED.Speed2 p) = momFlux p.gamma p.P0 1 1 p.M0 ∧
      energyFluxEq p.gamma p.P0 (RadED.Density2 p) (RadED.Tm2 p) (RadED.Speed2 p)
        = energyFluxEq p.gamma p.P0 1 1 p.M0 := by
  obtain ⟨h1, h2, h3, -, -⟩ := ed_downstream p
  rw [h1, h2, h3]
  exact (jump_iff ⟨p.M0, p.P0, p.T1, p.T1, p.gamma, p.rho1, p.rho1⟩ hρ hγ hγ1 hM).mp hroot

/-- non-vacuity at the defaults of `ED_Solver` (M₀ = 1.2, γ = 5/3, P₀ = 10⁻⁴, T = 1.1) -/
example : ∃ p : RadED.P, p.T / p.gamma ≠ 0 ∧ 0 ≤ edB p.gamma p.P0 p.M0 p.T ^ 2 - 4 * (p.T / p.gamma) * p.M0 ^ 2
    ∧ 0 < p.gamma ∧ 1 / p.gamma ≤ p.M0 ^ 2 ∧ p.gamma - 1 ≠ 0 ∧ p.P0 ≠ 0 ∧ p.C0 ≠ 0 ∧ p.T ≠ 0 :=
  ⟨⟨1000, 6 / 5, 1, 1 / 10000, 11 / 10, 6 / 5, 0, 0, 0, 0, 5 / 3, 13 / 10, 500, 0⟩, by norm_num, by unfold edB; norm_num,
    by norm_num, by norm_num, by norm_num, by norm_num, by norm_num, by norm_num⟩

/-- the radiation flux stored at the LAST node: the formula of the interior nodes evaluated with the
density `fnctn_ED.rho(T1)` of the quadratic's root, except for the advected-enthalpy term, which uses
the overridden density rho1 -/
theorem ed_Fr2_eq (p : RadED.P) :
    RadED.Fr2 p = -4 * p.T1 ^ 3 / 3
        / (p.sigA * edRho p.gamma p.P0 p.M0 p.T1 ^ p.expDensity_abs * p.T1 ^ p.expTemp_abs
          + p.sigS * edRho p.gamma p.P0 p.M0 p.T1 ^ p.expDensity_scat * p.T1 ^ p.expTemp_scat)
        / edDxdT p.gamma p.P0 p.C0 p.M0
            (p.sigA * edRho p.gamma p.P0 p.M0 p.T1 ^ p.expDensity_abs * p.T1 ^ p.expTemp_abs
              + p.sigS * edRho p.gamma p.P0 p.M0 p.T1 ^ p.expDensity_scat * p.T1 ^ p.expTemp_scat)
            (edRho p.gamma p.P0 p.M0 p.T1) p.T1
      + 4 / 3 * (p.M0 / p.rho1) / p.C0 * p.T1 ^ 4 := by
  epv_semi_rad_tree [edRho, edB, edDxdT]

/-- **what the last node's `Fr` does to the energy flux**: with ρ_c = `fnctn_ED.rho(T1)` the total
energy flux formed at the last node (rho1, T1, M₀/rho1, Fr) equals the upstream one plus
[equilibrium energy flux of (rho1, T1)] - [equilibrium energy flux of (ρ_c, T1)].  It is the upstream
flux iff those two agree — they do when rho1 = ρ_c (continuous profile), they do not when the
far-downstream state lies behind an embedded hydrodynamic shock (rho1 is the other root). -/
theorem ed_last_node_energy (p : RadED.P) (hγ : p.gamma ≠ 0) (hγ1 : p.gamma - 1 ≠ 0) (hP : p.P0 ≠ 0) (hC : p.C0 ≠ 0)
    (hσ : p.sigA * edRho p.gamma p.P0 p.M0 p.T1 ^ p.expDensity_abs * p.T1 ^ p.expTemp_abs
          + p.sigS * edRho p.gamma p.P0 p.M0 p.T1 ^ p.expDensity_scat * p.T1 ^ p.expTemp_scat ≠ 0)
    (hρc : edRho p.gamma p.P0 p.M0 p.T1 ≠ 0) (hρ1 : p.rho1 ≠ 0) (hT : p.T1 ≠ 0) :
    energyFlux p.gamma p.P0 p.C0 (RadED.Density2 p) (RadED.Tm2 p) (RadED.Speed2 p) (RadED.Fr2 p)
      = energyFluxEq p.gamma p.P0 1 1 p.M0
        + (energyFluxEq p.gamma p.P0 p.rho1 p.T1 (p.M0 / p.rho1)
          - energyFluxEq p.gamma p.P0 (edRho p.gamma p.P0 p.M0 p.T1) p.T1 (p.M0 / edRho p.gamma p.P0 p.M0 p.T1)) := by
  obtain ⟨h1, h2, h3, -, -⟩ := ed_downstream p
  rw [h1, h2, h3, ed_Fr2_eq]
  have key := ed_energy p.gamma p.P0 p.C0 p.M0 _ _ p.T1 hγ hγ1 hP hC hσ hρc hT
  generalize edRho p.gamma p.P0 p.M0 p.T1 = ρc at *
  generalize p.sigA * ρc ^ p.expDensity_abs * p.T1 ^ p.expTemp_abs
    + p.sigS * ρc ^ p.expDensity_scat * p.T1 ^ p.expTemp_scat = σ at *
  unfold energyFlux edFr at key
  unfold energyFlux energyFluxEq
  unfold energyFluxEq at key
  generalize edDxdT p.gamma p.P0 p.C0 p.M0 σ ρc p.T1 = D at *
  generalize -4 * p.T1 ^ 3 / 3 / σ / D = A at *
  have e : ∀ z : ℝ, p.P0 * p.C0 * (A + 4 / 3 * z / p.C0 * p.T1 ^ 4) = p.P0 * p.C0 * A + 4 / 3 * p.P0 * z * p.T1 ^ 4 := by
    intro z; field_simp
  rw [e] at key ⊢
  linear_combination key

/-! ### (a) the four public wrappers are travelling waves

Generated models RadWrap<X>: the real `__init__` (→ `setup_solver` → the real constructor of the
problem class, which computes `sound` from the instance's gamma, Cv, Tref) and the real `_run`; the
stored profile arrays are free symbols and `np.interp` on them is the application of an
uninterpreted profile function to the UNSHIFTED abscissa (the trace fails if an abscissa is not
`stored + common shift` or if a stored array depends on t).  The traced shift is
`t * sqrt(gamma (gamma-1) Cv Tref) * M0` with gamma, Cv, Tref the INSTANCE parameters. -/

/-- **C12 (a), `ED_Solver`**: every returned field satisfies
field(x + M₀ c_s δ, t + δ) = field(x, t) for all x, t, δ, with c_s = √(γ(γ-1)C_v T_ref) of the
instance's own γ, C_v, T_ref -/
theorem wrap_ed_travels (p : RadWrapED.P) :
    TravelsWith (RadWrapED.temperature p) (p.M0 * soundSpeed p.gamma p.Cv p.Tref) ∧
    TravelsWith (RadWrapED.density p) (p.M0 * soundSpeed p.gamma p.Cv p.Tref) ∧
    TravelsWith (RadWrapED.velocity p) (p.M0 * soundSpeed p.gamma p.Cv p.Tref) ∧
    TravelsWith (RadWrapED.pressure p) (p.M0 * soundSpeed p.gamma p.Cv p.Tref) ∧
    TravelsWith (RadWrapED.specific_internal_energy p) (p.M0 * soundSpeed p.gamma p.Cv p.Tref) ∧
    TravelsWith (RadWrapED.rade p) (p.M0 * soundSpeed p.gamma p.Cv p.Tref) ∧
    TravelsWith (RadWrapED.sound_speed p) (p.M0 * soundSpeed p.gamma p.Cv p.Tref) := by
  refine ⟨?_, ?_, ?_, ?_, ?_, ?_, ?_⟩ <;> intro x t δ <;>
    simp only [epv_tree, epv_leaf, soundSpeed] <;> epv_semi_rad_arg

/-- … and nothing else changes with time: each field is one fixed profile of x - M₀ c_s t -/
theorem wrap_ed_profile (p : RadWrapED.P) : ∃ G0 G1 G2 G3 G4 G5 G6 : ℝ → ℝ,
    (∀ x t, RadWrapED.temperature p x t = G0 (x - p.M0 * soundSpeed p.gamma p.Cv p.Tref * t)) ∧
    (∀ x t, RadWrapED.density p x t = G1 (x - p.M0 * soundSpeed p.gamma p.Cv p.Tref * t)) ∧
    (∀ x t, RadWrapED.velocity p x t = G2 (x - p.M0 * soundSpeed p.gamma p.Cv p.Tref * t)) ∧
    (∀ x t, RadWrapED.pressure p x t = G3 (x - p.M0 * soundSpeed p.gamma p.Cv p.Tref * t)) ∧
    (∀ x t, RadWrapED.specific_internal_energy p x t = G4 (x - p.M0 * soundSpeed p.gamma p.Cv p.Tref * t)) ∧
    (∀ x t, RadWrapED.rade p x t = G5 (x - p.M0 * soundSpeed p.gamma p.Cv p.Tref * t)) ∧
    (∀ x t, RadWrapED.sound_speed p x t = G6 (x - p.M0 * soundSpeed p.gamma p.Cv p.Tref * t)) := by
  refine ⟨p.prof0, p.prof1, p.prof2, p.prof3, p.prof4, p.prof5, p.prof6, ?_, ?_, ?_, ?_, ?_, ?_, ?_⟩ <;> intro x t <;>
    simp only [epv_tree, epv_leaf, soundSpeed] <;> epv_semi_rad_arg

theorem wrap_ed_position (p : RadWrapED.P) (x t : ℝ) : RadWrapED.position p x t = x := by
  epv_semi_rad_tree

/-- **C12 (a), `nED_Solver`**: every returned field satisfies
field(x + M₀ c_s δ, t + δ) = field(x, t) for all x, t, δ, with c_s = √(γ(γ-1)C_v T_ref) of the
instance's own γ, C_v, T_ref -/
theorem wrap_ned_travels (p : RadWrapNED.P) :
    TravelsWith (RadWrapNED.temperature_mat p) (p.M0 * soundSpeed p.gamma p.Cv p.Tref) ∧
    TravelsWith (RadWrapNED.temperature_rad p) (p.M0 * soundSpeed p.gamma p.Cv p.Tref) ∧
    TravelsWith (RadWrapNED.density p) (p.M0 * soundSpeed p.gamma p.Cv p.Tref) ∧
    TravelsWith (RadWrapNED.velocity p) (p.M0 * soundSpeed p.gamma p.Cv p.Tref) ∧
    TravelsWith (RadWrapNED.pressure p) (p.M0 * soundSpeed p.gamma p.Cv p.Tref) ∧
    TravelsWith (RadWrapNED.specific_internal_energy p) (p.M0 * soundSpeed p.gamma p.Cv p.Tref) ∧
    TravelsWith (RadWrapNED.rade p) (p.M0 * soundSpeed p.gamma p.Cv p.Tref) ∧
    TravelsWith (RadWrapNED.sound_speed p) (p.M0 * soundSpeed p.gamma p.Cv p.Tref) := by
  refine ⟨?_, ?_, ?_, ?_, ?_, ?_, ?_, ?_⟩ <;> intro x t δ <;>
    simp only [epv_tree, epv_leaf, soundSpeed] <;> epv_semi_rad_arg

/-- … and nothing else changes with time: each field is one fixed profile of x - M₀ c_s t -/
theorem wrap_ned_profile (p : RadWrapNED.P) : ∃ G0 G1 G2 G3 G4 G5 G6 G7 : ℝ → ℝ,
    (∀ x t, RadWrapNED.temperature_mat p x t = G0 (x - p.M0 * soundSpeed p.gamma p.Cv p.Tref * t)) ∧
    (∀ x t, RadWrapNED.temperature_rad p x t = G1 (x - p.M0 * soundSpeed p.gamma p.Cv p.Tref * t)) ∧
    (∀ x t, RadWrapNED.density p x t = G2 (x - p.M0 * soundSpeed p.gamma p.Cv p.Tref * t)) ∧
    (∀ x t, RadWrapNED.velocity p x t = G3 (x - p.M0 * soundSpeed p.gamma p.Cv p.Tref * t)) ∧
    (∀ x t, RadWrapNED.pressure p x t = G4 (x - p.M0 * soundSpeed p.gamma p.Cv p.Tref * t)) ∧
    (∀ x t, RadWrapNED.specific_internal_energy p x t = G5 (x - p.M0 * soundSpeed p.gamma p.Cv p.Tref * t)) ∧
    (∀ x t, RadWrapNED.rade p x t = G6 (x - p.M0 * soundSpeed p.gamma p.Cv p.Tref * t)) ∧
    (∀ x t, RadWrapNED.sound_speed p x t = G7 (x - p.M0 * soundSpeed p.gamma p.Cv p.Tref * t)) := by
  refine ⟨p.prof0, p.prof1, p.prof2, p.prof3, p.prof4, p.prof5, p.prof6, p.prof7, ?_, ?_, ?_, ?_, ?_, ?_, ?_, ?_⟩ <;> intro x t <;>
    simp only [epv_tree, epv_leaf, soundSpeed] <;> epv_semi_rad_arg

theorem wrap_ned_position (p : RadWrapNED.P) (x t : ℝ) : RadWrapNED.position p x t = x := by
  epv_semi_rad_tree

/-- **C12 (a), `Sn_Solver`**: every returned field satisfies
field(x + M₀ c_s δ, t + δ) = field(x, t) for all x, t, δ, with c_s = √(γ(γ-1)C_v T_ref) of the
instance's own γ, C_v, T_ref -/
theorem wrap_sn_travels (p : RadWrapSn.P) :
    TravelsWith (RadWrapSn.temperature_mat p) (p.M0 * soundSpeed p.gamma p.Cv p.Tref) ∧
    TravelsWith (RadWrapSn.temperature_rad p) (p.M0 * soundSpeed p.gamma p.Cv p.Tref) ∧
    TravelsWith (RadWrapSn.density p) (p.M0 * soundSpeed p.gamma p.Cv p.Tref) ∧
    TravelsWith (RadWrapSn.velocity p) (p.M0 * soundSpeed p.gamma p.Cv p.Tref) ∧
    TravelsWith (RadWrapSn.pressure p) (p.M0 * soundSpeed p.gamma p.Cv p.Tref) ∧
    TravelsWith (RadWrapSn.specific_internal_energy p) (p.M0 * soundSpeed p.gamma p.Cv p.Tref) ∧
    TravelsWith (RadWrapSn.rade p) (p.M0 * soundSpeed p.gamma p.Cv p.Tref) ∧
    TravelsWith (RadWrapSn.sound_speed p) (p.M0 * soundSpeed p.gamma p.Cv p.Tref) ∧
    TravelsWith (RadWrapSn.VEF p) (p.M0 * soundSpeed p.gamma p.Cv p.Tref) := by
  refine ⟨?_, ?_, ?_, ?_, ?_, ?_, ?_, ?_, ?_⟩ <;> intro x t δ <;>
    simp only [epv_tree, epv_leaf, soundSpeed] <;> epv_semi_rad_arg

/-- … and nothing else changes with time: each field is one fixed profile of x - M₀ c_s t -/
theorem wrap_sn_profile (p : RadWrapSn.P) : ∃ G0 G1 G2 G3 G4 G5 G6 G7 G8 : ℝ → ℝ,
    (∀ x t, RadWrapSn.temperature_mat p x t = G0 (x - p.M0 * soundSpeed p.gamma p.Cv p.Tref * t)) ∧
    (∀ x t, RadWrapSn.temperature_rad p x t = G1 (x - p.M0 * soundSpeed p.gamma p.Cv p.Tref * t)) ∧
    (∀ x t, RadWrapSn.density p x t = G2 (x - p.M0 * soundSpeed p.gamma p.Cv p.Tref * t)) ∧
    (∀ x t, RadWrapSn.velocity p x t = G3 (x - p.M0 * soundSpeed p.gamma p.Cv p.Tref * t)) ∧
    (∀ x t, RadWrapSn.pressure p x t = G4 (x - p.M0 * soundSpeed p.gamma p.Cv p.Tref * t)) ∧
    (∀ x t, RadWrapSn.specific_internal_energy p x t = G5 (x - p.M0 * soundSpeed p.gamma p.Cv p.Tref * t)) ∧
    (∀ x t, RadWrapSn.rade p x t = G6 (x - p.M0 * soundSpeed p.gamma p.Cv p.Tref * t)) ∧
    (∀ x t, RadWrapSn.sound_speed p x t = G7 (x - p.M0 * soundSpeed p.gamma p.Cv p.Tref * t)) ∧
    (∀ x t, RadWrapSn.VEF p x t = G8 (x - p.M0 * soundSpeed p.gamma p.Cv p.Tref * t)) := by
  refine ⟨p.prof0, p.prof1, p.prof2, p.prof3, p.prof4, p.prof5, p.prof6, p.prof7, p.prof8, ?_, ?_, ?_, ?_, ?_, ?_, ?_, ?_, ?_⟩ <;> intro x t <;>
    simp only [epv_tree, epv_leaf, soundSpeed] <;> epv_semi_rad_arg

theorem wrap_sn_position (p : RadWrapSn.P) (x t : ℝ) : RadWrapSn.position p x t = x := by
  epv_semi_rad_tree

/-- **C12 (a), `ie_Solver`**: every returned field satisfies
field(x + M₀ c_s δ, t + δ) = field(x, t) for all x, t, δ, with c_s = √(γ(γ-1)C_v T_ref) of the
instance's own γ, C_v, T_ref -/
theorem wrap_ie_travels (p : RadWrapIE.P) :
    TravelsWith (RadWrapIE.temperature_ion p) (p.M0 * soundSpeed p.gamma p.Cv p.Tref) ∧
    TravelsWith (RadWrapIE.temperature_mat p) (p.M0 * soundSpeed p.gamma p.Cv p.Tref) ∧
    TravelsWith (RadWrapIE.temperature_elec p) (p.M0 * soundSpeed p.gamma p.Cv p.Tref) ∧
    TravelsWith (RadWrapIE.density p) (p.M0 * soundSpeed p.gamma p.Cv p.Tref) ∧
    TravelsWith (RadWrapIE.velocity p) (p.M0 * soundSpeed p.gamma p.Cv p.Tref) ∧
    TravelsWith (RadWrapIE.pressure p) (p.M0 * soundSpeed p.gamma p.Cv p.Tref) ∧
    TravelsWith (RadWrapIE.specific_internal_energy p) (p.M0 * soundSpeed p.gamma p.Cv p.Tref) ∧
    TravelsWith (RadWrapIE.sound_speed p) (p.M0 * soundSpeed p.gamma p.Cv p.Tref) := by
  refine ⟨?_, ?_, ?_, ?_, ?_, ?_, ?_, ?_⟩ <;> intro x t δ <;>
    simp only [epv_tree, epv_leaf, soundSpeed] <;> epv_semi_rad_arg

/-- … and nothing else changes with time: each field is one fixed profile of x - M₀ c_s t -/
theorem wrap_ie_profile (p : RadWrapIE.P) : ∃ G0 G1 G2 G3 G4 G5 G6 G7 : ℝ → ℝ,
    (∀ x t, RadWrapIE.temperature_ion p x t = G0 (x - p.M0 * soundSpeed p.gamma p.Cv p.Tref * t)) ∧
    (∀ x t, RadWrapIE.temperature_mat p x t = G1 (x - p.M0 * soundSpeed p.gamma p.Cv p.Tref * t)) ∧
    (∀ x t, RadWrapIE.temperature_elec p x t = G2 (x - p.M0 * soundSpeed p.gamma p.Cv p.Tref * t)) ∧
    (∀ x t, RadWrapIE.density p x t = G3 (x - p.M0 * soundSpeed p.gamma p.Cv p.Tref * t)) ∧
    (∀ x t, RadWrapIE.velocity p x t = G4 (x - p.M0 * soundSpeed p.gamma p.Cv p.Tref * t)) ∧
    (∀ x t, RadWrapIE.pressure p x t = G5 (x - p.M0 * soundSpeed p.gamma p.Cv p.Tref * t)) ∧
    (∀ x t, RadWrapIE.specific_internal_energy p x t = G6 (x - p.M0 * soundSpeed p.gamma p.Cv p.Tref * t)) ∧
    (∀ x t, RadWrapIE.sound_speed p x t = G7 (x - p.M0 * soundSpeed p.gamma p.Cv p.Tref * t)) := by
  refine ⟨p.prof0, p.prof1, p.prof2, p.prof3, p.prof4, p.prof5, p.prof6, p.prof7, ?_, ?_, ?_, ?_, ?_, ?_, ?_, ?_⟩ <;> intro x t <;>
    simp only [epv_tree, epv_leaf, soundSpeed] <;> epv_semi_rad_arg

theorem wrap_ie_position (p : RadWrapIE.P) (x t : ℝ) : RadWrapIE.position p x t = x := by
  epv_semi_rad_tree

/-! ### the solver attributes (C03 share; the convention of the flux tests)

Generated models RadAttr<X>: the attributes `setup_solver` derives from the stored nondimensional
profile (first node; all nodes are treated alike). -/

/-- C03 share, `ED_Solver`: SIE = Pressure / Density / (γ - 1), Sound_Speed = Speed / Mach, and `sound`
is the sound speed of the instance's γ, C_v, T_ref -/
theorem attr_ed_eos (p : RadAttrED.P) :
    RadAttrED.SIE p = RadAttrED.Pressure p / RadAttrED.Density p / (p.gamma - 1) ∧
      RadAttrED.Sound_Speed p = RadAttrED.Speed p / RadAttrED.Mach p ∧
      RadAttrED.sound p = soundSpeed p.gamma p.Cv p.Tref := by
  epv_semi_rad_trees [soundSpeed]

/-- C03 share, `nED_Solver`: SIE = Pressure / Density / (γ - 1), Sound_Speed = Speed / Mach, and `sound`
is the sound speed of the instance's γ, C_v, T_ref -/
theorem attr_ned_eos (p : RadAttrNED.P) :
    RadAttrNED.SIE p = RadAttrNED.Pressure p / RadAttrNED.Density p / (p.gamma - 1) ∧
      RadAttrNED.Sound_Speed p = RadAttrNED.Speed p / RadAttrNED.Mach p ∧
      RadAttrNED.sound p = soundSpeed p.gamma p.Cv p.Tref := by
  epv_semi_rad_trees [soundSpeed]

/-- C03 share, `Sn_Solver`: SIE = Pressure / Density / (γ - 1), Sound_Speed = Speed / Mach, and `sound`
is the sound speed of the instance's γ, C_v, T_ref -/
theorem attr_sn_eos (p : RadAttrSn.P) :
    RadAttrSn.SIE p = RadAttrSn.Pressure p / RadAttrSn.Density p / (p.gamma - 1) ∧
      RadAttrSn.Sound_Speed p = RadAttrSn.Speed p / RadAttrSn.Mach p ∧
      RadAttrSn.sound p = soundSpeed p.gamma p.Cv p.Tref := by
  epv_semi_rad_trees [soundSpeed]

/-- C03 share, `ie_Solver`: SIE = Pressure / Density / (γ - 1), Sound_Speed = Speed / Mach, and `sound`
is the sound speed of the instance's γ, C_v, T_ref -/
theorem attr_ie_eos (p : RadAttrIE.P) :
    RadAttrIE.SIE p = RadAttrIE.Pressure p / RadAttrIE.Density p / (p.gamma - 1) ∧
      RadAttrIE.Sound_Speed p = RadAttrIE.Speed p / RadAttrIE.Mach p ∧
      RadAttrIE.sound p = soundSpeed p.gamma p.Cv p.Tref := by
  epv_semi_rad_trees [soundSpeed]

/-- `ED_Solver`: the dimensional fluxes formed from the solver attributes (as the flux tests of the
suite form them, `Fr` being the radiation energy flux divided by the sound speed) are ρ₀ c_s, ρ₀ c_s²,
ρ₀ c_s³ times the nondimensional fluxes of the stored profile, with P₀ = a_r T_ref⁴/(ρ₀ c_s²),
C₀ = c/c_s -/
theorem attr_ed_fluxes (p : RadAttrED.P) (hs : RadAttrED.sound p ≠ 0) (hρ : p.rho0 ≠ 0) (hd : p.prof_Density0 ≠ 0)
    (hγ : p.gamma - 1 ≠ 0) :
    RadAttrED.Density p * RadAttrED.Speed p = p.rho0 * RadAttrED.sound p * massFlux p.prof_Density0 p.prof_Speed0 ∧
    RadAttrED.Density p * RadAttrED.Speed p ^ 2 + RadAttrED.Pressure p
        + RadAttrED.P0 p * (p.rho0 * RadAttrED.sound p ^ 2) * p.prof_Tm0 ^ 4 / 3
      = p.rho0 * RadAttrED.sound p ^ 2
        * (p.prof_Density0 * p.prof_Speed0 ^ 2 + p.prof_Pressure0 + RadAttrED.P0 p * p.prof_Tm0 ^ 4 / 3) ∧
    RadAttrED.Speed p * (RadAttrED.Density p * RadAttrED.Speed p ^ 2 / 2 + RadAttrED.Density p * RadAttrED.SIE p + RadAttrED.Pressure p)
        + RadAttrED.sound p * RadAttrED.Fr p
      = p.rho0 * RadAttrED.sound p ^ 3
        * (p.prof_Speed0 * (p.prof_Density0 * p.prof_Speed0 ^ 2 / 2 + p.prof_Pressure0 / (p.gamma - 1) + p.prof_Pressure0)
          + RadAttrED.P0 p * RadAttrED.C0 p * p.prof_Fr0) := by
  rw [Bridge.SemiRad.attrED_sound] at hs
  simp only [epv_tree, epv_leaf, massFlux]
  epv_semi_rad_fold_sound (Bridge.SemiRad.attrED_sound p)
  generalize soundSpeed p.gamma p.Cv p.Tref = c at *
  refine ⟨?_, ?_, ?_⟩ <;> epv_semi_rad_field

/-- `nED_Solver`: the dimensional fluxes formed from the solver attributes (as the flux tests of the
suite form them, `Fr` being the radiation energy flux divided by the sound speed) are ρ₀ c_s, ρ₀ c_s²,
ρ₀ c_s³ times the nondimensional fluxes of the stored profile, with P₀ = a_r T_ref⁴/(ρ₀ c_s²),
C₀ = c/c_s -/
theorem attr_ned_fluxes (p : RadAttrNED.P) (hs : RadAttrNED.sound p ≠ 0) (hρ : p.rho0 ≠ 0) (hd : p.prof_Density0 ≠ 0)
    (hγ : p.gamma - 1 ≠ 0) :
    RadAttrNED.Density p * RadAttrNED.Speed p = p.rho0 * RadAttrNED.sound p * massFlux p.prof_Density0 p.prof_Speed0 ∧
    RadAttrNED.Density p * RadAttrNED.Speed p ^ 2 + RadAttrNED.Pressure p
        + RadAttrNED.P0 p * (p.rho0 * RadAttrNED.sound p ^ 2) * p.prof_Tr0 ^ 4 / 3
      = p.rho0 * RadAttrNED.sound p ^ 2
        * (p.prof_Density0 * p.prof_Speed0 ^ 2 + p.prof_Pressure0 + RadAttrNED.P0 p * p.prof_Tr0 ^ 4 / 3) ∧
    RadAttrNED.Speed p * (RadAttrNED.Density p * RadAttrNED.Speed p ^ 2 / 2 + RadAttrNED.Density p * RadAttrNED.SIE p + RadAttrNED.Pressure p)
        + RadAttrNED.sound p * RadAttrNED.Fr p
      = p.rho0 * RadAttrNED.sound p ^ 3
        * (p.prof_Speed0 * (p.prof_Density0 * p.prof_Speed0 ^ 2 / 2 + p.prof_Pressure0 / (p.gamma - 1) + p.prof_Pressure0)
          + RadAttrNED.P0 p * RadAttrNED.C0 p * p.prof_Fr0) := by
  rw [Bridge.SemiRad.attrNED_sound] at hs
  simp only [epv_tree, epv_leaf, massFlux]
  epv_semi_rad_fold_sound (Bridge.SemiRad.attrNED_sound p)
  generalize soundSpeed p.gamma p.Cv p.Tref = c at *
  refine ⟨?_, ?_, ?_⟩ <;> epv_semi_rad_field

/-- `Sn_Solver`: the dimensional fluxes formed from the solver attributes (as the flux tests of the
suite form them, `Fr` being the radiation energy flux divided by the sound speed) are ρ₀ c_s, ρ₀ c_s²,
ρ₀ c_s³ times the nondimensional fluxes of the stored profile, with P₀ = a_r T_ref⁴/(ρ₀ c_s²),
C₀ = c/c_s -/
theorem attr_sn_fluxes (p : RadAttrSn.P) (hs : RadAttrSn.sound p ≠ 0) (hρ : p.rho0 ≠ 0) (hd : p.prof_Density0 ≠ 0)
    (hγ : p.gamma - 1 ≠ 0) :
    RadAttrSn.Density p * RadAttrSn.Speed p = p.rho0 * RadAttrSn.sound p * massFlux p.prof_Density0 p.prof_Speed0 ∧
    RadAttrSn.Density p * RadAttrSn.Speed p ^ 2 + RadAttrSn.Pressure p
        + RadAttrSn.P0 p * (p.rho0 * RadAttrSn.sound p ^ 2) * p.prof_Tr0 ^ 4 / 3
      = p.rho0 * RadAttrSn.sound p ^ 2
        * (p.prof_Density0 * p.prof_Speed0 ^ 2 + p.prof_Pressure0 + RadAttrSn.P0 p * p.prof_Tr0 ^ 4 / 3) ∧
    RadAttrSn.Speed p * (RadAttrSn.Density p * RadAttrSn.Speed p ^ 2 / 2 + RadAttrSn.Density p * RadAttrSn.SIE p + RadAttrSn.Pressure p)
        + RadAttrSn.sound p * RadAttrSn.Fr p
      = p.rho0 * RadAttrSn.sound p ^ 3
        * (p.prof_Speed0 * (p.prof_Density0 * p.prof_Speed0 ^ 2 / 2 + p.prof_Pressure0 / (p.gamma - 1) + p.prof_Pressure0)
          + RadAttrSn.P0 p * RadAttrSn.C0 p * p.prof_Fr0) := by
  rw [Bridge.SemiRad.attrSn_sound] at hs
  simp only [epv_tree, epv_leaf, massFlux]
  epv_semi_rad_fold_sound (Bridge.SemiRad.attrSn_sound p)
  generalize soundSpeed p.gamma p.Cv p.Tref = c at *
  refine ⟨?_, ?_, ?_⟩ <;> epv_semi_rad_field

end

end EPV.C12
