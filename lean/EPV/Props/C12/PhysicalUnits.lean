/-
C12 — total momentum and energy flux in PHYSICAL units (g, cm, s, eV), from the public attributes.

With the constants pinned by Constants.lean (P₀ = a_rT_ref⁴/(ρ₀c_s²), C₀ = c/c_s, c_s = √(γ(γ-1)C_vT_ref)):

* `attr_*_phys_momentum`, `attr_*_phys_energy` (ED_Solver, nED_Solver, Sn_Solver): the physical fluxes formed from the public
  attributes — ρu² + p + f·RADE with RADE = a_rT⁴ (f = 1/3; Sn: the attribute VEF) and u(½ρu² + ρ·SIE + p) + c_s·Fr — are
  ρ₀c_s², ρ₀c_s³ × the nondimensional fluxes of the stored profile formed with the SPECIFIED P₀, C₀ (not with the solver's
  own attributes: a solver that nondimensionalises with another P₀ conserves another quantity, `mom_const_iff`);
* `ed_phys_momentum`, `ed_phys_energy`: equilibrium-diffusion solver end to end (user parameters → profile constants → node of
  the profile at any temperature → public attributes): both physical fluxes are those of the upstream state
  (ρ₀, M₀c_s, ρ₀c_s²/γ, T_ref);
* nodes of a nonequilibrium-diffusion profile (generated models RadNED [problem 'nED'], RadNEDLM ['LM_nED']: the closed
  forms of fnctn_nED from which `splice_precursor_and_relaxation` assembles Tm, Tr, Speed, Density, Pressure, Fr, on a profile
  object built by the real constructor chain):  `*_fields` (u = M₀/ρ, p = ρT/γ, E_r = 3P, T_r = E_r^¼, ρ and T of (P, M));
  `*_energy_node`: **`rad_flux` is the energy-flux defect** — the total energy flux at every node equals the far-field reference
  C₀β₀(E_m0 + P₀F₂₀) of `dPdx`, for every cross section (a total cross section computed differently in `dPdx` and in
  `rad_flux` breaks this); `*_reference_upstream`: ahead of the sonic point that reference is the upstream equilibrium flux;
* `ned_phys_momentum`, `ned_phys_energy_precursor`: nED_Solver end to end in physical units (every node resp. every node of
  the precursor).

PARTIAL: behind the sonic point (M ≤ 1) the reference of `dPdx` is the downstream equilibrium state found by the root solve
(ATOM; `jump_iff` of RadShock.lean says when it carries the upstream flux); (P, M) along the profile come from the ODE
integration (ATOM); Sn: attributes only (Eddington factor = interpolated VEF); flux-limited closures: oracle only (known
finding `C12.radshock.fld_energy_flux`).
-/
import EPV.Gen.RadConstED
import EPV.Gen.RadConstNED
import EPV.Gen.RadAttrED
import EPV.Gen.RadAttrNED
import EPV.Gen.RadAttrSn
import EPV.Gen.RadED
import EPV.Gen.RadNED
import EPV.Gen.RadNEDLM
import EPV.Spec.RadShockUnits
import EPV.Lemmas.RadShock
import EPV.Lemmas.RadShock2
import EPV.Lemmas.Bridge.SemiRad
import EPV.Tactics

set_option linter.all false
-- the generated leaves of fnctn_nED are deep terms (the Gen files set the same option)
set_option maxRecDepth 100000

open EPV EPV.Gen EPV.Spec.RadShock

namespace EPV.C12

noncomputable section

/-! ### physical units: the public attributes -/

/-- **`ED_Solver`, physical momentum flux** ρu² + p + RADE/3 formed from the public attributes is ρ₀c_s² × the
nondimensional total momentum flux of the stored profile formed with the SPECIFIED P₀ -/
theorem attr_ed_phys_momentum (a : RadAttrED.P) (hs : soundSpeed a.gamma a.Cv a.Tref ≠ 0) (hρ : a.rho0 ≠ 0) :
    RadAttrED.RADE a = radConstF * RadAttrED.Tm a ^ 4 ∧
    RadAttrED.Density a * RadAttrED.Speed a ^ 2 + RadAttrED.Pressure a + 1 / 3 * RadAttrED.RADE a
      = a.rho0 * soundSpeed a.gamma a.Cv a.Tref ^ 2
        * momFluxF (specP0 a.Tref a.rho0 a.gamma a.Cv) (1 / 3) a.prof_Density0 a.prof_Speed0 a.prof_Pressure0 a.prof_Tm0 := by
  have h := mom_of_nondim radConstF (1 / 3) a.rho0 (soundSpeed a.gamma a.Cv a.Tref) a.Tref a.prof_Density0 a.prof_Speed0
    a.prof_Pressure0 a.prof_Tm0 hρ hs
  unfold specP0
  rw [← h]
  epv_semi_rad_trees [physMomFlux, radConstF, soundSpeed]

/-- **`ED_Solver`, physical energy flux** u(½ρu² + ρ·SIE + p) + c_s·Fr formed from the public attributes is ρ₀c_s³ × the
nondimensional total energy flux of the stored profile formed with the SPECIFIED P₀ and C₀ -/
theorem attr_ed_phys_energy (a : RadAttrED.P) (hs : soundSpeed a.gamma a.Cv a.Tref ≠ 0) (hρ : a.rho0 ≠ 0)
    (hd : a.prof_Density0 ≠ 0) (hγ : a.gamma - 1 ≠ 0) :
    physEnergyFlux (RadAttrED.Density a) (RadAttrED.Speed a) (RadAttrED.Pressure a) (RadAttrED.SIE a)
        (RadAttrED.sound a * RadAttrED.Fr a)
      = a.rho0 * soundSpeed a.gamma a.Cv a.Tref ^ 3
        * (a.prof_Speed0 * (a.prof_Density0 * a.prof_Speed0 ^ 2 / 2 + a.prof_Pressure0 / (a.gamma - 1) + a.prof_Pressure0)
          + specP0 a.Tref a.rho0 a.gamma a.Cv * specC0 a.Tref a.gamma a.Cv * a.prof_Fr0) := by
  simp only [epv_tree, epv_leaf, physEnergyFlux, specP0, specC0, physP0, physC0, radConstF, cLight]
  epv_semi_rad_fold_sound (Bridge.SemiRad.attrED_sound a)
  generalize soundSpeed a.gamma a.Cv a.Tref = c at *
  epv_semi_rad_field

/-- **`nED_Solver`, physical momentum flux** ρu² + p + RADE/3 formed from the public attributes is ρ₀c_s² × the
nondimensional total momentum flux of the stored profile formed with the SPECIFIED P₀ -/
theorem attr_ned_phys_momentum (a : RadAttrNED.P) (hs : soundSpeed a.gamma a.Cv a.Tref ≠ 0) (hρ : a.rho0 ≠ 0) :
    RadAttrNED.RADE a = radConstF * RadAttrNED.Tr a ^ 4 ∧
    RadAttrNED.Density a * RadAttrNED.Speed a ^ 2 + RadAttrNED.Pressure a + 1 / 3 * RadAttrNED.RADE a
      = a.rho0 * soundSpeed a.gamma a.Cv a.Tref ^ 2
        * momFluxF (specP0 a.Tref a.rho0 a.gamma a.Cv) (1 / 3) a.prof_Density0 a.prof_Speed0 a.prof_Pressure0 a.prof_Tr0 := by
  have h := mom_of_nondim radConstF (1 / 3) a.rho0 (soundSpeed a.gamma a.Cv a.Tref) a.Tref a.prof_Density0 a.prof_Speed0
    a.prof_Pressure0 a.prof_Tr0 hρ hs
  unfold specP0
  rw [← h]
  epv_semi_rad_trees [physMomFlux, radConstF, soundSpeed]

/-- **`nED_Solver`, physical energy flux** u(½ρu² + ρ·SIE + p) + c_s·Fr formed from the public attributes is ρ₀c_s³ × the
nondimensional total energy flux of the stored profile formed with the SPECIFIED P₀ and C₀ -/
theorem attr_ned_phys_energy (a : RadAttrNED.P) (hs : soundSpeed a.gamma a.Cv a.Tref ≠ 0) (hρ : a.rho0 ≠ 0)
    (hd : a.prof_Density0 ≠ 0) (hγ : a.gamma - 1 ≠ 0) :
    physEnergyFlux (RadAttrNED.Density a) (RadAttrNED.Speed a) (RadAttrNED.Pressure a) (RadAttrNED.SIE a)
        (RadAttrNED.sound a * RadAttrNED.Fr a)
      = a.rho0 * soundSpeed a.gamma a.Cv a.Tref ^ 3
        * (a.prof_Speed0 * (a.prof_Density0 * a.prof_Speed0 ^ 2 / 2 + a.prof_Pressure0 / (a.gamma - 1) + a.prof_Pressure0)
          + specP0 a.Tref a.rho0 a.gamma a.Cv * specC0 a.Tref a.gamma a.Cv * a.prof_Fr0) := by
  simp only [epv_tree, epv_leaf, physEnergyFlux, specP0, specC0, physP0, physC0, radConstF, cLight]
  epv_semi_rad_fold_sound (Bridge.SemiRad.attrNED_sound a)
  generalize soundSpeed a.gamma a.Cv a.Tref = c at *
  epv_semi_rad_field

/-- **`Sn_Solver`, physical momentum flux** ρu² + p + f·RADE (f the Eddington factor, attribute `VEF`) formed from the public attributes is ρ₀c_s² × the
nondimensional total momentum flux of the stored profile formed with the SPECIFIED P₀ -/
theorem attr_sn_phys_momentum (a : RadAttrSn.P) (f : ℝ) (hs : soundSpeed a.gamma a.Cv a.Tref ≠ 0) (hρ : a.rho0 ≠ 0) :
    RadAttrSn.RADE a = radConstF * RadAttrSn.Tr a ^ 4 ∧
    RadAttrSn.Density a * RadAttrSn.Speed a ^ 2 + RadAttrSn.Pressure a + f * RadAttrSn.RADE a
      = a.rho0 * soundSpeed a.gamma a.Cv a.Tref ^ 2
        * momFluxF (specP0 a.Tref a.rho0 a.gamma a.Cv) f a.prof_Density0 a.prof_Speed0 a.prof_Pressure0 a.prof_Tr0 := by
  have h := mom_of_nondim radConstF f a.rho0 (soundSpeed a.gamma a.Cv a.Tref) a.Tref a.prof_Density0 a.prof_Speed0
    a.prof_Pressure0 a.prof_Tr0 hρ hs
  unfold specP0
  rw [← h]
  epv_semi_rad_trees [physMomFlux, radConstF, soundSpeed]

/-- **`Sn_Solver`, physical energy flux** u(½ρu² + ρ·SIE + p) + c_s·Fr formed from the public attributes is ρ₀c_s³ × the
nondimensional total energy flux of the stored profile formed with the SPECIFIED P₀ and C₀ -/
theorem attr_sn_phys_energy (a : RadAttrSn.P) (hs : soundSpeed a.gamma a.Cv a.Tref ≠ 0) (hρ : a.rho0 ≠ 0)
    (hd : a.prof_Density0 ≠ 0) (hγ : a.gamma - 1 ≠ 0) :
    physEnergyFlux (RadAttrSn.Density a) (RadAttrSn.Speed a) (RadAttrSn.Pressure a) (RadAttrSn.SIE a)
        (RadAttrSn.sound a * RadAttrSn.Fr a)
      = a.rho0 * soundSpeed a.gamma a.Cv a.Tref ^ 3
        * (a.prof_Speed0 * (a.prof_Density0 * a.prof_Speed0 ^ 2 / 2 + a.prof_Pressure0 / (a.gamma - 1) + a.prof_Pressure0)
          + specP0 a.Tref a.rho0 a.gamma a.Cv * specC0 a.Tref a.gamma a.Cv * a.prof_Fr0) := by
  simp only [epv_tree, epv_leaf, physEnergyFlux, specP0, specC0, physP0, physC0, radConstF, cLight]
  epv_semi_rad_fold_sound (Bridge.SemiRad.attrSn_sound a)
  generalize soundSpeed a.gamma a.Cv a.Tref = c at *
  epv_semi_rad_field

/-! ### physical units: the equilibrium-diffusion solver end to end -/

private theorem ed_node_Tm (q : RadED.P) : RadED.Tm1 q = q.T := by
  epv_semi_rad_tree

private theorem ed_node_Density (q : RadED.P) : RadED.Density1 q = edRho q.gamma q.P0 q.M0 q.T := by
  epv_semi_rad_tree [edRho, edB]

private theorem ed_node_Speed (q : RadED.P) : RadED.Speed1 q = q.M0 / edRho q.gamma q.P0 q.M0 q.T := by
  epv_semi_rad_tree [edRho, edB]

private theorem ed_node_Pressure (q : RadED.P) :
    RadED.Pressure1 q = edRho q.gamma q.P0 q.M0 q.T * q.T / q.gamma := by
  epv_semi_rad_tree [edRho, edB]

private theorem ed_node_Fr (q : RadED.P) :
    RadED.Fr1 q = edFr q.C0 q.M0 (RadED.sigma_t q)
      (edDxdT q.gamma q.P0 q.C0 q.M0 (RadED.sigma_t q) (edRho q.gamma q.P0 q.M0 q.T) q.T) (edRho q.gamma q.P0 q.M0 q.T) q.T := by
  epv_semi_rad_tree [edRho, edB, edFr, edDxdT]

/-- the ED profile node at temperature q.T (generated model RadED) in the clean variables of Lemmas/RadShock.lean -/
theorem ed_node (q : RadED.P) :
    RadED.Tm1 q = q.T ∧ RadED.Density1 q = edRho q.gamma q.P0 q.M0 q.T ∧
      RadED.Speed1 q = q.M0 / edRho q.gamma q.P0 q.M0 q.T ∧
      RadED.Pressure1 q = edRho q.gamma q.P0 q.M0 q.T * q.T / q.gamma ∧
      RadED.Fr1 q = edFr q.C0 q.M0 (RadED.sigma_t q)
        (edDxdT q.gamma q.P0 q.C0 q.M0 (RadED.sigma_t q) (edRho q.gamma q.P0 q.M0 q.T) q.T) (edRho q.gamma q.P0 q.M0 q.T) q.T :=
  ⟨ed_node_Tm q, ed_node_Density q, ed_node_Speed q, ed_node_Pressure q, ed_node_Fr q⟩

theorem ed_sigma_form (q : RadED.P) :
    RadED.sigma_t q = q.sigA * edRho q.gamma q.P0 q.M0 q.T ^ q.expDensity_abs * q.T ^ q.expTemp_abs
      + q.sigS * edRho q.gamma q.P0 q.M0 q.T ^ q.expDensity_scat * q.T ^ q.expTemp_scat := by
  epv_semi_rad_tree [edRho, edB]

/-- the user `u` (symbolic parameters of `ED_Solver`), the profile node `q` built with the constants the profile object
holds for that user, and the attributes `a` derived from that node with the user's reference scales -/
structure EDChain (u : RadConstED.P) (q : RadED.P) (a : RadAttrED.P) : Prop where
  P0 : q.P0 = RadConstED.f_P0 u
  C0 : q.C0 = RadConstED.f_C0 u
  M0 : q.M0 = RadConstED.f_M0 u
  gamma : q.gamma = RadConstED.f_gamma u
  rho0 : a.rho0 = RadConstED.p_rho0 u
  Tref : a.Tref = RadConstED.p_Tref u
  aCv : a.Cv = u.Cv
  aGamma : a.gamma = u.gamma
  Density : a.prof_Density0 = RadED.Density1 q
  Speed : a.prof_Speed0 = RadED.Speed1 q
  Pressure : a.prof_Pressure0 = RadED.Pressure1 q
  Tm : a.prof_Tm0 = RadED.Tm1 q
  Fr : a.prof_Fr0 = RadED.Fr1 q

/-- **`ED_Solver`, physical units**: at every temperature of the profile the total momentum flux ρu² + p + a_rT⁴/3 formed
from the returned attributes is the upstream one, ρ₀c_s²(M₀² + 1/γ) + a_rT_ref⁴/3 -/
theorem ed_phys_momentum (u : RadConstED.P) (q : RadED.P) (a : RadAttrED.P) (h : EDChain u q a)
    (hs : soundSpeed u.gamma u.Cv u.Tref ≠ 0) (hρ0 : u.rho0 ≠ 0) (ha : q.T / u.gamma ≠ 0)
    (hd : 0 ≤ edB u.gamma (specP0 u.Tref u.rho0 u.gamma u.Cv) u.M0 q.T ^ 2 - 4 * (q.T / u.gamma) * u.M0 ^ 2)
    (hρ : edRho u.gamma (specP0 u.Tref u.rho0 u.gamma u.Cv) u.M0 q.T ≠ 0) :
    physMomFlux radConstF (1 / 3) (RadAttrED.Density a) (RadAttrED.Speed a) (RadAttrED.Pressure a) (RadAttrED.Tm a)
      = physMomFlux radConstF (1 / 3) u.rho0 (u.M0 * soundSpeed u.gamma u.Cv u.Tref)
          (u.rho0 * soundSpeed u.gamma u.Cv u.Tref ^ 2 / u.gamma) u.Tref := by
  have e1 : a.rho0 = u.rho0 := by rw [h.rho0]; exact (Bridge.SemiRad.constED_copies u).2.2.1
  have e2 : a.Tref = u.Tref := by rw [h.Tref]; exact (Bridge.SemiRad.constED_copies u).2.2.2
  have e3 : q.M0 = u.M0 := by rw [h.M0]; exact (Bridge.SemiRad.constED_copies u).1
  have e4 : q.gamma = u.gamma := by rw [h.gamma]; exact (Bridge.SemiRad.constED_copies u).2.1
  have e5 : q.P0 = specP0 u.Tref u.rho0 u.gamma u.Cv := by
    rw [h.P0]; exact Bridge.SemiRad.constED_f_P0 u
  have hs' : soundSpeed a.gamma a.Cv a.Tref ≠ 0 := by rw [h.aGamma, h.aCv, e2]; exact hs
  have hρ' : a.rho0 ≠ 0 := by rw [e1]; exact hρ0
  obtain ⟨hR, hm⟩ := attr_ed_phys_momentum a hs' hρ'
  obtain ⟨n1, n2, n3, n4, -⟩ := ed_node q
  have hγ : u.gamma ≠ 0 := by rintro h0; rw [h0] at ha; simp at ha
  unfold physMomFlux
  rw [← hR, hm, h.Density, h.Speed, h.Pressure, h.Tm, n1, n2, n3, n4, momFluxF_third, e3, e4, e5, h.aGamma, h.aCv, e1, e2,
    ed_momentum _ _ _ _ ha hd hρ]
  unfold momFlux specP0 physP0
  field_simp

theorem ed_phys_energy (u : RadConstED.P) (q : RadED.P) (a : RadAttrED.P) (h : EDChain u q a)
    (hs : soundSpeed u.gamma u.Cv u.Tref ≠ 0) (hρ0 : u.rho0 ≠ 0) (hTref : u.Tref ≠ 0) (hγ : u.gamma ≠ 0) (hγ1 : u.gamma - 1 ≠ 0)
    (hσ : RadED.sigma_t q ≠ 0) (hT : q.T ≠ 0)
    (hρ : edRho u.gamma (specP0 u.Tref u.rho0 u.gamma u.Cv) u.M0 q.T ≠ 0) :
    physEnergyFlux (RadAttrED.Density a) (RadAttrED.Speed a) (RadAttrED.Pressure a) (RadAttrED.SIE a)
        (RadAttrED.sound a * RadAttrED.Fr a)
      = physEnergyFluxEq radConstF u.rho0 (u.M0 * soundSpeed u.gamma u.Cv u.Tref)
          (u.rho0 * soundSpeed u.gamma u.Cv u.Tref ^ 2 / u.gamma)
          (soundSpeed u.gamma u.Cv u.Tref ^ 2 / (u.gamma * (u.gamma - 1))) u.Tref := by
  have e1 : a.rho0 = u.rho0 := by rw [h.rho0]; exact (Bridge.SemiRad.constED_copies u).2.2.1
  have e2 : a.Tref = u.Tref := by rw [h.Tref]; exact (Bridge.SemiRad.constED_copies u).2.2.2
  have e3 : q.M0 = u.M0 := by rw [h.M0]; exact (Bridge.SemiRad.constED_copies u).1
  have e4 : q.gamma = u.gamma := by rw [h.gamma]; exact (Bridge.SemiRad.constED_copies u).2.1
  have e5 : q.P0 = specP0 u.Tref u.rho0 u.gamma u.Cv := by
    rw [h.P0]; exact Bridge.SemiRad.constED_f_P0 u
  have e6 : q.C0 = specC0 u.Tref u.gamma u.Cv := by
    rw [h.C0]; exact Bridge.SemiRad.constED_f_C0 u
  have hs' : soundSpeed a.gamma a.Cv a.Tref ≠ 0 := by rw [h.aGamma, h.aCv, e2]; exact hs
  have hρ' : a.rho0 ≠ 0 := by rw [e1]; exact hρ0
  obtain ⟨n1, n2, n3, n4, n5⟩ := ed_node q
  have hd' : a.prof_Density0 ≠ 0 := by rw [h.Density, n2, e3, e4, e5]; exact hρ
  have hP0 : specP0 u.Tref u.rho0 u.gamma u.Cv ≠ 0 := by
    unfold specP0 physP0 radConstF
    have := pow_ne_zero 4 hTref
    have := pow_ne_zero 2 hs
    positivity
  have hC0 : specC0 u.Tref u.gamma u.Cv ≠ 0 := by
    unfold specC0 physC0 cLight
    exact div_ne_zero (by norm_num) hs
  rw [attr_ed_phys_energy a hs' hρ' hd' (by rw [h.aGamma]; exact hγ1), h.Density, h.Speed, h.Pressure, h.Fr, n2, n3, n4, n5,
    h.aGamma, h.aCv, e1, e2, e3, e4, e5, e6]
  have key := ed_energy u.gamma (specP0 u.Tref u.rho0 u.gamma u.Cv) (specC0 u.Tref u.gamma u.Cv) u.M0 (RadED.sigma_t q)
    (edRho u.gamma (specP0 u.Tref u.rho0 u.gamma u.Cv) u.M0 q.T) q.T hγ hγ1 hP0 hC0 hσ hρ hT
  generalize edRho u.gamma (specP0 u.Tref u.rho0 u.gamma u.Cv) u.M0 q.T = ρ at *
  generalize edFr (specC0 u.Tref u.gamma u.Cv) u.M0 (RadED.sigma_t q)
    (edDxdT u.gamma (specP0 u.Tref u.rho0 u.gamma u.Cv) (specC0 u.Tref u.gamma u.Cv) u.M0 (RadED.sigma_t q) ρ q.T) ρ q.T = F at *
  unfold energyFlux energyFluxEq hydroEnergyFlux at key
  have e : u.M0 / ρ * (ρ * (u.M0 / ρ) ^ 2 / 2 + ρ * q.T / u.gamma / (u.gamma - 1) + ρ * q.T / u.gamma)
      + specP0 u.Tref u.rho0 u.gamma u.Cv * specC0 u.Tref u.gamma u.Cv * F
      = u.M0 * (1 * u.M0 ^ 2 / 2 + 1 * (1 / u.gamma / (u.gamma - 1)) + 1 * 1 / u.gamma)
        + 4 * specP0 u.Tref u.rho0 u.gamma u.Cv * 1 ^ 4 * u.M0 / 3 := by
    rw [← key]; ring
  rw [e]
  unfold physEnergyFluxEq physEnergyFlux specP0 physP0
  field_simp

/-- non-vacuity: the defaults of `ED_Solver` (M₀ = 1.2, ρ₀ = 1, T_ref = 100, γ = 5/3, σ_A = 577.35, σ_S = 0, exponents 0)
at the upstream node T = 1 -/
example : ∃ u q a, EDChain u q a ∧ soundSpeed u.gamma u.Cv u.Tref ≠ 0 ∧ u.rho0 ≠ 0 ∧ u.Tref ≠ 0 ∧ u.gamma ≠ 0 ∧ u.gamma - 1 ≠ 0 ∧
    q.T / u.gamma ≠ 0 ∧ 0 ≤ edB u.gamma (specP0 u.Tref u.rho0 u.gamma u.Cv) u.M0 q.T ^ 2 - 4 * (q.T / u.gamma) * u.M0 ^ 2 ∧
    edRho u.gamma (specP0 u.Tref u.rho0 u.gamma u.Cv) u.M0 q.T ≠ 0 ∧ RadED.sigma_t q ≠ 0 ∧ q.T ≠ 0 := by
  let u : RadConstED.P := ⟨1447279978445400, 6 / 5, 1, 100, 0, 0, 0, 0, 5 / 3, 1, 11547 / 20, 0⟩
  let q : RadED.P := ⟨RadConstED.f_C0 u, RadConstED.f_M0 u, 1, RadConstED.f_P0 u, 1, 6 / 5, 0, 0, 0, 0, RadConstED.f_gamma u,
    13 / 10, 11547 / 20, 0⟩
  let a : RadAttrED.P := ⟨u.Cv, RadConstED.p_Tref u, u.gamma, RadED.Density1 q, RadED.Fr1 q, 1, RadED.Pressure1 q, RadED.Speed1 q,
    RadED.Tm1 q, RadConstED.p_rho0 u⟩
  have hρ1 : edRho u.gamma (specP0 u.Tref u.rho0 u.gamma u.Cv) u.M0 q.T = 1 :=
    edRho_upstream _ _ _ (by norm_num) (by norm_num)
  have hdisc : edB u.gamma (specP0 u.Tref u.rho0 u.gamma u.Cv) u.M0 q.T ^ 2 - 4 * (q.T / u.gamma) * u.M0 ^ 2
      = (u.M0 ^ 2 - 1 / u.gamma) ^ 2 := by
    unfold edB; show _ = ((6 / 5 : ℝ) ^ 2 - 1 / (5 / 3)) ^ 2; ring
  refine ⟨u, q, a, ⟨rfl, rfl, rfl, rfl, rfl, rfl, rfl, rfl, rfl, rfl, rfl, rfl, rfl⟩, ?_, by norm_num, by norm_num, by norm_num,
    by norm_num, by norm_num, ?_, ?_, ?_, by norm_num⟩
  · unfold soundSpeed
    exact Real.sqrt_ne_zero'.mpr (by norm_num)
  · rw [hdisc]; positivity
  · rw [hρ1]; norm_num
  · rw [ed_sigma_form q]
    show (11547 / 20 : ℝ) * _ ^ (0 : ℝ) * _ ^ (0 : ℝ) + 0 * _ ^ (0 : ℝ) * _ ^ (0 : ℝ) ≠ 0
    simp

/-! ### nodes of a nonequilibrium-diffusion profile -/

/-! ### problem 'LM_nED' -/

theorem lm_fields (p : RadNEDLM.P) :
    RadNEDLM.Speed p = p.M0 / RadNEDLM.Density p ∧
    RadNEDLM.Pressure p = RadNEDLM.Density p * RadNEDLM.Tm p / p.gamma ∧
    RadNEDLM.Er p = p.P / (1 / 3) ∧ RadNEDLM.Tr p = RadNEDLM.Er p ^ ((1 : ℝ) / 4) ∧
    RadNEDLM.Mach p = p.M0 / RadNEDLM.Density p / RadNEDLM.Tm p ^ ((1 : ℝ) / 2) ∧
    RadNEDLM.Density p = nedRho p.gamma p.P0 p.M0 p.P p.M ∧ RadNEDLM.Tm p = nedT p.gamma p.P0 p.M0 p.P p.M := by
  epv_semi_rad_trees [nedRho, nedT]

theorem lm_Fr (p : RadNEDLM.P) :
    RadNEDLM.Fr p = -RadNEDLM.dPdx p / RadNEDLM.sigma_t p + p.M0 / RadNEDLM.Density p / p.C0 * RadNEDLM.F2 p := by
  epv_semi_rad_bigtree

theorem lm_dPdx (p : RadNEDLM.P) :
    RadNEDLM.dPdx p = RadNEDLM.sigma_t p / p.P0 *
      (p.M0 / RadNEDLM.Density p / p.C0 *
          ((1 : ℝ) / 2 * RadNEDLM.Density p * RadNEDLM.Speed p * RadNEDLM.Speed p
            + RadNEDLM.Density p * (RadNEDLM.Tm p / p.gamma / (p.gamma - 1)) + RadNEDLM.Pressure p + p.P0 * RadNEDLM.F2 p)
        - RadNEDLM.beta0 p * (RadNEDLM.Em0 p + p.P0 * RadNEDLM.F20 p)) := by
  epv_semi_rad_bigtree

/-- **F_r is the energy-flux defect (LM_nED)**: at every node (P, M) the total energy flux formed with `rad_flux` equals the
far-field reference C₀β₀(E_m0 + P₀F₂₀) that `dPdx` is pinned to — for every cross section, no use of the ODE -/
theorem lm_energy_node (p : RadNEDLM.P) (hP0 : p.P0 ≠ 0) (hC0 : p.C0 ≠ 0) (hσ : RadNEDLM.sigma_t p ≠ 0)
    (hρ : RadNEDLM.Density p ≠ 0) :
    energyFlux p.gamma p.P0 p.C0 (RadNEDLM.Density p) (RadNEDLM.Tm p) (RadNEDLM.Speed p) (RadNEDLM.Fr p)
      = p.C0 * (RadNEDLM.beta0 p * (RadNEDLM.Em0 p + p.P0 * RadNEDLM.F20 p)) := by
  unfold energyFlux hydroEnergyFlux
  rw [lm_Fr, lm_dPdx, (lm_fields p).2.1, (lm_fields p).1]
  generalize RadNEDLM.Density p = ρ at *
  generalize RadNEDLM.sigma_t p = σ at *
  generalize RadNEDLM.beta0 p * (RadNEDLM.Em0 p + p.P0 * RadNEDLM.F20 p) = K
  generalize RadNEDLM.F2 p = F2
  generalize RadNEDLM.Tm p = T
  field_simp
  ring

/-- ahead of the sonic point (M > 1) that reference is the total energy flux of the upstream equilibrium state (1, 1, M₀) -/
theorem lm_reference_upstream (p : RadNEDLM.P) (hM : 1 < p.M) (hM0 : p.M0 ≠ 0) (hn : p.gamma * (p.M0 * p.M0) + 1 ≠ 0)
    (hC0 : p.C0 ≠ 0) :
    p.C0 * (RadNEDLM.beta0 p * (RadNEDLM.Em0 p + p.P0 * RadNEDLM.F20 p)) = energyFluxEq p.gamma p.P0 1 1 p.M0 := by
  simp only [epv_tree]
  epv_semi_prune
  simp only [epv_leaf, energyFluxEq, hydroEnergyFlux]
  epv_semi_rad_field

/-! ### problem 'nED' -/

theorem ned_fields (p : RadNED.P) :
    RadNED.Speed p = p.M0 / RadNED.Density p ∧
    RadNED.Pressure p = RadNED.Density p * RadNED.Tm p / p.gamma ∧
    RadNED.Er p = p.P / (1 / 3) ∧ RadNED.Tr p = RadNED.Er p ^ ((1 : ℝ) / 4) ∧
    RadNED.Mach p = p.M0 / RadNED.Density p / RadNED.Tm p ^ ((1 : ℝ) / 2) ∧
    RadNED.Density p = nedRho p.gamma p.P0 p.M0 p.P p.M ∧ RadNED.Tm p = nedT p.gamma p.P0 p.M0 p.P p.M := by
  epv_semi_rad_trees [nedRho, nedT]

theorem ned_Fr (p : RadNED.P) :
    RadNED.Fr p = -RadNED.dPdx p / RadNED.sigma_t p + p.M0 / RadNED.Density p / p.C0 * RadNED.F2 p := by
  epv_semi_rad_bigtree

theorem ned_dPdx (p : RadNED.P) :
    RadNED.dPdx p = RadNED.sigma_t p / p.P0 *
      (p.M0 / RadNED.Density p / p.C0 *
          ((1 : ℝ) / 2 * RadNED.Density p * RadNED.Speed p * RadNED.Speed p
            + RadNED.Density p * (RadNED.Tm p / p.gamma / (p.gamma - 1)) + RadNED.Pressure p + p.P0 * RadNED.F2 p)
        - RadNED.beta0 p * (RadNED.Em0 p + p.P0 * RadNED.F20 p)) := by
  epv_semi_rad_bigtree

/-- **F_r is the energy-flux defect (nED)**: at every node (P, M) the total energy flux formed with `rad_flux` equals the
far-field reference C₀β₀(E_m0 + P₀F₂₀) that `dPdx` is pinned to — for every cross section, no use of the ODE -/
theorem ned_energy_node (p : RadNED.P) (hP0 : p.P0 ≠ 0) (hC0 : p.C0 ≠ 0) (hσ : RadNED.sigma_t p ≠ 0)
    (hρ : RadNED.Density p ≠ 0) :
    energyFlux p.gamma p.P0 p.C0 (RadNED.Density p) (RadNED.Tm p) (RadNED.Speed p) (RadNED.Fr p)
      = p.C0 * (RadNED.beta0 p * (RadNED.Em0 p + p.P0 * RadNED.F20 p)) := by
  unfold energyFlux hydroEnergyFlux
  rw [ned_Fr, ned_dPdx, (ned_fields p).2.1, (ned_fields p).1]
  generalize RadNED.Density p = ρ at *
  generalize RadNED.sigma_t p = σ at *
  generalize RadNED.beta0 p * (RadNED.Em0 p + p.P0 * RadNED.F20 p) = K
  generalize RadNED.F2 p = F2
  generalize RadNED.Tm p = T
  field_simp
  ring

/-- ahead of the sonic point (M > 1) that reference is the total energy flux of the upstream equilibrium state (1, 1, M₀) -/
theorem ned_reference_upstream (p : RadNED.P) (hM : 1 < p.M) (hM0 : p.M0 ≠ 0) (hn : p.gamma * (p.M0 * p.M0) + 1 ≠ 0)
    (hC0 : p.C0 ≠ 0) (hσ : p.sigA + p.sigS * p.epsilon ≠ 0) :
    p.C0 * (RadNED.beta0 p * (RadNED.Em0 p + p.P0 * RadNED.F20 p)) = energyFluxEq p.gamma p.P0 1 1 p.M0 := by
  simp only [epv_tree]
  epv_semi_prune
  simp only [epv_leaf, energyFluxEq, hydroEnergyFlux]
  epv_semi_rad_rpow_one
  epv_semi_rad_field

/-! ### physical units: the nonequilibrium-diffusion solver end to end -/

/-- the user `u` (symbolic parameters of `nED_Solver`, problem 'nED'), a node `q` of the profile computed with the constants
the profile object holds for that user, and the public attributes `a` derived from that node with the user's scales -/
structure NEDChain (u : RadConstNED.P) (q : RadNED.P) (a : RadAttrNED.P) : Prop where
  P0 : q.P0 = RadConstNED.f_P0 u
  C0 : q.C0 = RadConstNED.f_C0 u
  M0 : q.M0 = RadConstNED.f_M0 u
  gamma : q.gamma = RadConstNED.f_gamma u
  rho0 : a.rho0 = RadConstNED.p_rho0 u
  Tref : a.Tref = RadConstNED.p_Tref u
  aCv : a.Cv = u.Cv
  aGamma : a.gamma = u.gamma
  Density : a.prof_Density0 = RadNED.Density q
  Speed : a.prof_Speed0 = RadNED.Speed q
  Pressure : a.prof_Pressure0 = RadNED.Pressure q
  Tr : a.prof_Tr0 = RadNED.Tr q
  Fr : a.prof_Fr0 = RadNED.Fr q

/-- **`nED_Solver`, physical units, momentum**: at every node (P ≥ 0, M) of the profile the total momentum flux
ρu² + p + a_rT_r⁴/3 formed from the returned attributes is the upstream one -/
theorem ned_phys_momentum (u : RadConstNED.P) (q : RadNED.P) (a : RadAttrNED.P) (h : NEDChain u q a)
    (hs : soundSpeed u.gamma u.Cv u.Tref ≠ 0) (hρ0 : u.rho0 ≠ 0) (hγ : u.gamma ≠ 0) (hM : q.M ≠ 0) (hM0 : u.M0 ≠ 0)
    (hP : 0 ≤ q.P) (hn : u.gamma * (q.M * q.M) + 1 ≠ 0)
    (hd : u.gamma * (u.M0 * u.M0) + 1 + u.gamma * specP0 u.Tref u.rho0 u.gamma u.Cv * (1 / 3 - q.P) ≠ 0) :
    physMomFlux radConstF (1 / 3) (RadAttrNED.Density a) (RadAttrNED.Speed a) (RadAttrNED.Pressure a) (RadAttrNED.Tr a)
      = physMomFlux radConstF (1 / 3) u.rho0 (u.M0 * soundSpeed u.gamma u.Cv u.Tref)
          (u.rho0 * soundSpeed u.gamma u.Cv u.Tref ^ 2 / u.gamma) u.Tref := by
  have e1 : a.rho0 = u.rho0 := by rw [h.rho0]; exact (Bridge.SemiRad.constNED_copies u).2.2.1
  have e2 : a.Tref = u.Tref := by rw [h.Tref]; exact (Bridge.SemiRad.constNED_copies u).2.2.2
  have e3 : q.M0 = u.M0 := by rw [h.M0]; exact (Bridge.SemiRad.constNED_copies u).1
  have e4 : q.gamma = u.gamma := by rw [h.gamma]; exact (Bridge.SemiRad.constNED_copies u).2.1
  have e5 : q.P0 = specP0 u.Tref u.rho0 u.gamma u.Cv := by
    rw [h.P0]; exact Bridge.SemiRad.constNED_f_P0 u
  have hs' : soundSpeed a.gamma a.Cv a.Tref ≠ 0 := by rw [h.aGamma, h.aCv, e2]; exact hs
  have hρ' : a.rho0 ≠ 0 := by rw [e1]; exact hρ0
  obtain ⟨hR, hm⟩ := attr_ned_phys_momentum a hs' hρ'
  obtain ⟨n1, n2, n3, n4, -, n6, n7⟩ := ned_fields q
  have hTr : RadNED.Tr q ^ 4 = 3 * q.P := by
    rw [n4, n3, ← Real.rpow_natCast, ← Real.rpow_mul (by positivity)]
    norm_num
    ring
  have key := ned_momentum u.gamma (specP0 u.Tref u.rho0 u.gamma u.Cv) u.M0 q.P q.M hγ hM hM0 hn hd
  unfold physMomFlux
  rw [← hR, hm, h.Density, h.Speed, h.Pressure, h.Tr]
  unfold momFluxF
  rw [hTr, n1, n2, n6, n7, e3, e4, e5, h.aGamma, h.aCv, e1, e2]
  generalize nedRho u.gamma (specP0 u.Tref u.rho0 u.gamma u.Cv) u.M0 q.P q.M = ρ at *
  generalize nedT u.gamma (specP0 u.Tref u.rho0 u.gamma u.Cv) u.M0 q.P q.M = T at *
  have : ρ * (u.M0 / ρ) ^ 2 + ρ * T / u.gamma + specP0 u.Tref u.rho0 u.gamma u.Cv * (1 / 3) * (3 * q.P)
      = u.M0 ^ 2 + 1 / u.gamma + specP0 u.Tref u.rho0 u.gamma u.Cv * (1 / 3) := by
    rw [← key]; ring
  rw [this]
  unfold specP0 physP0
  field_simp

/-- **`nED_Solver`, physical units, energy**: at every node ahead of the sonic point (M > 1, the precursor) the total
energy flux u(½ρu² + ρe + p) + F_r formed from the returned attributes is the upstream one -/
theorem ned_phys_energy_precursor (u : RadConstNED.P) (q : RadNED.P) (a : RadAttrNED.P) (h : NEDChain u q a)
    (hs : soundSpeed u.gamma u.Cv u.Tref ≠ 0) (hρ0 : u.rho0 ≠ 0) (hTref : u.Tref ≠ 0) (hγ : u.gamma ≠ 0) (hγ1 : u.gamma - 1 ≠ 0)
    (hM : 1 < q.M) (hM0 : u.M0 ≠ 0) (hn : u.gamma * (u.M0 * u.M0) + 1 ≠ 0) (hσ0 : q.sigA + q.sigS * q.epsilon ≠ 0)
    (hσ : RadNED.sigma_t q ≠ 0) (hρ : RadNED.Density q ≠ 0) :
    physEnergyFlux (RadAttrNED.Density a) (RadAttrNED.Speed a) (RadAttrNED.Pressure a) (RadAttrNED.SIE a)
        (RadAttrNED.sound a * RadAttrNED.Fr a)
      = physEnergyFluxEq radConstF u.rho0 (u.M0 * soundSpeed u.gamma u.Cv u.Tref)
          (u.rho0 * soundSpeed u.gamma u.Cv u.Tref ^ 2 / u.gamma)
          (soundSpeed u.gamma u.Cv u.Tref ^ 2 / (u.gamma * (u.gamma - 1))) u.Tref := by
  have e1 : a.rho0 = u.rho0 := by rw [h.rho0]; exact (Bridge.SemiRad.constNED_copies u).2.2.1
  have e2 : a.Tref = u.Tref := by rw [h.Tref]; exact (Bridge.SemiRad.constNED_copies u).2.2.2
  have e3 : q.M0 = u.M0 := by rw [h.M0]; exact (Bridge.SemiRad.constNED_copies u).1
  have e4 : q.gamma = u.gamma := by rw [h.gamma]; exact (Bridge.SemiRad.constNED_copies u).2.1
  have e5 : q.P0 = specP0 u.Tref u.rho0 u.gamma u.Cv := by
    rw [h.P0]; exact Bridge.SemiRad.constNED_f_P0 u
  have e6 : q.C0 = specC0 u.Tref u.gamma u.Cv := by
    rw [h.C0]; exact Bridge.SemiRad.constNED_f_C0 u
  have hs' : soundSpeed a.gamma a.Cv a.Tref ≠ 0 := by rw [h.aGamma, h.aCv, e2]; exact hs
  have hρ' : a.rho0 ≠ 0 := by rw [e1]; exact hρ0
  have hd' : a.prof_Density0 ≠ 0 := by rw [h.Density]; exact hρ
  have hP0 : q.P0 ≠ 0 := by
    rw [e5]; unfold specP0 physP0 radConstF
    have := pow_ne_zero 4 hTref
    have := pow_ne_zero 2 hs
    positivity
  have hC0 : q.C0 ≠ 0 := by
    rw [e6]; unfold specC0 physC0 cLight
    exact div_ne_zero (by norm_num) hs
  have key := ned_energy_node q hP0 hC0 hσ hρ
  rw [ned_reference_upstream q hM (by rw [e3]; exact hM0) (by rw [e3, e4]; exact hn) hC0 hσ0] at key
  obtain ⟨n1, n2, -, -, -, -, -⟩ := ned_fields q
  rw [attr_ned_phys_energy a hs' hρ' hd' (by rw [h.aGamma]; exact hγ1), h.Density, h.Speed, h.Pressure, h.Fr, h.aGamma, h.aCv,
    e1, e2, ← e5, ← e6]
  unfold energyFlux hydroEnergyFlux at key
  have e : RadNED.Speed q * (RadNED.Density q * RadNED.Speed q ^ 2 / 2 + RadNED.Pressure q / (u.gamma - 1) + RadNED.Pressure q)
      + q.P0 * q.C0 * RadNED.Fr q = energyFluxEq q.gamma q.P0 1 1 q.M0 := by
    rw [← key, n2, e4]; ring
  rw [e, e3, e4, e5]
  unfold energyFluxEq hydroEnergyFlux physEnergyFluxEq physEnergyFlux specP0 physP0
  field_simp

/-- the total cross section of `fnctn_nED.sigma_t` at a node, in terms of the node's density and temperature -/
theorem ned_sigma_form (q : RadNED.P) :
    RadNED.sigma_t q = totalCrossSection q.sigA q.expDensity_abs q.expTemp_abs (q.sigS * q.epsilon) q.expDensity_scat q.expTemp_scat
      (RadNED.Density q) (RadNED.Tm q) := by
  epv_semi_rad_tree [totalCrossSection, crossSection]

/-- non-vacuity: the defaults of `nED_Solver` (M₀ = 1.2, ρ₀ = 1, T_ref = 100, γ = 5/3, σ_A = 577.35, σ_S = 0, ε = 1, exponents 0)
at the upstream node (P, M) = (1/3, M₀) -/
example : ∃ u q a, NEDChain u q a ∧ soundSpeed u.gamma u.Cv u.Tref ≠ 0 ∧ u.rho0 ≠ 0 ∧ u.Tref ≠ 0 ∧ u.gamma ≠ 0 ∧ u.gamma - 1 ≠ 0 ∧
    q.M ≠ 0 ∧ u.M0 ≠ 0 ∧ 0 ≤ q.P ∧ 1 < q.M ∧ u.gamma * (q.M * q.M) + 1 ≠ 0 ∧ u.gamma * (u.M0 * u.M0) + 1 ≠ 0 ∧
    u.gamma * (u.M0 * u.M0) + 1 + u.gamma * specP0 u.Tref u.rho0 u.gamma u.Cv * (1 / 3 - q.P) ≠ 0 ∧
    q.sigA + q.sigS * q.epsilon ≠ 0 ∧ RadNED.sigma_t q ≠ 0 ∧ RadNED.Density q ≠ 0 := by
  -- RadConstNED.P: Cv M M0 P Tref epsilon expDensity_abs expDensity_scat expTemp_abs expTemp_scat gamma rho0 sigA sigS
  let u : RadConstNED.P := ⟨1447279978445400, 6 / 5, 6 / 5, 1 / 3, 100, 1, 0, 0, 0, 0, 5 / 3, 1, 11547 / 20, 0⟩
  -- RadNED.P: C0 M M0 M1 P P0 T1 epsilon expDensity_abs expDensity_scat expTemp_abs expTemp_scat gamma sigA sigS
  let q : RadNED.P := ⟨RadConstNED.f_C0 u, 6 / 5, RadConstNED.f_M0 u, 1, 1 / 3, RadConstNED.f_P0 u, 6 / 5, 1, 0, 0, 0, 0,
    RadConstNED.f_gamma u, 11547 / 20, 0⟩
  -- RadAttrNED.P: Cv Tref gamma prof_Density0 prof_Fr0 prof_Mach0 prof_Pressure0 prof_Speed0 prof_Tm0 prof_Tr0 rho0
  let a : RadAttrNED.P := ⟨u.Cv, RadConstNED.p_Tref u, u.gamma, RadNED.Density q, RadNED.Fr q, 1, RadNED.Pressure q, RadNED.Speed q,
    RadNED.Tm q, RadNED.Tr q, RadConstNED.p_rho0 u⟩
  have hρ : RadNED.Density q = 1 := by
    rw [(ned_fields q).2.2.2.2.2.1]
    show nedRho (5 / 3) _ (6 / 5) (1 / 3) (6 / 5) = 1
    unfold nedRho
    norm_num
  refine ⟨u, q, a, ⟨rfl, rfl, rfl, rfl, rfl, rfl, rfl, rfl, rfl, rfl, rfl, rfl, rfl⟩, ?_, by norm_num, by norm_num, by norm_num,
    by norm_num, by norm_num, by norm_num, by norm_num, by norm_num, by norm_num, by norm_num, ?_, by norm_num, ?_, ?_⟩
  · unfold soundSpeed
    exact Real.sqrt_ne_zero'.mpr (by norm_num)
  · show (5 / 3 : ℝ) * (6 / 5 * (6 / 5)) + 1 + 5 / 3 * _ * (1 / 3 - 1 / 3) ≠ 0
    norm_num
  · rw [ned_sigma_form q]
    show totalCrossSection (11547 / 20) 0 0 (0 * 1) 0 0 _ _ ≠ 0
    unfold totalCrossSection crossSection
    simp
  · rw [hρ]; norm_num

end

end EPV.C12
