/-
C08 (Sedov share) — dimensional consistency of the shock radius, shock speed, post-shock state and
of the similarity argument r/r2.

A change of units (M, L, T) > 0 acts on the parameters with the dimensions the documentation
implies:  ρ = ρ₀ r^(-ω) is a mass density, so [ρ₀] = M L^(ω-3) (depends on ω);  the blast energy is
an energy per unit area / length / a plain energy for geometry 1 / 2 / 3, so [E] = M L^(k-1) T^(-2)
(depends on the geometry);  γ, ω, geometry and the energy integral α are dimensionless.
Then, for every real geometry k and ω with k+2-ω ≠ 0 and positive E/(αρ₀), t:
r2 scales like L, us and u₂ like L/T, ρ₁ and ρ₂ like M/L³, p₂ like M/(L T²), and the similarity
argument r/r2 is invariant — so every returned field ρ₂ g(λ), u₂ f(λ), p₂ h(λ) scales with its
own dimension.  (The absolute tolerances inside scipy's root finder and quadrature are not
scale-free; they live in the atoms.)
-/
import EPV.Lemmas.SedovFields

set_option linter.all false

open EPV EPV.Gen EPV.Sedov

namespace EPV.C08

noncomputable section

/-- the parameters in the new units -/
def scale (M L T : ℝ) (p : SedovShock.P) : SedovShock.P :=
  { p with eblast := p.eblast * (M * L ^ (p.geometry - 1) / T ^ 2),
           rho0 := p.rho0 * (M * L ^ (p.omega - 3)) }

structure Units (M L T : ℝ) : Prop where
  hM : 0 < M
  hL : 0 < L
  hT : 0 < T

/-- r2 has the dimension of a length -/
theorem sedov_r2_scales (p : SedovShock.P) (M L T : ℝ) (U : Units M L T)
    (ha : 0 < p.eblast / (p.alpha * p.rho0)) (hx : p.geometry + 2 - p.omega ≠ 0) {t : ℝ} (ht : 0 < t) :
    SedovShock.r2 (scale M L T p) (T * t) = L * SedovShock.r2 p t := by
  obtain ⟨hM, hL, hT⟩ := U
  rw [r2_eq _ (mul_pos hT ht), r2_eq p ht]
  simp only [scale]
  have hLx : L ^ (p.geometry - 1) = L ^ (p.geometry + 2 - p.omega) * L ^ (p.omega - 3) := by
    rw [← Real.rpow_add hL]; congr 1; ring
  have hLpos : 0 < L ^ (p.omega - 3) := Real.rpow_pos_of_pos hL _
  have hαρ : p.alpha * p.rho0 ≠ 0 := by
    intro h; rw [h, div_zero] at ha; exact lt_irrefl _ ha
  have hα : p.alpha ≠ 0 := left_ne_zero_of_mul hαρ
  have hρ : p.rho0 ≠ 0 := right_ne_zero_of_mul hαρ
  have hquot : p.eblast * (M * L ^ (p.geometry - 1) / T ^ 2) / (p.alpha * (p.rho0 * (M * L ^ (p.omega - 3))))
      = p.eblast / (p.alpha * p.rho0) * (L ^ (p.geometry + 2 - p.omega) * (T ^ 2)⁻¹) := by
    rw [hLx]; field_simp
  rw [hquot]
  have hLX : 0 ≤ L ^ (p.geometry + 2 - p.omega) := (Real.rpow_pos_of_pos hL _).le
  have hT2 : 0 ≤ (T ^ 2)⁻¹ := by positivity
  rw [Real.mul_rpow ha.le (mul_nonneg hLX hT2), Real.mul_rpow hLX hT2, ← Real.rpow_mul hL.le,
    Real.mul_rpow hT.le ht.le, mul_one_div_cancel hx, Real.rpow_one]
  have hTT : ((T ^ 2)⁻¹) ^ (1 / (p.geometry + 2 - p.omega)) * T ^ (2 / (p.geometry + 2 - p.omega)) = 1 := by
    rw [Real.inv_rpow (by positivity), ← Real.rpow_natCast T 2, ← Real.rpow_mul hT.le]
    have e : ((2 : ℕ) : ℝ) * (1 / (p.geometry + 2 - p.omega)) = 2 / (p.geometry + 2 - p.omega) := by
      push_cast; ring
    rw [e, inv_mul_cancel₀ (Real.rpow_pos_of_pos hT _).ne']
  calc (p.eblast / (p.alpha * p.rho0)) ^ (1 / (p.geometry + 2 - p.omega))
        * (L * ((T ^ 2)⁻¹) ^ (1 / (p.geometry + 2 - p.omega)))
        * (T ^ (2 / (p.geometry + 2 - p.omega)) * t ^ (2 / (p.geometry + 2 - p.omega)))
      = L * ((p.eblast / (p.alpha * p.rho0)) ^ (1 / (p.geometry + 2 - p.omega)) * t ^ (2 / (p.geometry + 2 - p.omega)))
        * (((T ^ 2)⁻¹) ^ (1 / (p.geometry + 2 - p.omega)) * T ^ (2 / (p.geometry + 2 - p.omega))) := by ring
    _ = L * ((p.eblast / (p.alpha * p.rho0)) ^ (1 / (p.geometry + 2 - p.omega)) * t ^ (2 / (p.geometry + 2 - p.omega))) := by
        rw [hTT, mul_one]

/-- shock speed, post-shock state: velocity L/T, density M/L³, pressure M/(L T²) -/
theorem sedov_shock_state_scales (p : SedovShock.P) (M L T : ℝ) (U : Units M L T)
    (ha : 0 < p.eblast / (p.alpha * p.rho0)) (hx : p.geometry + 2 - p.omega ≠ 0) {t : ℝ} (ht : 0 < t) :
    SedovShock.us (scale M L T p) (T * t) = L / T * SedovShock.us p t ∧
    SedovShock.u2 (scale M L T p) (T * t) = L / T * SedovShock.u2 p t ∧
    SedovShock.rho1 (scale M L T p) (T * t) = M / L ^ 3 * SedovShock.rho1 p t ∧
    SedovShock.rho2 (scale M L T p) (T * t) = M / L ^ 3 * SedovShock.rho2 p t ∧
    SedovShock.p2 (scale M L T p) (T * t) = M / (L * T ^ 2) * SedovShock.p2 p t := by
  have hr2 := sedov_r2_scales p M L T U ha hx ht
  obtain ⟨hM, hL, hT⟩ := U
  have hTt := mul_pos hT ht
  have hR : 0 < SedovShock.r2 p t := by
    rw [r2_eq p ht]; exact EPV.Lemmas.Sedov.r2_pos _ _ _ ha ht
  have hus : SedovShock.us (scale M L T p) (T * t) = L / T * SedovShock.us p t := by
    rw [us_eq _ hTt, us_eq p ht, hr2]
    simp only [scale]
    field_simp
  have hrho1 : SedovShock.rho1 (scale M L T p) (T * t) = M / L ^ 3 * SedovShock.rho1 p t := by
    rw [rho1_eq _ hTt, rho1_eq p ht, hr2]
    simp only [scale]
    rw [Real.mul_rpow hL.le hR.le]
    have : L ^ (p.omega - 3) * L ^ (-p.omega) = (L ^ 3)⁻¹ := by
      rw [← Real.rpow_add hL, ← Real.rpow_natCast L 3, ← Real.rpow_neg hL.le]; congr 1; push_cast; ring
    calc p.rho0 * (M * L ^ (p.omega - 3)) * (L ^ (-p.omega) * SedovShock.r2 p t ^ (-p.omega))
        = M * (L ^ (p.omega - 3) * L ^ (-p.omega)) * (p.rho0 * SedovShock.r2 p t ^ (-p.omega)) := by ring
      _ = M / L ^ 3 * (p.rho0 * SedovShock.r2 p t ^ (-p.omega)) := by rw [this]; ring
  refine ⟨hus, ?_, hrho1, ?_, ?_⟩
  · rw [u2_eq _ hTt, u2_eq p ht, hus]; simp only [scale]; ring
  · rw [rho2_eq _ hTt, rho2_eq p ht, hrho1]; simp only [scale]; ring
  · rw [p2_eq _ hTt, p2_eq p ht, hrho1, hus]; simp only [scale]; field_simp

/-- the similarity argument λ = r/r2 is dimensionless, so the returned fields
ρ₂ g(λ), u₂ f(λ), p₂ h(λ) scale like a density, a velocity and a pressure -/
theorem sedov_fields_scale (p : SedovShock.P) (M L T : ℝ) (U : Units M L T)
    (ha : 0 < p.eblast / (p.alpha * p.rho0)) (hx : p.geometry + 2 - p.omega ≠ 0) (f g h : ℝ → ℝ)
    {t : ℝ} (ht : 0 < t) (r : ℝ) :
    density (scale M L T p) g (T * t) (L * r) = M / L ^ 3 * density p g t r ∧
    velocity (scale M L T p) f (T * t) (L * r) = L / T * velocity p f t r ∧
    pressure (scale M L T p) h (T * t) (L * r) = M / (L * T ^ 2) * pressure p h t r := by
  obtain ⟨h1, h2, h3, h4, h5⟩ := sedov_shock_state_scales p M L T U ha hx ht
  have hr2 := sedov_r2_scales p M L T U ha hx ht
  have hlam : L * r / (L * SedovShock.r2 p t) = r / SedovShock.r2 p t := by
    rw [mul_div_mul_left _ _ U.hL.ne']
  unfold density velocity pressure
  rw [hr2, hlam, h2, h4, h5]
  exact ⟨by ring, by ring, by ring⟩

/-- non-vacuity: default problem, centimetre-gram-second to metre-kilogram-second -/
example : ∃ (p : SedovShock.P) (M L T : ℝ), Units M L T ∧ 0 < p.eblast / (p.alpha * p.rho0)
    ∧ p.geometry + 2 - p.omega ≠ 0 :=
  ⟨⟨851072/1000000, 851072/1000000, 7/5, 3, 0, 1⟩, 1/1000, 1/100, 1,
    ⟨by norm_num, by norm_num, by norm_num⟩, by norm_num, by norm_num⟩

end

end EPV.C08
