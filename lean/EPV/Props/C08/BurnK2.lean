/-
C08 (burn-time share, Kenamond 2; the table for all four solvers is repeated in each file) — dimensional consistency of Kenamond 1-3 and the DSD cylindrical
expansion: re-expressing every input in other units of length (factor L > 0) and time
(factor T > 0) — positions, radii and detonator locations × L, detonation times × T, detonation
speeds × L/T, the DSD curvature coefficients α (a speed times a length) × L²/T — multiplies
the returned burn time by T, returns the positions × L, and the request is accepted in the new
units exactly when it was in the old ones.

Dimension table (from the parameter help strings and module docstrings):

    Kenamond 1   D: L/T    x_d: L    t_d: T                       burntime: T   position_*: L
    Kenamond 2   R: L   D1, D2: L/T   dets: L   t_d[i]: T         burntime: T   position_*: L
    Kenamond 3   R: L   D: L/T   x_d: L   t_d: T                  burntime: T   position_*: L
    DSD cyl.     r_1, r_2: L   D_CJ_i: L/T   alpha_i: L²/T   t_d: T   burntime: T   position_*: L

Stated on the traced models (all of Kenamond 1-3 in 2-D and 3-D), in coordinates.
-/
import EPV.Lemmas.BurnK2

set_option linter.all false

open EPV EPV.Gen EPV.Spec.Burn EPV.Burn

namespace EPV.C08

/-! ### re-expressed parameter sets -/

noncomputable def K2d2.scale (L T : ℝ) (p : K2d2.P) : K2d2.P :=
  ⟨L / T * p.D1, L / T * p.D2, L * p.R, L * p.a1, L * p.a2, L * p.a4, L * p.a5,
    T * p.td1, T * p.td2, T * p.td3, T * p.td4, T * p.td5⟩
noncomputable def K2d3.scale (L T : ℝ) (p : K2d3.P) : K2d3.P :=
  ⟨L / T * p.D1, L / T * p.D2, L * p.R, L * p.a1, L * p.a2, L * p.a4, L * p.a5,
    T * p.td1, T * p.td2, T * p.td3, T * p.td4, T * p.td5⟩

variable {L T : ℝ}

/-! ### Kenamond 2, 2-D -/

theorem K2d2.scale_adm (hL : 0 < L) (hT : 0 < T) (p : K2d2.P) (h : K2d2.Adm p) : K2d2.Adm (K2d2.scale L T p) := by
  obtain ⟨h0, h2, h3, o1, o2, o4, o5, t1, t2, t4, t5⟩ := h
  have h1 : 0 < p.D1 := h2.trans_le h3
  have hLT : 0 < L / T := div_pos hL hT
  rw [norm_axis2] at o1 o2 o4 o5 t1 t2 t4 t5
  have ha : ∀ a : ℝ, |L * a| = L * |a| := fun a => by rw [abs_mul, abs_of_pos hL]
  have ht : ∀ a td : ℝ, p.td3 + p.R * (1 / p.D1 + 1 / p.D2) - |a| / p.D2 ≤ td →
      T * p.td3 + L * p.R * (1 / (L / T * p.D1) + 1 / (L / T * p.D2)) - L * |a| / (L / T * p.D2) ≤ T * td := by
    intro a td hle
    have e : T * p.td3 + L * p.R * (1 / (L / T * p.D1) + 1 / (L / T * p.D2)) - L * |a| / (L / T * p.D2)
        = T * (p.td3 + p.R * (1 / p.D1 + 1 / p.D2) - |a| / p.D2) := by
      have := h1.ne'; have := h2.ne'; field_simp
    rw [e]; exact mul_le_mul_of_nonneg_left hle hT.le
  refine ⟨mul_pos hL h0, mul_pos hLT h2, mul_le_mul_of_nonneg_left h3 hLT.le, ?_, ?_, ?_, ?_, ?_, ?_, ?_, ?_⟩ <;>
    simp only [K2d2.scale, norm_axis2, ha]
  · exact mul_lt_mul_of_pos_left o1 hL
  · exact mul_lt_mul_of_pos_left o2 hL
  · exact mul_lt_mul_of_pos_left o4 hL
  · exact mul_lt_mul_of_pos_left o5 hL
  · exact ht _ _ t1
  · exact ht _ _ t2
  · exact ht _ _ t4
  · exact ht _ _ t5

theorem K2d2.scale_inv (hL : 0 < L) (hT : 0 < T) (p : K2d2.P) : K2d2.scale L⁻¹ T⁻¹ (K2d2.scale L T p) = p := by
  cases p
  simp only [K2d2.scale, K2d2.P.mk.injEq]
  refine ⟨?_, ?_, ?_, ?_, ?_, ?_, ?_, ?_, ?_, ?_, ?_, ?_⟩ <;> field_simp

/-- accepted in the new units exactly when accepted in the old ones -/
theorem k2d2_adm_scale (hL : 0 < L) (hT : 0 < T) (p : K2d2.P) : K2d2.Adm (K2d2.scale L T p) ↔ K2d2.Adm p :=
  ⟨fun h => by
      have := K2d2.scale_adm (inv_pos.mpr hL) (inv_pos.mpr hT) _ h
      rwa [K2d2.scale_inv hL hT] at this,
   K2d2.scale_adm hL hT p⟩

theorem k2d2_scale (hL : 0 < L) (hT : 0 < T) (p : K2d2.P) (h : K2d2.Adm p) (x y : ℝ) :
    K2d2.burntime (K2d2.scale L T p) (L * x) (L * y) = T * K2d2.burntime p x y := by
  have e1 : K2d2.burntime p x y = K2d2.spec p !₂[x, y] := by simpa using k2d2_eq_spec' p h !₂[x, y]
  have e2 : K2d2.burntime (K2d2.scale L T p) (L * x) (L * y) = K2d2.spec (K2d2.scale L T p) (L • !₂[x, y]) := by
    simpa using k2d2_eq_spec' (K2d2.scale L T p) (K2d2.scale_adm hL hT p h) (L • !₂[x, y])
  have hax : ∀ a : ℝ, axis2 (L * a) = L • axis2 a := fun a => by ext i; fin_cases i <;> simp [axis2]
  rw [e1, e2]
  unfold K2d2.spec
  simp only [K2d2.scale, hax]
  exact k2_scale hL hT _ _ _ _ _ _ _ _ _ _ _ _ _

/-! ### Kenamond 2, 3-D -/

theorem K2d3.scale_adm (hL : 0 < L) (hT : 0 < T) (p : K2d3.P) (h : K2d3.Adm p) : K2d3.Adm (K2d3.scale L T p) := by
  obtain ⟨h0, h2, h3, o1, o2, o4, o5, t1, t2, t4, t5⟩ := h
  have h1 : 0 < p.D1 := h2.trans_le h3
  have hLT : 0 < L / T := div_pos hL hT
  rw [norm_axis3] at o1 o2 o4 o5 t1 t2 t4 t5
  have ha : ∀ a : ℝ, |L * a| = L * |a| := fun a => by rw [abs_mul, abs_of_pos hL]
  have ht : ∀ a td : ℝ, p.td3 + p.R * (1 / p.D1 + 1 / p.D2) - |a| / p.D2 ≤ td →
      T * p.td3 + L * p.R * (1 / (L / T * p.D1) + 1 / (L / T * p.D2)) - L * |a| / (L / T * p.D2) ≤ T * td := by
    intro a td hle
    have e : T * p.td3 + L * p.R * (1 / (L / T * p.D1) + 1 / (L / T * p.D2)) - L * |a| / (L / T * p.D2)
        = T * (p.td3 + p.R * (1 / p.D1 + 1 / p.D2) - |a| / p.D2) := by
      have := h1.ne'; have := h2.ne'; field_simp
    rw [e]; exact mul_le_mul_of_nonneg_left hle hT.le
  refine ⟨mul_pos hL h0, mul_pos hLT h2, mul_le_mul_of_nonneg_left h3 hLT.le, ?_, ?_, ?_, ?_, ?_, ?_, ?_, ?_⟩ <;>
    simp only [K2d3.scale, norm_axis3, ha]
  · exact mul_lt_mul_of_pos_left o1 hL
  · exact mul_lt_mul_of_pos_left o2 hL
  · exact mul_lt_mul_of_pos_left o4 hL
  · exact mul_lt_mul_of_pos_left o5 hL
  · exact ht _ _ t1
  · exact ht _ _ t2
  · exact ht _ _ t4
  · exact ht _ _ t5

theorem K2d3.scale_inv (hL : 0 < L) (hT : 0 < T) (p : K2d3.P) : K2d3.scale L⁻¹ T⁻¹ (K2d3.scale L T p) = p := by
  cases p
  simp only [K2d3.scale, K2d3.P.mk.injEq]
  refine ⟨?_, ?_, ?_, ?_, ?_, ?_, ?_, ?_, ?_, ?_, ?_, ?_⟩ <;> field_simp

/-- accepted in the new units exactly when accepted in the old ones -/
theorem k2d3_adm_scale (hL : 0 < L) (hT : 0 < T) (p : K2d3.P) : K2d3.Adm (K2d3.scale L T p) ↔ K2d3.Adm p :=
  ⟨fun h => by
      have := K2d3.scale_adm (inv_pos.mpr hL) (inv_pos.mpr hT) _ h
      rwa [K2d3.scale_inv hL hT] at this,
   K2d3.scale_adm hL hT p⟩

theorem k2d3_scale (hL : 0 < L) (hT : 0 < T) (p : K2d3.P) (h : K2d3.Adm p) (x y z : ℝ) :
    K2d3.burntime (K2d3.scale L T p) (L * x) (L * y) (L * z) = T * K2d3.burntime p x y z := by
  have e1 : K2d3.burntime p x y z = K2d3.spec p !₂[x, y, z] := by simpa using k2d3_eq_spec' p h !₂[x, y, z]
  have e2 : K2d3.burntime (K2d3.scale L T p) (L * x) (L * y) (L * z) = K2d3.spec (K2d3.scale L T p) (L • !₂[x, y, z]) := by
    simpa using k2d3_eq_spec' (K2d3.scale L T p) (K2d3.scale_adm hL hT p h) (L • !₂[x, y, z])
  have hax : ∀ a : ℝ, axis3 (L * a) = L • axis3 a := fun a => by ext i; fin_cases i <;> simp [axis3]
  rw [e1, e2]
  unfold K2d3.spec
  simp only [K2d3.scale, hax]
  exact k2_scale hL hT _ _ _ _ _ _ _ _ _ _ _ _ _

/-- non-vacuity: default parameters (L = 100: m → cm, T = 10⁶: s → μs) -/
example : K2d2.Adm ⟨2, 1, 3, 10, 5, -5, -10, 2, 1, 0, 1, 2⟩ := by
  refine ⟨by norm_num, by norm_num, by norm_num, ?_, ?_, ?_, ?_, ?_, ?_, ?_, ?_⟩ <;>
    simp only [norm_axis2] <;> norm_num [abs_of_pos, abs_of_neg]

end EPV.C08
