/-
C08 — dimensional consistency of the closed-form hydro solvers.

"If every dimensional input (parameters, positions, time) is re-expressed in a different
consistent system of units, every output field is the original output re-expressed in
those units."

For Noh, Noh2, Noh2Cog and the Coggeshall solvers whose constants are all parameters, and
for EVERY change of units σ = (M, L, T, Θ) > 0, EVERY real parameter set and EVERY request
(r, t) — no positivity hypotheses are needed, `pos_mul_rpow` holds for all real bases —

    field (sp σ p) (L r) (T t) = scale σ d_field (field p r t)      for every returned field,
    leaf  (sp σ p) (L r) (T t) = leaf p r t ,   outcome likewise     (same branch of the tree).

`sp σ` re-expresses each parameter according to the HAND TABLE of its dimension that is
written next to each `…SP` definition, quoted from the solver's docstring.  Common to all
Coggeshall solvers: the equation of state p = Γ ρ T gives [Γ] = L² T⁻² Θ⁻¹; γ, the geometry
flag and the exponents b, α, β are pure numbers; the symbols `a_rad`, `c_light`, `lam0_`,
`alpha_`, `beta_` of the generated structures belong to the derived heat-flux quantity of
C01, are not read by any returned field and are left alone.

EXCLUDED, as the property says ("Coggeshall solutions without built-in radiation
constants"): Cog10, Cog13, Cog14, Cog16 and Cog17 hard-wire `c = 2.997e10` [cm/s] and
`a = 1.3720e+02` [erg cm⁻³ eV⁻⁴] in `_run` and therefore require CGS-eV units.

NOT covariant as they stand (theorem for the part that holds + `finding_…` for the defect):
  * Noh2, Noh2Cog   — the collapse time is the literal 1 (`if t >= 1`, `(1 - t)`): the unit of
                      time is fixed by the problem statement u(r,0) = -r; covariant for M, L.
                      Noh2Cog moreover fixes Γ = 1, so its temperature is an energy per mass.
  * Cog7            — has no input of mass dimension: the coded density is a pure function of
                      τ, R₀, Rᵢ, b and scales like T^(cog7RhoT), not like M L⁻³.
  * Cog20           — the coded shock position u₀(γ-1)/(4a) · t(1-2at)/(1-at) has dimension
                      LENGTH × TIME; each region's fields are covariant, the branch is not.
  * Cog3            — covariant with [b] = T⁻¹, v a pure number; NOT with the dimensions its
                      parameter help strings give (b pure, v a velocity).
-/
import EPV.Gen.Noh
import EPV.Gen.Noh2
import EPV.Gen.Noh2Cog
import EPV.Gen.Cog1
import EPV.Gen.Cog2
import EPV.Gen.Cog3
import EPV.Gen.Cog4
import EPV.Gen.Cog5
import EPV.Gen.Cog6
import EPV.Gen.Cog7
import EPV.Gen.Cog8
import EPV.Gen.Cog9
import EPV.Gen.Cog11
import EPV.Gen.Cog12
import EPV.Gen.Cog18
import EPV.Gen.Cog19
import EPV.Gen.Cog20
import EPV.Gen.Cog21
import EPV.Lemmas.Units
import EPV.Tactics

set_option linter.all false

open EPV EPV.Gen EPV.Spec

namespace EPV.C08

/-- C08 for a solver returning (position, density, velocity, pressure, specific internal energy) -/
def CovariantGas {P : Type} (sp : Scaling → P → P) (A : Scaling → P → ℝ → ℝ → Prop)
    (pos ρ u pr e : P → ℝ → ℝ → ℝ) (leaf : P → ℝ → ℝ → ℕ) (out : P → ℝ → ℝ → EPV.Out) : Prop :=
  UnitCovariant sp pos Dim.length A ∧ UnitCovariant sp ρ Dim.density A ∧ UnitCovariant sp u Dim.velocity A ∧
  UnitCovariant sp pr Dim.pressure A ∧ UnitCovariant sp e Dim.sie A ∧
  SameBranch sp leaf A ∧ SameBranch sp out A

/-- C08 for a Coggeshall solver: (position, density, velocity, temperature, pressure, sie) -/
def CovariantCog {P : Type} (sp : Scaling → P → P) (A : Scaling → P → ℝ → ℝ → Prop)
    (pos ρ u T pr e : P → ℝ → ℝ → ℝ) (leaf : P → ℝ → ℝ → ℕ) (out : P → ℝ → ℝ → EPV.Out) : Prop :=
  UnitCovariant sp pos Dim.length A ∧ UnitCovariant sp ρ Dim.density A ∧ UnitCovariant sp u Dim.velocity A ∧
  UnitCovariant sp T Dim.temperature A ∧ UnitCovariant sp pr Dim.pressure A ∧ UnitCovariant sp e Dim.sie A ∧
  SameBranch sp leaf A ∧ SameBranch sp out A

/-- one field (dimensional analysis of the traced expression) or one branch selector -/
macro "units_field " sp:ident : tactic => `(tactic|
  first
  | (apply IsScaled.iff_eq.mp
     simp only [epv_tree, epv_cond, epv_leaf, $sp:ident, mul_zero, zero_mul, zero_div, mul_one, one_mul]
     units_goal)
  | (simp only [epv_tree, epv_cond, $sp:ident] <;> units_branch))

macro "units_cog " sp:ident : tactic => `(tactic|
  (unfold CovariantCog UnitCovariant SameBranch
   refine ⟨?_, ?_, ?_, ?_, ?_, ?_, ?_, ?_⟩ <;> intro σ p r t _ <;> units_field $sp))

macro "units_gas " sp:ident : tactic => `(tactic|
  (unfold CovariantGas UnitCovariant SameBranch
   refine ⟨?_, ?_, ?_, ?_, ?_, ?_, ?_⟩ <;> intro σ p r t _ <;> units_field $sp))

/-! ### Noh -/

/-- Noh: "rho0: density", "u0: incident velocity (negative)"; γ and the geometry flag are pure numbers -/
noncomputable def nohSP (σ : Scaling) (p : Noh.P) : Noh.P :=
  { p with rho0 := scale σ Dim.density p.rho0, u0 := scale σ Dim.velocity p.u0 }

theorem noh_units : CovariantGas nohSP Everywhere Noh.position Noh.density Noh.velocity Noh.pressure
    Noh.specific_internal_energy Noh.leaf Noh.outcome := by
  units_gas nohSP

/-- a change of units keeps the parameters admissible: u₀ < 0 stays negative -/
theorem noh_units_admissible (σ : Scaling) (p : Noh.P) : (nohSP σ p).u0 < 0 ↔ p.u0 < 0 := by
  simp only [nohSP]
  units

/-! ### Noh2, Noh2Cog: covariant for mass and length; the unit of time is hard-wired -/

/-- changes of units that leave the unit of time alone -/
def FixedTime {P : Type} : Scaling → P → ℝ → ℝ → Prop := fun σ _ _ _ => σ.T = 1

/-- Noh2: "rho0: initial density", "e0: initial internal energy" (per mass) -/
noncomputable def noh2SP (σ : Scaling) (p : Noh2.P) : Noh2.P :=
  { p with rho0 := scale σ Dim.density p.rho0, e0 := scale σ Dim.sie p.e0 }

theorem factor_eq_of_fixedTime {σ : Scaling} (h : σ.T = 1) {d₁ d : Dim}
    (hm : d₁.m = d.m) (hl : d₁.l = d.l) (hθ : d₁.θ = d.θ) : factor σ d₁ = factor σ d := by
  simp only [factor, h, Real.one_rpow, hm, hl, hθ]

theorem IsScaled.cast_factor {σ : Scaling} {d₁ d : Dim} {x' x : ℝ} (h : IsScaled σ d₁ x' x)
    (e : factor σ d₁ = factor σ d) : IsScaled σ d x' x := by
  unfold IsScaled scale at *
  rw [h, e]

/-- dimensional analysis when only the mass-, length- and temperature-exponents have to agree -/
macro "units_fixed_time " h:ident : tactic => `(tactic|
  (refine IsScaled.cast_factor (d₁ := ?_) ?_ (factor_eq_of_fixedTime $h ?_ ?_ ?_)
   rotate_left
   units
   all_goals (simp [Dim.length, Dim.density, Dim.velocity, Dim.pressure, Dim.sie, Dim.temperature] <;> ring)))

macro "units_field_fixed_time " sp:ident h:ident : tactic => `(tactic|
  first
  | (apply IsScaled.iff_eq.mp
     simp only [epv_tree, epv_cond, epv_leaf, $sp:ident, mul_zero, zero_mul, zero_div, mul_one, one_mul, $h:ident]
     first
     | (with_reducible exact IsScaled.zero)
     | units_fixed_time $h)
  | (simp only [epv_tree, epv_cond, $sp:ident, $h:ident, one_mul] <;> units_branch))

/-- **partial**: Noh2 is covariant under every change of the units of mass and length.  Missing from the
property: changes of the unit of time, see `finding_noh2_time_unit`. -/
theorem noh2_units_partial : CovariantGas noh2SP FixedTime Noh2.position Noh2.density Noh2.velocity Noh2.pressure
    Noh2.specific_internal_energy Noh2.leaf Noh2.outcome := by
  unfold CovariantGas UnitCovariant SameBranch
  refine ⟨?_, ?_, ?_, ?_, ?_, ?_, ?_⟩ <;> intro σ p r t h <;> replace h : σ.T = 1 := h <;>
    units_field_fixed_time noh2SP h

/-- non-vacuity: there are changes of units with a fixed unit of time -/
example : ∃ σ : Scaling, σ.T = 1 ∧ σ.M ≠ 1 ∧ σ.L ≠ 1 :=
  ⟨⟨2, 3, 1, 1, by norm_num, by norm_num, by norm_num, by norm_num⟩, rfl, by norm_num, by norm_num⟩

/-- **Finding** (C08 is false for Noh2 as quantified): the collapse time is the literal `1`.  Re-expressing the
default problem at t = 1/2 with a time unit half as long (T = 2) asks for t = 1, which the solver rejects
(`ValueError`) although the original request is valid. -/
theorem finding_noh2_time_unit :
    ¬ SameBranch noh2SP Noh2.outcome (Everywhere : Scaling → Noh2.P → ℝ → ℝ → Prop) := by
  intro h
  have := h ⟨1, 1, 2, 1, by norm_num, by norm_num, by norm_num, by norm_num⟩ ⟨1, 5 / 3, 3, 1⟩ 1 (1 / 2) trivial
  simp only [epv_tree, epv_cond, noh2SP] at this
  norm_num at this
  exact absurd this (by decide)

/-- Noh2Cog (Noh2 through Cog1 with the class constants b = 0, Γ = 1): "rho0: initial density", "e0: initial
internal energy".  Because Γ = 1 is hard-wired, the returned `temperature` T = e₀ (γ-1) (1-t)^(…) is an energy
per mass. -/
noncomputable def noh2cogSP (σ : Scaling) (p : Noh2Cog.P) : Noh2Cog.P :=
  { p with rho0 := scale σ Dim.density p.rho0, e0 := scale σ Dim.sie p.e0 }

/-- **partial**: Noh2Cog is covariant under every change of the units of mass and length, with the returned
`temperature` read as a specific energy (Γ = 1 is a class constant).  Missing: changes of the unit of time
(the literal collapse time 1, as for Noh2) and an independent unit of temperature. -/
theorem noh2cog_units_partial :
    UnitCovariant noh2cogSP Noh2Cog.position Dim.length FixedTime ∧
    UnitCovariant noh2cogSP Noh2Cog.density Dim.density FixedTime ∧
    UnitCovariant noh2cogSP Noh2Cog.velocity Dim.velocity FixedTime ∧
    UnitCovariant noh2cogSP Noh2Cog.temperature Dim.sie FixedTime ∧
    UnitCovariant noh2cogSP Noh2Cog.pressure Dim.pressure FixedTime ∧
    UnitCovariant noh2cogSP Noh2Cog.specific_internal_energy Dim.sie FixedTime ∧
    SameBranch noh2cogSP Noh2Cog.leaf FixedTime ∧ SameBranch noh2cogSP Noh2Cog.outcome FixedTime := by
  unfold UnitCovariant SameBranch
  refine ⟨?_, ?_, ?_, ?_, ?_, ?_, ?_, ?_⟩ <;> intro σ p r t h <;> replace h : σ.T = 1 := h <;>
    units_field_fixed_time noh2cogSP h

/-- **Finding**: the same hard-wired collapse time in Noh2Cog -/
theorem finding_noh2cog_time_unit :
    ¬ SameBranch noh2cogSP Noh2Cog.outcome (Everywhere : Scaling → Noh2Cog.P → ℝ → ℝ → Prop) := by
  intro h
  have := h ⟨1, 1, 2, 1, by norm_num, by norm_num, by norm_num, by norm_num⟩ ⟨1, 5 / 3, 3, 1⟩ 1 (1 / 2) trivial
  simp only [epv_tree, epv_cond, noh2cogSP] at this
  norm_num at this
  exact absurd this (by decide)

/-! ### Coggeshall solutions whose constants are all parameters -/

/-- Cog1: ρ = ρ₀ r^b t^(-b-k-1),  T = T₀ r^(-b) t^(b-(γ-1)(k+1))  ⇒  [ρ₀] = [ρ] L^(-b) T^(b+k+1),  [T₀] = Θ L^b T^(-(b-(γ-1)(k+1))) -/
noncomputable def cog1SP (σ : Scaling) (p : Cog1.P) : Cog1.P :=
  { p with
    Gamma := scale σ Dim.gruneisen p.Gamma
    rho0 := scale σ ⟨1, -3 - p.b, p.b + (p.geometry - 1) + 1, 0⟩ p.rho0
    temp0 := scale σ ⟨0, p.b, -(p.b - (p.gamma - 1) * ((p.geometry - 1) + 1)), 1⟩ p.temp0 }

theorem cog1_units : CovariantCog cog1SP Everywhere Cog1.position Cog1.density Cog1.velocity Cog1.temperature
    Cog1.pressure Cog1.specific_internal_energy Cog1.leaf Cog1.outcome := by
  units_cog cog1SP

/-- Cog2: ρ = ρ₀ r^b t^(c₂), c₂ = -2(b+k+1)/[2+(γ-1)(k+1)]  ⇒  [ρ₀] = [ρ] L^(-b) T^(-c₂);  u, T are built from r/t and Γ only -/
noncomputable def cog2SP (σ : Scaling) (p : Cog2.P) : Cog2.P :=
  { p with
    Gamma := scale σ Dim.gruneisen p.Gamma
    rho0 := scale σ ⟨1, -3 - p.b, -((-2 * (p.b + (p.geometry - 1) + 1)) / (2 + (p.gamma - 1) * ((p.geometry - 1) + 1))), 0⟩ p.rho0 }

theorem cog2_units : CovariantCog cog2SP Everywhere Cog2.position Cog2.density Cog2.velocity Cog2.temperature
    Cog2.pressure Cog2.specific_internal_energy Cog2.leaf Cog2.outcome := by
  units_cog cog2SP

/-- Cog3: ρ = ρ₀ r^(v-k-1) e^(b t),  u = -(b/v) r,  T = b² r² / (v² Γ (k-v-1)):  the exponent b t must be a pure number, so
[b] = T⁻¹, and v is an exponent, so it is a pure number;  [ρ₀] = [ρ] L^(-(v-k-1)).  (The parameter help strings say
"b: free dimensionless parameter", "v: free parameter with dimensions of velocity" — see `finding_cog3_documented_dimensions`.) -/
noncomputable def cog3SP (σ : Scaling) (p : Cog3.P) : Cog3.P :=
  { p with
    Gamma := scale σ Dim.gruneisen p.Gamma
    b := scale σ Dim.rate p.b
    rho0 := scale σ ⟨1, -3 - (p.v - (p.geometry - 1) - 1), 0, 0⟩ p.rho0 }

theorem cog3_units : CovariantCog cog3SP Everywhere Cog3.position Cog3.density Cog3.velocity Cog3.temperature
    Cog3.pressure Cog3.specific_internal_energy Cog3.leaf Cog3.outcome := by
  units_cog cog3SP

/-- Cog4: ρ = ρ₀ r^(-2k/(γ+1)),  u = u₀ r^(-k(γ-1)/(γ+1))  ⇒  [ρ₀] = [ρ] L^(2k/(γ+1)),  [u₀] = L T⁻¹ L^(k(γ-1)/(γ+1)) -/
noncomputable def cog4SP (σ : Scaling) (p : Cog4.P) : Cog4.P :=
  { p with
    Gamma := scale σ Dim.gruneisen p.Gamma
    rho0 := scale σ ⟨1, -3 - 2 * (-(p.geometry - 1) / (p.gamma + 1)), 0, 0⟩ p.rho0
    u0 := scale σ ⟨0, 1 - (-(p.geometry - 1) * (p.gamma - 1)) / (p.gamma + 1), -1, 0⟩ p.u0 }

theorem cog4_units : CovariantCog cog4SP Everywhere Cog4.position Cog4.density Cog4.velocity Cog4.temperature
    Cog4.pressure Cog4.specific_internal_energy Cog4.leaf Cog4.outcome := by
  units_cog cog4SP

/-- Cog5: ρ = ρ₀ r⁻²,  u = u₀ t,  T = u₀ r / Γ  ⇒  [ρ₀] = M L⁻¹,  [u₀] = L T⁻² -/
noncomputable def cog5SP (σ : Scaling) (p : Cog5.P) : Cog5.P :=
  { p with
    Gamma := scale σ Dim.gruneisen p.Gamma
    rho0 := scale σ ⟨1, -1, 0, 0⟩ p.rho0
    u0 := scale σ ⟨0, 1, -2, 0⟩ p.u0 }

theorem cog5_units : CovariantCog cog5SP Everywhere Cog5.position Cog5.density Cog5.velocity Cog5.temperature
    Cog5.pressure Cog5.specific_internal_energy Cog5.leaf Cog5.outcome := by
  units_cog cog5SP

/-- Cog6: ρ = ρ₀ r^b / (τ²-t²)^((k+1+b)/2)  ⇒  [ρ₀] = [ρ] L^(-b) T^(k+1+b);  "tau: free parameter with dimensions of time" -/
noncomputable def cog6SP (σ : Scaling) (p : Cog6.P) : Cog6.P :=
  { p with
    Gamma := scale σ Dim.gruneisen p.Gamma
    tau := scale σ Dim.time p.tau
    rho0 := scale σ ⟨1, -3 - p.b, (p.geometry - 1) + 1 + p.b, 0⟩ p.rho0 }

theorem cog6_units : CovariantCog cog6SP Everywhere Cog6.position Cog6.density Cog6.velocity Cog6.temperature
    Cog6.pressure Cog6.specific_internal_energy Cog6.leaf Cog6.outcome := by
  units_cog cog6SP

/-- Cog8: ρ = ρ₀ r^(c₁) t^(-(k+1)-c₁),  T = T₀ r^(-c₁) t^((1-γ)(k+1)+c₁),  c₁ = (k-1)/(β-α+4);  α, β "dimensionless" -/
noncomputable def cog8SP (σ : Scaling) (p : Cog8.P) : Cog8.P :=
  { p with
    Gamma := scale σ Dim.gruneisen p.Gamma
    rho0 := scale σ ⟨1, -3 - ((p.geometry - 1) - 1) / (p.beta - p.alpha + 4), ((p.geometry - 1) + 1) + ((p.geometry - 1) - 1) / (p.beta - p.alpha + 4), 0⟩ p.rho0
    temp0 := scale σ ⟨0, ((p.geometry - 1) - 1) / (p.beta - p.alpha + 4), -((1 - p.gamma) * ((p.geometry - 1) + 1) + ((p.geometry - 1) - 1) / (p.beta - p.alpha + 4)), 1⟩ p.temp0 }

theorem cog8_units : CovariantCog cog8SP Everywhere Cog8.position Cog8.density Cog8.velocity Cog8.temperature
    Cog8.pressure Cog8.specific_internal_energy Cog8.leaf Cog8.outcome := by
  units_cog cog8SP

/-- Cog9: ρ = ρ₀ r^(-(2β+k+7)/α) t^(c₄),  c₄ = -2[α(k+1)-2β-k-7]/(α[2+(γ-1)(k+1)])  ⇒  [ρ₀] = [ρ] L^((2β+k+7)/α) T^(-c₄) -/
noncomputable def cog9SP (σ : Scaling) (p : Cog9.P) : Cog9.P :=
  { p with
    Gamma := scale σ Dim.gruneisen p.Gamma
    rho0 := scale σ ⟨1, -3 - (-(2 * p.beta + (p.geometry - 1) + 7)) / p.alpha,
      -(((-2 * (p.alpha * ((p.geometry - 1) + 1) - (2 * p.beta + (p.geometry - 1) + 7))) / p.alpha) / (2 + (p.gamma - 1) * ((p.geometry - 1) + 1))), 0⟩ p.rho0 }

theorem cog9_units : CovariantCog cog9SP Everywhere Cog9.position Cog9.density Cog9.velocity Cog9.temperature
    Cog9.pressure Cog9.specific_internal_energy Cog9.leaf Cog9.outcome := by
  units_cog cog9SP

/-- Cog11: ρ = ρ₀ r^((γ-1)(k+1)-2) t^(1-k-(γ-1)(k+1)),  T = T₀ r^(2-(γ-1)(k+1)) t⁻² -/
noncomputable def cog11SP (σ : Scaling) (p : Cog11.P) : Cog11.P :=
  { p with
    Gamma := scale σ Dim.gruneisen p.Gamma
    rho0 := scale σ ⟨1, -3 - ((p.gamma - 1) * ((p.geometry - 1) + 1) - 2), -(1 - (p.geometry - 1) - (p.gamma - 1) * ((p.geometry - 1) + 1)), 0⟩ p.rho0
    temp0 := scale σ ⟨0, -(2 - (p.gamma - 1) * ((p.geometry - 1) + 1)), 2, 1⟩ p.temp0 }

theorem cog11_units : CovariantCog cog11SP Everywhere Cog11.position Cog11.density Cog11.velocity Cog11.temperature
    Cog11.pressure Cog11.specific_internal_energy Cog11.leaf Cog11.outcome := by
  units_cog cog11SP

/-- Cog12: ρ = ρ₀ r^(-2k/(γ+1)),  u = u₀ r^(k(1-γ)/(1+γ))  (no radiation constant enters the returned fields) -/
noncomputable def cog12SP (σ : Scaling) (p : Cog12.P) : Cog12.P :=
  { p with
    Gamma := scale σ Dim.gruneisen p.Gamma
    rho0 := scale σ ⟨1, -3 - (-2 * (p.geometry - 1)) / (p.gamma + 1), 0, 0⟩ p.rho0
    u0 := scale σ ⟨0, 1 - ((p.geometry - 1) * (1 - p.gamma)) / (1 + p.gamma), -1, 0⟩ p.u0 }

theorem cog12_units : CovariantCog cog12SP Everywhere Cog12.position Cog12.density Cog12.velocity Cog12.temperature
    Cog12.pressure Cog12.specific_internal_energy Cog12.leaf Cog12.outcome := by
  units_cog cog12SP

/-- Cog18: ρ = ρ₀ r^(c₁) (τ²-t²)^(c₃),  c₁ = -(2β+k+7)/α,  c₃ = -(k+1)/2 - c₁/2;  "tau: free parameter of dimension time" -/
noncomputable def cog18SP (σ : Scaling) (p : Cog18.P) : Cog18.P :=
  { p with
    Gamma := scale σ Dim.gruneisen p.Gamma
    tau := scale σ Dim.time p.tau
    rho0 := scale σ ⟨1, -3 - (-(2 * p.beta + (p.geometry - 1) + 7)) / p.alpha,
      -2 * ((-((p.geometry - 1) + 1)) / 2 - ((-(2 * p.beta + (p.geometry - 1) + 7)) / p.alpha) / 2), 0⟩ p.rho0 }

theorem cog18_units : CovariantCog cog18SP Everywhere Cog18.position Cog18.density Cog18.velocity Cog18.temperature
    Cog18.pressure Cog18.specific_internal_energy Cog18.leaf Cog18.outcome := by
  units_cog cog18SP

/-- Cog19: ρ₀ is a density, u₀ a velocity; shock at R = -(γ-1) u₀ t / 2 -/
noncomputable def cog19SP (σ : Scaling) (p : Cog19.P) : Cog19.P :=
  { p with
    Gamma := scale σ Dim.gruneisen p.Gamma
    rho0 := scale σ Dim.density p.rho0
    u0 := scale σ Dim.velocity p.u0 }

theorem cog19_units : CovariantCog cog19SP Everywhere Cog19.position Cog19.density Cog19.velocity Cog19.temperature
    Cog19.pressure Cog19.specific_internal_energy Cog19.leaf Cog19.outcome := by
  units_cog cog19SP

/-- Cog21: ρ = (3/2) ρ₀ r⁻³,  T = T₀ r³,  shock at 2/(Γ T₀ t²)  ⇒  [ρ₀] = M,  [T₀] = Θ L⁻³ -/
noncomputable def cog21SP (σ : Scaling) (p : Cog21.P) : Cog21.P :=
  { p with
    Gamma := scale σ Dim.gruneisen p.Gamma
    rho0 := scale σ Dim.mass p.rho0
    temp0 := scale σ ⟨0, -3, 0, 1⟩ p.temp0 }

theorem cog21_units : CovariantCog cog21SP Everywhere Cog21.position Cog21.density Cog21.velocity Cog21.temperature
    Cog21.pressure Cog21.specific_internal_energy Cog21.leaf Cog21.outcome := by
  units_cog cog21SP

/-! ### Cog3: the documented dimensions of `b` and `v` are not the ones the formulas have -/

/-- Cog3 with the dimensions its parameter help strings state: "b: free dimensionless parameter",
"v: free parameter with dimensions of velocity" -/
noncomputable def cog3DocSP (σ : Scaling) (p : Cog3.P) : Cog3.P :=
  { p with
    Gamma := scale σ Dim.gruneisen p.Gamma
    v := scale σ Dim.velocity p.v
    rho0 := scale σ ⟨1, -3 - (p.v - (p.geometry - 1) - 1), 0, 0⟩ p.rho0 }

/-- **Finding** (documentation): with the documented dimensions of b and v the velocity u = -(b/v) r is not
covariant — doubling the unit of length (b = v = 1, r = 1) leaves the returned number at -1 instead of -2.
`cog3_units` shows the formulas are consistent with [b] = T⁻¹ and v a pure number instead. -/
theorem finding_cog3_documented_dimensions :
    ¬ UnitCovariant cog3DocSP Cog3.velocity Dim.velocity (Everywhere : Scaling → Cog3.P → ℝ → ℝ → Prop) := by
  intro h
  have := h ⟨1, 2, 1, 1, by norm_num, by norm_num, by norm_num, by norm_num⟩
    ⟨40, 0, 0, 1, 0, 0, 3, 0, 1, 1⟩ 1 0 trivial
  simp [epv_tree, epv_leaf, cog3DocSP, scale, factor, Dim.velocity, Dim.gruneisen] at this <;> norm_num at this

/-! ### Cog7: no input carries a mass -/

/-- Cog7: "tau: free parameter" (it is subtracted from t: a time), "R0, Ri: free parameter with dimensions of
length".  "Free parameters: b, k, τ, R₀, Rᵢ and Γ" — there is no density coefficient. -/
noncomputable def cog7SP (σ : Scaling) (p : Cog7.P) : Cog7.P :=
  { p with
    Gamma := scale σ Dim.gruneisen p.Gamma
    tau := scale σ Dim.time p.tau
    R0 := scale σ Dim.length p.R0
    Ri := scale σ Dim.length p.Ri }

/-- γ of Cog7 as the code computes it, (k+3)/(k+1) -/
noncomputable def cog7Gamma (p : Cog7.P) : ℝ := ((p.geometry - 1) + 3) / ((p.geometry - 1) + 1)

/-- the time exponent of the coded Cog7 density, c₅ - c₃ - c₁ c₂ in the notation of `_run`;
it is -1, -1, 0 for geometry = 1, 2, 3 (`cog7RhoT_values`) -/
noncomputable def cog7RhoT (p : Cog7.P) : ℝ :=
  ((((p.geometry - 1) + 1) * cog7Gamma p - 1 - p.b) / (cog7Gamma p - 1))
    - (((p.geometry - 1) + 1) - p.b / cog7Gamma p)
    - (2 - p.b / cog7Gamma p) * (1 / (cog7Gamma p - 1))

theorem cog7RhoT_values (p : Cog7.P) :
    (p.geometry = 1 → cog7RhoT p = -1) ∧ (p.geometry = 2 → cog7RhoT p = -1) ∧ (p.geometry = 3 → cog7RhoT p = 0) := by
  refine ⟨fun h => ?_, fun h => ?_, fun h => ?_⟩ <;> simp only [cog7RhoT, cog7Gamma, h] <;> norm_num <;> ring

/-- the dimension the coded Cog7 density really has: T^(cog7RhoT), no mass, no length -/
theorem cog7_density_dimension (σ : Scaling) (p : Cog7.P) (r t : ℝ) :
    Cog7.density (cog7SP σ p) (σ.L * r) (σ.T * t) = scale σ ⟨0, 0, cog7RhoT p, 0⟩ (Cog7.density p r t) := by
  apply IsScaled.iff_eq.mp
  simp only [epv_tree, epv_cond, epv_leaf, cog7SP, mul_zero, zero_mul, zero_div, mul_one, one_mul, cog7RhoT, cog7Gamma]
  units_goal

theorem cog7_pressure_dimension (σ : Scaling) (p : Cog7.P) (r t : ℝ) :
    Cog7.pressure (cog7SP σ p) (σ.L * r) (σ.T * t) = scale σ ⟨0, 2, -2 + cog7RhoT p, 0⟩ (Cog7.pressure p r t) := by
  apply IsScaled.iff_eq.mp
  simp only [epv_tree, epv_cond, epv_leaf, cog7SP, mul_zero, zero_mul, zero_div, mul_one, one_mul, cog7RhoT, cog7Gamma]
  units_goal

/-- changes of units in which the unit of density is tied to the unit of time the way the coded Cog7
normalisation demands: M L⁻³ = T^(cog7RhoT) -/
def Cog7Tied : Scaling → Cog7.P → ℝ → ℝ → Prop := fun σ p _ _ => σ.M = σ.L ^ (3 : ℝ) * σ.T ^ cog7RhoT p

theorem cog7_factor_tied {σ : Scaling} {p : Cog7.P} {r t : ℝ} (h : Cog7Tied σ p r t) (l τ : ℝ) :
    factor σ ⟨0, l, τ + cog7RhoT p, 0⟩ = factor σ ⟨1, l - 3, τ, 0⟩ := by
  have h : σ.M = σ.L ^ (3 : ℝ) * σ.T ^ cog7RhoT p := h
  simp only [factor, Real.rpow_zero, Real.rpow_one, one_mul, mul_one, h, Real.rpow_add σ.hT, Real.rpow_sub σ.hL]
  have := (Real.rpow_pos_of_pos σ.hL 3).ne'
  field_simp

/-- **partial**: Cog7 position, velocity, temperature and specific internal energy are covariant under every
change of units and the branch is invariant; density and pressure are covariant only when the unit of density
is tied to the unit of time (`Cog7Tied`).  Missing from the property: independent changes of the unit of mass,
see `finding_cog7_no_mass_scale`. -/
theorem cog7_units_partial :
    UnitCovariant cog7SP Cog7.position Dim.length Everywhere ∧
    UnitCovariant cog7SP Cog7.velocity Dim.velocity Everywhere ∧
    UnitCovariant cog7SP Cog7.temperature Dim.temperature Everywhere ∧
    UnitCovariant cog7SP Cog7.specific_internal_energy Dim.sie Everywhere ∧
    SameBranch cog7SP Cog7.leaf Everywhere ∧ SameBranch cog7SP Cog7.outcome Everywhere ∧
    UnitCovariant cog7SP Cog7.density Dim.density Cog7Tied ∧
    UnitCovariant cog7SP Cog7.pressure Dim.pressure Cog7Tied := by
  unfold UnitCovariant SameBranch
  refine ⟨?_, ?_, ?_, ?_, ?_, ?_, ?_, ?_⟩ <;> intro σ p r t h
  · units_field cog7SP
  · units_field cog7SP
  · units_field cog7SP
  · units_field cog7SP
  · units_field cog7SP
  · units_field cog7SP
  · rw [cog7_density_dimension, scale, scale]
    have := cog7_factor_tied h 0 0
    simp only [zero_add, zero_sub] at this
    rw [this]; rfl
  · rw [cog7_pressure_dimension, scale, scale]
    have := cog7_factor_tied h 2 (-2)
    norm_num at this
    rw [this]; rfl

/-- non-vacuity: tied changes of units exist for every parameter set -/
example (p : Cog7.P) : ∃ σ : Scaling, Cog7Tied σ p 0 0 ∧ σ.T ≠ 1 :=
  ⟨⟨(1 : ℝ) ^ (3 : ℝ) * (2 : ℝ) ^ cog7RhoT p, 1, 2, 1, by positivity, by norm_num, by norm_num, by norm_num⟩,
    rfl, by norm_num⟩

/-- **Finding** (C08 is false for Cog7 as quantified): a pure change of the unit of mass (M = 2) changes no
input of Cog7, so the returned density cannot double.  Witness: b = 0, spherical, τ = 1, R₀ = 2, Rᵢ = 1, Γ = 1
at r = 2, t = 3/5, where the density is positive. -/
theorem finding_cog7_no_mass_scale :
    ¬ UnitCovariant cog7SP Cog7.density Dim.density (Everywhere : Scaling → Cog7.P → ℝ → ℝ → Prop) := by
  intro h
  have h1 := h ⟨2, 1, 1, 1, by norm_num, by norm_num, by norm_num, by norm_num⟩
    ⟨1, 2, 1, 0, 0, 0, 0, 0, 3, 0, 1⟩ 2 (3 / 5) trivial
  rw [cog7_density_dimension] at h1
  simp only [scale, factor, Dim.density, Real.one_rpow, Real.rpow_one, Real.rpow_zero, mul_one, one_mul] at h1
  have hpos : 0 < Cog7.density ⟨1, 2, 1, 0, 0, 0, 0, 0, 3, 0, 1⟩ 2 (3 / 5) := by
    simp only [epv_tree, epv_cond, epv_leaf]
    split_ifs with hc
    · norm_num at hc
    norm_num
    positivity
  linarith

/-! ### Cog20: the coded shock position is a length × time -/

/-- Cog20: "a: free parameter with dimensions of inverse time"; ρ₀ a density, u₀ a velocity -/
noncomputable def cog20SP (σ : Scaling) (p : Cog20.P) : Cog20.P :=
  { p with
    Gamma := scale σ Dim.gruneisen p.Gamma
    rho0 := scale σ Dim.density p.rho0
    u0 := scale σ Dim.velocity p.u0
    a := scale σ Dim.rate p.a }

/-- requests for which the re-expressed request happens to fall into the same region -/
def Cog20SameRegion : Scaling → Cog20.P → ℝ → ℝ → Prop :=
  fun σ p r t => Cog20.leaf (cog20SP σ p) (σ.L * r) (σ.T * t) = Cog20.leaf p r t

macro "units_field_cog20" : tactic => `(tactic|
  (apply IsScaled.iff_eq.mp
   simp only [epv_tree]
   split_ifs at * <;>
   first
   | (exact absurd (by assumption : (0 : ℕ) = 1) (by decide))
   | (exact absurd (by assumption : (1 : ℕ) = 0) (by decide))
   | (simp only [epv_cond, epv_leaf, cog20SP, mul_zero, zero_mul, zero_div, mul_one, one_mul]
      units_goal)))

/-- **partial**: inside each of its two regions every Cog20 field is covariant.  Missing from the property:
the region itself is not invariant, see `finding_cog20_shock_position`. -/
theorem cog20_units_partial :
    UnitCovariant cog20SP Cog20.position Dim.length Cog20SameRegion ∧
    UnitCovariant cog20SP Cog20.density Dim.density Cog20SameRegion ∧
    UnitCovariant cog20SP Cog20.velocity Dim.velocity Cog20SameRegion ∧
    UnitCovariant cog20SP Cog20.temperature Dim.temperature Cog20SameRegion ∧
    UnitCovariant cog20SP Cog20.pressure Dim.pressure Cog20SameRegion ∧
    UnitCovariant cog20SP Cog20.specific_internal_energy Dim.sie Cog20SameRegion := by
  unfold UnitCovariant
  refine ⟨?_, ?_, ?_, ?_, ?_, ?_⟩ <;> intro σ p r t h <;> simp only [Cog20SameRegion, epv_tree] at h <;>
    units_field_cog20

/-- non-vacuity: a change of the units of mass, length and temperature that keeps a point in its region -/
example : Cog20SameRegion ⟨2, 3, 1, 5, by norm_num, by norm_num, by norm_num, by norm_num⟩
    ⟨1, 1 / 4, 0, 0, 0, 0, 3, 3, 0, 1, 1⟩ 2 1 := by
  simp only [Cog20SameRegion, epv_tree, epv_cond, cog20SP, scale, factor, Dim.velocity, Dim.rate, Real.one_rpow,
    Real.rpow_one, Real.rpow_zero, Real.rpow_neg_one, mul_one, one_mul]
  norm_num

/-- **Finding** (C08 is false for Cog20): the coded shock position `u0 (γ-1)/(4a) · t (1-2at)/(1-at)` is a
length times a time, so a change of the unit of time moves a point across the shock.  Witness: γ = 3, u₀ = 1,
a = 1/4, r = 2, t = 1 lies outside the shock (R = 4/3); with a time unit half as long (T = 2: u₀ = 1/2, a = 1/8,
t = 2) the same point lies inside (R = 8/3). -/
theorem finding_cog20_shock_position :
    ¬ SameBranch cog20SP Cog20.leaf (Everywhere : Scaling → Cog20.P → ℝ → ℝ → Prop) := by
  intro h
  have := h ⟨1, 1, 2, 1, by norm_num, by norm_num, by norm_num, by norm_num⟩
    ⟨1, 1 / 4, 0, 0, 0, 0, 3, 3, 0, 1, 1⟩ 2 1 trivial
  simp only [epv_tree, epv_cond, cog20SP, scale, factor, Dim.velocity, Dim.rate, Real.one_rpow, Real.rpow_one,
    Real.rpow_zero, Real.rpow_neg_one, mul_one, one_mul] at this
  norm_num at this

end EPV.C08
