/-
C08 — dimensional consistency of the closed-form hydro solvers.

"If every dimensional input (parameters, positions, time) is re-expressed in a different
consistent system of units, every output field is the original output re-expressed in
those units."

For Noh, Noh2, Noh2Cog and the Coggeshall solvers whose constants are all parameters, and
for EVERY change of units σ = (M, L, T, Θ) > 0, EVERY real parameter set and EVERY request
(r, t) — no positivity hypotheses are needed, `pos_mul_rpow` holds for all real bases —

    field (sp σ p) (L r) (T t) = scale σ d_field (field p r t)      for every returned field,
    leaf  (sp σ p) (L r) (T t) = leaf p r t ,   outcome likewise     (same branch of the tree).

`sp σ` re-expresses each parameter according to the HAND TABLE of its dimension
(`EPV/Spec/UnitsHydro.lean`, quoted from the solver's docstring).  Common to all
Coggeshall solvers: the equation of state p = Γ ρ T gives [Γ] = L² T⁻² Θ⁻¹; γ, the geometry
flag and the exponents b, α, β are pure numbers; the symbols `a_rad`, `c_light`, `lam0_`,
`alpha_`, `beta_` of the generated structures belong to the derived heat-flux quantity of
C01, are not read by any returned field and are left alone.

EXCLUDED, as the property says ("Coggeshall solutions without built-in radiation
constants"): Cog10, Cog13, Cog14, Cog16 and Cog17 hard-wire `c = 2.997e10` [cm/s] and
`a = 1.3720e+02` [erg cm⁻³ eV⁻⁴] in `_run` and therefore require CGS-eV units.

NOT covariant as they stand (theorem for the part that holds + `finding_…` for the defect, one
module `Finding<Solver>.lean` each, so that a repair of one defect breaks only its own module):
  * Noh2, Noh2Cog   — the collapse time is the literal 1 (`if t >= 1`, `(1 - t)`): the unit of
                      time is fixed by the problem statement u(r,0) = -r; covariant for M, L.
                      Noh2Cog moreover fixes Γ = 1, so its temperature is an energy per mass.
  * Cog7            — has no input of mass dimension: the coded density is a pure function of
                      τ, R₀, Rᵢ, b and scales like T^(cog7RhoT), not like M L⁻³.
  * Cog20           — the coded shock position u₀(γ-1)/(4a) · t(1-2at)/(1-at) has dimension
                      LENGTH × TIME; each region's fields are covariant, the branch is not.
  * Cog3            — covariant with [b] = T⁻¹, v a pure number; NOT with the dimensions its
                      parameter help strings give (b pure, v a velocity).
-/
import EPV.Gen.Noh
import EPV.Gen.Cog1
import EPV.Gen.Cog2
import EPV.Gen.Cog3
import EPV.Gen.Cog4
import EPV.Gen.Cog5
import EPV.Gen.Cog6
import EPV.Gen.Cog8
import EPV.Gen.Cog9
import EPV.Gen.Cog11
import EPV.Gen.Cog12
import EPV.Gen.Cog18
import EPV.Gen.Cog19
import EPV.Gen.Cog21
import EPV.Lemmas.UnitsHydro
import EPV.Lemmas.HydroUnitsRobust

set_option linter.all false

open EPV EPV.Gen EPV.Spec EPV.Spec.UnitsHydro

namespace EPV.C08

/-! ### Noh -/
theorem noh_units : CovariantGas nohSP Everywhere Noh.position Noh.density Noh.velocity Noh.pressure
    Noh.specific_internal_energy Noh.leaf Noh.outcome := by
  units_gas nohSP

/-- a change of units keeps the parameters admissible: u₀ < 0 stays negative -/
theorem noh_units_admissible (σ : Scaling) (p : Noh.P) : (nohSP σ p).u0 < 0 ↔ p.u0 < 0 := by
  simp only [nohSP]
  units
/-! ### Coggeshall solutions whose constants are all parameters -/

theorem cog1_units : CovariantCog cog1SP Everywhere Cog1.position Cog1.density Cog1.velocity Cog1.temperature
    Cog1.pressure Cog1.specific_internal_energy Cog1.leaf Cog1.outcome := by
  units_cog cog1SP

theorem cog2_units : CovariantCog cog2SP Everywhere Cog2.position Cog2.density Cog2.velocity Cog2.temperature
    Cog2.pressure Cog2.specific_internal_energy Cog2.leaf Cog2.outcome := by
  units_cog cog2SP

theorem cog3_units : CovariantCog cog3SP Everywhere Cog3.position Cog3.density Cog3.velocity Cog3.temperature
    Cog3.pressure Cog3.specific_internal_energy Cog3.leaf Cog3.outcome := by
  units_cog cog3SP

theorem cog4_units : CovariantCog cog4SP Everywhere Cog4.position Cog4.density Cog4.velocity Cog4.temperature
    Cog4.pressure Cog4.specific_internal_energy Cog4.leaf Cog4.outcome := by
  units_cog cog4SP

theorem cog5_units : CovariantCog cog5SP Everywhere Cog5.position Cog5.density Cog5.velocity Cog5.temperature
    Cog5.pressure Cog5.specific_internal_energy Cog5.leaf Cog5.outcome := by
  units_cog cog5SP

theorem cog6_units : CovariantCog cog6SP Everywhere Cog6.position Cog6.density Cog6.velocity Cog6.temperature
    Cog6.pressure Cog6.specific_internal_energy Cog6.leaf Cog6.outcome := by
  units_cog cog6SP

theorem cog8_units : CovariantCog cog8SP Everywhere Cog8.position Cog8.density Cog8.velocity Cog8.temperature
    Cog8.pressure Cog8.specific_internal_energy Cog8.leaf Cog8.outcome := by
  units_cog cog8SP

theorem cog9_units : CovariantCog cog9SP Everywhere Cog9.position Cog9.density Cog9.velocity Cog9.temperature
    Cog9.pressure Cog9.specific_internal_energy Cog9.leaf Cog9.outcome := by
  units_cog cog9SP

theorem cog11_units : CovariantCog cog11SP Everywhere Cog11.position Cog11.density Cog11.velocity Cog11.temperature
    Cog11.pressure Cog11.specific_internal_energy Cog11.leaf Cog11.outcome := by
  units_cog cog11SP

theorem cog12_units : CovariantCog cog12SP Everywhere Cog12.position Cog12.density Cog12.velocity Cog12.temperature
    Cog12.pressure Cog12.specific_internal_energy Cog12.leaf Cog12.outcome := by
  units_cog cog12SP

theorem cog18_units : CovariantCog cog18SP Everywhere Cog18.position Cog18.density Cog18.velocity Cog18.temperature
    Cog18.pressure Cog18.specific_internal_energy Cog18.leaf Cog18.outcome := by
  units_cog cog18SP

theorem cog19_units : CovariantCog cog19SP Everywhere Cog19.position Cog19.density Cog19.velocity Cog19.temperature
    Cog19.pressure Cog19.specific_internal_energy Cog19.leaf Cog19.outcome := by
  units_cog cog19SP

theorem cog21_units : CovariantCog cog21SP Everywhere Cog21.position Cog21.density Cog21.velocity Cog21.temperature
    Cog21.pressure Cog21.specific_internal_energy Cog21.leaf Cog21.outcome := by
  units_cog cog21SP

end EPV.C08
