/-
C08 — Cog3: the dimensions its parameter help strings give to `b` and `v` are not the ones its formulas have
(finding; `cog3_units` in Hydro.lean proves covariance with the consistent ones).
-/
import EPV.Gen.Cog3
import EPV.Lemmas.UnitsHydro

set_option linter.all false

open EPV EPV.Gen EPV.Spec EPV.Spec.UnitsHydro

namespace EPV.C08

/-- **Finding** (documentation): with the documented dimensions of b and v the velocity u = -(b/v) r is not
covariant — doubling the unit of length (b = v = 1, r = 1) leaves the returned number at -1 instead of -2.
`cog3_units` shows the formulas are consistent with [b] = T⁻¹ and v a pure number instead. -/
theorem finding_cog3_documented_dimensions :
    ¬ UnitCovariant cog3DocSP Cog3.velocity Dim.velocity (Everywhere : Scaling → Cog3.P → ℝ → ℝ → Prop) := by
  intro h
  have := h ⟨1, 2, 1, 1, by norm_num, by norm_num, by norm_num, by norm_num⟩
    ⟨40, 0, 0, 1, 0, 0, 3, 0, 1, 1⟩ 1 0 trivial
  simp [epv_tree, epv_leaf, cog3DocSP, scale, factor, Dim.velocity, Dim.gruneisen] at this <;> norm_num at this

end EPV.C08
