/-
C08 — Guderley: dimensional consistency.

The solver has ONE dimensional parameter, ρ₀ (M L⁻³).  Its length and time scales are built in:
`guderley_1d` converts the time argument by t_L = t / 0.750024322 - 1 and `state` places the
converging shock at t_L / r^λ = -1, i.e. at r = 1 when t = 0, focusing at t = 0.750024322.  The
changes of units the solver can honour are therefore

  * every change of the unit of mass (through ρ₀), and
  * the changes of the units of length and time that respect the built-in shock trajectory
    r_s = (-t_L)^(1/λ):  T = L^λ, applied to the Lazarus time.

`guderley_units_partial` proves exactly that: for σ = (M, L, T) with T = L^λ,

    field(ρ₀' = M L⁻³ ρ₀)(L r, t_L' = T t_L) = M^m L^l T^t · field(ρ₀)(r, t_L)

with the dimension vector (m, l, t) of each field (density M L⁻³, velocity and sound speed L T⁻¹,
pressure M L⁻¹ T⁻², specific internal energy L² T⁻²), for arbitrary atoms (V, C, R), λ, B — the
same atoms on both sides, since they are computed from (geometry, γ) alone, which are
dimensionless.

FINDING (`finding_guderley_length_time_units`): an independent change of the unit of length (or
of time) is NOT honoured: there is no parameter that could carry the scale.  Witness: ρ₀ = 1,
λ = 7/5, the point r = 1/2 at t = 0.750024322/2 (t_L = -1/2) lies ahead of the converging shock
(undisturbed gas); re-expressed with a length unit half as long (L = 2, T = 1) it is the point
r = 1 at the same time, which the solver places behind the shock.
-/
import EPV.Spec.Guderley
import EPV.Spec.Units

set_option linter.all false

open EPV EPV.Gen EPV.Spec EPV.Spec.Guderley

namespace EPV.C08

theorem factor_density (σ : Scaling) : factor σ Dim.density = σ.M / σ.L ^ 3 := by
  have hL := σ.hL
  simp only [factor, Dim.density, Real.rpow_one, Real.rpow_zero, mul_one]
  rw [show (-3 : ℝ) = -((3 : ℕ) : ℝ) by norm_num, Real.rpow_neg hL.le, Real.rpow_natCast]
  rfl

theorem factor_velocity (σ : Scaling) : factor σ Dim.velocity = σ.L / σ.T := by
  simp only [factor, Dim.velocity, Real.rpow_one, Real.rpow_zero, mul_one, one_mul, Real.rpow_neg_one]
  rfl

theorem factor_pressure (σ : Scaling) : factor σ Dim.pressure = σ.M / (σ.L * σ.T ^ 2) := by
  have hT := σ.hT
  simp only [factor, Dim.pressure, Real.rpow_one, Real.rpow_zero, mul_one, Real.rpow_neg_one]
  rw [show (-2 : ℝ) = -((2 : ℕ) : ℝ) by norm_num, Real.rpow_neg hT.le, Real.rpow_natCast]
  field_simp

theorem factor_sie (σ : Scaling) : factor σ Dim.sie = (σ.L / σ.T) ^ 2 := by
  have hT := σ.hT
  have hL := σ.hL
  simp only [factor, Dim.sie, Real.rpow_zero, mul_one, one_mul]
  rw [show (-2 : ℝ) = -((2 : ℕ) : ℝ) by norm_num, Real.rpow_neg hT.le, Real.rpow_natCast,
    show (2 : ℝ) = ((2 : ℕ) : ℝ) by norm_num, Real.rpow_natCast]
  field_simp

/-- the parameters re-expressed in the units σ: ρ₀ is a mass density, geometry and γ are pure numbers -/
noncomputable def scaleInp (σ : Scaling) (i : Inp) : Inp := ⟨i.geometry, i.gamma, scale σ Dim.density i.rho0⟩

/-- **C08, Guderley (partial: the unit of time is tied to the unit of length by T = L^λ and
applies to the Lazarus time; see the header and the finding below).** -/
theorem guderley_units_partial (σ : Scaling) (i : Inp) (a : Atoms) (r tL : ℝ) (hr : 0 < r)
    (hT : σ.T = σ.L ^ a.lam) :
    let t := solverTime tL
    let t' := solverTime (σ.T * tL)
    let r' := scale σ Dim.length r
    density (scaleInp σ i) a r' t' = scale σ Dim.density (density i a r t)
    ∧ velocity (scaleInp σ i) a r' t' = scale σ Dim.velocity (velocity i a r t)
    ∧ sound_speed (scaleInp σ i) a r' t' = scale σ Dim.velocity (sound_speed i a r t)
    ∧ pressure (scaleInp σ i) a r' t' = scale σ Dim.pressure (pressure i a r t)
    ∧ sie (scaleInp σ i) a r' t' = scale σ Dim.sie (sie i a r t) := by
  intro t t' r'
  have hL := σ.hL
  have hM := σ.hM
  have hr' : r' = σ.L * r := by
    simp only [r', scale, factor, Dim.length, Real.rpow_one, Real.rpow_zero, mul_one, one_mul]
  have hA : 0 < σ.L ^ a.lam := Real.rpow_pos_of_pos hL _
  have hB : 0 < r ^ a.lam := Real.rpow_pos_of_pos hr _
  have hxi : xi (scaleInp σ i) a r' t' = xi i a r t := by
    rw [xi_solverTime, xi_solverTime, hr', Real.mul_rpow hL.le hr.le, hT]
    field_simp
  have hpow : (σ.L * r) ^ (1 - a.lam) = σ.L / σ.L ^ a.lam * r ^ (1 - a.lam) := by
    rw [Real.mul_rpow hL.le hr.le, Real.rpow_sub hL, Real.rpow_one]
  have hρ : (scaleInp σ i).rho0 = σ.M / σ.L ^ 3 * i.rho0 := by
    simp only [scaleInp, scale, factor_density]
  have hγ : (scaleInp σ i).gamma = i.gamma := rfl
  simp only [scale, factor_density, factor_velocity, factor_pressure, factor_sie]
  by_cases hx : xi i a r t < -1
  · obtain ⟨h1, h2, h3, h4, h5⟩ := ahead_form i a r t hx
    obtain ⟨g1, g2, g3, g4, g5⟩ := ahead_form (scaleInp σ i) a r' t' (by rw [hxi]; exact hx)
    rw [h1, h2, h3, h4, h5, g1, g2, g3, g4, g5, hρ]
    simp
  · obtain ⟨h1, h2, h3, h4, h5⟩ := power_law_form i a r t (not_lt.mp hx)
    obtain ⟨g1, g2, g3, g4, g5⟩ := power_law_form (scaleInp σ i) a r' t' (by rw [hxi]; exact not_lt.mp hx)
    rw [h1, h2, h3, h4, h5, g1, g2, g3, g4, g5, hxi, hρ, hγ, hr', hpow, hT]
    simp only [pressure_energy_form]
    generalize σ.L ^ a.lam = A at *
    generalize r ^ (1 - a.lam) = Q
    generalize xi i a r t = x
    have hA' := hA.ne'
    have hL' := hL.ne'
    refine ⟨by ring, by ring, by ring, ?_, ?_⟩
    · field_simp
    · by_cases h0 : i.rho0 = 0
      · simp [h0]
      by_cases hR : a.R x = 0
      · simp [hR]
      by_cases hg : i.gamma = 0
      · simp [hg]
      by_cases hg1 : i.gamma - 1 = 0
      · simp [hg1]
      have hM' := hM.ne'
      field_simp

/-- non-vacuity: a change of units with T = L^λ, M arbitrary -/
example : ∃ σ : Scaling, σ.T = σ.L ^ (2 : ℝ) ∧ σ.M ≠ 1 ∧ σ.L ≠ 1 :=
  ⟨⟨5, 3, 9, 1, by norm_num, by norm_num, by norm_num, by norm_num⟩, by norm_num, by norm_num, by norm_num⟩

/-- **Finding.**  C08 is false for the Guderley solver as quantified (independent length and time
units): the point (r, t) = (1/2, 0.750024322/2) of the problem ρ₀ = 1 is ahead of the converging
shock (x < -1, undisturbed density ρ₀), while the same point re-expressed with L = 2, T = 1, M = 1
— (r', t') = (1, 0.750024322/2), ρ₀' = 1/8 — is behind it (x' = -1/2 ≥ -1), for every
similarity exponent λ > 1. -/
theorem finding_guderley_length_time_units (a : Atoms) (hl : 1 < a.lam) :
    ∃ (σ : Scaling) (i : Inp) (r t : ℝ), 0 < r ∧
      xi i a r t < -1 ∧ -1 ≤ xi (scaleInp σ i) a (scale σ Dim.length r) (scale σ Dim.time t) := by
  refine ⟨⟨1, 2, 1, 1, by norm_num, by norm_num, by norm_num, by norm_num⟩, ⟨3, 7 / 5, 1⟩, 1 / 2, fC / 2,
    by norm_num, ?_, ?_⟩
  · rw [xi_eq]
    have hf := fC_pos.ne'
    have h1 : (1 / 2 : ℝ) ^ a.lam < (1 / 2 : ℝ) ^ (1 : ℝ) :=
      Real.rpow_lt_rpow_of_exponent_gt (by norm_num) (by norm_num) hl
    rw [Real.rpow_one] at h1
    have h0 : 0 < (1 / 2 : ℝ) ^ a.lam := Real.rpow_pos_of_pos (by norm_num) _
    have e : fC / 2 / fC - 1 = -(1 / 2) := by field_simp; norm_num
    rw [e, div_lt_iff₀ h0]
    linarith
  · rw [xi_eq]
    have hf := fC_pos.ne'
    simp only [scale, factor, Dim.length, Dim.time, Real.rpow_one, Real.rpow_zero, Real.one_rpow, mul_one, one_mul]
    norm_num
    have := fC_pos
    positivity

end EPV.C08
