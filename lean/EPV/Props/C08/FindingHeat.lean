/-
C08 — FINDING (1-D rod, general Robin case): not dimensionally consistent.

1. The static part of the general case forms the denominator  a1*b2 - a2*b1 + L*a1*a2  with b_i = β_i/L: the
   first two terms are dimensionless, the third is a length.  Measuring lengths in other units changes the returned
   temperature: with (α₁,β₁,γ₁) = (1,-1,1.2), (α₂,β₂,γ₂) = (1,2,2.3), L = 1 the static value at x = 0 is 59/40;
   the SAME rod described in half-units (ℓ = 2: L = 2, β₁ = -2, β₂ = 4) gives 71/50  (`finding_robin_static_units`).
2. The coefficient formula of the general case is not homogeneous in the temperatures: with zero initial data
   (T_L = T_R = 0; the exact solution of the homogeneous problem is T ≡ 0) the traced coefficient B_n does not
   vanish when β₁ ≠ 0, sin μ ≠ 0  (`finding_robin_coefficient_zero_data`) — the term (β₁/α₁) sin μ of `modes_BCgen`
   lacks the factor T_L of the documented formula.  Doubling the temperatures therefore does not double the result.
Oracle reproduction on the real code: `o_heat.units` (site 'Rod1D:robin-units').
-/
import EPV.Lemmas.HeatSeries
import EPV.Gen.RodModesGen
import EPV.Lemmas.Bridge.RodModesGen
import EPV.Tactics

set_option linter.all false

open EPV EPV.Gen EPV.Spec.Heat EPV.Model.HeatSeries EPV.Lemmas.Heat Finset

namespace EPV.C08

noncomputable section

/-- **Finding 1** (lengths × 2, same physical problem, x = 0): 71/50 instead of 59/40 -/
theorem finding_robin_static_units :
    let p : RodP ℝ := ⟨1, 1, 0, 0, 1, -1, 1.2, 1, 2, 2.3⟩
    let p2 : RodP ℝ := ⟨4, 2, 0, 0, 1, -2, 1.2, 1, 4, 2.3⟩      -- ℓ = 2, τ = 1, θ = 1
    genStatic p 0 = 59 / 40 ∧ genStatic p2 (2 * 0) = 71 / 50 ∧ genStatic p2 (2 * 0) ≠ 1 * genStatic p 0 := by
  intro p p2
  have h1 : genStatic p 0 = 59 / 40 := by
    show (p.β2 / p.L * p.γ1 - p.β1 / p.L * p.γ2 + p.L * p.α2 * p.γ1) / (p.α1 * (p.β2 / p.L) - p.α2 * (p.β1 / p.L) + p.L * p.α1 * p.α2)
      + _ * 0 / p.L = _
    simp only [p]; norm_num
  have h2 : genStatic p2 (2 * 0) = 71 / 50 := by
    show (p2.β2 / p2.L * p2.γ1 - p2.β1 / p2.L * p2.γ2 + p2.L * p2.α2 * p2.γ1) / (p2.α1 * (p2.β2 / p2.L) - p2.α2 * (p2.β1 / p2.L) + p2.L * p2.α1 * p2.α2)
      + _ * (2 * 0) / p2.L = _
    simp only [p2]; norm_num
  refine ⟨h1, h2, ?_⟩
  rw [h1, h2]; norm_num

/-- **Finding 2**: zero initial data, yet a non-zero mode amplitude (traced `modes_BCgen`, case α₁ ≠ 0) -/
theorem finding_robin_coefficient_zero_data (q : RodModesGen.P) (hTL : q.TL = 0) (hTR : q.TR = 0)
    (hα : q.alpha1 ≠ 0) (hn : q.n ≠ 0) (hβ : q.beta1 ≠ 0) (hL : q.L ≠ 0) (hμ : q.mu ≠ 0) (hs : Real.sin q.mu ≠ 0)
    (hN : (-2 * q.alpha1 * (q.beta1 / q.L) * q.mu + 2 * ((q.beta1 / q.L) ^ 2 * q.mu ^ 2 + q.alpha1 ^ 2) * q.mu
        + 2 * q.alpha1 * (q.beta1 / q.L) * q.mu * Real.cos (2 * q.mu)
        + ((q.beta1 / q.L) ^ 2 * q.mu ^ 2 - q.alpha1 ^ 2) * Real.sin (2 * q.mu)) ≠ 0) :
    RodModesGen.Bn q ≠ 0 := by
  have hB : RodModesGen.Bn q = (-(q.beta1 / q.L * q.L / q.alpha1 * Real.sin q.mu))
      / ((-2 * q.alpha1 * (q.beta1 / q.L) * q.mu + 2 * ((q.beta1 / q.L) ^ 2 * q.mu ^ 2 + q.alpha1 ^ 2) * q.mu
        + 2 * q.alpha1 * (q.beta1 / q.L) * q.mu * Real.cos (2 * q.mu)
        + ((q.beta1 / q.L) ^ 2 * q.mu ^ 2 - q.alpha1 ^ 2) * Real.sin (2 * q.mu)) / (4 * q.alpha1 ^ 2 * (q.mu / q.L))) := by
    -- through the bridge (no leaf number, no shape of the traced coefficient)
    rw [Bridge.rodModesGen_Bn_ne q hα hn, hTL, hTR]
    heat_eq
  rw [hB]
  have h1 : q.beta1 / q.L * q.L / q.alpha1 * Real.sin q.mu ≠ 0 := by
    have : q.beta1 / q.L * q.L = q.beta1 := by field_simp
    rw [this]
    exact mul_ne_zero (div_ne_zero hβ hα) hs
  have h2 : 4 * q.alpha1 ^ 2 * (q.mu / q.L) ≠ 0 := by positivity
  exact div_ne_zero (neg_ne_zero.mpr h1) (div_ne_zero hN h2)

/-- non-vacuity at the parameters of test_general_BC_homogeneous with zero end temperatures and the first root
μ ≈ 3.8712 of the transcendental equation: the hypotheses that are decidable by arithmetic hold -/
example : (1 : ℝ) ≠ 0 ∧ (-1 : ℝ) ≠ 0 ∧ (2 : ℝ) ≠ 0 ∧ (3.8712 : ℝ) ≠ 0 := by norm_num

end

end EPV.C08
