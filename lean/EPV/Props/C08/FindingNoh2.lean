/-
C08 — Noh2 and Noh2Cog: covariant under every change of the units of mass and length (partial); the unit of
time is hard-wired by the literal collapse time 1 (finding).
-/
import EPV.Gen.Noh2
import EPV.Gen.Noh2Cog
import EPV.Lemmas.UnitsHydro

set_option linter.all false

open EPV EPV.Gen EPV.Spec EPV.Spec.UnitsHydro

namespace EPV.C08

/-- **partial**: Noh2 is covariant under every change of the units of mass and length.  Missing from the
property: changes of the unit of time, see `finding_noh2_time_unit`. -/
theorem noh2_units_partial : CovariantGas noh2SP FixedTime Noh2.position Noh2.density Noh2.velocity Noh2.pressure
    Noh2.specific_internal_energy Noh2.leaf Noh2.outcome := by
  unfold CovariantGas UnitCovariant SameBranch
  refine ⟨?_, ?_, ?_, ?_, ?_, ?_, ?_⟩ <;> intro σ p r t h <;> replace h : σ.T = 1 := h <;>
    units_field_fixed_time noh2SP h

/-- non-vacuity: there are changes of units with a fixed unit of time -/
example : ∃ σ : Scaling, σ.T = 1 ∧ σ.M ≠ 1 ∧ σ.L ≠ 1 :=
  ⟨⟨2, 3, 1, 1, by norm_num, by norm_num, by norm_num, by norm_num⟩, rfl, by norm_num, by norm_num⟩

/-- **Finding** (C08 is false for Noh2 as quantified): the collapse time is the literal `1`.  Re-expressing the
default problem at t = 1/2 with a time unit half as long (T = 2) asks for t = 1, which the solver rejects
(`ValueError`) although the original request is valid. -/
theorem finding_noh2_time_unit :
    ¬ SameBranch noh2SP Noh2.outcome (Everywhere : Scaling → Noh2.P → ℝ → ℝ → Prop) := by
  intro h
  have := h ⟨1, 1, 2, 1, by norm_num, by norm_num, by norm_num, by norm_num⟩ ⟨1, 5 / 3, 3, 1⟩ 1 (1 / 2) trivial
  simp only [epv_tree, epv_cond, noh2SP] at this
  norm_num at this
  exact absurd this (by decide)
/-- **partial**: Noh2Cog is covariant under every change of the units of mass and length, with the returned
`temperature` read as a specific energy (Γ = 1 is a class constant).  Missing: changes of the unit of time
(the literal collapse time 1, as for Noh2) and an independent unit of temperature. -/
theorem noh2cog_units_partial :
    UnitCovariant noh2cogSP Noh2Cog.position Dim.length FixedTime ∧
    UnitCovariant noh2cogSP Noh2Cog.density Dim.density FixedTime ∧
    UnitCovariant noh2cogSP Noh2Cog.velocity Dim.velocity FixedTime ∧
    UnitCovariant noh2cogSP Noh2Cog.temperature Dim.sie FixedTime ∧
    UnitCovariant noh2cogSP Noh2Cog.pressure Dim.pressure FixedTime ∧
    UnitCovariant noh2cogSP Noh2Cog.specific_internal_energy Dim.sie FixedTime ∧
    SameBranch noh2cogSP Noh2Cog.leaf FixedTime ∧ SameBranch noh2cogSP Noh2Cog.outcome FixedTime := by
  unfold UnitCovariant SameBranch
  refine ⟨?_, ?_, ?_, ?_, ?_, ?_, ?_, ?_⟩ <;> intro σ p r t h <;> replace h : σ.T = 1 := h <;>
    units_field_fixed_time noh2cogSP h

/-- **Finding**: the same hard-wired collapse time in Noh2Cog -/
theorem finding_noh2cog_time_unit :
    ¬ SameBranch noh2cogSP Noh2Cog.outcome (Everywhere : Scaling → Noh2Cog.P → ℝ → ℝ → Prop) := by
  intro h
  have := h ⟨1, 1, 2, 1, by norm_num, by norm_num, by norm_num, by norm_num⟩ ⟨1, 5 / 3, 3, 1⟩ 1 (1 / 2) trivial
  simp only [epv_tree, epv_cond, noh2cogSP] at this
  norm_num at this
  exact absurd this (by decide)

end EPV.C08
