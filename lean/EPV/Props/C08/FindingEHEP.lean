/-
C08 — FINDING: EHEP's region selection is not invariant under a change of units.

`_run` assigns a point to regions I–V when `contains_point(...) or point_on_boundary(...)`;
`point_on_line` decides "on the edge" by `|d(P, A) + d(P, B) - d(A, B)| < 1e-12`, where the
distances are `math.hypot` of a *position* difference and a *time* difference — a sum of cm² and
μs² — and the tolerance is a bare number.  Re-expressing time in seconds (T = 10⁻⁶; positions
unchanged) makes every time difference numerically invisible: every point whose x lies between the
x-coordinates of an edge is "on" it.

Witness: default problem, the edge of region I along the detonation front, A = (0, 0),
B = (x̃, x̃/D) = (1, 20/17 μs), and the point P = (0.3 cm, 0.2 μs), which lies ahead of the front
(0.3 > D t = 0.17; region '0H', undisturbed explosive).  In (cm, μs) the test says "not on the edge";
in (cm, s) — same physical edge and point — it says "on the edge", so `_run` returns the region I
state (ρ = 3.22 g/cc moving at 0.54 cm/μs) instead of ρ₀ = 1.6 at rest.  Reproduced on the real
code by the oracle `o_detonation.units_ehep` (site `EHEP:units-region`).
-/
import EPV.Gen.EHEPOnLine
import EPV.Tactics

set_option linter.all false

open EPV EPV.Gen

namespace EPV.C08

/-- the front edge of region I in (cm, μs) and the tolerance `point_on_boundary` passes -/
noncomputable def edgeMicro : EHEPOnLine.P := ⟨0, 0, 20 / 17, 1, 1 / 1000000000000⟩
/-- the same edge with time in seconds -/
noncomputable def edgeSec : EHEPOnLine.P := ⟨0, 0, 20 / 17 * (1 / 1000000), 1, 1 / 1000000000000⟩

theorem ehep_sqrt_between {a lo hi : ℝ} (hlo : 0 ≤ lo) (hhi : 0 ≤ hi) (h1 : lo ^ 2 ≤ a) (h2 : a ≤ hi ^ 2) :
    lo ≤ Real.sqrt a ∧ Real.sqrt a ≤ hi :=
  ⟨Real.le_sqrt_of_sq_le h1, Real.sqrt_le_iff.mpr ⟨hhi, h2⟩⟩

/-- in (cm, μs) the point (0.3, 0.2) is not on the front edge … -/
theorem ehep_on_line_micro : EHEPOnLine.on_line edgeMicro (3 / 10) (1 / 5) = 0 := by
  have h : ¬ EHEPOnLine.c0 edgeMicro (3 / 10) (1 / 5) := by
    simp only [epv_cond, edgeMicro, not_lt]
    obtain ⟨a1, a2⟩ := ehep_sqrt_between (a := (0 - 3 / 10) * (0 - 3 / 10) + (0 - 1 / 5) * (0 - 1 / 5))
      (lo := 36 / 100) (hi := 37 / 100) (by norm_num) (by norm_num) (by norm_num) (by norm_num)
    obtain ⟨b1, b2⟩ := ehep_sqrt_between (a := (1 - 3 / 10) * (1 - 3 / 10) + (20 / 17 - 1 / 5) * (20 / 17 - 1 / 5))
      (lo := 12 / 10) (hi := 121 / 100) (by norm_num) (by norm_num) (by norm_num) (by norm_num)
    obtain ⟨c1, c2⟩ := ehep_sqrt_between (a := (0 - 1) * (0 - 1) + (0 - 20 / 17) * (0 - 20 / 17))
      (lo := 154 / 100) (hi := 1545 / 1000) (by norm_num) (by norm_num) (by norm_num) (by norm_num)
    rw [abs_of_nonneg (by linarith)]
    linarith
  simp only [epv_tree, if_neg h, epv_leaf]

/-- … with time in seconds the same point is "on" the same edge -/
theorem ehep_on_line_sec : EHEPOnLine.on_line edgeSec (3 / 10) (1 / 5 * (1 / 1000000)) = 1 := by
  have h : EHEPOnLine.c0 edgeSec (3 / 10) (1 / 5 * (1 / 1000000)) := by
    simp only [epv_cond, edgeSec]
    obtain ⟨a1, a2⟩ := ehep_sqrt_between
      (a := (0 - 3 / 10) * (0 - 3 / 10) + (0 - 1 / 5 * (1 / 1000000)) * (0 - 1 / 5 * (1 / 1000000)))
      (lo := 3 / 10) (hi := 3 / 10 + 1 / 10000000000000) (by norm_num) (by norm_num) (by norm_num) (by norm_num)
    obtain ⟨b1, b2⟩ := ehep_sqrt_between
      (a := (1 - 3 / 10) * (1 - 3 / 10)
        + (20 / 17 * (1 / 1000000) - 1 / 5 * (1 / 1000000)) * (20 / 17 * (1 / 1000000) - 1 / 5 * (1 / 1000000)))
      (lo := 7 / 10) (hi := 7 / 10 + 7 / 10000000000000) (by norm_num) (by norm_num) (by norm_num) (by norm_num)
    obtain ⟨c1, c2⟩ := ehep_sqrt_between
      (a := (0 - 1) * (0 - 1) + (0 - 20 / 17 * (1 / 1000000)) * (0 - 20 / 17 * (1 / 1000000)))
      (lo := 1) (hi := 1 + 7 / 10000000000000) (by norm_num) (by norm_num) (by norm_num) (by norm_num)
    rw [abs_lt]
    constructor <;> linarith
  simp only [epv_tree, if_pos h, epv_leaf]

/-- **Finding.**  The closed-boundary test of the region selection gives different answers for the
same physical edge and point in (cm, μs) and in (cm, s). -/
theorem ehep_region_test_not_unit_invariant :
    EHEPOnLine.on_line edgeMicro (3 / 10) (1 / 5) ≠ EHEPOnLine.on_line edgeSec (3 / 10) (1 / 5 * (1 / 1000000)) := by
  rw [ehep_on_line_micro, ehep_on_line_sec]; norm_num

end EPV.C08
