/-
C08 (burn-time share, Kenamond 3; the table for all four solvers is repeated in each file) — dimensional consistency of Kenamond 1-3 and the DSD cylindrical
expansion: re-expressing every input in other units of length (factor L > 0) and time
(factor T > 0) — positions, radii and detonator locations × L, detonation times × T, detonation
speeds × L/T, the DSD curvature coefficients α (a speed times a length) × L²/T — multiplies
the returned burn time by T, returns the positions × L, and the request is accepted in the new
units exactly when it was in the old ones.

Dimension table (from the parameter help strings and module docstrings):

    Kenamond 1   D: L/T    x_d: L    t_d: T                       burntime: T   position_*: L
    Kenamond 2   R: L   D1, D2: L/T   dets: L   t_d[i]: T         burntime: T   position_*: L
    Kenamond 3   R: L   D: L/T   x_d: L   t_d: T                  burntime: T   position_*: L
    DSD cyl.     r_1, r_2: L   D_CJ_i: L/T   alpha_i: L²/T   t_d: T   burntime: T   position_*: L

Stated on the traced models (all of Kenamond 1-3 in 2-D and 3-D), in coordinates.
-/
import EPV.Lemmas.BurnK3

set_option linter.all false

open EPV EPV.Gen EPV.Spec.Burn EPV.Burn

namespace EPV.C08

/-! ### re-expressed parameter sets -/

noncomputable def K3d2.scale (L T : ℝ) (p : K3d2.P) : K3d2.P := ⟨L / T * p.D, L * p.R, T * p.t_d, L * p.xd0, L * p.xd1⟩
noncomputable def K3d3.scale (L T : ℝ) (p : K3d3.P) : K3d3.P :=
  ⟨L / T * p.D, L * p.R, T * p.t_d, L * p.xd0, L * p.xd1, L * p.xd2⟩

variable {L T : ℝ}

/-! ### Kenamond 3, 2-D -/

theorem K3d2.det_scale (p : K3d2.P) : K3d2.det (K3d2.scale L T p) = L • K3d2.det p := by
  ext i; fin_cases i <;> simp [K3d2.det, K3d2.scale]

theorem K3d2.scale_adm (hL : 0 < L) (hT : 0 < T) (p : K3d2.P) (h : K3d2.Adm p) : K3d2.Adm (K3d2.scale L T p) := by
  obtain ⟨h0, h1, h2⟩ := h
  refine ⟨mul_pos hL h0, mul_pos (div_pos hL hT) h1, ?_⟩
  rw [K3d2.det_scale, norm_scale hL]
  exact mul_lt_mul_of_pos_left h2 hL

/-- served in the new units when served in the old ones, with burn time × T -/
theorem k3d2_scale (hL : 0 < L) (hT : 0 < T) (p : K3d2.P) (x y : ℝ) (h : K3d2.outcome p x y = .ok) :
    K3d2.outcome (K3d2.scale L T p) (L * x) (L * y) = .ok ∧
      K3d2.burntime (K3d2.scale L T p) (L * x) (L * y) = T * K3d2.burntime p x y := by
  have h0 : K3d2.outcome p (!₂[x, y] 0) (!₂[x, y] 1) = .ok := by simpa using h
  obtain ⟨ha, hq⟩ := (k3d2_outcome p !₂[x, y]).mp h0
  have hq' : (K3d2.scale L T p).R ≤ ‖L • (!₂[x, y] : E2)‖ := by
    rw [norm_scale hL]; exact mul_le_mul_of_nonneg_left hq hL.le
  have e1 : K3d2.burntime p x y = k3 p.R p.D p.t_d (K3d2.det p) !₂[x, y] := by
    simpa using k3d2_eq_spec' p ha !₂[x, y] hq
  have h' := (k3d2_outcome (K3d2.scale L T p) (L • !₂[x, y])).mpr ⟨K3d2.scale_adm hL hT p ha, hq'⟩
  have e2 := k3d2_eq_spec (K3d2.scale L T p) (L • !₂[x, y]) h'
  rw [K3d2.det_scale] at e2
  refine ⟨by simpa using h', ?_⟩
  rw [e1]
  have e3 : K3d2.burntime (K3d2.scale L T p) (L * x) (L * y)
      = k3 (K3d2.scale L T p).R (K3d2.scale L T p).D (K3d2.scale L T p).t_d (L • K3d2.det p) (L • !₂[x, y]) := by
    simpa using e2
  rw [e3]
  exact k3_scale hL hT _ _ _ _ _

/-! ### Kenamond 3, 3-D -/

theorem K3d3.det_scale (p : K3d3.P) : K3d3.det (K3d3.scale L T p) = L • K3d3.det p := by
  ext i; fin_cases i <;> simp [K3d3.det, K3d3.scale]

theorem K3d3.scale_adm (hL : 0 < L) (hT : 0 < T) (p : K3d3.P) (h : K3d3.Adm p) : K3d3.Adm (K3d3.scale L T p) := by
  obtain ⟨h0, h1, h2⟩ := h
  refine ⟨mul_pos hL h0, mul_pos (div_pos hL hT) h1, ?_⟩
  rw [K3d3.det_scale, norm_scale hL]
  exact mul_lt_mul_of_pos_left h2 hL

/-- served in the new units when served in the old ones, with burn time × T -/
theorem k3d3_scale (hL : 0 < L) (hT : 0 < T) (p : K3d3.P) (x y z : ℝ) (h : K3d3.outcome p x y z = .ok) :
    K3d3.outcome (K3d3.scale L T p) (L * x) (L * y) (L * z) = .ok ∧
      K3d3.burntime (K3d3.scale L T p) (L * x) (L * y) (L * z) = T * K3d3.burntime p x y z := by
  have h0 : K3d3.outcome p (!₂[x, y, z] 0) (!₂[x, y, z] 1) (!₂[x, y, z] 2) = .ok := by simpa using h
  obtain ⟨ha, hq⟩ := (k3d3_outcome p !₂[x, y, z]).mp h0
  have hq' : (K3d3.scale L T p).R ≤ ‖L • (!₂[x, y, z] : E3)‖ := by
    rw [norm_scale hL]; exact mul_le_mul_of_nonneg_left hq hL.le
  have e1 : K3d3.burntime p x y z = k3 p.R p.D p.t_d (K3d3.det p) !₂[x, y, z] := by
    simpa using k3d3_eq_spec' p ha !₂[x, y, z] hq
  have h' := (k3d3_outcome (K3d3.scale L T p) (L • !₂[x, y, z])).mpr ⟨K3d3.scale_adm hL hT p ha, hq'⟩
  have e2 := k3d3_eq_spec (K3d3.scale L T p) (L • !₂[x, y, z]) h'
  rw [K3d3.det_scale] at e2
  refine ⟨by simpa using h', ?_⟩
  rw [e1]
  have e3 : K3d3.burntime (K3d3.scale L T p) (L * x) (L * y) (L * z)
      = k3 (K3d3.scale L T p).R (K3d3.scale L T p).D (K3d3.scale L T p).t_d (L • K3d3.det p) (L • !₂[x, y, z]) := by
    simpa using e2
  rw [e3]
  exact k3_scale hL hT _ _ _ _ _

/-- non-vacuity: default parameters (L = 100: m → cm, T = 10⁶: s → μs) -/
example : K3d2.outcome ⟨2, 3, 0, 0, 5⟩ 4 0 = .ok := by
  have h5 : Real.sqrt ((0 : ℝ) * 0 + 5 * 5) = 5 := by
    rw [show (0 : ℝ) * 0 + 5 * 5 = 5 ^ 2 by norm_num, Real.sqrt_sq (by norm_num)]
  have h4 : Real.sqrt ((4 : ℝ) * 4 + 0 * 0) = 4 := by
    rw [show (4 : ℝ) * 4 + 0 * 0 = 4 ^ 2 by norm_num, Real.sqrt_sq (by norm_num)]
  simp only [epv_tree, ite_raise_eq_ok, ite_self]
  simp only [epv_cond, h5, h4]
  norm_num

end EPV.C08
