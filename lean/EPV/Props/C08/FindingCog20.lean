/-
C08 — Cog20: inside each region the fields are covariant (partial); the coded shock position is a
length × time, so the region is not invariant (finding).
-/
import EPV.Gen.Cog20
import EPV.Lemmas.UnitsHydro

set_option linter.all false

open EPV EPV.Gen EPV.Spec EPV.Spec.UnitsHydro

namespace EPV.C08

macro "units_field_cog20" : tactic => `(tactic|
  (apply IsScaled.iff_eq.mp
   simp only [epv_tree]
   split_ifs at * <;>
   first
   | (exact absurd (by assumption : (0 : ℕ) = 1) (by decide))
   | (exact absurd (by assumption : (1 : ℕ) = 0) (by decide))
   | (simp only [epv_cond, epv_leaf, cog20SP, mul_zero, zero_mul, zero_div, mul_one, one_mul]
      units_goal)))

/-- **partial**: inside each of its two regions every Cog20 field is covariant.  Missing from the property:
the region itself is not invariant, see `finding_cog20_shock_position`. -/
theorem cog20_units_partial :
    UnitCovariant cog20SP Cog20.position Dim.length Cog20SameRegion ∧
    UnitCovariant cog20SP Cog20.density Dim.density Cog20SameRegion ∧
    UnitCovariant cog20SP Cog20.velocity Dim.velocity Cog20SameRegion ∧
    UnitCovariant cog20SP Cog20.temperature Dim.temperature Cog20SameRegion ∧
    UnitCovariant cog20SP Cog20.pressure Dim.pressure Cog20SameRegion ∧
    UnitCovariant cog20SP Cog20.specific_internal_energy Dim.sie Cog20SameRegion := by
  unfold UnitCovariant
  refine ⟨?_, ?_, ?_, ?_, ?_, ?_⟩ <;> intro σ p r t h <;> simp only [Cog20SameRegion, epv_tree] at h <;>
    units_field_cog20

/-- non-vacuity: a change of the units of mass, length and temperature that keeps a point in its region -/
example : Cog20SameRegion ⟨2, 3, 1, 5, by norm_num, by norm_num, by norm_num, by norm_num⟩
    ⟨1, 1 / 4, 0, 0, 0, 0, 3, 3, 0, 1, 1⟩ 2 1 := by
  simp only [Cog20SameRegion, epv_tree, epv_cond, cog20SP, scale, factor, Dim.velocity, Dim.rate, Real.one_rpow,
    Real.rpow_one, Real.rpow_zero, Real.rpow_neg_one, mul_one, one_mul]
  norm_num

/-- **Finding** (C08 is false for Cog20): the coded shock position `u0 (γ-1)/(4a) · t (1-2at)/(1-at)` is a
length times a time, so a change of the unit of time moves a point across the shock.  Witness: γ = 3, u₀ = 1,
a = 1/4, r = 2, t = 1 lies outside the shock (R = 4/3); with a time unit half as long (T = 2: u₀ = 1/2, a = 1/8,
t = 2) the same point lies inside (R = 8/3). -/
theorem finding_cog20_shock_position :
    ¬ SameBranch cog20SP Cog20.leaf (Everywhere : Scaling → Cog20.P → ℝ → ℝ → Prop) := by
  intro h
  have := h ⟨1, 1, 2, 1, by norm_num, by norm_num, by norm_num, by norm_num⟩
    ⟨1, 1 / 4, 0, 0, 0, 0, 3, 3, 0, 1, 1⟩ 2 1 trivial
  simp only [epv_tree, epv_cond, cog20SP, scale, factor, Dim.velocity, Dim.rate, Real.one_rpow, Real.rpow_one,
    Real.rpow_zero, Real.rpow_neg_one, mul_one, one_mul] at this
  norm_num at this

end EPV.C08
