/-
C08 (burn-time share) — dimensional consistency of Kenamond 1-3 and the DSD cylindrical
expansion: re-expressing every input in other units of length (factor L > 0) and time
(factor T > 0) — positions, radii and detonator locations × L, detonation times × T, detonation
speeds × L/T, the DSD curvature coefficients α (a speed times a length) × L²/T — multiplies
the returned burn time by T, returns the positions × L, and the request is accepted in the new
units exactly when it was in the old ones.

Dimension table (from the parameter help strings and module docstrings):

    Kenamond 1   D: L/T    x_d: L    t_d: T                       burntime: T   position_*: L
    Kenamond 2   R: L   D1, D2: L/T   dets: L   t_d[i]: T         burntime: T   position_*: L
    Kenamond 3   R: L   D: L/T   x_d: L   t_d: T                  burntime: T   position_*: L
    DSD cyl.     r_1, r_2: L   D_CJ_i: L/T   alpha_i: L²/T   t_d: T   burntime: T   position_*: L

Stated on the traced models (all of Kenamond 1-3 in 2-D and 3-D), in coordinates.
-/
import EPV.Lemmas.BurnModels

set_option linter.all false

open EPV EPV.Gen EPV.Spec.Burn EPV.Burn

namespace EPV.C08

/-! ### re-expressed parameter sets -/

noncomputable def K1d2.scale (L T : ℝ) (p : K1d2.P) : K1d2.P := ⟨L / T * p.D, T * p.t_d, L * p.xd0, L * p.xd1⟩
noncomputable def K1d3.scale (L T : ℝ) (p : K1d3.P) : K1d3.P := ⟨L / T * p.D, T * p.t_d, L * p.xd0, L * p.xd1, L * p.xd2⟩
noncomputable def K2d2.scale (L T : ℝ) (p : K2d2.P) : K2d2.P :=
  ⟨L / T * p.D1, L / T * p.D2, L * p.R, L * p.a1, L * p.a2, L * p.a4, L * p.a5,
    T * p.td1, T * p.td2, T * p.td3, T * p.td4, T * p.td5⟩
noncomputable def K2d3.scale (L T : ℝ) (p : K2d3.P) : K2d3.P :=
  ⟨L / T * p.D1, L / T * p.D2, L * p.R, L * p.a1, L * p.a2, L * p.a4, L * p.a5,
    T * p.td1, T * p.td2, T * p.td3, T * p.td4, T * p.td5⟩
noncomputable def K3d2.scale (L T : ℝ) (p : K3d2.P) : K3d2.P := ⟨L / T * p.D, L * p.R, T * p.t_d, L * p.xd0, L * p.xd1⟩
noncomputable def K3d3.scale (L T : ℝ) (p : K3d3.P) : K3d3.P :=
  ⟨L / T * p.D, L * p.R, T * p.t_d, L * p.xd0, L * p.xd1, L * p.xd2⟩
noncomputable def DSDCyl.scale (L T : ℝ) (p : DSDCyl.P) : DSDCyl.P :=
  ⟨L / T * p.D_CJ_1, L / T * p.D_CJ_2, L ^ 2 / T * p.alpha_1, L ^ 2 / T * p.alpha_2, L * p.r_1, L * p.r_2, T * p.t_d⟩

variable {L T : ℝ}

private theorem speed_pos (hL : 0 < L) (hT : 0 < T) {D : ℝ} : 0 < L / T * D ↔ 0 < D :=
  ⟨fun h => by
      by_contra hD
      have : L / T * D ≤ 0 := mul_nonpos_of_nonneg_of_nonpos (div_pos hL hT).le (not_lt.mp hD)
      linarith,
   fun h => mul_pos (div_pos hL hT) h⟩

/-! ### Kenamond 1 -/

theorem k1d2_outcome_scale (hL : 0 < L) (hT : 0 < T) (p : K1d2.P) (x y : ℝ) :
    K1d2.outcome (K1d2.scale L T p) (L * x) (L * y) = .ok ↔ K1d2.outcome p x y = .ok := by
  rw [k1d2_outcome, k1d2_outcome]; exact speed_pos hL hT

theorem k1d2_scale (hL : 0 < L) (hT : 0 < T) (p : K1d2.P) (hD : 0 < p.D) (x y : ℝ) :
    K1d2.burntime (K1d2.scale L T p) (L * x) (L * y) = T * K1d2.burntime p x y := by
  have hD' : 0 < (K1d2.scale L T p).D := (speed_pos hL hT).mpr hD
  have e1 : K1d2.burntime p x y = cone p.t_d p.D (K1d2.det p) !₂[x, y] := by
    simpa using k1d2_eq_cone p hD !₂[x, y]
  have e2 : K1d2.burntime (K1d2.scale L T p) (L * x) (L * y)
      = cone (K1d2.scale L T p).t_d (K1d2.scale L T p).D (K1d2.det (K1d2.scale L T p)) (L • !₂[x, y]) := by
    simpa using k1d2_eq_cone (K1d2.scale L T p) hD' (L • !₂[x, y])
  have hdet : K1d2.det (K1d2.scale L T p) = L • K1d2.det p := by
    ext i; fin_cases i <;> simp [K1d2.det, K1d2.scale]
  rw [e1, e2, hdet]
  exact cone_scale hL hT _ _ _ _

theorem k1d3_outcome_scale (hL : 0 < L) (hT : 0 < T) (p : K1d3.P) (x y z : ℝ) :
    K1d3.outcome (K1d3.scale L T p) (L * x) (L * y) (L * z) = .ok ↔ K1d3.outcome p x y z = .ok := by
  rw [k1d3_outcome, k1d3_outcome]; exact speed_pos hL hT

theorem k1d3_scale (hL : 0 < L) (hT : 0 < T) (p : K1d3.P) (hD : 0 < p.D) (x y z : ℝ) :
    K1d3.burntime (K1d3.scale L T p) (L * x) (L * y) (L * z) = T * K1d3.burntime p x y z := by
  have hD' : 0 < (K1d3.scale L T p).D := (speed_pos hL hT).mpr hD
  have e1 : K1d3.burntime p x y z = cone p.t_d p.D (K1d3.det p) !₂[x, y, z] := by
    simpa using k1d3_eq_cone p hD !₂[x, y, z]
  have e2 : K1d3.burntime (K1d3.scale L T p) (L * x) (L * y) (L * z)
      = cone (K1d3.scale L T p).t_d (K1d3.scale L T p).D (K1d3.det (K1d3.scale L T p)) (L • !₂[x, y, z]) := by
    simpa using k1d3_eq_cone (K1d3.scale L T p) hD' (L • !₂[x, y, z])
  have hdet : K1d3.det (K1d3.scale L T p) = L • K1d3.det p := by
    ext i; fin_cases i <;> simp [K1d3.det, K1d3.scale]
  rw [e1, e2, hdet]
  exact cone_scale hL hT _ _ _ _

/-- the returned positions are the input positions: lengths, × L -/
theorem k1d2_positions_scale (hL : 0 < L) (hT : 0 < T) (p : K1d2.P) (hD : 0 < p.D) (x y : ℝ) :
    K1d2.position_x (K1d2.scale L T p) (L * x) (L * y) = L * K1d2.position_x p x y ∧
    K1d2.position_y (K1d2.scale L T p) (L * x) (L * y) = L * K1d2.position_y p x y := by
  have h1 : ¬ K1d2.c0 p x y := by simp only [epv_cond]; exact not_le.mpr hD
  have h2 : ¬ K1d2.c0 (K1d2.scale L T p) (L * x) (L * y) := by
    simp only [epv_cond]; exact not_le.mpr ((speed_pos hL hT).mpr hD)
  simp only [epv_tree, if_neg h1, if_neg h2, epv_leaf, and_self]

/-! ### Kenamond 2, 2-D -/

theorem K2d2.scale_adm (hL : 0 < L) (hT : 0 < T) (p : K2d2.P) (h : K2d2.Adm p) : K2d2.Adm (K2d2.scale L T p) := by
  obtain ⟨h0, h2, h3, o1, o2, o4, o5, t1, t2, t4, t5⟩ := h
  have h1 : 0 < p.D1 := h2.trans_le h3
  have hLT : 0 < L / T := div_pos hL hT
  rw [norm_axis2] at o1 o2 o4 o5 t1 t2 t4 t5
  have ha : ∀ a : ℝ, |L * a| = L * |a| := fun a => by rw [abs_mul, abs_of_pos hL]
  have ht : ∀ a td : ℝ, p.td3 + p.R * (1 / p.D1 + 1 / p.D2) - |a| / p.D2 ≤ td →
      T * p.td3 + L * p.R * (1 / (L / T * p.D1) + 1 / (L / T * p.D2)) - L * |a| / (L / T * p.D2) ≤ T * td := by
    intro a td hle
    have e : T * p.td3 + L * p.R * (1 / (L / T * p.D1) + 1 / (L / T * p.D2)) - L * |a| / (L / T * p.D2)
        = T * (p.td3 + p.R * (1 / p.D1 + 1 / p.D2) - |a| / p.D2) := by
      have := h1.ne'; have := h2.ne'; field_simp
    rw [e]; exact mul_le_mul_of_nonneg_left hle hT.le
  refine ⟨mul_pos hL h0, mul_pos hLT h2, mul_le_mul_of_nonneg_left h3 hLT.le, ?_, ?_, ?_, ?_, ?_, ?_, ?_, ?_⟩ <;>
    simp only [K2d2.scale, norm_axis2, ha]
  · exact mul_lt_mul_of_pos_left o1 hL
  · exact mul_lt_mul_of_pos_left o2 hL
  · exact mul_lt_mul_of_pos_left o4 hL
  · exact mul_lt_mul_of_pos_left o5 hL
  · exact ht _ _ t1
  · exact ht _ _ t2
  · exact ht _ _ t4
  · exact ht _ _ t5

theorem K2d2.scale_inv (hL : 0 < L) (hT : 0 < T) (p : K2d2.P) : K2d2.scale L⁻¹ T⁻¹ (K2d2.scale L T p) = p := by
  cases p
  simp only [K2d2.scale, K2d2.P.mk.injEq]
  refine ⟨?_, ?_, ?_, ?_, ?_, ?_, ?_, ?_, ?_, ?_, ?_, ?_⟩ <;> field_simp

/-- accepted in the new units exactly when accepted in the old ones -/
theorem k2d2_adm_scale (hL : 0 < L) (hT : 0 < T) (p : K2d2.P) : K2d2.Adm (K2d2.scale L T p) ↔ K2d2.Adm p :=
  ⟨fun h => by
      have := K2d2.scale_adm (inv_pos.mpr hL) (inv_pos.mpr hT) _ h
      rwa [K2d2.scale_inv hL hT] at this,
   K2d2.scale_adm hL hT p⟩

theorem k2d2_scale (hL : 0 < L) (hT : 0 < T) (p : K2d2.P) (h : K2d2.Adm p) (x y : ℝ) :
    K2d2.burntime (K2d2.scale L T p) (L * x) (L * y) = T * K2d2.burntime p x y := by
  have e1 : K2d2.burntime p x y = K2d2.spec p !₂[x, y] := by simpa using k2d2_eq_spec' p h !₂[x, y]
  have e2 : K2d2.burntime (K2d2.scale L T p) (L * x) (L * y) = K2d2.spec (K2d2.scale L T p) (L • !₂[x, y]) := by
    simpa using k2d2_eq_spec' (K2d2.scale L T p) (K2d2.scale_adm hL hT p h) (L • !₂[x, y])
  have hax : ∀ a : ℝ, axis2 (L * a) = L • axis2 a := fun a => by ext i; fin_cases i <;> simp [axis2]
  rw [e1, e2]
  unfold K2d2.spec
  simp only [K2d2.scale, hax]
  exact k2_scale hL hT _ _ _ _ _ _ _ _ _ _ _ _ _

/-! ### Kenamond 2, 3-D -/

theorem K2d3.scale_adm (hL : 0 < L) (hT : 0 < T) (p : K2d3.P) (h : K2d3.Adm p) : K2d3.Adm (K2d3.scale L T p) := by
  obtain ⟨h0, h2, h3, o1, o2, o4, o5, t1, t2, t4, t5⟩ := h
  have h1 : 0 < p.D1 := h2.trans_le h3
  have hLT : 0 < L / T := div_pos hL hT
  rw [norm_axis3] at o1 o2 o4 o5 t1 t2 t4 t5
  have ha : ∀ a : ℝ, |L * a| = L * |a| := fun a => by rw [abs_mul, abs_of_pos hL]
  have ht : ∀ a td : ℝ, p.td3 + p.R * (1 / p.D1 + 1 / p.D2) - |a| / p.D2 ≤ td →
      T * p.td3 + L * p.R * (1 / (L / T * p.D1) + 1 / (L / T * p.D2)) - L * |a| / (L / T * p.D2) ≤ T * td := by
    intro a td hle
    have e : T * p.td3 + L * p.R * (1 / (L / T * p.D1) + 1 / (L / T * p.D2)) - L * |a| / (L / T * p.D2)
        = T * (p.td3 + p.R * (1 / p.D1 + 1 / p.D2) - |a| / p.D2) := by
      have := h1.ne'; have := h2.ne'; field_simp
    rw [e]; exact mul_le_mul_of_nonneg_left hle hT.le
  refine ⟨mul_pos hL h0, mul_pos hLT h2, mul_le_mul_of_nonneg_left h3 hLT.le, ?_, ?_, ?_, ?_, ?_, ?_, ?_, ?_⟩ <;>
    simp only [K2d3.scale, norm_axis3, ha]
  · exact mul_lt_mul_of_pos_left o1 hL
  · exact mul_lt_mul_of_pos_left o2 hL
  · exact mul_lt_mul_of_pos_left o4 hL
  · exact mul_lt_mul_of_pos_left o5 hL
  · exact ht _ _ t1
  · exact ht _ _ t2
  · exact ht _ _ t4
  · exact ht _ _ t5

theorem K2d3.scale_inv (hL : 0 < L) (hT : 0 < T) (p : K2d3.P) : K2d3.scale L⁻¹ T⁻¹ (K2d3.scale L T p) = p := by
  cases p
  simp only [K2d3.scale, K2d3.P.mk.injEq]
  refine ⟨?_, ?_, ?_, ?_, ?_, ?_, ?_, ?_, ?_, ?_, ?_, ?_⟩ <;> field_simp

/-- accepted in the new units exactly when accepted in the old ones -/
theorem k2d3_adm_scale (hL : 0 < L) (hT : 0 < T) (p : K2d3.P) : K2d3.Adm (K2d3.scale L T p) ↔ K2d3.Adm p :=
  ⟨fun h => by
      have := K2d3.scale_adm (inv_pos.mpr hL) (inv_pos.mpr hT) _ h
      rwa [K2d3.scale_inv hL hT] at this,
   K2d3.scale_adm hL hT p⟩

theorem k2d3_scale (hL : 0 < L) (hT : 0 < T) (p : K2d3.P) (h : K2d3.Adm p) (x y z : ℝ) :
    K2d3.burntime (K2d3.scale L T p) (L * x) (L * y) (L * z) = T * K2d3.burntime p x y z := by
  have e1 : K2d3.burntime p x y z = K2d3.spec p !₂[x, y, z] := by simpa using k2d3_eq_spec' p h !₂[x, y, z]
  have e2 : K2d3.burntime (K2d3.scale L T p) (L * x) (L * y) (L * z) = K2d3.spec (K2d3.scale L T p) (L • !₂[x, y, z]) := by
    simpa using k2d3_eq_spec' (K2d3.scale L T p) (K2d3.scale_adm hL hT p h) (L • !₂[x, y, z])
  have hax : ∀ a : ℝ, axis3 (L * a) = L • axis3 a := fun a => by ext i; fin_cases i <;> simp [axis3]
  rw [e1, e2]
  unfold K2d3.spec
  simp only [K2d3.scale, hax]
  exact k2_scale hL hT _ _ _ _ _ _ _ _ _ _ _ _ _

/-! ### Kenamond 3, 2-D -/

theorem K3d2.det_scale (p : K3d2.P) : K3d2.det (K3d2.scale L T p) = L • K3d2.det p := by
  ext i; fin_cases i <;> simp [K3d2.det, K3d2.scale]

theorem K3d2.scale_adm (hL : 0 < L) (hT : 0 < T) (p : K3d2.P) (h : K3d2.Adm p) : K3d2.Adm (K3d2.scale L T p) := by
  obtain ⟨h0, h1, h2⟩ := h
  refine ⟨mul_pos hL h0, mul_pos (div_pos hL hT) h1, ?_⟩
  rw [K3d2.det_scale, norm_scale hL]
  exact mul_lt_mul_of_pos_left h2 hL

/-- served in the new units when served in the old ones, with burn time × T -/
theorem k3d2_scale (hL : 0 < L) (hT : 0 < T) (p : K3d2.P) (x y : ℝ) (h : K3d2.outcome p x y = .ok) :
    K3d2.outcome (K3d2.scale L T p) (L * x) (L * y) = .ok ∧
      K3d2.burntime (K3d2.scale L T p) (L * x) (L * y) = T * K3d2.burntime p x y := by
  have h0 : K3d2.outcome p (!₂[x, y] 0) (!₂[x, y] 1) = .ok := by simpa using h
  obtain ⟨ha, hq⟩ := (k3d2_outcome p !₂[x, y]).mp h0
  have hq' : (K3d2.scale L T p).R ≤ ‖L • (!₂[x, y] : E2)‖ := by
    rw [norm_scale hL]; exact mul_le_mul_of_nonneg_left hq hL.le
  have e1 : K3d2.burntime p x y = k3 p.R p.D p.t_d (K3d2.det p) !₂[x, y] := by
    simpa using k3d2_eq_spec' p ha !₂[x, y] hq
  have h' := (k3d2_outcome (K3d2.scale L T p) (L • !₂[x, y])).mpr ⟨K3d2.scale_adm hL hT p ha, hq'⟩
  have e2 := k3d2_eq_spec (K3d2.scale L T p) (L • !₂[x, y]) h'
  rw [K3d2.det_scale] at e2
  refine ⟨by simpa using h', ?_⟩
  rw [e1]
  have e3 : K3d2.burntime (K3d2.scale L T p) (L * x) (L * y)
      = k3 (K3d2.scale L T p).R (K3d2.scale L T p).D (K3d2.scale L T p).t_d (L • K3d2.det p) (L • !₂[x, y]) := by
    simpa using e2
  rw [e3]
  exact k3_scale hL hT _ _ _ _ _

/-! ### Kenamond 3, 3-D -/

theorem K3d3.det_scale (p : K3d3.P) : K3d3.det (K3d3.scale L T p) = L • K3d3.det p := by
  ext i; fin_cases i <;> simp [K3d3.det, K3d3.scale]

theorem K3d3.scale_adm (hL : 0 < L) (hT : 0 < T) (p : K3d3.P) (h : K3d3.Adm p) : K3d3.Adm (K3d3.scale L T p) := by
  obtain ⟨h0, h1, h2⟩ := h
  refine ⟨mul_pos hL h0, mul_pos (div_pos hL hT) h1, ?_⟩
  rw [K3d3.det_scale, norm_scale hL]
  exact mul_lt_mul_of_pos_left h2 hL

/-- served in the new units when served in the old ones, with burn time × T -/
theorem k3d3_scale (hL : 0 < L) (hT : 0 < T) (p : K3d3.P) (x y z : ℝ) (h : K3d3.outcome p x y z = .ok) :
    K3d3.outcome (K3d3.scale L T p) (L * x) (L * y) (L * z) = .ok ∧
      K3d3.burntime (K3d3.scale L T p) (L * x) (L * y) (L * z) = T * K3d3.burntime p x y z := by
  have h0 : K3d3.outcome p (!₂[x, y, z] 0) (!₂[x, y, z] 1) (!₂[x, y, z] 2) = .ok := by simpa using h
  obtain ⟨ha, hq⟩ := (k3d3_outcome p !₂[x, y, z]).mp h0
  have hq' : (K3d3.scale L T p).R ≤ ‖L • (!₂[x, y, z] : E3)‖ := by
    rw [norm_scale hL]; exact mul_le_mul_of_nonneg_left hq hL.le
  have e1 : K3d3.burntime p x y z = k3 p.R p.D p.t_d (K3d3.det p) !₂[x, y, z] := by
    simpa using k3d3_eq_spec' p ha !₂[x, y, z] hq
  have h' := (k3d3_outcome (K3d3.scale L T p) (L • !₂[x, y, z])).mpr ⟨K3d3.scale_adm hL hT p ha, hq'⟩
  have e2 := k3d3_eq_spec (K3d3.scale L T p) (L • !₂[x, y, z]) h'
  rw [K3d3.det_scale] at e2
  refine ⟨by simpa using h', ?_⟩
  rw [e1]
  have e3 : K3d3.burntime (K3d3.scale L T p) (L * x) (L * y) (L * z)
      = k3 (K3d3.scale L T p).R (K3d3.scale L T p).D (K3d3.scale L T p).t_d (L • K3d3.det p) (L • !₂[x, y, z]) := by
    simpa using e2
  rw [e3]
  exact k3_scale hL hT _ _ _ _ _

/-! ### DSD cylindrical expansion -/

theorem dsdcyl_outcome_scale (hL : 0 < L) (hT : 0 < T) (p : DSDCyl.P) (x y : ℝ) (h : DSDCyl.outcome p x y = .ok) :
    DSDCyl.outcome (DSDCyl.scale L T p) (L * x) (L * y) = .ok := by
  rw [dsdcyl_outcome] at h ⊢
  obtain ⟨a, b, c, d, e, f, g⟩ := h
  have hLT : 0 < L / T := div_pos hL hT
  have hL2 : 0 < L ^ 2 / T := div_pos (pow_pos hL 2) hT
  exact ⟨mul_pos hL a, mul_pos hL b, mul_lt_mul_of_pos_left c hL, mul_pos hLT d, mul_pos hLT e,
    mul_nonneg hL2.le f, mul_nonneg hL2.le g⟩

theorem dsdcyl_scale (hL : 0 < L) (hT : 0 < T) (p : DSDCyl.P) (x y : ℝ) (h : DSDCyl.outcome p x y = .ok) :
    DSDCyl.burntime (DSDCyl.scale L T p) (L * x) (L * y) = T * DSDCyl.burntime p x y := by
  rw [dsdcyl_eq_spec p x y h, dsdcyl_eq_spec _ _ _ (dsdcyl_outcome_scale hL hT p x y h)]
  have hs : Real.sqrt (L * x * (L * x) + L * y * (L * y)) = L * Real.sqrt (x * x + y * y) := by
    rw [show L * x * (L * x) + L * y * (L * y) = L ^ 2 * (x * x + y * y) by ring, Real.sqrt_mul (sq_nonneg L),
      Real.sqrt_sq hL.le]
  rw [hs]
  exact dsd_scale hL hT _ _ _ _ _ _ _ _

/-- non-vacuity: the defaults of the four classes, with L = 100 (m → cm), T = 10⁶ (s → μs) -/
example : (0 : ℝ) < 100 ∧ (0 : ℝ) < 1000000 ∧ 0 < (⟨1, 0, 0, 0⟩ : K1d2.P).D := by norm_num

end EPV.C08
