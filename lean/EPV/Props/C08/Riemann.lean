/-
C08 — dimensional consistency of the 1-D ideal-gas Riemann solver
(`exactpack/solvers/riemann/{utils,riemann}.py`).

Under a change of units with mass, length and time factors M, L, T > 0, pressures scale by
P = M L⁻¹ T⁻², densities by R = M L⁻³, velocities by U = L T⁻¹, positions by L, times by T;
the adiabatic indices are pure numbers.

* every helper function is homogeneous of the right degree: `sound_speed`, `sie`, `shock`,
  `rarefaction`, `rho_star_shock`, `rho_star_rarefaction`, `shock_velocity` (including its
  `==` side detection), `rho_p_u_rarefaction`, the five classification speeds;
* every star-state residual scales like a velocity, so its root (the star pressure — an atom)
  scales like a pressure (`root_scale`); the bracket bound `pmax = 10·max(pl, pr)` scales like a
  pressure (`pmax_scale`), so the hard-wired bracket [0, pmax] is scale covariant;
* the pattern is unit independent (`classify_scale`) and the WHOLE assembled solution (hand model
  over ℝ) rescales accordingly, in the same region (`solve_scale`).
(P) the `1.1·Xregs` window and `num_x_pts` only affect the internal grid, which is outside the
model; absolute tolerances inside scipy (`xtol = 2e-12`) are not scale free — they live in the atom.
-/
import EPV.Lemmas.Riemann

set_option linter.all false

open EPV EPV.Gen EPV.Model EPV.Spec.Riemann EPV.Riem

namespace EPV.C08.Riemann

noncomputable section

/-- scale factors of pressure, density and velocity under (mass, length, time) ↦ (M, L, T) -/
def sP (M L T : ℝ) : ℝ := M / (L * T ^ 2)
def sR (M L T : ℝ) : ℝ := M / L ^ 3
def sU (M L T : ℝ) : ℝ := L / T

variable {M L T : ℝ}

theorem sP_pos (hM : 0 < M) (hL : 0 < L) (hT : 0 < T) : 0 < sP M L T := by unfold sP; positivity
theorem sR_pos (hM : 0 < M) (hL : 0 < L) (hT : 0 < T) : 0 < sR M L T := by unfold sR; positivity
theorem sU_pos (hM : 0 < M) (hL : 0 < L) (hT : 0 < T) : 0 < sU M L T := by unfold sU; positivity
/-- pressure / density scales like velocity² -/
theorem sP_div_sR (hM : 0 < M) (hL : 0 < L) (hT : 0 < T) : sP M L T / sR M L T = sU M L T ^ 2 := by
  unfold sP sR sU; field_simp

private theorem sqrt_scale {U z : ℝ} (hU : 0 < U) : Real.sqrt (U ^ 2 * z) = U * Real.sqrt z := by
  rw [Real.sqrt_mul (by positivity), Real.sqrt_sq hU.le]

theorem sound_scale (hM : 0 < M) (hL : 0 < L) (hT : 0 < T) (p ρ γ : ℝ) :
    sound (sP M L T * p) (sR M L T * ρ) γ = sU M L T * sound p ρ γ := by
  have hR := sR_pos hM hL hT
  rw [sound_eq, sound_eq, ← sqrt_scale (sU_pos hM hL hT), ← sP_div_sR hM hL hT]
  congr 1; field_simp

theorem sie_scale (hM : 0 < M) (hL : 0 < L) (hT : 0 < T) (p ρ γ : ℝ) :
    sie (sP M L T * p) (sR M L T * ρ) γ = sU M L T ^ 2 * sie p ρ γ := by
  have hR := sR_pos hM hL hT
  rw [sie_eq, sie_eq, ← sP_div_sR hM hL hT]; field_simp; ring

theorem shock_scale (hM : 0 < M) (hL : 0 < L) (hT : 0 < T) (px p ρ u γ : ℝ) :
    shock (sP M L T * px) (sP M L T * p) (sR M L T * ρ) (sU M L T * u) γ = sU M L T * shock px p ρ u γ := by
  have hR := sR_pos hM hL hT
  have hP := sP_pos hM hL hT
  have hU := sU_pos hM hL hT
  rw [shock_eq, shock_eq]
  have e : 2 / (γ + 1) / (sR M L T * ρ) / (sP M L T * px + (γ - 1) / (γ + 1) * (sP M L T * p))
      = (1 / (sP M L T * sR M L T)) * (2 / (γ + 1) / ρ / (px + (γ - 1) / (γ + 1) * p)) := by
    rw [show sP M L T * px + (γ - 1) / (γ + 1) * (sP M L T * p) = sP M L T * (px + (γ - 1) / (γ + 1) * p) by ring]
    field_simp
  have e2 : 1 / (sP M L T * sR M L T) = (sU M L T / sP M L T) ^ 2 := by
    rw [div_pow, ← sP_div_sR hM hL hT]; field_simp
  rw [e, e2, sqrt_scale (by positivity)]
  field_simp

theorem rare_scale (hM : 0 < M) (hL : 0 < L) (hT : 0 < T) (px p ρ u γ : ℝ) :
    rare (sP M L T * px) (sP M L T * p) (sR M L T * ρ) (sU M L T * u) γ = sU M L T * rare px p ρ u γ := by
  have hP := sP_pos hM hL hT
  have h := sound_scale hM hL hT p ρ γ
  rw [sound_eq, sound_eq] at h
  rw [rare_eq, rare_eq, h, mul_div_mul_left _ _ hP.ne']; ring

theorem rhoShock_scale (hM : 0 < M) (hL : 0 < L) (hT : 0 < T) (px p ρ γ : ℝ) :
    rhoShock (sP M L T * px) (sP M L T * p) (sR M L T * ρ) γ = sR M L T * rhoShock px p ρ γ := by
  have hP := sP_pos hM hL hT
  rw [rhoShock_eq, rhoShock_eq]
  rw [show sR M L T * ρ * (sP M L T * p * (γ - 1) + sP M L T * px * (γ + 1))
        = sP M L T * (sR M L T * (ρ * (p * (γ - 1) + px * (γ + 1)))) by ring,
      show sP M L T * px * (γ - 1) + sP M L T * p * (γ + 1) = sP M L T * (px * (γ - 1) + p * (γ + 1)) by ring,
      mul_div_mul_left _ _ hP.ne']
  ring

theorem rhoRare_scale (hM : 0 < M) (hL : 0 < L) (hT : 0 < T) (px p ρ γ : ℝ) :
    rhoRare (sP M L T * px) (sP M L T * p) (sR M L T * ρ) γ = sR M L T * rhoRare px p ρ γ := by
  have hP := sP_pos hM hL hT
  rw [rhoRare_eq, rhoRare_eq, mul_div_mul_left _ _ hP.ne']; ring

/-- the scaled problem -/
theorem scale_proj (q : Prob) (M L T : ℝ) :
    (q.scale M L T).pl = sP M L T * q.pl ∧ (q.scale M L T).rl = sR M L T * q.rl ∧
    (q.scale M L T).ul = sU M L T * q.ul ∧ (q.scale M L T).gl = q.gl ∧
    (q.scale M L T).pr = sP M L T * q.pr ∧ (q.scale M L T).rr = sR M L T * q.rr ∧
    (q.scale M L T).ur = sU M L T * q.ur ∧ (q.scale M L T).gr = q.gr :=
  ⟨rfl, rfl, rfl, rfl, rfl, rfl, rfl, rfl⟩

/-- the `==` side detection is scale invariant -/
theorem fanSgn_scale (hM : 0 < M) (hL : 0 < L) (hT : 0 < T) (q : Prob) (p ρ u : ℝ) :
    fanSgn (q.scale M L T) (sP M L T * p) (sR M L T * ρ) (sU M L T * u) = fanSgn q p ρ u := by
  obtain ⟨b1, b2, b3, b4, b5, b6, b7, b8⟩ := scale_proj q M L T
  simp only [fanSgn, b1, b2, b3, mul_right_inj' (sP_pos hM hL hT).ne', mul_right_inj' (sR_pos hM hL hT).ne',
    mul_right_inj' (sU_pos hM hL hT).ne']

theorem shockVel_scale (hM : 0 < M) (hL : 0 < L) (hT : 0 < T) (q : Prob) (px p ρ u γ : ℝ) (hp : 0 < p) (hγ : 0 < γ) :
    shockVel (q.scale M L T) (sP M L T * px) (sP M L T * p) (sR M L T * ρ) (sU M L T * u) γ
      = sU M L T * shockVel q px p ρ u γ := by
  have hP := sP_pos hM hL hT
  have h := sound_scale hM hL hT p ρ γ
  rw [sound_eq, sound_eq] at h
  rw [shockVel_eq, shockVel_eq, fanSgn_scale hM hL hT, h]
  have e : (γ + 1) * (sP M L T * px) / 2 / γ / (sP M L T * p) = (γ + 1) * px / 2 / γ / p := by field_simp
  rw [e]; ring

theorem fan_scale (hM : 0 < M) (hL : 0 < L) (hT : 0 < T) (q : Prob) (p ρ u γ xd0 x t : ℝ)
    (hp : 0 < p) (hρ : 0 < ρ) (hγ : 0 < γ) (ht : t ≠ 0) :
    fanRho (q.scale M L T) (sP M L T * p) (sR M L T * ρ) (sU M L T * u) γ (L * xd0) (L * x) (T * t)
      = sR M L T * fanRho q p ρ u γ xd0 x t ∧
    fanP (q.scale M L T) (sP M L T * p) (sR M L T * ρ) (sU M L T * u) γ (L * xd0) (L * x) (T * t)
      = sP M L T * fanP q p ρ u γ xd0 x t ∧
    fanU (q.scale M L T) (sP M L T * p) (sR M L T * ρ) (sU M L T * u) γ (L * xd0) (L * x) (T * t)
      = sU M L T * fanU q p ρ u γ xd0 x t := by
  have hU := sU_pos hM hL hT
  have h := sound_scale hM hL hT p ρ γ
  rw [sound_eq, sound_eq] at h
  have ha : 0 < Real.sqrt (γ * p / ρ) := Real.sqrt_pos.mpr (by positivity)
  have e : (L * x - L * xd0) / (T * t) = sU M L T * ((x - xd0) / t) := by unfold sU; field_simp
  have hy : fanY (q.scale M L T) (sP M L T * p) (sR M L T * ρ) (sU M L T * u) γ (L * xd0) (L * x) (T * t)
      = fanY q p ρ u γ xd0 x t := by
    unfold fanY; rw [fanSgn_scale hM hL hT, h, e]; field_simp
  refine ⟨?_, ?_, ?_⟩
  · rw [fanRho_eq, fanRho_eq, hy]; ring
  · rw [fanP_eq, fanP_eq, hy]; ring
  · rw [fanU_eq, fanU_eq, fanSgn_scale hM hL hT, h, e]; ring

/-! ### classification speeds, residuals, classification, pmax -/

theorem uthr_scale (hM : 0 < M) (hL : 0 < L) (hT : 0 < T) (q : Prob) (hq : q.Admissible) {px : ℝ} (hpx : 0 < px) :
    uSCN (q.scale M L T) (sP M L T * px) = sU M L T * uSCN q px ∧
    uNCS (q.scale M L T) (sP M L T * px) = sU M L T * uNCS q px ∧
    uNCR (q.scale M L T) (sP M L T * px) = sU M L T * uNCR q px ∧
    uRCN (q.scale M L T) (sP M L T * px) = sU M L T * uRCN q px ∧
    uRCVR (q.scale M L T) (sP M L T * px) = sU M L T * uRCVR q px := by
  obtain ⟨hpl, hrl, hgl, hpr, hrr, hgr⟩ := hq
  have hP := sP_pos hM hL hT
  have hl := sound_scale hM hL hT q.pl q.rl q.gl
  have hr := sound_scale hM hL hT px q.rr q.gr
  rw [sound_eq, sound_eq] at hl hr
  obtain ⟨b1, b2, b3, b4, b5, b6, b7, b8⟩ := scale_proj q M L T
  have e1 : sP M L T * px / (sP M L T * q.pl) = px / q.pl := mul_div_mul_left _ _ hP.ne'
  have e2 : sP M L T * q.pl / (sP M L T * px) = q.pl / px := mul_div_mul_left _ _ hP.ne'
  have e3 : (q.gl + 1) / 2 / q.gl * (sP M L T * px) / (sP M L T * q.pl) = (q.gl + 1) / 2 / q.gl * px / q.pl := by
    field_simp
  have e4 : (q.gr + 1) / 2 / q.gr * (sP M L T * q.pl) / (sP M L T * px) = (q.gr + 1) / 2 / q.gr * q.pl / px := by
    field_simp
  refine ⟨?_, ?_, ?_, ?_, ?_⟩
  · simp only [uSCN_eq, b1, b2, b3, b4, hl, e1, e3]; ring
  · simp only [uNCS_eq, b1, b3, b6, b8, hr, e2, e4]; ring
  · simp only [uNCR_eq, b1, b3, b6, b8, hr, e2]; ring
  · simp only [uRCN_eq, b1, b2, b3, b4, hl, e1]; ring
  · simp only [uRCVR_eq, b1, b2, b3, b4, b6, b8, hl, hr]; ring

/-- every star-state residual is homogeneous of the degree of a velocity, so its root scales like
a pressure -/
theorem xcall_scale (hM : 0 < M) (hL : 0 < L) (hT : 0 < T) (q : Prob) (px : ℝ) :
    SCS (q.scale M L T) (sP M L T * px) = sU M L T * SCS q px ∧
    SCR (q.scale M L T) (sP M L T * px) = sU M L T * SCR q px ∧
    RCS (q.scale M L T) (sP M L T * px) = sU M L T * RCS q px ∧
    RCR (q.scale M L T) (sP M L T * px) = sU M L T * RCR q px := by
  obtain ⟨b1, b2, b3, b4, b5, b6, b7, b8⟩ := scale_proj q M L T
  have n1 : -(sU M L T * q.ul) = sU M L T * -q.ul := by ring
  have n2 : -(sU M L T * q.ur) = sU M L T * -q.ur := by ring
  refine ⟨?_, ?_, ?_, ?_⟩
  · simp only [SCS_eq, b1, b2, b3, b4, b5, b6, b7, b8, n1, shock_scale hM hL hT]; ring
  · simp only [SCR_eq, b1, b2, b3, b4, b5, b6, b7, b8, n1, n2, shock_scale hM hL hT, rare_scale hM hL hT]; ring
  · simp only [RCS_eq, b1, b2, b3, b4, b5, b6, b7, b8, shock_scale hM hL hT, rare_scale hM hL hT]; ring
  · simp only [RCR_eq, b1, b2, b3, b4, b5, b6, b7, b8, n2, rare_scale hM hL hT]; ring

theorem root_scale (hM : 0 < M) (hL : 0 < L) (hT : 0 < T) (q : Prob) (px : ℝ) :
    (SCS (q.scale M L T) (sP M L T * px) = 0 ↔ SCS q px = 0) ∧
    (SCR (q.scale M L T) (sP M L T * px) = 0 ↔ SCR q px = 0) ∧
    (RCS (q.scale M L T) (sP M L T * px) = 0 ↔ RCS q px = 0) ∧
    (RCR (q.scale M L T) (sP M L T * px) = 0 ↔ RCR q px = 0) := by
  obtain ⟨h1, h2, h3, h4⟩ := xcall_scale hM hL hT q px
  have hU := (sU_pos hM hL hT).ne'
  rw [h1, h2, h3, h4]
  simp [hU]

theorem chain_scale {P U : ℝ} (hP : 0 < P) (hU : 0 < U) (pl pr ur a b c d e : ℝ) :
    chain (P * pl) (P * pr) (U * ur) (U * a) (U * b) (U * c) (U * d) (U * e) = chain pl pr ur a b c d e := by
  simp only [chain, mul_le_mul_iff_right₀ hP, mul_lt_mul_iff_right₀ hP, mul_le_mul_iff_right₀ hU,
    mul_lt_mul_iff_right₀ hU]

/-- the wave pattern does not depend on the system of units -/
theorem classify_scale (hM : 0 < M) (hL : 0 < L) (hT : 0 < T) (q : Prob) (hq : q.Admissible) :
    RiemannIG.classify (toData (q.scale M L T)) = RiemannIG.classify (toData q) := by
  obtain ⟨b1, b2, b3, b4, b5, b6, b7, b8⟩ := scale_proj q M L T
  obtain ⟨u1, u2, u3, u4, u5⟩ := uthr_scale hM hL hT q hq hq.2.2.2.1
  rw [classify_eq, classify_eq, b1, b5, b7, u1, u2, u3, u4, u5]
  exact chain_scale (sP_pos hM hL hT) (sU_pos hM hL hT) _ _ _ _ _ _ _ _

/-- the hard-wired bracket bound `pmax = 10·max(pl, pr)` of the root search scales like a pressure,
so the bracket [0, pmax] is scale covariant (generated model of the constructor, both leaves) -/
theorem pmax_scale (hM : 0 < M) (hL : 0 < L) (hT : 0 < T) (q : Prob) :
    RiemSetup.pmax (toSetup (q.scale M L T)) = sP M L T * RiemSetup.pmax (toSetup q) := by
  have hP := sP_pos hM hL hT
  obtain ⟨b1, b2, b3, b4, b5, b6, b7, b8⟩ := scale_proj q M L T
  -- shape-independent: through the documented form `pmax = 10 · max(pl, pr)` (`pmax_eq`)
  rw [pmax_eq, pmax_eq, b1, b5, ← mul_max_of_nonneg _ _ hP.le]; ring

/-! ### the whole assembled solution -/

/-- a state expressed in the scaled units (e scales like velocity²) -/
def scaleState (M L T : ℝ) (s : RiemannIG.State ℝ) : RiemannIG.State ℝ :=
  { p := sP M L T * s.p, r := sR M L T * s.r, u := sU M L T * s.u, e := sU M L T ^ 2 * s.e }

theorem ux_scale (hM : 0 < M) (hL : 0 < L) (hT : 0 < T) (q : Prob) (px : ℝ) :
    uxS (q.scale M L T) (sP M L T * px) = sU M L T * uxS q px ∧
    uxF (q.scale M L T) (sP M L T * px) = sU M L T * uxF q px := by
  obtain ⟨b1, b2, b3, b4, b5, b6, b7, b8⟩ := scale_proj q M L T
  have z : (0 : ℝ) = sU M L T * 0 := by ring
  constructor
  · simp only [uxS, b1, b2, b3, b4]; rw [z, shock_scale hM hL hT]; ring
  · simp only [uxF, b1, b2, b3, b4]; rw [z, rare_scale hM hL hT]; ring

private theorem bnd {A B x l : ℝ} (hl : 0 < l) (h : A = l * B) : (A ≤ l * x ↔ B ≤ x) := by
  rw [h]; exact mul_le_mul_iff_right₀ hl

/-- C08 for the assembled solution, any given pattern: rescaling the data, the star pressure, the
membrane position, the point and the time rescales p, ρ, u, e accordingly, in the same region -/
theorem solveWith_scale (hM : 0 < M) (hL : 0 < L) (hT : 0 < T) (q : Prob) (hq : q.Admissible)
    (pat : RiemannIG.Pattern) (px xd0 x t : ℝ) (ht : t ≠ 0) :
    RiemannIG.solveWith (toData (q.scale M L T)) pat (sP M L T * px) (L * xd0) (L * x) (T * t)
      = ((RiemannIG.solveWith (toData q) pat px xd0 x t).1,
         scaleState M L T (RiemannIG.solveWith (toData q) pat px xd0 x t).2) := by
  obtain ⟨hpl, hrl, hgl, hpr, hrr, hgr⟩ := id hq
  have hgl0 : 0 < q.gl := by linarith
  have hgr0 : 0 < q.gr := by linarith
  obtain ⟨b1, b2, b3, b4, b5, b6, b7, b8⟩ := scale_proj q M L T
  obtain ⟨x1, x2⟩ := ux_scale hM hL hT q px
  have hL' : RiemannIG.leftState (toData (q.scale M L T)) = scaleState M L T (RiemannIG.leftState (toData q)) := by
    rw [leftState_eq, leftState_eq]; simp only [scaleState, b1, b2, b3, b4, sie_scale hM hL hT]
  have hR' : RiemannIG.rightState (toData (q.scale M L T)) = scaleState M L T (RiemannIG.rightState (toData q)) := by
    rw [rightState_eq, rightState_eq]; simp only [scaleState, b5, b6, b7, b8, sie_scale hM hL hT]
  have hfL : RiemannIG.fanState (toData (q.scale M L T)) (sP M L T * q.pl) (sR M L T * q.rl) (sU M L T * q.ul) q.gl
        (L * x) (L * xd0) (T * t)
      = scaleState M L T (RiemannIG.fanState (toData q) q.pl q.rl q.ul q.gl x xd0 t) := by
    obtain ⟨f1, f2, f3⟩ := fan_scale hM hL hT q q.pl q.rl q.ul q.gl xd0 x t hpl hrl hgl0 ht
    rw [fanState_eq, fanState_eq]; simp only [scaleState, f1, f2, f3, sie_scale hM hL hT]
  have hfR : RiemannIG.fanState (toData (q.scale M L T)) (sP M L T * q.pr) (sR M L T * q.rr) (sU M L T * q.ur) q.gr
        (L * x) (L * xd0) (T * t)
      = scaleState M L T (RiemannIG.fanState (toData q) q.pr q.rr q.ur q.gr x xd0 t) := by
    obtain ⟨f1, f2, f3⟩ := fan_scale hM hL hT q q.pr q.rr q.ur q.gr xd0 x t hpr hrr hgr0 ht
    rw [fanState_eq, fanState_eq]; simp only [scaleState, f1, f2, f3, sie_scale hM hL hT]
  have dl : ∀ q' : Prob, (toData q').pl = q'.pl ∧ (toData q').rl = q'.rl ∧ (toData q').ul = q'.ul ∧
      (toData q').gl = q'.gl ∧ (toData q').pr = q'.pr ∧ (toData q').rr = q'.rr ∧ (toData q').ur = q'.ur ∧
      (toData q').gr = q'.gr := fun _ => ⟨rfl, rfl, rfl, rfl, rfl, rfl, rfl, rfl⟩
  obtain ⟨d1, d2, d3, d4, d5, d6, d7, d8⟩ := dl q
  obtain ⟨e1, e2, e3, e4, e5, e6, e7, e8⟩ := dl (q.scale M L T)
  have svl := shockVel_scale hM hL hT q px q.pl q.rl q.ul q.gl hpl hgl0
  have svr := shockVel_scale hM hL hT q px q.pr q.rr q.ur q.gr hpr hgr0
  unfold RiemannIG.solveWith
  rw [hL']
  have key := assemble_rel (scaleState M L T) x (L * x)
  cases pat
  case SCS =>
    refine key _ _ _ _ 0 (0, _) ?_ ?_
    · rw [vregs_SCS, vregs_SCS]
      simp only [RiemannIG.xregs, List.map, b1, b2, b3, b4, b5, b6, b7, b8, svl, svr, x1]
      repeat (first | exact List.Forall₂.nil
                    | refine List.Forall₂.cons (bnd hL (by unfold sU; field_simp)) ?_)
    · simp only [RiemannIG.regStates, starL_shock _ _ _ (Or.inl rfl), starR_shock _ _ _ (Or.inl rfl),
        ux_shock _ _ _ (Or.inl rfl), hR', x1, b1, b2, b3, b4, b5, b6, b7, b8, rhoShock_scale hM hL hT,
        sie_scale hM hL hT]
      repeat (first | exact List.Forall₂.nil | refine List.Forall₂.cons rfl ?_)
  case SCR =>
    refine key _ _ _ _ 0 (0, _) ?_ ?_
    · rw [vregs_SCR, vregs_SCR]
      simp only [RiemannIG.xregs, List.map, b1, b2, b3, b4, b5, b6, b7, b8, svl, svr, x1, rhoRare_scale hM hL hT,
        sound_scale hM hL hT]
      repeat (first | exact List.Forall₂.nil
                    | refine List.Forall₂.cons (bnd hL (by unfold sU; field_simp)) ?_)
    · simp only [RiemannIG.regStates, starL_shock _ _ _ (Or.inr rfl), starR_fan _ _ _ (Or.inl rfl),
        ux_shock _ _ _ (Or.inr rfl), hR', x1, b1, b2, b3, b4, b5, b6, b7, b8, rhoShock_scale hM hL hT,
        rhoRare_scale hM hL hT, sie_scale hM hL hT, d1, d2, d3, d4, d5, d6, d7, d8, e1, e2, e3, e4, e5, e6, e7, e8,
        hfL, hfR]
      repeat (first | exact List.Forall₂.nil | refine List.Forall₂.cons rfl ?_)
  case RCS =>
    refine key _ _ _ _ 0 (0, _) ?_ ?_
    · rw [vregs_RCS, vregs_RCS]
      simp only [RiemannIG.xregs, List.map, b1, b2, b3, b4, b5, b6, b7, b8, svl, svr, x2, rhoRare_scale hM hL hT,
        sound_scale hM hL hT]
      repeat (first | exact List.Forall₂.nil
                    | refine List.Forall₂.cons (bnd hL (by unfold sU; field_simp)) ?_)
    · simp only [RiemannIG.regStates, starL_fan _ _ _ (Or.inl rfl), starR_shock _ _ _ (Or.inr rfl),
        ux_fan _ _ _ (Or.inl rfl), hR', x2, b1, b2, b3, b4, b5, b6, b7, b8, rhoShock_scale hM hL hT,
        rhoRare_scale hM hL hT, sie_scale hM hL hT, d1, d2, d3, d4, d5, d6, d7, d8, e1, e2, e3, e4, e5, e6, e7, e8,
        hfL, hfR]
      repeat (first | exact List.Forall₂.nil | refine List.Forall₂.cons rfl ?_)
  case RCR =>
    refine key _ _ _ _ 0 (0, _) ?_ ?_
    · rw [vregs_RCR, vregs_RCR]
      simp only [RiemannIG.xregs, List.map, b1, b2, b3, b4, b5, b6, b7, b8, x2, rhoRare_scale hM hL hT,
        sound_scale hM hL hT]
      repeat (first | exact List.Forall₂.nil
                    | refine List.Forall₂.cons (bnd hL (by unfold sU; field_simp)) ?_)
    · simp only [RiemannIG.regStates, starL_fan _ _ _ (Or.inr rfl), starR_fan _ _ _ (Or.inr rfl),
        ux_fan _ _ _ (Or.inr rfl), hR', x2, b1, b2, b3, b4, b5, b6, b7, b8,
        rhoRare_scale hM hL hT, sie_scale hM hL hT, d1, d2, d3, d4, d5, d6, d7, d8, e1, e2, e3, e4, e5, e6, e7, e8,
        hfL, hfR]
      repeat (first | exact List.Forall₂.nil | refine List.Forall₂.cons rfl ?_)
  case RCVCR => simp [RiemannIG.vregs, RiemannIG.xregs, RiemannIG.assemble]
  case none => simp [RiemannIG.vregs, RiemannIG.xregs, RiemannIG.assemble]

/-- C08: dimensional consistency of the ideal-gas Riemann solution.  Rescaling the two states, the
star pressure (the root of a residual that is homogeneous, `root_scale`), the membrane position,
the point and the time by mass/length/time factors gives the same pattern and region and the
correspondingly rescaled p, ρ, u, e. -/
theorem solve_scale (hM : 0 < M) (hL : 0 < L) (hT : 0 < T) (q : Prob) (hq : q.Admissible)
    (px xd0 x t : ℝ) (ht : t ≠ 0) :
    Riem.solve (q.scale M L T) (sP M L T * px) (L * xd0) (L * x) (T * t)
      = ((Riem.solve q px xd0 x t).1, (Riem.solve q px xd0 x t).2.1,
         scaleState M L T (Riem.solve q px xd0 x t).2.2) := by
  simp only [Riem.solve, RiemannIG.solve]
  rw [solveWith_scale hM hL hT q hq _ px xd0 x t ht, classify_scale hM hL hT q hq]

/-- non-vacuity: CGS → SI factors on the Sod data -/
example : (0 : ℝ) < 1 / 1000 ∧ (0 : ℝ) < 1 / 100 ∧ (0 : ℝ) < 1 ∧ sod.Admissible ∧ (1 / 4 : ℝ) ≠ 0 :=
  ⟨by norm_num, by norm_num, by norm_num, sod_admissible.1, by norm_num⟩


end
end EPV.C08.Riemann
