/-
C08 — Mader: a change of units in gives the same change out.

Dimensions (cgs in the docstrings): `p_cj` pressure M L⁻¹ T⁻², `d_cj` and `u_piston` velocity L T⁻¹,
`gam` dimensionless, positions and cell width L, time T; outputs: velocity, sound speed L T⁻¹,
pressure M L⁻¹ T⁻², density M L⁻³, xdet L.

`mader_units`: for all positive scale factors M, L, T, re-expressing every input in the new units
re-expresses every output in the new units, and `rare` takes the same branch.  Tree level, all
real parameters.
-/
import EPV.Lemmas.MaderScaling

set_option linter.all false

open EPV EPV.Gen EPV.MaderL

namespace EPV.C08

theorem mader_units (p : MaderRare.P) (xlab time M L T : ℝ) (hM : 0 < M) (hL : 0 < L) (hT : 0 < T) :
    let p' : MaderRare.P := ⟨p.d_cj * (L / T), p.dx * L, p.gam, p.p_cj * (M / (L * T ^ 2)), p.u_piston * (L / T)⟩
    MaderRare.velocity p' (L * xlab) (T * time) = L / T * MaderRare.velocity p xlab time ∧
    MaderRare.sound_speed p' (L * xlab) (T * time) = L / T * MaderRare.sound_speed p xlab time ∧
    MaderRare.pressure p' (L * xlab) (T * time) = M / (L * T ^ 2) * MaderRare.pressure p xlab time ∧
    MaderRare.density p' (L * xlab) (T * time) = M / L ^ 3 * MaderRare.density p xlab time ∧
    MaderRare.xdet p' (L * xlab) (T * time) = L * MaderRare.xdet p xlab time ∧
    MaderRare.leaf p' (L * xlab) (T * time) = MaderRare.leaf p xlab time := by
  intro p'
  have hm : 0 < M / (L * T ^ 2) := by positivity
  obtain ⟨h1, h2, h3, h4, h5, h6⟩ := mader_scaling p xlab time L T (M / (L * T ^ 2)) hL hT hm
  refine ⟨h1, h2, h3, ?_, h5, h6⟩
  show MaderRare.density (scaleP p L T (M / (L * T ^ 2))) (L * xlab) (T * time) = _
  rw [h4]
  congr 1
  field_simp

example : ∃ M L T : ℝ, 0 < M ∧ 0 < L ∧ 0 < T := ⟨1000, 100, 1000000, by norm_num, by norm_num, by norm_num⟩

end EPV.C08
