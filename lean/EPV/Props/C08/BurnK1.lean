/-
C08 (burn-time share, Kenamond 1; the table for all four solvers is repeated in each file) — dimensional consistency of Kenamond 1-3 and the DSD cylindrical
expansion: re-expressing every input in other units of length (factor L > 0) and time
(factor T > 0) — positions, radii and detonator locations × L, detonation times × T, detonation
speeds × L/T, the DSD curvature coefficients α (a speed times a length) × L²/T — multiplies
the returned burn time by T, returns the positions × L, and the request is accepted in the new
units exactly when it was in the old ones.

Dimension table (from the parameter help strings and module docstrings):

    Kenamond 1   D: L/T    x_d: L    t_d: T                       burntime: T   position_*: L
    Kenamond 2   R: L   D1, D2: L/T   dets: L   t_d[i]: T         burntime: T   position_*: L
    Kenamond 3   R: L   D: L/T   x_d: L   t_d: T                  burntime: T   position_*: L
    DSD cyl.     r_1, r_2: L   D_CJ_i: L/T   alpha_i: L²/T   t_d: T   burntime: T   position_*: L

Stated on the traced models (all of Kenamond 1-3 in 2-D and 3-D), in coordinates.
-/
import EPV.Lemmas.BurnK1

set_option linter.all false

open EPV EPV.Gen EPV.Spec.Burn EPV.Burn

namespace EPV.C08

/-! ### re-expressed parameter sets -/

noncomputable def K1d2.scale (L T : ℝ) (p : K1d2.P) : K1d2.P := ⟨L / T * p.D, T * p.t_d, L * p.xd0, L * p.xd1⟩
noncomputable def K1d3.scale (L T : ℝ) (p : K1d3.P) : K1d3.P := ⟨L / T * p.D, T * p.t_d, L * p.xd0, L * p.xd1, L * p.xd2⟩

variable {L T : ℝ}

private theorem speed_pos (hL : 0 < L) (hT : 0 < T) {D : ℝ} : 0 < L / T * D ↔ 0 < D :=
  ⟨fun h => by
      by_contra hD
      have : L / T * D ≤ 0 := mul_nonpos_of_nonneg_of_nonpos (div_pos hL hT).le (not_lt.mp hD)
      linarith,
   fun h => mul_pos (div_pos hL hT) h⟩

/-! ### Kenamond 1 -/

theorem k1d2_outcome_scale (hL : 0 < L) (hT : 0 < T) (p : K1d2.P) (x y : ℝ) :
    K1d2.outcome (K1d2.scale L T p) (L * x) (L * y) = .ok ↔ K1d2.outcome p x y = .ok := by
  rw [k1d2_outcome, k1d2_outcome]; exact speed_pos hL hT

theorem k1d2_scale (hL : 0 < L) (hT : 0 < T) (p : K1d2.P) (hD : 0 < p.D) (x y : ℝ) :
    K1d2.burntime (K1d2.scale L T p) (L * x) (L * y) = T * K1d2.burntime p x y := by
  have hD' : 0 < (K1d2.scale L T p).D := (speed_pos hL hT).mpr hD
  have e1 : K1d2.burntime p x y = cone p.t_d p.D (K1d2.det p) !₂[x, y] := by
    simpa using k1d2_eq_cone p hD !₂[x, y]
  have e2 : K1d2.burntime (K1d2.scale L T p) (L * x) (L * y)
      = cone (K1d2.scale L T p).t_d (K1d2.scale L T p).D (K1d2.det (K1d2.scale L T p)) (L • !₂[x, y]) := by
    simpa using k1d2_eq_cone (K1d2.scale L T p) hD' (L • !₂[x, y])
  have hdet : K1d2.det (K1d2.scale L T p) = L • K1d2.det p := by
    ext i; fin_cases i <;> simp [K1d2.det, K1d2.scale]
  rw [e1, e2, hdet]
  exact cone_scale hL hT _ _ _ _

theorem k1d3_outcome_scale (hL : 0 < L) (hT : 0 < T) (p : K1d3.P) (x y z : ℝ) :
    K1d3.outcome (K1d3.scale L T p) (L * x) (L * y) (L * z) = .ok ↔ K1d3.outcome p x y z = .ok := by
  rw [k1d3_outcome, k1d3_outcome]; exact speed_pos hL hT

theorem k1d3_scale (hL : 0 < L) (hT : 0 < T) (p : K1d3.P) (hD : 0 < p.D) (x y z : ℝ) :
    K1d3.burntime (K1d3.scale L T p) (L * x) (L * y) (L * z) = T * K1d3.burntime p x y z := by
  have hD' : 0 < (K1d3.scale L T p).D := (speed_pos hL hT).mpr hD
  have e1 : K1d3.burntime p x y z = cone p.t_d p.D (K1d3.det p) !₂[x, y, z] := by
    simpa using k1d3_eq_cone p hD !₂[x, y, z]
  have e2 : K1d3.burntime (K1d3.scale L T p) (L * x) (L * y) (L * z)
      = cone (K1d3.scale L T p).t_d (K1d3.scale L T p).D (K1d3.det (K1d3.scale L T p)) (L • !₂[x, y, z]) := by
    simpa using k1d3_eq_cone (K1d3.scale L T p) hD' (L • !₂[x, y, z])
  have hdet : K1d3.det (K1d3.scale L T p) = L • K1d3.det p := by
    ext i; fin_cases i <;> simp [K1d3.det, K1d3.scale]
  rw [e1, e2, hdet]
  exact cone_scale hL hT _ _ _ _

/-- the returned positions are the input positions: lengths, × L -/
theorem k1d2_positions_scale (hL : 0 < L) (hT : 0 < T) (p : K1d2.P) (hD : 0 < p.D) (x y : ℝ) :
    K1d2.position_x (K1d2.scale L T p) (L * x) (L * y) = L * K1d2.position_x p x y ∧
    K1d2.position_y (K1d2.scale L T p) (L * x) (L * y) = L * K1d2.position_y p x y := by
  have h1 : ¬ K1d2.c0 p x y := by simp only [epv_cond]; exact not_le.mpr hD
  have h2 : ¬ K1d2.c0 (K1d2.scale L T p) (L * x) (L * y) := by
    simp only [epv_cond]; exact not_le.mpr ((speed_pos hL hT).mpr hD)
  simp only [epv_tree, if_neg h1, if_neg h2, epv_leaf, and_self]

/-- non-vacuity: default parameters (L = 100: m → cm, T = 10⁶: s → μs) -/
example : (0 : ℝ) < 100 ∧ (0 : ℝ) < 1000000 ∧ 0 < (⟨1, 0, 0, 0⟩ : K1d2.P).D := by norm_num

end EPV.C08
