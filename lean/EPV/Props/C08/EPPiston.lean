/-
C08 — elastic–plastic piston: a change of units in gives the same change out.

Dimensions: `G`, `Y` and every pressure / stress M L⁻¹ T⁻²; `rho0` and every density M L⁻³; `c0`,
`up` and every wave / particle speed L T⁻¹; specific energies L² T⁻²; `gamma`, `s0` (and the
stretch `F_y` of the finite-strain model) dimensionless.

The constructor models are in let-normal form (see C02/EPPiston.lean): `<m>_units` states that every
generated definition, evaluated at the re-expressed parameters *and* re-expressed earlier
attributes, is the re-expressed value — including the residuals handed to fsolve, so a root stays
a root.  `<m>_consistent_units`: consistent attribute values stay consistent, i.e. the constructor's
results transform with their dimensions.  `epprun_units`: `_run` selects the same region and
returns the re-expressed state (positions L, time T, `xmax` L).

All positive M, L, T; accepted parameters (G, Y, rho0 > 0, up ≥ 0).
-/
import EPV.Lemmas.EPPistonModels
import EPV.Gen.EPPistonRun
import EPV.Tactics
import EPV.Lemmas.Bridge.EosTac

set_option linter.all false

open EPV EPV.Gen EPV.EPP

namespace EPV.C08

noncomputable section

theorem epp_sqrt_units (v X : ℝ) (hv : 0 < v) : Real.sqrt (v ^ 2 * X) = v * Real.sqrt X := by
  rw [Real.sqrt_mul (by positivity), Real.sqrt_sq hv.le]

/-! ### model = 'hypo' -/

/-- the parameters and attributes re-expressed in units scaled by pressure `pr`, density `rh`, velocity `v` -/
def hypoScale (p : EPPistonHypo.P) (pr rh v : ℝ) : EPPistonHypo.P :=
  ⟨p.G * pr, p.Y * pr, p.c0 * v, p.e_y * v ^ 2, p.gamma, p.p2 * pr, p.p_y * pr, p.rho0 * rh, p.rho2 * rh, p.rho_y * rh, p.s0, p.sdev_y * pr, p.up * v, p.vel_y * v, p.wv_el * v, p.wv_pl * v⟩

theorem hypo_units (p : EPPistonHypo.P) (M L T : ℝ) (hM : 0 < M) (hL : 0 < L) (hT : 0 < T)
    (hG : 0 < p.G) (hY : 0 < p.Y) (hρ : 0 < p.rho0) (hup : 0 ≤ p.up) :
    let pr := M / (L * T ^ 2); let rh := M / L ^ 3; let v := L / T
    let p' := hypoScale p pr rh v
    EPPistonHypo.sdev_y p' = pr * EPPistonHypo.sdev_y p ∧
    EPPistonHypo.rho_y p' = rh * EPPistonHypo.rho_y p ∧
    EPPistonHypo.e_y p' = v ^ 2 * EPPistonHypo.e_y p ∧
    EPPistonHypo.p_y p' = pr * EPPistonHypo.p_y p ∧
    EPPistonHypo.wv_el p' = v * EPPistonHypo.wv_el p ∧
    EPPistonHypo.vel_y p' = v * EPPistonHypo.vel_y p ∧
    EPPistonHypo.wv_pl p' = v * EPPistonHypo.wv_pl p ∧
    EPPistonHypo.p2 p' = pr * EPPistonHypo.p2 p ∧
    EPPistonHypo.rho2 p' = rh * EPPistonHypo.rho2 p ∧
    EPPistonHypo.e2 p' = v ^ 2 * EPPistonHypo.e2 p ∧
    EPPistonHypo.plastic_residual p' = pr * EPPistonHypo.plastic_residual p := by
  intro pr rh v p'
  have hpr : 0 < pr := by positivity
  have hrh : 0 < rh := by positivity
  have hv : 0 < v := by positivity
  have hrel : pr = rh * v ^ 2 := by simp only [pr, rh, v]; field_simp
  have c0 : ¬ EPPistonHypo.c0 p := by simp only [epv_cond]; linarith
  have c1 : ¬ EPPistonHypo.c1 p := by simp only [epv_cond]; linarith
  have c2 : ¬ EPPistonHypo.c2 p := by simp only [epv_cond]; linarith
  have c3 : ¬ EPPistonHypo.c3 p := by simp only [epv_cond]; linarith
  have c0' : ¬ EPPistonHypo.c0 p' := by simp only [epv_cond, p', hypoScale]; nlinarith
  have c1' : ¬ EPPistonHypo.c1 p' := by simp only [epv_cond, p', hypoScale]; nlinarith
  have c2' : ¬ EPPistonHypo.c2 p' := by simp only [epv_cond, p', hypoScale]; nlinarith
  have c3' : ¬ EPPistonHypo.c3 p' := by simp only [epv_cond, p', hypoScale]; nlinarith
  simp only [epv_tree, if_neg c0, if_neg c1, if_neg c2, if_neg c3, if_neg c0', if_neg c1', if_neg c2', if_neg c3']
  simp only [epv_leaf, p', hypoScale, Real.rpow_two, Real.rpow_neg_one, hrel]
  have hρ0 : p.rho0 ≠ 0 := hρ.ne'
  have hG0 : p.G ≠ 0 := hG.ne'
  refine ⟨?_, ?_, ?_, ?_, ?_, ?_, ?_, ?_, ?_, ?_, ?_⟩
  · first | ring1 | (field_simp; done) | (field_simp; ring1)
  · -- the scale cancels inside the argument of `exp` / inside the denominator, however the code writes the quotient
    have hs0 : rh * v ^ 2 ≠ 0 := by positivity
    first | ring1 | (epv_eos_unify_args <;> first | ring1 | (field_simp; done) | (field_simp; ring1))
  · first | ring1 | (field_simp; done) | (field_simp; ring1)
  · first | ring1 | (field_simp; done) | (field_simp; ring1)
  · rw [← epp_sqrt_units v _ hv]
    congr 1
    by_cases hd : p.rho0 - p.rho_y = 0
    · have : p.rho0 * rh - p.rho_y * rh = 0 := by rw [← sub_mul, hd, zero_mul]
      simp [hd, this]
    have hd' : p.rho0 * rh - p.rho_y * rh ≠ 0 := by rw [← sub_mul]; exact mul_ne_zero hd hrh.ne'
    field_simp
  · first | ring1 | (field_simp; done) | (field_simp; ring1)
  · first | ring1 | (field_simp; done) | (field_simp; ring1)
  · first | ring1 | (field_simp; done) | (field_simp; ring1)
  · first | ring1 | (field_simp; done) | (field_simp; ring1)
  · first | ring1 | (field_simp; done) | (field_simp; ring1)
  · first | ring1 | (field_simp; done) | (field_simp; ring1)

/-- consistent attribute values stay consistent under a change of units -/
theorem hypo_consistent_units (p : EPPistonHypo.P) (M L T : ℝ) (hM : 0 < M) (hL : 0 < L) (hT : 0 < T)
    (hG : 0 < p.G) (hY : 0 < p.Y) (hρ : 0 < p.rho0) (hup : 0 ≤ p.up) (hc : hypoConsistent p) :
    hypoConsistent (hypoScale p (M / (L * T ^ 2)) (M / L ^ 3) (L / T)) := by
  obtain ⟨h1, h2, h3, h4, h5, h6, h7, h8, h9, h10, h11⟩ := hypo_units p M L T hM hL hT hG hY hρ hup
  obtain ⟨k1, k2, k3, k4, k5, k6, k7, k8⟩ := hc
  unfold hypoConsistent
  rw [h1, h2, h3, h4, h5, h6, h8, h9, ← k1, ← k2, ← k3, ← k4, ← k5, ← k6, ← k7, ← k8]
  simp only [hypoScale]
  refine ⟨?_, ?_, ?_, ?_, ?_, ?_, ?_, ?_⟩ <;> ring

/-! ### model = 'hyperIfin' -/

/-- the parameters and attributes re-expressed in units scaled by pressure `pr`, density `rh`, velocity `v` -/
def ifinScale (p : EPPistonIfin.P) (pr rh v : ℝ) : EPPistonIfin.P :=
  ⟨p.G * pr, p.Y * pr, p.c0 * v, p.e_y * v ^ 2, p.gamma, p.p2 * pr, p.p_y * pr, p.rho0 * rh, p.rho2 * rh, p.rho_y * rh, p.s0, p.sdev_y * pr, p.up * v, p.vel_y * v, p.wv_el * v, p.wv_pl * v⟩

theorem ifin_units (p : EPPistonIfin.P) (M L T : ℝ) (hM : 0 < M) (hL : 0 < L) (hT : 0 < T)
    (hG : 0 < p.G) (hY : 0 < p.Y) (hρ : 0 < p.rho0) (hup : 0 ≤ p.up) :
    let pr := M / (L * T ^ 2); let rh := M / L ^ 3; let v := L / T
    let p' := ifinScale p pr rh v
    EPPistonIfin.sdev_y p' = pr * EPPistonIfin.sdev_y p ∧
    EPPistonIfin.rho_y p' = rh * EPPistonIfin.rho_y p ∧
    EPPistonIfin.e_y p' = v ^ 2 * EPPistonIfin.e_y p ∧
    EPPistonIfin.p_y p' = pr * EPPistonIfin.p_y p ∧
    EPPistonIfin.wv_el p' = v * EPPistonIfin.wv_el p ∧
    EPPistonIfin.vel_y p' = v * EPPistonIfin.vel_y p ∧
    EPPistonIfin.wv_pl p' = v * EPPistonIfin.wv_pl p ∧
    EPPistonIfin.p2 p' = pr * EPPistonIfin.p2 p ∧
    EPPistonIfin.rho2 p' = rh * EPPistonIfin.rho2 p ∧
    EPPistonIfin.e2 p' = v ^ 2 * EPPistonIfin.e2 p ∧
    EPPistonIfin.plastic_residual p' = pr * EPPistonIfin.plastic_residual p := by
  intro pr rh v p'
  have hpr : 0 < pr := by positivity
  have hrh : 0 < rh := by positivity
  have hv : 0 < v := by positivity
  have hrel : pr = rh * v ^ 2 := by simp only [pr, rh, v]; field_simp
  have c0 : ¬ EPPistonIfin.c0 p := by simp only [epv_cond]; linarith
  have c1 : ¬ EPPistonIfin.c1 p := by simp only [epv_cond]; linarith
  have c2 : ¬ EPPistonIfin.c2 p := by simp only [epv_cond]; linarith
  have c3 : ¬ EPPistonIfin.c3 p := by simp only [epv_cond]; linarith
  have c0' : ¬ EPPistonIfin.c0 p' := by simp only [epv_cond, p', ifinScale]; nlinarith
  have c1' : ¬ EPPistonIfin.c1 p' := by simp only [epv_cond, p', ifinScale]; nlinarith
  have c2' : ¬ EPPistonIfin.c2 p' := by simp only [epv_cond, p', ifinScale]; nlinarith
  have c3' : ¬ EPPistonIfin.c3 p' := by simp only [epv_cond, p', ifinScale]; nlinarith
  simp only [epv_tree, if_neg c0, if_neg c1, if_neg c2, if_neg c3, if_neg c0', if_neg c1', if_neg c2', if_neg c3']
  simp only [epv_leaf, p', ifinScale, Real.rpow_two, Real.rpow_neg_one, hrel]
  have hρ0 : p.rho0 ≠ 0 := hρ.ne'
  have hG0 : p.G ≠ 0 := hG.ne'
  refine ⟨?_, ?_, ?_, ?_, ?_, ?_, ?_, ?_, ?_, ?_, ?_⟩
  · first | ring1 | (field_simp; done) | (field_simp; ring1)
  · -- the scale cancels inside the argument of `exp` / inside the denominator, however the code writes the quotient
    have hs0 : rh * v ^ 2 ≠ 0 := by positivity
    first | ring1 | (epv_eos_unify_args <;> first | ring1 | (field_simp; done) | (field_simp; ring1))
  · first | ring1 | (field_simp; done) | (field_simp; ring1)
  · first | ring1 | (field_simp; done) | (field_simp; ring1)
  · rw [← epp_sqrt_units v _ hv]
    congr 1
    by_cases hd : p.rho0 - p.rho_y = 0
    · have : p.rho0 * rh - p.rho_y * rh = 0 := by rw [← sub_mul, hd, zero_mul]
      simp [hd, this]
    have hd' : p.rho0 * rh - p.rho_y * rh ≠ 0 := by rw [← sub_mul]; exact mul_ne_zero hd hrh.ne'
    field_simp
  · first | ring1 | (field_simp; done) | (field_simp; ring1)
  · first | ring1 | (field_simp; done) | (field_simp; ring1)
  · first | ring1 | (field_simp; done) | (field_simp; ring1)
  · first | ring1 | (field_simp; done) | (field_simp; ring1)
  · first | ring1 | (field_simp; done) | (field_simp; ring1)
  · first | ring1 | (field_simp; done) | (field_simp; ring1)

/-- consistent attribute values stay consistent under a change of units -/
theorem ifin_consistent_units (p : EPPistonIfin.P) (M L T : ℝ) (hM : 0 < M) (hL : 0 < L) (hT : 0 < T)
    (hG : 0 < p.G) (hY : 0 < p.Y) (hρ : 0 < p.rho0) (hup : 0 ≤ p.up) (hc : ifinConsistent p) :
    ifinConsistent (ifinScale p (M / (L * T ^ 2)) (M / L ^ 3) (L / T)) := by
  obtain ⟨h1, h2, h3, h4, h5, h6, h7, h8, h9, h10, h11⟩ := ifin_units p M L T hM hL hT hG hY hρ hup
  obtain ⟨k1, k2, k3, k4, k5, k6, k7, k8⟩ := hc
  unfold ifinConsistent
  rw [h1, h2, h3, h4, h5, h6, h8, h9, ← k1, ← k2, ← k3, ← k4, ← k5, ← k6, ← k7, ← k8]
  simp only [ifinScale]
  refine ⟨?_, ?_, ?_, ?_, ?_, ?_, ?_, ?_⟩ <;> ring

/-! ### model = 'hyperFin' -/

/-- the parameters and attributes re-expressed in units scaled by pressure `pr`, density `rh`, velocity `v` -/
def finScale (p : EPPistonFin.P) (pr rh v : ℝ) : EPPistonFin.P :=
  ⟨p.F_y, p.G * pr, p.Y * pr, p.c0 * v, p.e_y * v ^ 2, p.gamma, p.p2 * pr, p.p_y * pr, p.rho0 * rh, p.rho2 * rh, p.rho_y * rh, p.s0, p.sdev_y * pr, p.up * v, p.vel_y * v, p.wv_el * v, p.wv_pl * v⟩

theorem fin_units (p : EPPistonFin.P) (M L T : ℝ) (hM : 0 < M) (hL : 0 < L) (hT : 0 < T)
    (hG : 0 < p.G) (hY : 0 < p.Y) (hρ : 0 < p.rho0) (hup : 0 ≤ p.up) :
    let pr := M / (L * T ^ 2); let rh := M / L ^ 3; let v := L / T
    let p' := finScale p pr rh v
    EPPistonFin.sdev_y p' = pr * EPPistonFin.sdev_y p ∧
    EPPistonFin.rho_y p' = rh * EPPistonFin.rho_y p ∧
    EPPistonFin.e_y p' = v ^ 2 * EPPistonFin.e_y p ∧
    EPPistonFin.p_y p' = pr * EPPistonFin.p_y p ∧
    EPPistonFin.wv_el p' = v * EPPistonFin.wv_el p ∧
    EPPistonFin.vel_y p' = v * EPPistonFin.vel_y p ∧
    EPPistonFin.wv_pl p' = v * EPPistonFin.wv_pl p ∧
    EPPistonFin.p2 p' = pr * EPPistonFin.p2 p ∧
    EPPistonFin.rho2 p' = rh * EPPistonFin.rho2 p ∧
    EPPistonFin.e2 p' = v ^ 2 * EPPistonFin.e2 p ∧
    EPPistonFin.yield_residual p' = pr * EPPistonFin.yield_residual p ∧
    EPPistonFin.plastic_residual p' = pr * EPPistonFin.plastic_residual p := by
  intro pr rh v p'
  have hpr : 0 < pr := by positivity
  have hrh : 0 < rh := by positivity
  have hv : 0 < v := by positivity
  have hrel : pr = rh * v ^ 2 := by simp only [pr, rh, v]; field_simp
  have c0 : ¬ EPPistonFin.c0 p := by simp only [epv_cond]; linarith
  have c1 : ¬ EPPistonFin.c1 p := by simp only [epv_cond]; linarith
  have c2 : ¬ EPPistonFin.c2 p := by simp only [epv_cond]; linarith
  have c3 : ¬ EPPistonFin.c3 p := by simp only [epv_cond]; linarith
  have c0' : ¬ EPPistonFin.c0 p' := by simp only [epv_cond, p', finScale]; nlinarith
  have c1' : ¬ EPPistonFin.c1 p' := by simp only [epv_cond, p', finScale]; nlinarith
  have c2' : ¬ EPPistonFin.c2 p' := by simp only [epv_cond, p', finScale]; nlinarith
  have c3' : ¬ EPPistonFin.c3 p' := by simp only [epv_cond, p', finScale]; nlinarith
  simp only [epv_tree, if_neg c0, if_neg c1, if_neg c2, if_neg c3, if_neg c0', if_neg c1', if_neg c2', if_neg c3']
  simp only [epv_leaf, p', finScale, Real.rpow_two, Real.rpow_neg_one, hrel]
  have hρ0 : p.rho0 ≠ 0 := hρ.ne'
  have hG0 : p.G ≠ 0 := hG.ne'
  refine ⟨?_, ?_, ?_, ?_, ?_, ?_, ?_, ?_, ?_, ?_, ?_, ?_⟩
  · first | ring1 | (field_simp; done) | (field_simp; ring1)
  · first | ring1 | (field_simp; done) | (field_simp; ring1)
  · first | ring1 | (field_simp; done) | (field_simp; ring1)
  · first | ring1 | (field_simp; done) | (field_simp; ring1)
  · rw [← epp_sqrt_units v _ hv]
    congr 1
    by_cases hd : p.rho0 - p.rho_y = 0
    · have : p.rho0 * rh - p.rho_y * rh = 0 := by rw [← sub_mul, hd, zero_mul]
      simp [hd, this]
    have hd' : p.rho0 * rh - p.rho_y * rh ≠ 0 := by rw [← sub_mul]; exact mul_ne_zero hd hrh.ne'
    field_simp
  · first | ring1 | (field_simp; done) | (field_simp; ring1)
  · first | ring1 | (field_simp; done) | (field_simp; ring1)
  · first | ring1 | (field_simp; done) | (field_simp; ring1)
  · first | ring1 | (field_simp; done) | (field_simp; ring1)
  · first | ring1 | (field_simp; done) | (field_simp; ring1)
  · first | ring1 | (field_simp; done) | (field_simp; ring1)
  · first | ring1 | (field_simp; done) | (field_simp; ring1)

/-- consistent attribute values stay consistent under a change of units -/
theorem fin_consistent_units (p : EPPistonFin.P) (M L T : ℝ) (hM : 0 < M) (hL : 0 < L) (hT : 0 < T)
    (hG : 0 < p.G) (hY : 0 < p.Y) (hρ : 0 < p.rho0) (hup : 0 ≤ p.up) (hc : finConsistent p) :
    finConsistent (finScale p (M / (L * T ^ 2)) (M / L ^ 3) (L / T)) := by
  obtain ⟨h1, h2, h3, h4, h5, h6, h7, h8, h9, h10, h11, h12⟩ := fin_units p M L T hM hL hT hG hY hρ hup
  obtain ⟨k1, k2, k3, k4, k5, k6, k7, k8⟩ := hc
  unfold finConsistent
  rw [h1, h2, h3, h4, h5, h6, h8, h9, ← k1, ← k2, ← k3, ← k4, ← k5, ← k6, ← k7, ← k8]
  simp only [finScale]
  refine ⟨?_, ?_, ?_, ?_, ?_, ?_, ?_, ?_⟩ <;> ring

/-! ### `_run`: region selection -/

def eppRunScale (p : EPPistonRun.P) (M L T : ℝ) : EPPistonRun.P :=
  ⟨p.e2 * (L / T) ^ 2, p.e_y * (L / T) ^ 2, p.p2 * (M / (L * T ^ 2)), p.p_y * (M / (L * T ^ 2)), p.rho0 * (M / L ^ 3),
   p.rho2 * (M / L ^ 3), p.rho_y * (M / L ^ 3), p.sdev_y * (M / (L * T ^ 2)), p.up * (L / T), p.vel_y * (L / T),
   p.wv_el * (L / T), p.wv_pl * (L / T), p.xmax * L⟩

theorem epprun_units (p : EPPistonRun.P) (x t M L T : ℝ) (hM : 0 < M) (hL : 0 < L) (hT : 0 < T) :
    EPPistonRun.leaf (eppRunScale p M L T) (L * x) (T * t) = EPPistonRun.leaf p x t ∧
    EPPistonRun.outcome (eppRunScale p M L T) (L * x) (T * t) = EPPistonRun.outcome p x t ∧
    EPPistonRun.position (eppRunScale p M L T) (L * x) (T * t) = L * EPPistonRun.position p x t ∧
    EPPistonRun.density (eppRunScale p M L T) (L * x) (T * t) = M / L ^ 3 * EPPistonRun.density p x t ∧
    EPPistonRun.pressure (eppRunScale p M L T) (L * x) (T * t) = M / (L * T ^ 2) * EPPistonRun.pressure p x t ∧
    EPPistonRun.specific_internal_energy (eppRunScale p M L T) (L * x) (T * t)
      = (L / T) ^ 2 * EPPistonRun.specific_internal_energy p x t ∧
    EPPistonRun.velocity (eppRunScale p M L T) (L * x) (T * t) = L / T * EPPistonRun.velocity p x t ∧
    EPPistonRun.deviatoric_stress (eppRunScale p M L T) (L * x) (T * t)
      = M / (L * T ^ 2) * EPPistonRun.deviatoric_stress p x t := by
  have e0 : EPPistonRun.c0 (eppRunScale p M L T) (L * x) (T * t) ↔ EPPistonRun.c0 p x t := by
    simp only [epv_cond, eppRunScale]
    have : p.xmax * L / (p.wv_el * (L / T)) = T * (p.xmax / p.wv_el) := by
      by_cases h : p.wv_el = 0
      · simp [h]
      · field_simp
    rw [this, mul_lt_mul_iff_right₀ hT]
  have e1 : EPPistonRun.c1 (eppRunScale p M L T) (L * x) (T * t) ↔ EPPistonRun.c1 p x t := by
    simp only [epv_cond, eppRunScale]
    epv_eos_scale_iff L, hL
  have e2 : EPPistonRun.c2 (eppRunScale p M L T) (L * x) (T * t) ↔ EPPistonRun.c2 p x t := by
    simp only [epv_cond, eppRunScale]
    epv_eos_scale_iff L, hL
  have e3 : EPPistonRun.c3 (eppRunScale p M L T) (L * x) (T * t) ↔ EPPistonRun.c3 p x t := by
    simp only [epv_cond, eppRunScale]
    epv_eos_scale_iff L, hL
  simp only [epv_tree]
  by_cases h0 : EPPistonRun.c0 p x t
  · simp only [if_pos h0, if_pos (e0.mpr h0)]
    refine ⟨trivial, trivial, ?_, ?_, ?_, ?_, ?_, ?_⟩ <;> ring1
  simp only [if_neg h0, if_neg (mt e0.mp h0)]
  by_cases h1 : EPPistonRun.c1 p x t
  · simp only [if_pos h1, if_pos (e1.mpr h1)]
    refine ⟨trivial, trivial, ?_, ?_, ?_, ?_, ?_, ?_⟩ <;> simp only [epv_leaf, eppRunScale] <;> ring1
  simp only [if_neg h1, if_neg (mt e1.mp h1)]
  by_cases h2 : EPPistonRun.c2 p x t
  · simp only [if_pos h2, if_pos (e2.mpr h2)]
    by_cases h3 : EPPistonRun.c3 p x t
    · simp only [if_pos h3, if_pos (e3.mpr h3)]
      refine ⟨trivial, trivial, ?_, ?_, ?_, ?_, ?_, ?_⟩ <;> simp only [epv_leaf, eppRunScale] <;> ring1
    · simp only [if_neg h3, if_neg (mt e3.mp h3)]
      refine ⟨trivial, trivial, ?_, ?_, ?_, ?_, ?_, ?_⟩ <;> simp only [epv_leaf, eppRunScale] <;> ring1
  · simp only [if_neg h2, if_neg (mt e2.mp h2)]
    refine ⟨trivial, trivial, ?_, ?_, ?_, ?_, ?_, ?_⟩ <;> simp only [epv_leaf, eppRunScale] <;> ring1

/-- non-vacuity: default problem, cgs → SI-like factors -/
example : ∃ (p : EPPistonIfin.P) (M L T : ℝ), 0 < M ∧ 0 < L ∧ 0 < T ∧ 0 < p.G ∧ 0 < p.Y ∧ 0 < p.rho0 ∧ 0 ≤ p.up :=
  ⟨⟨143/500, 13/5000, 533/1000, 0, 2, 0, 0, 279/100, 0, 0, 67/50, 0, 1/100, 0, 0, 0⟩, 1000, 100, 1000000,
    by norm_num, by norm_num, by norm_num, by norm_num, by norm_num, by norm_num, by norm_num⟩

end

end EPV.C08
