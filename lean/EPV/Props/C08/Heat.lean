/-
C08 (heat share) — dimensional consistency of the heat rod family and of Hutchens 1.

Change of units: lengths × ℓ, times × τ, temperatures × θ  (ℓ, τ ≠ 0).  Dimensions of the parameters:
  x, L, b, r : length;   t : time;   κ, a = k/(ρ c_p) : length²/time;   T_L, T_R, T_b, T_0 : temperature;
  boundary parameters of  α T + β T_x = γ :   α : 1,  β : length,  γ : temperature
  (so γ/α is a temperature and γ/β a temperature gradient, fluxes × θ/ℓ).
For EVERY truncation order N the hand model is covariant:  T(scaled parameters; ℓx, τt) = θ · T(parameters; x, t)
for BC1..BC4 (hence the three sandwiches, through `C07.sandwich*_mapping`) and for Hutchens 1 (both the r ≠ 0 formula
and the value assigned at r = 0).  Each coefficient sequence is covariant separately (k_n × 1/ℓ, A_n, B_n × θ).
The general (Robin) case is NOT covariant: `FindingHeat.lean`.
-/
import EPV.Lemmas.HeatSeries
import EPV.Lemmas.HeatSphere

set_option linter.all false

open EPV EPV.Spec.Heat EPV.Model.HeatSeries EPV.Lemmas.Heat Finset

namespace EPV.C08

noncomputable section

/-- the rod parameters in the new units -/
def scaleRod (ℓ τ θ : ℝ) (p : RodP ℝ) : RodP ℝ :=
  ⟨ℓ ^ 2 / τ * p.κ, ℓ * p.L, θ * p.TL, θ * p.TR, p.α1, ℓ * p.β1, θ * p.γ1, p.α2, ℓ * p.β2, θ * p.γ2⟩

theorem knInt_scale (ℓ L x : ℝ) (hℓ : ℓ ≠ 0) (n : ℕ) : knInt (ℓ * L) n * (ℓ * x) = knInt L n * x := by
  rw [knInt_real, knInt_real]
  by_cases hL : L = 0
  · subst hL; simp
  · field_simp

theorem knHalf_scale (ℓ L x : ℝ) (hℓ : ℓ ≠ 0) (n : ℕ) : knHalf (ℓ * L) n * (ℓ * x) = knHalf L n * x := by
  rw [knHalf_real, knHalf_real]
  by_cases hL : L = 0
  · subst hL; simp
  · field_simp

theorem knInt_scaled (ℓ L : ℝ) (hℓ : ℓ ≠ 0) (n : ℕ) : knInt (ℓ * L) n = knInt L n / ℓ := by
  rw [knInt_real, knInt_real]
  by_cases hL : L = 0
  · subst hL; simp
  · field_simp

theorem knHalf_scaled (ℓ L : ℝ) (hℓ : ℓ ≠ 0) (n : ℕ) : knHalf (ℓ * L) n = knHalf L n / ℓ := by
  rw [knHalf_real, knHalf_real]
  by_cases hL : L = 0
  · subst hL; simp
  · field_simp

/-- the decay exponent is dimensionless -/
theorem decay_scale (ℓ τ κ k t : ℝ) (hℓ : ℓ ≠ 0) (hτ : τ ≠ 0) :
    -(ℓ ^ 2 / τ * κ) * (k / ℓ * (k / ℓ)) * (τ * t) = -κ * (k * k) * t := by
  field_simp

/-- covariance of a series whose wave numbers scale like 1/length and whose coefficients and static part scale
like a temperature -/
theorem rodSeries_scale (N : ℕ) (ℓ τ θ κ : ℝ) (hℓ : ℓ ≠ 0) (hτ : τ ≠ 0) (st st' : ℝ → ℝ) (k k' A A' B B' : ℕ → ℝ) (x t : ℝ)
    (hk : ∀ n, k' n = k n / ℓ) (hA : ∀ n, A' n = θ * A n) (hB : ∀ n, B' n = θ * B n) (hst : st' (ℓ * x) = θ * st x) :
    rodSeries N (ℓ ^ 2 / τ * κ) st' k' A' B' (ℓ * x) (τ * t) = θ * rodSeries N κ st k A B x t := by
  rw [rodSeries_real, rodSeries_real, mul_add, Finset.mul_sum, hst]
  congr 1
  refine Finset.sum_congr rfl fun n _ => ?_
  have e1 : k' n * (ℓ * x) = k n * x := by rw [hk]; field_simp
  rw [e1, hk, decay_scale ℓ τ κ (k n) t hℓ hτ, hA, hB]
  ring

theorem bc1B_scale (ℓ τ θ : ℝ) (p : RodP ℝ) (n : ℕ) : bc1B (scaleRod ℓ τ θ p) n = θ * bc1B p n := by
  rw [bc1B_real, bc1B_real]; simp only [scaleRod]; split_ifs <;> ring
theorem bc2A_scale (ℓ τ θ : ℝ) (hℓ : ℓ ≠ 0) (p : RodP ℝ) (n : ℕ) : bc2A (scaleRod ℓ τ θ p) n = θ * bc2A p n := by
  rw [bc2A_real, bc2A_real]; simp only [scaleRod]
  have : θ * p.γ1 / (ℓ * p.β1) * (ℓ * p.L) = θ * (p.γ1 / p.β1 * p.L) := by
    by_cases hb : p.β1 = 0
    · simp [hb]
    · field_simp
  rw [this]; split_ifs <;> ring
theorem bc3B_scale (ℓ τ θ : ℝ) (hℓ : ℓ ≠ 0) (p : RodP ℝ) (n : ℕ) : bc3B (scaleRod ℓ τ θ p) n = θ * bc3B p n := by
  rw [bc3B_real, bc3B_real]; simp only [scaleRod]
  have : θ * p.γ2 / (ℓ * p.β2) * (ℓ * p.L) = θ * (p.γ2 / p.β2 * p.L) := by
    by_cases hb : p.β2 = 0
    · simp [hb]
    · field_simp
  rw [this]; ring
theorem bc4A_scale (ℓ τ θ : ℝ) (hℓ : ℓ ≠ 0) (p : RodP ℝ) (n : ℕ) : bc4A (scaleRod ℓ τ θ p) n = θ * bc4A p n := by
  rw [bc4A_real, bc4A_real]; simp only [scaleRod]
  have : θ * p.γ1 / (ℓ * p.β1) * (ℓ * p.L) = θ * (p.γ1 / p.β1 * p.L) := by
    by_cases hb : p.β1 = 0
    · simp [hb]
    · field_simp
  rw [this]; ring

theorem zero_scale (θ : ℝ) (n : ℕ) : (zeroCoef n : ℝ) = θ * zeroCoef n := by rw [zeroCoef_real]; ring

/-- **BC1 (PlanarSandwich), every N** -/
theorem rodBC1_units (N : ℕ) (ℓ τ θ : ℝ) (hℓ : ℓ ≠ 0) (hτ : τ ≠ 0) (p : RodP ℝ) (x t : ℝ) :
    rodBC1 N (scaleRod ℓ τ θ p) (ℓ * x) (τ * t) = θ * rodBC1 N p x t := by
  unfold rodBC1
  refine rodSeries_scale N ℓ τ θ p.κ hℓ hτ _ _ _ _ _ _ _ _ x t (knInt_scaled ℓ p.L hℓ) (zero_scale θ) (bc1B_scale ℓ τ θ p) ?_
  rw [bc1Static_real, bc1Static_real]; simp only [scaleRod]
  by_cases hL : p.L = 0
  · simp [hL]; ring
  · field_simp

/-- **BC2 (PlanarSandwichHot), every N** -/
theorem rodBC2_units (N : ℕ) (ℓ τ θ : ℝ) (hℓ : ℓ ≠ 0) (hτ : τ ≠ 0) (p : RodP ℝ) (x t : ℝ) :
    rodBC2 N (scaleRod ℓ τ θ p) (ℓ * x) (τ * t) = θ * rodBC2 N p x t := by
  unfold rodBC2
  refine rodSeries_scale N ℓ τ θ p.κ hℓ hτ _ _ _ _ _ _ _ _ x t (knInt_scaled ℓ p.L hℓ) (bc2A_scale ℓ τ θ hℓ p) (zero_scale θ) ?_
  rw [bc2Static_real, bc2Static_real]; simp only [scaleRod]
  by_cases hb : p.β1 = 0
  · simp [hb]
  · field_simp

/-- **BC3 (PlanarSandwichHalf), every N** -/
theorem rodBC3_units (N : ℕ) (ℓ τ θ : ℝ) (hℓ : ℓ ≠ 0) (hτ : τ ≠ 0) (p : RodP ℝ) (x t : ℝ) :
    rodBC3 N (scaleRod ℓ τ θ p) (ℓ * x) (τ * t) = θ * rodBC3 N p x t := by
  unfold rodBC3
  refine rodSeries_scale N ℓ τ θ p.κ hℓ hτ _ _ _ _ _ _ _ _ x t (knHalf_scaled ℓ p.L hℓ) (zero_scale θ) (bc3B_scale ℓ τ θ hℓ p) ?_
  rw [bc3Static_real, bc3Static_real]; simp only [scaleRod]
  by_cases hb : p.β2 = 0
  · simp [hb]; ring
  · field_simp

/-- **BC4, every N** -/
theorem rodBC4_units (N : ℕ) (ℓ τ θ : ℝ) (hℓ : ℓ ≠ 0) (hτ : τ ≠ 0) (p : RodP ℝ) (x t : ℝ) :
    rodBC4 N (scaleRod ℓ τ θ p) (ℓ * x) (τ * t) = θ * rodBC4 N p x t := by
  unfold rodBC4
  refine rodSeries_scale N ℓ τ θ p.κ hℓ hτ _ _ _ _ _ _ _ _ x t (knHalf_scaled ℓ p.L hℓ) (bc4A_scale ℓ τ θ hℓ p) (zero_scale θ) ?_
  rw [bc4Static_real, bc4Static_real]; simp only [scaleRod]
  by_cases hb : p.β1 = 0
  · simp [hb]; ring
  · field_simp

/-- non-vacuity: centimetres → metres, seconds → milliseconds, eV → K -/
example : (0.01 : ℝ) ≠ 0 ∧ (1000 : ℝ) ≠ 0 := by norm_num

/-! ### Hutchens 1 -/

/-- **Hutchens 1, r ≠ 0 formula, every N**: a = k/(ρ c_p) × ℓ²/τ, b and r × ℓ, t × τ, temperatures × θ -/
theorem hutchens1_units (N : ℕ) (ℓ τ θ : ℝ) (hℓ : ℓ ≠ 0) (hτ : τ ≠ 0) (a b Tb T0 r t : ℝ) :
    h1Series N (ℓ ^ 2 / τ * a) (ℓ * b) (θ * Tb) (θ * T0) (ℓ * r) (τ * t) = θ * h1Series N a b Tb T0 r t := by
  rw [h1Series_eq, h1Series_eq]
  unfold h1ser
  have hsum : (∑ m ∈ range (N - 1), h1K (ℓ * b) (m + 1) * sph (h1c (ℓ * b) (m + 1)) (ℓ * r)
        * Real.exp (-(ℓ ^ 2 / τ * a) * (h1c (ℓ * b) (m + 1) * h1c (ℓ * b) (m + 1)) * (τ * t)))
      = ∑ m ∈ range (N - 1), h1K b (m + 1) * sph (h1c b (m + 1)) r * Real.exp (-a * (h1c b (m + 1) * h1c b (m + 1)) * t) := by
    refine Finset.sum_congr rfl fun m _ => ?_
    have hc : h1c (ℓ * b) (m + 1) = h1c b (m + 1) / ℓ := by
      unfold h1c
      by_cases hb : b = 0
      · simp [hb]
      · field_simp
    have hK : h1K (ℓ * b) (m + 1) = ℓ * h1K b (m + 1) := by unfold h1K; ring
    have hs : sph (h1c b (m + 1) / ℓ) (ℓ * r) = sph (h1c b (m + 1)) r / ℓ := by
      unfold sph
      have : h1c b (m + 1) / ℓ * (ℓ * r) = h1c b (m + 1) * r := by field_simp
      rw [this]
      by_cases hr : r = 0
      · simp [hr]
      · field_simp
    rw [hc, hK, hs, decay_scale ℓ τ a (h1c b (m + 1)) t hℓ hτ]
    field_simp
  rw [hsum]
  ring

/-- the thermal diffusivity a = k/(ρ c_p) scales as length²/time when k, ρ, c_p are rescaled with their own
dimensions (mass × M): k : M L T⁻³ Θ⁻¹, c_p : L² T⁻² Θ⁻¹, ρ : M L⁻³ -/
theorem diffusivity_units (M ℓ τ θ k cp rho : ℝ) (hM : M ≠ 0) (hℓ : ℓ ≠ 0) (hτ : τ ≠ 0) (hθ : θ ≠ 0) :
    (M * ℓ / (τ ^ 3 * θ) * k) / ((M / ℓ ^ 3 * rho) * (ℓ ^ 2 / (τ ^ 2 * θ) * cp)) = ℓ ^ 2 / τ * (k / (rho * cp)) := by
  by_cases h : rho * cp = 0
  · rcases mul_eq_zero.mp h with h | h <;> simp [h]
  · have h1 : rho ≠ 0 := left_ne_zero_of_mul h
    have h2 : cp ≠ 0 := right_ne_zero_of_mul h
    field_simp

/-- the value assigned at r = 0 is a temperature -/
theorem hutchens1_centre_units (θ Tb T0 : ℝ) : h1AtZero (θ * Tb) (θ * T0) = θ * h1AtZero Tb T0 := by
  rw [h1AtZero_real, h1AtZero_real]

end

end EPV.C08
