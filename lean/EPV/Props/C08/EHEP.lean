/-
C08 — escape of HE products: a change of units in gives the same change out.

Dimensions: `D`, `up` velocity L T⁻¹; `rho_0` density M L⁻³; `xtilde`, `xmax` and positions L; `tmax`
and time T; `gamma` and the region code dimensionless.  Outputs: density M L⁻³, pressure M L⁻¹ T⁻²,
specific internal energy L² T⁻², sound speed and velocity L T⁻¹.

`ehep_accepted_units`: the constructor accepts the re-expressed parameters iff it accepts the
original ones.  `ehep_units_<region>`: for accepted parameters and every value of the region atom
the five fields transform with their dimensions (regions I–V incl. the clamped branch of II;
'00', '0V', '0H' and "outside" return constants: zero, resp. ρ₀).  That the *polygon test* gives
the same region for the re-expressed point is a statement about the hand model (half-planes are
homogeneous in (L, T)); it is tested by the oracle `o_detonation.units_ehep` on the real code.
-/
import EPV.Lemmas.EHEP

set_option linter.all false

open EPV EPV.Gen EPV.EHEPL

namespace EPV.C08

noncomputable section

/-- the parameter set re-expressed in units scaled by M, L, T -/
def ehepScale (p : EHEP.P) (M L T : ℝ) : EHEP.P :=
  ⟨p.D * (L / T), p.gamma, p.region, p.rho_0 * (M / L ^ 3), p.tmax * T, p.up * (L / T), p.xmax * L, p.xtilde * L⟩

theorem ehep_accepted_units (p : EHEP.P) (M L T : ℝ) (hM : 0 < M) (hL : 0 < L) (hT : 0 < T) :
    Accepted (ehepScale p M L T) ↔ Accepted p := by
  have hLT : 0 < L / T := by positivity
  have hr : 0 < M / L ^ 3 := by positivity
  unfold Accepted ehepScale
  simp only
  have e3 : p.D * (L / T) / (p.gamma + 1) = p.D / (p.gamma + 1) * (L / T) := by ring
  rw [e3, mul_pos_iff_of_pos_right hLT, mul_pos_iff_of_pos_right hr, mul_nonneg_iff_of_pos_right hLT,
    mul_lt_mul_iff_left₀ hLT, mul_pos_iff_of_pos_right hL, mul_le_mul_iff_left₀ hL, mul_pos_iff_of_pos_right hT]

section
variable (p : EHEP.P) (x t M L T : ℝ) (hM : 0 < M) (hL : 0 < L) (hT : 0 < T) (ha : Accepted p)
include hM hL hT ha

/-- the scaled ehep_atoms of the region formulas -/
theorem ehep_atoms :
    (L * x) / (T * t) = L / T * (x / t) ∧
    (L * x - p.xtilde * L) / (T * t - p.xtilde * L / (p.D * (L / T)))
      = L / T * ((x - p.xtilde) / (t - p.xtilde / p.D)) ∧
    (L * x - p.xtilde * L) / (p.D * (L / T) * (T * t) - p.xtilde * L)
      = (x - p.xtilde) / (p.D * t - p.xtilde) ∧
    p.xtilde * L / (p.D * (L / T)) = T * (p.xtilde / p.D) := by
  have hD : p.D ≠ 0 := ha.1.ne'
  have e4 : p.xtilde * L / (p.D * (L / T)) = T * (p.xtilde / p.D) := by field_simp
  refine ⟨mul_div_mul_comm _ _ _ _, ?_, ?_, e4⟩
  · rw [e4, ← mul_sub, show L * x - p.xtilde * L = L * (x - p.xtilde) by ring, mul_div_mul_comm]
  · rw [show L * x - p.xtilde * L = L * (x - p.xtilde) by ring,
      show p.D * (L / T) * (T * t) - p.xtilde * L = L * (p.D * t - p.xtilde) by field_simp,
      mul_div_mul_left _ _ hL.ne']

/-- statement of the transformation law for one (x, t) -/
def EhepUnitsLaw : Prop :=
  EHEP.density (ehepScale p M L T) (L * x) (T * t) = M / L ^ 3 * EHEP.density p x t ∧
  EHEP.pressure (ehepScale p M L T) (L * x) (T * t) = M / (L * T ^ 2) * EHEP.pressure p x t ∧
  EHEP.specific_internal_energy (ehepScale p M L T) (L * x) (T * t)
    = (L / T) ^ 2 * EHEP.specific_internal_energy p x t ∧
  EHEP.sound_speed (ehepScale p M L T) (L * x) (T * t) = L / T * EHEP.sound_speed p x t ∧
  EHEP.velocity (ehepScale p M L T) (L * x) (T * t) = L / T * EHEP.velocity p x t

theorem ehep_units_I (hr : p.region = 1) : EhepUnitsLaw p x t M L T := by
  have ha' := (ehep_accepted_units p M L T hM hL hT).mpr ha
  obtain ⟨e1, e2, e3, e4⟩ := ehep_atoms p x t M L T hM hL hT ha
  obtain ⟨a1, a2, a3, a4, a5⟩ := region_I p x t ha hr
  obtain ⟨b1, b2, b3, b4, b5⟩ := region_I (ehepScale p M L T) (L * x) (T * t) ha' hr
  have hD : p.D ≠ 0 := ha.1.ne'
  unfold EhepUnitsLaw
  rw [a1, a2, a3, a4, a5, b1, b2, b3, b4, b5]
  simp only [epv_leaf, ehepScale, e1]
  refine ⟨?_, ?_, ?_, ?_, ?_⟩ <;> field_simp

theorem ehep_units_III (hr : p.region = 3) : EhepUnitsLaw p x t M L T := by
  have ha' := (ehep_accepted_units p M L T hM hL hT).mpr ha
  obtain ⟨a1, a2, a3, a4, a5⟩ := region_III p x t ha hr
  obtain ⟨b1, b2, b3, b4, b5⟩ := region_III (ehepScale p M L T) (L * x) (T * t) ha' hr
  have hD : p.D ≠ 0 := ha.1.ne'
  unfold EhepUnitsLaw
  rw [a1, a2, a3, a4, a5, b1, b2, b3, b4, b5]
  simp only [epv_leaf, ehepScale]
  refine ⟨?_, ?_, ?_, ?_, ?_⟩ <;> field_simp

theorem ehep_units_IV (hr : p.region = 4) : EhepUnitsLaw p x t M L T := by
  have ha' := (ehep_accepted_units p M L T hM hL hT).mpr ha
  obtain ⟨e1, e2, e3, e4⟩ := ehep_atoms p x t M L T hM hL hT ha
  obtain ⟨a1, a2, a3, a4, a5⟩ := region_IV p x t ha hr
  obtain ⟨b1, b2, b3, b4, b5⟩ := region_IV (ehepScale p M L T) (L * x) (T * t) ha' hr
  have hD : p.D ≠ 0 := ha.1.ne'
  unfold EhepUnitsLaw
  rw [a1, a2, a3, a4, a5, b1, b2, b3, b4, b5]
  simp only [epv_leaf, ehepScale, e3]
  refine ⟨?_, ?_, ?_, ?_, ?_⟩ <;> field_simp

theorem ehep_units_V (hr : p.region = 5) : EhepUnitsLaw p x t M L T := by
  have ha' := (ehep_accepted_units p M L T hM hL hT).mpr ha
  obtain ⟨e1, e2, e3, e4⟩ := ehep_atoms p x t M L T hM hL hT ha
  obtain ⟨a1, a2, a3, a4, a5⟩ := region_V p x t ha hr
  obtain ⟨b1, b2, b3, b4, b5⟩ := region_V (ehepScale p M L T) (L * x) (T * t) ha' hr
  have hD : p.D ≠ 0 := ha.1.ne'
  unfold EhepUnitsLaw
  rw [a1, a2, a3, a4, a5, b1, b2, b3, b4, b5]
  simp only [epv_leaf, ehepScale, e4, ← mul_sub]
  by_cases hd : t - p.xtilde / p.D = 0
  · simp [hd]
  refine ⟨?_, ?_, ?_, ?_, ?_⟩ <;> field_simp

theorem ehep_c10_units : EHEP.c10 (ehepScale p M L T) (L * x) (T * t) ↔ EHEP.c10 p x t := by
  obtain ⟨e1, e2, e3, e4⟩ := ehep_atoms p x t M L T hM hL hT ha
  have hLT : 0 < L / T := by positivity
  simp only [epv_cond, ehepScale, e1, e2]
  -- the clamp test is `0 ≤ X`, and X scales like a speed — however the code writes X
  have key : ∀ X Y : ℝ, X = L / T * Y → (0 ≤ X ↔ 0 ≤ Y) := fun X Y h => by
    rw [h]; exact mul_nonneg_iff_of_pos_left hLT
  apply key
  ring

theorem ehep_units_II (hr : p.region = 2) : EhepUnitsLaw p x t M L T := by
  have ha' := (ehep_accepted_units p M L T hM hL hT).mpr ha
  obtain ⟨e1, e2, e3, e4⟩ := ehep_atoms p x t M L T hM hL hT ha
  have hD : p.D ≠ 0 := ha.1.ne'
  have hc := ehep_c10_units p x t M L T hM hL hT ha
  unfold EhepUnitsLaw
  by_cases h10 : EHEP.c10 p x t
  · obtain ⟨a1, a2, a3, a4, a5⟩ := region_II p x t ha hr h10
    obtain ⟨b1, b2, b3, b4, b5⟩ := region_II (ehepScale p M L T) (L * x) (T * t) ha' hr (hc.mpr h10)
    rw [a1, a2, a3, a4, a5, b1, b2, b3, b4, b5]
    simp only [epv_leaf, ehepScale, e1, e2]
    refine ⟨?_, ?_, ?_, ?_, ?_⟩ <;> field_simp
  · obtain ⟨a1, a2, a3, a4, a5⟩ := region_II_clamped p x t ha hr h10
    obtain ⟨b1, b2, b3, b4, b5⟩ := region_II_clamped (ehepScale p M L T) (L * x) (T * t) ha' hr (mt hc.mp h10)
    rw [a1, a2, a3, a4, a5, b1, b2, b3, b4, b5]
    simp only [epv_leaf, ehepScale, e1, e2, mul_zero, true_and]
    ring

/-- '00', '0V', '0H' and "outside every polygon": constants -/
theorem ehep_units_const (hr : p.region ≠ 1 ∧ p.region ≠ 2 ∧ p.region ≠ 3 ∧ p.region ≠ 4 ∧ p.region ≠ 5) :
    EhepUnitsLaw p x t M L T := by
  have ha' := (ehep_accepted_units p M L T hM hL hT).mpr ha
  unfold EhepUnitsLaw
  by_cases h6 : p.region = 6
  · obtain ⟨a1, a2, a3, a4, a5⟩ := region_00 p x t ha h6
    obtain ⟨b1, b2, b3, b4, b5⟩ := region_00 (ehepScale p M L T) (L * x) (T * t) ha' h6
    rw [a1, a2, a3, a4, a5, b1, b2, b3, b4, b5]; simp
  by_cases h7 : p.region = 7
  · obtain ⟨a1, a2, a3, a4, a5⟩ := region_0V p x t ha h7
    obtain ⟨b1, b2, b3, b4, b5⟩ := region_0V (ehepScale p M L T) (L * x) (T * t) ha' h7
    rw [a1, a2, a3, a4, a5, b1, b2, b3, b4, b5]; simp
  by_cases h8 : p.region = 8
  · obtain ⟨a1, a2, a3, a4, a5⟩ := region_0H p x t ha h8
    obtain ⟨b1, b2, b3, b4, b5⟩ := region_0H (ehepScale p M L T) (L * x) (T * t) ha' h8
    rw [a1, a2, a3, a4, a5, b1, b2, b3, b4, b5]
    simp only [ehepScale, mul_zero, and_self, and_true]; ring
  · have hn : p.region ≠ 1 ∧ p.region ≠ 2 ∧ p.region ≠ 3 ∧ p.region ≠ 4 ∧ p.region ≠ 5 ∧ p.region ≠ 6 ∧
        p.region ≠ 7 ∧ p.region ≠ 8 := ⟨hr.1, hr.2.1, hr.2.2.1, hr.2.2.2.1, hr.2.2.2.2, h6, h7, h8⟩
    obtain ⟨a1, a2, a3, a4, a5⟩ := region_none p x t ha hn
    obtain ⟨b1, b2, b3, b4, b5⟩ := region_none (ehepScale p M L T) (L * x) (T * t) ha' hn
    rw [a1, a2, a3, a4, a5, b1, b2, b3, b4, b5]; simp

/-- **C08 for EHEP**: every accepted parameter set, every point and time, every value of the region
atom, all positive M, L, T -/
theorem ehep_units : EhepUnitsLaw p x t M L T := by
  by_cases h1 : p.region = 1
  · exact ehep_units_I p x t M L T hM hL hT ha h1
  by_cases h2 : p.region = 2
  · exact ehep_units_II p x t M L T hM hL hT ha h2
  by_cases h3 : p.region = 3
  · exact ehep_units_III p x t M L T hM hL hT ha h3
  by_cases h4 : p.region = 4
  · exact ehep_units_IV p x t M L T hM hL hT ha h4
  by_cases h5 : p.region = 5
  · exact ehep_units_V p x t M L T hM hL hT ha h5
  exact ehep_units_const p x t M L T hM hL hT ha ⟨h1, h2, h3, h4, h5⟩

end

/-- non-vacuity: default parameters, cgs → SI-like factors -/
example : ∃ (p : EHEP.P) (M L T : ℝ), 0 < M ∧ 0 < L ∧ 0 < T ∧ Accepted p := by
  refine ⟨⟨17/20, 3, 1, 8/5, 10, 1/20, 10, 1⟩, 1000, 100, 1000000, by norm_num, by norm_num, by norm_num, ?_⟩
  unfold Accepted; norm_num

end

end EPV.C08
