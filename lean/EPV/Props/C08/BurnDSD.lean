/-
C08 (burn-time share, DSD cylindrical expansion; the table for all four solvers is repeated in each file) — dimensional consistency of Kenamond 1-3 and the DSD cylindrical
expansion: re-expressing every input in other units of length (factor L > 0) and time
(factor T > 0) — positions, radii and detonator locations × L, detonation times × T, detonation
speeds × L/T, the DSD curvature coefficients α (a speed times a length) × L²/T — multiplies
the returned burn time by T, returns the positions × L, and the request is accepted in the new
units exactly when it was in the old ones.

Dimension table (from the parameter help strings and module docstrings):

    Kenamond 1   D: L/T    x_d: L    t_d: T                       burntime: T   position_*: L
    Kenamond 2   R: L   D1, D2: L/T   dets: L   t_d[i]: T         burntime: T   position_*: L
    Kenamond 3   R: L   D: L/T   x_d: L   t_d: T                  burntime: T   position_*: L
    DSD cyl.     r_1, r_2: L   D_CJ_i: L/T   alpha_i: L²/T   t_d: T   burntime: T   position_*: L

Stated on the traced models (all of Kenamond 1-3 in 2-D and 3-D), in coordinates.
-/
import EPV.Lemmas.BurnDSD

set_option linter.all false

open EPV EPV.Gen EPV.Spec.Burn EPV.Burn

namespace EPV.C08

/-! ### re-expressed parameter sets -/

noncomputable def DSDCyl.scale (L T : ℝ) (p : DSDCyl.P) : DSDCyl.P :=
  ⟨L / T * p.D_CJ_1, L / T * p.D_CJ_2, L ^ 2 / T * p.alpha_1, L ^ 2 / T * p.alpha_2, L * p.r_1, L * p.r_2, T * p.t_d⟩

variable {L T : ℝ}

/-! ### DSD cylindrical expansion -/

theorem dsdcyl_outcome_scale (hL : 0 < L) (hT : 0 < T) (p : DSDCyl.P) (x y : ℝ) (h : DSDCyl.outcome p x y = .ok) :
    DSDCyl.outcome (DSDCyl.scale L T p) (L * x) (L * y) = .ok := by
  rw [dsdcyl_outcome] at h ⊢
  obtain ⟨a, b, c, d, e, f, g⟩ := h
  have hLT : 0 < L / T := div_pos hL hT
  have hL2 : 0 < L ^ 2 / T := div_pos (pow_pos hL 2) hT
  exact ⟨mul_pos hL a, mul_pos hL b, mul_lt_mul_of_pos_left c hL, mul_pos hLT d, mul_pos hLT e,
    mul_nonneg hL2.le f, mul_nonneg hL2.le g⟩

theorem dsdcyl_scale (hL : 0 < L) (hT : 0 < T) (p : DSDCyl.P) (x y : ℝ) (h : DSDCyl.outcome p x y = .ok) :
    DSDCyl.burntime (DSDCyl.scale L T p) (L * x) (L * y) = T * DSDCyl.burntime p x y := by
  rw [dsdcyl_eq_spec p x y h, dsdcyl_eq_spec _ _ _ (dsdcyl_outcome_scale hL hT p x y h)]
  have hs : Real.sqrt (L * x * (L * x) + L * y * (L * y)) = L * Real.sqrt (x * x + y * y) := by
    rw [show L * x * (L * x) + L * y * (L * y) = L ^ 2 * (x * x + y * y) by ring, Real.sqrt_mul (sq_nonneg L),
      Real.sqrt_sq hL.le]
  rw [hs]
  exact dsd_scale hL hT _ _ _ _ _ _ _ _

/-- non-vacuity: default parameters (L = 100: m → cm, T = 10⁶: s → μs) -/
example : DSDCyl.outcome ⟨1/2, 1, 1/10, 1/10, 1, 2, 0⟩ 3 0 = .ok := by
  rw [dsdcyl_outcome]; norm_num

end EPV.C08
